// C48 harness: the real governance entry points (minersc update_settings / update_globals, storagesc update_settings /
// commit_settings_changes, faucetsc update-settings, vestingsc vestingsc-update-settings, zcnsc update-global-config),
// executed through the real Chain.UpdateState, against Model/Governance.lean.
package main

import (
	"context"
	"crypto/sha256"
	"encoding/hex"
	"os"
	"runtime/pprof"
	"fmt"
	"math/rand"
	"sort"
	"strconv"
	"strings"
	"sync"

	"0chain.net/chaincore/transaction"
	"0chain.net/core/config"
	"0chain.net/core/viper"
	"0chain.net/smartcontract/minersc"
	"verifharness/lib/corr"
	"verifharness/lib/engine"
)

// settings tables written by xc48 (the `extract` step of ./check C48)
var tablePath = func() *string {
	p := os.Getenv("VERIF_C48_TABLE")
	if p == "" {
		p = "/verif/build/c48_table.json"
	}
	return &p
}()

var ctxBg = context.Background()

// ---- observations for the oracle (side channel keyed by the op sequence) ----------------------------------------

type obs struct {
	op, kind, tag    string
	callerIsOwner    bool
	status           int
	class            string
	leavesChanged    int
	changedFields    []string
	newCost          []string
	supplied         map[string]bool
	validateErr      string
	confChanged      bool
	replayDiff       string
	replayDetail     string
	immutableChanged []string
	unsupplied       []string
	outOfBounds      []string // stored settings outside the bounds the property's "valid" means for them (independent of the contract's validate)
	unreadable       []string // accepted global settings whose value the code's own accessor does not return (it falls back to the local yaml)
	aliased          bool     // two submitted keys are equal up to surrounding white space and letter case
}

func (o *obs) sigTag() string {
	if o.kind == "updateg" {
		return "globals"
	}
	return o.tag
}

var side sync.Map // hash(ops) -> []obs

func hashOps(ops []string) string {
	h := sha256.New()
	for _, o := range ops {
		h.Write([]byte(o))
		h.Write([]byte{'\n'})
	}
	return hex.EncodeToString(h.Sum(nil)[:12])
}

// ---- implementation side ---------------------------------------------------------------------------------------------

func accountPaths() map[string]bool {
	m := map[string]bool{}
	for _, id := range callerIDs() {
		m[id] = true
	}
	for _, c := range getContracts() {
		m[c.addr] = true
	}
	m[engine.NewClient("miner0").ID] = true
	return m
}

func (x *world) contractLeaves() map[string]string {
	lv, err := x.w.Leaves()
	if err != nil {
		panic(err)
	}
	acc := accountPaths()
	res := map[string]string{}
	for p, b := range lv {
		if acc[p] {
			continue
		}
		res[p] = string(b)
	}
	return res
}

func diffLeaves(a, b map[string]string) int {
	n := 0
	for k, v := range a {
		if w, ok := b[k]; !ok || w != v {
			n++
		}
	}
	for k := range b {
		if _, ok := a[k]; !ok {
			n++
		}
	}
	return n
}

func canonKey(tag, k string) string {
	if tag == "storage" {
		return strings.TrimSpace(k)
	}
	return k
}

func sortedKeyErr(bad map[string]string) string {
	var a []string
	for k, c := range bad {
		a = append(a, esc(k)+":"+c)
	}
	sort.Strings(a)
	if len(a) == 0 {
		return "err key ?"
	}
	return "err key " + strings.Join(a, ",")
}

// runUpdate executes one governance call (with observations and replays); returns the answer line.
func (x *world) runUpdate(kind string, c *contract, tag, fn, caller string, kvs []kv, special string, replays int, o *obs) string {
	x.w.NextBlock() // seal: the call runs alone in a fresh block, so it can be replayed on the same prior state
	st := x.w.State
	owner := ""
	if kind == "updateg" {
		fs, _ := fieldsOf(st, getContracts()["miner"])
		owner = strings.TrimPrefix(fs["owner_id"], "s:")
	} else {
		fs, _ := fieldsOf(st, c)
		owner = strings.TrimPrefix(fs["owner_id"], "s:")
	}
	owner, _ = unesc(owner)
	o.callerIsOwner = caller == owner
	before := x.contractLeaves()
	fBefore, cBefore := fieldsOf(st, c)
	_, gBefore := globalsOf(st)
	stagedBefore := strMap(node(st, stagedKey), "Fields")
	input := inputJSON(kvs, special)
	nonceBefore := x.nonce[caller]
	t0 := x.mkTxn(caller, c.addr, fn, input, nonceBefore+1)
	res := x.exec(t0)
	st = x.w.State
	after := x.contractLeaves()
	o.status = res.status
	o.leavesChanged = diffLeaves(before, after)
	o.supplied = map[string]bool{}
	folded := map[string]bool{}
	for _, p := range kvs {
		o.supplied[canonKey(tag, p.k)] = true
		f := strings.ToLower(strings.TrimSpace(p.k))
		if folded[f] {
			o.aliased = true
		}
		folded[f] = true
	}
	if tag == "storage" {
		for k := range stagedBefore {
			o.supplied[canonKey(tag, k)] = true
		}
	}
	// replays on the same prior state: other runs of the runtime's map iteration
	for i := 0; i < replays && o.replayDiff == ""; i++ {
		r2 := x.replayOnPrev(t0, i)
		switch {
		case r2.status != res.status || r2.output != res.output:
			o.replayDiff = "output"
			o.replayDetail = fmt.Sprintf("status %d output %q  versus  status %d output %q", res.status, res.output, r2.status, r2.output)
		case r2.root != res.root:
			o.replayDiff = "root"
			o.replayDetail = fmt.Sprintf("state root %s versus %s", res.root[:16], r2.root[:16])
		}
	}
	if res.status != 0 {
		x.nonce[caller] = nonceBefore + 1 // success and chargeable failure both consume the nonce
	}
	if res.status == 0 {
		o.class = "rejected"
		return "err engine " + esc(res.err)
	}
	if res.status == transaction.TxnSuccess {
		o.class = "ok"
		fAfter, cAfter := fieldsOf(st, c)
		for k, v := range fAfter {
			if fBefore[k] != v {
				o.changedFields = append(o.changedFields, k)
				o.confChanged = true
				if !o.supplied[k] {
					o.unsupplied = append(o.unsupplied, k)
				}
			}
		}
		known := map[string]bool{}
		for _, f := range c.costFns {
			known[strings.ToLower(f)] = true
		}
		for k, v := range cAfter {
			if cBefore[k] != v {
				o.confChanged = true
				if _, had := cBefore[k]; !had && !known[k] {
					o.newCost = append(o.newCost, k)
				}
			}
		}
		if kind == "updateg" {
			o.unreadable = x.unreadable(kvs)
			_, gAfter := globalsOf(st)
			mut := map[string]bool{}
			for _, e := range table().Globals {
				mut[e.Name] = e.Mutable
			}
			for k, v := range gAfter {
				if w, ok := gBefore[k]; !ok || w != v {
					if !o.supplied[k] {
						o.unsupplied = append(o.unsupplied, k)
					}
					if !mut[k] {
						o.immutableChanged = append(o.immutableChanged, k)
					}
				}
			}
		} else if o.confChanged {
			for name, lo := range specMin[tag] {
				if v, ok := fAfter[name]; ok && strings.HasPrefix(v, "i:") && fBefore[name] != v {
					if n, err := strconv.ParseInt(v[2:], 10, 64); err == nil && n < lo && !(tag == "vesting" || tag == "storage" && x.fork && kind != "commit") {
						o.outOfBounds = append(o.outOfBounds, fmt.Sprintf("%s stored=%d minimum=%d", name, n, lo))
					}
				}
			}
			if err := c.validate(x.w.SCtx()); err != nil {
				o.validateErr = err.Error()
			}
		}
		if res.output != "" {
			return "ok 1"
		}
		return "ok 0"
	}
	ctag := tag
	if kind == "updateg" {
		ctag = "globals"
	}
	k, detail := classify(ctag, res.output)
	o.class = k
	switch k {
	case "unauthorized":
		return "err unauthorized"
	case "decode":
		return "err decode"
	case "invalid":
		return "err invalid " + detail
	case "key":
		// the real code's own verdict on every key alone (dry runs): the set the first error is drawn from
		bad := map[string]string{}
		for _, p := range kvs {
			if msg := x.probe(owner, c.addr, fn, p); msg != "" {
				if kk, cls := classify(ctag, msg); kk == "key" {
					bad[p.k] = cls
				}
			}
		}
		return sortedKeyErr(bad)
	}
	return "err other " + esc(detail)
}

// specMin: lower bounds of duration / count settings as the validation messages state them ("individual reset is too short" below
// one second, "time_unit less than 1s", "invalid min_duration (< 1s)", "min_n is too small" …), in the stored unit (ns for
// durations). Independent of the contracts' validate functions, so that an edit of those cannot move the bound unnoticed.
// (vestingsc and storagesc-after-demeter save without validating at all: separate known findings, not re-reported here.)
var specMin = map[string]map[string]int64{
	"faucet":  {"individual_reset": 1000000000, "pour_amount": 1},
	"storage": {"time_unit": 1000000001, "health_check_period": 1, "max_delegates": 1, "max_blobbers_per_allocation": 1, "validators_per_challenge": 1},
	"miner":   {"min_n": 1, "min_s": 1, "max_delegates": 1},
	"zcn":     {"health_check_period": 1, "max_delegates": 1, "min_stake": 1, "max_fee": 1},
}

var viperMu sync.Mutex

// unreadable: "only valid values" for update_globals — every accepted value must be what the code's accessor for that setting
// returns, whatever the node-local configuration says. The accessor is evaluated under two different local yaml values; if its
// answer follows the local value, the stored one is not readable (silent fallback in GlobalSettings.GetXxx).
func (x *world) unreadable(kvs []kv) []string {
	ver, fields := globalsOf(x.w.State)
	gl := &minersc.GlobalSettings{Version: ver, Fields: fields}
	var res []string
	for _, p := range kvs {
		idx, ok := globalIndex(p.k)
		ct := ""
		for _, r := range table().Readers {
			if r.Name == p.k {
				ct = r.CT
			}
		}
		if !ok || ct == "" || ct == "string" || ct == "strings" {
			continue // not read from the state, or read as the raw string
		}
		a, b := localProbes(ct)
		viperMu.Lock()
		old := viper.Get(p.k)
		viper.Set(p.k, a)
		ra := readAs(gl, idx, ct)
		viper.Set(p.k, b)
		rb := readAs(gl, idx, ct)
		viper.Set(p.k, old)
		viperMu.Unlock()
		if ra != rb {
			res = append(res, fmt.Sprintf("%s stored=%q read-as=%s local=%v->%s local=%v->%s", p.k, fields[p.k], ct, a, ra, b, rb))
		}
	}
	return res
}

func localProbes(ct string) (interface{}, interface{}) {
	switch ct {
	case "boolean":
		return true, false
	case "duration":
		return "11s", "22s"
	case "float64":
		return 0.11, 0.22
	}
	return 11, 22
}

func globalIndex(name string) (config.GlobalSetting, bool) {
	for i, n := range config.GlobalSettingName {
		if n == name && i < int(config.NumOfGlobalSettings) {
			return config.GlobalSetting(i), true
		}
	}
	return 0, false
}

func (x *world) inforce(name string) string {
	ver, fields := globalsOf(x.w.State)
	gl := &minersc.GlobalSettings{Version: ver, Fields: fields}
	idx, ok := globalIndex(name)
	if !ok {
		return "inforce-unknown"
	}
	ct := readerCT(name)
	return readAs(gl, idx, ct)
}

// readerCT: the type of the accessor through which the code reads the setting (chain.ConfigImpl.Update / config.DbSettings.Update,
// extracted by xc48); the declared type for settings nobody reads from the state.
func readerCT(name string) string {
	for _, r := range table().Readers {
		if r.Name == name {
			return r.CT
		}
	}
	for _, e := range table().Globals {
		if e.Name == name {
			return e.CT
		}
	}
	return ""
}

func readAs(gl *minersc.GlobalSettings, idx config.GlobalSetting, ct string) string {
	switch ct {
	case "int":
		v, _ := gl.GetInt(idx)
		return "inforce i:" + strconv.Itoa(v)
	case "int32":
		v, _ := gl.GetInt32(idx)
		return "inforce i:" + strconv.FormatInt(int64(v), 10)
	case "int64":
		v, _ := gl.GetInt64(idx)
		return "inforce i:" + strconv.FormatInt(v, 10)
	case "duration":
		v, _ := gl.GetDuration(idx)
		return "inforce i:" + strconv.FormatInt(int64(v), 10)
	case "float64":
		v, _ := gl.GetFloat64(idx)
		return "inforce f:" + strconv.FormatFloat(v, 'f', -1, 64)
	case "boolean":
		v, _ := gl.GetBool(idx)
		return "inforce b:" + strconv.FormatBool(v)
	case "string":
		v, _ := gl.GetString(idx)
		return "inforce s:" + esc(v)
	case "strings":
		v, _ := gl.GetStrings(idx)
		return "inforce s:" + esc(strings.Join(v, ","))
	}
	return "inforce-unknown"
}

func sameTokens(a []string, b string) bool {
	x := append([]string(nil), a...)
	y := strings.Fields(b)
	sort.Strings(x)
	sort.Strings(y)
	return strings.Join(x, " ") == strings.Join(y, " ")
}

func impl(ops []string) []string {
	outs := make([]string, len(ops))
	var x *world
	var observations []obs
	cs := getContracts()
	loaded := map[string]bool{}
	for i, op := range ops {
		w := strings.Fields(op)
		if len(w) == 0 {
			outs[i] = "bad-op"
			continue
		}
		if w[0] == "init" && len(w) == 1 {
			x = nil
			loaded = map[string]bool{}
			outs[i] = "ok"
			continue
		}
		if w[0] == "fork" && len(w) == 2 && (w[1] == "0" || w[1] == "1") {
			// the fork table is part of the genesis state: the world is created here
			if x == nil || !x.tainted {
				x = newWorld(w[1] == "1")
				outs[i] = "ok"
			} else {
				outs[i] = "tainted"
			}
			continue
		}
		if x == nil {
			x = newWorld(false)
		}
		if x.tainted {
			outs[i] = "tainted"
			continue
		}
		o := obs{op: op, kind: w[0]}
		// the model knows the genesis values only through `load`: without it both sides answer not-loaded
		need := ""
		switch w[0] {
		case "update", "dump":
			if len(w) >= 2 {
				need = w[1]
			}
		case "updateg":
			need = "g+miner"
		case "dumpg", "inforce":
			need = "g"
		case "commit":
			need = "storage"
		}
		if need != "" && cs[need] != nil && !loaded[need] || need == "g" && !loaded["g"] || need == "g+miner" && !(loaded["g"] && loaded["miner"]) {
			outs[i] = "not-loaded"
			continue
		}
		switch {
		case w[0] == "load" && len(w) >= 2 && cs[w[1]] != nil:
			if sameTokens(w[2:], strings.TrimPrefix(dumpCfg(x.w.State, cs[w[1]]), "cfg")) {
				outs[i] = "ok"
				loaded[w[1]] = true
			} else {
				outs[i] = "load-mismatch " + dumpCfg(x.w.State, cs[w[1]])
			}
		case w[0] == "loadg" && len(w) >= 2:
			ver, f := globalsOf(x.w.State)
			if sameTokens(w[1:], strings.TrimPrefix(dumpMap(fmt.Sprintf("globals %d", ver), f), "globals")) {
				outs[i] = "ok"
				loaded["g"] = true
			} else {
				outs[i] = "load-mismatch"
			}
		case (w[0] == "update" || w[0] == "taint") && len(w) >= 3 && cs[w[1]] != nil:
			c := cs[w[1]]
			caller, ok := unesc(w[2])
			var kvs []kv
			special := ""
			if len(w) == 4 && (w[3] == "!bad" || w[3] == "!null") {
				special = w[3]
			} else if ok {
				kvs, ok = parseKVs(w[3:])
			}
			if !ok {
				outs[i] = "bad-op"
				break
			}
			o.tag = c.tag
			replays := 0
			if len(kvs) >= 2 {
				replays = 3
			}
			if w[0] == "taint" {
				replays = 12
			}
			outs[i] = x.runUpdate(w[0], c, c.tag, c.fn, caller, kvs, special, replays, &o)
			if w[0] == "taint" {
				x.tainted = true
				outs[i] = "tainted"
			}
			observations = append(observations, o)
		case w[0] == "updateg" && len(w) >= 2:
			c := cs["miner"]
			caller, ok := unesc(w[1])
			var kvs []kv
			special := ""
			if len(w) == 3 && (w[2] == "!bad" || w[2] == "!null") {
				special = w[2]
			} else if ok {
				kvs, ok = parseKVs(w[2:])
			}
			if !ok {
				outs[i] = "bad-op"
				break
			}
			o.tag = "miner"
			replays := 0
			if len(kvs) >= 2 {
				replays = 3
			}
			outs[i] = x.runUpdate("updateg", c, "miner", "update_globals", caller, kvs, special, replays, &o)
			observations = append(observations, o)
		case w[0] == "commit" && len(w) == 1:
			c := cs["storage"]
			o.tag = "storage"
			n := len(strMap(node(x.w.State, stagedKey), "Fields"))
			replays := 0
			if n >= 2 {
				replays = 3
			}
			outs[i] = x.runUpdate("commit", c, "storage", "commit_settings_changes", engine.NewClient("bob").ID, nil, "!null", replays, &o)
			observations = append(observations, o)
		case w[0] == "dump" && len(w) == 2 && cs[w[1]] != nil:
			outs[i] = dumpCfg(x.w.State, cs[w[1]])
		case w[0] == "dumpg" && len(w) == 1:
			ver, f := globalsOf(x.w.State)
			outs[i] = dumpMap(fmt.Sprintf("globals %d", ver), f)
		case w[0] == "staged" && len(w) == 1:
			outs[i] = dumpMap("staged", strMap(node(x.w.State, stagedKey), "Fields"))
		case w[0] == "inforce" && len(w) == 3:
			name, ok := unesc(w[1])
			if !ok {
				outs[i] = "bad-op"
				break
			}
			viperMu.Lock()
			outs[i] = x.inforce(name)
			viperMu.Unlock()
		default:
			outs[i] = "bad-op"
		}
	}
	side.Store(hashOps(ops), observations)
	return outs
}

// ---- oracle: the property on the real code's behaviour (no reference to the model) ----------------------------

func oracle(ops, outs []string) *corr.Violation {
	v, ok := side.Load(hashOps(ops))
	if !ok {
		return nil
	}
	mk := func(sig, msg string) *corr.Violation {
		return &corr.Violation{Signature: "C48:" + sig, Message: msg, Ops: ops, Impl: outs}
	}
	for _, o := range v.([]obs) {
		isUpdate := o.kind == "update" || o.kind == "updateg" || o.kind == "taint"
		switch {
		case isUpdate && !o.callerIsOwner && o.leavesChanged > 0:
			return mk("non-owner-changed-settings", fmt.Sprintf("%q: the caller is not the owner, yet %d contract nodes changed", o.op, o.leavesChanged))
		case o.status != transaction.TxnSuccess && o.leavesChanged > 0:
			return mk("rejected-call-changed-state", fmt.Sprintf("%q was rejected (%s), yet %d contract nodes changed", o.op, o.class, o.leavesChanged))
		case len(o.immutableChanged) > 0:
			return mk("immutable-global-changed", fmt.Sprintf("%q changed global settings marked immutable: %v", o.op, o.immutableChanged))
		case len(o.outOfBounds) > 0:
			return mk("invalid-value-stored:"+o.tag+"."+strings.SplitN(o.outOfBounds[0], " ", 2)[0], fmt.Sprintf("%q succeeded and stored a value below the documented bound: %v", o.op, o.outOfBounds))
		case len(o.unreadable) > 0:
			return mk("accepted-value-unreadable:"+strings.SplitN(o.unreadable[0], " ", 2)[0], fmt.Sprintf("%q was accepted, but the accessor the code reads the setting with does not return the stored value — it returns the node-local yaml value: %v", o.op, o.unreadable))
		case len(o.unsupplied) > 0:
			return mk("unsupplied-setting-changed", fmt.Sprintf("%q changed settings that were not in the submitted map: %v", o.op, o.unsupplied))
		case o.replayDiff == "root" || o.replayDiff == "output" && o.status == transaction.TxnSuccess:
			why := "-early-return"
			if o.aliased {
				why = "-alias"
			}
			return mk(o.sigTag()+"-state-depends-on-map-order"+why, fmt.Sprintf("%q executed twice on the same prior state: %s", o.op, o.replayDetail))
		// (a failing call whose error TEXT differs between runs leaves the settings alone: that is C06's subject — outputs — not C48's)
		case o.validateErr != "":
			return mk(o.tag+"-"+strings.Replace(o.kind, "taint", "update", 1)+"-saved-invalid-config", fmt.Sprintf("%q succeeded and the stored configuration fails the contract's own validate: %s", o.op, o.validateErr))
		case len(o.newCost) > 0:
			return mk(o.tag+"-unknown-cost-key-accepted", fmt.Sprintf("%q succeeded and added cost entries for names that are not settings: %v", o.op, o.newCost))
		}
	}
	return nil
}

// ---- generator --------------------------------------------------------------------------------------------------------------

var (
	loadOnce  sync.Once
	loadLines [2][]string
)

// initial `load` lines: the real genesis configuration, dumped once per fork setting
func loads(fork bool) []string {
	loadOnce.Do(func() {
		for fi, f := range []bool{false, true} {
			x := newWorld(f)
			var ls []string
			for _, t := range contractOrder {
				ls = append(ls, "load "+t+strings.TrimPrefix(dumpCfg(x.w.State, getContracts()[t]), "cfg"))
			}
			ver, fl := globalsOf(x.w.State)
			ls = append(ls, strings.TrimRight("loadg "+strings.TrimPrefix(dumpMap(fmt.Sprintf("globals %d", ver), fl), "globals "), " "))
			loadLines[fi] = ls
		}
	})
	if fork {
		return loadLines[1]
	}
	return loadLines[0]
}

func pick(r *rand.Rand, xs ...string) string { return xs[r.Intn(len(xs))] }

var smallInts = []string{"0", "1", "2", "3", "5", "8", "10", "50", "200", "-1"}

func genValue(r *rand.Rand, kind string) string {
	bad := r.Intn(10) == 0
	switch kind {
	case "int", "int64", "int32", "cost", "uint64":
		if bad {
			return pick(r, "x", "", "1.5", "0x10", "9223372036854775808", "-", "1_0", "--1", " 5", "2147483648", "-9223372036854775809")
		}
		if r.Intn(3) == 0 {
			// boundaries of every narrower integer type, and spellings only some parsers accept
			return pick(r, "2147483647", "2147483648", "3000000000", "4294967295", "4294967296", "9007199254740993", "9223372036854775807", "9223372036854775808",
				"-2147483648", "-2147483649", "-9223372036854775808", "+4", "007", "1e3", "0x10", " 5", "5 ", "1000000")
		}
		return smallInts[r.Intn(len(smallInts))]
	case "coin", "rawcoin", "mult":
		if bad && kind == "mult" {
			// currency.MultFloat64(1e10, f) is modelled for integer f only (binary64 rounding of the product otherwise)
			return pick(r, "x", "", "-1", "-0.5", "1.2.3", " 1")
		}
		if bad {
			return pick(r, "x", "", "-1", "-0.5", "0.00000000001", "922337204", "1.2.3", " 1", "9999999999")
		}
		if kind == "mult" {
			return pick(r, "0", "1", "2", "10", "100", "900719", "-0")
		}
		return pick(r, "0", "1", "2", "0.5", "0.1", "10", "100", "1000", "0.0000000001", "922337203", "2.5", "-0", ".5", "5.", "+3", "20000")
	case "float64":
		if bad {
			return pick(r, "x", "", ".", "0.5.5", " 1", "1,5")
		}
		return pick(r, "0", "0.5", "1", "0.25", "0.1", "0.99", "1.0", "2", "10", "0.05", "1.000001", "-0.1", "-0", ".5", "5.", "+1", "-1", "0.000000001")
	case "duration":
		if bad {
			return pick(r, "", "5", "1d", "s", "1 s", "2562048h", "x", "1h 30m", "--1s")
		}
		if r.Intn(2) == 0 {
			// the bounds of the validate conditions (1 s, 0) just below / at / just above, in the setting's unit and in finer units
			return pick(r, "999ms", "500ms", "499ms", "1s", "1000ms", "1001ms", "1500ms", "999999999ns", "1000000000ns", "1000000001ns", "1999ms", "2s", "1ns", "0s", "-1ns", "999us", "1000001us")
		}
		return pick(r, "0", "1s", "2s", "90s", "2m", "1h", "1h30m", "100ms", "1000000000ns", "999ms", "-5s", "2562047h", "+3m", "720h", "1001ms")
	case "boolean":
		if bad {
			return pick(r, "yes", "", "2", "tRuE")
		}
		return pick(r, "true", "false", "1", "0", "t", "F", "TRUE", "True")
	case "key":
		if bad {
			return pick(r, "abc", "zz", "0g", " ")
		}
		ids := callerIDs()
		if r.Intn(8) == 0 {
			return pick(r, "", "ABCD", "12")
		}
		return ids[r.Intn(len(ids))]
	case "string":
		ids := callerIDs()
		return pick(r, ids[r.Intn(len(ids))], "static", "dynamic", "", "bls0chain", "a b")
	case "strings":
		return pick(r, "a,b", "", "contributeMpk,shareSignsOrShares", "x")
	}
	return "1"
}

type gkey struct{ name, kind string }

func keysOf(tag string) []gkey {
	var ks []gkey
	c := getContracts()[tag]
	for _, f := range c.fields {
		ks = append(ks, gkey{f.name, f.kind})
	}
	for _, f := range c.costFns {
		ks = append(ks, gkey{"cost." + f, "cost"})
	}
	return ks
}

func globalKeys() []gkey {
	var ks []gkey
	for _, e := range table().Globals {
		ks = append(ks, gkey{e.Name, e.CT})
	}
	return ks
}

var unknownKeys = []string{"nope", "Max_n", "cost.", "cost", "costx", "max_n.", "", "server_chain.nope", "cost.bogus", "cost.zz"}

func genKVs(r *rand.Rand, tag string, pool []gkey, n int, forceBad int) []string {
	used := map[string]bool{}
	var res []string
	if tag == "faucet" || tag == "vesting" {
		// an accepted cost key ends the contract's loop over the map (`default: return setCostValue(...)`), so together
		// with other keys the outcome depends on the map order (see aliasOp); here a cost key only comes alone
		var costs, rest []gkey
		for _, g := range pool {
			if g.kind == "cost" {
				costs = append(costs, g)
			} else {
				rest = append(rest, g)
			}
		}
		if forceBad == 0 && r.Intn(4) == 0 {
			pool, n = costs, 1
		} else {
			pool = rest
		}
	}
	for len(res) < n {
		var k, v string
		switch x := r.Intn(100); {
		case x < 12 || forceBad > 0 && r.Intn(2) == 0:
			k = unknownKeys[r.Intn(len(unknownKeys))]
			v = pick(r, "1", "x", "0.5", "1s")
			if tag == "zcn" && k == "cost" {
				v = "5"
			}
		default:
			g := pool[r.Intn(len(pool))]
			k = g.name
			v = genValue(r, g.kind)
			if forceBad > 0 {
				v = pick(r, "x", "", "1.2.3")
				if g.kind == "string" || g.kind == "strings" {
					continue
				}
			}
			// lone case variant of a cost key (faucet / vesting fold case)
			if g.kind == "cost" && (tag == "faucet" || tag == "vesting") && r.Intn(5) == 0 {
				k = "cost." + strings.ToUpper(strings.TrimPrefix(k, "cost."))
			}
		}
		ck := strings.ToLower(strings.TrimSpace(k))
		if used[ck] {
			continue
		}
		used[ck] = true
		if forceBad > 0 {
			forceBad--
		}
		res = append(res, esc(k)+"="+esc(v))
	}
	return res
}

func gen(r *rand.Rand, thorough bool, i int) []string {
	fork := r.Intn(2) == 1
	ops := []string{"init", "fork " + map[bool]string{false: "0", true: "1"}[fork]}
	ops = append(ops, loads(fork)...)
	ids := callerIDs()
	owner := map[string]string{}
	for _, t := range contractOrder {
		owner[t] = ownerID
	}
	n := 2 + r.Intn(6)
	if thorough {
		n = 2 + r.Intn(14)
	}
	focus := contractOrder[r.Intn(len(contractOrder))]
	for k := 0; k < n; k++ {
		tag := focus
		if r.Intn(3) == 0 {
			tag = contractOrder[r.Intn(len(contractOrder))]
		}
		caller := owner[tag]
		if r.Intn(5) == 0 {
			caller = ids[r.Intn(len(ids))]
		}
		switch x := r.Intn(100); {
		case x < 62:
			var kvs []string
			switch y := r.Intn(20); {
			case y == 0:
				kvs = []string{"!bad"}
			case y == 1:
				kvs = []string{"!null"}
			case y < 6:
				kvs = genKVs(r, tag, keysOf(tag), 2+r.Intn(3), 2) // at least two invalid fields
			default:
				kvs = genKVs(r, tag, keysOf(tag), 1+r.Intn(4), 0)
			}
			ops = append(ops, "update "+tag+" "+caller+" "+strings.Join(kvs, " "))
			// follow the owner the generator believes in (a failed call makes the belief wrong, which only lowers the hit rate)
			for _, kv := range kvs {
				if strings.HasPrefix(kv, "owner_id=") && caller == owner[tag] && len(kv) == len("owner_id=")+64 {
					owner[tag] = strings.TrimPrefix(kv, "owner_id=")
				}
			}
			ops = append(ops, "dump "+tag)
			if tag == "storage" {
				ops = append(ops, "staged")
				if r.Intn(2) == 0 {
					ops = append(ops, "commit", "dump storage")
				}
			}
		case x < 85:
			c := owner["miner"]
			if r.Intn(5) == 0 {
				c = ids[r.Intn(len(ids))]
			}
			var kvs []string
			if r.Intn(4) == 0 {
				kvs = genKVs(r, "globals", globalKeys(), 2+r.Intn(3), 2)
			} else {
				kvs = genKVs(r, "globals", globalKeys(), 1+r.Intn(4), 0)
			}
			ops = append(ops, "updateg "+c+" "+strings.Join(kvs, " "), "dumpg")
			g := globalKeys()[r.Intn(len(globalKeys()))]
			if name := strings.SplitN(kvs[0], "=", 2)[0]; r.Intn(2) == 0 {
				if un, ok := unesc(name); ok {
					for _, gg := range globalKeys() {
						if gg.name == un {
							g = gg
						}
					}
				}
			}
			ops = append(ops, "inforce "+esc(g.name)+" "+escOrEmpty(viperRaw(g.name, g.kind)))
		case x < 92:
			ops = append(ops, "commit", "dump storage")
		default:
			ops = append(ops, "dump "+tag)
		}
	}
	// one case in eight ends with a call whose keys name the same setting twice: the result depends on the map order
	if r.Intn(8) == 0 {
		ops = append(ops, aliasOp(r, owner))
	}
	return ops
}

// the node-local value is passed with a leading 'L' so that the token is never empty
func escOrEmpty(s string) string { return "L" + esc(s) }

func viperRaw(name, kind string) string {
	setup()
	if kind == "strings" {
		return strings.Join(viper.GetStringSlice(name), ",")
	}
	return viper.GetString(name)
}

func aliasOp(r *rand.Rand, owner map[string]string) string {
	switch r.Intn(6) {
	case 4:
		return "taint faucet " + owner["faucet"] + " cost.pour=5 pour_amount=x max_pour_amount=y periodic_limit=z"
	case 5:
		return "taint vesting " + owner["vesting"] + " cost.add=5 max_destinations=7 max_description_length=9 min_duration=1s"
	case 0:
		return "taint storage " + owner["storage"] + " max_delegates=11 " + esc(" max_delegates") + "=22 " + esc("max_delegates ") + "=33"
	case 1:
		return "taint faucet " + owner["faucet"] + " cost.pour=11 cost.POUR=22 cost.Pour=33 cost.pOUR=44"
	case 2:
		return "taint vesting " + owner["vesting"] + " cost.add=11 cost.ADD=22 cost.Add=33"
	default:
		return "taint storage " + owner["storage"] + " cost.add_blobber=11 " + esc(" cost.add_blobber") + "=22 " + esc("cost.add_blobber ") + "=33"
	}
}

func fixed() [][]string {
	pre := func(fork bool) []string {
		ops := []string{"init", "fork " + map[bool]string{false: "0", true: "1"}[fork]}
		return append(ops, loads(fork)...)
	}
	o := ownerID
	bob := engine.NewClient("bob").ID
	return [][]string{
		// two invalid fields: the reported error depends on the map order (Props/C48 order_dependent_error_witness)
		append(pre(false), "update miner "+o+" max_n=x nope=1 zzz=3 min_n=q", "dump miner"),
		// vestingsc saves without validate
		append(pre(false), "update vesting "+o+" min_duration=0s max_destinations=-5", "dump vesting"),
		// storagesc after demeter: update saves an invalid configuration, commit cannot repair it
		append(pre(true), "update storage "+o+" max_delegates=0", "dump storage", "staged", "commit", "dump storage"),
		append(pre(false), "update storage "+o+" max_delegates=0", "dump storage", "staged", "commit", "dump storage"),
		// unknown cost name accepted
		append(pre(false), "update miner "+o+" cost.bogus=7", "dump miner"),
		// not the owner
		append(pre(false), "update miner "+bob+" max_n=8", "update faucet "+bob+" pour_amount=2", "update zcn "+bob+" min_stake=1", "updateg "+bob+" server_chain.block.max_block_size=7", "dump miner", "dumpg"),
		// ownership transfer
		append(pre(false), "update miner "+o+" owner_id="+bob, "update miner "+o+" max_n=9", "update miner "+bob+" max_n=9", "dump miner", "updateg "+bob+" server_chain.block.max_block_size=7", "dumpg"),
		// zcn: the configured min_stake 0 fails Validate until it is raised in the same call
		append(pre(false), "update zcn "+o+" max_fee=5", "update zcn "+o+" max_fee=5 min_stake=1", "dump zcn", "update zcn "+o+" cost.mint=5", "update zcn "+o+" cost=5"),
		// aliasing keys
		append(pre(true), "taint storage "+o+" max_delegates=11 "+esc(" max_delegates")+"=22 "+esc("max_delegates ")+"=33", "dump storage"),
		append(pre(false), "taint faucet "+o+" cost.pour=11 cost.POUR=22 cost.Pour=33 cost.pOUR=44"),
		// an accepted cost key ends the loop: the other keys are applied or not (or their errors reported or not) by map order
		append(pre(false), "taint faucet "+o+" cost.pour=5 pour_amount=x max_pour_amount=y periodic_limit=z"),
		append(pre(false), "taint vesting "+o+" cost.add=5 max_destinations=7 max_description_length=9 min_duration=1s"),
		append(pre(false), "update faucet "+o+" cost.pour=5", "update vesting "+o+" cost.STOP=7", "dump faucet", "dump vesting"),
		// the one-second bound of the faucet's per-user window, in finer units
		append(pre(false), "update faucet "+o+" individual_reset=999ms", "update faucet "+o+" individual_reset=500ms", "update faucet "+o+" individual_reset=499ms", "dump faucet",
			"update faucet "+o+" individual_reset=1000ms", "dump faucet", "update faucet "+o+" individual_reset=1999ms global_rest=1999ms", "dump faucet", "update storage "+o+" time_unit=1s", "update storage "+o+" time_unit=1001ms", "commit", "dump storage"),
		// integer settings at the boundaries of the narrower types: accepted values must be readable by the accessor the code uses
		append(pre(false), "updateg "+o+" server_chain.block.max_block_size=3000000000", "dumpg", "inforce server_chain.block.max_block_size "+escOrEmpty(viperRaw("server_chain.block.max_block_size", "int32")),
			"updateg "+o+" server_chain.block.min_block_size=2147483648", "updateg "+o+" server_chain.block.min_block_size=2147483647", "inforce server_chain.block.min_block_size "+escOrEmpty(viperRaw("server_chain.block.min_block_size", "int32")),
			"updateg "+o+" server_chain.block.max_block_cost=3000000000", "inforce server_chain.block.max_block_cost "+escOrEmpty(viperRaw("server_chain.block.max_block_cost", "int")),
			"updateg "+o+" server_chain.block.max_byte_size=9223372036854775807", "inforce server_chain.block.max_byte_size "+escOrEmpty(viperRaw("server_chain.block.max_byte_size", "int64")),
			"updateg "+o+" server_chain.dbs.settings.aggregate_period=9223372036854775808", "updateg "+o+" server_chain.round_range=1e3", "dumpg"),
		// immutable and unparsable globals
		append(pre(false), "updateg "+o+" server_chain.owner=x", "updateg "+o+" server_chain.block.max_block_size=q", "updateg "+o+" server_chain.block.max_block_size=2147483648",
			"updateg "+o+" server_chain.block.max_block_size=2147483647 server_chain.transaction.exempt=a,b", "dumpg", "inforce server_chain.block.max_block_size "+escOrEmpty(viperRaw("server_chain.block.max_block_size", "int32")), "inforce server_chain.transaction.exempt "+escOrEmpty(viperRaw("server_chain.transaction.exempt", "strings"))),
	}
}

func main() {
	if os.Getenv("C48_PROF") != "" {
		f, _ := os.Create(os.Getenv("C48_PROF"))
		pprof.StartCPUProfile(f)
		defer pprof.StopCPUProfile()
	}
	corr.Main(corr.Prop{
		ID: "C48", Model: "C48", Gen: gen, Impl: impl, Oracle: oracle,
		Cases: func(th bool) int {
			if th {
				return 6000
			}
			return 260
		},
		Fixed: fixed(),
		Nontrivial: func(ops, outs []string) bool {
			n := 0
			for _, o := range ops {
				if strings.HasPrefix(o, "update") || strings.HasPrefix(o, "commit") || strings.HasPrefix(o, "taint") {
					n++
				}
			}
			return n >= 2
		},
	})
}
