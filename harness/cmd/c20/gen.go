package main

import (
	"fmt"
	"math/rand"
	"reflect"
	"sort"
	"strconv"
	"strings"

	"0chain.net/smartcontract/dbs/event"
	"verifharness/lib/corr"
)

// ---- generator --------------------------------------------------------------------------------------------------

var boundary = []uint64{0, 1, 2, 1<<53 - 1, 1 << 53, 1<<53 + 1, 1<<63 - 1, 1 << 63, 1<<63 + 1, 1<<64 - 1}

func num(r *rand.Rand, small bool) uint64 {
	if !small && r.Intn(6) == 0 {
		return boundary[r.Intn(len(boundary))]
	}
	return uint64(r.Intn(1000))
}

func ident(r *rand.Rand, prefix string, n int) string { return fmt.Sprintf("%s%d", prefix, r.Intn(n)) }

// randItem fills every registered field of the tag's payload type.
func randItem(r *rand.Rand, tag event.EventTag, small bool, over map[string]string) string {
	var parts []string
	for _, f := range fieldsOf(typeOfTag(tag)) {
		if v, ok := over[f.name]; ok {
			parts = append(parts, f.name+"="+v)
			continue
		}
		switch f.kind {
		case 'n':
			parts = append(parts, fmt.Sprintf("%s=n%d", f.name, num(r, small)))
		case 's':
			// strings from a tiny pool, so that equal payloads and equal keys occur; "" is not representable on the line
			parts = append(parts, f.name+"=s"+ident(r, "x", 4))
		case 'l':
			k := r.Intn(4)
			l := make([]string, 0, k)
			for i := 0; i < k; i++ {
				l = append(l, ident(r, "a", 4))
			}
			if k == 0 {
				// an empty list prints as "l"; keep it representable
				parts = append(parts, f.name+"=l")
			} else {
				parts = append(parts, f.name+"=l"+strings.Join(l, ","))
			}
		case 'm':
			k := r.Intn(3)
			m := map[string]uint64{}
			for i := 0; i < k; i++ {
				m[ident(r, "d", 3)] = num(r, small)
			}
			var l []string
			for kk, v := range m {
				l = append(l, fmt.Sprintf("%s:%d", kk, v))
			}
			sort.Strings(l)
			parts = append(parts, f.name+"=m"+strings.Join(l, ","))
		}
	}
	return strings.Join(parts, ";")
}

var (
	mergedTags   []event.EventTag
	additiveTags = []event.EventTag{event.TagAddBurnTicket, event.TagAuthorizerBurn, event.TagAddBridgeMint, event.TagStakePoolReward,
		event.TagStakePoolPenalty, event.TagLockStakePool, event.TagUnlockStakePool, event.TagLockReadPool, event.TagUnlockReadPool,
		event.TagLockWritePool, event.TagUnlockWritePool, event.TagUpdateUserCollectedRewards, event.TagUpdateUserPayedFees}
	sliceTags = []event.EventTag{event.TagUpdateAllocationBlobberTerm, event.TagAddOrOverwriteAllocationBlobberTerm, event.TagDeleteAllocationBlobberTerm}
	otherTags = []event.EventTag{event.TagUpdateDelegatePool, event.TagMintReward, event.TagFinalizeBlock, event.TagUniqueAddress,
		event.TagDeleteBlobber, event.TagToChallengePool, event.TagAddBlock, event.EventTag(200)}
)

func init() {
	for t := range payloadOf {
		mergedTags = append(mergedTags, t)
	}
	sort.Slice(mergedTags, func(i, j int) bool { return mergedTags[i] < mergedTags[j] })
}

func evLine(typ int, tag event.EventTag, index, dk string, items ...string) string {
	s := fmt.Sprintf("ev %d %d i:%s %s", typ, int(tag), index, dk)
	if len(items) > 0 {
		s += " " + strings.Join(items, " ")
	}
	return s
}

func vp(r *rand.Rand) string {
	if r.Intn(2) == 0 {
		return "v"
	}
	return "p"
}

// gen: one block. Profiles: bridge traffic (coherent burns and mints as zcnsc emits them, few clients/addresses so that
// several land on one index), pool/reward traffic, all tags mixed, and a malformed stream (wrong dynamic types, nil).
func gen(r *rand.Rand, thorough bool, i int) []string {
	ops := []string{fmt.Sprintf("block %d h%d", r.Intn(1000), r.Intn(100))}
	n := 1 + r.Intn(10)
	if thorough && r.Intn(4) == 0 {
		n = 10 + r.Intn(40)
	}
	profile := r.Intn(10)
	small := true // amounts < 1000: the handlers and sqlite take them
	doHandle := false
	nonce := map[string]int{}
	hashSeq := 0
	burn := func() {
		client := ident(r, "c", 3)
		addr := ident(r, "0x", 3)
		amt := num(r, small)
		nonce[addr]++
		hashSeq++
		ops = append(ops, evLine(3, event.TagAuthorizerBurn, client, "v", fmt.Sprintf("Burner=s%s;Amount=n%d", client, amt)))
		ops = append(ops, evLine(3, event.TagAddBurnTicket, addr, "p",
			fmt.Sprintf("EthereumAddress=s%s;Hash=sh%d;Amount=n%d;Nonce=n%d", addr, hashSeq, amt, nonce[addr])))
	}
	mint := func() {
		client := ident(r, "c", 3)
		nonce["m"+client]++
		k := 1 + r.Intn(3)
		var sg []string
		for j := 0; j < k; j++ {
			sg = append(sg, ident(r, "a", 4))
		}
		ops = append(ops, evLine(3, event.TagAddBridgeMint, client, "p",
			fmt.Sprintf("UserID=s%s;MintNonce=n%d;Amount=n%d;Signers=l%s", client, nonce["m"+client], num(r, small), strings.Join(sg, ","))))
	}
	if i%12 == 7 || i%12 == 11 {
		// row order: for one table, a key that is inserted and then updated in this block, a key that is only inserted,
		// a key that is only updated (row absent in the stand-in: the update matches nothing); index = key, as emitted
		sp := tblSpecs[r.Intn(len(tblSpecs))]
		val := func() uint64 { return uint64(1 + r.Intn(1000)) }
		item := func(tag event.EventTag, k string, v uint64) string {
			return randItem(r, tag, true, map[string]string{sp.key: "s" + k, sp.val: fmt.Sprintf("n%d", v)})
		}
		ka, kb, kc := "ka"+ident(r, "", 3), "kb"+ident(r, "", 3), "kc"+ident(r, "", 3)
		if sp.addField != "" {
			ops = append(ops, evLine(3, sp.ins, ka, "v", randItem(r, sp.ins, true, map[string]string{sp.key: "s" + ka, sp.val: "n0"})))
			ops = append(ops, evLine(3, sp.ins, kb, "v", randItem(r, sp.ins, true, map[string]string{sp.key: "s" + kb, sp.val: "n0"})))
			for j := 0; j < 1+r.Intn(2); j++ {
				ops = append(ops, evLine(3, sp.addTag, ident(r, "prov", 2), "p", randItem(r, sp.addTag, true,
					map[string]string{sp.addField: fmt.Sprintf("m%s:%d,%s:%d", ka, val(), kc, val()), "DelegatePenalties": "m"})))
			}
		} else {
			ops = append(ops, evLine(3, sp.ins, ka, vp(r), item(sp.ins, ka, val())))
			ops = append(ops, evLine(3, sp.ins, kb, vp(r), item(sp.ins, kb, val())))
			for j := 0; j < 1+r.Intn(2); j++ {
				u := sp.upds[r.Intn(len(sp.upds))]
				ops = append(ops, evLine(3, u, ka, vp(r), item(u, ka, val())))
			}
			u := sp.upds[r.Intn(len(sp.upds))]
			ops = append(ops, evLine(3, u, kc, vp(r), item(u, kc, val())))
		}
		return append(ops, "merge", "rows")
	}
	if i%12 == 5 {
		// commit path with a fault: only bridge traffic (the only handlers sqlite can stand in for), at least one burn;
		// the burn_tickets insert fails once, finalization retries
		burn()
		for k := 0; k < r.Intn(4); k++ {
			if r.Intn(2) == 0 {
				burn()
			} else {
				mint()
			}
		}
		if r.Intn(5) == 0 {
			// a block whose merged burn-ticket event carries no ticket: the handler refuses it (ErrInvalidEventData)
			ops = []string{ops[0], evLine(3, event.TagAddBurnTicket, ident(r, "0x", 3), "s")}
			return append(ops, "merge", "process ok")
		}
		return append(ops, "merge", "process fail", "process ok")
	}
	switch {
	case profile < 4: // bridge
		doHandle = true
		for k := 0; k < n; k++ {
			switch x := r.Intn(10); {
			case x < 5:
				burn()
			case x < 9:
				mint()
			default:
				t := otherTags[r.Intn(len(otherTags))]
				ops = append(ops, evLine(2+r.Intn(2), t, ident(r, "i", 3), vp(r), randItem(r, t, true, nil)))
			}
		}
	case profile < 6: // pools and rewards, boundary amounts
		small = false
		for k := 0; k < n; k++ {
			t := additiveTags[3+r.Intn(len(additiveTags)-3)]
			ops = append(ops, evLine(3, t, ident(r, "i", 3), vp(r), randItem(r, t, r.Intn(2) == 0, nil)))
		}
	case profile < 9: // everything mixed
		small = r.Intn(2) == 0
		for k := 0; k < n; k++ {
			switch x := r.Intn(20); {
			case x < 2:
				burn()
			case x < 3:
				mint()
			case x < 5:
				t := sliceTags[r.Intn(len(sliceTags))]
				m := r.Intn(4)
				var its []string
				for j := 0; j < m; j++ {
					its = append(its, randItem(r, t, small, nil))
				}
				dk := "s"
				if r.Intn(6) == 0 {
					dk = "ps"
				}
				ops = append(ops, evLine(3, t, ident(r, "i", 2), dk, its...))
			case x < 7:
				t := otherTags[r.Intn(len(otherTags))]
				typ := 3
				if r.Intn(3) == 0 {
					typ = r.Intn(5)
				}
				ops = append(ops, evLine(typ, t, ident(r, "i", 3), vp(r), randItem(r, t, small, nil)))
			case x < 9:
				// slice payloads on ordinary tags (the mergers flatten them)
				t := mergedTags[r.Intn(len(mergedTags))]
				m := r.Intn(3)
				var its []string
				for j := 0; j < m; j++ {
					its = append(its, randItem(r, t, small, nil))
				}
				ops = append(ops, evLine(3, t, ident(r, "i", 3), "s", its...))
			default:
				t := mergedTags[r.Intn(len(mergedTags))]
				typ := 3
				if r.Intn(12) == 0 {
					typ = r.Intn(5) // chain events bypass the mergers, error/none events are dropped
				}
				ops = append(ops, evLine(typ, t, ident(r, "i", 3), vp(r), randItem(r, t, small, nil)))
			}
		}
	default: // malformed stream: one kind of malformed data per block (with two the result depends on map order)
		badKinds := []string{"b", "bs", "n", "ps"}
		bk := badKinds[r.Intn(len(badKinds))]
		for k := 0; k < n; k++ {
			t := mergedTags[r.Intn(len(mergedTags))]
			if r.Intn(3) == 0 {
				if bk == "ps" {
					ops = append(ops, evLine(3, t, ident(r, "i", 2), bk, randItem(r, t, true, nil)))
				} else {
					ops = append(ops, evLine(3, t, ident(r, "i", 2), bk))
				}
			} else {
				ops = append(ops, evLine(3, t, ident(r, "i", 2), vp(r), randItem(r, t, true, nil)))
			}
		}
		if r.Intn(8) == 0 {
			ops = append(ops, "ev 3 x i:a v UserID=sx", "frobnicate")
		}
	}
	ops = append(ops, "merge")
	// incoherent mint payloads (same UserID under two indices) would make the users upsert touch one row twice:
	// Postgres rejects that statement, sqlite does not — outside what the sqlite store can stand in for
	rawMint := false
	if !doHandle {
		for _, o := range ops {
			if strings.HasPrefix(o, fmt.Sprintf("ev 3 %d ", int(event.TagAddBridgeMint))) || strings.HasPrefix(o, fmt.Sprintf("ev 3 %d ", int(event.TagAuthorizerBurn))) {
				rawMint = true
			}
		}
	}
	if doHandle || (small && !rawMint && r.Intn(3) == 0) {
		ops = append(ops, "handle")
	}
	return ops
}

// fixed corpus: the negation witnesses of Props/C20.lean replayed on the real code, and boundary cases.
var fixed = [][]string{
	// design-phase probe: tickets (0xA,1),(0xA,2),(0xB,1) and two burns of one client
	{"block 7 blk",
		"ev 3 65 i:c1 v Burner=sc1;Amount=n10", "ev 3 64 i:0xA p EthereumAddress=s0xA;Hash=sh1;Amount=n10;Nonce=n1",
		"ev 3 65 i:c1 v Burner=sc1;Amount=n20", "ev 3 64 i:0xA p EthereumAddress=s0xA;Hash=sh2;Amount=n20;Nonce=n2",
		"ev 3 65 i:c2 v Burner=sc2;Amount=n5", "ev 3 64 i:0xB p EthereumAddress=s0xB;Hash=sh3;Amount=n5;Nonce=n1",
		"merge", "handle"},
	// two burns to different addresses: nothing is overwritten, the handler still stores one ticket
	{"block 8 blk", "ev 3 64 i:0xA p EthereumAddress=s0xA;Hash=sh1;Amount=n10;Nonce=n1",
		"ev 3 64 i:0xB p EthereumAddress=s0xB;Hash=sh2;Amount=n20;Nonce=n1", "merge", "handle"},
	// two burns to one address
	{"block 8 blk", "ev 3 64 i:0xA p EthereumAddress=s0xA;Hash=sh1;Amount=n10;Nonce=n1",
		"ev 3 64 i:0xA p EthereumAddress=s0xA;Hash=sh2;Amount=n20;Nonce=n2", "merge", "handle"},
	// two burns of one client
	{"block 8 blk", "ev 3 65 i:c1 v Burner=sc1;Amount=n10", "ev 3 65 i:c1 v Burner=sc1;Amount=n20", "merge", "handle"},
	// two mints by one client
	{"block 9 blk", "ev 3 66 i:u1 p UserID=su1;MintNonce=n1;Amount=n100;Signers=la1,a2",
		"ev 3 66 i:u1 p UserID=su1;MintNonce=n2;Amount=n50;Signers=la1", "merge", "handle"},
	// one mint: nothing is merged away, the signers' totals are still not credited
	{"block 9 blk", "ev 3 66 i:u1 p UserID=su1;MintNonce=n1;Amount=n100;Signers=la1,a2", "merge", "handle"},
	// two penalties of one provider
	{"block 10 blk", "ev 3 25 i:p1 p ID=sp1;Reward=n0;DelegateRewards=m;DelegatePenalties=md1:5",
		"ev 3 25 i:p1 p ID=sp1;Reward=n0;DelegateRewards=m;DelegatePenalties=md1:7", "merge"},
	// one event of each bridge tag: everything arrives
	{"block 11 blk", "ev 3 65 i:c1 v Burner=sc1;Amount=n10", "ev 3 64 i:0xA p EthereumAddress=s0xA;Hash=sh1;Amount=n10;Nonce=n1", "merge", "handle"},
	// summed locks wrap like int64
	{"block 12 blk", "ev 3 44 i:p1 v Client=sc;ProviderId=sp;Amount=n18446744073709551615;Reward=n1;Total=n1",
		"ev 3 44 i:p1 v Client=sd;ProviderId=sq;Amount=n2;Reward=n5;Total=n7", "merge"},
	// an overwritten malformed event goes unnoticed; a surviving one fails the block
	{"block 13 blk", "ev 3 64 i:0xA b", "ev 3 64 i:0xA p EthereumAddress=s0xA;Hash=sh1;Amount=n10;Nonce=n1", "merge"},
	{"block 13 blk", "ev 3 64 i:0xA p EthereumAddress=s0xA;Hash=sh1;Amount=n10;Nonce=n1", "ev 3 64 i:0xA b", "merge"},
	{"block 13 blk", "ev 3 64 i:0xA n", "merge", "handle"},
	// empty slice of tickets: merged event with no payload, the handler refuses it
	{"block 14 blk", "ev 3 64 i:0xA s", "merge", "handle"},
	// row order: a client's first read-pool lock and a further lock in one block; a blobber added and restaked; a delegate
	// pool added and rewarded in one block
	{"block 19 blk", "ev 3 69 i:c1 v UserID=sc1;Balance=n100", "ev 3 70 i:c1 v UserID=sc1;Balance=n250", "merge", "rows"},
	{"block 20 blk", "ev 3 26 i:p1 v PoolID=sp1;Reward=n0", "ev 3 24 i:rb1 p ID=sb1;Reward=n0;DelegateRewards=mp1:5;DelegatePenalties=m", "merge", "rows"},
	// the commit path: the burn-ticket insert fails once → the attempt fails and commits nothing, the retry stores the ticket
	{"block 16 blk", "ev 3 65 i:c1 v Burner=sc1;Amount=n10", "ev 3 64 i:0xA p EthereumAddress=s0xA;Hash=sh1;Amount=n10;Nonce=n1",
		"merge", "process fail", "process ok"},
	// … and a merged burn-ticket event without a ticket makes the attempt fail (ErrInvalidEventData), nothing is committed
	{"block 17 blk", "ev 3 64 i:0xA s", "merge", "process ok"},
	{"block 18 blk", "ev 3 64 i:0xA p EthereumAddress=s0xA;Hash=sh1;Amount=n10;Nonce=n1", "process ok", "process bogus"},
	// error and untyped events are dropped, chain events and TagUniqueAddress bypass
	{"block 15 blk", "ev 1 64 i:0xA p EthereumAddress=s0xA;Hash=sh1;Amount=n10;Nonce=n1", "ev 0 65 i:c v Burner=sc;Amount=n1",
		"ev 2 65 i:c v Burner=sc;Amount=n1", "ev 3 56 i:u v UserID=su", "ev 4 65 i:c v Burner=sc;Amount=n1", "merge"},
}

// ---- oracle: the property on the implementation's answers -----------------------------------------------------------

type parsedMerge struct {
	ok     bool
	merged map[int][]string // tag → payload strings
}

func parseMergeLine(s string) parsedMerge {
	pm := parsedMerge{merged: map[int][]string{}}
	f := strings.Fields(s)
	if len(f) == 0 || f[0] != "ok" {
		return pm
	}
	pm.ok = true
	for _, w := range f[1:] {
		if w == ";" {
			break
		}
		if !strings.HasPrefix(w, "M") {
			continue
		}
		at := strings.Index(w, "@")
		lb := strings.Index(w, "[")
		rb := strings.LastIndex(w, "]")
		if at < 0 || lb < 0 || rb < lb {
			continue
		}
		tag, err := strconv.Atoi(w[1:at])
		if err != nil {
			continue
		}
		body := w[lb+1 : rb]
		if body != "" {
			pm.merged[tag] = append(pm.merged[tag], strings.Split(body, "|")...)
		} else if _, ok := pm.merged[tag]; !ok {
			pm.merged[tag] = []string{}
		}
	}
	return pm
}

func fieldOf(item, name string) (string, bool) {
	for _, fv := range strings.Split(item, ";") {
		if strings.HasPrefix(fv, name+"=") {
			return fv[len(name)+2:], true
		}
	}
	return "", false
}

func sameMultiset(a, b []string) bool {
	if len(a) != len(b) {
		return false
	}
	x := append([]string(nil), a...)
	y := append([]string(nil), b...)
	sort.Strings(x)
	sort.Strings(y)
	return reflect.DeepEqual(x, y)
}

var lossSig = map[event.EventTag]string{
	event.TagAddBurnTicket:    "burn-ticket-overwritten-same-address",
	event.TagAuthorizerBurn:   "authorizer-burn-overwritten-same-client",
	event.TagAddBridgeMint:    "bridge-mint-overwritten-same-client",
	event.TagStakePoolPenalty: "stake-pool-penalty-overwritten-same-provider",
}

// numeric fields whose per-block total must survive the merge, for the tags the mergers sum
var summed = map[event.EventTag][]string{
	event.TagLockStakePool: {"Amount"}, event.TagUnlockStakePool: {"Amount"}, event.TagLockReadPool: {"Amount"}, event.TagUnlockReadPool: {"Amount"},
	event.TagLockWritePool: {"Amount"}, event.TagUnlockWritePool: {"Amount"}, event.TagUpdateUserCollectedRewards: {"CollectedReward"},
	event.TagUpdateUserPayedFees: {"PayedFees"}, event.TagStakePoolReward: {"Reward"},
}
var summedMaps = map[event.EventTag][]string{event.TagStakePoolReward: {"DelegateRewards", "DelegatePenalties"}}

func sumField(items []string, f string) uint64 {
	var s uint64
	for _, it := range items {
		if v, ok := fieldOf(it, f); ok {
			u, _ := strconv.ParseUint(v, 10, 64)
			s += u
		}
	}
	return s
}

func sumMapField(items []string, f string) map[string]uint64 {
	m := map[string]uint64{}
	for _, it := range items {
		if v, ok := fieldOf(it, f); ok && v != "" {
			for _, e := range strings.Split(v, ",") {
				p := strings.SplitN(e, ":", 2)
				u, _ := strconv.ParseUint(p[1], 10, 64)
				m[p[0]] += u
			}
		}
	}
	for k, v := range m {
		if v == 0 {
			delete(m, k)
		}
	}
	return m
}

func parsePairs(s string) map[string]uint64 {
	m := map[string]uint64{}
	s = strings.TrimSuffix(strings.TrimPrefix(s, "["), "]")
	if s == "" {
		return m
	}
	for _, e := range strings.Split(s, ",") {
		p := strings.SplitN(e, ":", 2)
		if len(p) == 2 {
			u, _ := strconv.ParseUint(p[1], 10, 64)
			m[p[0]] += u
		}
	}
	return m
}

// oracle. Domain: blocks whose events are well typed (Data is T or *T of the tag's payload type) — what finalized
// blocks carry. For every additive tag: what reaches the handler is what was emitted (as a multiset for the tags the
// property lists one row or one count per event; as per-field totals for the tags the mergers sum). For the bridge
// handlers: one burn-ticket row per burn, and every burn/mint amount in the totals of the id it names.
// oracleCommit: the commit path. A handler failure (the injected fault on the burn_tickets insert, or a merged
// burn-ticket event the handler refuses) must make the attempt report failure and commit NOTHING (finalization
// retries the block); the retry without the fault must store the ticket.
func oracleCommit(ops, outs []string) *corr.Violation {
	mk := func(sig, msg string) *corr.Violation {
		return &corr.Violation{Signature: "C20:" + sig, Message: msg, Ops: ops, Impl: outs}
	}
	parse := func(s string) (e, t, n int, ok bool) {
		if _, err := fmt.Sscanf(s, "err=%d tickets=%d events=%d", &e, &t, &n); err != nil {
			return 0, 0, 0, false
		}
		return e, t, n, true
	}
	goodTickets, emptyTicketEvent, wellTyped := 0, false, true
	pt, pn := 0, 0
	failedBefore := false
	for i, op := range ops {
		w := strings.Fields(op)
		if len(w) == 0 {
			continue
		}
		switch w[0] {
		case "block":
			goodTickets, emptyTicketEvent, wellTyped, pt, pn, failedBefore = 0, false, true, 0, 0, false
		case "ev":
			e, ok := parseEv(w)
			if !ok || outs[i] != "ok" {
				continue
			}
			if e.typ == int(event.TypeStats) && e.tag == event.TagAddBurnTicket {
				switch {
				case e.dk == "v" || e.dk == "p":
					goodTickets++
				case e.dk == "s" && len(e.items) == 0:
					emptyTicketEvent = true
				default:
					wellTyped = false
				}
			} else if e.dk != "v" && e.dk != "p" {
				wellTyped = false
			}
		case "process":
			if len(w) != 2 || !wellTyped {
				continue
			}
			e, t, n, ok := parse(outs[i])
			if !ok {
				continue
			}
			switch {
			case w[1] == "fail" && goodTickets > 0 && !emptyTicketEvent:
				if e != 1 || t != pt || n != pn {
					return mk("handler-error-swallowed-block-committed", fmt.Sprintf("op %d: the burn_tickets insert failed, yet ProcessEvents answered %q (before: tickets=%d events=%d): the failed block was committed and will not be retried", i, outs[i], pt, pn))
				}
				failedBefore = true
			case w[1] == "ok" && emptyTicketEvent && goodTickets == 0:
				if e != 1 || t != pt || n != pn {
					return mk("handler-error-swallowed-block-committed", fmt.Sprintf("op %d: the burn-ticket handler refused the event (ErrInvalidEventData), yet ProcessEvents answered %q", i, outs[i]))
				}
			case w[1] == "ok" && goodTickets > 0 && !emptyTicketEvent && failedBefore:
				if e != 0 || t <= pt {
					return mk("retry-does-not-store-ticket", fmt.Sprintf("op %d: retry after the failed attempt answered %q (before: tickets=%d)", i, outs[i], pt))
				}
				failedBefore = false
			}
			pt, pn = t, n
		}
	}
	return nil
}

// oracleRows: after a block, every row of a table holds the last value the block's events wrote to it IN EMISSION
// ORDER (insert creates the row, an update of an absent row matches nothing). The implementation's `rows` answer is the
// real merged events applied in the real list order.
func oracleRows(ops, outs []string) *corr.Violation {
	type em struct {
		tag  event.EventTag
		item string
	}
	var ems []em
	for i, op := range ops {
		w := strings.Fields(op)
		if len(w) == 0 {
			continue
		}
		switch w[0] {
		case "block":
			ems = nil
		case "ev":
			e, ok := parseEv(w)
			if !ok || outs[i] != "ok" || e.typ != int(event.TypeStats) {
				continue
			}
			if e.dk != "v" && e.dk != "p" {
				return nil
			}
			ems = append(ems, em{e.tag, e.items[0]})
		case "rows":
			if !strings.HasPrefix(outs[i], "rows") {
				continue
			}
			got := map[int]string{}
			for _, f := range strings.Fields(outs[i])[1:] {
				p := strings.SplitN(f, ":", 2)
				id, _ := strconv.Atoi(p[0])
				got[id] = p[1]
			}
			for _, sp := range tblSpecs {
				var ro []rowOp
				for _, e := range ems {
					ro = append(ro, rowOpsOf(sp, e.tag, e.item)...)
				}
				want := applyRowOps(ro)
				g := parsePairs(got[sp.id])
				if len(want) == 0 && len(g) == 0 {
					continue
				}
				if !reflect.DeepEqual(want, g) {
					return &corr.Violation{Signature: "C20:update-applied-before-insert:" + sp.name, Ops: ops, Impl: outs,
						Message: fmt.Sprintf("op %d: table %s after the block holds %v; the block's events in emission order leave %v", i, sp.name, g, want)}
				}
			}
		}
	}
	return nil
}

func oracle(ops, outs []string) *corr.Violation {
	if v := oracleCommit(ops, outs); v != nil {
		return v
	}
	if v := oracleRows(ops, outs); v != nil {
		return v
	}
	mk := func(sig, msg string) *corr.Violation {
		return &corr.Violation{Signature: "C20:" + sig, Message: msg, Ops: ops, Impl: outs}
	}
	em := map[event.EventTag][]string{}
	var pm parsedMerge
	for i, op := range ops {
		w := strings.Fields(op)
		if len(w) == 0 {
			continue
		}
		switch w[0] {
		case "block":
			em = map[event.EventTag][]string{}
			pm = parsedMerge{}
		case "ev":
			if outs[i] != "ok" {
				continue
			}
			e, ok := parseEv(w)
			if !ok {
				continue
			}
			isSliceTag := false
			for _, t := range sliceTags {
				isSliceTag = isSliceTag || t == e.tag
			}
			// the domain: Data is T or *T, as the contracts emit it; the blobber-term tags carry []T
			if (!isSliceTag && e.dk != "v" && e.dk != "p") || (isSliceTag && e.dk != "s") {
				return nil
			}
			if e.typ != int(event.TypeStats) {
				continue
			}
			em[e.tag] = append(em[e.tag], e.items...)
		case "merge":
			pm = parseMergeLine(outs[i])
			if !pm.ok {
				return mk("merge-failed-on-well-typed-block", fmt.Sprintf("mergeEvents answered %q on a block of well-typed events", outs[i]))
			}
			for _, t := range additiveTags {
				got := pm.merged[int(t)]
				want := em[t]
				if fs, ok := summed[t]; ok {
					for _, f := range fs {
						if sumField(got, f) != sumField(want, f) {
							return mk("additive-sum-lost:"+t.String(), fmt.Sprintf("%s: total of %s emitted %d, delivered %d", t, f, sumField(want, f), sumField(got, f)))
						}
					}
					for _, f := range summedMaps[t] {
						if !reflect.DeepEqual(sumMapField(got, f), sumMapField(want, f)) {
							return mk("additive-sum-lost:"+t.String(), fmt.Sprintf("%s: totals of %s emitted %v, delivered %v", t, f, sumMapField(want, f), sumMapField(got, f)))
						}
					}
					if (len(got) == 0) != (len(want) == 0) {
						return mk("additive-event-lost:"+t.String(), fmt.Sprintf("%s: %d emitted, %d delivered", t, len(want), len(got)))
					}
					continue
				}
				if !sameMultiset(got, want) {
					sig, ok := lossSig[t]
					if !ok {
						sig = "additive-event-lost:" + t.String()
					}
					return mk(sig, fmt.Sprintf("%s: emitted %v, delivered to the handler %v", t, want, got))
				}
			}
		case "handle":
			if !pm.ok || !strings.HasPrefix(outs[i], "bt=") {
				continue
			}
			kv := map[string]string{}
			for _, f := range strings.Fields(outs[i]) {
				p := strings.SplitN(f, "=", 2)
				if len(p) == 2 {
					kv[p[0]] = p[1]
				}
			}
			// one burn ticket row per burn
			if want := len(em[event.TagAddBurnTicket]); want > 0 {
				rows := -1
				if strings.HasPrefix(kv["bt"], "rows:") {
					rows, _ = strconv.Atoi(strings.Split(kv["bt"], ":")[1])
				}
				if rows != want {
					if len(pm.merged[int(event.TagAddBurnTicket)]) != want {
						return mk(lossSig[event.TagAddBurnTicket], fmt.Sprintf("%d burn tickets emitted, %d rows in burn_tickets (%s)", want, rows, kv["bt"]))
					}
					return mk("burn-ticket-handler-first-only", fmt.Sprintf("%d burn tickets delivered to the handler, %d rows in burn_tickets (%s)", want, rows, kv["bt"]))
				}
			}
			// every burn counted toward the burner's total
			wantBurn := map[string]uint64{}
			for _, it := range em[event.TagAuthorizerBurn] {
				b, _ := fieldOf(it, "Burner")
				a, _ := fieldOf(it, "Amount")
				u, _ := strconv.ParseUint(a, 10, 64)
				if u != 0 {
					wantBurn[b] += u
				}
			}
			if got := parsePairs(kv["dbburn"]); !reflect.DeepEqual(got, wantBurn) {
				if !sameMultiset(pm.merged[int(event.TagAuthorizerBurn)], em[event.TagAuthorizerBurn]) {
					return mk(lossSig[event.TagAuthorizerBurn], fmt.Sprintf("authorizers.total_burn after the block %v, burns emitted %v", got, wantBurn))
				}
				return mk("authorizer-burn-total-wrong", fmt.Sprintf("authorizers.total_burn after the block %v (update rows %s), burns delivered %v", got, kv["burn"], wantBurn))
			}
			// every mint counted toward its signers' totals
			wantMint := map[string]uint64{}
			for _, it := range em[event.TagAddBridgeMint] {
				sg, _ := fieldOf(it, "Signers")
				a, _ := fieldOf(it, "Amount")
				u, _ := strconv.ParseUint(a, 10, 64)
				if sg != "" && u != 0 {
					for _, s := range strings.Split(sg, ",") {
						wantMint[s] += u
					}
				}
			}
			if got := parsePairs(kv["dbmint"]); !reflect.DeepEqual(got, wantMint) {
				if !sameMultiset(pm.merged[int(event.TagAddBridgeMint)], em[event.TagAddBridgeMint]) {
					return mk(lossSig[event.TagAddBridgeMint], fmt.Sprintf("authorizers.total_mint after the block %v, mints emitted per signer %v", got, wantMint))
				}
				return mk("bridge-mint-total-not-credited-to-signers", fmt.Sprintf("authorizers.total_mint after the block %v (update rows %s), mints per signer %v", got, kv["mint"], wantMint))
			}
		}
	}
	return nil
}

var _ = rand.Int
