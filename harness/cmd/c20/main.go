// C20 harness: the real smartcontract/dbs/event mergeEvents and bridge handlers (through hooks/event_c20.go, on an
// in-memory sqlite store) against Model/Events.lean over the generated merger table.
//
// One case = one block:  block <round> <hash> ; ev … (the emitted events) ; merge ; [handle]
//
// Payloads are built by reflection on the REAL payload types (registry below: tag → Go type the contracts emit);
// a payload is described on the op line by the named fields that are set (see Drv/C20.lean for the grammar), and
// printed back by reading the same fields from whatever the real code returns.
package main

import (
	"context"
	"errors"
	"fmt"
	"reflect"
	"regexp"
	"sort"
	"strconv"
	"strings"
	"sync"
	"time"

	"0chain.net/chaincore/state"
	"0chain.net/core/config"
	"0chain.net/smartcontract/dbs"
	"0chain.net/smartcontract/dbs/event"
	"github.com/0chain/common/core/logging"
	"github.com/lib/pq"
	"go.uber.org/zap"
	"gorm.io/driver/sqlite"
	"gorm.io/gorm"
	"gorm.io/gorm/callbacks"
	"gorm.io/gorm/logger"
	"verifharness/lib/corr"
)

// ---- registry: the Go payload type of every tag that has a merger (and a few that have none) --------------------

var payloadOf = map[event.EventTag]interface{}{
	event.TagAddOrOverwriteUser:                  event.User{},
	event.TagAddMiner:                            event.Miner{},
	event.TagAddSharder:                          event.Sharder{},
	event.TagAddBlobber:                          event.Blobber{},
	event.TagUpdateBlobber:                       event.Blobber{},
	event.TagAddAuthorizer:                       event.Authorizer{},
	event.TagUpdateAuthorizer:                    event.Authorizer{},
	event.TagAddOrOverwiteValidator:              event.Validator{},
	event.TagShutdownProvider:                    dbs.ProviderID{},
	event.TagKillProvider:                        dbs.ProviderID{},
	event.TagAddAllocation:                       event.Allocation{},
	event.TagUpdateAllocation:                    event.Allocation{},
	event.TagUpdateAllocationStakes:              event.Allocation{},
	event.TagUpdateAllocationBlobberTerm:         event.AllocationBlobberTerm{},
	event.TagAddOrOverwriteAllocationBlobberTerm: event.AllocationBlobberTerm{},
	event.TagDeleteAllocationBlobberTerm:         event.AllocationBlobberTerm{},
	event.TagInsertReadpool:                      event.ReadPool{},
	event.TagUpdateReadpool:                      event.ReadPool{},
	event.TagAddChallenge:                        event.Challenge{},
	event.TagAddChallengeToAllocation:            event.Allocation{},
	event.TagUpdateChallenge:                     event.Challenge{},
	event.TagAddOrUpdateChallengePool:            event.ChallengePool{},
	event.TagUpdateBlobberChallenge:              event.ChallengeStatsDeltas{},
	event.TagUpdateAllocationChallenge:           event.Allocation{},
	event.TagUpdateBlobberAllocatedSavedHealth:   event.Blobber{},
	event.TagUpdateBlobberTotalStake:             event.Blobber{},
	event.TagUpdateBlobberTotalOffers:            event.Blobber{},
	event.TagStakePoolReward:                     dbs.StakePoolReward{},
	event.TagStakePoolPenalty:                    dbs.StakePoolReward{},
	event.TagAddDelegatePool:                     event.DelegatePool{},
	event.TagUpdateMinerTotalStake:               event.Miner{},
	event.TagUpdateSharderTotalStake:             event.Sharder{},
	event.TagUpdateAuthorizerTotalStake:          event.Authorizer{},
	event.TagAddTransactions:                     event.Transaction{},
	event.TagAddWriteMarker:                      event.WriteMarker{},
	event.TagAddReadMarker:                       event.ReadMarker{},
	event.TagUpdateAllocationStat:                event.Allocation{},
	event.TagUpdateBlobberStat:                   event.Blobber{},
	event.TagUpdateValidator:                     event.Validator{},
	event.TagUpdateValidatorStakeTotal:           event.Validator{},
	event.TagMinerHealthCheck:                    dbs.DbHealthCheck{},
	event.TagSharderHealthCheck:                  dbs.DbHealthCheck{},
	event.TagBlobberHealthCheck:                  dbs.DbHealthCheck{},
	event.TagAuthorizerHealthCheck:               dbs.DbHealthCheck{},
	event.TagValidatorHealthCheck:                dbs.DbHealthCheck{},
	event.TagAddBurnTicket:                       event.BurnTicket{},
	event.TagUpdateUserCollectedRewards:          event.UserAggregate{},
	event.TagLockStakePool:                       event.DelegatePoolLock{},
	event.TagUnlockStakePool:                     event.DelegatePoolLock{},
	event.TagLockReadPool:                        event.ReadPoolLock{},
	event.TagUnlockReadPool:                      event.ReadPoolLock{},
	event.TagLockWritePool:                       event.WritePoolLock{},
	event.TagUnlockWritePool:                     event.WritePoolLock{},
	event.TagUpdateUserPayedFees:                 event.UserAggregate{},
	event.TagAuthorizerBurn:                      state.Burn{},
	event.TagAddBridgeMint:                       event.BridgeMint{},
	// tags without a merger (they pass through `others`)
	event.TagUpdateDelegatePool: event.User{},
	event.TagMintReward:         event.RewardMint{},
	event.TagFinalizeBlock:      event.Block{},
	event.TagUniqueAddress:      event.User{},
	event.TagDeleteBlobber:      event.User{},
	event.TagToChallengePool:    event.ChallengePoolLock{},
	event.TagAddBlock:           event.Block{},
}

// fields the generator always sets when the type has them (the ones the merge functions and handlers read)
var mustFields = []string{"Amount", "Reward", "Total", "DelegateRewards", "DelegatePenalties", "OpenChallenges", "TotalChallenges",
	"CompletedDelta", "PassedDelta", "OpenDelta", "SavedData", "ReadData", "CollectedReward", "PayedFees", "BlobberID", "Burner",
	"Signers", "MintNonce", "UserID", "EthereumAddress", "Hash", "Nonce", "ID", "AllocationID", "PoolID", "Balance", "TotalStake", "Size"}

type fld struct {
	name string
	kind byte // n s l m
	idx  []int
}

var (
	fieldCache   = map[reflect.Type][]fld{}
	fieldCacheMu sync.Mutex
)

func kindOf(t reflect.Type) byte {
	switch t.Kind() {
	case reflect.String:
		return 's'
	case reflect.Int, reflect.Int64, reflect.Uint64, reflect.Uint, reflect.Int32, reflect.Uint32:
		return 'n'
	case reflect.Slice:
		if t.Elem().Kind() == reflect.String {
			return 'l'
		}
	case reflect.Map:
		if t.Key().Kind() == reflect.String && t.Elem().Kind() == reflect.Uint64 {
			return 'm'
		}
	}
	return 0
}

// fieldsOf: the settable scalar fields of a payload type (promoted fields included, gorm model columns excluded);
// at most 4 of them plus every field of mustFields.
func fieldsOf(t reflect.Type) []fld {
	fieldCacheMu.Lock()
	defer fieldCacheMu.Unlock()
	if f, ok := fieldCache[t]; ok {
		return f
	}
	var all []fld
	for _, sf := range reflect.VisibleFields(t) {
		if sf.Anonymous || !sf.IsExported() {
			continue
		}
		// skip columns of the embedded gorm models (ID/CreatedAt/UpdatedAt)
		owner := t
		skip := false
		for _, i := range sf.Index[:len(sf.Index)-1] {
			owner = owner.Field(i).Type
			if strings.HasSuffix(owner.PkgPath(), "dbs/model") {
				skip = true
			}
		}
		if skip {
			continue
		}
		if k := kindOf(sf.Type); k != 0 {
			all = append(all, fld{sf.Name, k, sf.Index})
		}
	}
	must := map[string]bool{}
	for _, m := range mustFields {
		must[m] = true
	}
	var out []fld
	n := 0
	for _, f := range all {
		if must[f.name] {
			out = append(out, f)
		} else if n < 4 {
			out = append(out, f)
			n++
		}
	}
	fieldCache[t] = out
	return out
}

func typeOfTag(tag event.EventTag) reflect.Type {
	if p, ok := payloadOf[tag]; ok {
		return reflect.TypeOf(p)
	}
	return reflect.TypeOf(event.User{})
}

// ---- payload <-> text -------------------------------------------------------------------------------------------

func setItem(v reflect.Value, item string) error {
	t := v.Type()
	fs := fieldsOf(t)
	for _, fv := range strings.Split(item, ";") {
		kv := strings.SplitN(fv, "=", 2)
		if len(kv) != 2 || kv[1] == "" {
			return fmt.Errorf("bad field %q", fv)
		}
		var f *fld
		for i := range fs {
			if fs[i].name == kv[0] {
				f = &fs[i]
			}
		}
		if f == nil {
			return fmt.Errorf("type %s has no field %s", t, kv[0])
		}
		fvv := v.FieldByIndex(f.idx)
		body := kv[1][1:]
		if kv[1][0] != f.kind {
			return fmt.Errorf("field %s kind", kv[0])
		}
		switch f.kind {
		case 'n':
			u, err := strconv.ParseUint(body, 10, 64)
			if err != nil {
				return err
			}
			switch fvv.Kind() {
			case reflect.Int, reflect.Int64, reflect.Int32:
				fvv.SetInt(int64(u))
			default:
				fvv.SetUint(u)
			}
		case 's':
			fvv.SetString(body)
		case 'l':
			l := []string{}
			if body != "" {
				l = strings.Split(body, ",")
			}
			fvv.Set(reflect.ValueOf(l).Convert(fvv.Type()))
		case 'm':
			m := reflect.MakeMap(fvv.Type())
			if body != "" {
				for _, e := range strings.Split(body, ",") {
					p := strings.SplitN(e, ":", 2)
					if len(p) != 2 {
						return fmt.Errorf("bad map entry")
					}
					u, err := strconv.ParseUint(p[1], 10, 64)
					if err != nil {
						return err
					}
					m.SetMapIndex(reflect.ValueOf(p[0]), reflect.ValueOf(u).Convert(fvv.Type().Elem()))
				}
			}
			fvv.Set(m)
		}
	}
	return nil
}

// showItem prints the fields named in `names` (in that order) of a payload value.
func showItem(v reflect.Value, names []string) string {
	fs := fieldsOf(v.Type())
	var parts []string
	for _, n := range names {
		for _, f := range fs {
			if f.name != n {
				continue
			}
			fv := v.FieldByIndex(f.idx)
			switch f.kind {
			case 'n':
				switch fv.Kind() {
				case reflect.Int, reflect.Int64, reflect.Int32:
					parts = append(parts, fmt.Sprintf("%s=n%d", n, uint64(fv.Int())))
				default:
					parts = append(parts, fmt.Sprintf("%s=n%d", n, fv.Uint()))
				}
			case 's':
				parts = append(parts, n+"=s"+fv.String())
			case 'l':
				var l []string
				for i := 0; i < fv.Len(); i++ {
					l = append(l, fv.Index(i).String())
				}
				parts = append(parts, n+"=l"+strings.Join(l, ","))
			case 'm':
				var l []string
				it := fv.MapRange()
				for it.Next() {
					l = append(l, fmt.Sprintf("%s:%d", it.Key().String(), it.Value().Uint()))
				}
				sort.Strings(l)
				parts = append(parts, n+"=m"+strings.Join(l, ","))
			}
		}
	}
	return strings.Join(parts, ";")
}

func fieldNames(item string) []string {
	var ns []string
	for _, fv := range strings.Split(item, ";") {
		ns = append(ns, strings.SplitN(fv, "=", 2)[0])
	}
	return ns
}

// itemsOfData: payloads of an event's Data, whatever its dynamic shape (T, *T, []T, *[]T).
func itemsOfData(data interface{}, names []string) []string {
	if data == nil {
		return nil
	}
	v := reflect.ValueOf(data)
	for v.Kind() == reflect.Ptr {
		if v.IsNil() {
			return nil
		}
		v = v.Elem()
	}
	var out []string
	switch v.Kind() {
	case reflect.Slice:
		for i := 0; i < v.Len(); i++ {
			e := v.Index(i)
			if e.Kind() == reflect.Struct {
				out = append(out, showItem(e, names))
			}
		}
	case reflect.Struct:
		out = append(out, showItem(v, names))
	}
	return out
}

// ---- the in-memory store with capture of the Postgres-only batched updates ---------------------------------------

type capture struct {
	table, col string
	ids        []string
	vals       []int64
}

type memStore struct {
	db       *gorm.DB
	caps     []capture
	bad      []string
	failNext bool           // fault injection: the next insert into burn_tickets fails (once)
	edb      *event.EventDb // worker stores only: EventDb with the real events worker running
}

func (s *memStore) Get() *gorm.DB              { return s.db }
func (s *memStore) Open(config.DbAccess) error { return nil }
func (s *memStore) AutoMigrate() error         { return nil }
func (s *memStore) Close()                     {}

// UPDATE authorizers SET total_burn = authorizers.total_burn + t.total_burn FROM (SELECT unnest(?::text[]) AS id, unnest(?::bigint[]) AS total_burn) AS t WHERE authorizers.id = t.id
var unnestRe = regexp.MustCompile(`^UPDATE (\w+) SET\s+(\w+) = (\w+)\.(\w+) \+ t\.(\w+)\s+FROM \(SELECT unnest\(\?::text\[\]\) AS (\w+), unnest\(\?::bigint\[\]\) AS (\w+)\) AS t\s+WHERE (\w+)\.(\w+) = t\.(\w+)\s*$`)

var (
	storeSeq  int
	storeMu   sync.Mutex
	storePool = sync.Pool{}
)

func newStore(worker bool) *memStore {
	storeMu.Lock()
	storeSeq++
	name := fmt.Sprintf("file:c20_%d?mode=memory&cache=shared", storeSeq)
	storeMu.Unlock()
	db, err := gorm.Open(sqlite.Open(name), &gorm.Config{Logger: logger.Discard})
	if err != nil {
		panic(err)
	}
	if sq, err := db.DB(); err == nil {
		if worker {
			// ProcessEvents holds a transaction while the worker pings the pool (isEDBConnectionLost)
			sq.SetMaxOpenConns(4)
		} else {
			sq.SetMaxOpenConns(1)
		}
	}
	if err := db.AutoMigrate(&event.BurnTicket{}, &event.User{}, &event.Authorizer{}, &event.Event{}); err != nil {
		panic(err)
	}
	s := &memStore{db: db}
	// fault injection point: the INSERT of a burn ticket (addBurnTicket → FirstOrCreate → create callbacks)
	if err := db.Callback().Create().Before("gorm:create").Register("c20:fault", func(d *gorm.DB) {
		if s.failNext && d.Statement.Table == "burn_tickets" {
			s.failNext = false
			d.AddError(errInjected)
		}
	}); err != nil {
		panic(err)
	}
	// the batched `UPDATE … FROM (SELECT unnest(?::text[]) …)` statements are Postgres-only: capture their row
	// vectors and apply them to sqlite row by row (same effect for distinct ids). Everything else runs as it is.
	err = db.Callback().Raw().Replace("gorm:raw", func(d *gorm.DB) {
		sql := d.Statement.SQL.String()
		if !strings.Contains(sql, "unnest(") {
			callbacks.RawExec(d)
			return
		}
		m := unnestRe.FindStringSubmatch(sql)
		if m == nil || m[1] != m[3] || m[2] != m[4] || m[2] != m[5] || m[2] != m[7] || m[6] != m[9] || m[6] != m[10] || m[1] != m[8] || len(d.Statement.Vars) != 2 {
			s.bad = append(s.bad, sql)
			return
		}
		ids, ok1 := d.Statement.Vars[0].(*pq.StringArray)
		var vals []int64
		ok2 := true
		switch a := d.Statement.Vars[1].(type) {
		case *pq.Int64Array:
			vals = []int64(*a)
		default:
			ok2 = false
		}
		if !ok1 || !ok2 || len(*ids) != len(vals) {
			s.bad = append(s.bad, fmt.Sprintf("vars %T %T", d.Statement.Vars[0], d.Statement.Vars[1]))
			return
		}
		s.caps = append(s.caps, capture{m[1], m[2], []string(*ids), vals})
		for i, id := range *ids {
			q := fmt.Sprintf("UPDATE %s SET %s = %s + ? WHERE %s = ?", m[1], m[2], m[2], m[6])
			if _, err := d.Statement.ConnPool.ExecContext(context.Background(), q, vals[i], id); err != nil {
				d.AddError(err)
				return
			}
		}
	})
	if err != nil {
		panic(err)
	}
	return s
}

var errInjected = errors.New("injected fault: burn_tickets insert failed")

func cleanStore(s *memStore) {
	s.caps, s.bad, s.failNext = nil, nil, false
	for _, t := range []string{"burn_tickets", "users", "authorizers", "events"} {
		if err := s.db.Exec("DELETE FROM " + t).Error; err != nil {
			panic(err)
		}
	}
}

func getStore() *memStore {
	if s, ok := storePool.Get().(*memStore); ok && s != nil {
		cleanStore(s)
		return s
	}
	return newStore(false)
}

var workerPool = sync.Pool{}

// getWorkerStore: a store with an EventDb whose REAL events worker (addEventsWorker) is running.
func getWorkerStore() *memStore {
	if s, ok := workerPool.Get().(*memStore); ok && s != nil {
		cleanStore(s)
		return s
	}
	s := newStore(true)
	s.edb = event.VerifNewWorkerEventDb(context.Background(), s)
	return s
}

// process: the exported ProcessEvents on the block's events, committing at once (as finalization does)
func process(s *memStore, evs []event.Event, round int64, hash string, fail bool) string {
	s.failNext = fail
	ctx, cancel := context.WithTimeout(context.Background(), 20*time.Second)
	defer cancel()
	in := append([]event.Event(nil), evs...)
	_, _, err := s.edb.ProcessEvents(ctx, in, round, hash, len(in), func(event.BlockEvents) error { return nil }, event.CommitNow())
	s.failNext = false
	var nt, ne int64
	if e := s.db.Model(&event.BurnTicket{}).Count(&nt).Error; e != nil {
		return "dberr"
	}
	if e := s.db.Model(&event.Event{}).Count(&ne).Error; e != nil {
		return "dberr"
	}
	e := 0
	if err != nil {
		e = 1
	}
	return fmt.Sprintf("err=%d tickets=%d events=%d", e, nt, ne)
}

// ---- the implementation run -------------------------------------------------------------------------------------

type emitted struct {
	typ   int
	tag   event.EventTag
	index string
	dk    string
	items []string
}

func parseEv(w []string) (emitted, bool) {
	if len(w) < 5 || !strings.HasPrefix(w[3], "i:") {
		return emitted{}, false
	}
	typ, err1 := strconv.Atoi(w[1])
	tag, err2 := strconv.Atoi(w[2])
	if err1 != nil || err2 != nil || typ < 0 || tag < 0 {
		return emitted{}, false
	}
	e := emitted{typ: typ, tag: event.EventTag(tag), index: w[3][2:], dk: w[4], items: w[5:]}
	switch e.dk {
	case "v", "p":
		if len(e.items) != 1 {
			return e, false
		}
	case "s", "ps":
	case "b", "bs", "n":
		if len(e.items) != 0 {
			return e, false
		}
	default:
		return e, false
	}
	return e, true
}

func build(e emitted, seq int) (event.Event, error) {
	ev := event.Event{Type: event.EventType(e.typ), Tag: e.tag, Index: e.index, TxHash: fmt.Sprintf("tx%d", seq)}
	t := typeOfTag(e.tag)
	switch e.dk {
	case "v", "p":
		p := reflect.New(t)
		if err := setItem(p.Elem(), e.items[0]); err != nil {
			return ev, err
		}
		if e.dk == "p" {
			ev.Data = p.Interface()
		} else {
			ev.Data = p.Elem().Interface()
		}
	case "s", "ps":
		sl := reflect.MakeSlice(reflect.SliceOf(t), 0, len(e.items))
		for _, it := range e.items {
			p := reflect.New(t)
			if err := setItem(p.Elem(), it); err != nil {
				return ev, err
			}
			sl = reflect.Append(sl, p.Elem())
		}
		if e.dk == "ps" {
			pp := reflect.New(sl.Type())
			pp.Elem().Set(sl)
			ev.Data = pp.Interface()
		} else {
			ev.Data = sl.Interface()
		}
	case "b":
		ev.Data = 7
	case "bs":
		ev.Data = []int{1}
	case "n":
		ev.Data = nil
	}
	return ev, nil
}

func showPairs(l []string) string {
	sort.Strings(l)
	return "[" + strings.Join(l, ",") + "]"
}

func impl(ops []string) []string {
	outs := make([]string, len(ops))
	var (
		round  int64
		hash   string
		evs    []event.Event
		ems    []emitted
		merged []event.Event
		mergeOK bool
		names  = map[event.EventTag][]string{} // field names in use per tag (first item seen)
		ws     *memStore                       // worker store of this case (process ops), kept across the case
	)
	defer func() {
		if ws != nil {
			workerPool.Put(ws)
		}
	}()
	for i, op := range ops {
		w := strings.Fields(op)
		func() {
			defer func() {
				if r := recover(); r != nil {
					outs[i] = "panic"
				}
			}()
			switch {
			case len(w) == 3 && w[0] == "block":
				r, err := strconv.ParseInt(w[1], 10, 64)
				if err != nil {
					outs[i] = "bad-op"
					return
				}
				round, hash, evs, ems, merged, mergeOK = r, w[2], nil, nil, nil, false
				if ws != nil {
					cleanStore(ws)
				}
				names = map[event.EventTag][]string{}
				outs[i] = "ok"
			case len(w) >= 1 && w[0] == "ev":
				e, ok := parseEv(w)
				if !ok {
					outs[i] = "bad-op"
					return
				}
				ev, err := build(e, len(evs))
				if err != nil {
					outs[i] = "bad-op"
					return
				}
				ev.BlockNumber = round
				if len(e.items) > 0 {
					if _, ok := names[e.tag]; !ok {
						names[e.tag] = fieldNames(e.items[0])
					}
				}
				evs = append(evs, ev)
				ems = append(ems, e)
				merged, mergeOK = nil, false
				outs[i] = "ok"
			case len(w) == 1 && w[0] == "merge":
				in := append([]event.Event(nil), evs...)
				res, err := event.VerifMergeEvents(round, hash, in)
				if err != nil {
					if err == event.ErrInvalidEventData {
						outs[i] = "invalid"
					} else {
						outs[i] = "error"
					}
					return
				}
				merged, mergeOK = res, true
				// merged events come first (Index == block hash, Data a slice built by the merger), others after
				parts := []string{"ok"}
				var others []string
				// an event of `res` is a merged one iff it is not one of the inputs: mergers build a fresh Event
				// with Index = block hash and BlockNumber = round; inputs carry TxHash "tx<k>".
				for _, e := range res {
					if e.TxHash == "" {
						its := itemsOfData(e.Data, names[e.Tag])
						sort.Strings(its)
						parts = append(parts, fmt.Sprintf("M%d@%d/%s[%s]", int(e.Tag), e.BlockNumber, e.Index, strings.Join(its, "|")))
						if e.Type != event.TypeStats {
							parts[len(parts)-1] += fmt.Sprintf("!type%d", int(e.Type))
						}
					} else {
						k, _ := strconv.Atoi(strings.TrimPrefix(e.TxHash, "tx"))
						its := itemsOfData(e.Data, names[e.Tag])
						others = append(others, fmt.Sprintf("O%d/%d/%s/%s[%s]", int(e.Type), int(e.Tag), e.Index, ems[k].dk, strings.Join(its, "|")))
					}
				}
				parts = append(parts, ";")
				parts = append(parts, others...)
				outs[i] = strings.Join(parts, " ")
			case len(w) == 1 && w[0] == "rows":
				in := append([]event.Event(nil), evs...)
				res, err := event.VerifMergeEvents(round, hash, in)
				if err != nil {
					outs[i] = "nomerge"
					return
				}
				outs[i] = showRows(res, names)
			case len(w) == 2 && w[0] == "process":
				if w[1] != "fail" && w[1] != "ok" {
					outs[i] = "bad-op"
					return
				}
				if ws == nil {
					ws = getWorkerStore()
				}
				outs[i] = process(ws, evs, round, hash, w[1] == "fail")
			case len(w) == 1 && w[0] == "handle":
				if !mergeOK {
					outs[i] = "nomerge"
					return
				}
				outs[i] = handle(merged, ems)
			default:
				outs[i] = "bad-op"
			}
		}()
	}
	return outs
}

// handle runs the REAL addStat on the merged bridge events against a fresh in-memory store.
func handle(merged []event.Event, ems []emitted) string {
	s := getStore()
	defer storePool.Put(s)
	edb := event.VerifNewEventDb(s)
	bt, burn, users, mint := "none", "none", "none", "none"
	// authorizer rows for every id the block mentions as burner or signer, so that the totals are observable
	known := map[string]bool{}
	for _, e := range ems {
		for _, it := range e.items {
			for _, fv := range strings.Split(it, ";") {
				if e.tag == event.TagAuthorizerBurn && strings.HasPrefix(fv, "Burner=s") {
					known[fv[len("Burner=s"):]] = true
				}
				if e.tag == event.TagAddBridgeMint && strings.HasPrefix(fv, "Signers=l") && len(fv) > len("Signers=l") {
					for _, sg := range strings.Split(fv[len("Signers=l"):], ",") {
						known[sg] = true
					}
				}
			}
		}
	}
	for id := range known {
		a := event.Authorizer{}
		a.ID = id
		if err := s.db.Create(&a).Error; err != nil {
			return "dberr-setup"
		}
	}
	for _, e := range merged {
		if e.TxHash != "" {
			continue
		}
		switch e.Tag {
		case event.TagAddBurnTicket:
			err := edb.VerifAddStat(e)
			if err == event.ErrInvalidEventData {
				bt = "invalid"
				break
			}
			if err != nil {
				bt = "dberr"
				break
			}
			var rows []event.BurnTicket
			if err := s.db.Find(&rows).Error; err != nil {
				bt = "dberr"
				break
			}
			in := "in"
			tickets, _ := e.Data.([]event.BurnTicket)
			for _, r := range rows {
				found := false
				for _, t := range tickets {
					if t.EthereumAddress == r.EthereumAddress && t.Hash == r.Hash && t.Amount == r.Amount && t.Nonce == r.Nonce {
						found = true
					}
				}
				if !found {
					in = "out"
				}
			}
			bt = fmt.Sprintf("rows:%d:%s", len(rows), in)
		case event.TagAuthorizerBurn:
			s.caps = nil
			if err := edb.VerifAddStat(e); err != nil || len(s.bad) > 0 {
				burn = "err"
				break
			}
			var l []string
			for _, c := range s.caps {
				if c.table == "authorizers" && c.col == "total_burn" {
					for i := range c.ids {
						l = append(l, fmt.Sprintf("%s:%d", c.ids[i], uint64(c.vals[i])))
					}
				}
			}
			burn = showPairs(l)
		case event.TagAddBridgeMint:
			s.caps = nil
			err := edb.VerifAddStat(e)
			var us []event.User
			if e2 := s.db.Find(&us).Error; e2 != nil {
				users = "dberr"
			} else {
				var l []string
				for _, u := range us {
					l = append(l, fmt.Sprintf("%s:%d", u.UserID, uint64(u.MintNonce)))
				}
				users = showPairs(l)
			}
			if err != nil || len(s.bad) > 0 {
				mint = "err"
				break
			}
			var l []string
			for _, c := range s.caps {
				if c.table == "authorizers" && c.col == "total_mint" {
					for i := range c.ids {
						l = append(l, fmt.Sprintf("%s:%d", c.ids[i], uint64(c.vals[i])))
					}
				}
			}
			mint = showPairs(l)
		}
	}
	var as []event.Authorizer
	if err := s.db.Find(&as).Error; err != nil {
		return "dberr-read"
	}
	var db, dm []string
	for _, a := range as {
		if a.TotalBurn != 0 {
			db = append(db, fmt.Sprintf("%s:%d", a.ID, uint64(a.TotalBurn)))
		}
		if a.TotalMint != 0 {
			dm = append(dm, fmt.Sprintf("%s:%d", a.ID, uint64(a.TotalMint)))
		}
	}
	return fmt.Sprintf("bt=%s burn=%s users=%s mint=%s dbburn=%s dbmint=%s", bt, burn, users, mint, showPairs(db), showPairs(dm))
}

// ---- table stand-ins: the REAL merged events applied in their REAL order ---------------------------------------------

type tblSpec struct {
	id       int
	name     string
	ins      event.EventTag
	upds     []event.EventTag
	key, val string
	addTag   event.EventTag
	addField string
}

// one value column per table and the one update tag that writes that column (two update tags of one table write
// different columns; their relative order is no concern of the property)
var tblSpecs = []tblSpec{
	{id: 1, name: "read_pools", ins: event.TagInsertReadpool, upds: []event.EventTag{event.TagUpdateReadpool}, key: "UserID", val: "Balance"},
	{id: 2, name: "blobbers", ins: event.TagAddBlobber, upds: []event.EventTag{event.TagUpdateBlobberTotalStake}, key: "ID", val: "TotalStake"},
	{id: 3, name: "authorizers", ins: event.TagAddAuthorizer, upds: []event.EventTag{event.TagUpdateAuthorizerTotalStake}, key: "ID", val: "TotalStake"},
	{id: 4, name: "miners", ins: event.TagAddMiner, upds: []event.EventTag{event.TagUpdateMinerTotalStake}, key: "ID", val: "TotalStake"},
	{id: 5, name: "sharders", ins: event.TagAddSharder, upds: []event.EventTag{event.TagUpdateSharderTotalStake}, key: "ID", val: "TotalStake"},
	{id: 6, name: "validators", ins: event.TagAddOrOverwiteValidator, upds: []event.EventTag{event.TagUpdateValidatorStakeTotal}, key: "ID", val: "TotalStake"},
	{id: 7, name: "allocations", ins: event.TagAddAllocation, upds: []event.EventTag{event.TagUpdateAllocation}, key: "AllocationID", val: "Size"},
	{id: 10, name: "delegate_pools", ins: event.TagAddDelegatePool, key: "PoolID", val: "Reward", addTag: event.TagStakePoolReward, addField: "DelegateRewards"},
}

type rowOp struct {
	kind byte // i u a
	k    string
	v    uint64
}

// rowOpsOf: the row operations one (tag, payload) contributes to a table
func rowOpsOf(sp tblSpec, tag event.EventTag, item string) []rowOp {
	num := func(f string) uint64 {
		s, _ := fieldOf(item, f)
		u, _ := strconv.ParseUint(s, 10, 64)
		return u
	}
	k, _ := fieldOf(item, sp.key)
	switch {
	case tag == sp.ins:
		return []rowOp{{'i', k, num(sp.val)}}
	case sp.addField != "" && tag == sp.addTag:
		var out []rowOp
		if m, ok := fieldOf(item, sp.addField); ok && m != "" {
			for _, e := range strings.Split(m, ",") {
				p := strings.SplitN(e, ":", 2)
				u, _ := strconv.ParseUint(p[1], 10, 64)
				out = append(out, rowOp{'a', p[0], u})
			}
		}
		return out
	}
	for _, u := range sp.upds {
		if u == tag {
			return []rowOp{{'u', k, num(sp.val)}}
		}
	}
	return nil
}

// applyRowOps: INSERT creates or overwrites the row, UPDATE / additive UPDATE of an absent row matches nothing
func applyRowOps(ops []rowOp) map[string]uint64 {
	t := map[string]uint64{}
	for _, o := range ops {
		switch o.kind {
		case 'i':
			t[o.k] = o.v
		case 'u':
			if _, ok := t[o.k]; ok {
				t[o.k] = o.v
			}
		case 'a':
			if x, ok := t[o.k]; ok {
				t[o.k] = x + o.v
			}
		}
	}
	return t
}

func showTable(id int, t map[string]uint64) string {
	var l []string
	for k, v := range t {
		l = append(l, fmt.Sprintf("%s:%d", k, v))
	}
	return fmt.Sprintf("%d:%s", id, showPairs(l))
}

func showRows(res []event.Event, names map[event.EventTag][]string) string {
	parts := []string{"rows"}
	for _, sp := range tblSpecs {
		var ops []rowOp
		for _, e := range res { // the order mergeEvents returns = the order WorkEvents applies
			if e.TxHash != "" {
				continue
			}
			for _, it := range itemsOfData(e.Data, names[e.Tag]) {
				ops = append(ops, rowOpsOf(sp, e.Tag, it)...)
			}
		}
		if t := applyRowOps(ops); len(t) > 0 {
			parts = append(parts, showTable(sp.id, t))
		}
	}
	return strings.Join(parts, " ")
}

func main() {
	logging.Logger = zap.NewNop()
	corr.Main(corr.Prop{
		ID: "C20", Model: "C20", Gen: gen, Impl: impl, Oracle: oracle,
		Cases: func(th bool) int {
			if th {
				return 40000
			}
			return 2500
		},
		Fixed: fixed,
	})
}
