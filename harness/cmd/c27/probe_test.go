package main

import (
	"context"
	"fmt"
	"os"
	"testing"

	"0chain.net/chaincore/block"
	"0chain.net/chaincore/chain"
	"0chain.net/chaincore/node"
	"0chain.net/chaincore/round"
	"0chain.net/core/datastore"
	"0chain.net/core/encryption"
	"github.com/0chain/common/core/statecache"
	"github.com/0chain/common/core/util"
	"verifharness/lib/engine"
)

type bsh struct{}

func (bsh) SaveMagicBlock() chain.MagicBlockSaveFunc { return nil }
func (bsh) UpdatePendingBlock(ctx context.Context, b *block.Block, txns []datastore.Entity) {}
func (bsh) UpdateFinalizedBlock(ctx context.Context, b *block.Block) error              { return nil }

type val struct{ b []byte }

func (v *val) MarshalMsg(o []byte) ([]byte, error) { return append(o, v.b...), nil }
func (v *val) UnmarshalMsg(b []byte) ([]byte, error) {
	v.b = append([]byte(nil), b...)
	return nil, nil
}

func TestProbe(t *testing.T) {
	c := engine.Setup()
	dir, _ := os.MkdirTemp("", "c27-")
	defer os.RemoveAll(dir)
	db, err := util.NewPNodeDB(dir+"/state", dir+"/log")
	if err != nil {
		t.Fatal(err)
	}
	chain.VerifResetChain(c)
	chain.VerifSetStateDB(c, db)
	// magic block with one miner
	ss := encryption.NewBLS0ChainScheme()
	ss.GenerateKeys()
	mn := node.Provider()
	mn.SetPublicKey(ss.GetPublicKey())
	mn.Type = node.NodeTypeMiner
	mn.ProtocolStats = &chain.MinerStats{FinalizationCountByRank: make([]int64, 4), GenerationCountByRank: make([]int64, 4)}
	mb := block.NewMagicBlock()
	mb.Miners = node.NewPool(node.NodeTypeMiner)
	mb.Sharders = node.NewPool(node.NodeTypeSharder)
	mb.Miners.AddNode(mn)
	mb.StartingRound = 0
	mb.Hash = "mbhash"
	if err := c.UpdateMagicBlock(mb); err != nil {
		fmt.Println("UpdateMagicBlock:", err)
	}
	c.SetMagicBlock(mb)
	// genesis
	gb := block.NewBlock("", 0)
	gb.Hash = "genesis"
	gb.ClientState = util.NewMerklePatriciaTrie(db, 0, nil, statecache.NewEmpty())
	gb.ClientStateHash = gb.ClientState.GetRoot()
	gb.SetStateStatus(block.StateSuccessful)
	c.SetLatestFinalizedBlock(gb)
	prev := gb
	for r := int64(1); r <= 3; r++ {
		b := block.NewBlock("", r)
		b.Hash = fmt.Sprintf("b%d", r)
		b.PrevBlock, b.PrevHash = prev, prev.Hash
		b.MinerID = mn.GetKey()
		st := block.CreateStateWithPreviousBlock(prev, db, r)
		tm := chain.CreateTxnMPT(st, statecache.NewTransactionCache(statecache.NewBlockCache(c.GetStateCache(), statecache.Block{Round: r, Hash: b.Hash, PrevHash: prev.Hash})))
		tm.Insert(util.Path(encryption.Hash(fmt.Sprintf("k%d", r))), &val{[]byte{byte(r)}})
		if r == 3 {
			tm.Delete(util.Path(encryption.Hash("k1")))
		}
		if err := st.MergeMPTChanges(tm); err != nil {
			t.Fatal(err)
		}
		b.ClientState = st
		b.ClientStateHash = st.GetRoot()
		b.SetStateStatus(block.StateSuccessful)
		rd := round.NewRound(r)
		rd.SetRandomSeed(r*7+1, 1)
		c.AddRound(rd)
		b.RoundRank = 0
		err := chain.VerifFinalizeBlock(c, context.Background(), b, bsh{})
		fmt.Println("finalize", r, err, "deletes", len(b.ClientState.GetDeletes()), "lfb", c.GetLatestFinalizedBlock().Round)
		prev = b
	}
}
