// C27 harness: random key histories (inserts, deletes, re-inserts of identical values in the same and in later
// blocks, several transactions per block, aborted transactions) on the REAL Merkle Patricia trie, every block
// finalized by the REAL chain.finalizeBlock (SaveChanges + RecordDeadNodes at the block's round + summary ring)
// into a REAL util.PNodeDB on a temporary rocksdb directory (the shimmed grocksdb), pruned by the REAL
// pruneClientState (version choice + PNodeDB.PruneBelowVersion), then every block's state read back in full from
// the persistent DB — against Model/Prune.lean. The real util.ChangeCollector is driven next to its model as well.
//
//	hist <salt> <round0>       reset chain bookkeeping, genesis (empty state) finalized at round0
//	b <round>                  open the block of <round> on top of the last finalized one
//	t | i <key> <val> | d <key> | c | a      a transaction's trie: insert / delete / commit (MergeMPTChanges) / abort
//	fin N:<..> D:<..> T:<..>   finalize; the sets (new nodes, dead nodes, all nodes of the state; 12 hex chars of each
//	                           hash, sorted) are what the GENERATOR computed on its own copy of the trie; the answer
//	                           carries the sets computed HERE
//	rb <round>                 roll back to the finalized block of <round> (a fork wins): the next blocks re-use the rounds above it
//	prune <count>              pruneClientState with PruneStateBelowCount=count -> noprune | abandoned | pruned <v> <deleted>
//	check <round>              iterate the whole state of that block from the persistent DB -> ok | missing | unknown-round
//	ccnew | ccadd <old|-> <new> | ccdel <old> | ccdump      the change collector
package main

import (
	"context"
	"fmt"
	"math/rand"
	"os"
	"sort"
	"strconv"
	"strings"
	"sync"

	"0chain.net/chaincore/block"
	"0chain.net/chaincore/chain"
	"0chain.net/chaincore/node"
	"0chain.net/chaincore/round"
	"0chain.net/core/datastore"
	"0chain.net/core/encryption"
	"0chain.net/core/memorystore"
	"github.com/0chain/common/core/statecache"
	"github.com/0chain/common/core/util"
	"verifharness/lib/corr"
	"verifharness/lib/engine"
)

// ---------------------------------------------------------------------------------------------- the trie, as the engine uses it

type val struct{ b []byte }

func (v *val) MarshalMsg(o []byte) ([]byte, error) { return append(o, v.b...), nil }
func (v *val) UnmarshalMsg(b []byte) ([]byte, error) {
	v.b = append([]byte(nil), b...)
	return nil, nil
}

// keyPath: keys "p<x>" share a 60-character prefix (extension node + nested full nodes), others are spread.
func keyPath(salt, k string) util.Path {
	h := encryption.Hash(salt + ":" + k)
	if strings.HasPrefix(k, "p") {
		h = encryption.Hash(salt+":prefix")[:60] + encryption.Hash(k)[:4]
	}
	return util.Path(h)
}

func short(h string) string {
	if len(h) > 12 {
		return h[:12]
	}
	return h
}

func setStr(hs []string) string {
	if len(hs) == 0 {
		return "-"
	}
	sort.Strings(hs)
	return strings.Join(hs, ",")
}

// trieSim: block state over a base DB, transaction tries merged into it — the calls updateState makes.
type trieSim struct {
	salt  string
	base  util.NodeDB
	prev  *block.Block
	blk   *block.Block
	state util.MerklePatriciaTrieI
	txn   util.MerklePatriciaTrieI
	sc    *statecache.StateCache
	live  map[int64]*block.Block // the finalized blocks of the current fork, by round
}

func (s *trieSim) genesis(round0 int64) {
	gb := block.NewBlock("", round0)
	gb.Hash = encryption.Hash(s.salt + ":genesis")
	gb.ClientState = util.NewMerklePatriciaTrie(s.base, util.Sequence(round0), nil, statecache.NewEmpty())
	gb.ClientStateHash = gb.ClientState.GetRoot()
	gb.SetStateStatus(block.StateSuccessful)
	s.prev, s.blk, s.state, s.txn = gb, nil, nil, nil
	s.live = map[int64]*block.Block{round0: gb}
}

// rollback: the fork point becomes the latest finalized block again; the blocks above it are abandoned
func (s *trieSim) rollback(r int64) bool {
	b, ok := s.live[r]
	if !ok || s.blk != nil || r >= s.prev.Round {
		return false
	}
	for q := range s.live {
		if q > r {
			delete(s.live, q)
		}
	}
	s.prev = b
	return true
}

func (s *trieSim) open(r int64) {
	b := block.NewBlock("", r)
	b.Hash = encryption.Hash(fmt.Sprintf("%s:block:%d", s.salt, r))
	b.PrevBlock, b.PrevHash = s.prev, s.prev.Hash
	s.state = block.CreateStateWithPreviousBlock(s.prev, s.base, r)
	b.ClientState = s.state
	s.blk = b
}

func (s *trieSim) beginTxn() {
	bc := statecache.NewBlockCache(s.sc, statecache.Block{Round: s.blk.Round, Hash: s.blk.Hash, PrevHash: s.blk.PrevHash})
	s.txn = chain.CreateTxnMPT(s.state, statecache.NewTransactionCache(bc))
}

// sets of a block about to be finalized: new nodes (what SaveChanges will write), dead nodes (GetDeletes), all nodes
func (s *trieSim) sets() (n, d, t []string, err error) {
	_, changes, _, _ := s.state.GetChanges()
	for _, c := range changes {
		n = append(n, short(c.New.GetHash()))
	}
	seen := map[string]bool{}
	for _, x := range s.state.GetDeletes() {
		if !seen[x.GetHash()] {
			seen[x.GetHash()] = true
			d = append(d, short(x.GetHash()))
		}
	}
	err = s.state.Iterate(context.Background(), func(ctx context.Context, path util.Path, key util.Key, nd util.Node) error {
		t = append(t, short(nd.GetHash()))
		return nil
	}, util.NodeTypeLeafNode|util.NodeTypeFullNode|util.NodeTypeExtensionNode)
	return
}

func (s *trieSim) seal() {
	s.blk.ClientStateHash = s.state.GetRoot()
	s.blk.SetStateChangesCount(s.state)
	s.blk.SetStateStatus(block.StateSuccessful)
}

// ---------------------------------------------------------------------------------------------- implementation side

type bsh struct{}

func (bsh) SaveMagicBlock() chain.MagicBlockSaveFunc                                     { return nil }
func (bsh) UpdatePendingBlock(ctx context.Context, b *block.Block, txns []datastore.Entity) {}
func (bsh) UpdateFinalizedBlock(ctx context.Context, b *block.Block) error              { return nil }

var (
	envOnce sync.Once
	pdb     *util.PNodeDB
	pdbDir  string
	miner   *node.Node
	nodeDB  = "util.PNodeDB on a temporary rocksdb directory (patched grocksdb shim)"
)

func env() *chain.Chain {
	c := engine.Setup()
	envOnce.Do(func() {
		block.SetupBlockSummaryEntity(memorystore.GetStorageProvider())
		round.SetupEntity(memorystore.GetStorageProvider())
		dir, err := os.MkdirTemp("", "c27-")
		if err != nil {
			panic(err)
		}
		pdbDir = dir
		db, err := util.NewPNodeDB(dir+"/state", dir+"/log")
		if err != nil {
			panic("cannot open the rocksdb node DB: " + err.Error())
		}
		pdb = db
		ss := encryption.NewBLS0ChainScheme()
		if err := ss.GenerateKeys(); err != nil {
			panic(err)
		}
		miner = node.Provider()
		if err := miner.SetPublicKey(ss.GetPublicKey()); err != nil {
			panic(err)
		}
		miner.Type = node.NodeTypeMiner
		miner.ProtocolStats = &chain.MinerStats{FinalizationCountByRank: make([]int64, 8), GenerationCountByRank: make([]int64, 8)}
	})
	return c
}

func cleanup() {
	if pdb != nil {
		pdb.Close()
		pdb = nil
	}
	if pdbDir != "" {
		os.RemoveAll(pdbDir)
	}
	if genDB != nil {
		genDB.Close()
		genDB = nil
	}
	if genDir != "" {
		os.RemoveAll(genDir)
	}
}

// The generator keeps its own copy of the trie to record each block's node sets. It runs the same calls on the same
// kind of node DB (a second PNodeDB): what the trie code does to node objects it shares between tries depends on
// whether a DB hands out stored objects (MemoryNodeDB) or decoded copies (PNodeDB).
var (
	genDB  *util.PNodeDB
	genDir string
)

func generatorDB() *util.PNodeDB {
	if genDB == nil {
		dir, err := os.MkdirTemp("", "c27g-")
		if err != nil {
			panic(err)
		}
		genDir = dir
		db, err := util.NewPNodeDB(dir+"/state", dir+"/log")
		if err != nil {
			panic("cannot open the generator's rocksdb node DB: " + err.Error())
		}
		genDB = db
	}
	return genDB
}

// recDB is the chain's state DB: the PNodeDB, with the version argument of PruneBelowVersion observed (the version
// pruneClientState chooses is a local variable otherwise).
type recDB struct {
	*util.PNodeDB
	lastPrune int64
}

func (r *recDB) PruneBelowVersion(ctx context.Context, version int64) error {
	r.lastPrune = version
	return r.PNodeDB.PruneBelowVersion(ctx, version)
}

type implCase struct {
	rdb    *recDB
	c      *chain.Chain
	sim    *trieSim
	roots  map[int64]util.Key
	failed string
}

func (ic *implCase) do(w []string) (out string) {
	defer func() {
		if r := recover(); r != nil {
			out = "panic"
		}
	}()
	s := ic.sim
	switch w[0] {
	case "hist":
		if len(w) != 3 {
			return "bad-op"
		}
		r0, err := strconv.ParseInt(w[2], 10, 64)
		if err != nil || r0 < 0 {
			return "bad-op"
		}
		c := ic.c
		chain.VerifResetChain(c)
		ic.rdb = &recDB{PNodeDB: pdb, lastPrune: -1}
		chain.VerifSetStateDB(c, ic.rdb)
		// drop whatever dead-node records an earlier case left (other salt, other hashes: its nodes are inert)
		if err := pdb.PruneBelowVersion(context.Background(), 1<<62); err != nil {
			return "err"
		}
		mb := block.NewMagicBlock()
		mb.Hash = encryption.Hash(w[1] + ":mb")
		mb.Miners = node.NewPool(node.NodeTypeMiner)
		mb.Sharders = node.NewPool(node.NodeTypeSharder)
		if err := mb.Miners.AddNode(miner); err != nil {
			return "err"
		}
		c.SetMagicBlock(mb)
		ic.sim = &trieSim{salt: w[1], base: ic.rdb, sc: statecache.NewStateCache()}
		ic.sim.genesis(r0)
		c.SetLatestFinalizedBlock(ic.sim.prev)
		ic.roots = map[int64]util.Key{r0: ic.sim.prev.ClientStateHash}
		return "ok"
	case "b":
		if len(w) != 2 || s == nil || s.blk != nil {
			return "bad-op"
		}
		r, err := strconv.ParseInt(w[1], 10, 64)
		if err != nil || r <= s.prev.Round {
			return "bad-op"
		}
		s.open(r)
		s.blk.MinerID = miner.GetKey()
		return "ok"
	case "t":
		if len(w) != 1 || s == nil || s.blk == nil || s.txn != nil {
			return "bad-op"
		}
		s.beginTxn()
		return "ok"
	case "i":
		if len(w) != 3 || s == nil || s.txn == nil {
			return "bad-op"
		}
		if _, err := s.txn.Insert(keyPath(s.salt, w[1]), &val{[]byte(w[2])}); err != nil {
			return "err"
		}
		return "ok"
	case "d":
		if len(w) != 2 || s == nil || s.txn == nil {
			return "bad-op"
		}
		if _, err := s.txn.Delete(keyPath(s.salt, w[1])); err != nil {
			return "err"
		}
		return "ok"
	case "c":
		if len(w) != 1 || s == nil || s.txn == nil {
			return "bad-op"
		}
		err := s.state.MergeMPTChanges(s.txn)
		s.txn = nil
		if err != nil {
			return "err"
		}
		return "ok"
	case "a":
		if len(w) != 1 || s == nil || s.txn == nil {
			return "bad-op"
		}
		s.txn = nil
		return "ok"
	case "fin":
		if len(w) != 4 || s == nil || s.blk == nil || s.txn != nil {
			return "bad-op"
		}
		for i, tag := range []string{"N:", "D:", "T:"} {
			if !strings.HasPrefix(w[1+i], tag) {
				return "bad-op"
			}
		}
		n, d, t, err := s.sets()
		if err != nil {
			return "err"
		}
		s.seal()
		rd := round.NewRound(s.blk.Round)
		rd.SetRandomSeed(s.blk.Round*7+1, 1)
		ic.c.AddRound(rd)
		s.blk.RoundRank = 0
		if err := chain.VerifFinalizeBlock(ic.c, context.Background(), s.blk, bsh{}); err != nil {
			return "finalize-err"
		}
		ic.roots[s.blk.Round] = s.blk.ClientStateHash
		s.live[s.blk.Round] = s.blk
		s.prev, s.blk, s.state = s.blk, nil, nil
		return fmt.Sprintf("fin N:%s D:%s T:%s", setStr(n), setStr(d), setStr(t))
	case "rb":
		// the state-setting calls of finalizeRound's "rolling back finalized block" branch, with the fork point as
		// common ancestor; the winning fork's blocks are then finalized by the real finalizeBlock for the same rounds
		if len(w) != 2 || s == nil {
			return "bad-op"
		}
		r, err := strconv.ParseInt(w[1], 10, 64)
		if err != nil || !s.rollback(r) {
			return "bad-op"
		}
		ic.c.SetLatestOwnFinalizedBlockRound(r)
		ic.c.SetLatestFinalizedBlock(s.prev)
		for q := range ic.roots {
			if q > r {
				delete(ic.roots, q)
			}
		}
		return "ok"
	case "prune":
		if len(w) != 2 || s == nil || s.blk != nil {
			return "bad-op"
		}
		cnt, err := strconv.Atoi(w[1])
		if err != nil || cnt < 0 || cnt > 100000 {
			return "bad-op"
		}
		ic.c.ChainConfig.(*chain.ConfigImpl).ConfDataForTest().PruneStateBelowCount = cnt
		stage, deleted, ran := chain.VerifPruneClientState(ic.c, context.Background())
		switch {
		case !ran:
			return "noprune"
		case stage == util.PruneStateAbandoned:
			return "abandoned"
		case stage == util.PruneStateCommplete:
			return fmt.Sprintf("pruned %d %d", ic.rdb.lastPrune, deleted)
		}
		return "prune-stage:" + stage
	case "check":
		if len(w) != 2 || s == nil {
			return "bad-op"
		}
		r, err := strconv.ParseInt(w[1], 10, 64)
		if err != nil || r < 0 {
			return "bad-op"
		}
		root, ok := ic.roots[r]
		if !ok {
			return "unknown-round"
		}
		mpt := util.NewMerklePatriciaTrie(pdb, util.Sequence(r), root, statecache.NewEmpty())
		err = mpt.Iterate(context.Background(), func(ctx context.Context, path util.Path, key util.Key, nd util.Node) error { return nil },
			util.NodeTypeLeafNode|util.NodeTypeFullNode|util.NodeTypeExtensionNode)
		if err != nil {
			return "missing"
		}
		return "ok"
	}
	return "bad-op"
}

// ---- the change collector: node ids are leaf nodes whose value is the id

type ccCase struct {
	cc    util.ChangeCollectorI
	nodes map[string]util.Node
	ids   map[string]string // hash -> id
}

func (cc *ccCase) node(id string) util.Node {
	if n, ok := cc.nodes[id]; ok {
		return n
	}
	n := util.NewLeafNode(util.Path("aa"), util.Path("bb"), util.Sequence(1), &val{[]byte(id)})
	cc.nodes[id] = n
	cc.ids[n.GetHash()] = id
	return n
}

func (cc *ccCase) do(w []string) string {
	switch w[0] {
	case "ccnew":
		*cc = ccCase{cc: util.NewChangeCollector(nil), nodes: map[string]util.Node{}, ids: map[string]string{}}
		return "ok"
	case "ccadd":
		if len(w) != 3 || cc.cc == nil || w[1] == w[2] {
			return "bad-op"
		}
		var old util.Node
		if w[1] != "-" {
			old = cc.node(w[1])
		}
		cc.cc.AddChange(old, cc.node(w[2]))
		return "ok"
	case "ccdel":
		if len(w) != 2 || cc.cc == nil {
			return "bad-op"
		}
		cc.cc.DeleteChange(cc.node(w[1]))
		return "ok"
	case "ccdump":
		if cc.cc == nil {
			return "bad-op"
		}
		var chs, dels []string
		for _, c := range cc.cc.GetChanges() {
			o := "-"
			if c.Old != nil {
				o = cc.ids[c.Old.GetHash()]
			}
			chs = append(chs, cc.ids[c.New.GetHash()]+"<"+o)
		}
		for _, d := range cc.cc.GetDeletes() {
			dels = append(dels, cc.ids[d.GetHash()])
		}
		return fmt.Sprintf("cc C:%s D:%s", setStr(chs), setStr(dels))
	}
	return "bad-op"
}

func impl(ops []string) []string {
	outs := make([]string, len(ops))
	ic := &implCase{c: env()}
	cc := &ccCase{}
	for i, op := range ops {
		w := strings.Fields(op)
		if len(w) == 0 {
			outs[i] = "bad-op"
			continue
		}
		if strings.HasPrefix(w[0], "cc") {
			outs[i] = cc.do(w)
		} else {
			outs[i] = ic.do(w)
		}
	}
	return outs
}

// ---------------------------------------------------------------------------------------------- generator (its own trie over a memory DB)

func genCC(r *rand.Rand) []string {
	ops := []string{"ccnew"}
	n := 4 + r.Intn(20)
	ids := []string{"a", "b", "c", "d", "e", "f"}
	for i := 0; i < n; i++ {
		x, y := ids[r.Intn(len(ids))], ids[r.Intn(len(ids))]
		switch r.Intn(5) {
		case 0:
			ops = append(ops, "ccdel "+x)
		case 1:
			ops = append(ops, "ccadd - "+x)
		default:
			if x != y {
				ops = append(ops, "ccadd "+x+" "+y)
			}
		}
		if r.Intn(4) == 0 {
			ops = append(ops, "ccdump")
		}
	}
	return append(ops, "ccdump")
}

func gen(r *rand.Rand, thorough bool, i int) (ops []string) {
	if i%6 == 5 {
		return genCC(r)
	}
	defer func() {
		if p := recover(); p != nil {
			ops = append(ops, "generr panic "+strings.ReplaceAll(fmt.Sprint(p), " ", "_"))
		}
	}()
	engine.Setup()
	salt := fmt.Sprintf("s%d", r.Int63())
	// rounds around a multiple of 100, where pruneClientState rounds its version down to
	round0 := int64(100*(1+r.Intn(50))) - int64(r.Intn(30))
	if r.Intn(5) == 0 {
		round0 = int64(r.Intn(3))
	}
	// plan (every fourth history): blocks up to just below a multiple of 100 rewrite keys, then a fork wins whose first
	// blocks are empty and re-use those rounds, the chain grows past the multiple of 100, and the state is pruned below
	// it: the retained blocks must not lose what the rolled-back blocks had recorded dead
	plan, forked := i%4 == 2, false
	base100 := int64(100 * (1 + r.Intn(50)))
	stopAt := base100 + 2 + int64(r.Intn(6))
	if plan {
		round0 = base100 - 6 - int64(r.Intn(8))
	}
	ops = []string{fmt.Sprintf("hist %s %d", salt, round0)}
	prevT := map[string]bool{}
	sim := &trieSim{salt: salt, base: generatorDB(), sc: statecache.NewStateCache()}
	sim.genesis(round0)
	nblocks := 4 + r.Intn(26)
	if thorough {
		nblocks = 4 + r.Intn(120)
	}
	if plan {
		nblocks = 1000 // until stopAt
	}
	keys := []string{"k1", "k2", "k3", "k4", "k5", "pa", "pb", "pc", "pd"}
	vals := []string{"v1", "v2", "v3"}
	live := map[string]string{}
	var finalized []int64
	liveAt := map[int64]map[string]string{round0: {}}   // key/value content of each finalized block
	tAt := map[int64]map[string]bool{round0: {}}        // node set of each finalized block
	var maxVersion, consecutiveUntil int64 = -1, -1
	rd := round0
	forkEmpty := 0
	lastDel, lastDelVal := "", ""
	for bi := 0; bi < nblocks; bi++ {
		// a fork wins: roll back a few finalized blocks; the winning fork's blocks take the same rounds, one per round
		// until it has passed the abandoned tip (as a chain does); its first blocks are often EMPTY
		if plan && forked && rd >= stopAt {
			break
		}
		if len(finalized) >= 2 && ((!plan && r.Intn(7) == 0) || (plan && !forked && rd >= base100-2)) {
			depth := 1 + r.Intn(minInt(4, len(finalized)-1))
			if plan {
				depth = 1 + r.Intn(minInt(2, len(finalized)-1))
				forked = true
			}
			target := finalized[len(finalized)-1-depth]
			if target >= maxVersion {
				ops = append(ops, fmt.Sprintf("rb %d", target))
				if !sim.rollback(target) {
					return append(ops, "generr rollback")
				}
				if rd > consecutiveUntil {
					consecutiveUntil = rd
				}
				finalized = finalized[:len(finalized)-depth]
				rd = target
				live = map[string]string{}
				for k, v := range liveAt[target] {
					live[k] = v
				}
				prevT = tAt[target]
				forkEmpty = r.Intn(3)
				if plan {
					forkEmpty = 1 + r.Intn(2)
				}
			}
		}
		rd++
		if rd > consecutiveUntil && !plan && r.Intn(8) == 0 {
			rd += int64(1 + r.Intn(3)) // rounds without a finalized block of their own
		}
		ops = append(ops, fmt.Sprintf("b %d", rd))
		sim.open(rd)
		ntx := r.Intn(4)
		if plan && !forked {
			ntx = 1 + r.Intn(3) // the blocks that will be rolled back rewrite keys
		}
		if forkEmpty > 0 || (rd <= consecutiveUntil && r.Intn(2) == 0) {
			ntx = 0 // an empty block: it deletes nothing, its dead-node record is empty
			forkEmpty--
		}
		for ti := 0; ti < ntx; ti++ {
			ops = append(ops, "t")
			sim.beginTxn()
			tlive := map[string]string{}
			for k, v := range live {
				tlive[k] = v
			}
			// a key deleted by the previous transaction of this block comes back (same value, or another one)
			if lastDel != "" && r.Intn(2) == 0 {
				v := lastDelVal
				if r.Intn(3) == 0 {
					v = vals[r.Intn(len(vals))]
				}
				ops = append(ops, "i "+lastDel+" "+v)
				sim.txn.Insert(keyPath(salt, lastDel), &val{[]byte(v)})
				tlive[lastDel] = v
			}
			lastDel, lastDelVal = "", ""
			for oi := 1 + r.Intn(4); oi > 0; oi-- {
				k := keys[r.Intn(len(keys))]
				if r.Intn(5) == 0 {
					// delete and re-insert within ONE transaction: the same value (the transaction's trie ends at the root
					// it started from when nothing else changed) or another value
					var present []string
					for _, kk := range keys {
						if tlive[kk] != "" {
							present = append(present, kk)
						}
					}
					if len(present) > 0 {
						k = present[r.Intn(len(present))]
						v := tlive[k]
						if r.Intn(3) == 0 {
							v = vals[r.Intn(len(vals))]
						}
						ops = append(ops, "d "+k, "i "+k+" "+v)
						sim.txn.Delete(keyPath(salt, k))
						sim.txn.Insert(keyPath(salt, k), &val{[]byte(v)})
						tlive[k] = v
						continue
					}
				}
				switch x := r.Intn(10); {
				case x < 3: // delete (sometimes of an absent key: an error, nothing changes)
					ops = append(ops, "d "+k)
					if _, err := sim.txn.Delete(keyPath(salt, k)); err == nil {
						lastDel, lastDelVal = k, tlive[k]
						delete(tlive, k)
					}
				case x < 5 && tlive[k] != "": // re-insert the identical value
					ops = append(ops, "i "+k+" "+tlive[k])
					sim.txn.Insert(keyPath(salt, k), &val{[]byte(tlive[k])})
				case x < 6 && live[k] != "": // back to the value the block started with
					ops = append(ops, "i "+k+" "+live[k])
					sim.txn.Insert(keyPath(salt, k), &val{[]byte(live[k])})
					tlive[k] = live[k]
				default:
					v := vals[r.Intn(len(vals))]
					ops = append(ops, "i "+k+" "+v)
					sim.txn.Insert(keyPath(salt, k), &val{[]byte(v)})
					tlive[k] = v
				}
			}
			if r.Intn(6) == 0 {
				ops = append(ops, "a")
				sim.txn = nil
				lastDel, lastDelVal = "", ""
			} else {
				ops = append(ops, "c")
				if err := sim.state.MergeMPTChanges(sim.txn); err != nil {
					return append(ops, "generr merge "+strings.ReplaceAll(err.Error(), " ", "_"))
				}
				sim.txn = nil
				live = tlive
			}
		}
		n, d, t, err := sim.sets()
		if err != nil {
			return append(ops, "generr iterate "+strings.ReplaceAll(err.Error(), " ", "_"))
		}
		ops = append(ops, fmt.Sprintf("fin N:%s D:%s T:%s", setStr(n), setStr(d), setStr(t)))
		{
			// a state node that is neither inherited nor about to be persisted: the trie is damaged (the known defect
			// after an aborted delete); what it does from here on is undefined (it may even panic): end the history
			nm := map[string]bool{}
			for _, h := range n {
				nm[h] = true
			}
			damaged := false
			cur := map[string]bool{}
			for _, h := range t {
				cur[h] = true
				if !prevT[h] && !nm[h] {
					damaged = true
				}
			}
			if damaged {
				return append(ops, fmt.Sprintf("check %d", rd))
			}
			prevT = cur
		}
		sim.seal()
		if err := sim.state.SaveChanges(context.Background(), sim.base, false); err != nil {
			return append(ops, "generr save "+strings.ReplaceAll(err.Error(), " ", "_"))
		}
		sim.state.SetNodeDB(sim.base) // as rebaseState does for the latest finalized block
		sim.live[rd] = sim.blk
		sim.prev, sim.blk, sim.state = sim.blk, nil, nil
		finalized = append(finalized, rd)
		liveAt[rd] = map[string]string{}
		for k, v := range live {
			liveAt[rd][k] = v
		}
		tAt[rd] = prevT
		if (!plan && (r.Intn(4) == 0 || bi == nblocks-1)) || (plan && forked && rd >= stopAt) {
			cnt := r.Intn(12)
			if plan {
				cnt = r.Intn(3)
			}
			if !plan {
				switch r.Intn(6) {
				case 0:
					cnt = 0
				case 1:
					cnt = 100
				}
			}
			ops = append(ops, fmt.Sprintf("prune %d", cnt))
			if rd-int64(cnt) > maxVersion { // the version pruneClientState may choose is at most lfb - count
				maxVersion = rd - int64(cnt)
			}
			// read back every block finalized so far (the pruned ones may be gone, the retained ones must not be)
			for _, f := range finalized {
				if len(finalized) < 12 || r.Intn(3) == 0 || f+15 > rd {
					ops = append(ops, fmt.Sprintf("check %d", f))
				}
			}
		}
	}
	return ops
}

func minInt(a, b int) int {
	if a < b {
		return a
	}
	return b
}

// ---------------------------------------------------------------------------------------------- oracle

func parseSet(s string) map[string]bool {
	m := map[string]bool{}
	i := strings.IndexByte(s, ':')
	if i < 0 || s[i+1:] == "-" {
		return m
	}
	for _, x := range strings.Split(s[i+1:], ",") {
		m[x] = true
	}
	return m
}

// oracle: after pruning below a version every finalized block at or above it reads back completely; and the
// per-block facts the safety argument rests on (Props/C27: prune_safe) hold of the sets the real trie produced.
func oracle(ops, outs []string) *corr.Violation {
	mk := func(sig, msg string) *corr.Violation {
		return &corr.Violation{Signature: "C27:" + sig, Message: msg, Ops: ops, Impl: outs}
	}
	var (
		cur, lfb      int64
		inTxn, txnDel, abortedDel bool
		finalized     = map[int64]bool{}
		version       int64 = -1
		prevT         map[string]bool
		everPersisted = map[string]int64{} // node -> round of the block that persisted it
		tAt           = map[int64]map[string]bool{}
		blockKV       = map[string]string{} // key -> value of the block state being built
		txnKV         map[string]string
		kvAt          = map[int64]map[string]string{}
	)
	cpKV := func(m map[string]string) map[string]string {
		c := map[string]string{}
		for k, v := range m {
			c[k] = v
		}
		return c
	}
	sameKV := func(a, b map[string]string) bool {
		if len(a) != len(b) {
			return false
		}
		for k, v := range a {
			if w, ok := b[k]; !ok || w != v {
				return false
			}
		}
		return true
	}
	for i, op := range ops {
		w := strings.Fields(op)
		o := outs[i]
		if o == "bad-op" {
			continue
		}
		switch w[0] {
		case "generr":
			return mk("generator-failed", fmt.Sprintf("op %d: %s", i, op))
		case "hist":
			lfb, _ = strconv.ParseInt(w[2], 10, 64)
			finalized, version, prevT, everPersisted = map[int64]bool{}, -1, map[string]bool{}, map[string]int64{}
			tAt = map[int64]map[string]bool{lfb: {}}
			blockKV, kvAt = map[string]string{}, map[int64]map[string]string{lfb: {}}
		case "rb":
			// a fork wins: the blocks above the fork point are no longer part of the chain
			r, _ := strconv.ParseInt(w[1], 10, 64)
			if r < version {
				continue // rolled back below a pruned version: outside what pruning promises
			}
			for q := range finalized {
				if q > r {
					delete(finalized, q)
				}
			}
			if t, ok := tAt[r]; ok {
				prevT = t
			}
			if m, ok := kvAt[r]; ok {
				blockKV = cpKV(m)
			}
			lfb = r
		case "b":
			cur, _ = strconv.ParseInt(w[1], 10, 64)
			abortedDel = false
		case "t":
			inTxn, txnDel = true, false
			txnKV = cpKV(blockKV)
		case "i":
			if inTxn && o == "ok" && len(w) == 3 {
				txnKV[w[1]] = w[2]
			}
		case "d":
			if inTxn && o == "ok" {
				txnDel = true
				delete(txnKV, w[1])
			}
		case "a":
			if txnDel {
				abortedDel = true
			}
			inTxn = false
		case "c":
			inTxn = false
			// a committed transaction that leaves the state as it found it ends at the root it started from:
			// MergeMPTChanges skips it ("same root"), its trie is discarded exactly like an aborted one
			if txnDel && sameKV(txnKV, blockKV) {
				abortedDel = true
			}
			if o == "ok" && txnKV != nil {
				blockKV = txnKV
			}
			if o != "ok" {
				return mk("merge-fails", fmt.Sprintf("op %d: MergeMPTChanges answered %q", i, o))
			}
		case "fin":
			f := strings.Fields(o)
			if len(f) != 4 || f[0] != "fin" {
				return mk("finalize-fails", fmt.Sprintf("op %d: finalizeBlock of round %d answered %q", i, cur, o))
			}
			n, d, t := parseSet(f[1]), parseSet(f[2]), parseSet(f[3])
			for h := range d {
				if t[h] {
					return mk("dead-node-still-in-state", fmt.Sprintf("op %d: node %s is recorded dead at round %d but is part of that block's state", i, h, cur))
				}
			}
			for h := range t {
				if !prevT[h] && !n[h] && abortedDel {
					return mk("aborted-delete-corrupts-pending-node", fmt.Sprintf("op %d: after a transaction that deleted a key was discarded (aborted, or committed without net change so that MergeMPTChanges skips it), the state of round %d holds node %s that is neither in the previous state nor among the nodes the block will persist (its pending copy in the change collector was altered): the finalized state cannot be read back from the node DB", i, cur, h))
				}
				if !prevT[h] && !n[h] {
					return mk("state-node-from-nowhere", fmt.Sprintf("op %d: node %s of the state of round %d is neither new nor in the previous state", i, h, cur))
				}
			}
			for h := range n {
				if pr, was := everPersisted[h]; was && pr != cur && !prevT[h] {
					// a new node with the hash of a node persisted earlier and since dropped from the state: only
					// possible if a hash could repeat across rounds
					return mk("node-hash-reused-across-rounds", fmt.Sprintf("op %d: new node %s of round %d was persisted before", i, h, cur))
				}
				everPersisted[h] = cur
			}
			prevT = t
			tAt[cur] = t
			kvAt[cur] = cpKV(blockKV)
			finalized[cur] = true
			lfb = cur
		case "prune":
			f := strings.Fields(o)
			if f[0] == "pruned" {
				v, _ := strconv.ParseInt(f[1], 10, 64)
				cnt, _ := strconv.ParseInt(w[1], 10, 64)
				if v > lfb-cnt {
					return mk("version-above-lfb-minus-count", fmt.Sprintf("op %d: pruned below %d with lfb %d and count %d", i, v, lfb, cnt))
				}
				if v > version {
					version = v
				}
			}
		case "check":
			r, _ := strconv.ParseInt(w[1], 10, 64)
			if finalized[r] && r >= version && o != "ok" {
				return mk("retained-state-unreadable", fmt.Sprintf("op %d: state of the retained block of round %d (pruned below %d) answered %q", i, r, version, o))
			}
		}
	}
	return nil
}

func main() {
	defer cleanup()
	corr.Main(corr.Prop{
		ID: "C27", Model: "C27", Gen: gen, Impl: impl, Oracle: oracle, Serial: true,
		Cases: func(th bool) int {
			if th {
				return 400
			}
			return 45
		},
		Fixed: [][]string{
			// the same defect through a COMMITTED transaction: delete and re-insert of the same value returns the
			// transaction's trie to the root it started from, MergeMPTChanges returns early, the trie is dropped
			{"hist sZ 685", "b 686", "t", "i pd v2", "i pa v1", "c", "t", "d pa", "i pa v1", "c",
				"fin N:5a1ced26302b,801bcdfcdef8,82115f3fcc09,8355fa12df14 D:- T:0800497dc1d5,5a1ced26302b,801bcdfcdef8,8355fa12df14", "check 686"},
			// an aborted transaction that deleted a key: the sibling leaf pending in the block's change collector is altered
			{"hist sX 4527", "b 4528", "t", "i pd v3", "i pb v1", "c", "t", "d pb", "a",
				"fin N:464c744ec2d9,74a0d26e2596,7a89be110ea7,c458b111ff55 D:- T:464c744ec2d9,7a89be110ea7,9a5a92e0dbaa,c458b111ff55", "check 4528"},
			// AddChange clears a pending delete of the re-created node; returning to the start node is no change
			{"ccnew", "ccadd a b", "ccdump", "ccadd b a", "ccdump", "ccdel a", "ccadd - a", "ccdump", "ccadd - c", "ccdel c", "ccdump"},
		},
		Extra: func() map[string]interface{} {
			cleanup()
			return map[string]interface{}{"node_db": nodeDB}
		},
	})
}
