package main

func main() {}
