// C47 harness: the real client signature schemes (encryption.GetSignatureScheme: bls0chain and ed25519) and the real
// client id derivation (client.SetPublicKey / GetIDFromPublicKey / Validate, encryption.VerifyPublicKeyClientID) against
// Model/Sig.lean.
package main

import (
	"context"
	"encoding/hex"
	"fmt"
	"math/big"
	"math/rand"
	"strconv"
	"strings"

	"0chain.net/chaincore/client"
	"0chain.net/core/encryption"
	"golang.org/x/crypto/ed25519"
	"golang.org/x/crypto/sha3"
	"verifharness/lib/corr"
	"verifharness/lib/cryptow"
	"verifharness/lib/minerfix"
)

type state struct {
	w      *cryptow.World
	ids    map[string]int
	ekeys  map[string]encryption.SignatureScheme
	epubs  map[string]int
	esigs  []string
	elabel map[string]int
}

func newState() *state {
	return &state{w: cryptow.New(), ids: map[string]int{}, ekeys: map[string]encryption.SignatureScheme{}, epubs: map[string]int{}, elabel: map[string]int{}}
}

func label(m map[string]int, k string) int {
	i, ok := m[k]
	if !ok {
		i = len(m)
		m[k] = i
	}
	return i
}

// clientOf: the client record the repository derives from a public key, with the id checked independently
// (sha3-256 of the public key bytes, computed here with x/crypto/sha3 rather than through the repository).
func (s *state) clientOf(pkHex string, scheme string) string {
	c := client.NewClient(client.SignatureScheme(scheme))
	if err := c.SetPublicKey(pkHex); err != nil {
		return "err"
	}
	pkb, err := hex.DecodeString(pkHex)
	if err != nil {
		return "err"
	}
	h := sha3.Sum256(pkb)
	want := hex.EncodeToString(h[:])
	id2, err2 := client.GetIDFromPublicKey(pkHex)
	ok := c.ID == want && err2 == nil && id2 == want && c.Validate(context.Background()) == nil &&
		encryption.VerifyPublicKeyClientID(pkHex, c.ID) == nil
	r := fmt.Sprintf("I%d", label(s.ids, c.ID))
	if ok {
		return r + " idok"
	}
	return r + " idBAD"
}

func (s *state) pushE(sig string) string {
	idx := len(s.esigs)
	s.esigs = append(s.esigs, sig)
	return fmt.Sprintf("esig %d E%d", idx, label(s.elabel, sig))
}

func (s *state) step(ws []string) string {
	if len(ws) == 0 {
		return "bad-op"
	}
	switch {
	case ws[0] == "client" && len(ws) == 2:
		k, ok := s.w.Keys[ws[1]]
		if !ok {
			return "bad-op"
		}
		return s.clientOf(k.GetPublicKey(), encryption.SignatureSchemeBls0chain)
	case ws[0] == "clientcheck" && len(ws) == 3:
		k, ok := s.w.Keys[ws[1]]
		k2, ok2 := s.w.Keys[ws[2]]
		if !ok || !ok2 {
			return "bad-op"
		}
		id2, err := client.GetIDFromPublicKey(k2.GetPublicKey())
		if err != nil {
			return "err"
		}
		c := client.NewClient()
		if err := c.SetPublicKey(k.GetPublicKey()); err != nil {
			return "err"
		}
		c.ID = id2
		a := encryption.VerifyPublicKeyClientID(k.GetPublicKey(), id2) == nil
		b := c.Validate(context.Background()) == nil
		if a != b {
			return "inconsistent"
		}
		return strconv.FormatBool(a)
	case ws[0] == "ekey" && len(ws) == 3:
		if _, err := strconv.ParseUint(ws[2], 10, 64); err != nil {
			return "bad-op"
		}
		priv := ed25519.NewKeyFromSeed(encryption.RawHash("edseed:" + ws[2]))
		pub := priv.Public().(ed25519.PublicKey)
		sc := encryption.GetSignatureScheme(encryption.SignatureSchemeEd25519)
		if err := sc.ReadKeys(strings.NewReader(hex.EncodeToString(pub) + "\n" + hex.EncodeToString(priv) + "\n")); err != nil {
			return "err"
		}
		s.ekeys[ws[1]] = sc
		return fmt.Sprintf("P%d", label(s.epubs, sc.GetPublicKey()))
	case ws[0] == "esign" && len(ws) == 3:
		k, ok := s.ekeys[ws[1]]
		m, ok2 := s.w.Msgs[ws[2]]
		if !ok || !ok2 {
			return "bad-op"
		}
		sg, err := k.Sign(hex.EncodeToString(m))
		if err != nil {
			return "err"
		}
		return s.pushE(sg)
	case ws[0] == "etamper" && len(ws) == 2:
		i, err := strconv.Atoi(ws[1])
		if err != nil || i < 0 || i >= len(s.esigs) {
			return "bad-op"
		}
		b, _ := hex.DecodeString(s.esigs[i])
		if len(b) == 0 {
			return "bad-op"
		}
		b[(len(s.esigs)*7)%len(b)] ^= byte(1 + len(s.esigs)%200)
		return s.pushE(hex.EncodeToString(b))
	case ws[0] == "everify" && len(ws) == 4:
		k, ok := s.ekeys[ws[1]]
		i, err := strconv.Atoi(ws[2])
		m, ok2 := s.w.Msgs[ws[3]]
		if !ok || err != nil || i < 0 || i >= len(s.esigs) || !ok2 {
			return "bad-op"
		}
		// a verifier holds the public key only
		v := encryption.GetSignatureScheme(encryption.SignatureSchemeEd25519)
		if err := v.SetPublicKey(k.GetPublicKey()); err != nil {
			return "err"
		}
		r, err := v.Verify(s.esigs[i], hex.EncodeToString(m))
		if err != nil {
			return "err"
		}
		return strconv.FormatBool(r)
	case ws[0] == "eclient" && len(ws) == 2:
		k, ok := s.ekeys[ws[1]]
		if !ok {
			return "bad-op"
		}
		return s.clientOf(k.GetPublicKey(), encryption.SignatureSchemeEd25519)
	}
	o, handled := s.w.Step(ws)
	if !handled {
		return "bad-op"
	}
	if ws[0] == "dkg" {
		w := s.w
		*s = *newState()
		s.w = w
	}
	return o
}

func impl(ops []string) []string {
	minerfix.GlobalInit() // entity metadata of the client package
	s := newState()
	outs := make([]string, len(ops))
	for i, op := range ops {
		func() {
			defer func() {
				if r := recover(); r != nil {
					outs[i] = "panic"
				}
			}()
			outs[i] = s.step(strings.Fields(op))
		}()
	}
	return outs
}

// ---------------------------------------------------------------------------------------------- generator

func rndGeneric(r *rand.Rand) string {
	for {
		v := new(big.Int).Rand(r, cryptow.Order())
		if v.BitLen() > 200 {
			return v.String()
		}
	}
}

func rndSecret(r *rand.Rand) string {
	q := cryptow.Order()
	switch r.Intn(12) {
	case 0:
		return "1"
	case 1:
		return new(big.Int).Sub(q, big.NewInt(1)).String()
	case 2:
		return strconv.Itoa(2 + r.Intn(3))
	case 3:
		return new(big.Int).Add(q, big.NewInt(int64(2+r.Intn(3)))).String() // the same key as the small one, written >= r
	case 4:
		return "0"
	}
	return rndGeneric(r)
}

func genCase(r *rand.Rand, thorough bool, i int) []string {
	var ops []string
	add := func(f string, a ...interface{}) { ops = append(ops, fmt.Sprintf(f, a...)) }
	nsig, nesig := 0, 0
	add("dkg 0 0")
	add("order")
	nk := 1 + r.Intn(4)
	nm := 1 + r.Intn(3)
	for m := 0; m < nm; m++ {
		add("msg h%d %s", m, rndGeneric(r))
	}
	if r.Intn(2) == 0 { // bls0chain
		for k := 0; k < nk; k++ {
			add("key k%d %s", k, rndSecret(r))
		}
		type sg struct{ k, m, idx int }
		var sigs []sg
		for k := 0; k < nk; k++ {
			for m := 0; m < nm; m++ {
				if r.Intn(3) > 0 {
					add("ksign k%d h%d", k, m)
					sigs = append(sigs, sg{k, m, nsig})
					nsig++
				}
			}
		}
		for _, s := range sigs {
			for k := 0; k < nk; k++ { // under every key, for every hash
				for m := 0; m < nm; m++ {
					if (k == s.k && m == s.m) || r.Intn(2) == 0 {
						add("kverify k%d %d h%d", k, s.idx, m)
					}
				}
			}
		}
		// tampered signatures
		for x := 0; x < 3 && len(sigs) > 0; x++ {
			s := sigs[r.Intn(len(sigs))]
			t := sigs[r.Intn(len(sigs))]
			switch r.Intn(3) {
			case 0:
				add("sigadd %d %d", s.idx, t.idx)
			case 1:
				add("sigsub %d %d", s.idx, t.idx)
			default:
				add("sigzero")
			}
			add("kverify k%d %d h%d", s.k, nsig, s.m)
			nsig++
		}
		for k := 0; k < nk; k++ {
			add("client k%d", k)
		}
		for x := 0; x < 3; x++ {
			add("clientcheck k%d k%d", r.Intn(nk), r.Intn(nk))
		}
	} else { // ed25519
		seeds := make([]int, nk)
		for k := 0; k < nk; k++ {
			seeds[k] = r.Intn(6)
			if r.Intn(3) == 0 {
				seeds[k] = r.Intn(1 << 30)
			}
			add("ekey e%d %d", k, seeds[k])
		}
		type sg struct{ k, m, idx int }
		var sigs []sg
		for k := 0; k < nk; k++ {
			for m := 0; m < nm; m++ {
				if r.Intn(3) > 0 {
					add("esign e%d h%d", k, m)
					sigs = append(sigs, sg{k, m, nesig})
					nesig++
				}
			}
		}
		for _, s := range sigs {
			for k := 0; k < nk; k++ {
				for m := 0; m < nm; m++ {
					if (k == s.k && m == s.m) || r.Intn(2) == 0 {
						add("everify e%d %d h%d", k, s.idx, m)
					}
				}
			}
		}
		for x := 0; x < 3 && len(sigs) > 0; x++ {
			s := sigs[r.Intn(len(sigs))]
			add("etamper %d", s.idx)
			add("everify e%d %d h%d", s.k, nesig, s.m)
			nesig++
		}
		for k := 0; k < nk; k++ {
			add("eclient e%d", k)
		}
	}
	return ops
}

func genMalformed(r *rand.Rand) []string {
	return []string{"dkg 0 0", "key k 5", "msg a 3", "client nokey", "clientcheck k nokey", "ekey e x", "esign e a", "ekey e 1", "esign e nomsg", "etamper 0", "everify e 0 a", "eclient f", "kverify k 0 a", "frob"}
}

func genAll(r *rand.Rand, thorough bool, i int) []string {
	if i%60 == 59 {
		return genMalformed(r)
	}
	return genCase(r, thorough, i)
}

func main() {
	corr.Main(corr.Prop{
		ID: "C47", Model: "C47", Gen: genAll, Impl: impl, Oracle: oracle,
		Cases: func(th bool) int {
			if th {
				return 30000
			}
			return 2000
		},
		Fixed: [][]string{
			{"dkg 0 0", "msg a 3", "msg b 4", "key k0 5", "key k1 7", "key k2 16798108731015832284940804142231733909759579603404752749028378864165570215954",
				"ksign k0 a", "kverify k0 0 a", "kverify k1 0 a", "kverify k0 0 b", "kverify k2 0 a", "client k0", "client k1", "client k2", "clientcheck k0 k2", "clientcheck k0 k1"},
			{"dkg 0 0", "msg a 3", "msg b 4", "ekey e0 1", "ekey e1 2", "ekey e2 1", "esign e0 a", "everify e0 0 a", "everify e1 0 a", "everify e0 0 b", "everify e2 0 a", "etamper 0", "everify e0 1 a", "eclient e0", "eclient e1", "eclient e2"},
		},
	})
}
