// C47 harness: the real client signature schemes (encryption.GetSignatureScheme: bls0chain and ed25519) and the real
// client id derivation (client.SetPublicKey / GetIDFromPublicKey / Validate, encryption.VerifyPublicKeyClientID) against
// Model/Sig.lean.
package main

import (
	"context"
	"encoding/hex"
	"encoding/json"
	"fmt"
	"math/big"
	"math/rand"
	"strconv"
	"strings"

	"0chain.net/chaincore/client"
	"0chain.net/chaincore/transaction"
	"0chain.net/core/encryption"
	"0chain.net/smartcontract/storagesc"
	"golang.org/x/crypto/ed25519"
	"golang.org/x/crypto/sha3"
	"verifharness/lib/corr"
	"verifharness/lib/cryptow"
	"verifharness/lib/minerfix"
)

type state struct {
	w      *cryptow.World
	ids    map[string]int
	ekeys  map[string]encryption.SignatureScheme
	epubs  map[string]int
	esigs  []string
	elabel map[string]int
	clients map[string]*client.Client
}

func newState() *state {
	return &state{w: cryptow.New(), ids: map[string]int{}, ekeys: map[string]encryption.SignatureScheme{}, epubs: map[string]int{}, elabel: map[string]int{}, clients: map[string]*client.Client{}}
}

func label(m map[string]int, k string) int {
	i, ok := m[k]
	if !ok {
		i = len(m)
		m[k] = i
	}
	return i
}

// clientOf: the client record the repository derives from a public key, with the id checked independently
// (sha3-256 of the public key bytes, computed here with x/crypto/sha3 rather than through the repository).
func (s *state) clientOf(pkHex string, scheme string) string {
	c := client.NewClient(client.SignatureScheme(scheme))
	if err := c.SetPublicKey(pkHex); err != nil {
		return "err"
	}
	pkb, err := hex.DecodeString(pkHex)
	if err != nil {
		return "err"
	}
	h := sha3.Sum256(pkb)
	want := hex.EncodeToString(h[:])
	id2, err2 := client.GetIDFromPublicKey(pkHex)
	ok := c.ID == want && err2 == nil && id2 == want && c.Validate(context.Background()) == nil &&
		encryption.VerifyPublicKeyClientID(pkHex, c.ID) == nil
	r := fmt.Sprintf("I%d", label(s.ids, c.ID))
	if ok {
		return r + " idok"
	}
	return r + " idBAD"
}

// anyKey: the scheme object and scheme name a key name stands for (ed25519 keys shadow BLS keys of the same name).
func (s *state) anyKey(k string) (encryption.SignatureScheme, string, bool) {
	if e, ok := s.ekeys[k]; ok {
		return e, encryption.SignatureSchemeEd25519, true
	}
	if b, ok := s.w.Keys[k]; ok {
		return b, encryption.SignatureSchemeBls0chain, true
	}
	return nil, "", false
}

// showClient: the id label of ONE long-lived client object and whether the id is the sha3-256 (computed here, not through
// the repository) of the public key the object CURRENTLY carries, its cached key bytes are those of that key, and
// Validate / VerifyPublicKeyClientID agree.
func (s *state) showClient(c *client.Client) string {
	if c.PublicKey == "" {
		return "nokey"
	}
	pkb, err := hex.DecodeString(c.PublicKey)
	if err != nil {
		return "err"
	}
	h := sha3.Sum256(pkb)
	want := hex.EncodeToString(h[:])
	ok := c.ID == want && hex.EncodeToString(c.PublicKeyBytes) == c.PublicKey &&
		c.Validate(context.Background()) == nil && encryption.VerifyPublicKeyClientID(c.PublicKey, c.ID) == nil
	r := fmt.Sprintf("I%d", label(s.ids, c.ID))
	if ok {
		return r + " idok"
	}
	return r + " idBAD"
}

// spelling: the named spellings of an id (the same definitions as Sig.spelling in the Lean model).
func spelling(v, id string) (string, bool) {
	isLetter := func(c byte) bool { return c >= 'a' && c <= 'f' }
	flipFrom := func(b []byte, k int) []byte {
		for i := k; i < len(b); i++ {
			if isLetter(b[i]) {
				b[i] -= 32
				break
			}
		}
		return b
	}
	b := []byte(id)
	switch v {
	case "canon":
		return id, true
	case "upper":
		return strings.ToUpper(id), true
	case "flipfirst":
		return string(flipFrom(b, 0)), true
	case "flipmid":
		return string(flipFrom(b, 32)), true
	case "fliplast":
		for i := len(b) - 1; i >= 0; i-- {
			if isLetter(b[i]) {
				b[i] -= 32
				break
			}
		}
		return string(b), true
	case "0x":
		return "0x" + id, true
	case "sptrail":
		return id + " ", true
	case "splead":
		return " " + id, true
	case "d63":
		return id[1:], true
	case "odd":
		return id[:len(id)-1], true
	case "d65":
		return id + "0", true
	case "d65b":
		return "0" + id, true
	case "d62":
		return id[2:], true
	}
	return "", false
}

// idcheck: does the entry point accept the pair (public key, id)?
func idcheck(entry, pk, id string) (bool, bool) {
	switch entry {
	case "vpk":
		return encryption.VerifyPublicKeyClientID(pk, id) == nil, true
	case "txn":
		t := &transaction.Transaction{PublicKey: pk, ClientID: id}
		return t.ComputeClientID() == nil && t.ClientID == id, true
	case "txnprops":
		t := &transaction.Transaction{PublicKey: pk, ClientID: id, ChainID: "verif-chain"}
		return t.ComputeProperties() == nil && t.ClientID == id, true
	case "client":
		c := client.NewClient()
		if err := c.ComputeProperties(); err == nil && c.PublicKey == "" {
			// (an empty client has nothing to compute)
		}
		c.PublicKey = pk
		if err := c.ComputeProperties(); err != nil {
			return false, true
		}
		c.ID = id // a record that claims this id for this key
		return c.Validate(context.Background()) == nil, true
	case "vticket":
		vt := &storagesc.ValidationTicket{ChallengeID: "c", BlobberID: "b", ValidatorID: id, ValidatorKey: pk}
		return vt.Validate("c", "b") == nil, true
	}
	return false, false
}

func (s *state) pushE(sig string) string {
	idx := len(s.esigs)
	s.esigs = append(s.esigs, sig)
	return fmt.Sprintf("esig %d E%d", idx, label(s.elabel, sig))
}

func (s *state) step(ws []string) string {
	if len(ws) == 0 {
		return "bad-op"
	}
	switch {
	case ws[0] == "idcheck" && (len(ws) == 4 || len(ws) == 5):
		k, _, ok := s.anyKey(ws[2])
		k2 := k
		ok2 := true
		if len(ws) == 5 {
			k2, _, ok2 = s.anyKey(ws[4])
		}
		if !ok || !ok2 {
			return "bad-op"
		}
		canon, err := client.GetIDFromPublicKey(k2.GetPublicKey())
		if err != nil {
			return "err"
		}
		// the canonical id itself is re-derived independently (sha3-256 of the key bytes, lower-case hex)
		pkb, _ := hex.DecodeString(k2.GetPublicKey())
		h := sha3.Sum256(pkb)
		if canon != hex.EncodeToString(h[:]) {
			return "idBAD"
		}
		if _, known := map[string]bool{"vpk": true, "txn": true, "txnprops": true, "client": true, "vticket": true}[ws[1]]; !known {
			return "bad-op"
		}
		id, okv := spelling(ws[3], canon)
		if !okv {
			return "bad-op"
		}
		r, _ := idcheck(ws[1], k.GetPublicKey(), id)
		return strconv.FormatBool(r)
	case ws[0] == "cnew" && len(ws) == 2:
		s.clients[ws[1]] = client.NewClient()
		return "ok"
	case (ws[0] == "csetpk" || ws[0] == "csetscheme" || ws[0] == "cdecode") && len(ws) == 3:
		c, ok := s.clients[ws[1]]
		sc, name, ok2 := s.anyKey(ws[2])
		if !ok || !ok2 {
			return "bad-op"
		}
		switch ws[0] {
		case "csetpk":
			c.SetSignatureSchemeType(name)
			if err := c.SetPublicKey(sc.GetPublicKey()); err != nil {
				return "err"
			}
		case "csetscheme":
			// a verifier-side scheme object (public key only) of the right kind
			v := encryption.GetSignatureScheme(name)
			if err := v.SetPublicKey(sc.GetPublicKey()); err != nil {
				return "err"
			}
			if err := c.SetSignatureScheme(v); err != nil {
				return "err"
			}
		case "cdecode":
			if err := json.Unmarshal([]byte(`{"public_key":"`+sc.GetPublicKey()+`"}`), c); err != nil {
				return "err"
			}
			if err := c.ComputeProperties(); err != nil {
				return "err"
			}
		}
		return s.showClient(c)
	case ws[0] == "cstatus" && len(ws) == 2:
		c, ok := s.clients[ws[1]]
		if !ok {
			return "bad-op"
		}
		return s.showClient(c)
	case ws[0] == "cverify" && len(ws) == 4:
		c, ok := s.clients[ws[1]]
		i, err := strconv.Atoi(ws[2])
		m, ok2 := s.w.Msgs[ws[3]]
		if !ok || c.PublicKey == "" || err != nil || i < 0 || i >= len(s.w.Sigs) || !ok2 {
			return "bad-op"
		}
		r, err := c.Verify(s.w.Sigs[i].SerializeToHexStr(), hex.EncodeToString(m))
		if err != nil {
			return "false"
		}
		return strconv.FormatBool(r)
	case ws[0] == "kdirect" && len(ws) == 4:
		k, ok := s.w.Keys[ws[1]]
		i, err := strconv.Atoi(ws[2])
		m, ok2 := s.w.Msgs[ws[3]]
		if !ok || err != nil || i < 0 || i >= len(s.w.Sigs) || !ok2 {
			return "bad-op"
		}
		// the library itself, without the repository's wrapper, over exactly the message bytes
		sg := s.w.Sigs[i]
		return strconv.FormatBool(sg.Verify(k.GetBLSPublicKey(), string(m)))
	case ws[0] == "client" && len(ws) == 2:
		k, ok := s.w.Keys[ws[1]]
		if !ok {
			return "bad-op"
		}
		return s.clientOf(k.GetPublicKey(), encryption.SignatureSchemeBls0chain)
	case ws[0] == "clientcheck" && len(ws) == 3:
		k, ok := s.w.Keys[ws[1]]
		k2, ok2 := s.w.Keys[ws[2]]
		if !ok || !ok2 {
			return "bad-op"
		}
		id2, err := client.GetIDFromPublicKey(k2.GetPublicKey())
		if err != nil {
			return "err"
		}
		c := client.NewClient()
		if err := c.SetPublicKey(k.GetPublicKey()); err != nil {
			return "err"
		}
		c.ID = id2
		a := encryption.VerifyPublicKeyClientID(k.GetPublicKey(), id2) == nil
		b := c.Validate(context.Background()) == nil
		if a != b {
			return "inconsistent"
		}
		return strconv.FormatBool(a)
	case ws[0] == "ekey" && len(ws) == 3:
		if _, err := strconv.ParseUint(ws[2], 10, 64); err != nil {
			return "bad-op"
		}
		priv := ed25519.NewKeyFromSeed(encryption.RawHash("edseed:" + ws[2]))
		pub := priv.Public().(ed25519.PublicKey)
		sc := encryption.GetSignatureScheme(encryption.SignatureSchemeEd25519)
		if err := sc.ReadKeys(strings.NewReader(hex.EncodeToString(pub) + "\n" + hex.EncodeToString(priv) + "\n")); err != nil {
			return "err"
		}
		s.ekeys[ws[1]] = sc
		return fmt.Sprintf("P%d", label(s.epubs, sc.GetPublicKey()))
	case ws[0] == "esign" && len(ws) == 3:
		k, ok := s.ekeys[ws[1]]
		m, ok2 := s.w.Msgs[ws[2]]
		if !ok || !ok2 {
			return "bad-op"
		}
		sg, err := k.Sign(hex.EncodeToString(m))
		if err != nil {
			return "err"
		}
		return s.pushE(sg)
	case ws[0] == "etamper" && len(ws) == 2:
		i, err := strconv.Atoi(ws[1])
		if err != nil || i < 0 || i >= len(s.esigs) {
			return "bad-op"
		}
		b, _ := hex.DecodeString(s.esigs[i])
		if len(b) == 0 {
			return "bad-op"
		}
		b[(len(s.esigs)*7)%len(b)] ^= byte(1 + len(s.esigs)%200)
		return s.pushE(hex.EncodeToString(b))
	case ws[0] == "everify" && len(ws) == 4:
		k, ok := s.ekeys[ws[1]]
		i, err := strconv.Atoi(ws[2])
		m, ok2 := s.w.Msgs[ws[3]]
		if !ok || err != nil || i < 0 || i >= len(s.esigs) || !ok2 {
			return "bad-op"
		}
		// a verifier holds the public key only
		v := encryption.GetSignatureScheme(encryption.SignatureSchemeEd25519)
		if err := v.SetPublicKey(k.GetPublicKey()); err != nil {
			return "err"
		}
		r, err := v.Verify(s.esigs[i], hex.EncodeToString(m))
		if err != nil {
			return "err"
		}
		return strconv.FormatBool(r)
	case ws[0] == "eclient" && len(ws) == 2:
		k, ok := s.ekeys[ws[1]]
		if !ok {
			return "bad-op"
		}
		return s.clientOf(k.GetPublicKey(), encryption.SignatureSchemeEd25519)
	}
	o, handled := s.w.Step(ws)
	if !handled {
		return "bad-op"
	}
	if ws[0] == "dkg" {
		w := s.w
		*s = *newState()
		s.w = w
	}
	return o
}

func impl(ops []string) []string {
	minerfix.GlobalInit() // entity metadata of the client package
	s := newState()
	outs := make([]string, len(ops))
	for i, op := range ops {
		func() {
			defer func() {
				if r := recover(); r != nil {
					outs[i] = "panic"
				}
			}()
			outs[i] = s.step(strings.Fields(op))
		}()
	}
	return outs
}

// ---------------------------------------------------------------------------------------------- generator

func rndGeneric(r *rand.Rand) string {
	for {
		v := new(big.Int).Rand(r, cryptow.Order())
		if v.BitLen() > 200 {
			return v.String()
		}
	}
}

func rndSecret(r *rand.Rand) string {
	q := cryptow.Order()
	switch r.Intn(12) {
	case 0:
		return "1"
	case 1:
		return new(big.Int).Sub(q, big.NewInt(1)).String()
	case 2:
		return strconv.Itoa(2 + r.Intn(3))
	case 3:
		return new(big.Int).Add(q, big.NewInt(int64(2+r.Intn(3)))).String() // the same key as the small one, written >= r
	case 4:
		return "0"
	}
	return rndGeneric(r)
}

func genCase(r *rand.Rand, thorough bool, i int) []string {
	var ops []string
	add := func(f string, a ...interface{}) { ops = append(ops, fmt.Sprintf(f, a...)) }
	nsig, nesig := 0, 0
	add("dkg 0 0")
	add("order")
	nk := 1 + r.Intn(4)
	nm := 1 + r.Intn(3)
	if r.Intn(3) == 0 {
		// hashes that are not 32 bytes long, and hashes related by a common 32-byte prefix / trailing zero bytes:
		// every distinct byte string is a distinct hash
		H := make([]byte, 32)
		r.Read(H)
		short := make([]byte, 1+r.Intn(6))
		r.Read(short)
		x, y := make([]byte, 1+r.Intn(8)), make([]byte, 1+r.Intn(8))
		r.Read(x)
		r.Read(y)
		y[0] = x[0] ^ 0x5a
		pad := append(append([]byte{}, short...), make([]byte, 32-len(short))...)
		long := make([]byte, 64)
		r.Read(long)
		copy(long, H)
		fam := [][]byte{H, append(append([]byte{}, H...), 0), append(append([]byte{}, H...), 1), append(append([]byte{}, H...), x...),
			append(append([]byte{}, H...), y...), short, append(append([]byte{}, short...), 0), pad, {}, {0}, H[:31], H[:1], long, long[:40], long[:33]}
		r.Shuffle(len(fam), func(a, b int) { fam[a], fam[b] = fam[b], fam[a] })
		seen := map[string]bool{}
		nm = 0
		for _, b := range fam {
			hx := hex.EncodeToString(b)
			if seen[hx] || nm >= 5+r.Intn(3) {
				continue
			}
			seen[hx] = true
			if hx == "" {
				hx = "-"
			}
			add("msgb h%d %s %s", nm, hx, rndGeneric(r))
			nm++
		}
	} else {
		for m := 0; m < nm; m++ {
			add("msg h%d %s", m, rndGeneric(r))
		}
	}
	if r.Intn(2) == 0 { // bls0chain
		for k := 0; k < nk; k++ {
			add("key k%d %s", k, rndSecret(r))
		}
		type sg struct{ k, m, idx int }
		var sigs []sg
		for k := 0; k < nk; k++ {
			for m := 0; m < nm; m++ {
				if r.Intn(3) > 0 {
					add("ksign k%d h%d", k, m)
					sigs = append(sigs, sg{k, m, nsig})
					nsig++
				}
			}
		}
		for _, s := range sigs {
			add("kdirect k%d %d h%d", s.k, s.idx, s.m) // what Sign produced is the library's signature over exactly these bytes
			if r.Intn(3) == 0 {
				add("kdirect k%d %d h%d", s.k, s.idx, r.Intn(nm))
			}
		}
		for _, s := range sigs {
			for k := 0; k < nk; k++ { // under every key, for every hash
				for m := 0; m < nm; m++ {
					if (k == s.k && m == s.m) || r.Intn(2) == 0 {
						add("kverify k%d %d h%d", k, s.idx, m)
					}
				}
			}
		}
		// tampered signatures
		for x := 0; x < 3 && len(sigs) > 0; x++ {
			s := sigs[r.Intn(len(sigs))]
			t := sigs[r.Intn(len(sigs))]
			switch r.Intn(3) {
			case 0:
				add("sigadd %d %d", s.idx, t.idx)
			case 1:
				add("sigsub %d %d", s.idx, t.idx)
			default:
				add("sigzero")
			}
			add("kverify k%d %d h%d", s.k, nsig, s.m)
			nsig++
		}
		for k := 0; k < nk; k++ {
			add("client k%d", k)
		}
		for x := 0; x < 3; x++ {
			add("clientcheck k%d k%d", r.Intn(nk), r.Intn(nk))
		}
		genIdChecks(r, add, "k", nk)
		// ONE client object whose key changes: set, set another, scheme object, decode + ComputeProperties; also ed25519 keys
		add("ekey e0 %d", r.Intn(1<<20))
		add("cnew c")
		if r.Intn(4) == 0 {
			add("cstatus c")
		}
		for x := 0; x < 2+r.Intn(5); x++ {
			kn := fmt.Sprintf("k%d", r.Intn(nk))
			if r.Intn(5) == 0 {
				kn = "e0"
			}
			op := []string{"csetpk", "csetscheme", "cdecode"}[r.Intn(3)]
			add("%s c %s", op, kn)
			if op != "cdecode" && kn != "e0" && len(sigs) > 0 && r.Intn(2) == 0 {
				sg := sigs[r.Intn(len(sigs))]
				add("cverify c %d h%d", sg.idx, sg.m)
			}
			if r.Intn(3) == 0 {
				add("cstatus c")
			}
		}
	} else { // ed25519
		seeds := make([]int, nk)
		for k := 0; k < nk; k++ {
			seeds[k] = r.Intn(6)
			if r.Intn(3) == 0 {
				seeds[k] = r.Intn(1 << 30)
			}
			add("ekey e%d %d", k, seeds[k])
		}
		type sg struct{ k, m, idx int }
		var sigs []sg
		for k := 0; k < nk; k++ {
			for m := 0; m < nm; m++ {
				if r.Intn(3) > 0 {
					add("esign e%d h%d", k, m)
					sigs = append(sigs, sg{k, m, nesig})
					nesig++
				}
			}
		}
		for _, s := range sigs {
			for k := 0; k < nk; k++ {
				for m := 0; m < nm; m++ {
					if (k == s.k && m == s.m) || r.Intn(2) == 0 {
						add("everify e%d %d h%d", k, s.idx, m)
					}
				}
			}
		}
		for x := 0; x < 3 && len(sigs) > 0; x++ {
			s := sigs[r.Intn(len(sigs))]
			add("etamper %d", s.idx)
			add("everify e%d %d h%d", s.k, nesig, s.m)
			nesig++
		}
		for k := 0; k < nk; k++ {
			add("eclient e%d", k)
		}
		genIdChecks(r, add, "e", nk)
		add("cnew c")
		for x := 0; x < 2+r.Intn(4); x++ {
			add("%s c e%d", []string{"csetpk", "csetscheme", "cdecode"}[r.Intn(3)], r.Intn(nk))
		}
		add("cstatus c")
	}
	return ops
}

var idEntries = []string{"vpk", "txn", "txnprops", "client", "vticket"}
var idVariants = []string{"canon", "upper", "flipfirst", "flipmid", "fliplast", "0x", "sptrail", "splead", "d63", "odd", "d65", "d65b", "d62"}

// genIdChecks: (public key, id) pairs through every entry point that checks them: the right id in its canonical and in
// non-canonical spellings, and the id of another key (also spelled differently).
func genIdChecks(r *rand.Rand, add func(string, ...interface{}), prefix string, nk int) {
	for x := 0; x < 6+r.Intn(6); x++ {
		e := idEntries[r.Intn(len(idEntries))]
		k := r.Intn(nk)
		v := idVariants[r.Intn(len(idVariants))]
		if r.Intn(4) == 0 {
			v = "canon"
		}
		if r.Intn(4) == 0 {
			add("idcheck %s %s%d %s %s%d", e, prefix, k, v, prefix, r.Intn(nk))
		} else {
			add("idcheck %s %s%d %s", e, prefix, k, v)
		}
	}
}

func genMalformed(r *rand.Rand) []string {
	return []string{"dkg 0 0", "key k 5", "msg a 3", "client nokey", "clientcheck k nokey", "idcheck vpk k canon", "idcheck foo k canon", "idcheck vpk k weird", "idcheck vpk nokey canon", "csetpk c k", "cnew c", "csetpk c nokey", "cverify c 0 a", "kdirect k 9 a", "msgb z zz 3", "msgb z abc 3", "ekey e x", "esign e a", "ekey e 1", "esign e nomsg", "etamper 0", "everify e 0 a", "eclient f", "kverify k 0 a", "frob"}
}

func genAll(r *rand.Rand, thorough bool, i int) []string {
	if i%60 == 59 {
		return genMalformed(r)
	}
	return genCase(r, thorough, i)
}

func idFixed() []string {
	ops := []string{"dkg 0 0", "key k0 5", "key k1 7", "ekey e0 3"}
	for _, e := range idEntries {
		for _, v := range idVariants {
			ops = append(ops, fmt.Sprintf("idcheck %s k0 %s", e, v))
		}
		ops = append(ops, fmt.Sprintf("idcheck %s k0 canon k1", e), fmt.Sprintf("idcheck %s k0 upper k1", e), fmt.Sprintf("idcheck %s e0 canon", e), fmt.Sprintf("idcheck %s e0 upper", e), fmt.Sprintf("idcheck %s e0 fliplast", e))
	}
	return ops
}

func main() {
	corr.Main(corr.Prop{
		ID: "C47", Model: "C47", Gen: genAll, Impl: impl, Oracle: oracle,
		Cases: func(th bool) int {
			if th {
				return 30000
			}
			return 2000
		},
		Fixed: [][]string{
			{"dkg 0 0", "msg a 3", "msg b 4", "key k0 5", "key k1 7", "key k2 16798108731015832284940804142231733909759579603404752749028378864165570215954",
				"ksign k0 a", "kverify k0 0 a", "kverify k1 0 a", "kverify k0 0 b", "kverify k2 0 a", "client k0", "client k1", "client k2", "clientcheck k0 k2", "clientcheck k0 k1"},
			// every entry point x every spelling of the right id, and the id of another key
			idFixed(),
			// one client object, two keys one after the other, through every way of setting a key
			{"dkg 0 0", "key k0 5", "key k1 7", "ekey e0 3", "cnew c", "cstatus c", "csetpk c k0", "csetpk c k1", "cstatus c", "csetscheme c k0", "cdecode c k1", "csetpk c e0", "cdecode c k0", "cstatus c",
				"cnew d", "cdecode d k0", "cdecode d k1", "csetscheme d k0"},
			// hashes of other lengths: H, H||00, H||x, a short hash and its zero-padded forms, the empty hash
			{"dkg 0 0", "key k0 5", "msgb h0 " + strings.Repeat("ab", 32) + " 3", "msgb h1 " + strings.Repeat("ab", 32) + "00 4", "msgb h2 " + strings.Repeat("ab", 32) + "deadbeef 6",
				"msgb h3 01020304 7", "msgb h4 0102030400 8", "msgb h5 01020304" + strings.Repeat("00", 28) + " 9", "msgb h6 - 10",
				"ksign k0 h0", "ksign k0 h2", "ksign k0 h3", "ksign k0 h6", "kdirect k0 0 h0", "kdirect k0 1 h2", "kdirect k0 2 h3", "kdirect k0 3 h6",
				"kverify k0 0 h0", "kverify k0 0 h1", "kverify k0 0 h2", "kverify k0 1 h0", "kverify k0 1 h2", "kverify k0 2 h3", "kverify k0 2 h4", "kverify k0 2 h5", "kverify k0 3 h6", "kverify k0 3 h3"},
			{"dkg 0 0", "msg a 3", "msg b 4", "ekey e0 1", "ekey e1 2", "ekey e2 1", "esign e0 a", "everify e0 0 a", "everify e1 0 a", "everify e0 0 b", "everify e2 0 a", "etamper 0", "everify e0 1 a", "eclient e0", "eclient e1", "eclient e2"},
		},
	})
}
