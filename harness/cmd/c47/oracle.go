package main

import (
	"fmt"
	"math/big"
	"strings"

	"verifharness/lib/corr"
	"verifharness/lib/cryptow"
)

// The property on the real code's answers: a signature produced by a key over a hash verifies under the matching
// public key, and fails under any other key or hash (for both schemes); a client id is the hash of the public key.
func oracle(ops, outs []string) *corr.Violation {
	mk := func(i int, sig, msg string) *corr.Violation {
		return &corr.Violation{Signature: "C47:" + sig, Message: fmt.Sprintf("op %d %q answered %q: %s", i, ops[i], outs[i], msg), Ops: ops, Impl: outs}
	}
	norm := func(s string) string {
		v, ok := new(big.Int).SetString(s, 10)
		if !ok {
			return s
		}
		return v.Mod(v, cryptow.Order()).String()
	}
	secret := map[string]string{} // bls key name -> secret mod r
	eseed := map[string]string{}
	type prov struct{ key, m string }
	var bsig []*prov // nil = not an honest signature
	var esig []*prov
	idOf := map[string]string{} // key identity -> id label
	bytesOf := map[string]string{} // message token -> its bytes (hex) when given explicitly
	sameMsg := func(a, b string) bool {
		if a == b {
			return true
		}
		x, ok1 := bytesOf[a]
		y, ok2 := bytesOf[b]
		return ok1 && ok2 && x == y
	}
	for i, op := range ops {
		w := strings.Fields(op)
		if len(w) == 0 {
			continue
		}
		out := outs[i]
		f := strings.Fields(out)
		switch w[0] {
		case "dkg":
			secret, eseed, bsig, esig, idOf, bytesOf = map[string]string{}, map[string]string{}, nil, nil, map[string]string{}, map[string]string{}
		case "msgb":
			if len(w) == 4 && out == "ok" {
				bytesOf[w[1]] = w[2]
			}
		case "msg":
			delete(bytesOf, w[1])
		case "kdirect":
			if len(w) == 4 && (out == "true" || out == "false") {
				var x int
				if _, err := fmt.Sscanf(w[2], "%d", &x); err != nil || x < 0 || x >= len(bsig) || bsig[x] == nil {
					continue
				}
				p := bsig[x]
				if p.key == secret[w[1]] && sameMsg(p.m, w[3]) && p.key != "0" && out != "true" {
					return mk(i, "bls-sign-not-over-the-hash", "what Sign returned is not the library's signature over the bytes of the hash")
				}
			}
		case "idcheck":
			// a pair (public key, id) is accepted only if the id is EXACTLY the hash string of that key
			if (len(w) == 4 || len(w) == 5) && (out == "true" || out == "false") {
				who := func(k string) string {
					if v, ok := eseed[k]; ok {
						return "e:" + v
					}
					return "b:" + secret[k]
				}
				sameKey := len(w) == 4 || who(w[2]) == who(w[4])
				want := sameKey && w[3] == "canon"
				if out == "true" && !want {
					if sameKey {
						return mk(i, "non-canonical-id-accepted:"+w[1], "the spelling '"+w[3]+"' of the client id is accepted for the key; only the exact lower-case hash string is the id")
					}
					return mk(i, "other-keys-id-accepted:"+w[1], "the id of another key (spelling '"+w[3]+"') is accepted for the key")
				}
				if out == "false" && want {
					return mk(i, "canonical-id-rejected:"+w[1], "the hash of the public key is not accepted as its client id")
				}
			}
		case "cnew":
		case "csetpk", "csetscheme", "cdecode", "cstatus":
			if len(f) == 2 && strings.HasPrefix(f[0], "I") {
				if f[1] != "idok" {
					return mk(i, "client-id-stale-after-key-change", "the client object's id / cached key bytes are not the sha3-256 / bytes of the public key it currently carries (or Validate disagrees)")
				}
			}
		case "key":
			if len(w) == 3 && strings.HasPrefix(out, "K") {
				secret[w[1]] = norm(w[2])
			}
		case "ksign":
			if len(f) == 3 && f[0] == "sig" {
				bsig = append(bsig, &prov{secret[w[1]], w[2]})
			}
		case "sigadd", "sigsub", "sigzero", "aggsigs", "recover", "reconstruct", "sign", "tsign":
			if len(f) == 3 && f[0] == "sig" {
				bsig = append(bsig, nil)
			}
		case "kverify":
			if len(w) == 4 && (out == "true" || out == "false") {
				var x int
				if _, err := fmt.Sscanf(w[2], "%d", &x); err != nil || x < 0 || x >= len(bsig) || bsig[x] == nil {
					continue
				}
				p := bsig[x]
				same := p.key == secret[w[1]] && sameMsg(p.m, w[3])
				if same && p.key != "0" && out != "true" {
					return mk(i, "bls-own-signature-rejected", "a signature does not verify under the signing key for the signed hash")
				}
				// another key (different secret) for the same hash, or the same key for another hash, must fail
				if !same && (p.key == secret[w[1]] || sameMsg(p.m, w[3])) && out == "true" {
					return mk(i, "bls-verifies-under-other-key-or-hash", "a signature verifies under another key or for another hash")
				}
			}
		case "ekey":
			if len(w) == 3 && strings.HasPrefix(out, "P") {
				eseed[w[1]] = w[2]
			}
		case "esign", "etamper":
			if len(f) == 3 && f[0] == "esig" {
				if w[0] == "esign" {
					esig = append(esig, &prov{eseed[w[1]], w[2]})
				} else {
					esig = append(esig, nil)
				}
			}
		case "everify":
			if len(w) == 4 && (out == "true" || out == "false") {
				var x int
				if _, err := fmt.Sscanf(w[2], "%d", &x); err != nil || x < 0 || x >= len(esig) {
					continue
				}
				p := esig[x]
				if p == nil {
					if out == "true" {
						return mk(i, "ed25519-tampered-signature-accepted", "a signature with a flipped byte verifies")
					}
					continue
				}
				same := p.key == eseed[w[1]] && sameMsg(p.m, w[3])
				if same && out != "true" {
					return mk(i, "ed25519-own-signature-rejected", "a signature does not verify under the signing key for the signed hash")
				}
				if !same && out == "true" {
					return mk(i, "ed25519-verifies-under-other-key-or-hash", "a signature verifies under another key or for another hash")
				}
			}
		case "client", "eclient":
			if len(f) == 2 {
				if f[1] != "idok" {
					return mk(i, "client-id-not-hash-of-public-key", "the derived client id is not the sha3-256 of the public key bytes, or does not validate")
				}
				who := "b:" + secret[w[1]]
				if w[0] == "eclient" {
					who = "e:" + eseed[w[1]]
				}
				if old, ok := idOf[who]; ok && old != f[0] {
					return mk(i, "client-id-not-a-function-of-key", "the same public key got two ids")
				}
				idOf[who] = f[0]
				for other, l := range idOf {
					if other != who && l == f[0] {
						return mk(i, "client-id-collision", "two different public keys got the same id")
					}
				}
			}
		case "clientcheck":
			if len(w) == 3 && (out == "true" || out == "false") {
				want := secret[w[1]] == secret[w[2]]
				if (out == "true") != want {
					return mk(i, "client-id-check", "VerifyPublicKeyClientID / Client.Validate accept exactly the id of the same public key")
				}
			}
		}
	}
	return nil
}
