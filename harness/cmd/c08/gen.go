package main

import (
	"encoding/hex"
	"fmt"
	"math"
	"math/rand"
	"reflect"
	"sort"
	"strings"
	"time"

	"github.com/tinylib/msgp/msgp"
)

// ---- random values along a schema -----------------------------------------------------------------------------------

type mode int

const (
	mRandom mode = iota
	mEmpty       // zero values, nil pointers, nil maps and slices
	mEmptyNonNil // empty but non-nil maps and slices, empty strings
	mMax         // maximal numbers, boundary lengths
)

var intBounds = []int64{0, 1, -1, 127, 128, -32, -33, -128, -129, 255, 256, 32767, 32768, -32768, -32769, 65535, 65536,
	2147483647, 2147483648, -2147483648, -2147483649, 4294967295, 4294967296, 1<<53 - 1, 1 << 53, 1<<53 + 1, math.MaxInt64, math.MinInt64, math.MaxInt64 - 1}
var uintBounds = []uint64{0, 1, 127, 128, 255, 256, 65535, 65536, 4294967295, 4294967296, 1<<53 - 1, 1 << 53, 1<<53 + 1, 1<<63 - 1, 1 << 63, 1<<63 + 1, math.MaxUint64}
var floatBits = []uint64{0, 1 << 63, 0x3ff0000000000000, 0xbff0000000000000, 0x7ff0000000000000, 0xfff0000000000000, 1, 0x000fffffffffffff,
	0x7fefffffffffffff, 0x3fb999999999999a, 0x4340000000000000}
var strLens = []int{0, 1, 31, 32, 255, 256}

func randString(r *rand.Rand, m mode) string {
	switch m {
	case mEmpty, mEmptyNonNil:
		return ""
	}
	n := r.Intn(12)
	if m == mMax || r.Intn(8) == 0 {
		n = strLens[r.Intn(len(strLens))]
	}
	if r.Intn(6) == 0 {
		// unicode, including multi-byte runes and invalid UTF-8 (Go strings are byte strings)
		pool := []string{"é", "ß", "漢", "字", "🙂", "\u0000", "\xff", "\xc3", "a", " ", ",", "\""}
		var b strings.Builder
		for b.Len() < n {
			b.WriteString(pool[r.Intn(len(pool))])
		}
		return b.String()
	}
	b := make([]byte, n)
	for i := range b {
		b[i] = "abcdefghijklmnopqrstuvwxyz0123456789:/._-"[r.Intn(41)]
	}
	return string(b)
}

func fitInt(k reflect.Kind, x int64) int64 {
	switch k {
	case reflect.Int8:
		return int64(int8(x))
	case reflect.Int16:
		return int64(int16(x))
	case reflect.Int32:
		return int64(int32(x))
	}
	return x
}

func fitUint(k reflect.Kind, x uint64) uint64 {
	switch k {
	case reflect.Uint8:
		return uint64(uint8(x))
	case reflect.Uint16:
		return uint64(uint16(x))
	case reflect.Uint32:
		return uint64(uint32(x))
	}
	return x
}

func containerLen(r *rand.Rand, m mode, depth int) int {
	switch m {
	case mEmpty, mEmptyNonNil:
		return 0
	case mMax:
		if depth <= 1 {
			return []int{15, 16, 17}[r.Intn(3)]
		}
		return 2
	}
	if depth <= 1 && r.Intn(10) == 0 {
		return []int{15, 16, 17}[r.Intn(3)]
	}
	if depth >= 3 {
		return r.Intn(2)
	}
	return r.Intn(4)
}

func fill(v reflect.Value, t *Ty, r *rand.Rand, m mode, depth int) {
	switch t.K {
	case "int":
		var x int64
		switch {
		case m == mEmpty || m == mEmptyNonNil:
		case m == mMax:
			x = []int64{math.MaxInt64, math.MinInt64}[r.Intn(2)]
		case r.Intn(3) == 0:
			x = intBounds[r.Intn(len(intBounds))]
		default:
			x = r.Int63n(2000) - 1000
		}
		v.SetInt(fitInt(v.Kind(), x))
	case "uint":
		var x uint64
		switch {
		case m == mEmpty || m == mEmptyNonNil:
		case m == mMax:
			x = math.MaxUint64
		case r.Intn(3) == 0:
			x = uintBounds[r.Intn(len(uintBounds))]
		default:
			x = uint64(r.Intn(100000))
		}
		v.SetUint(fitUint(v.Kind(), x))
	case "bool":
		v.SetBool(m == mMax || (m == mRandom && r.Intn(2) == 0))
	case "str":
		v.SetString(randString(r, m))
	case "bin":
		switch m {
		case mEmpty:
			v.SetBytes(nil)
		case mEmptyNonNil:
			v.SetBytes([]byte{})
		default:
			v.SetBytes([]byte(randString(r, m)))
		}
	case "f64":
		var bits uint64
		switch {
		case m == mEmpty || m == mEmptyNonNil:
		case m == mMax:
			bits = 0x7fefffffffffffff
		case r.Intn(3) == 0:
			bits = floatBits[r.Intn(len(floatBits))]
		default:
			bits = math.Float64bits(r.NormFloat64() * 1000)
		}
		v.SetFloat(math.Float64frombits(bits))
	case "time":
		switch {
		case m == mEmpty || m == mEmptyNonNil:
			v.Set(reflect.ValueOf(time.Time{}))
		case m == mMax:
			v.Set(reflect.ValueOf(time.Unix(253402300799, 999999999).UTC()))
		default:
			v.Set(reflect.ValueOf(time.Unix(r.Int63n(4e9)-1e9, r.Int63n(1e9)).UTC()))
		}
	case "arr":
		n := containerLen(r, m, depth)
		if n == 0 {
			if m == mEmpty || (m == mRandom && r.Intn(2) == 0) {
				v.Set(reflect.Zero(v.Type()))
			} else {
				v.Set(reflect.MakeSlice(v.Type(), 0, 0))
			}
			return
		}
		sl := reflect.MakeSlice(v.Type(), n, n)
		for i := 0; i < n; i++ {
			em := m
			if t.E.K == "ptr" && (m == mEmpty) {
				em = mRandom
			}
			fillElem(sl.Index(i), t.E, r, em, depth+1)
		}
		v.Set(sl)
	case "map":
		n := containerLen(r, m, depth)
		if n == 0 {
			if m == mEmpty || (m == mRandom && r.Intn(2) == 0) {
				v.Set(reflect.Zero(v.Type()))
			} else {
				v.Set(reflect.MakeMap(v.Type()))
			}
			return
		}
		mp := reflect.MakeMap(v.Type())
		for i := 0; i < n; i++ {
			k := randString(r, mRandom)
			if r.Intn(4) == 0 {
				k = fmt.Sprintf("k%d", i)
			}
			e := reflect.New(v.Type().Elem()).Elem()
			if t.E.K == "ptr" && v.Type().Elem().Elem() == nodeType {
				fillElem(e, t.E, r, m, depth+1) // the pool decoder dereferences every node
			} else {
				fill(e, t.E, r, m, depth+1)
			}
			mp.SetMapIndex(reflect.ValueOf(k).Convert(v.Type().Key()), e)
		}
		v.Set(mp)
	case "ptr":
		if m == mEmpty || (m == mRandom && r.Intn(4) == 0) {
			v.Set(reflect.Zero(v.Type()))
			return
		}
		e := reflect.New(v.Type().Elem())
		fill(e.Elem(), t.E, r, m, depth+1)
		v.Set(e)
	case "struct", "pstruct":
		for _, f := range t.Fields {
			fill(fieldOf(v, f.Go), f.T, r, m, depth+1)
		}
		if v.Type() == poolType {
			// what the contracts store: node ids are distinct and every node's SetIndex is its rank by id
			// (Pool.computeNodePositions recomputes it on every decode)
			nm := v.FieldByName("NodesMap")
			var ids []string
			byID := map[string]reflect.Value{}
			off := r.Intn(len(validKeys))
			for j, k := range nm.MapKeys() {
				n := nm.MapIndex(k)
				if n.IsNil() {
					continue
				}
				// the id of a node is derived from its public key (SetPublicKey, which every decode calls): distinct keys
				key := validKeys[(off+j)%len(validKeys)]
				fresh := reflect.New(nodeType)
				if res := fresh.MethodByName("SetPublicKey").Call([]reflect.Value{reflect.ValueOf(key)}); !res[0].IsNil() {
					panic("SetPublicKey: " + res[0].Interface().(error).Error())
				}
				id := fresh.Elem().FieldByName("Client").FieldByName("IDField").FieldByName("ID").String()
				n.Elem().FieldByName("Client").FieldByName("IDField").FieldByName("ID").SetString(id)
				n.Elem().FieldByName("Client").FieldByName("PublicKey").SetString(key)
				ids = append(ids, id)
				byID[id] = n
			}
			sort.Strings(ids)
			for rank, id := range ids {
				byID[id].Elem().FieldByName("SetIndex").SetInt(int64(rank))
			}
		}
		if v.Type() == nodeType {
			// UnmarshalMsg of a node pool decodes every node's public key: it must be a well-formed BLS key
			v.FieldByName("Client").FieldByName("PublicKey").SetString(validKeys[r.Intn(len(validKeys))])
		}
	case "union":
		i := r.Intn(len(t.Fields))
		if m == mMax {
			i = len(t.Fields) - 1
		}
		if m == mEmpty {
			i = 0
		}
		ent := reflect.New(altType(t, i))
		fill(ent.Elem(), t.Fields[i].T, r, m, depth+1)
		// InitVersion is called by the wrapper's MarshalMsg; the model's value carries the version string already
		ent.MethodByName("InitVersion").Call(nil)
		wrapperSet(v, ent)
	default:
		panic("fill: kind " + t.K)
	}
}

// elements of slices: never a nil pointer (post-processing of some decoders dereferences every element; the contracts
// never store one)
func fillElem(v reflect.Value, t *Ty, r *rand.Rand, m mode, depth int) {
	if t.K == "ptr" {
		e := reflect.New(v.Type().Elem())
		fill(e.Elem(), t.E, r, m, depth+1)
		v.Set(e)
		return
	}
	fill(v, t, r, m, depth)
}

// a wrapper nested behind a nil-able pointer must hold an entity (MarshalMsg of an empty wrapper is an error)
func genValue(schema string, r *rand.Rand, m mode) string {
	t := schemas[schema]
	ptr := reflect.New(goTypes[schema])
	fill(ptr.Elem(), t, r, m, 0)
	return textOf(ptr.Elem(), t)
}

// ---- non-canonical byte strings for the decoder -----------------------------------------------------------------------

// shuffleTop: the top-level map of a struct encoding with its entries permuted and, optionally, an unknown key added.
func shuffleTop(b []byte, r *rand.Rand, addUnknown bool) []byte {
	n, rest, err := msgp.ReadMapHeaderBytes(b)
	if err != nil {
		return b
	}
	type ent struct{ k, v []byte }
	var es []ent
	for i := uint32(0); i < n; i++ {
		after, err := msgp.Skip(rest)
		if err != nil {
			return b
		}
		k := rest[:len(rest)-len(after)]
		after2, err := msgp.Skip(after)
		if err != nil {
			return b
		}
		v := after[:len(after)-len(after2)]
		es = append(es, ent{k, v})
		rest = after2
	}
	if len(rest) != 0 {
		return b
	}
	r.Shuffle(len(es), func(i, j int) { es[i], es[j] = es[j], es[i] })
	if addUnknown {
		k := msgp.AppendString(nil, "zzUnknown")
		var v []byte
		switch r.Intn(4) {
		case 0:
			v = msgp.AppendInt64(nil, -5)
		case 1:
			v = msgp.AppendString(nil, "x")
		case 2:
			v = msgp.AppendArrayHeader(nil, 2)
			v = msgp.AppendInt64(v, 1)
			v = msgp.AppendMapHeader(v, 1)
			v = msgp.AppendString(v, "a")
			v = msgp.AppendNil(v)
		default:
			v = msgp.AppendBytes(nil, []byte{1, 2, 3})
		}
		at := r.Intn(len(es) + 1)
		es = append(es[:at], append([]ent{{k, v}}, es[at:]...)...)
	}
	out := msgp.AppendMapHeader(nil, uint32(len(es)))
	for _, e := range es {
		out = append(out, e.k...)
		out = append(out, e.v...)
	}
	return out
}

// ---- cases ----------------------------------------------------------------------------------------------------------

func randHash(r *rand.Rand, n int) string {
	b := make([]byte, n)
	r.Read(b)
	return hex.EncodeToString(b)
}

func stateOps(r *rand.Rand) []string {
	rd := intBounds[r.Intn(len(intBounds))]
	bal := uintBounds[r.Intn(len(uintBounds))]
	nn := intBounds[r.Intn(len(intBounds))]
	if r.Intn(2) == 0 {
		rd, bal, nn = r.Int63n(1e6), uint64(r.Int63()), r.Int63n(1e4)
	}
	hl := 32
	if r.Intn(10) == 0 {
		hl = []int{0, 1, 31, 33, 64}[r.Intn(5)]
	}
	h := randHash(r, hl)
	ops := []string{fmt.Sprintf("state %s %d %d %d", h, rd, bal, nn)}
	// decode what Encode produced (the harness knows the layout: 32+8+8+8 little endian), and damaged variants
	enc := func() string {
		hb, _ := hex.DecodeString(h)
		b := append([]byte{}, hb...)
		for _, x := range []uint64{uint64(rd), bal, uint64(nn)} {
			for i := 0; i < 8; i++ {
				b = append(b, byte(x>>(8*i)))
			}
		}
		return hex.EncodeToString(b)
	}()
	ops = append(ops, "unstate "+enc)
	if r.Intn(3) == 0 && len(enc) > 4 {
		ops = append(ops, "unstate "+enc[:len(enc)-2*(1+r.Intn(len(enc)/2-1))]) // truncated
		ops = append(ops, "unstate "+enc+"00ff")                                // trailing bytes
	}
	return ops
}

func gen(r *rand.Rand, thorough bool, i int) []string {
	ops := []string{"init"}
	// every schema in turn, in the four fill modes, so that a quick run touches all of them several times
	schema := order[i%len(order)]
	m := mode((i / len(order)) % 4)
	k := 2
	if thorough {
		k = 3
	}
	for j := 0; j < k; j++ {
		mm := m
		if j > 0 {
			mm = mRandom
		}
		txt := genValue(schema, r, mm)
		ops = append(ops, fmt.Sprintf("enc %s %s", schema, txt))
		// the decoder on the real bytes, canonical and with the top-level fields permuted / an unknown key added
		if ptr, _, err := build(schema, txt); err == nil {
			if b, err := marshal(ptr); err == nil {
				ops = append(ops, fmt.Sprintf("dec %s %s", schema, hex.EncodeToString(b)))
				if k := schemas[schema].K; k == "struct" || k == "union" || k == "pstruct" {
					ops = append(ops, fmt.Sprintf("dec %s %s", schema, hex.EncodeToString(shuffleTop(b, r, r.Intn(2) == 0))))
				}
				if r.Intn(4) == 0 && len(b) > 1 {
					ops = append(ops, fmt.Sprintf("dec %s %s", schema, hex.EncodeToString(b[:r.Intn(len(b))]))) // truncated
				}
			}
		}
	}
	for _, mg := range migrations {
		if mg.From == schema {
			ops = append(ops, fmt.Sprintf("mig %s %s %s", mg.From, mg.To, genValue(mg.From, r, m)))
			ops = append(ops, fmt.Sprintf("mig %s %s %s", mg.From, mg.To, genValue(mg.From, r, mRandom)))
		}
	}
	if i%5 == 0 {
		ops = append(ops, stateOps(r)...)
	}
	if r.Intn(20) == 0 {
		ops = append(ops, "enc nosuch.Schema u1", "dec "+schema+" zz", "frobnicate")
	}
	return ops
}

func fixedCases() [][]string {
	zero32 := strings.Repeat("00", 32)
	cases := [][]string{
		{"init", "state " + zero32 + " 0 0 0", "unstate " + strings.Repeat("00", 56), "unstate " + strings.Repeat("00", 55), "unstate"},
		{"init", "state " + strings.Repeat("ab", 32) + " -1 18446744073709551615 -9223372036854775808", "state " + strings.Repeat("ab", 32) + " 9223372036854775807 1 1"},
		{"init", "enc stakepool.DelegatePool [u5,u300,i1,i-33,s6162,i70000]", "enc minersc.NodeIDs [s61,s]", "enc minersc.NodeIDs []"},
	}
	// every schema once with the zero value and once maximal, deterministic
	names := append([]string(nil), order...)
	sort.Strings(names)
	r := rand.New(rand.NewSource(20260921))
	for _, n := range names {
		cases = append(cases, []string{"init", "enc " + n + " " + genValue(n, r, mEmpty), "enc " + n + " " + genValue(n, r, mEmptyNonNil), "enc " + n + " " + genValue(n, r, mMax)})
	}
	return cases
}
