// C08 harness: the REAL MarshalMsg / UnmarshalMsg / MigrateFrom of the stored entity types and State.Encode/Decode
// against Model/Codec.lean over the schemas that harness/cmd/xc08 derived from the struct definitions.
//
// Go values are built and read by reflection ALONG the derived schema (read from the translator's sidecar
// lean/ZChain/Generated/C08.lean.json), so a field the translator says is encoded but the generated code does not
// encode (or the reverse) shows up as a byte difference. See Drv/C08.lean for the op and value syntax.
package main

import (
	"bytes"
	"encoding/hex"
	"encoding/json"
	"fmt"
	"math"
	"os"
	"reflect"
	"sort"
	"strconv"
	"strings"
	"time"
	"unsafe"

	"0chain.net/chaincore/block"
	"0chain.net/chaincore/node"
	"0chain.net/chaincore/state"
	"0chain.net/core/encryption"
	"0chain.net/smartcontract/faucetsc"
	"0chain.net/smartcontract/minersc"
	"0chain.net/smartcontract/multisigsc"
	"0chain.net/smartcontract/partitions"
	"0chain.net/smartcontract/provider"
	"0chain.net/smartcontract/stakepool"
	"0chain.net/smartcontract/storagesc"
	"0chain.net/smartcontract/vestingsc"
	"0chain.net/smartcontract/zcnsc"
	"github.com/0chain/common/core/currency"
	"github.com/0chain/common/core/logging"
	"go.uber.org/zap"
	"verifharness/lib/corr"
)

// ---- schemas (translator sidecar) ---------------------------------------------------------------------------------

type Ty struct {
	K      string   `json:"k"`
	E      *Ty      `json:"e,omitempty"`
	N      int      `json:"n,omitempty"`
	Fields []*Field `json:"fields,omitempty"`
	Named  string   `json:"named,omitempty"`
}

type Field struct {
	Msg string `json:"msg"`
	Go  string `json:"go"`
	T   *Ty    `json:"t"`
}

type migration struct {
	From, To string
	Copied   []string
	SetsVer  string
}

var validKeys []string

var nodeType = reflect.TypeOf((*node.Node)(nil)).Elem()
var poolType = reflect.TypeOf((*node.Pool)(nil)).Elem()

var (
	schemas    map[string]*Ty
	order      []string
	migrations []migration
	goTypes    = map[string]reflect.Type{}
)

func loadSchemas() {
	path := os.Getenv("C08_SCHEMAS")
	if path == "" {
		path = "/verif/lean/ZChain/Generated/C08.lean.json"
	}
	b, err := os.ReadFile(path)
	if err != nil {
		fmt.Fprintln(os.Stderr, "c08: schemas:", err)
		os.Exit(3)
	}
	var side struct {
		Schemas    map[string]*Ty `json:"schemas"`
		Order      []string       `json:"order"`
		Migrations []migration    `json:"migrations"`
	}
	if err := json.Unmarshal(b, &side); err != nil {
		fmt.Fprintln(os.Stderr, "c08: schemas:", err)
		os.Exit(3)
	}
	schemas, order, migrations = side.Schemas, side.Order, side.Migrations
	for k, v := range storagesc.VerifC08Types() {
		goTypes[k] = v
	}
	for k, v := range partitions.VerifC08Types() {
		goTypes[k] = v
	}
	for k, v := range vestingsc.VerifC08Types() {
		goTypes[k] = v
	}
	for k, v := range map[string]interface{}{
		"stakepool.DelegatePool": stakepool.DelegatePool{}, "stakepool.StakePool": stakepool.StakePool{}, "provider.Provider": provider.Provider{},
		"minersc.MinerNode": minersc.MinerNode{}, "minersc.GlobalNode": minersc.GlobalNode{}, "minersc.PhaseNode": minersc.PhaseNode{},
		"minersc.DKGMinerNodes": minersc.DKGMinerNodes{}, "minersc.MinerNodes": minersc.MinerNodes{}, "minersc.NodeIDs": minersc.NodeIDs{},
		"zcnsc.GlobalNode": zcnsc.GlobalNode{}, "zcnsc.AuthorizerNode": zcnsc.AuthorizerNode{}, "zcnsc.UserNode": zcnsc.UserNode{}, "zcnsc.StakePool": zcnsc.StakePool{},
		"faucetsc.GlobalNode": faucetsc.GlobalNode{}, "faucetsc.UserNode": faucetsc.UserNode{}, "multisigsc.Wallet": multisigsc.Wallet{},
	} {
		goTypes[k] = reflect.TypeOf(v)
	}
	goTypes["node.Pool"] = reflect.TypeOf((*node.Pool)(nil)).Elem()
	goTypes["block.MagicBlock"] = reflect.TypeOf((*block.MagicBlock)(nil)).Elem()
	// node.Node decodes its public key (herumi BLS): values need well-formed keys
	for i := 0; i < 24; i++ {
		ss := encryption.NewBLS0ChainScheme()
		if err := ss.GenerateKeys(); err != nil {
			fmt.Fprintln(os.Stderr, "c08: bls keys:", err)
			os.Exit(3)
		}
		validKeys = append(validKeys, ss.GetPublicKey())
	}
	for _, n := range order {
		if _, ok := goTypes[n]; !ok {
			fmt.Fprintf(os.Stderr, "c08: no Go type registered for schema %s\n", n)
			os.Exit(3)
		}
	}
}

// ---- reflection helpers -------------------------------------------------------------------------------------------

func settable(v reflect.Value) reflect.Value {
	if v.CanSet() {
		return v
	}
	return reflect.NewAt(v.Type(), unsafe.Pointer(v.UnsafeAddr())).Elem()
}

func fieldOf(v reflect.Value, name string) reflect.Value {
	f := v.FieldByName(name)
	if !f.IsValid() {
		panic(fmt.Sprintf("type %s has no field %s", v.Type(), name))
	}
	return settable(f)
}

type entityI interface {
	MarshalMsg([]byte) ([]byte, error)
	UnmarshalMsg([]byte) ([]byte, error)
}

// wrapper access: SetEntity / Entity of the embedded entitywrapper.Wrapper
func wrapperEntity(v reflect.Value) reflect.Value {
	out := v.Addr().MethodByName("Entity").Call(nil)
	if out[0].IsNil() {
		return reflect.Value{}
	}
	return out[0].Elem() // *T
}

func wrapperSet(v reflect.Value, ent reflect.Value) {
	v.Addr().MethodByName("SetEntity").Call([]reflect.Value{ent})
}

func altIndex(t *Ty, goType reflect.Type) int {
	for i, f := range t.Fields {
		if f.Go == goType.Name() {
			return i
		}
	}
	return -1
}

// altType: Go struct type of alternative i of a union (registered under the same package prefix as the wrapper)
func altType(t *Ty, i int) reflect.Type {
	pkg := t.Named[strings.LastIndex(t.Named, "/")+1:]
	pkg = pkg[:strings.Index(pkg, ".")]
	rt, ok := goTypes[pkg+"."+t.Fields[i].Go]
	if !ok {
		panic("no Go type for " + pkg + "." + t.Fields[i].Go)
	}
	return rt
}

// ---- value text <-> Go value --------------------------------------------------------------------------------------

func text(v reflect.Value, t *Ty, b *strings.Builder) {
	switch t.K {
	case "int":
		fmt.Fprintf(b, "i%d", v.Int())
	case "uint":
		fmt.Fprintf(b, "u%d", v.Uint())
	case "bool":
		if v.Bool() {
			b.WriteString("bt")
		} else {
			b.WriteString("bf")
		}
	case "str":
		b.WriteString("s" + hex.EncodeToString([]byte(v.String())))
	case "bin":
		b.WriteString("x" + hex.EncodeToString(v.Bytes()))
	case "f64":
		fmt.Fprintf(b, "f%016x", math.Float64bits(v.Float()))
	case "f32":
		fmt.Fprintf(b, "g%08x", math.Float32bits(float32(v.Float())))
	case "time":
		tm := v.Interface().(time.Time)
		fmt.Fprintf(b, "t%d:%d", tm.Unix(), tm.Nanosecond())
	case "arr", "farr":
		b.WriteString("[")
		for i := 0; i < v.Len(); i++ {
			if i > 0 {
				b.WriteString(",")
			}
			text(v.Index(i), t.E, b)
		}
		b.WriteString("]")
	case "map":
		keys := make([]string, 0, v.Len())
		for _, k := range v.MapKeys() {
			keys = append(keys, k.String())
		}
		sort.Strings(keys)
		b.WriteString("{")
		for i, k := range keys {
			if i > 0 {
				b.WriteString(",")
			}
			b.WriteString(hex.EncodeToString([]byte(k)) + "=")
			text(v.MapIndex(reflect.ValueOf(k).Convert(v.Type().Key())), t.E, b)
		}
		b.WriteString("}")
	case "ptr":
		if v.IsNil() {
			b.WriteString("n")
		} else {
			b.WriteString("&")
			text(v.Elem(), t.E, b)
		}
	case "struct", "pstruct":
		b.WriteString("[")
		for i, f := range t.Fields {
			if i > 0 {
				b.WriteString(",")
			}
			fv := v.FieldByName(f.Go)
			if !fv.IsValid() {
				panic(fmt.Sprintf("type %s has no field %s", v.Type(), f.Go))
			}
			text(fv, f.T, b)
		}
		b.WriteString("]")
	case "union":
		ent := wrapperEntity(addressable(v))
		if !ent.IsValid() {
			b.WriteString("n")
			return
		}
		i := altIndex(t, ent.Elem().Type())
		if i < 0 {
			panic("wrapper holds unregistered entity " + ent.Elem().Type().String())
		}
		fmt.Fprintf(b, "@%d:", i)
		text(ent.Elem(), t.Fields[i].T, b)
	default:
		panic("text: kind " + t.K)
	}
}

func addressable(v reflect.Value) reflect.Value {
	if v.CanAddr() {
		return v
	}
	c := reflect.New(v.Type()).Elem()
	c.Set(v)
	return c
}

func textOf(v reflect.Value, t *Ty) string {
	var b strings.Builder
	text(v, t, &b)
	return b.String()
}

type parser struct {
	s string
	i int
}

func (p *parser) fail(msg string) { panic("parse: " + msg + " at " + strconv.Itoa(p.i)) }

func (p *parser) span(ok func(byte) bool) string {
	j := p.i
	for j < len(p.s) && ok(p.s[j]) {
		j++
	}
	r := p.s[p.i:j]
	p.i = j
	return r
}

func isHexB(c byte) bool   { return (c >= '0' && c <= '9') || (c >= 'a' && c <= 'f') }
func isDigitB(c byte) bool { return c >= '0' && c <= '9' }

func (p *parser) expect(c byte) {
	if p.i >= len(p.s) || p.s[p.i] != c {
		p.fail("expected " + string(c))
	}
	p.i++
}

func (p *parser) hexBytes() []byte {
	b, err := hex.DecodeString(p.span(isHexB))
	if err != nil {
		p.fail("hex")
	}
	return b
}

// parse the value text into v (settable), along the schema
func (p *parser) val(v reflect.Value, t *Ty) {
	switch t.K {
	case "int":
		p.expect('i')
		neg := false
		if p.i < len(p.s) && p.s[p.i] == '-' {
			neg = true
			p.i++
		}
		u, err := strconv.ParseUint(p.span(isDigitB), 10, 64)
		if err != nil {
			p.fail("int")
		}
		x := int64(u)
		if neg {
			x = -int64(u) // 2^63 wraps to MinInt64 as intended
		}
		v.SetInt(x)
		if v.Int() != x {
			p.fail("int does not fit " + v.Type().String())
		}
	case "uint":
		p.expect('u')
		u, err := strconv.ParseUint(p.span(isDigitB), 10, 64)
		if err != nil {
			p.fail("uint")
		}
		v.SetUint(u)
		if v.Uint() != u {
			p.fail("uint does not fit " + v.Type().String())
		}
	case "bool":
		p.expect('b')
		if p.i >= len(p.s) {
			p.fail("bool")
		}
		v.SetBool(p.s[p.i] == 't')
		p.i++
	case "str":
		p.expect('s')
		v.SetString(string(p.hexBytes()))
	case "bin":
		p.expect('x')
		v.SetBytes(p.hexBytes())
	case "f64":
		p.expect('f')
		h := p.span(isHexB)
		u, err := strconv.ParseUint(h, 16, 64)
		if err != nil || len(h) != 16 {
			p.fail("f64")
		}
		v.SetFloat(math.Float64frombits(u))
	case "time":
		p.expect('t')
		neg := false
		if p.i < len(p.s) && p.s[p.i] == '-' {
			neg = true
			p.i++
		}
		s, err1 := strconv.ParseInt(p.span(isDigitB), 10, 64)
		p.expect(':')
		ns, err2 := strconv.ParseInt(p.span(isDigitB), 10, 64)
		if err1 != nil || err2 != nil {
			p.fail("time")
		}
		if neg {
			s = -s
		}
		v.Set(reflect.ValueOf(time.Unix(s, ns).UTC()))
	case "arr":
		p.expect('[')
		sl := reflect.MakeSlice(v.Type(), 0, 0)
		for p.i < len(p.s) && p.s[p.i] != ']' {
			e := reflect.New(v.Type().Elem()).Elem()
			p.val(e, t.E)
			sl = reflect.Append(sl, e)
			if p.i < len(p.s) && p.s[p.i] == ',' {
				p.i++
			}
		}
		p.expect(']')
		v.Set(sl)
	case "map":
		p.expect('{')
		m := reflect.MakeMap(v.Type())
		for p.i < len(p.s) && p.s[p.i] != '}' {
			k := p.hexBytes()
			p.expect('=')
			e := reflect.New(v.Type().Elem()).Elem()
			p.val(e, t.E)
			m.SetMapIndex(reflect.ValueOf(string(k)).Convert(v.Type().Key()), e)
			if p.i < len(p.s) && p.s[p.i] == ',' {
				p.i++
			}
		}
		p.expect('}')
		v.Set(m)
	case "ptr":
		if p.i < len(p.s) && p.s[p.i] == 'n' {
			p.i++
			v.Set(reflect.Zero(v.Type()))
			return
		}
		p.expect('&')
		e := reflect.New(v.Type().Elem())
		p.val(e.Elem(), t.E)
		v.Set(e)
	case "struct", "pstruct":
		p.expect('[')
		for i, f := range t.Fields {
			if i > 0 {
				p.expect(',')
			}
			p.val(fieldOf(v, f.Go), f.T)
		}
		p.expect(']')
	case "union":
		p.expect('@')
		i, err := strconv.Atoi(p.span(isDigitB))
		if err != nil || i >= len(t.Fields) {
			p.fail("alt")
		}
		p.expect(':')
		ent := reflect.New(altType(t, i))
		p.val(ent.Elem(), t.Fields[i].T)
		wrapperSet(v, ent)
	default:
		p.fail("kind " + t.K)
	}
}

func build(schema, txt string) (ptr reflect.Value, t *Ty, err error) {
	defer func() {
		if r := recover(); r != nil {
			err = fmt.Errorf("%v", r)
		}
	}()
	t = schemas[schema]
	rt, ok := goTypes[schema]
	if t == nil || !ok {
		return ptr, nil, fmt.Errorf("unknown schema")
	}
	ptr = reflect.New(rt)
	p := &parser{s: txt}
	p.val(ptr.Elem(), t)
	if p.i != len(txt) {
		return ptr, t, fmt.Errorf("trailing text")
	}
	return ptr, t, nil
}

func marshal(ptr reflect.Value) (b []byte, err error) {
	defer func() {
		if r := recover(); r != nil {
			err = fmt.Errorf("panic: %v", r)
		}
	}()
	return ptr.Interface().(entityI).MarshalMsg(nil)
}

func unmarshal(schema string, b []byte) (ptr reflect.Value, rest []byte, err error) {
	defer func() {
		if r := recover(); r != nil {
			err = fmt.Errorf("panic: %v", r)
		}
	}()
	ptr = reflect.New(goTypes[schema])
	rest, err = ptr.Interface().(entityI).UnmarshalMsg(b)
	return
}

// ---- the implementation run -----------------------------------------------------------------------------------------

func impl(ops []string) []string {
	outs := make([]string, len(ops))
	for i, op := range ops {
		w := strings.Fields(op)
		func() {
			defer func() {
				if r := recover(); r != nil {
					outs[i] = "panic"
				}
			}()
			switch {
			case len(w) == 1 && w[0] == "init":
				outs[i] = fmt.Sprintf("ok %d", len(order))
			case len(w) == 3 && w[0] == "enc":
				ptr, _, err := build(w[1], w[2])
				if err != nil {
					outs[i] = "bad-op"
					return
				}
				b, err := marshal(ptr)
				if err != nil {
					outs[i] = "error"
					return
				}
				outs[i] = "hex " + hex.EncodeToString(b)
			case len(w) == 3 && w[0] == "dec":
				b, err := hex.DecodeString(w[2])
				if err != nil || schemas[w[1]] == nil {
					outs[i] = "bad-op"
					return
				}
				ptr, rest, err := unmarshal(w[1], b)
				if err != nil {
					outs[i] = "fail"
					return
				}
				b2, err := marshal(ptr)
				if err != nil {
					outs[i] = "error"
					return
				}
				outs[i] = fmt.Sprintf("ok %s rest=%d", hex.EncodeToString(b2), len(rest))
			case len(w) == 5 && w[0] == "state":
				h, err := hex.DecodeString(w[1])
				r, err2 := strconv.ParseInt(w[2], 10, 64)
				bal, err3 := strconv.ParseUint(w[3], 10, 64)
				n, err4 := strconv.ParseInt(w[4], 10, 64)
				if err != nil || err2 != nil || err3 != nil || err4 != nil {
					outs[i] = "bad-op"
					return
				}
				if h == nil {
					h = []byte{}
				}
				s := &state.State{TxnHashBytes: h, Round: r, Balance: currency.Coin(bal), Nonce: n}
				outs[i] = "hex " + hex.EncodeToString(s.Encode())
			case len(w) == 2 && w[0] == "unstate":
				b, err := hex.DecodeString(w[1])
				if err != nil {
					outs[i] = "bad-op"
					return
				}
				s := &state.State{}
				if err := s.Decode(b); err != nil {
					outs[i] = "fail"
					return
				}
				outs[i] = fmt.Sprintf("state %s %d %d %d", hex.EncodeToString(s.TxnHashBytes), s.Round, uint64(s.Balance), s.Nonce)
			case len(w) == 4 && w[0] == "mig":
				old, _, err := build(w[1], w[3])
				if err != nil || schemas[w[2]] == nil {
					outs[i] = "bad-op"
					return
				}
				nw, err := migrateGo(old, w[2])
				if err != nil {
					outs[i] = "error"
					return
				}
				b, err := marshal(nw)
				if err != nil {
					outs[i] = "error"
					return
				}
				outs[i] = "hex " + hex.EncodeToString(b)
			default:
				outs[i] = "bad-op"
			}
		}()
	}
	return outs
}

func migrateGo(old reflect.Value, to string) (reflect.Value, error) {
	nw := reflect.New(goTypes[to])
	res := nw.MethodByName("MigrateFrom").Call([]reflect.Value{old})
	if !res[0].IsNil() {
		return nw, res[0].Interface().(error)
	}
	return nw, nil
}

// ---- oracle: the property on the real code alone -------------------------------------------------------------------

func oracle(ops, outs []string) *corr.Violation {
	mk := func(sig, msg string, i int) *corr.Violation {
		return &corr.Violation{Signature: "C08:" + sig, Message: fmt.Sprintf("op %d %.120s: %s", i, ops[i], msg), Ops: ops, Impl: outs}
	}
	for i, op := range ops {
		w := strings.Fields(op)
		switch {
		case len(w) == 3 && w[0] == "enc":
			x, t, err := build(w[1], w[2])
			if err != nil {
				continue
			}
			b, err := marshal(x)
			if err != nil {
				return mk("marshal-fails:"+w[1], err.Error(), i)
			}
			y, rest, err := unmarshal(w[1], b)
			if err != nil {
				return mk("decode-fails:"+w[1], err.Error(), i)
			}
			if len(rest) != 0 {
				return mk("decode-leaves-bytes:"+w[1], fmt.Sprintf("%d bytes left", len(rest)), i)
			}
			tx, ty := textOf(x.Elem(), t), textOf(y.Elem(), t)
			if tx != ty {
				return mk("decode-not-equal:"+w[1], firstDiffText(tx, ty), i)
			}
			b2, err := marshal(y)
			if err != nil {
				return mk("marshal-fails:"+w[1], err.Error(), i)
			}
			if !bytes.Equal(b, b2) {
				return mk("reencode-differs:"+w[1], fmt.Sprintf("%x vs %x", b, b2), i)
			}
			// the same value marshalled twice gives the same bytes (map iteration order must not leak)
			b3, _ := marshal(x)
			if !bytes.Equal(b, b3) {
				return mk("encode-not-deterministic:"+w[1], "two MarshalMsg calls on one value differ", i)
			}
		case len(w) == 5 && w[0] == "state":
			h, _ := hex.DecodeString(w[1])
			if len(h) != 32 || !strings.HasPrefix(outs[i], "hex ") {
				continue
			}
			b, _ := hex.DecodeString(outs[i][4:])
			s := &state.State{}
			if err := s.Decode(b); err != nil {
				return mk("state-decode-fails", err.Error(), i)
			}
			if fmt.Sprintf("%x %d %d %d", s.TxnHashBytes, s.Round, uint64(s.Balance), s.Nonce) != fmt.Sprintf("%x %s %s %s", h, w[2], w[3], w[4]) {
				return mk("state-decode-not-equal", fmt.Sprintf("decoded %x %d %d %d", s.TxnHashBytes, s.Round, uint64(s.Balance), s.Nonce), i)
			}
			if !bytes.Equal(s.Encode(), b) || len(b) != 56 {
				return mk("state-reencode-differs", fmt.Sprintf("%d bytes", len(b)), i)
			}
		case len(w) == 4 && w[0] == "mig":
			old, ft, err := build(w[1], w[3])
			if err != nil {
				continue
			}
			nw, err := migrateGo(old, w[2])
			if err != nil {
				return mk("migration-fails:"+w[1]+"->"+w[2], err.Error(), i)
			}
			tt := schemas[w[2]]
			for _, f := range ft.Fields {
				if f.Msg == "version" {
					continue
				}
				for _, g := range tt.Fields {
					if g.Msg != f.Msg {
						continue
					}
					a := textOf(old.Elem().FieldByName(f.Go), f.T)
					b := textOf(nw.Elem().FieldByName(g.Go), g.T)
					if a != b {
						return mk("migration-drops-field:"+w[1]+"->"+w[2]+":"+f.Msg, firstDiffText(a, b), i)
					}
				}
			}
		}
	}
	return nil
}

func firstDiffText(a, b string) string {
	n := 0
	for n < len(a) && n < len(b) && a[n] == b[n] {
		n++
	}
	lo := n - 20
	if lo < 0 {
		lo = 0
	}
	ha, hb := n+40, n+40
	if ha > len(a) {
		ha = len(a)
	}
	if hb > len(b) {
		hb = len(b)
	}
	return fmt.Sprintf("values differ at text offset %d: …%s… vs …%s…", n, a[lo:ha], b[lo:hb])
}

func main() {
	logging.Logger = zap.NewNop()
	loadSchemas()
	corr.Main(corr.Prop{
		ID: "C08", Model: "C08", Gen: gen, Impl: impl, Oracle: oracle,
		Cases: func(th bool) int {
			if th {
				return 6000
			}
			return 400
		},
		Fixed: fixedCases(),
	})
}
