package main

import (
	"fmt"

	"0chain.net/chaincore/state"
	"0chain.net/core/config"
	"0chain.net/smartcontract/dbs/event"
	"github.com/0chain/common/core/logging"
	"go.uber.org/zap"
	"gorm.io/driver/sqlite"
	"gorm.io/gorm"
)

type store struct{ db *gorm.DB }

func (s *store) Get() *gorm.DB                 { return s.db }
func (s *store) Open(config.DbAccess) error    { return nil }
func (s *store) AutoMigrate() error            { return nil }
func (s *store) Close()                        {}

func main() {
	logging.Logger = zap.NewNop()
	db, err := gorm.Open(sqlite.Open("file:c20a?mode=memory&cache=shared"), &gorm.Config{})
	if err != nil {
		panic(err)
	}
	if err := db.AutoMigrate(&event.BurnTicket{}, &event.User{}, &event.Authorizer{}); err != nil {
		panic(err)
	}
	db.Callback().Raw().Before("gorm:raw").Register("cap", func(d *gorm.DB) {
		fmt.Println("RAW:", d.Statement.SQL.String(), d.Statement.Vars)
	})
	edb := event.VerifNewEventDb(&store{db})
	evs := []event.Event{
		{Type: event.TypeStats, Tag: event.TagAuthorizerBurn, Index: "c1", Data: state.Burn{Burner: "c1", Amount: 10}},
		{Type: event.TypeStats, Tag: event.TagAddBurnTicket, Index: "0xA", Data: &event.BurnTicket{EthereumAddress: "0xA", Hash: "h1", Amount: 10, Nonce: 1}},
		{Type: event.TypeStats, Tag: event.TagAuthorizerBurn, Index: "c1", Data: state.Burn{Burner: "c1", Amount: 20}},
		{Type: event.TypeStats, Tag: event.TagAddBurnTicket, Index: "0xA", Data: &event.BurnTicket{EthereumAddress: "0xA", Hash: "h2", Amount: 20, Nonce: 2}},
		{Type: event.TypeStats, Tag: event.TagAuthorizerBurn, Index: "c2", Data: state.Burn{Burner: "c2", Amount: 5}},
		{Type: event.TypeStats, Tag: event.TagAddBurnTicket, Index: "0xB", Data: &event.BurnTicket{EthereumAddress: "0xB", Hash: "h3", Amount: 5, Nonce: 1}},
		{Type: event.TypeStats, Tag: event.TagAddBridgeMint, Index: "u1", Data: &event.BridgeMint{UserID: "u1", MintNonce: 1, Amount: 100, Signers: []string{"a1", "a2"}}},
		{Type: event.TypeStats, Tag: event.TagAddBridgeMint, Index: "u1", Data: &event.BridgeMint{UserID: "u1", MintNonce: 2, Amount: 50, Signers: []string{"a1"}}},
	}
	out, err := event.VerifMergeEvents(7, "blk", evs)
	fmt.Println("merge err", err)
	for _, e := range out {
		fmt.Printf("%v %v %v %#v\n", e.Type, e.Tag, e.Index, e.Data)
		err := edb.VerifAddStat(e)
		fmt.Println("  addStat:", err)
	}
	var bts []event.BurnTicket
	db.Find(&bts)
	for _, b := range bts {
		fmt.Println("ROW burn_ticket", b.EthereumAddress, b.Hash, b.Amount, b.Nonce)
	}
	var us []event.User
	db.Find(&us)
	for _, u := range us {
		fmt.Println("ROW user", u.UserID, u.MintNonce)
	}
}
