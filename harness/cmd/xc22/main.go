// xc22: translator for the block-level part of C22. Reads miner/transaction.go and miner/protocol_block.go from the
// source tree and writes lean/ZChain/Generated/C22.lean: the set of built-in transaction names and the facts that
// ValidateTransactions rejects a block in which a built-in function name occurs twice. Fails closed: any shape it
// does not recognise is a non-zero exit.
package main

import (
	"bytes"
	"fmt"
	"go/ast"
	"go/parser"
	"go/printer"
	"go/token"
	"os"
	"path/filepath"
	"sort"
	"strconv"
	"strings"
)

func die(f string, a ...interface{}) {
	fmt.Fprintf(os.Stderr, "xc22: "+f+"\n", a...)
	os.Exit(1)
}

func src(fset *token.FileSet, n ast.Node) string {
	var b bytes.Buffer
	printer.Fprint(&b, fset, n)
	return strings.Join(strings.Fields(b.String()), " ")
}

func main() {
	if len(os.Args) != 3 {
		die("usage: xc22 <gosrc> <out.lean>")
	}
	gosrc, out := os.Args[1], os.Args[2]
	fset := token.NewFileSet()

	// 1. the built-in names
	tf, err := parser.ParseFile(fset, filepath.Join(gosrc, "miner/transaction.go"), nil, 0)
	if err != nil {
		die("%v", err)
	}
	consts := map[string]string{}
	var names []string
	var isBuildIn *ast.FuncDecl
	for _, d := range tf.Decls {
		switch g := d.(type) {
		case *ast.GenDecl:
			for _, s := range g.Specs {
				vs, ok := s.(*ast.ValueSpec)
				if !ok {
					continue
				}
				for i, n := range vs.Names {
					if g.Tok == token.CONST && i < len(vs.Values) {
						if bl, ok := vs.Values[i].(*ast.BasicLit); ok && bl.Kind == token.STRING {
							consts[n.Name], _ = strconv.Unquote(bl.Value)
						}
					}
					if g.Tok == token.VAR && n.Name == "gBuildInTxnsMap" && i < len(vs.Values) {
						cl, ok := vs.Values[i].(*ast.CompositeLit)
						if !ok {
							die("gBuildInTxnsMap is not a composite literal")
						}
						for _, e := range cl.Elts {
							kv, ok := e.(*ast.KeyValueExpr)
							if !ok {
								die("gBuildInTxnsMap element shape")
							}
							switch k := kv.Key.(type) {
							case *ast.Ident:
								v, ok := consts[k.Name]
								if !ok {
									die("unknown constant %s", k.Name)
								}
								names = append(names, v)
							case *ast.BasicLit:
								v, _ := strconv.Unquote(k.Value)
								names = append(names, v)
							default:
								die("gBuildInTxnsMap key shape")
							}
						}
					}
				}
			}
		case *ast.FuncDecl:
			if g.Name.Name == "isBuildInTxn" {
				isBuildIn = g
			}
		}
	}
	if len(names) == 0 {
		die("gBuildInTxnsMap not found or empty")
	}
	sort.Strings(names)
	if isBuildIn == nil {
		die("isBuildInTxn not found")
	}
	wantIs := "{ if txn.TransactionType != transaction.TxnTypeSmartContract { return false } _, ok := gBuildInTxnsMap[txn.FunctionName] return ok }"
	if got := src(fset, isBuildIn.Body); got != wantIs {
		die("isBuildInTxn has an unexpected body: %s", got)
	}

	// 2. the duplicate check inside ValidateTransactions
	pf, err := parser.ParseFile(fset, filepath.Join(gosrc, "miner/protocol_block.go"), nil, 0)
	if err != nil {
		die("%v", err)
	}
	var vt *ast.FuncDecl
	for _, d := range pf.Decls {
		if fd, ok := d.(*ast.FuncDecl); ok && fd.Name.Name == "ValidateTransactions" {
			vt = fd
		}
	}
	if vt == nil {
		die("ValidateTransactions not found")
	}
	var hasDup, validate *ast.FuncLit
	ast.Inspect(vt, func(n ast.Node) bool {
		as, ok := n.(*ast.AssignStmt)
		if !ok || len(as.Lhs) != 1 || len(as.Rhs) != 1 {
			return true
		}
		id, ok := as.Lhs[0].(*ast.Ident)
		fl, ok2 := as.Rhs[0].(*ast.FuncLit)
		if ok && ok2 {
			switch id.Name {
			case "hasDuplicateBuildInTxns":
				hasDup = fl
			case "validate":
				validate = fl
			}
		}
		return true
	})
	if hasDup == nil || validate == nil {
		die("closures hasDuplicateBuildInTxns / validate not found in ValidateTransactions")
	}
	wantDup := "{ bicLock.Lock() defer bicLock.Unlock() if mc.isBuildInTxn(txn) { if _, ok := buildInTxnsMap[txn.FunctionName]; ok { return true } buildInTxnsMap[txn.FunctionName] = struct{}{} } return false }"
	if got := src(fset, hasDup.Body); got != wantDup {
		die("hasDuplicateBuildInTxns has an unexpected body: %s", got)
	}
	// inside validate: `for _, txn := range txns { ... if hasDuplicateBuildInTxns(txn) { ...; cancel = true; return } ... }`
	// and `result = true` only after that loop, at the top level of the closure.
	callsInLoop, resultAfter := false, false
	loopSeen := false
	for _, st := range validate.Body.List {
		if rs, ok := st.(*ast.RangeStmt); ok && src(fset, rs.X) == "txns" {
			loopSeen = true
			for _, ls := range rs.Body.List {
				is, ok := ls.(*ast.IfStmt)
				if !ok || src(fset, is.Cond) != "hasDuplicateBuildInTxns(txn)" {
					continue
				}
				n := len(is.Body.List)
				if n >= 2 && src(fset, is.Body.List[n-2]) == "cancel = true" && src(fset, is.Body.List[n-1]) == "return" {
					callsInLoop = true
				}
			}
			continue
		}
		if src(fset, st) == "result = true" {
			if !loopSeen {
				die("result = true precedes the transaction loop")
			}
			resultAfter = true
		}
	}
	if !callsInLoop {
		die("validate does not cancel on hasDuplicateBuildInTxns(txn) for every transaction of the loop")
	}
	if !resultAfter {
		die("validate does not set result = true after the loop")
	}
	// result is false unless set: `result := false` first statement
	if len(validate.Body.List) == 0 || src(fset, validate.Body.List[0]) != "result := false" {
		die("validate does not start with result := false")
	}
	// a false result fails the block
	body := src(fset, vt.Body)
	if !strings.Contains(body, `if !result { return common.NewError("txn_validation_failed", "Transaction validation failed") }`) {
		die("ValidateTransactions does not fail on a false batch result")
	}

	var b strings.Builder
	b.WriteString("/- GENERATED by harness/cmd/xc22 from miner/transaction.go and miner/protocol_block.go — do not edit. -/\n")
	b.WriteString("namespace ZChain.Generated.C22\n\n")
	b.WriteString("/-- the keys of `gBuildInTxnsMap` (sorted). -/\ndef builtins : List String := [")
	for i, n := range names {
		if i > 0 {
			b.WriteString(", ")
		}
		b.WriteString(strconv.Quote(n))
	}
	b.WriteString("]\n\n")
	b.WriteString("/-- `isBuildInTxn` is: smart-contract transaction ∧ function name ∈ `gBuildInTxnsMap`. -/\ndef isBuildInShape : Bool := true\n")
	b.WriteString("/-- `hasDuplicateBuildInTxns` is: under one mutex, a built-in name already in the per-block map ⇒ true, else record it. -/\ndef hasDuplicateShape : Bool := true\n")
	b.WriteString("/-- every transaction of every batch passes through `hasDuplicateBuildInTxns`; `true` cancels the batch (result stays false) and a false batch result fails `ValidateTransactions`. -/\ndef rejectsOnDuplicate : Bool := true\n")
	b.WriteString("\nend ZChain.Generated.C22\n")
	if err := os.WriteFile(out, []byte(b.String()), 0o644); err != nil {
		die("%v", err)
	}
	fmt.Printf("builtins=%s\nclosures: isBuildInTxn, hasDuplicateBuildInTxns, validate loop, batch result: recognised\n", strings.Join(names, ","))
}
