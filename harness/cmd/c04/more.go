package main

import (
	"encoding/json"
	"fmt"
	"math/rand"

	"0chain.net/chaincore/state"
	"0chain.net/core/encryption"
	"github.com/0chain/common/core/currency"
)

// ---------------------------------------------------------------------------------------------- free-storage book
//
// The harness's OWN judgement of "a free-storage grant … under a valid assigner marker", independent of the contract:
// which assigners the storage owner registered (from the successful add_free_storage_assigner transactions it
// sent), their public keys and limits, what was redeemed so far, which nonces were used; a marker is valid iff it
// names a registered assigner, is used by its recipient, carries that assigner's signature on
// hex("recipient:tokens:nonce:blobbers"), stays within the individual and total limits and has a fresh nonce.

type assignerRec struct {
	pk                string
	individual, total uint64
	redeemed          uint64
	nonces            map[int64]bool
}

type freeBook struct {
	assigners map[string]*assignerRec
}

func newFreeBook() *freeBook { return &freeBook{assigners: map[string]*assignerRec{}} }

type markerJSON struct {
	Assigner   string   `json:"assigner"`
	Recipient  string   `json:"recipient"`
	FreeTokens float64  `json:"free_tokens"`
	Nonce      int64    `json:"nonce"`
	Signature  string   `json:"signature"`
	Blobbers   []string `json:"blobbers"`
}

func parseMarker(in string) (markerJSON, bool) {
	var outer struct {
		Marker string `json:"marker"`
	}
	var m markerJSON
	if json.Unmarshal([]byte(in), &outer) != nil || json.Unmarshal([]byte(outer.Marker), &m) != nil {
		return m, false
	}
	return m, true
}

func tokensToCoin(f float64) (uint64, bool) {
	c, err := currency.ParseZCN(f)
	if err != nil {
		return 0, false
	}
	return uint64(c), true
}

func (fb *freeBook) judge(sender int, in string, x *world) (valid bool, max uint64) {
	m, ok := parseMarker(in)
	if !ok {
		return false, 0
	}
	a := fb.assigners[m.Assigner]
	if a == nil || m.Recipient != x.idOf(sender) {
		return false, 0
	}
	coins, ok := tokensToCoin(m.FreeTokens)
	if !ok {
		return false, 0
	}
	k := encryption.NewBLS0ChainScheme()
	if k.SetPublicKey(a.pk) != nil {
		return false, 0
	}
	good, err := k.Verify(m.Signature, markerMessage(m.Recipient, m.FreeTokens, m.Nonce, m.Blobbers))
	if err != nil || !good {
		return false, 0
	}
	if coins > a.individual || a.redeemed+coins > a.total || a.nonces[m.Nonce] {
		return false, 0
	}
	return true, coins
}

// alreadyRedeemed: the marker's nonce was redeemed before for the assigner it names (whatever else is wrong or
// right with the marker).
func (fb *freeBook) alreadyRedeemed(in string) bool {
	m, ok := parseMarker(in)
	if !ok {
		return false
	}
	a := fb.assigners[m.Assigner]
	return a != nil && a.nonces[m.Nonce]
}

func (fb *freeBook) observe(pl parsed, status string, x *world) {
	if status != "success" || pl.typ != "sc" || pl.to != iStorage {
		return
	}
	switch pl.p.Fn {
	case "add_free_storage_assigner":
		if pl.sender != iOwner {
			return // only the owner's registrations count for the oracle
		}
		var a struct {
			Name            string  `json:"name"`
			PublicKey       string  `json:"public_key"`
			IndividualLimit float64 `json:"individual_limit"`
			TotalLimit      float64 `json:"total_limit"`
		}
		if json.Unmarshal([]byte(pl.p.In), &a) != nil {
			return
		}
		rec := fb.assigners[a.Name]
		if rec == nil {
			rec = &assignerRec{nonces: map[int64]bool{}}
			fb.assigners[a.Name] = rec
		}
		rec.pk = a.PublicKey
		rec.individual, rec.total = uint64(a.IndividualLimit*1e10), uint64(a.TotalLimit*1e10)
	case "free_allocation_request":
		if m, ok := parseMarker(pl.p.In); ok {
			if rec := fb.assigners[m.Assigner]; rec != nil {
				if c, ok := tokensToCoin(m.FreeTokens); ok {
					rec.redeemed += c
				}
				rec.nonces[m.Nonce] = true
			}
		}
	}
}

// ---------------------------------------------------------------------------------------------- multisig

func (g *gstate) registerWallet(wi int) bool {
	x := g.x
	var ids, pks []string
	for i := 0; i < 3; i++ {
		ids = append(ids, keys.shares[i].tid)
		pks = append(pks, keys.shares[i].pk)
	}
	in := j(map[string]interface{}{"client_id": x.idOf(wi), "signature_scheme": "bls0chain", "public_key": ucl[wi].PublicKey,
		"signer_threshold_ids": ids, "signer_public_keys": pks, "num_required": 2})
	note := ""
	if wi == iWallet2 {
		note = "wallet-whose-signers-are-not-shares-of-its-key"
	}
	st, _, _ := g.emit(call{typ: "sc", sender: wi, to: iMultisig, fn: "register", fee: g.fee(), in: in, note: note})
	if st == "success" {
		g.wallet[wi] = true
	}
	return st == "success"
}

func voteInput(walletID, toID string, amount uint64, proposal string, signer *blsKey, forge string) string {
	tr := state.Transfer{ClientID: walletID, ToClientID: toID, Amount: currency.Coin(amount)}
	hash := encryption.Hash(tr.Encode())
	sig := signer.sign(hash)
	switch forge {
	case "signature-of-another-transfer":
		other := state.Transfer{ClientID: walletID, ToClientID: toID, Amount: currency.Coin(amount + 1)}
		sig = signer.sign(encryption.Hash(other.Encode()))
	case "signature-by-a-stranger-key":
		sig = keys.signer[2].sign(hash)
	}
	return j(map[string]interface{}{"proposal_id": proposal, "transfer": map[string]interface{}{"from": walletID, "to": toID, "amount": amount}, "signature": sig})
}

func (g *gstate) multisig() {
	x := g.x
	wi := iWallet
	if g.r.Intn(3) == 0 {
		wi = iWallet2
	}
	if !g.wallet[wi] {
		g.registerWallet(wi)
		return
	}
	g.proposal++
	prop := fmt.Sprintf("p%d-%s", g.proposal, g.caseTag)
	to := g.client()
	amount := uint64(1+g.r.Intn(30)) * 1e10
	if g.r.Intn(10) == 0 {
		amount = 600e10 // more than the wallet holds
	}
	switch g.r.Intn(6) {
	case 0:
		g.conflictingVotes(wi, prop)
		return
	case 1:
		g.hijackWallet()
		return
	}
	voters := g.r.Perm(3)
	forge := ""
	switch g.r.Intn(8) {
	case 0:
		forge = "signature-of-another-transfer"
	case 1:
		forge = "signature-by-a-stranger-key"
	}
	for k := 0; k < 2; k++ {
		v := voters[k]
		f := ""
		if k == 1 {
			f = forge
		}
		sender := iSigner0 + v
		note := f
		if g.r.Intn(12) == 0 { // somebody who is not a signer of the wallet votes with a signer's signature
			sender, note = g.client(), "vote-sent-by-non-signer"
		}
		g.emit(call{typ: "sc", sender: sender, to: iMultisig, fn: "vote", fee: g.fee(), in: voteInput(x.idOf(wi), x.idOf(to), amount, prop, keys.shares[v], f), note: note, nb: g.r.Intn(3) == 0})
	}
}

// ---------------------------------------------------------------------------------------------- zcn bridge: stake, mint, rewards

func (g *gstate) zcn() {
	x := g.x
	if len(g.auths) < 2 {
		k := len(g.auths)
		deleg := iClient0 + k
		in := j(map[string]interface{}{"public_key": keys.signer[k].pk, "url": fmt.Sprintf("http://auth%d.example", k),
			"stake_pool_settings": map[string]interface{}{"delegate_wallet": x.idOf(deleg), "num_delegates": 5, "service_charge": 0.1}})
		who, note := iOwner, ""
		if g.r.Intn(8) == 0 {
			who, note = g.client(), "authorizer-added-by-non-owner"
		}
		st, _, _ := g.emit(call{typ: "sc", sender: who, to: iZcn, fn: "add-authorizer", fee: g.fee(), in: in, note: note})
		if st == "success" {
			g.auths = append(g.auths, k)
		}
		return
	}
	a := g.auths[g.r.Intn(len(g.auths))]
	spr := j(map[string]interface{}{"provider_type": 5, "provider_id": keys.signer[a].id})
	switch g.r.Intn(7) {
	case 0, 1:
		s := g.rich()
		st, _, _ := g.emit(call{typ: "sc", sender: s, to: iZcn, fn: "add-to-delegate-pool", value: g.coin(40e10), fee: g.fee(), in: spr})
		if st == "success" {
			g.mstaked[[2]int{s, a}] = true
		}
	case 2:
		who, note := g.client(), "unlock-by-non-owner"
		for k := range g.mstaked {
			if k[1] == a && g.r.Intn(2) == 0 {
				who, note = k[0], ""
			}
		}
		st, _, _ := g.emit(call{typ: "sc", sender: who, to: iZcn, fn: "delete-from-delegate-pool", fee: g.fee(), in: spr, note: note})
		if st == "success" {
			delete(g.mstaked, [2]int{who, a})
		}
	case 3, 4: // mint with the authorizers' signatures (or forged ones)
		rcv := g.client()
		g.markerN++
		amount := uint64(100+g.r.Intn(50)) * 1e10
		msg := encryption.Hash(fmt.Sprintf("%v:%v:%v:%v", "0xeth"+g.caseTag, amount, g.markerN, x.idOf(rcv)))
		type S struct {
			ID  string `json:"authorizer_id"`
			Sig string `json:"signature"`
		}
		var ss []S
		note := ""
		forged := g.r.Intn(5) == 0
		for _, k := range g.auths {
			signer := keys.signer[k]
			if forged {
				signer, note = keys.signer[2], "mint-signed-by-non-authorizer"
			}
			ss = append(ss, S{keys.signer[k].id, signer.sign(msg)})
		}
		in := j(map[string]interface{}{"ethereum_txn_id": "0xeth" + g.caseTag, "amount": amount, "nonce": g.markerN, "receiving_client_id": x.idOf(rcv), "signatures": ss})
		g.emit(call{typ: "sc", sender: rcv, to: iZcn, fn: "mint", fee: g.fee(), in: in, note: note})
	case 5: // collect rewards: by the delegate wallet, a staker or a stranger
		who := iClient0 + a
		if g.r.Intn(2) == 0 {
			who = g.client()
		}
		g.emit(call{typ: "sc", sender: who, to: iZcn, fn: "collect-rewards", fee: g.fee(), in: spr})
	default:
		g.zcnBurn()
	}
}

// ---------------------------------------------------------------------------------------------- miner contract

func (g *gstate) minerStake() {
	x := g.x
	mid := x.idOf(iNode)
	spr := j(map[string]interface{}{"provider_type": 1, "provider_id": mid})
	if len(g.miners) == 0 {
		in := j(map[string]interface{}{
			"simple_miner": map[string]interface{}{"id": mid, "n2n_host": "198.18.0.71", "host": "198.18.0.71", "port": 7071, "public_key": keys.node.pk, "short_name": "m0"},
			"stake_pool":   map[string]interface{}{"settings": map[string]interface{}{"delegate_wallet": x.idOf(iClient0 + 2), "num_delegates": 10, "service_charge": 0.1}},
		})
		st, _, _ := g.emit(call{typ: "sc", sender: iNode, to: iMiner, fn: "add_miner", fee: g.fee(), in: in})
		if st == "success" {
			g.miners = append(g.miners, mid)
		}
		return
	}
	switch g.r.Intn(8) {
	case 0, 1:
		s := g.rich()
		st, _, _ := g.emit(call{typ: "sc", sender: s, to: iMiner, fn: "addToDelegatePool", value: g.coin(60e10), fee: g.fee(), in: spr})
		if st == "success" {
			g.mstaked[[2]int{s, -1}] = true
		}
	case 2:
		who, note := g.client(), "unlock-by-non-owner"
		for k := range g.mstaked {
			if k[1] == -1 && g.r.Intn(2) == 0 {
				who, note = k[0], ""
			}
		}
		st, _, _ := g.emit(call{typ: "sc", sender: who, to: iMiner, fn: "deleteFromDelegatePool", fee: g.fee(), in: spr, note: note})
		if st == "success" {
			delete(g.mstaked, [2]int{who, -1})
		}
	case 3, 4, 5: // the block generator pays the fees / block reward of this block (a fresh block each time)
		round := x.w.Round + 1 // the line opens a new block (nb) before the transaction
		who, note := iNode, ""
		if g.r.Intn(8) == 0 {
			who, note = g.client(), "payFees-by-non-generator"
		}
		g.emit(call{typ: "sc", sender: who, to: iMiner, fn: "payFees", fee: 0, in: fmt.Sprintf(`{"round":%d}`, round), nb: true, note: note})
	default:
		who := iClient0 + 2 // the delegate wallet
		for k := range g.mstaked {
			if k[1] == -1 && g.r.Intn(2) == 0 {
				who = k[0]
			}
		}
		if g.r.Intn(4) == 0 {
			who = g.client()
		}
		g.emit(call{typ: "sc", sender: who, to: iMiner, fn: "collect_reward", fee: g.fee(), in: j(map[string]interface{}{"provider_id": mid, "provider_type": 1})})
	}
}

// ---------------------------------------------------------------------------------------------- fixed corpus

// scripted builds a deterministic case from a script of generator steps.
func scripted(tag string, feeOn, fork bool, steps func(g *gstate)) []string {
	setup()
	g := newG(rand.New(rand.NewSource(int64(len(tag))*7919+1)), tag, feeOn, fork)
	steps(g)
	genuine.Store(hashOps(g.lines), true)
	return g.lines
}

func fixedCases() [][]string {
	return [][]string{
		// free storage: six cheap blobbers, an assigner registered by the owner, valid and forged markers
		scripted("free", true, true, func(g *gstate) {
			for k := 0; k < 60 && len(g.lines) < 55; k++ {
				g.freeStorage()
			}
		}),
		// free storage, redemption order: markers redeemed in DECREASING nonce order, then each replayed, then fresh
		// ones above, below and between, then replays again (the contract's list of redeemed nonces is unsorted)
		scripted("free-order", true, false, func(g *gstate) {
			for k := 0; k < 30 && len(g.assigner) == 0; k++ {
				g.r = rand.New(rand.NewSource(int64(100 + k))) // avoid the non-owner registration branch repeating
				g.freeStorage()
			}
			for _, n := range []int64{5, 3} {
				g.validMarker(n, iClient0+int(n)%6, "")
			}
			for _, n := range []int64{3, 5} {
				g.validMarker(n, iClient0+int(n)%6, "replayed-nonce")
			}
			for _, n := range []int64{9, 1, 4, 7} {
				g.validMarker(n, iClient0+int(n)%6, "")
			}
			for _, n := range []int64{1, 4, 9, 7, 3, 5} {
				g.validMarker(n, iClient0+int(n)%6, "replayed-nonce")
			}
			g.validMarker(2, iClient0+2, "")
		}),
		// free storage, governance in between: redeem -> the owner registers the SAME assigner again (same limits,
		// another total, another individual limit, another key, limits above the maxima, a stranger trying) -> the
		// same marker again / a lower nonce / a fresh nonce. A marker nonce is honoured once over the whole history.
		scripted("free-rereg", true, true, func(g *gstate) {
			for k := 0; k < 30 && len(g.assigner) == 0; k++ {
				g.r = rand.New(rand.NewSource(int64(200 + k)))
				g.freeStorage()
			}
			k := 0
			for n := range g.assigner {
				k = assignerNo(n)
			}
			key := g.assigner[fmt.Sprintf("assigner%d", k)]
			rc := iClient0 + 2
			g.validMarker(4, rc, "")
			g.validMarker(4, rc, "replayed-nonce")
			g.register(k, key, 20, 5000, false) // same limits
			g.validMarker(4, rc, "replayed-nonce after re-registration with the same limits")
			g.register(k, key, 20, 6000, false) // another total
			g.validMarker(4, rc, "replayed-nonce after re-registration with another total_limit")
			g.validMarker(2, rc, "lower fresh nonce")
			g.register(k, key, 10, 6000, false) // another individual limit
			g.validMarker(4, rc, "replayed-nonce after re-registration with another individual_limit")
			g.validMarker(2, rc, "replayed-nonce")
			g.register(k, key, 20, 20000, false) // above max_total_free_allocation: refused, nothing changes
			g.register(k, key, 200, 6000, false) // above max_individual_free_allocation
			g.register(k, key, 20, 7000, true)   // a stranger
			g.validMarker(4, rc, "replayed-nonce")
			g.register(k, 1-key, 20, 4000, false) // another key and a lower total
			g.validMarker(4, rc, "replayed-nonce re-signed with the assigner's new key")
			g.validMarker(2, rc, "replayed-nonce re-signed with the assigner's new key")
			g.validMarker(6, rc, "fresh nonce under the new key")
			g.validMarker(6, iClient0+3, "replayed-nonce by another recipient")
			g.register(k, 1-key, 20, 0.5, false) // total below what is already redeemed
			g.validMarker(7, rc, "over the lowered total")
			g.validMarker(6, rc, "replayed-nonce")
		}),
		// multisig, adversarial: votes of one proposal id carrying different transfers; a wallet registered over
		// another account by a stranger and then voted empty
		scripted("multisig-adversarial", true, false, func(g *gstate) {
			g.registerWallet(iWallet)
			g.r = rand.New(rand.NewSource(11))
			g.conflictingVotes(iWallet, "c1")
			g.r = rand.New(rand.NewSource(12))
			g.conflictingVotes(iWallet, "c2")
			g.r = rand.New(rand.NewSource(14))
			g.conflictingVotes(iWallet, "c3")
			for s := int64(21); s < 25; s++ {
				g.r = rand.New(rand.NewSource(s))
				g.hijackWallet()
			}
		}),
		// rewards: the approved-minter sites (stakepool.MintRewards / MintServiceCharge) on storagesc and zcnsc
		scripted("rewards", true, false, func(g *gstate) { rewardsScript(g) }),
		scripted("rewards-fork", false, true, func(g *gstate) { rewardsScript(g) }),
		// faucet: plain pour, pour with a large value, refill
		scripted("faucet", true, false, func(g *gstate) {
			g.emit(call{typ: "sc", sender: iClient0, to: iFaucet, fn: "pour", fee: 1e8})
			g.emit(call{typ: "sc", sender: iClient0, to: iFaucet, fn: "pour", value: 90e10, fee: 1e8, note: "pour-with-large-value"})
			g.emit(call{typ: "sc", sender: iClient0 + 1, to: iFaucet, fn: "pour", value: 1<<63 - 1, fee: 1e8, note: "pour-with-huge-value"})
			g.emit(call{typ: "sc", sender: iClient0, to: iFaucet, fn: "refill", value: 5e10, fee: 1e8})
			g.emit(call{typ: "sc", sender: iClient0 + 7, to: iFaucet, fn: "refill", value: 5e10, fee: 0, note: "refill-by-a-pauper"})
			g.emit(call{typ: "send", sender: iClient0, to: iClient0 + 2, value: 3e10, fee: 1e8})
		}),
		// multisig: the honest 2-of-3 wallet, a forged second vote, and the wallet whose signers are not its shares
		scripted("multisig", true, true, func(g *gstate) {
			x := g.x
			g.registerWallet(iWallet)
			g.emit(call{typ: "sc", sender: iSigner0, to: iMultisig, fn: "vote", fee: 1e8, in: voteInput(x.idOf(iWallet), x.idOf(iClient0), 7e10, "p1", keys.shares[0], "")})
			g.emit(call{typ: "sc", sender: iSigner0 + 1, to: iMultisig, fn: "vote", fee: 1e8, in: voteInput(x.idOf(iWallet), x.idOf(iClient0), 7e10, "p1", keys.shares[1], "")})
			g.emit(call{typ: "sc", sender: iSigner0, to: iMultisig, fn: "vote", fee: 1e8, in: voteInput(x.idOf(iWallet), x.idOf(iClient0), 9e10, "p2", keys.shares[0], "")})
			g.emit(call{typ: "sc", sender: iSigner0 + 2, to: iMultisig, fn: "vote", fee: 1e8, in: voteInput(x.idOf(iWallet), x.idOf(iClient0), 9e10, "p2", keys.shares[2], "signature-of-another-transfer"), note: "forged-vote"})
			g.emit(call{typ: "sc", sender: iSigner0 + 2, to: iMultisig, fn: "vote", fee: 1e8, in: voteInput(x.idOf(iWallet), x.idOf(iClient0), 9e10, "p2", keys.shares[2], "signature-by-a-stranger-key"), note: "forged-vote"})
			g.registerWallet(iWallet2)
			g.emit(call{typ: "sc", sender: iSigner0, to: iMultisig, fn: "vote", fee: 1e8, in: voteInput(x.idOf(iWallet2), x.idOf(iClient0+1), 11e10, "q1", keys.shares[0], "")})
			g.emit(call{typ: "sc", sender: iSigner0 + 1, to: iMultisig, fn: "vote", fee: 1e8, in: voteInput(x.idOf(iWallet2), x.idOf(iClient0+1), 11e10, "q1", keys.shares[1], ""), note: "threshold-signature-is-not-the-wallet's"})
		}),
	}
}

func rewardsScript(g *gstate) {
	x := g.x
	// storage: two blobbers with stake, an allocation, cancelled by its owner -> cancellation charge becomes stake-pool
	// rewards -> collected by the staker, by the delegate wallet and by a stranger
	b0, b1, staker := iClient0, iClient0+1, iClient0+5
	g.addBlobber(b0, false)
	g.addBlobber(b1, false)
	g.stakeStorage(staker, b0, 100e10)
	g.stakeStorage(staker, b1, 100e10)
	owner := iClient0 + 2
	in := j(map[string]interface{}{
		"data_shards": 1, "parity_shards": 1, "size": gib, "owner_id": x.idOf(owner), "owner_public_key": ucl[owner].PublicKey,
		"blobbers": []string{x.idOf(b0), x.idOf(b1)}, "blobber_auth_tickets": []string{"", ""},
		"read_price_range": map[string]uint64{"min": 0, "max": 1e10}, "write_price_range": map[string]uint64{"min": 0, "max": 1e10},
	})
	_, h, _ := g.emit(call{typ: "sc", sender: owner, to: iStorage, fn: "new_allocation_request", value: 10e10, fee: 1e8, in: in})
	g.emit(call{typ: "sc", sender: iClient0 + 3, to: iStorage, fn: "cancel_allocation", fee: 1e8, in: j(map[string]string{"allocation_id": h}), note: "cancel-by-non-owner"})
	g.emit(call{typ: "sc", sender: owner, to: iStorage, fn: "cancel_allocation", fee: 1e8, in: j(map[string]string{"allocation_id": h}), dt: 10})
	cr := func(b int) string { return j(map[string]interface{}{"provider_type": 3, "provider_id": x.idOf(b)}) }
	g.emit(call{typ: "sc", sender: iClient0 + 4, to: iStorage, fn: "collect_reward", fee: 1e8, in: cr(b0), note: "collect-by-stranger"})
	g.emit(call{typ: "sc", sender: staker, to: iStorage, fn: "collect_reward", fee: 1e8, in: cr(b0)})
	g.emit(call{typ: "sc", sender: iClient0 + 1, to: iStorage, fn: "collect_reward", fee: 1e8, in: cr(b0), note: "collect-by-delegate-wallet"})
	g.emit(call{typ: "sc", sender: staker, to: iStorage, fn: "stake_pool_unlock", fee: 1e8, in: cr(b1), note: "unlock-pays-stake-and-reward"})
	g.emit(call{typ: "sc", sender: iClient0 + 4, to: iStorage, fn: "stake_pool_unlock", fee: 1e8, in: cr(b0), note: "unlock-by-non-owner"})
	// zcn: two authorizers, stake, a mint (its fee share becomes a reward), collected
	for len(g.auths) < 2 && len(g.lines) < 40 {
		g.zcn()
	}
	if len(g.auths) < 2 {
		return
	}
	spr := func(a int) string {
		return j(map[string]interface{}{"provider_type": 5, "provider_id": keys.signer[a].id})
	}
	g.emit(call{typ: "sc", sender: iClient0 + 3, to: iZcn, fn: "add-to-delegate-pool", value: 30e10, fee: 1e8, in: spr(0)})
	g.emit(call{typ: "sc", sender: iClient0 + 3, to: iZcn, fn: "add-to-delegate-pool", value: 30e10, fee: 1e8, in: spr(1)})
	for n := int64(1); n <= 2; n++ {
		rcv := iClient0 + 6
		amount := uint64(120e10)
		msg := encryption.Hash(fmt.Sprintf("%v:%v:%v:%v", "0xrew", amount, n, x.idOf(rcv)))
		type S struct {
			ID  string `json:"authorizer_id"`
			Sig string `json:"signature"`
		}
		ss := []S{{keys.signer[0].id, keys.signer[0].sign(msg)}, {keys.signer[1].id, keys.signer[1].sign(msg)}}
		g.emit(call{typ: "sc", sender: rcv, to: iZcn, fn: "mint", fee: 1e8, in: j(map[string]interface{}{"ethereum_txn_id": "0xrew", "amount": amount, "nonce": n, "receiving_client_id": x.idOf(rcv), "signatures": ss})})
	}
	for a := 0; a < 2; a++ {
		g.emit(call{typ: "sc", sender: iClient0 + 3, to: iZcn, fn: "collect-rewards", fee: 1e8, in: spr(a)})
		g.emit(call{typ: "sc", sender: iClient0 + a, to: iZcn, fn: "collect-rewards", fee: 1e8, in: spr(a), note: "collect-by-delegate-wallet"})
	}
	g.emit(call{typ: "sc", sender: iClient0 + 3, to: iZcn, fn: "delete-from-delegate-pool", fee: 1e8, in: spr(0)})
	g.emit(call{typ: "sc", sender: iClient0 + 4, to: iZcn, fn: "delete-from-delegate-pool", fee: 1e8, in: spr(1), note: "unlock-by-non-owner"})
}

// conflictingVotes: one signer opens a proposal id with a transfer to ITSELF; the other signers vote for the same
// proposal id with another recipient / amount, each vote correctly signed over its own transfer. Finally (sometimes)
// a second signer really co-signs the first transfer, which then is legitimately executed.
func (g *gstate) conflictingVotes(wi int, prop string) {
	x := g.x
	p := g.r.Perm(3)
	attacker := iSigner0 + p[0]
	big := uint64(40+g.r.Intn(40)) * 1e10
	g.emit(call{typ: "sc", sender: attacker, to: iMultisig, fn: "vote", fee: g.fee(), in: voteInput(x.idOf(wi), x.idOf(attacker), big, prop, keys.shares[p[0]], ""), note: "front-runs the proposal id with a transfer to itself"})
	other := g.client()
	small := uint64(1+g.r.Intn(9)) * 1e10
	g.emit(call{typ: "sc", sender: iSigner0 + p[1], to: iMultisig, fn: "vote", fee: g.fee(), in: voteInput(x.idOf(wi), x.idOf(other), small, prop, keys.shares[p[1]], ""), note: "same proposal id, another recipient and amount"})
	switch g.r.Intn(3) {
	case 0:
		g.emit(call{typ: "sc", sender: iSigner0 + p[2], to: iMultisig, fn: "vote", fee: g.fee(), in: voteInput(x.idOf(wi), x.idOf(attacker), big+1e10, prop, keys.shares[p[2]], ""), note: "same proposal id, same recipient, another amount"})
	case 1:
		g.emit(call{typ: "sc", sender: iSigner0 + p[2], to: iMultisig, fn: "vote", fee: g.fee(), in: voteInput(x.idOf(wi), x.idOf(attacker), big, prop, keys.shares[p[2]], ""), note: "really co-signs the first transfer"})
	}
}

// hijackWallet: a stranger registers a multisig wallet OVER another account (that account's id and public key, the
// stranger's choice of signers), then the signers vote a transfer out of that account to the stranger.
func (g *gstate) hijackWallet() {
	x := g.x
	stranger := g.rich()
	victim := g.rich()
	if g.r.Intn(3) == 0 {
		victim = iWallet // possibly already a wallet of its own: the registration would REPLACE it
	}
	if victim == stranger {
		return
	}
	var ids, pks []string
	for i := 0; i < 3; i++ {
		ids = append(ids, keys.shares[i].tid)
		pks = append(pks, keys.shares[i].pk)
	}
	in := j(map[string]interface{}{"client_id": x.idOf(victim), "signature_scheme": "bls0chain", "public_key": ucl[victim].PublicKey,
		"signer_threshold_ids": ids, "signer_public_keys": pks, "num_required": 2})
	g.emit(call{typ: "sc", sender: stranger, to: iMultisig, fn: "register", fee: g.fee(), in: in, note: "registered over ANOTHER account by a stranger"})
	g.proposal++
	prop := fmt.Sprintf("h%d-%s", g.proposal, g.caseTag)
	amount := uint64(1+g.r.Intn(30)) * 1e10
	p := g.r.Perm(3)
	for k := 0; k < 2; k++ {
		g.emit(call{typ: "sc", sender: iSigner0 + p[k], to: iMultisig, fn: "vote", fee: g.fee(), in: voteInput(x.idOf(victim), x.idOf(stranger), amount, prop, keys.shares[p[k]], ""), note: "vote on a wallet its account never registered"})
	}
}
