package main

import (
	"encoding/hex"
	"encoding/json"
	"fmt"
	"math/rand"
	"sort"
	"strings"

	"0chain.net/core/encryption"
)

// ---------------------------------------------------------------------------------------------- generator state

// call: one intended transaction (before it is recorded as a line).
type call struct {
	typ        string
	sender, to int
	value, fee uint64
	fn, in     string
	dt         int64
	nb         bool
	note       string
	grant      *grantInfo
	nonceSkew  int64
	shadow     string // the marker-book line that shadows this transaction (without its trailing `later` / ref tokens)
}

type alloc struct {
	id     string
	owner  int
	closed bool
}

type vpool struct {
	id    string
	owner int
	dests []int
}

// gstate: what the generator remembers about the history it is building (only to keep most calls valid).
type gstate struct {
	r          *rand.Rand
	x          *world
	lines      []string
	seq        int
	caseTag    string
	blobbers   []int           // client indices registered as blobbers
	cheap      map[int]bool    // blobbers whose terms fit the free-allocation settings
	staked     map[[2]int]bool // (staker, blobber)
	mstaked    map[[2]int]bool
	allocs     []alloc
	pools      []vpool
	assigner   map[string]int // registered free-storage assigner name -> key index
	markerN    int64
	replayNext int                // after a re-registration: the next markers are replays of redeemed ones
	noncePlan  []int64            // fresh marker nonces still to be used, in the order they will be redeemed
	redeemed   map[string][]int64 // assigner -> nonces of markers that were redeemed
	wallet     map[int]bool       // multisig wallets registered
	proposal   int
	auths      []int // authorizer indices (zcnsc)
	miners     []string
}

func (g *gstate) client() int { return iClient0 + g.r.Intn(nClients) }
func (g *gstate) rich() int   { return iClient0 + g.r.Intn(nClients-1) }
func (g *gstate) anyone() int { return g.r.Intn(nUniverse) }
func (g *gstate) coin(max uint64) uint64 {
	switch g.r.Intn(12) {
	case 0:
		return 0
	case 1:
		return 1
	case 2:
		return max
	case 3:
		return []uint64{1 << 53, 4000000000000000000, 4000000000000000001, 1<<63 - 1, 1<<64 - 1}[g.r.Intn(5)]
	}
	return uint64(g.r.Int63n(int64(max) + 1))
}
func (g *gstate) fee() uint64 {
	switch g.r.Intn(10) {
	case 0:
		return 0
	case 1:
		return uint64(g.r.Intn(5)) * 1e10
	}
	return uint64(g.r.Intn(1000)) * 1e5
}

// emit records the call as a line (dry run first, for the model's <res> field), executes it on the generator's own
// world and returns the status and the transaction hash.
func (g *gstate) emit(c call) (status, hash, output string) {
	x := g.x
	g.seq++
	_, nonce, _ := x.w.Account(x.idOf(c.sender))
	nonce += 1 + c.nonceSkew
	p := payload{Fn: c.fn, In: c.in, Dt: c.dt, NB: c.nb, Note: c.note, Grant: c.grant}
	p.Hash = encryption.Hash(fmt.Sprintf("c04-txn-%s-%d-%d-%d-%s-%s", g.caseTag, g.seq, c.sender, nonce, c.fn, c.in))
	// advance block / clock exactly as applyLine will
	if p.NB {
		x.nextBlock()
	}
	if p.Dt > 0 {
		x.w.Now += commonTimestamp(p.Dt)
		x.w.B.CreationDate = x.w.Now
	}
	t := x.mkTxn(c.typ, c.sender, c.to, c.value, c.fee, nonce, p)
	res, _, newIDs := x.dryRun(t)
	if len(newIDs) > 0 {
		p.Ext = map[string]string{}
		for _, id := range newIDs {
			p.Ext[fmt.Sprint(x.ext[id])] = id
		}
	}
	dryErr := x.lastDryErr
	status = x.exec(t)
	shadow := ""
	if c.shadow != "" && !(dryErr == "" && status != "success" && strings.HasPrefix(c.shadow, "fsa")) {
		shadow = c.shadow
		if strings.HasPrefix(shadow, "frm") {
			later := "0"
			if status == "success" {
				later = "1"
			}
			shadow += " " + later
		}
		shadow += " " + p.Hash[:12]
		p.Sh = true
	}
	line := fmt.Sprintf("txn %s %d %d 1 %d %d %d %s %s", c.typ, c.sender, c.to, c.value, c.fee, nonce, res, encPayload(p))
	g.lines = append(g.lines, line)
	pl, _ := parseTxn(line)
	x.free.observe(pl, status, x)
	if shadow != "" {
		g.lines = append(g.lines, shadow)
	}
	key := fmt.Sprintf("%d.%s:%s", c.to, c.fn, status)
	if c.typ != "sc" {
		key = c.typ + ":" + status
	}
	v, _ := opKinds.LoadOrStore(key, new(int))
	*(v.(*int))++
	return status, p.Hash, t.TransactionOutput
}

// ---------------------------------------------------------------------------------------------- recipes

func j(v interface{}) string {
	b, _ := json.Marshal(v)
	return string(b)
}

func (g *gstate) send() {
	g.emit(call{typ: "send", sender: g.client(), to: g.anyone(), value: g.coin(50e10), fee: g.fee()})
}

func (g *gstate) faucet() {
	switch g.r.Intn(5) {
	case 0: // refill: sender -> faucet, exactly value
		g.emit(call{typ: "sc", sender: g.client(), to: iFaucet, fn: "refill", value: g.coin(20e10), fee: g.fee()})
	case 1: // pour with a (large) value: the value selects the amount, it is NOT taken from the sender
		g.emit(call{typ: "sc", sender: g.client(), to: iFaucet, fn: "pour", value: g.coin(200e10), fee: g.fee(), note: "pour-with-value"})
	default:
		g.emit(call{typ: "sc", sender: g.client(), to: iFaucet, fn: "pour", value: 0, fee: g.fee()})
	}
}

func (g *gstate) zcnBurn() {
	g.emit(call{typ: "sc", sender: g.client(), to: iZcn, fn: "burn", value: g.coin(30e10), fee: g.fee(), in: `{"ethereum_address":"0xc04"}`})
}

func (g *gstate) vesting() {
	x := g.x
	if len(g.pools) == 0 || g.r.Intn(4) == 0 {
		owner := g.rich()
		nd := 1 + g.r.Intn(3)
		var ds []map[string]interface{}
		var dests []int
		var want uint64
		for k := 0; k < nd; k++ {
			d := g.client()
			amt := uint64(1+g.r.Intn(20)) * 1e9
			ds = append(ds, map[string]interface{}{"id": x.idOf(d), "amount": amt})
			dests = append(dests, d)
			want += amt
		}
		val := want + uint64(g.r.Intn(3))*1e9
		if g.r.Intn(8) == 0 {
			val = want / 2 // not enough
		}
		in := j(map[string]interface{}{"description": "c04", "start_time": 0, "duration": int64(120+g.r.Intn(600)) * 1e9, "destinations": ds})
		st, h, _ := g.emit(call{typ: "sc", sender: owner, to: iVesting, fn: "add", value: val, fee: g.fee(), in: in})
		if st == "success" {
			g.pools = append(g.pools, vpool{id: uid[iVesting] + ":vestingpool:" + h, owner: owner, dests: dests})
		}
		return
	}
	p := g.pools[g.r.Intn(len(g.pools))]
	who := p.owner
	note := ""
	switch g.r.Intn(5) {
	case 0:
		who = p.dests[g.r.Intn(len(p.dests))]
	case 1:
		who = g.client() // possibly neither owner nor destination
		note = "maybe-non-owner"
	}
	in := j(map[string]string{"pool_id": p.id})
	dt := int64(g.r.Intn(200))
	switch g.r.Intn(6) {
	case 0, 1:
		g.emit(call{typ: "sc", sender: who, to: iVesting, fn: "trigger", fee: g.fee(), in: in, dt: dt, note: note})
	case 2, 3:
		g.emit(call{typ: "sc", sender: who, to: iVesting, fn: "unlock", fee: g.fee(), in: in, dt: dt, note: note})
	case 4:
		d := p.dests[g.r.Intn(len(p.dests))]
		g.emit(call{typ: "sc", sender: who, to: iVesting, fn: "stop", fee: g.fee(), in: j(map[string]string{"pool_id": p.id, "destination": x.idOf(d)}), dt: dt, note: note})
	case 5:
		g.emit(call{typ: "sc", sender: who, to: iVesting, fn: "delete", fee: g.fee(), in: in, dt: dt, note: note})
	}
}

// ---------------------------------------------------------------------------------------------- storage

const gib = 1 << 30

func (g *gstate) addBlobber(c int, cheap bool) bool {
	x := g.x
	deleg := iClient0 + (c-iClient0+1)%nClients
	rp, wp := uint64(1e8), uint64(1e9)
	if cheap {
		rp, wp = 0, 1e7
	}
	in := j(map[string]interface{}{
		"id": x.idOf(c), "url": fmt.Sprintf("http://blobber%d-%s.example:5051", c, g.caseTag), "capacity": 100 * gib,
		"terms":               map[string]interface{}{"read_price": rp, "write_price": wp},
		"stake_pool_settings": map[string]interface{}{"delegate_wallet": x.idOf(deleg), "num_delegates": 10, "service_charge": 0.1},
	})
	st, _, _ := g.emit(call{typ: "sc", sender: c, to: iStorage, fn: "add_blobber", fee: g.fee(), in: in})
	if st == "success" {
		g.blobbers = append(g.blobbers, c)
		if cheap {
			g.cheap[c] = true
		}
		return true
	}
	return false
}

func (g *gstate) stakeStorage(staker, blobber int, value uint64) bool {
	in := j(map[string]interface{}{"provider_type": 3, "provider_id": g.x.idOf(blobber)})
	st, _, _ := g.emit(call{typ: "sc", sender: staker, to: iStorage, fn: "stake_pool_lock", value: value, fee: g.fee(), in: in})
	if st == "success" {
		g.staked[[2]int{staker, blobber}] = true
		return true
	}
	return false
}

func (g *gstate) storage() {
	x := g.x
	// make sure there are two ordinary blobbers with stake
	if len(g.blobbers) < 2 {
		c := iClient0 + len(g.blobbers)
		if g.addBlobber(c, false) {
			g.stakeStorage(iClient0+5, c, 100e10)
		}
		return
	}
	switch g.r.Intn(12) {
	case 0: // more stake
		g.stakeStorage(g.rich(), g.blobbers[g.r.Intn(len(g.blobbers))], g.coin(50e10))
	case 1: // unlock by the owner of the delegate pool, or by somebody who has none
		b := g.blobbers[g.r.Intn(len(g.blobbers))]
		who := g.client()
		note := "unlock-by-non-owner"
		for k := range g.staked {
			if k[1] == b && g.r.Intn(2) == 0 {
				who, note = k[0], ""
			}
		}
		in := j(map[string]interface{}{"provider_type": 3, "provider_id": x.idOf(b)})
		st, _, _ := g.emit(call{typ: "sc", sender: who, to: iStorage, fn: "stake_pool_unlock", fee: g.fee(), in: in, note: note})
		if st == "success" {
			delete(g.staked, [2]int{who, b})
		}
	case 2, 3: // new allocation
		owner := g.rich()
		ids := []string{x.idOf(g.blobbers[0]), x.idOf(g.blobbers[1])}
		in := j(map[string]interface{}{
			"data_shards": 1, "parity_shards": 1, "size": gib, "owner_id": x.idOf(owner), "owner_public_key": ucl[owner].PublicKey,
			"blobbers": ids, "blobber_auth_tickets": []string{"", ""},
			"read_price_range": map[string]uint64{"min": 0, "max": 1e10}, "write_price_range": map[string]uint64{"min": 0, "max": 1e10},
		})
		st, h, _ := g.emit(call{typ: "sc", sender: owner, to: iStorage, fn: "new_allocation_request", value: g.coin(20e10), fee: g.fee(), in: in})
		if st == "success" {
			g.allocs = append(g.allocs, alloc{id: h, owner: owner})
		}
	case 4, 5: // write pool lock (by anyone, for anyone's allocation)
		if len(g.allocs) == 0 {
			return
		}
		a := g.allocs[g.r.Intn(len(g.allocs))]
		g.emit(call{typ: "sc", sender: g.client(), to: iStorage, fn: "write_pool_lock", value: g.coin(10e10), fee: g.fee(), in: j(map[string]string{"allocation_id": a.id})})
	case 6: // read pool lock / unlock
		if g.r.Intn(2) == 0 {
			in := `{}`
			if g.r.Intn(2) == 0 { // lock for somebody else's read pool: the SENDER pays
				in = j(map[string]string{"target_id": x.idOf(g.client())})
			}
			g.emit(call{typ: "sc", sender: g.client(), to: iStorage, fn: "read_pool_lock", value: g.coin(5e10), fee: g.fee(), in: in})
		} else {
			g.emit(call{typ: "sc", sender: g.client(), to: iStorage, fn: "read_pool_unlock", fee: g.fee(), in: `{}`})
		}
	case 7, 8: // cancel / finalize by the owner or by a stranger
		if len(g.allocs) == 0 {
			return
		}
		k := g.r.Intn(len(g.allocs))
		a := g.allocs[k]
		who, note := a.owner, ""
		if g.r.Intn(3) == 0 {
			who, note = g.client(), "maybe-non-owner"
		}
		fn := "cancel_allocation"
		if g.r.Intn(3) == 0 {
			fn = "finalize_allocation"
		}
		g.emit(call{typ: "sc", sender: who, to: iStorage, fn: fn, fee: g.fee(), in: j(map[string]string{"allocation_id": a.id}), dt: int64(g.r.Intn(100)), note: note})
	case 9: // collect reward by a delegate / by a stranger
		b := g.blobbers[g.r.Intn(len(g.blobbers))]
		who := g.client()
		switch g.r.Intn(3) {
		case 0:
			who = iClient0 + 5 // the usual staker
		case 1:
			who = iClient0 + (b-iClient0+1)%nClients // the blobber's delegate wallet
		}
		g.emit(call{typ: "sc", sender: who, to: iStorage, fn: "collect_reward", fee: g.fee(), in: j(map[string]interface{}{"provider_type": 3, "provider_id": x.idOf(b)})})
	default:
		g.freeStorage()
	}
}

// ---------------------------------------------------------------------------------------------- free storage

func markerMessage(recipient string, tokens float64, nonce int64, blobbers []string) string {
	return hex.EncodeToString([]byte(fmt.Sprintf("%s:%f:%d:%s", recipient, tokens, nonce, strings.Join(blobbers, ""))))
}

func (g *gstate) freeStorage() {
	x := g.x
	// six cheap blobbers with stake are needed (free_allocation_settings: 4 data + 2 parity shards, write price ≤ 1)
	var cheap []int
	for _, b := range g.blobbers {
		if g.cheap[b] {
			cheap = append(cheap, b)
		}
	}
	if len(cheap) < 6 {
		// the cheap blobbers are the BLS signers and wallets plus clients: anybody not yet a blobber
		for c := iWallet2; c >= iClient0; c-- { // never the miner node: a provider id shared between contracts panics inside getBlobber (state cache type clash)
			isB := false
			for _, b := range g.blobbers {
				if b == c {
					isB = true
				}
			}
			if !isB && c != iClient0+5 && c != iClient0+nClients-1 {
				if g.addBlobber(c, true) {
					g.stakeStorage(iClient0+5, c, 20e10)
				}
				return
			}
		}
		return
	}
	if len(g.assigner) == 0 || g.r.Intn(7) == 0 {
		g.registerAssigner()
		return
	}
	// a marker: mostly valid, sometimes forged in one specific way
	var names []string
	for n := range g.assigner {
		names = append(names, n)
	}
	sort.Strings(names)
	name := names[g.r.Intn(len(names))]
	key := g.assigner[name]
	signedFor := name // the replays are replays of THIS assigner's markers
	recipient := g.client()
	sender := recipient
	// nonces: batches of fresh nonces redeemed in DECREASING or shuffled order (the contract keeps the redeemed
	// nonces in redemption order, not sorted), interleaved with properly signed replays of nonces already redeemed
	if len(g.noncePlan) == 0 {
		base := g.markerN
		n := 3 + g.r.Intn(4)
		g.markerN += int64(n) + int64(g.r.Intn(3))
		for k := 0; k < n; k++ {
			g.noncePlan = append(g.noncePlan, base+int64(n-k)) // decreasing
		}
		if g.r.Intn(3) == 0 {
			g.r.Shuffle(len(g.noncePlan), func(a, b int) { g.noncePlan[a], g.noncePlan[b] = g.noncePlan[b], g.noncePlan[a] })
		}
	}
	tokens := float64(1+g.r.Intn(8)) / 8
	signKey := key
	tamper := ""
	var nonce int64
	if len(g.redeemed[signedFor]) > 0 && (g.r.Intn(3) == 0 || g.replayNext > 0) {
		if g.replayNext > 0 {
			g.replayNext--
		}
		tamper, nonce = "replayed-nonce", g.redeemed[signedFor][g.r.Intn(len(g.redeemed[signedFor]))]
	} else {
		nonce, g.noncePlan = g.noncePlan[0], g.noncePlan[1:]
		switch g.r.Intn(16) {
		case 0:
			tamper, signKey = "signed-by-non-assigner", 2
		case 1:
			tamper, sender = "used-by-non-recipient", g.client()
		case 3:
			tamper, tokens = "over-individual-limit", 25
		case 4:
			tamper, name = "unknown-assigner", "nobody"
		case 5:
			tamper = "amount-changed-after-signing"
		}
	}
	ids := make([]string, 6)
	for i := 0; i < 6; i++ {
		ids[i] = x.idOf(cheap[i])
	}
	sig := keys.signer[signKey].sign(markerMessage(x.idOf(recipient), tokens, nonce, ids))
	if tamper == "amount-changed-after-signing" {
		tokens += 3
	}
	marker := j(map[string]interface{}{"assigner": name, "recipient": x.idOf(recipient), "free_tokens": tokens, "nonce": nonce, "signature": sig, "blobbers": ids})
	in := j(map[string]interface{}{"recipient_public_key": ucl[recipient].PublicKey, "marker": marker})
	intact := 1
	if tamper == "amount-changed-after-signing" {
		intact = 0
	}
	st, _, _ := g.emit(call{typ: "sc", sender: sender, to: iStorage, fn: "free_allocation_request", fee: g.fee(), in: in, note: tamper,
		shadow: frmShadow(name, signKey, intact, sender == recipient, tokens, nonce),
		grant:  &grantInfo{Assigner: name, SignerKey: signKey, Tokens: uint64(tokens * 1e10), Nonce: nonce, Recipient: recipient, TamperedAt: tamper}})
	if st == "success" && tamper != "replayed-nonce" {
		g.redeemed[signedFor] = append(g.redeemed[signedFor], nonce)
	}
}

// ---------------------------------------------------------------------------------------------- cases

func newG(r *rand.Rand, tag string, feeOn, fork bool) *gstate {
	g := &gstate{r: r, caseTag: tag, cheap: map[int]bool{}, staked: map[[2]int]bool{}, mstaked: map[[2]int]bool{}, assigner: map[string]int{}, redeemed: map[string][]int64{}, wallet: map[int]bool{}}
	g.x = newWorld(feeOn, fork)
	g.lines = []string{initLine(feeOn, fork)}
	return g
}

func gen(r *rand.Rand, thorough bool, i int) []string {
	setup()
	feeOn := r.Intn(5) != 0
	fork := r.Intn(2) == 0
	g := newG(r, fmt.Sprintf("g%d", i), feeOn, fork)
	n := 14 + r.Intn(22)
	if thorough {
		n = 20 + r.Intn(50)
	}
	// each case concentrates on one or two contracts (so that the setup of a scenario gets finished)
	themes := []func(){g.faucet, g.zcnBurn, g.vesting, g.storage, g.freeStorage, g.multisig, g.minerStake, g.send}
	a, b := r.Intn(len(themes)), r.Intn(len(themes))
	for k := 0; k < n; k++ {
		switch r.Intn(10) {
		case 0:
			themes[r.Intn(len(themes))]()
		case 1, 2, 3:
			themes[b]()
		default:
			themes[a]()
		}
		if len(g.lines) > 90 {
			break
		}
	}
	genuine.Store(hashOps(g.lines), true)
	return g.lines
}

// validMarker sends a correctly signed marker with the given nonce (used by the fixed corpus: redemption order and
// replays are chosen explicitly).
func (g *gstate) validMarker(nonce int64, recipient int, note string) string {
	x := g.x
	var cheap []int
	for _, b := range g.blobbers {
		if g.cheap[b] {
			cheap = append(cheap, b)
		}
	}
	var name string
	var key int
	for n, k := range g.assigner {
		if name == "" || n < name {
			name, key = n, k
		}
	}
	if len(cheap) < 6 || name == "" {
		return "no-setup"
	}
	ids := make([]string, 6)
	for i := 0; i < 6; i++ {
		ids[i] = x.idOf(cheap[i])
	}
	tokens := 0.25
	sig := keys.signer[key].sign(markerMessage(x.idOf(recipient), tokens, nonce, ids))
	marker := j(map[string]interface{}{"assigner": name, "recipient": x.idOf(recipient), "free_tokens": tokens, "nonce": nonce, "signature": sig, "blobbers": ids})
	in := j(map[string]interface{}{"recipient_public_key": ucl[recipient].PublicKey, "marker": marker})
	st, _, _ := g.emit(call{typ: "sc", sender: recipient, to: iStorage, fn: "free_allocation_request", fee: 1e8, in: in, note: note,
		shadow: frmShadow(name, key, 1, true, tokens, nonce)})
	return st
}

func assignerNo(name string) int {
	switch name {
	case "assigner0":
		return 0
	case "assigner1":
		return 1
	}
	return 9
}

func frmShadow(name string, signKey, intact int, recipientOk bool, tokens float64, nonce int64) string {
	r := 0
	if recipientOk {
		r = 1
	}
	coins, _ := tokensToCoin(tokens)
	return fmt.Sprintf("frm %d %d %d %d %d %d", assignerNo(name), signKey, intact, r, coins, nonce)
}

// registerAssigner: first registration, or RE-registration of an existing assigner by the owner with the same or
// other limits (total and individual, below and above the configured maxima) and the same or another key, or an
// attempt by somebody who is not the owner. After a re-registration the next markers are replays.
func (g *gstate) registerAssigner() bool {
	return g.register(g.r.Intn(2), -1, -1, -1, g.r.Intn(6) == 0)
}

func (g *gstate) register(k, key int, individual, total float64, byStranger bool) bool {
	name := fmt.Sprintf("assigner%d", k)
	oldKey, exists := g.assigner[name]
	if key < 0 {
		key = k
		if exists {
			key = oldKey
			if g.r.Intn(4) == 0 {
				key = 1 - oldKey // the owner replaces the assigner's key
			}
		}
	}
	if individual < 0 {
		individual = []float64{20, 20, 10, 30, 200}[g.r.Intn(5)]
		if !exists {
			individual = 20
		}
	}
	if total < 0 {
		total = []float64{5000, 5000, 4000, 6000, 8, 20000}[g.r.Intn(6)]
		if !exists {
			total = 5000
		}
	}
	who, note, owner := iOwner, "", 1
	if byStranger {
		who, note, owner = g.client(), "assigner-added-by-non-owner", 0
	}
	if exists && !byStranger {
		note = fmt.Sprintf("re-registration individual=%v total=%v key=%d", individual, total, key)
	}
	in := j(map[string]interface{}{"name": name, "public_key": keys.signer[key].pk, "individual_limit": individual, "total_limit": total})
	st, _, _ := g.emit(call{typ: "sc", sender: who, to: iStorage, fn: "add_free_storage_assigner", fee: g.fee(), in: in, note: note,
		shadow: fmt.Sprintf("fsa %d %d %d %d %d", k, key, uint64(individual*1e10), uint64(total*1e10), owner)})
	if st == "success" {
		g.assigner[name] = key
		if exists {
			g.replayNext = 1 + g.r.Intn(3)
		}
		return true
	}
	return false
}
