// C04 harness: histories of REAL contract calls (faucet, storage, miner, zcn, vesting, multisig) executed through
// the real Chain.UpdateState (lib/engine), against the engine model Model/Ledger.lean (driver zdrv-C04).
//
// For every transaction the harness first DRY-RUNS the contract on a throw-away state context built exactly as
// chain.updateState builds its own (same block state, fresh transaction cache, chain.NewStateContext) and records the
// transfers / signed transfers the contract queued; that record is the `<res>` field of the line the Lean model reads
// (`txn sc <sender> <to> 1 <value> <fee> <nonce> ok|t,src,dst,amt;s,src,dst,amt <payload>`). The model then predicts
// status and every balance and nonce; the real post-state (every client-state leaf of the trie) must agree.
//
// The ORACLE is independent of the model: after every transaction each negative balance delta is attributed to
// {the sender, at most value + fee · the called contract's own wallet · the source of a signed transfer whose
// signature the harness verified itself · the storage owner's wallet under a free-storage marker the harness checked
// itself (registered assigner, signature, limits, fresh nonce)}; any other debit is a violation with a replay.
package main

import (
	"context"
	"crypto/sha256"
	"encoding/base64"
	"encoding/hex"
	"encoding/json"
	"flag"
	"fmt"
	"math/big"
	"math/rand"
	"os"
	"sort"
	"strconv"
	"strings"
	"sync"
	"sync/atomic"

	"0chain.net/chaincore/block"
	"0chain.net/chaincore/chain"
	cstate "0chain.net/chaincore/chain/state"
	"0chain.net/chaincore/node"
	"0chain.net/chaincore/smartcontract"
	"0chain.net/chaincore/state"
	"0chain.net/chaincore/transaction"
	"0chain.net/core/encryption"
	"0chain.net/smartcontract/faucetsc"
	"0chain.net/smartcontract/minersc"
	"0chain.net/smartcontract/multisigsc"
	"0chain.net/smartcontract/storagesc"
	"0chain.net/smartcontract/vestingsc"
	"0chain.net/smartcontract/zcnsc"
	"github.com/0chain/common/core/currency"
	"github.com/0chain/common/core/statecache"
	"github.com/0chain/common/core/util"
	"verifharness/lib/corr"
	"verifharness/lib/engine"
)

// ---------------------------------------------------------------------------------------------- id universe

const (
	iMiner = iota
	iStorage
	iFaucet
	iZcn
	iVesting
	iMultisig
	iOwner   // owner_id of every contract in sc.yaml (the storage owner pays free-storage grants)
	iClient0 // 8 ordinary clients
)

const (
	nClients  = 8
	iSigner0  = iClient0 + nClients // 3 BLS key holders: the 2-of-3 threshold shares of the wallet key (multisig voters)
	nSigners  = 3
	iWallet   = iSigner0 + nSigners // the multisig group wallet (id = hash of the group public key)
	iWallet2  = iWallet + 1         // a wallet whose signer keys are NOT shares of its key
	iNode     = iWallet2 + 1        // the miner node that generates every block (listed in the chain's magic block)
	nUniverse = iNode + 1
	extBase   = 100
	ownerID   = "1746b06bb09f55ee01b33b5e2e055d6cc7a900cb57c0a3a5eaabb8a0e7745802"
)

var (
	setupOnce  sync.Once
	uid        [nUniverse]string
	ucl        [nUniverse]engine.Client
	isContract = map[int]bool{iMiner: true, iStorage: true, iFaucet: true, iZcn: true, iVesting: true, iMultisig: true}
	keys       *keyring
)

func setup() {
	setupOnce.Do(func() {
		engine.Setup()
		// vesting and multisig are switched off in docker.local/config/0chain.yaml; the code is there: register them
		if _, ok := smartcontract.ContractMap[vestingsc.ADDRESS]; !ok {
			smartcontract.ContractMap[vestingsc.ADDRESS] = vestingsc.NewVestingSmartContract()
		}
		if _, ok := smartcontract.ContractMap[multisigsc.Address]; !ok {
			smartcontract.ContractMap[multisigsc.Address] = multisigsc.NewMultiSigSmartContract()
		}
		keys = newKeyring()
		uid[iMiner], uid[iStorage], uid[iFaucet], uid[iZcn], uid[iVesting], uid[iMultisig] = minersc.ADDRESS, storagesc.ADDRESS, faucetsc.ADDRESS, zcnsc.ADDRESS, vestingsc.ADDRESS, multisigsc.Address
		uid[iOwner] = ownerID
		for i := 0; i < nClients; i++ {
			ucl[iClient0+i] = engine.NewClient(fmt.Sprintf("c04-%d", i))
			uid[iClient0+i] = ucl[iClient0+i].ID
		}
		for i := 0; i < nSigners; i++ {
			ucl[iSigner0+i] = engine.Client{ID: keys.shares[i].id, PublicKey: keys.shares[i].pk}
			uid[iSigner0+i] = keys.shares[i].id
		}
		ucl[iWallet] = engine.Client{ID: keys.group.id, PublicKey: keys.group.pk}
		uid[iWallet] = keys.group.id
		ucl[iWallet2] = engine.Client{ID: keys.group2.id, PublicKey: keys.group2.pk}
		uid[iWallet2] = keys.group2.id
		ucl[iNode] = engine.Client{ID: keys.node.id, PublicKey: keys.node.pk}
		uid[iNode] = keys.node.id
		for i := 0; i <= iOwner; i++ {
			ucl[i] = engine.Client{ID: uid[i], PublicKey: ""}
		}
		// minersc.add_miner accepts only nodes of the chain's current magic block: give the chain one that lists our node
		mb := block.NewMagicBlock()
		mb.Miners = node.NewPool(node.NodeTypeMiner)
		mb.Sharders = node.NewPool(node.NodeTypeSharder)
		nd := node.Provider()
		nd.ID, nd.PublicKey, nd.Type = keys.node.id, keys.node.pk, node.NodeTypeMiner
		nd.N2NHost, nd.Host, nd.Port = "198.18.0.71", "198.18.0.71", 7071
		if err := mb.Miners.AddNode(nd); err != nil {
			panic(err)
		}
		mb.StartingRound, mb.MagicBlockNumber = 0, 1
		mb.Hash = encryption.Hash("c04-magic-block")
		engine.Chain.SetMagicBlock(mb)
	})
}

var genesisBal = func() [nUniverse]uint64 {
	var b [nUniverse]uint64
	b[iMiner], b[iStorage], b[iFaucet], b[iZcn], b[iVesting], b[iMultisig] = 1000e10, 1000e10, 100000e10, 500e10, 7, 0
	b[iOwner] = 10000e10
	for i := 0; i < nClients; i++ {
		b[iClient0+i] = 1000e10
	}
	b[iClient0+nClients-1] = 3 // a pauper
	for i := 0; i < nSigners; i++ {
		b[iSigner0+i] = 100e10
	}
	b[iWallet], b[iWallet2] = 500e10, 500e10
	b[iNode] = 10e10
	return b
}()

// ---------------------------------------------------------------------------------------------- lines

// payload: what the implementation side needs to re-run the real call (ignored by the model driver).
type payload struct {
	Fn    string            `json:"fn,omitempty"`
	In    string            `json:"in,omitempty"`
	Hash  string            `json:"h"`             // transaction hash (pool / allocation ids derive from it)
	Dt    int64             `json:"dt,omitempty"`  // seconds the clock advances before the transaction
	NB    bool              `json:"nb,omitempty"`  // seal the block first
	Ext   map[string]string `json:"ext,omitempty"` // index -> id, for ids outside the fixed universe first seen here
	Grant *grantInfo        `json:"g,omitempty"`   // what the GENERATOR knows about the free-storage marker (for the oracle)
	Sh    bool              `json:"sh,omitempty"`  // a marker-book shadow line follows this transaction
	Note  string            `json:"note,omitempty"`
}

type grantInfo struct {
	Assigner   string `json:"a"` // name
	SignerKey  int    `json:"k"` // which key signed the marker (index into keyring.signer)
	Tokens     uint64 `json:"t"` // free tokens of the marker, in coins
	Nonce      int64  `json:"n"`
	Recipient  int    `json:"r"`
	TamperedAt string `json:"x,omitempty"`
}

func encPayload(p payload) string {
	b, _ := json.Marshal(p)
	return base64.RawURLEncoding.EncodeToString(b)
}
func decPayload(s string) (payload, bool) {
	var p payload
	b, err := base64.RawURLEncoding.DecodeString(s)
	if err != nil || json.Unmarshal(b, &p) != nil {
		return p, false
	}
	return p, true
}

// ---------------------------------------------------------------------------------------------- world

type sigObs struct {
	Src      int
	Valid    bool
	From, To string
	Amount   uint64
	// multisig: the harness's own verdict on the wallet's authorisation (filled for votes on the multisig contract)
	MsChecked, MsSelfRegistered bool
	MsQuorum, MsRequired        int
}

// obs: what the implementation run observed for one op (side channel to the oracle, keyed by the op sequence).
type obs struct {
	kind         string // init | txn
	typ          string
	sender, to   int
	value, fee   uint64
	feeOn        bool
	fn           string
	status       string
	signed       []sigObs
	grantSeen    bool // a free_allocation_request
	grantValid   bool // ... whose marker the harness itself found valid
	grantMax     uint64
	msRegByOther bool // a multisig wallet was registered by a transaction whose sender is not the wallet
	grantReplay  bool // the marker's (assigner, nonce) is already in the harness's own book of redeemed markers
	dryErr       string
	hash         string
	recorded     string // the queue the dry run recorded now
	output       string
}

var side sync.Map // hashOps -> []obs

func hashOps(ops []string) string {
	h := sha256.New()
	for _, o := range ops {
		h.Write([]byte(o))
		h.Write([]byte{'\n'})
	}
	return hex.EncodeToString(h.Sum(nil)[:12])
}

type world struct {
	w          *engine.World
	wid        uint64
	lastDryErr string // error text of the last dry run ("" = the contract returned no error)
	feeOn      bool
	ext        map[string]int // id -> index (≥ extBase)
	extID      map[int]string
	known      map[string]bool // hex txn hashes that client-state leaves may carry
	leaves     map[string]string
	free       *freeBook // the harness's own bookkeeping of free-storage assigners (oracle side)
	ms         *msBook   // the harness own book of multisig registrations and votes (oracle side)
}

var (
	genesis     [2]*engine.World
	genesisOnce [2]sync.Once
)

func buildGenesis(fork bool) *engine.World {
	bal := map[string]currency.Coin{}
	for i := 0; i < nUniverse; i++ {
		bal[uid[i]] = currency.Coin(genesisBal[i])
	}
	w, err := engine.NewWorld(bal, func(sctx *cstate.StateContext) error {
		for _, f := range []func() error{
			func() error { return storagesc.InitPartitions(sctx) },
			func() error { return faucetsc.InitConfig(sctx) },
			func() error { return minersc.InitConfig(sctx) },
			func() error { return storagesc.InitConfig(sctx) },
			func() error { return vestingsc.InitConfig(sctx) },
			func() error { return zcnsc.InitConfig(sctx) },
		} {
			if err := f(); err != nil {
				return err
			}
		}
		if fork {
			for _, n := range []string{"demeter", "electra"} {
				if _, err := sctx.InsertTrieNode(cstate.NewHardFork(n, 0).GetKey(), cstate.NewHardFork(n, 0)); err != nil {
					return err
				}
			}
		}
		return nil
	})
	if err != nil {
		panic(err)
	}
	return w
}

func newWorld(feeOn, fork bool) *world {
	setup()
	fi := 0
	if fork {
		fi = 1
	}
	genesisOnce[fi].Do(func() { genesis[fi] = buildGenesis(fork) })
	g := genesis[fi]
	engine.SetFeeEnabled(feeOn)
	w := &engine.World{C: g.C, NDB: g.NDB, Prev: g.Prev, Round: 0, Now: g.Now}
	x := &world{w: w, wid: atomic.AddUint64(&worldCounter, 1), feeOn: feeOn, ext: map[string]int{}, extID: map[int]string{}, known: map[string]bool{}, free: newFreeBook(), ms: newMsBook()}
	x.nextBlock()
	x.known[encryption.Hash("verif-genesis-txn")] = true
	x.leaves = x.clientLeaves()
	return x
}

func initLine(feeOn, fork bool) string {
	f, k := "0", "0"
	if feeOn {
		f = "1"
	}
	if fork {
		k = "1"
	}
	parts := []string{"init", f, k}
	for i := 0; i < nUniverse; i++ {
		parts = append(parts, fmt.Sprintf("%d:%d:0", i, genesisBal[i]))
	}
	return strings.Join(parts, " ")
}

var worldCounter uint64

// nextBlock opens the next block. The chain's state cache is global and keyed by block hash, and a World built over
// the shared genesis (not through engine.NewWorld) has no identity of its own: give every block of every world a
// process-wide unique hash (and a block cache under that hash), or cached values leak from one case into another.
func (x *world) nextBlock() {
	x.w.NextBlock()
	b := x.w.B
	b.MinerID = uid[iNode]
	b.Hash = encryption.Hash(fmt.Sprintf("c04-block-%d-world-%d", b.Round, x.wid))
	x.w.BC = statecache.NewBlockCache(x.w.C.GetStateCache(), statecache.Block{Round: b.Round, Hash: b.Hash, PrevHash: b.PrevHash})
}

func (x *world) idOf(i int) string {
	if i >= 0 && i < nUniverse {
		return uid[i]
	}
	if s, ok := x.extID[i]; ok {
		return s
	}
	return encryption.Hash(fmt.Sprintf("c04-nobody-%d", i))
}

func (x *world) indexOf(id string) (int, bool) {
	for i := 0; i < nUniverse; i++ {
		if uid[i] == id {
			return i, true
		}
	}
	if i, ok := x.ext[id]; ok {
		return i, true
	}
	return 0, false
}

// clientLeaves: every leaf of the trie that is a client state: 56 bytes whose first 32 are the hash of a
// transaction we executed (or the genesis transaction). path -> "balance:nonce".
func (x *world) clientLeaves() map[string]string {
	lv, err := x.w.Leaves()
	if err != nil {
		panic(err)
	}
	res := map[string]string{}
	for p, v := range lv {
		if len(v) != 56 || !x.known[hex.EncodeToString(v[:32])] {
			continue
		}
		s := &state.State{}
		if s.Decode(v) != nil {
			continue
		}
		res[p] = fmt.Sprintf("%d:%d", uint64(s.Balance), s.Nonce)
	}
	return res
}

func (x *world) show() string {
	cur := x.clientLeaves()
	type row struct {
		i int
		s string
	}
	var rows []row
	tot := new(big.Int)
	stray := 0
	for p, v := range cur {
		b, _ := new(big.Int).SetString(strings.Split(v, ":")[0], 10)
		tot.Add(tot, b)
		if i, ok := x.indexOf(p); ok {
			rows = append(rows, row{i, fmt.Sprintf("%d:%s", i, v)})
		} else if x.leaves[p] != v {
			stray++
		}
	}
	for p := range x.leaves {
		if _, ok := cur[p]; !ok {
			if _, known := x.indexOf(p); !known {
				stray++
			}
		}
	}
	x.leaves = cur
	sort.Slice(rows, func(a, b int) bool { return rows[a].i < rows[b].i })
	parts := make([]string, len(rows))
	for i, r := range rows {
		parts[i] = r.s
	}
	return "a=" + strings.Join(parts, ",") + " s= tot=" + tot.String() + fmt.Sprintf(" x=%d", stray)
}

// mkTxn builds the real transaction of a line.
func (x *world) mkTxn(typ string, sender, to int, value, fee uint64, nonce int64, p payload) *transaction.Transaction {
	toID := x.idOf(to)
	t := &transaction.Transaction{}
	from := engine.Client{ID: x.idOf(sender)}
	if sender >= 0 && sender < nUniverse {
		from = ucl[sender]
	}
	t.ClientID = from.ID
	t.PublicKey = from.PublicKey
	t.ToClientID = toID
	t.Value = currency.Coin(value)
	t.Fee = currency.Coin(fee)
	t.Nonce = nonce
	t.CreationDate = x.w.Now
	t.ChainID = x.w.C.ID
	switch typ {
	case "sc":
		t.TransactionType = transaction.TxnTypeSmartContract
		in := p.In
		if in == "" {
			in = "null"
		}
		t.SmartContractData = &transaction.SmartContractData{FunctionName: p.Fn, InputData: json.RawMessage(in)}
		t.TransactionData = fmt.Sprintf(`{"name":%q,"input":%s}`, p.Fn, in)
		t.FunctionName = p.Fn
	case "send":
		t.TransactionType = transaction.TxnTypeSend
	case "data":
		t.TransactionType = transaction.TxnTypeData
		t.TransactionData = "c04"
	default:
		t.TransactionType = 77
	}
	t.Hash = p.Hash
	return t
}

// dryRun executes the contract on a throw-away context (built like updateState's) and returns what it queued.
func (x *world) dryRun(t *transaction.Transaction) (res string, signed []sigObs, newIDs []string) {
	x.lastDryErr = ""
	if t.TransactionType != transaction.TxnTypeSmartContract {
		return "-", nil, nil
	}
	cp := t.Clone()
	cp.SmartContractData = &transaction.SmartContractData{FunctionName: t.SmartContractData.FunctionName, InputData: append(json.RawMessage(nil), t.SmartContractData.InputData...)}
	cp.FunctionName = t.FunctionName
	cp.PublicKey = t.PublicKey
	tc := statecache.NewTransactionCache(x.w.BC)
	mpt := chain.CreateTxnMPT(x.w.State, tc)
	sctx := x.w.C.NewStateContext(x.w.B, mpt, cp, nil)
	var err error
	func() {
		defer func() {
			if r := recover(); r != nil {
				err = fmt.Errorf("panic: %v", r)
			}
		}()
		_, err = x.w.C.ExecuteSmartContract(context.Background(), cp, sctx)
	}()
	if err != nil {
		x.lastDryErr = err.Error()
	}
	switch {
	case err == nil:
	case err == context.DeadlineExceeded || err == transaction.ErrSmartContractContext || err == util.ErrNodeNotFound || err == context.Canceled || cstate.ErrInvalidState(err):
		return "int", nil, nil
	default:
		return "chg", nil, nil
	}
	var parts []string
	idx := func(id string) int {
		if i, ok := x.indexOf(id); ok {
			return i
		}
		i := extBase + len(x.ext)
		x.ext[id] = i
		x.extID[i] = id
		newIDs = append(newIDs, id)
		return i
	}
	for _, tr := range sctx.GetTransfers() {
		parts = append(parts, fmt.Sprintf("t,%d,%d,%d", idx(tr.ClientID), idx(tr.ToClientID), uint64(tr.Amount)))
	}
	for _, st := range sctx.GetSignedTransfers() {
		parts = append(parts, fmt.Sprintf("s,%d,%d,%d", idx(st.ClientID), idx(st.ToClientID), uint64(st.Amount)))
		// the harness's own check of "the transfer carries that account's valid signature"
		ok := st.VerifySignature(true) == nil && st.Amount > 0
		signed = append(signed, sigObs{Src: idx(st.ClientID), Valid: ok, From: st.ClientID, To: st.ToClientID, Amount: uint64(st.Amount)})
	}
	if len(parts) == 0 {
		return "ok", signed, newIDs
	}
	return "ok|" + strings.Join(parts, ";"), signed, newIDs
}

func (x *world) exec(t *transaction.Transaction) string {
	var err error
	func() {
		defer func() {
			if r := recover(); r != nil {
				err = fmt.Errorf("panic: %v", r)
			}
		}()
		_, err = x.w.Exec(t)
	}()
	if err != nil {
		return "rejected"
	}
	x.known[t.Hash] = true
	switch t.Status {
	case transaction.TxnSuccess:
		return "success"
	case transaction.TxnError:
		return "failed"
	}
	return fmt.Sprintf("status%d", t.Status)
}

// ---------------------------------------------------------------------------------------------- implementation

type parsed struct {
	typ        string
	sender, to int
	value, fee uint64
	nonce      int64
	res        string
	p          payload
}

func parseTxn(op string) (parsed, bool) {
	w := strings.Fields(op)
	var r parsed
	if len(w) != 10 || w[0] != "txn" {
		return r, false
	}
	var err [5]error
	r.typ = w[1]
	r.sender, err[0] = strconv.Atoi(w[2])
	r.to, err[1] = strconv.Atoi(w[3])
	r.value, err[2] = strconv.ParseUint(w[5], 10, 64)
	r.fee, err[3] = strconv.ParseUint(w[6], 10, 64)
	r.nonce, err[4] = strconv.ParseInt(w[7], 10, 64)
	for _, e := range err {
		if e != nil {
			return r, false
		}
	}
	r.res = w[8]
	var ok bool
	r.p, ok = decPayload(w[9])
	return r, ok
}

// applyLine runs one txn line on the world; returns the answer line and the observation.
func (x *world) applyLine(pl parsed) (string, obs) {
	for k, id := range pl.p.Ext {
		i, _ := strconv.Atoi(k)
		x.ext[id] = i
		x.extID[i] = id
	}
	if pl.p.NB {
		x.nextBlock()
	}
	if pl.p.Dt > 0 {
		x.w.Now += commonTimestamp(pl.p.Dt)
		x.w.B.CreationDate = x.w.Now
	}
	t := x.mkTxn(pl.typ, pl.sender, pl.to, pl.value, pl.fee, pl.nonce, pl.p)
	o := obs{kind: "txn", typ: pl.typ, sender: pl.sender, to: pl.to, value: pl.value, fee: pl.fee, feeOn: x.feeOn, fn: pl.p.Fn}
	o.recorded, o.signed, _ = x.dryRun(t)
	o.dryErr, o.hash = x.lastDryErr, pl.p.Hash
	if pl.typ == "sc" && pl.to == iStorage && pl.p.Fn == "free_allocation_request" {
		o.grantSeen = true
		o.grantValid, o.grantMax = x.free.judge(pl.sender, pl.p.In, x)
		o.grantReplay = x.free.alreadyRedeemed(pl.p.In)
	}
	o.status = x.exec(t)
	o.output = t.TransactionOutput
	x.free.observe(pl, o.status, x)
	o.msRegByOther = x.ms.observe(pl, o.status, x)
	if pl.typ == "sc" && pl.to == iMultisig && pl.p.Fn == "vote" {
		var v voteJSON
		if json.Unmarshal([]byte(pl.p.In), &v) == nil {
			for k := range o.signed {
				sg := &o.signed[k]
				sg.MsChecked = true
				sg.MsSelfRegistered, sg.MsQuorum, sg.MsRequired = x.ms.authorised(sg.From, sg.To, sg.Amount, v.ProposalID)
			}
		}
	}
	return o.status + " " + x.show(), o
}

func impl(ops []string) []string {
	outs := make([]string, len(ops))
	observations := make([]obs, len(ops))
	var x *world
	staleShadow := false
	for i, op := range ops {
		func() {
			defer func() {
				if r := recover(); r != nil {
					outs[i] = fmt.Sprintf("panic %v", r)
				}
			}()
			w := strings.Fields(op)
			if len(w) >= 3 && w[0] == "init" {
				x = newWorld(w[1] == "1", w[2] == "1")
				outs[i] = "ok"
				observations[i] = obs{kind: "init", feeOn: w[1] == "1"}
				return
			}
			if len(w) >= 2 && (w[0] == "fsa" || w[0] == "frm") && x != nil {
				// shadow line of the transaction just before it: the book's verdict, read off the real contract's answer
				ans, ok := shadowAnswer(w, i, ops, observations)
				if !ok {
					staleShadow = true
				}
				outs[i] = ans
				return
			}
			pl, ok := parseTxn(op)
			if !ok || x == nil {
				outs[i] = "bad-op"
				return
			}
			outs[i], observations[i] = x.applyLine(pl)
			if pl.p.Sh && (i+1 >= len(ops) || !(strings.HasPrefix(ops[i+1], "fsa ") || strings.HasPrefix(ops[i+1], "frm ")) || !strings.HasSuffix(ops[i+1], " "+pl.p.Hash[:12])) {
				staleShadow = true // the shrinker cut the shadow line off its transaction
			}
			if os.Getenv("C04_DUMP") != "" {
				o := observations[i]
				fmt.Fprintf(os.Stderr, "%s\n    -> %s recorded=%s signed=%v grant=%v/%v out=%.200s\n    %s\n", describe(op), o.status, o.recorded, o.signed, o.grantSeen, o.grantValid, o.output, outs[i])
			}
		}()
	}
	// A line carries the queue the contract recorded when the case was GENERATED. In a sub-sequence tried by the
	// shrinker the same call may behave differently, so the line is stale and a model/implementation difference on it
	// means nothing: such a candidate answers with the model's own output (no difference, no oracle verdict), which
	// makes the shrinker discard it. Generated and fixed cases themselves are never masked.
	h := hashOps(ops)
	if _, ok := genuine.Load(h); !ok {
		for i, op := range ops {
			if pl, ok := parseTxn(op); (ok && pl.typ == "sc" && observations[i].kind == "txn" && observations[i].recorded != pl.res) || (staleShadow && i == 0) {
				if mo, err := corr.RunModel(zdrvDir(), "C04", ops); err == nil {
					side.Delete(h)
					return mo
				}
				break
			}
		}
	}
	side.Store(h, observations)
	return outs
}

var genuine sync.Map // hashOps of the generated and fixed cases

// shadowAnswer: the verdict of the real contract on the registration / redemption of the transaction line right
// before this shadow line, in the vocabulary of Model/FreeMarkers.lean. ok=false: the shadow line does not follow
// its own transaction (a shrinker's sub-sequence).
func shadowAnswer(w []string, i int, ops []string, observations []obs) (string, bool) {
	ref := w[len(w)-1]
	if i == 0 || observations[i-1].kind != "txn" || !strings.HasPrefix(observations[i-1].hash, ref) {
		return "no-transaction", false
	}
	o := observations[i-1]
	e := o.dryErr
	has := func(sub string) bool { return strings.Contains(e, sub) }
	switch w[0] {
	case "fsa":
		switch {
		case e == "" && o.status == "success":
			return "ok", true
		case has("only the owner"):
			return "rej-owner", true
		case has("total tokens limit"):
			return "rej-total-cap", true
		case has("individual allocation token limit"):
			return "rej-individual-cap", true
		case e == "": // accepted by the contract, the transaction itself was not applied: the generator emits no shadow
			// line for that, so this is a shrinker's sub-sequence in which the transaction lost its footing (nonce)
			return "not-applied", false
		}
		return "other:" + strings.ReplaceAll(e, " ", "_"), true
	case "frm":
		// `later` was recorded from the transaction's status: when it no longer matches, the line is stale
		fresh := len(w) >= 9 && (w[7] == "1") == (o.status == "success")
		ans, _ := frmAnswer(e, o.status)
		return ans, fresh
	}
	return "bad-op", true
}

func frmAnswer(e, status string) (string, bool) {
	has := func(sub string) bool { return strings.Contains(e, sub) }
	switch {
	case e == "" && status == "success":
		return "accept", true
	case e == "":
		return "passed-failed-later", true
	case has("only by its recipient"):
		return "rej-recipient", true
	case has("error getting assigner details"):
		return "rej-unknown-assigner", true
	case has("failed to verify signature"):
		return "rej-signature", true
	case has("exceeded total permitted"):
		return "rej-total", true
	case has("exceeded permitted free storage"):
		return "rej-individual", true
	case has("already redeemed"):
		return "rej-nonce", true
	}
	return "passed-failed-later", true // the marker was validated, a later step of the call failed
}

func zdrvDir() string {
	if f := flag.Lookup("zdrv"); f != nil {
		return f.Value.String()
	}
	return "/verif/lean/.lake/build/bin"
}

// ---------------------------------------------------------------------------------------------- oracle

type acct struct {
	bal   *big.Int
	nonce int64
}

func parseAccts(out string) (status string, m map[int]acct, ok bool) {
	f := strings.Fields(out)
	if len(f) != 5 || !strings.HasPrefix(f[1], "a=") {
		return "", nil, false
	}
	m = map[int]acct{}
	as := strings.TrimPrefix(f[1], "a=")
	if as != "" {
		for _, p := range strings.Split(as, ",") {
			q := strings.Split(p, ":")
			if len(q) != 3 {
				return "", nil, false
			}
			id, _ := strconv.Atoi(q[0])
			b, _ := new(big.Int).SetString(q[1], 10)
			n, _ := strconv.ParseInt(q[2], 10, 64)
			m[id] = acct{b, n}
		}
	}
	return f[0], m, true
}

func oracle(ops, outs []string) *corr.Violation {
	mk := func(sig, msg string, i int) *corr.Violation {
		return &corr.Violation{Signature: "C04:" + sig, Message: fmt.Sprintf("op %d %s: %s", i, describe(ops[i]), msg), Ops: ops[:i+1], Impl: outs[:i+1]}
	}
	v, ok := side.Load(hashOps(ops))
	if !ok {
		return nil
	}
	observations := v.([]obs)
	prev := map[int]acct{}
	for i := 0; i < nUniverse; i++ {
		prev[i] = acct{new(big.Int).SetUint64(genesisBal[i]), 0}
	}
	get := func(m map[int]acct, i int) *big.Int {
		if a, ok := m[i]; ok {
			return a.bal
		}
		return new(big.Int)
	}
	var deferred *corr.Violation // the signed-transfer finding is reported only if nothing else is wrong in this run
	for i := range ops {
		o := observations[i]
		if o.kind != "txn" {
			continue
		}
		status, cur, ok := parseAccts(outs[i])
		if !ok {
			return mk("unparsable-answer", outs[i], i)
		}
		if o.msRegByOther {
			return mk("multisig-wallet-registered-by-other", "a multisig wallet was registered (or replaced) over an account by a transaction that account did not send: its balance is now at the mercy of somebody else's signer keys", i)
		}
		if status != "rejected" {
			for _, sg := range o.signed {
				if !sg.MsChecked {
					continue
				}
				switch {
				case !sg.MsSelfRegistered:
					return mk("multisig-wallet-registered-by-other", fmt.Sprintf("account %d is debited %d by a multisig transfer although the wallet registration over it was not sent by that account", sg.Src, sg.Amount), i)
				case sg.MsRequired < 2 || sg.MsQuorum < sg.MsRequired:
					return mk("multisig-transfer-without-quorum-for-it", fmt.Sprintf("account %d is debited %d (to %.8s…) by a multisig transfer that only %d of its registered signers signed (required %d): the other votes of the proposal were signed over a different transfer", sg.Src, sg.Amount, sg.To, sg.MsQuorum, sg.MsRequired), i)
				}
			}
		}
		if o.grantSeen && o.grantReplay && status == "success" {
			return mk("marker-nonce-honoured-twice", "a free_allocation_request succeeded on a marker whose (assigner, nonce) had already been redeemed earlier in this history (each signed authorisation is honoured at most once, whatever registrations came in between)", i)
		}
		ids := map[int]bool{}
		for k := range prev {
			ids[k] = true
		}
		for k := range cur {
			ids[k] = true
		}
		var order []int
		for k := range ids {
			order = append(order, k)
		}
		sort.Ints(order)
		fee := uint64(0)
		if o.feeOn {
			fee = o.fee
		}
		allowance := new(big.Int).Add(new(big.Int).SetUint64(o.value), new(big.Int).SetUint64(fee))
		for _, id := range order {
			loss := new(big.Int).Sub(get(prev, id), get(cur, id))
			if loss.Sign() <= 0 {
				continue
			}
			who := fmt.Sprintf("account %d lost %s", id, loss)
			switch {
			case status == "rejected":
				return mk("rejected-txn-debited", who+" in a transaction that was rejected", i)
			case id == o.sender:
				if loss.Cmp(allowance) > 0 {
					return mk("sender-overdebited", fmt.Sprintf("the sender lost %s, more than value %d + fee %d", loss, o.value, fee), i)
				}
			case o.typ == "sc" && id == o.to:
				// the called contract's own wallet
			case o.typ == "sc" && signedBy(o.signed, id) == 1:
				// a signed transfer whose signature verifies for this account
			case o.typ == "sc" && signedBy(o.signed, id) == -1:
				sig := "invalid-signed-transfer-applied"
				if id == iWallet2 {
					// the harness's deliberately mis-registered wallet: its signers are valid keys but not shares of its own key
					sig = "invalid-signed-transfer-applied:wallet-signers-are-not-key-shares"
					if deferred != nil {
						continue
					}
					deferred = mk(sig, who+" through a signed transfer whose signature does NOT verify for that account (the engine validates before the contract runs, never after)", i)
					continue
				}
				return mk(sig, who+" through a signed transfer whose signature does NOT verify for that account", i)
			case o.grantSeen && id == iOwner:
				if !o.grantValid {
					return mk("free-grant-invalid-marker", who+" (storage owner) under a marker the harness finds invalid", i)
				}
				if loss.Cmp(new(big.Int).SetUint64(o.grantMax)) > 0 {
					return mk("free-grant-exceeds-marker", fmt.Sprintf("%s (storage owner), more than the marker's %d", who, o.grantMax), i)
				}
			case isContract[id]:
				return mk("foreign-contract-wallet-debited", who+": a contract wallet other than the called contract's", i)
			default:
				return mk("third-party-debited", who+" without being the sender, the called contract, a valid signer or the free-grant source", i)
			}
		}
		prev = cur
	}
	return deferred
}

func signedBy(s []sigObs, id int) int {
	r := 0
	for _, x := range s {
		if x.Src == id {
			if x.Valid && r == 0 {
				r = 1
			}
			if !x.Valid {
				r = -1
			}
		}
	}
	return r
}

func describe(op string) string {
	pl, ok := parseTxn(op)
	if !ok {
		return strconv.Quote(op)
	}
	in := pl.p.In
	if len(in) > 160 {
		in = in[:160] + "…"
	}
	return fmt.Sprintf("[%s sender=%d to=%d value=%d fee=%d nonce=%d fn=%s in=%s res=%s %s]", pl.typ, pl.sender, pl.to, pl.value, pl.fee, pl.nonce, pl.p.Fn, in, pl.res, pl.p.Note)
}

// ---------------------------------------------------------------------------------------------- main

var opKinds sync.Map

func main() {
	setup()
	corr.Main(corr.Prop{
		ID: "C04", Model: "C04", Gen: gen, Impl: impl, Oracle: oracle, Serial: true,
		Cases: func(th bool) int {
			if th {
				return 400
			}
			return 60
		},
		Fixed: fixedCases(),
		Nontrivial: func(ops, outs []string) bool {
			k := map[string]bool{}
			for _, o := range outs {
				k[strings.Fields(o + " x")[0]] = true
			}
			return len(ops) >= 5 && len(k) >= 3
		},
		Extra: func() map[string]interface{} {
			m := map[string]int{}
			opKinds.Range(func(k, v interface{}) bool { m[k.(string)] = *(v.(*int)); return true })
			return map[string]interface{}{"real_calls_by_contract_function_and_status": m}
		},
		DiffSignature: func(d *corr.Disagreement) string {
			if d.FirstDiff >= 0 && d.FirstDiff < len(d.Ops) {
				if pl, ok := parseTxn(d.Ops[d.FirstDiff]); ok {
					return fmt.Sprintf("C04:diff:%s:%d.%s", pl.typ, pl.to, pl.p.Fn)
				}
			}
			return "C04:diff"
		},
	})
	_ = rand.Int
}
