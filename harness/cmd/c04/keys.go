package main

import (
	"encoding/hex"
	"fmt"
	"strings"

	"0chain.net/core/common"
	"0chain.net/core/encryption"
	"github.com/herumi/bls-go-binary/bls"
)

func commonTimestamp(s int64) common.Timestamp { return common.Timestamp(s) }

// blsKey: a deterministic BLS key (the same in every process, so that replay files stay valid).
type blsKey struct {
	sk  bls.SecretKey
	k   *encryption.BLS0ChainScheme
	pk  string // hex public key
	id  string // client id = hash(public key bytes)
	tid string // threshold id (hex) when the key is a share
}

func keyFromSecret(sk bls.SecretKey) *blsKey {
	k := encryption.NewBLS0ChainScheme()
	if err := k.ReadKeys(strings.NewReader(sk.GetPublicKey().SerializeToHexStr() + "\n" + hex.EncodeToString(sk.GetLittleEndian()) + "\n")); err != nil {
		panic(err)
	}
	pkb, err := hex.DecodeString(k.GetPublicKey())
	if err != nil {
		panic(err)
	}
	return &blsKey{sk: sk, k: k, pk: k.GetPublicKey(), id: encryption.Hash(pkb)}
}

func detKey(seed int) *blsKey {
	var sk bls.SecretKey
	if err := sk.SetDecString(fmt.Sprint(7919*seed + 104729)); err != nil {
		panic(err)
	}
	return keyFromSecret(sk)
}

func (b *blsKey) sign(hash string) string {
	s, err := b.k.Sign(hash)
	if err != nil {
		panic(err)
	}
	return s
}

type keyring struct {
	group  *blsKey    // the multisig wallet's own key
	shares [3]*blsKey // 2-of-3 threshold shares of `group`
	group2 *blsKey    // a second wallet key ...
	signer [3]*blsKey // free-storage assigners, zcn authorizers, strangers
	node   *blsKey    // the miner node
}

func newKeyring() *keyring {
	kr := &keyring{group: detKey(1), group2: detKey(2), node: detKey(3)}
	for i := 0; i < 3; i++ {
		kr.signer[i] = detKey(10 + i)
		kr.signer[i].tid = shareID(i + 1)
	}
	// deterministic 2-of-3 sharing of the group key: polynomial (group secret, fixed coefficient)
	var c1 bls.SecretKey
	if err := c1.SetDecString("987654321987654321"); err != nil {
		panic(err)
	}
	msk := []bls.SecretKey{kr.group.sk, c1}
	for i := 0; i < 3; i++ {
		var id bls.ID
		if err := id.SetDecString(fmt.Sprint(i + 1)); err != nil {
			panic(err)
		}
		var sk bls.SecretKey
		if err := sk.Set(msk, &id); err != nil {
			panic(err)
		}
		kr.shares[i] = keyFromSecret(sk)
		kr.shares[i].tid = id.GetHexString()
	}
	return kr
}

func shareID(i int) string {
	var id bls.ID
	if err := id.SetDecString(fmt.Sprint(i)); err != nil {
		panic(err)
	}
	return id.GetHexString()
}
