package main

import (
	"encoding/json"

	"0chain.net/chaincore/state"
	"github.com/0chain/common/core/currency"
)

// ---------------------------------------------------------------------------------------------- multisig book
//
// The harness's OWN statement of when a multisig wallet authorised a transfer, independent of the contract:
// the wallet registered ITSELF (the register transaction was sent by the wallet's own id), and at least num_required
// of the signers IT registered each sent a vote whose signature verifies under that signer's key over EXACTLY the
// executed transfer (same wallet, recipient and amount) for that proposal id.

type msWallet struct {
	by       string          // id of the sender of the successful register transaction
	signers  map[string]bool // registered signer public keys
	required int
}

type msVote struct {
	signerPK    string
	to          string
	amount      uint64
	signatureOK bool
}

type msBook struct {
	wallets map[string]*msWallet // wallet client id -> registration
	votes   map[string][]msVote  // wallet id | proposal id -> successful votes
}

func newMsBook() *msBook {
	return &msBook{wallets: map[string]*msWallet{}, votes: map[string][]msVote{}}
}

type voteJSON struct {
	ProposalID string `json:"proposal_id"`
	Transfer   struct {
		From   string `json:"from"`
		To     string `json:"to"`
		Amount uint64 `json:"amount"`
	} `json:"transfer"`
	Signature string `json:"signature"`
}

// observe: a SUCCESSFUL register / vote transaction, as the harness reads it from the transaction's own input.
// Returns true when a wallet was registered by somebody other than the wallet itself.
func (mb *msBook) observe(pl parsed, status string, x *world) (registeredByOther bool) {
	if status != "success" || pl.typ != "sc" || pl.to != iMultisig {
		return false
	}
	sender := x.idOf(pl.sender)
	switch pl.p.Fn {
	case "register":
		var w struct {
			ClientID         string   `json:"client_id"`
			SignerPublicKeys []string `json:"signer_public_keys"`
			NumRequired      int      `json:"num_required"`
		}
		if json.Unmarshal([]byte(pl.p.In), &w) != nil || w.ClientID == "" {
			return false
		}
		rec := &msWallet{by: sender, signers: map[string]bool{}, required: w.NumRequired}
		for _, k := range w.SignerPublicKeys {
			rec.signers[k] = true
		}
		mb.wallets[w.ClientID] = rec
		return sender != w.ClientID
	case "vote":
		var v voteJSON
		if json.Unmarshal([]byte(pl.p.In), &v) != nil {
			return false
		}
		pk := ""
		if pl.sender >= 0 && pl.sender < nUniverse {
			pk = ucl[pl.sender].PublicKey
		}
		st := state.SignedTransfer{Transfer: state.Transfer{ClientID: v.Transfer.From, ToClientID: v.Transfer.To, Amount: currency.Coin(v.Transfer.Amount)},
			SchemeName: "bls0chain", PublicKey: pk, Sig: v.Signature}
		ok := pk != "" && safeVerify(st)
		key := v.Transfer.From + "|" + v.ProposalID
		mb.votes[key] = append(mb.votes[key], msVote{signerPK: pk, to: v.Transfer.To, amount: v.Transfer.Amount, signatureOK: ok})
	}
	return false
}

func safeVerify(st state.SignedTransfer) (ok bool) {
	defer func() {
		if recover() != nil {
			ok = false
		}
	}()
	return st.VerifySignature(false) == nil
}

// authorised: did wallet `from` authorise the transfer (from -> to, amount) under proposal `proposal`?
func (mb *msBook) authorised(from, to string, amount uint64, proposal string) (selfRegistered bool, quorum, required int) {
	w := mb.wallets[from]
	if w == nil {
		return false, 0, 0
	}
	seen := map[string]bool{}
	for _, v := range mb.votes[from+"|"+proposal] {
		if v.signatureOK && w.signers[v.signerPK] && !seen[v.signerPK] && v.to == to && v.amount == amount {
			seen[v.signerPK] = true
		}
	}
	return w.by == from, len(seen), w.required
}
