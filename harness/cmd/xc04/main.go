// xc04: translator for C04 (transactions debit only what their sender authorised).
//
// Reads ALL non-test packages of module 0chain.net under <gosrc> and writes lean/ZChain/Generated/C04.lean:
//
//	sites            every call of AddTransfer / AddSignedTransfer / AddMint and every construction of
//	                 state.Transfer / state.NewTransfer / state.SignedTransfer / state.NewMint, with the CLASS of the
//	                 transfer's source expression and of its amount expression (one row per resolved alternative);
//	clientWrites     every call of StateContext(I).SetClientState and every Insert/Delete on a MerklePatriciaTrie(I)
//	                 (the only two ways to write a client-state leaf);
//	scIds            the argument of every smartcontractinterface.NewSC(..) (what `sc.ID` evaluates to);
//	minters          the approvedMinters table with the contract whose ADDRESS constant equals each entry;
//	txnWrites        every assignment to a field of transaction.Transaction outside the engine packages;
//	txnMakes         every construction of a transaction.Transaction in a contract package;
//	transferWrites   every assignment to a field of an already built state.Transfer / SignedTransfer (must be none);
//	validateCalls    where the engine (chain.updateState) calls StateContext.Validate relative to the contract run.
//
// Source classes: txnSender (X.ClientID of the executing transaction) · contractAddress (X.ToClientID of the executing
// transaction, the package's own ADDRESS constant, `.ID` of the embedded smartcontractinterface.SmartContract) ·
// approvedMinter (result of chain/state.GetMinter) · signed (inside a SignedTransfer) · freeGrant (allow-list, with the
// dominating guard it relies on verified syntactically) · tool (benchmark/test-helper code that no transaction reaches) ·
// unreachable (a parameter of a function nobody calls) · foreignContract · other.
// A parameter, struct field or local variable is CHASED: all expressions of one transfer (source, amount) are
// substituted jointly through every call site of the enclosing function / every composite literal of the struct / the
// defining assignment, until they reach one of the classes (depth ≤ 8). Fail closed: a source that ends in `other`
// (and is not in the commented allow-list below) makes the program exit 1.
package main

import (
	"bytes"
	"fmt"
	"go/ast"
	"go/constant"
	"go/parser"
	"go/printer"
	"go/token"
	"go/types"
	"os"
	"path/filepath"
	"regexp"
	"sort"
	"strings"
	"time"

	"golang.org/x/tools/go/packages"
)

const (
	mod       = "0chain.net"
	pState    = mod + "/chaincore/state"
	pCState   = mod + "/chaincore/chain/state"
	pChain    = mod + "/chaincore/chain"
	pTxn      = mod + "/chaincore/transaction"
	pSCI      = mod + "/chaincore/smartcontractinterface"
	pUtilMPT  = "github.com/0chain/common/core/util"
	maxDepth  = 8
	hdirConst = "/verif/harness"
)

// ---------------------------------------------------------------------------------------------- allow-list
//
// A source expression that the chase cannot reduce to a class is accepted ONLY if it is listed here; the entry names
// the side condition the site relies on, and the extractor verifies the syntactic part of it (the guard call
// dominates the expression: it is an earlier top-level `if err := <recv>.<method>(..); err != nil { return .. }`
// statement of the same function). Removing the guard from the Go source turns the class into `other` (exit 1).
type allow struct {
	pkg, fn, expr string // package (relative), enclosing function, source text of the expression
	class         string
	guardRecv     string // named type of the guard's receiver
	guardMethod   string
	why           string
}

var allowList = []allow{
	// free-storage grant: the write-pool part of a free allocation is paid from the storage contract OWNER's wallet
	// (conf.OwnerId); it relies on `assigner.validate(marker, ..)` having verified the assigner's signature on the
	// marker, the assigner's individual/total limits and the marker nonce before any transfer is built.
	{pkg: "smartcontract/storagesc", fn: "StorageSmartContract.freeAllocationRequest", expr: "conf.OwnerId", class: "freeGrant",
		guardRecv: "freeStorageAssigner", guardMethod: "validate",
		why: "free-storage grant: owner's wallet pays under a marker validated by freeStorageAssigner.validate"},
}

// ---------------------------------------------------------------------------------------------- world

var fset = token.NewFileSet()

func die(pos token.Pos, f string, a ...interface{}) {
	p := ""
	if pos.IsValid() {
		p = fset.Position(pos).String() + ": "
	}
	fmt.Fprintf(os.Stderr, "xc04: %s%s\n", p, fmt.Sprintf(f, a...))
	os.Exit(1)
}

func src(n ast.Node) string {
	var b bytes.Buffer
	printer.Fprint(&b, fset, n)
	return strings.Join(strings.Fields(b.String()), " ")
}

type fctx struct {
	pkg  *packages.Package
	decl *ast.FuncDecl // nil for package-level initialisers
	file *ast.File
}

func (c *fctx) rel() string { return strings.TrimPrefix(c.pkg.PkgPath, mod+"/") }
func (c *fctx) name() string {
	if c.decl == nil {
		return "<init>"
	}
	if c.decl.Recv != nil && len(c.decl.Recv.List) == 1 {
		t := c.decl.Recv.List[0].Type
		if s, ok := t.(*ast.StarExpr); ok {
			t = s.X
		}
		if id, ok := t.(*ast.Ident); ok {
			return id.Name + "." + c.decl.Name.Name
		}
	}
	return c.decl.Name.Name
}
func (c *fctx) fileBase() string { return filepath.Base(fset.Position(c.file.Pos()).Filename) }

type callSite struct {
	ctx    *fctx
	call   *ast.CallExpr
	fn     *types.Func
	inLoop bool
}
type litSite struct {
	ctx *fctx
	lit *ast.CompositeLit
}
type assignSite struct {
	ctx *fctx
	rhs ast.Expr
}

type world struct {
	pkgs     []*packages.Package
	calls    map[string][]*callSite   // callee name -> call sites
	lits     map[string][]*litSite    // "pkgpath.Type" -> composite literals
	fassign  map[*types.Var][]*assignSite
	funcVals map[*types.Func]bool // function objects used other than as a callee
	decoded  map[string]bool      // "pkgpath.Type": a value of the type is handed to a decoder somewhere (its fields may come from input/state)
	scID     *types.Var           // field smartcontractinterface.SmartContract.ID
	txnType  types.Type
}

var w = &world{decoded: map[string]bool{}, calls: map[string][]*callSite{}, lits: map[string][]*litSite{}, fassign: map[*types.Var][]*assignSite{}, funcVals: map[*types.Func]bool{}}

// dirsWithKeywords: phase 1 — a purely syntactic sweep over every non-test file of the module to decide which
// packages have to be type-checked (loading all 88 packages with types costs > 25 s).
func phase1(gosrc string) (paths []string, nameIndex map[string]map[string]bool) {
	nameIndex = map[string]map[string]bool{} // identifier in call position -> set of import paths
	seen := map[string]bool{}
	err := filepath.Walk(gosrc, func(p string, fi os.FileInfo, err error) error {
		if err != nil {
			return err
		}
		if fi.IsDir() {
			if strings.HasPrefix(fi.Name(), ".") || fi.Name() == "testdata" || fi.Name() == "vendor" {
				return filepath.SkipDir
			}
			return nil
		}
		if !strings.HasSuffix(p, ".go") || strings.HasSuffix(p, "_test.go") {
			return nil
		}
		f, err := parser.ParseFile(token.NewFileSet(), p, nil, parser.SkipObjectResolution)
		if err != nil {
			die(token.NoPos, "parse %s: %v", p, err)
		}
		dir, _ := filepath.Rel(gosrc, filepath.Dir(p))
		ip := mod + "/" + filepath.ToSlash(dir)
		if dir == "." {
			ip = mod
		}
		hit := false
		mentionsMPT, insDel := false, false
		ast.Inspect(f, func(n ast.Node) bool {
			switch x := n.(type) {
			case *ast.CallExpr:
				nm := ""
				switch f := x.Fun.(type) {
				case *ast.Ident:
					nm = f.Name
				case *ast.SelectorExpr:
					nm = f.Sel.Name
				}
				if nm == "" {
					return true
				}
				if nameIndex[nm] == nil {
					nameIndex[nm] = map[string]bool{}
				}
				nameIndex[nm][ip] = true
				switch nm {
				case "AddTransfer", "AddSignedTransfer", "AddMint", "NewTransfer", "NewMint", "NewSC":
					hit = true
				case "SetClientState":
					if len(x.Args) == 2 { // StateContext.SetClientState(id, state); Block.SetClientState(mpt) has one argument
						hit = true
					}
				case "Insert", "Delete":
					insDel = true
				case "GetState":
					mentionsMPT = true
				}
			case *ast.CompositeLit:
				if s, ok := x.Type.(*ast.SelectorExpr); ok && (s.Sel.Name == "Transfer" || s.Sel.Name == "SignedTransfer" || s.Sel.Name == "Mint") {
					if id, ok := s.X.(*ast.Ident); ok && id.Name == "state" {
						hit = true
					}
				}
				if id, ok := x.Type.(*ast.Ident); ok && (id.Name == "SignedTransfer" || id.Name == "Mint") {
					hit = true
				}
			case *ast.Ident:
				if strings.Contains(x.Name, "MerklePatriciaTrie") {
					mentionsMPT = true
				}
			}
			return true
		})
		if mentionsMPT && insDel {
			hit = true
		}
		if hit && !seen[ip] {
			seen[ip] = true
			paths = append(paths, ip)
		}
		return nil
	})
	if err != nil {
		die(token.NoPos, "walk: %v", err)
	}
	sort.Strings(paths)
	return
}

func load(gosrc string, paths []string) {
	hdir := os.Getenv("VERIF_HARNESS")
	if hdir == "" {
		hdir = hdirConst
	}
	var flags []string
	tmp := ""
	if gosrc != "/repo/code/go/0chain.net" {
		b, err := os.ReadFile(filepath.Join(hdir, "go.mod"))
		if err != nil {
			die(token.NoPos, "%v", err)
		}
		s := strings.ReplaceAll(string(b), "/repo/code/go/0chain.net", gosrc)
		s = strings.ReplaceAll(s, "./third_party/grocksdb", filepath.Join(hdir, "third_party/grocksdb"))
		tmp, err = os.MkdirTemp("", "xc04-mod-")
		if err != nil {
			die(token.NoPos, "%v", err)
		}
		defer os.RemoveAll(tmp)
		os.WriteFile(filepath.Join(tmp, "go.mod"), []byte(s), 0o644)
		sum, _ := os.ReadFile(filepath.Join(hdir, "go.sum"))
		os.WriteFile(filepath.Join(tmp, "go.sum"), sum, 0o644)
		flags = append(flags, "-modfile="+filepath.Join(tmp, "go.mod"))
	}
	cfg := &packages.Config{
		Mode: packages.NeedName | packages.NeedFiles | packages.NeedSyntax | packages.NeedTypes | packages.NeedTypesInfo | packages.NeedImports,
		Dir:  hdir, Fset: fset, BuildFlags: flags,
		Env: append(os.Environ(), "GOFLAGS=-mod=mod", "GOWORK=off", "GOPROXY=off", "GOSUMDB=off", "GOTOOLCHAIN=local"),
	}
	pkgs, err := packages.Load(cfg, paths...)
	if err != nil {
		die(token.NoPos, "load: %v", err)
	}
	for _, p := range pkgs {
		if len(p.Errors) > 0 {
			die(token.NoPos, "package %s does not type-check: %v", p.PkgPath, p.Errors[0])
		}
		for _, f := range p.GoFiles {
			if !strings.HasPrefix(f, gosrc+"/") {
				die(token.NoPos, "package %s loaded from %s, expected under %s", p.PkgPath, f, gosrc)
			}
		}
	}
	sort.Slice(pkgs, func(i, j int) bool { return pkgs[i].PkgPath < pkgs[j].PkgPath })
	w.pkgs = pkgs
}

func isGenerated(f *ast.File) bool {
	name := filepath.Base(fset.Position(f.Pos()).Filename)
	return strings.HasSuffix(name, "_gen.go")
}

func index() {
	for _, p := range w.pkgs {
		if p.PkgPath == pSCI {
			st := p.Types.Scope().Lookup("SmartContract").Type().Underlying().(*types.Struct)
			for i := 0; i < st.NumFields(); i++ {
				if st.Field(i).Name() == "ID" {
					w.scID = st.Field(i)
				}
			}
		}
	}
	for _, p := range w.pkgs {
		info := p.TypesInfo
		for _, f := range p.Syntax {
			if isGenerated(f) {
				continue
			}
			for _, d := range f.Decls {
				ctx := &fctx{pkg: p, file: f}
				var root ast.Node = d
				if fd, ok := d.(*ast.FuncDecl); ok {
					ctx.decl = fd
					if fd.Body == nil {
						continue
					}
				}
				calleeIdents := map[*ast.Ident]bool{}
				var walk func(n ast.Node, loop bool)
				walk = func(n ast.Node, loop bool) {
					ast.Inspect(n, func(m ast.Node) bool {
						switch x := m.(type) {
						case *ast.ForStmt:
							if x != n {
								walk(x, true)
								return false
							}
						case *ast.RangeStmt:
							if x != n {
								walk(x, true)
								return false
							}
						case *ast.CallExpr:
							var id *ast.Ident
							switch fn := x.Fun.(type) {
							case *ast.Ident:
								id = fn
							case *ast.SelectorExpr:
								id = fn.Sel
							}
							if id != nil {
								calleeIdents[id] = true
								if fo, ok := info.Uses[id].(*types.Func); ok {
									w.calls[fo.Name()] = append(w.calls[fo.Name()], &callSite{ctx: ctx, call: x, fn: fo, inLoop: loop})
								}
								if decoderName.MatchString(id.Name) {
									mark := func(e ast.Expr) {
										if t := info.TypeOf(e); t != nil {
											if nt, ok := deref(t).(*types.Named); ok && nt.Obj().Pkg() != nil {
												w.decoded[nt.Obj().Pkg().Path()+"."+nt.Obj().Name()] = true
											}
										}
									}
									for _, a := range x.Args {
										mark(a)
									}
									if se, ok := x.Fun.(*ast.SelectorExpr); ok {
										mark(se.X)
									}
								}
							}
						case *ast.CompositeLit:
							if t := info.TypeOf(x); t != nil {
								if nt, ok := deref(t).(*types.Named); ok && nt.Obj().Pkg() != nil {
									k := nt.Obj().Pkg().Path() + "." + nt.Obj().Name()
									w.lits[k] = append(w.lits[k], &litSite{ctx: ctx, lit: x})
								}
							}
						case *ast.AssignStmt:
							for i, l := range x.Lhs {
								if se, ok := l.(*ast.SelectorExpr); ok {
									if sel := info.Selections[se]; sel != nil && sel.Kind() == types.FieldVal {
										fv := sel.Obj().(*types.Var)
										var rhs ast.Expr
										if len(x.Rhs) == len(x.Lhs) {
											rhs = x.Rhs[i]
										}
										w.fassign[fv] = append(w.fassign[fv], &assignSite{ctx: ctx, rhs: rhs})
									}
								}
							}
						case *ast.Ident:
							if fo, ok := info.Uses[x].(*types.Func); ok && !calleeIdents[x] {
								w.funcVals[fo] = true
							}
						}
						return true
					})
				}
				walk(root, false)
			}
		}
	}
}

// decoderName: functions / methods that fill a value from bytes or from the state.
var decoderName = regexp.MustCompile(`(?i)unmarshal|decode|gettrienode|getnodevalue|copyfrom|readfrom`)

func deref(t types.Type) types.Type {
	if p, ok := t.(*types.Pointer); ok {
		return p.Elem()
	}
	return t
}

func namedIs(t types.Type, pkgPath, name string) bool {
	nt, ok := deref(t).(*types.Named)
	return ok && nt.Obj().Pkg() != nil && nt.Obj().Pkg().Path() == pkgPath && nt.Obj().Name() == name
}

func recvTypeName(fn *types.Func) (string, bool /*interface*/) {
	sig := fn.Type().(*types.Signature)
	if sig.Recv() == nil {
		return "", false
	}
	t := deref(sig.Recv().Type())
	if nt, ok := t.(*types.Named); ok {
		_, isI := nt.Underlying().(*types.Interface)
		return nt.Obj().Name(), isI
	}
	_, isI := t.Underlying().(*types.Interface)
	return "", isI
}

// ---------------------------------------------------------------------------------------------- chase

type role int

const (
	rSrc role = iota
	rAmt
)

type item struct {
	role  role
	expr  ast.Expr // nil when done
	class string
}

type alt struct {
	classes []string // per item
	via     []string
	inLoop  bool
	guard   string
}

func declParams(ctx *fctx) []*types.Var {
	if ctx.decl == nil {
		return nil
	}
	var ps []*types.Var
	for _, f := range ctx.decl.Type.Params.List {
		for _, n := range f.Names {
			if v, ok := ctx.pkg.TypesInfo.Defs[n].(*types.Var); ok {
				ps = append(ps, v)
			} else {
				ps = append(ps, nil)
			}
		}
		if len(f.Names) == 0 {
			ps = append(ps, nil)
		}
	}
	return ps
}

func paramIndex(ctx *fctx, v types.Object) int {
	for i, p := range declParams(ctx) {
		if p != nil && p == v {
			return i
		}
	}
	return -1
}

func isRecv(ctx *fctx, v types.Object) bool {
	if ctx.decl == nil || ctx.decl.Recv == nil {
		return false
	}
	for _, f := range ctx.decl.Recv.List {
		for _, n := range f.Names {
			if ctx.pkg.TypesInfo.Defs[n] == v {
				return true
			}
		}
	}
	return false
}

// localDefs: the right-hand sides that define local variable v inside the function (nil entry = not expressible).
type def struct {
	rhs   ast.Expr
	index int // result index when rhs is a multi-value call, else -1
}

func localDefs(ctx *fctx, v types.Object) []def {
	var ds []def
	if ctx.decl == nil {
		return nil
	}
	info := ctx.pkg.TypesInfo
	same := func(id *ast.Ident) bool { return info.Defs[id] == v || info.Uses[id] == v }
	ast.Inspect(ctx.decl.Body, func(n ast.Node) bool {
		switch x := n.(type) {
		case *ast.AssignStmt:
			for i, l := range x.Lhs {
				id, ok := l.(*ast.Ident)
				if !ok || !same(id) {
					continue
				}
				if len(x.Rhs) == len(x.Lhs) {
					ds = append(ds, def{x.Rhs[i], -1})
				} else if len(x.Rhs) == 1 {
					ds = append(ds, def{x.Rhs[0], i})
				} else {
					ds = append(ds, def{nil, -1})
				}
			}
		case *ast.ValueSpec:
			for i, id := range x.Names {
				if !same(id) {
					continue
				}
				if len(x.Values) == len(x.Names) {
					ds = append(ds, def{x.Values[i], -1})
				} else if len(x.Values) == 1 {
					ds = append(ds, def{x.Values[0], i})
				} else {
					ds = append(ds, def{nil, -1}) // zero value
				}
			}
		case *ast.RangeStmt:
			for _, e := range []ast.Expr{x.Key, x.Value} {
				if id, ok := e.(*ast.Ident); ok && same(id) {
					ds = append(ds, def{nil, -1})
				}
			}
		case *ast.UnaryExpr:
			// &v handed to somebody: v may be written through the pointer (json.Unmarshal(b, &v), ...)
			if id, ok := x.X.(*ast.Ident); ok && x.Op == token.AND && same(id) {
				ds = append(ds, def{nil, -1})
			}
		}
		return true
	})
	return ds
}

// isExecTxn: X denotes the transaction being executed — a parameter of type *transaction.Transaction (contract
// packages never construct transactions: table txnMakes), `balances.GetTransaction()`, or a local defined from those.
func isExecTxn(ctx *fctx, x ast.Expr, depth int) bool {
	info := ctx.pkg.TypesInfo
	switch e := x.(type) {
	case *ast.ParenExpr:
		return isExecTxn(ctx, e.X, depth)
	case *ast.Ident:
		o := info.Uses[e]
		if o == nil {
			return false
		}
		if paramIndex(ctx, o) >= 0 {
			return true
		}
		if depth > 3 {
			return false
		}
		ds := localDefs(ctx, o)
		if len(ds) == 0 {
			return false
		}
		for _, d := range ds {
			if d.rhs == nil || d.index > 0 || !isExecTxn(ctx, d.rhs, depth+1) {
				return false
			}
		}
		return true
	case *ast.CallExpr:
		if s, ok := e.Fun.(*ast.SelectorExpr); ok && s.Sel.Name == "GetTransaction" {
			if fo, ok := info.Uses[s.Sel].(*types.Func); ok && fo.Pkg() != nil && fo.Pkg().Path() == pCState {
				return true
			}
		}
	}
	return false
}

// terminal tries to classify e without leaving the function; ok=false means "needs chasing or unknown".
func terminal(ctx *fctx, r role, e ast.Expr) (string, bool) {
	info := ctx.pkg.TypesInfo
	switch x := e.(type) {
	case *ast.ParenExpr:
		return terminal(ctx, r, x.X)
	case *ast.BasicLit:
		if r == rAmt {
			return "computed", true
		}
		return "other", true
	case *ast.SelectorExpr:
		// package-qualified identifier
		if id, ok := x.X.(*ast.Ident); ok {
			if _, isPkg := info.Uses[id].(*types.PkgName); isPkg {
				return terminalObj(ctx, r, info.Uses[x.Sel])
			}
		}
		sel := info.Selections[x]
		if sel == nil || sel.Kind() != types.FieldVal {
			if r == rAmt {
				return "computed", true
			}
			return "", false
		}
		xt := info.TypeOf(x.X)
		if xt != nil && namedIs(xt, pTxn, "Transaction") {
			if !isExecTxn(ctx, x.X, 0) {
				if r == rAmt {
					return "computed", true
				}
				return "other", true
			}
			switch x.Sel.Name {
			case "ClientID":
				if r == rSrc {
					return "txnSender", true
				}
			case "ToClientID":
				if r == rSrc {
					return "contractAddress", true
				}
			case "Value":
				if r == rAmt {
					return "txnValue", true
				}
			case "Fee":
				if r == rAmt {
					return "txnFee", true
				}
			}
			if r == rAmt {
				return "computed", true
			}
			return "other", true
		}
		if sel.Obj() == w.scID && r == rSrc {
			return "contractAddress", true
		}
		if r == rAmt && x.Sel.Name == "Balance" {
			return "poolBalance", true
		}
		return "", false // a struct field: chase
	case *ast.Ident:
		o := info.Uses[x]
		if o == nil {
			return "", false
		}
		if c, ok := terminalObj(ctx, r, o); ok {
			return c, true
		}
		return "", false
	case *ast.CallExpr:
		if fo := callee(ctx, x); fo != nil && fo.Pkg() != nil && fo.Pkg().Path() == pCState && fo.Name() == "GetMinter" && r == rSrc {
			return "approvedMinter", true
		}
		// conversions: string(x), datastore.Key(x), currency.Coin(x)
		if len(x.Args) == 1 {
			if tv, ok := info.Types[x.Fun]; ok && tv.IsType() {
				return terminal(ctx, r, x.Args[0])
			}
		}
		if r == rAmt {
			if fo := callee(ctx, x); fo == nil || !inModule(fo) {
				return "computed", true
			}
		}
		return "", false
	case *ast.BinaryExpr, *ast.UnaryExpr, *ast.IndexExpr:
		if r == rAmt {
			return "computed", true
		}
		return "", false
	}
	return "", false
}

func terminalObj(ctx *fctx, r role, o types.Object) (string, bool) {
	switch c := o.(type) {
	case *types.Const:
		if r == rSrc && (c.Name() == "ADDRESS" || c.Name() == "Address") && c.Val().Kind() == constant.String && c.Pkg() != nil {
			if c.Pkg() == ctx.pkg.Types {
				return "contractAddress", true
			}
			return "foreignContract", true
		}
		if r == rAmt {
			return "computed", true
		}
		return "other", true
	case *types.Var:
		if c.Pkg() != nil && c.Parent() == c.Pkg().Scope() { // package-level variable
			if r == rAmt {
				return "computed", true
			}
			return "other", true
		}
	}
	return "", false
}

func inModule(fo *types.Func) bool {
	return fo.Pkg() != nil && (fo.Pkg().Path() == mod || strings.HasPrefix(fo.Pkg().Path(), mod+"/"))
}

func callee(ctx *fctx, c *ast.CallExpr) *types.Func {
	var id *ast.Ident
	switch f := c.Fun.(type) {
	case *ast.Ident:
		id = f
	case *ast.SelectorExpr:
		id = f.Sel
	default:
		return nil
	}
	fo, _ := ctx.pkg.TypesInfo.Uses[id].(*types.Func)
	return fo
}

// callSitesOf: every call that may reach the function declared by ctx.decl: static calls of the same object and calls
// of an interface method of the same name that the receiver type implements.
func callSitesOf(ctx *fctx) (sites []*callSite, escapes bool) {
	fo, ok := ctx.pkg.TypesInfo.Defs[ctx.decl.Name].(*types.Func)
	if !ok {
		return nil, true
	}
	if w.funcVals[fo] {
		escapes = true
	}
	var recvT types.Type
	if sig := fo.Type().(*types.Signature); sig.Recv() != nil {
		recvT = sig.Recv().Type()
	}
	for _, cs := range w.calls[fo.Name()] {
		if cs.fn == fo {
			sites = append(sites, cs)
			continue
		}
		if recvT == nil {
			continue
		}
		csig := cs.fn.Type().(*types.Signature)
		if csig.Recv() == nil {
			continue
		}
		if it, ok := csig.Recv().Type().Underlying().(*types.Interface); ok {
			if types.Implements(recvT, it) || types.Implements(types.NewPointer(deref(recvT)), it) {
				sites = append(sites, cs)
			}
		}
	}
	return
}

func benchOnly(ctx *fctx) bool {
	rel := ctx.rel()
	fb := ctx.fileBase()
	return strings.HasPrefix(rel, "smartcontract/benchmark") || strings.HasSuffix(rel, "/test") || strings.HasSuffix(rel, "/mocks") ||
		strings.HasPrefix(fb, "benchmark_") || rel == "smartcontract/dbs/benchmark"
}

// toolOnly: the function lives in benchmark / test-helper code AND every caller of it does too (3 levels), so no
// transaction reaches it.
func toolOnly(ctx *fctx, depth int) bool {
	if !benchOnly(ctx) {
		return false
	}
	if ctx.decl == nil || depth > 3 {
		return true
	}
	sites, _ := callSitesOf(ctx)
	for _, cs := range sites {
		if !toolOnly(cs.ctx, depth+1) {
			return false
		}
	}
	return true
}

func allowed(ctx *fctx, e ast.Expr) (string, string, bool) {
	for _, a := range allowList {
		if a.pkg != ctx.rel() || a.fn != ctx.name() || a.expr != src(e) {
			continue
		}
		// guard: an earlier top-level `if err := X.method(..); err != nil { ...; return }`
		if ctx.decl == nil {
			return "", "", false
		}
		info := ctx.pkg.TypesInfo
		for _, st := range ctx.decl.Body.List {
			if st.End() > e.Pos() && st.Pos() <= e.Pos() {
				break // reached the statement that contains e
			}
			if st.Pos() > e.Pos() {
				break
			}
			ifs, ok := st.(*ast.IfStmt)
			if !ok || ifs.Init == nil || len(ifs.Body.List) == 0 {
				continue
			}
			as, ok := ifs.Init.(*ast.AssignStmt)
			if !ok || len(as.Rhs) != 1 {
				continue
			}
			call, ok := as.Rhs[0].(*ast.CallExpr)
			if !ok {
				continue
			}
			fo := callee(ctx, call)
			if fo == nil || fo.Name() != a.guardMethod {
				continue
			}
			if rn, _ := recvTypeName(fo); rn != a.guardRecv {
				continue
			}
			be, ok := ifs.Cond.(*ast.BinaryExpr)
			if !ok || be.Op != token.NEQ || src(be.Y) != "nil" {
				continue
			}
			if lid, ok := be.X.(*ast.Ident); !ok || info.TypeOf(lid) == nil || info.TypeOf(lid).String() != "error" {
				continue
			}
			if _, ok := ifs.Body.List[len(ifs.Body.List)-1].(*ast.ReturnStmt); !ok {
				continue
			}
			return a.class, a.guardRecv + "." + a.guardMethod, true
		}
		return "", "", false
	}
	return "", "", false
}

type chaser struct {
	out  []alt
	seen map[string]bool
}

func (c *chaser) finish(ctx *fctx, items []item, via []string, inLoop bool, guard string) {
	a := alt{via: append([]string(nil), via...), inLoop: inLoop, guard: guard}
	for _, it := range items {
		a.classes = append(a.classes, it.class)
	}
	c.out = append(c.out, a)
}

func (c *chaser) run(ctx *fctx, items []item, via []string, inLoop bool, guard string, depth int) {
	items = append([]item(nil), items...)
	via = append([]string(nil), via...)
	if depth > maxDepth {
		for i := range items {
			if items[i].expr != nil {
				c.giveUpItem(ctx, items, i, &via, &guard)
			}
		}
		c.finish(ctx, items, via, inLoop, guard)
		return
	}
	key := ctx.rel() + "|" + ctx.name()
	for _, it := range items {
		if it.expr != nil {
			key += fmt.Sprintf("|%d", it.expr.Pos())
		} else {
			key += "|" + it.class
		}
	}
	if c.seen[key] {
		return
	}
	c.seen[key] = true

	info := ctx.pkg.TypesInfo
	// 1. local simplification
	for i := range items {
		for items[i].expr != nil {
			if p, ok := items[i].expr.(*ast.ParenExpr); ok {
				items[i].expr = p.X
				continue
			}
			// the allow-list wins over everything else (it is keyed by function and exact expression text)
			if items[i].role == rSrc {
				if cl, g, ok := allowed(ctx, items[i].expr); ok {
					items[i] = item{role: rSrc, class: cl}
					guard = g
					break
				}
			}
			if cl, ok := terminal(ctx, items[i].role, items[i].expr); ok {
				if cl == "other" {
					c.giveUpItem(ctx, items, i, &via, &guard)
				} else {
					items[i] = item{role: items[i].role, class: cl}
				}
			}
			break
		}
	}
	// 2. a pending local variable: branch over its definitions
	for i := range items {
		id, ok := items[i].expr.(*ast.Ident)
		if !ok {
			continue
		}
		o := info.Uses[id]
		if o == nil {
			c.giveUpItem(ctx, items, i, &via, &guard)
			continue
		}
		if paramIndex(ctx, o) >= 0 {
			continue
		}
		ds := localDefs(ctx, o)
		if len(ds) == 0 {
			c.giveUpItem(ctx, items, i, &via, &guard)
			continue
		}
		for _, d := range ds {
			next := append([]item(nil), items...)
			v2, g2 := append([]string(nil), via...), guard
			switch {
			case d.rhs == nil || d.index > 0:
				c.giveUpItem(ctx, next, i, &v2, &g2) // range variable, zero value, non-first result
				c.run(ctx, next, v2, inLoop, g2, depth+1)
			case d.index == 0:
				if call, ok := d.rhs.(*ast.CallExpr); ok {
					c.throughCall(ctx, next, i, call, 0, v2, inLoop, g2, depth)
				} else {
					c.giveUpItem(ctx, next, i, &v2, &g2)
					c.run(ctx, next, v2, inLoop, g2, depth+1)
				}
			default:
				next[i].expr = d.rhs
				c.run(ctx, next, v2, inLoop, g2, depth+1)
			}
		}
		return
	}
	// 3. a pending call result: resolve inside the callee
	for i := range items {
		if call, ok := items[i].expr.(*ast.CallExpr); ok {
			c.throughCall(ctx, items, i, call, 0, via, inLoop, guard, depth)
			return
		}
	}
	// 4. struct fields (of a parameter, the receiver, a local): resolved globally over the constructions of the struct
	for _, it := range items {
		if _, ok := it.expr.(*ast.SelectorExpr); ok {
			c.fields(ctx, items, via, inLoop, guard, depth)
			return
		}
	}
	// 5. parameters of the enclosing function: substitute jointly through every call site
	hasParam := false
	for i, it := range items {
		if it.expr == nil {
			continue
		}
		if id, ok := it.expr.(*ast.Ident); ok && paramIndex(ctx, info.Uses[id]) >= 0 {
			hasParam = true
		} else {
			c.giveUpItem(ctx, items, i, &via, &guard) // no other expression shape is followed
		}
	}
	if !hasParam {
		c.finish(ctx, items, via, inLoop, guard)
		return
	}
	sites, escapes := callSitesOf(ctx)
	if escapes {
		next := append([]item(nil), items...)
		v2, g2 := append(append([]string(nil), via...), "function value escapes: "+ctx.name()), guard
		for i := range next {
			if next[i].expr != nil {
				c.giveUpItem(ctx, next, i, &v2, &g2)
			}
		}
		c.finish(ctx, next, v2, inLoop, g2)
	}
	if len(sites) == 0 && !escapes {
		next := append([]item(nil), items...)
		for i := range next {
			if next[i].expr != nil {
				next[i] = item{role: next[i].role, class: "unreachable"}
			}
		}
		c.finish(ctx, next, append(via, "no caller of "+ctx.rel()+"."+ctx.name()), inLoop, guard)
		return
	}
	for _, cs := range sites {
		next := append([]item(nil), items...)
		for i := range next {
			if next[i].expr == nil {
				continue
			}
			k := paramIndex(ctx, info.Uses[next[i].expr.(*ast.Ident)])
			sig := cs.fn.Type().(*types.Signature)
			if sig.Variadic() || k >= len(cs.call.Args) {
				next[i] = item{role: next[i].role, class: map[role]string{rSrc: "other", rAmt: "computed"}[next[i].role]}
				continue
			}
			next[i].expr = cs.call.Args[k]
		}
		c.run(cs.ctx, next, append(append([]string(nil), via...), fmt.Sprintf("%s <- %s.%s", ctx.name(), cs.ctx.rel(), cs.ctx.name())), inLoop || cs.inLoop, guard, depth+1)
	}
}

// throughCall: item i is result `idx` of a call; continue inside every return statement of the callee.
func (c *chaser) throughCall(ctx *fctx, items []item, i int, call *ast.CallExpr, idx int, via []string, inLoop bool, guard string, depth int) {
	items = append([]item(nil), items...)
	fo := callee(ctx, call)
	giveUp := func() {
		if items[i].role == rAmt {
			items[i] = item{role: rAmt, class: "computed"}
		} else if cl, ok := terminal(ctx, rSrc, call); ok && cl != "other" {
			items[i] = item{role: rSrc, class: cl}
		} else if benchOnly(ctx) {
			items[i] = item{role: rSrc, class: "tool"}
		} else if cl, g, ok := allowed(ctx, call); ok {
			items[i] = item{role: rSrc, class: cl}
			guard = g
		} else {
			via = append(via, fmt.Sprintf("unresolved call `%s` in %s.%s", src(call), ctx.rel(), ctx.name()))
			items[i] = item{role: rSrc, class: "other"}
		}
		c.run(ctx, items, via, inLoop, guard, depth+1)
	}
	if cl, ok := terminal(ctx, items[i].role, call); ok {
		items[i] = item{role: items[i].role, class: cl}
		c.run(ctx, items, via, inLoop, guard, depth+1)
		return
	}
	if fo == nil || !inModule(fo) {
		giveUp()
		return
	}
	// other pending items cannot follow into the callee: they must be resolvable here first
	for j := range items {
		if j != i && items[j].expr != nil {
			// resolve j alone in this context, then come back
			sub := &chaser{seen: map[string]bool{}}
			sub.run(ctx, []item{items[j]}, nil, false, "", depth+1)
			if len(sub.out) != 1 {
				giveUp()
				return
			}
			items[j] = item{role: items[j].role, class: sub.out[0].classes[0]}
			if sub.out[0].guard != "" {
				guard = sub.out[0].guard
			}
		}
	}
	decl, dctx := declOf(fo)
	if decl == nil {
		giveUp()
		return
	}
	found := false
	ast.Inspect(decl.Body, func(n ast.Node) bool {
		if _, ok := n.(*ast.FuncLit); ok {
			return false
		}
		rs, ok := n.(*ast.ReturnStmt)
		if !ok {
			return true
		}
		if idx >= len(rs.Results) {
			return true // naked return / multi-value forwarding: not followed
		}
		e := rs.Results[idx]
		if id, ok := e.(*ast.Ident); ok && id.Name == "nil" {
			return true
		}
		found = true
		next := append([]item(nil), items...)
		next[i].expr = e
		c.run(dctx, next, append(via, fmt.Sprintf("result of %s.%s", dctx.rel(), dctx.name())), inLoop, guard, depth+1)
		return true
	})
	if !found {
		giveUp()
	}
}

func declOf(fo *types.Func) (*ast.FuncDecl, *fctx) {
	for _, p := range w.pkgs {
		if p.Types != fo.Pkg() {
			continue
		}
		for _, f := range p.Syntax {
			for _, d := range f.Decls {
				if fd, ok := d.(*ast.FuncDecl); ok && fd.Body != nil && p.TypesInfo.Defs[fd.Name] == fo {
					return fd, &fctx{pkg: p, decl: fd, file: f}
				}
			}
		}
	}
	return nil, nil
}

// fields: the pending items are selections `x.f` of struct fields: substitute jointly from every composite literal of
// the struct type and every assignment to the field.
func (c *chaser) fields(ctx *fctx, items []item, via []string, inLoop bool, guard string, depth int) {
	info := ctx.pkg.TypesInfo
	items = append([]item(nil), items...)
	var st *types.Named
	for i := range items {
		if items[i].expr == nil {
			continue
		}
		se, ok := items[i].expr.(*ast.SelectorExpr)
		var sel *types.Selection
		if ok {
			sel = info.Selections[se]
		}
		if sel == nil || sel.Kind() != types.FieldVal {
			// neither parameter, local, call nor field: give up on this item
			c.giveUpItem(ctx, items, i, &via, &guard)
			continue
		}
		nt, ok := deref(info.TypeOf(se.X)).(*types.Named)
		if !ok || nt.Obj().Pkg() == nil || !strings.HasPrefix(nt.Obj().Pkg().Path(), mod) {
			c.giveUpItem(ctx, items, i, &via, &guard)
			continue
		}
		if st == nil && items[i].role == rSrc {
			st = nt
		}
	}
	if st == nil {
		// only amounts are pending: a field that is not read together with the source's struct is just "computed"
		for i := range items {
			if items[i].expr != nil {
				if _, ok := items[i].expr.(*ast.SelectorExpr); ok {
					c.giveUpItem(ctx, items, i, &via, &guard)
				}
			}
		}
		c.run(ctx, items, via, inLoop, guard, depth+1)
		return
	}
	// items of this struct type
	var idxs []int
	for i := range items {
		if se, ok := items[i].expr.(*ast.SelectorExpr); ok {
			if nt, ok := deref(info.TypeOf(se.X)).(*types.Named); ok && nt == st {
				idxs = append(idxs, i)
			}
		}
	}
	// any other pending item (different struct, parameter) cannot be carried into another context: resolve it alone
	for j := range items {
		if items[j].expr == nil {
			continue
		}
		mine := false
		for _, i := range idxs {
			if i == j {
				mine = true
			}
		}
		if mine {
			continue
		}
		sub := &chaser{seen: map[string]bool{}}
		sub.run(ctx, []item{items[j]}, nil, false, "", depth+1)
		if len(sub.out) != 1 {
			c.giveUpItem(ctx, items, j, &via, &guard)
			continue
		}
		items[j] = item{role: items[j].role, class: sub.out[0].classes[0]}
		if sub.out[0].guard != "" {
			guard = sub.out[0].guard
		}
	}
	key := st.Obj().Pkg().Path() + "." + st.Obj().Name()
	n := 0
	if w.decoded[key] {
		// values of this struct are also produced by a decoder (input / state): the field can hold anything
		next := append([]item(nil), items...)
		v2, g2 := append([]string(nil), via...), guard
		for _, i := range idxs {
			c.giveUpItem(ctx, next, i, &v2, &g2)
		}
		n++
		c.run(ctx, next, append(v2, st.Obj().Name()+" is also filled by a decoder"), inLoop, g2, depth+1)
	}
	for _, ls := range w.lits[key] {
		next := append([]item(nil), items...)
		any := false
		for _, i := range idxs {
			fname := items[i].expr.(*ast.SelectorExpr).Sel.Name
			var val ast.Expr
			for k, el := range ls.lit.Elts {
				if kv, ok := el.(*ast.KeyValueExpr); ok {
					if id, ok := kv.Key.(*ast.Ident); ok && id.Name == fname {
						val = kv.Value
					}
				} else if us, ok := st.Underlying().(*types.Struct); ok && k < us.NumFields() && us.Field(k).Name() == fname {
					val = el
				}
			}
			if val == nil {
				continue
			}
			any = true
			next[i].expr = val
		}
		if !any {
			continue // a literal that sets none of the fields we ask for
		}
		for _, i := range idxs {
			if next[i].expr == items[i].expr { // field left at its zero value by this literal
				next[i] = item{role: next[i].role, class: map[role]string{rSrc: "other", rAmt: "computed"}[next[i].role]}
			}
		}
		n++
		c.run(ls.ctx, next, append(via, fmt.Sprintf("%s{..} in %s.%s", st.Obj().Name(), ls.ctx.rel(), ls.ctx.name())), inLoop, guard, depth+1)
	}
	// assignments x.f = e
	for _, i := range idxs {
		se := items[i].expr.(*ast.SelectorExpr)
		fv := info.Selections[se].Obj().(*types.Var)
		for _, as := range w.fassign[fv] {
			next := append([]item(nil), items...)
			for _, j := range idxs {
				if j != i {
					next[j] = item{role: next[j].role, class: map[role]string{rSrc: "other", rAmt: "computed"}[next[j].role]}
				}
			}
			if as.rhs == nil {
				next[i] = item{role: next[i].role, class: map[role]string{rSrc: "other", rAmt: "computed"}[next[i].role]}
			} else {
				next[i].expr = as.rhs
			}
			n++
			c.run(as.ctx, next, append(via, fmt.Sprintf("%s.%s = .. in %s.%s", st.Obj().Name(), fv.Name(), as.ctx.rel(), as.ctx.name())), inLoop, guard, depth+1)
		}
	}
	if n == 0 {
		// never constructed in the sources (deserialised from state / input): cannot be resolved
		for _, i := range idxs {
			c.giveUpItem(ctx, items, i, &via, &guard)
		}
		c.run(ctx, items, via, inLoop, guard, depth+1)
	}
}

func (c *chaser) giveUpItem(ctx *fctx, items []item, i int, via *[]string, guard *string) {
	if items[i].role == rAmt {
		items[i] = item{role: rAmt, class: "computed"}
		return
	}
	if cl, g, ok := allowed(ctx, items[i].expr); ok {
		items[i] = item{role: rSrc, class: cl}
		*guard = g
		return
	}
	if benchOnly(ctx) {
		items[i] = item{role: rSrc, class: "tool"}
		return
	}
	*via = append(*via, fmt.Sprintf("unresolved `%s` in %s.%s", src(items[i].expr), ctx.rel(), ctx.name()))
	items[i] = item{role: rSrc, class: "other"}
}

// ---------------------------------------------------------------------------------------------- sites

type row struct {
	pkg, fn, kind, src, amt string
	inLoop                  bool
	guard, via, expr        string
}

var rows []row

func classify(ctx *fctx, kind string, srcE, amtE ast.Expr, inLoop bool, exprText string, viaPrefix []string) {
	if (kind == "constructSigned" || kind == "addSigned") && toolOnly(ctx, 0) {
		rows = append(rows, row{pkg: ctx.rel(), fn: ctx.name(), kind: kind, src: "tool", amt: "computed", inLoop: inLoop, expr: exprText})
		return
	}
	if kind == "constructSigned" || kind == "addSigned" {
		rows = append(rows, row{pkg: ctx.rel(), fn: ctx.name(), kind: kind, src: "signed", amt: "computed", inLoop: inLoop, expr: exprText, via: strings.Join(viaPrefix, "; ")})
		return
	}
	c := &chaser{seen: map[string]bool{}}
	c.run(ctx, []item{{role: rSrc, expr: srcE}, {role: rAmt, expr: amtE}}, viaPrefix, inLoop, "", 0)
	if len(c.out) == 0 {
		rows = append(rows, row{pkg: ctx.rel(), fn: ctx.name(), kind: kind, src: "other", amt: "computed", inLoop: inLoop, expr: exprText, via: "no alternative"})
		return
	}
	seen := map[string]bool{}
	for _, a := range c.out {
		r := row{pkg: ctx.rel(), fn: ctx.name(), kind: kind, src: a.classes[0], amt: a.classes[1], inLoop: a.inLoop, guard: a.guard, via: strings.Join(a.via, "; "), expr: exprText}
		if toolOnly(ctx, 0) {
			r.src, r.via = "tool", ""
		}
		k := fmt.Sprint(r)
		if !seen[k] {
			seen[k] = true
			rows = append(rows, r)
		}
	}
}

// transferParts: if e constructs a state.Transfer, its source and amount expressions.
func transferParts(ctx *fctx, e ast.Expr) (srcE, amtE ast.Expr, signed, ok bool) {
	info := ctx.pkg.TypesInfo
	switch x := e.(type) {
	case *ast.ParenExpr:
		return transferParts(ctx, x.X)
	case *ast.UnaryExpr:
		if x.Op == token.AND {
			return transferParts(ctx, x.X)
		}
	case *ast.CallExpr:
		if fo := callee(ctx, x); fo != nil && fo.Pkg() != nil && fo.Pkg().Path() == pState && fo.Name() == "NewTransfer" && len(x.Args) == 3 {
			return x.Args[0], x.Args[2], false, true
		}
	case *ast.CompositeLit:
		t := info.TypeOf(x)
		if t == nil {
			return
		}
		if namedIs(t, pState, "SignedTransfer") {
			return nil, nil, true, true
		}
		if namedIs(t, pState, "Transfer") {
			for _, el := range x.Elts {
				kv, isKV := el.(*ast.KeyValueExpr)
				if !isKV {
					die(x.Pos(), "positional state.Transfer literal: not supported")
				}
				switch kv.Key.(*ast.Ident).Name {
				case "ClientID":
					srcE = kv.Value
				case "Amount":
					amtE = kv.Value
				}
			}
			if srcE == nil {
				die(x.Pos(), "state.Transfer literal without ClientID")
			}
			if amtE == nil {
				amtE = &ast.BasicLit{Kind: token.INT, Value: "0", ValuePos: x.Pos()}
			}
			return srcE, amtE, false, true
		}
	}
	return
}

// addArg: resolve the argument of AddTransfer to the constructions it may denote.
type cons struct {
	ctx        *fctx
	srcE, amtE ast.Expr
	signed     bool
	via        []string
	inLoop     bool
}

func resolveTransferValue(ctx *fctx, e ast.Expr, via []string, inLoop bool, depth int, seen map[token.Pos]bool) (res []cons, unresolved []string) {
	if depth > maxDepth || seen[e.Pos()] {
		return nil, []string{fmt.Sprintf("depth/cycle at `%s` in %s.%s", src(e), ctx.rel(), ctx.name())}
	}
	seen[e.Pos()] = true
	info := ctx.pkg.TypesInfo
	if s, a, sg, ok := transferParts(ctx, e); ok {
		return []cons{{ctx, s, a, sg, via, inLoop}}, nil
	}
	switch x := e.(type) {
	case *ast.ParenExpr:
		return resolveTransferValue(ctx, x.X, via, inLoop, depth, seen)
	case *ast.UnaryExpr:
		if x.Op == token.AND {
			return resolveTransferValue(ctx, x.X, via, inLoop, depth, seen)
		}
	case *ast.StarExpr:
		return resolveTransferValue(ctx, x.X, via, inLoop, depth, seen)
	case *ast.Ident:
		o := info.Uses[x]
		if o == nil {
			break
		}
		if k := paramIndex(ctx, o); k >= 0 {
			sites, escapes := callSitesOf(ctx)
			if escapes {
				unresolved = append(unresolved, "function value escapes: "+ctx.name())
			}
			for _, cs := range sites {
				if k >= len(cs.call.Args) {
					unresolved = append(unresolved, "variadic/short call of "+ctx.name())
					continue
				}
				r, u := resolveTransferValue(cs.ctx, cs.call.Args[k], append(append([]string(nil), via...), fmt.Sprintf("%s <- %s.%s", ctx.name(), cs.ctx.rel(), cs.ctx.name())), inLoop || cs.inLoop, depth+1, seen)
				res = append(res, r...)
				unresolved = append(unresolved, u...)
			}
			return
		}
		ds := localDefs(ctx, o)
		if len(ds) == 0 {
			break
		}
		for _, d := range ds {
			if d.rhs == nil {
				if d.index == -1 {
					continue // `var t *state.Transfer` zero value
				}
				unresolved = append(unresolved, fmt.Sprintf("`%s` defined by range in %s.%s", x.Name, ctx.rel(), ctx.name()))
				continue
			}
			if d.index >= 0 {
				call, ok := d.rhs.(*ast.CallExpr)
				if !ok {
					unresolved = append(unresolved, fmt.Sprintf("`%s` multi-value from non-call", x.Name))
					continue
				}
				r, u := throughCallTransfer(ctx, call, d.index, via, inLoop, depth, seen)
				res = append(res, r...)
				unresolved = append(unresolved, u...)
				continue
			}
			r, u := resolveTransferValue(ctx, d.rhs, via, inLoop, depth+1, seen)
			res = append(res, r...)
			unresolved = append(unresolved, u...)
		}
		return
	case *ast.CallExpr:
		return throughCallTransfer(ctx, x, 0, via, inLoop, depth, seen)
	}
	return nil, []string{fmt.Sprintf("`%s` in %s.%s is not a recognised transfer construction", src(e), ctx.rel(), ctx.name())}
}

func throughCallTransfer(ctx *fctx, call *ast.CallExpr, idx int, via []string, inLoop bool, depth int, seen map[token.Pos]bool) (res []cons, unresolved []string) {
	fo := callee(ctx, call)
	if fo == nil || !inModule(fo) {
		return nil, []string{fmt.Sprintf("call `%s` outside the module", src(call))}
	}
	var targets []*types.Func
	if _, isI := recvTypeName(fo); isI {
		// interface method: every implementation declared in the loaded packages
		for _, p := range w.pkgs {
			for _, f := range p.Syntax {
				for _, d := range f.Decls {
					fd, ok := d.(*ast.FuncDecl)
					if !ok || fd.Body == nil || fd.Recv == nil || fd.Name.Name != fo.Name() {
						continue
					}
					if m, ok := p.TypesInfo.Defs[fd.Name].(*types.Func); ok {
						it := fo.Type().(*types.Signature).Recv().Type().Underlying().(*types.Interface)
						rt := m.Type().(*types.Signature).Recv().Type()
						if types.Implements(rt, it) || types.Implements(types.NewPointer(deref(rt)), it) {
							targets = append(targets, m)
						}
					}
				}
			}
		}
	} else {
		targets = []*types.Func{fo}
	}
	if len(targets) == 0 {
		return nil, []string{fmt.Sprintf("no implementation of `%s`", src(call))}
	}
	for _, t := range targets {
		decl, dctx := declOf(t)
		if decl == nil {
			unresolved = append(unresolved, "no declaration of "+t.FullName())
			continue
		}
		found := false
		ast.Inspect(decl.Body, func(n ast.Node) bool {
			if _, ok := n.(*ast.FuncLit); ok {
				return false
			}
			rs, ok := n.(*ast.ReturnStmt)
			if !ok {
				return true
			}
			if idx >= len(rs.Results) {
				if len(rs.Results) == 0 && decl.Type.Results != nil {
					// naked return: named result
					k := 0
					for _, f := range decl.Type.Results.List {
						for _, nm := range f.Names {
							if k == idx {
								found = true
								r, u := resolveTransferValue(dctx, nm, append(append([]string(nil), via...), "result of "+dctx.rel()+"."+dctx.name()), inLoop, depth+1, seen)
								res = append(res, r...)
								unresolved = append(unresolved, u...)
							}
							k++
						}
					}
				}
				return true
			}
			e := rs.Results[idx]
			if id, ok := e.(*ast.Ident); ok && id.Name == "nil" {
				found = true
				return true
			}
			found = true
			r, u := resolveTransferValue(dctx, e, append(append([]string(nil), via...), "result of "+dctx.rel()+"."+dctx.name()), inLoop, depth+1, seen)
			res = append(res, r...)
			unresolved = append(unresolved, u...)
			return true
		})
		if !found {
			unresolved = append(unresolved, "no return value in "+t.FullName())
		}
	}
	return
}

type fact struct{ a, b, c, d string }

var (
	clientWrites  []fact // pkg, fn, what, class(engine|definition|tool|contract)
	scIds         []fact // pkg, fn, argument text, own?
	minters       []fact // address, contract pkg ("" if none)
	txnWrites     []fact // pkg, fn, field
	txnMakes      []fact // pkg, fn
	validateCalls []fact // fn, "before-exec"|"after-exec"|"no-exec"
	transferWrites []fact // pkg, fn, field: assignment to a field of an existing state.Transfer / SignedTransfer
)

func pkgClass(ctx *fctx) string {
	rel := ctx.rel()
	switch {
	case rel == "chaincore/chain":
		return "engine"
	case rel == "chaincore/chain/state":
		return "definition"
	case toolOnly(ctx, 0):
		return "tool"
	case strings.HasPrefix(rel, "smartcontract/") || rel == "chaincore/tokenpool" || rel == "chaincore/smartcontract" || rel == "chaincore/smartcontractinterface":
		return "contract"
	}
	return "node" // miner / sharder / block / ... : node software outside transaction execution
}

func scan() {
	addresses := map[string]string{} // string value of ADDRESS consts -> pkg rel
	for _, p := range w.pkgs {
		for _, nm := range []string{"ADDRESS", "Address"} {
			if c, ok := p.Types.Scope().Lookup(nm).(*types.Const); ok && c.Val().Kind() == constant.String {
				addresses[constant.StringVal(c.Val())] = strings.TrimPrefix(p.PkgPath, mod+"/")
			}
		}
	}
	for _, p := range w.pkgs {
		info := p.TypesInfo
		for _, f := range p.Syntax {
			if isGenerated(f) {
				continue
			}
			for _, d := range f.Decls {
				ctx := &fctx{pkg: p, file: f}
				if fd, ok := d.(*ast.FuncDecl); ok {
					if fd.Body == nil {
						continue
					}
					ctx.decl = fd
				}
				// approvedMinters table
				if gd, ok := d.(*ast.GenDecl); ok && p.PkgPath == pCState {
					for _, s := range gd.Specs {
						vs, ok := s.(*ast.ValueSpec)
						if !ok {
							continue
						}
						for i, nm := range vs.Names {
							if nm.Name == "approvedMinters" && i < len(vs.Values) {
								cl, ok := vs.Values[i].(*ast.CompositeLit)
								if !ok {
									die(nm.Pos(), "approvedMinters is not a composite literal")
								}
								for _, el := range cl.Elts {
									tv, ok := info.Types[el]
									if !ok || tv.Value == nil {
										die(el.Pos(), "approvedMinters entry is not a constant")
									}
									v := constant.StringVal(tv.Value)
									minters = append(minters, fact{a: v, b: addresses[v]})
								}
							}
						}
					}
				}
				consSeen := map[ast.Node]bool{}
				var walk func(n ast.Node, loop bool)
				walk = func(n ast.Node, loop bool) {
					ast.Inspect(n, func(m ast.Node) bool {
						switch x := m.(type) {
						case *ast.ForStmt:
							if x != n {
								walk(x, true)
								return false
							}
						case *ast.RangeStmt:
							if x != n {
								walk(x, true)
								return false
							}
						case *ast.AssignStmt:
							for _, l := range x.Lhs {
								if se, ok := l.(*ast.SelectorExpr); ok {
									if t := info.TypeOf(se.X); t != nil && (namedIs(t, pState, "Transfer") || namedIs(t, pState, "SignedTransfer")) && !toolOnly(ctx, 0) && ctx.rel() != "chaincore/state" {
										transferWrites = append(transferWrites, fact{a: ctx.rel(), b: ctx.name(), c: se.Sel.Name})
									}
									if t := info.TypeOf(se.X); t != nil && namedIs(t, pTxn, "Transaction") {
										if sel := info.Selections[se]; sel != nil && sel.Kind() == types.FieldVal {
											if c := pkgClass(ctx); c == "contract" {
												txnWrites = append(txnWrites, fact{a: ctx.rel(), b: ctx.name(), c: se.Sel.Name})
											}
										}
									}
								}
							}
						case *ast.CompositeLit:
							if t := info.TypeOf(x); t != nil && namedIs(t, pTxn, "Transaction") && pkgClass(ctx) == "contract" {
								txnMakes = append(txnMakes, fact{a: ctx.rel(), b: ctx.name()})
							}
							if ctx.pkg.PkgPath == pState && ctx.name() == "NewTransfer" {
								return true // the constructor itself: its call sites are the construction sites
							}
							if _, _, sg, ok := transferParts(ctx, x); ok && !consSeen[x] {
								consSeen[x] = true
								s, a, _, _ := transferParts(ctx, x)
								k := "construct"
								if sg {
									k = "constructSigned"
								}
								classify(ctx, k, s, a, loop, src(x), nil)
							}
						case *ast.CallExpr:
							fo := callee(ctx, x)
							if fo == nil {
								return true
							}
							rn, _ := recvTypeName(fo)
							fp := ""
							if fo.Pkg() != nil {
								fp = fo.Pkg().Path()
							}
							switch {
							case fp == pState && fo.Name() == "NewTransfer":
								s, a, _, _ := transferParts(ctx, x)
								classify(ctx, "construct", s, a, loop, src(x), nil)
							case fp == pState && fo.Name() == "NewMint":
								rows = append(rows, row{pkg: ctx.rel(), fn: ctx.name(), kind: "constructMint", src: "mint", amt: "computed", inLoop: loop, expr: src(x)})
							case fo.Name() == "AddMint":
								rows = append(rows, row{pkg: ctx.rel(), fn: ctx.name(), kind: "addMint", src: "mint", amt: "computed", inLoop: loop, expr: src(x)})
							case fp == pCState && fo.Name() == "AddTransfer" && (rn == "StateContextI" || rn == "StateContext"):
								if len(x.Args) != 1 {
									die(x.Pos(), "AddTransfer with %d arguments", len(x.Args))
								}
								cs, un := resolveTransferValue(ctx, x.Args[0], nil, loop, 0, map[token.Pos]bool{})
								for _, c := range cs {
									via := append([]string{fmt.Sprintf("built in %s.%s", c.ctx.rel(), c.ctx.name())}, c.via...)
									before := len(rows)
									classify(c.ctx, "add", c.srcE, c.amtE, c.inLoop, src(x), via)
									for i := before; i < len(rows); i++ { // the row belongs to the AddTransfer site
										rows[i].pkg, rows[i].fn = ctx.rel(), ctx.name()
										if toolOnly(ctx, 0) {
											rows[i].src, rows[i].via = "tool", ""
										}
									}
								}
								for _, u := range un {
									cl := "other"
									if toolOnly(ctx, 0) {
										cl = "tool"
									}
									rows = append(rows, row{pkg: ctx.rel(), fn: ctx.name(), kind: "add", src: cl, amt: "computed", inLoop: loop, expr: src(x), via: "unresolved argument: " + u})
								}
								if len(cs) == 0 && len(un) == 0 {
									rows = append(rows, row{pkg: ctx.rel(), fn: ctx.name(), kind: "add", src: "other", amt: "computed", inLoop: loop, expr: src(x), via: "argument resolves to no construction"})
								}
							case fp == pCState && fo.Name() == "AddSignedTransfer" && (rn == "StateContextI" || rn == "StateContext"):
								classify(ctx, "addSigned", nil, nil, loop, src(x), nil)
							case fp == pCState && fo.Name() == "SetClientState" && (rn == "StateContextI" || rn == "StateContext"):
								clientWrites = append(clientWrites, fact{a: ctx.rel(), b: ctx.name(), c: "SetClientState", d: pkgClass(ctx)})
							case fp == pUtilMPT && (fo.Name() == "Insert" || fo.Name() == "Delete") && (rn == "MerklePatriciaTrieI" || rn == "MerklePatriciaTrie"):
								clientWrites = append(clientWrites, fact{a: ctx.rel(), b: ctx.name(), c: "trie." + fo.Name(), d: pkgClass(ctx)})
							case fp == pSCI && fo.Name() == "NewSC":
								own := "false"
								if len(x.Args) == 1 {
									if cl, ok := terminal(ctx, rSrc, x.Args[0]); ok && cl == "contractAddress" {
										own = "true"
									}
								}
								if !benchOnly(ctx) {
									scIds = append(scIds, fact{a: ctx.rel(), b: ctx.name(), c: src(x.Args[0]), d: own})
								}
							}
						}
						return true
					})
				}
				walk(d, false)
			}
		}
	}
	// engine: where is Validate called relative to the contract run?
	for _, p := range w.pkgs {
		if p.PkgPath != pChain {
			continue
		}
		for _, f := range p.Syntax {
			for _, d := range f.Decls {
				fd, ok := d.(*ast.FuncDecl)
				if !ok || fd.Body == nil || fd.Name.Name != "updateState" {
					continue
				}
				ctx := &fctx{pkg: p, decl: fd, file: f}
				var execPos token.Pos
				ast.Inspect(fd.Body, func(n ast.Node) bool {
					if c, ok := n.(*ast.CallExpr); ok {
						if fo := callee(ctx, c); fo != nil && fo.Name() == "ExecuteSmartContract" && !execPos.IsValid() {
							execPos = c.Pos()
						}
					}
					return true
				})
				ast.Inspect(fd.Body, func(n ast.Node) bool {
					if c, ok := n.(*ast.CallExpr); ok {
						if fo := callee(ctx, c); fo != nil && fo.Name() == "Validate" && fo.Pkg() != nil && fo.Pkg().Path() == pCState {
							when := "no-exec"
							if execPos.IsValid() {
								when = "before-exec"
								if c.Pos() > execPos {
									when = "after-exec"
								}
							}
							validateCalls = append(validateCalls, fact{a: "Chain.updateState", b: when})
						}
					}
					return true
				})
			}
		}
	}
}

// ---------------------------------------------------------------------------------------------- output

func q(s string) string {
	s = strings.ReplaceAll(s, "\\", "\\\\")
	s = strings.ReplaceAll(s, "\"", "\\\"")
	s = strings.ReplaceAll(s, "\n", " ")
	return "\"" + s + "\""
}

func main() {
	if len(os.Args) != 3 {
		fmt.Fprintln(os.Stderr, "usage: xc04 <gosrc> <out.lean>")
		os.Exit(2)
	}
	gosrc, _ := filepath.Abs(os.Args[1])
	paths, nameIndex := phase1(gosrc)
	// engine packages are always loaded
	need := map[string]bool{pChain: true, pCState: true, pState: true, pSCI: true, mod + "/chaincore/tokenpool": true}
	for _, p := range paths {
		need[p] = true
	}
	var all []string
	for p := range need {
		all = append(all, p)
	}
	sort.Strings(all)
	t0 := time.Now()
	load(gosrc, all)
	t1 := time.Now()
	index()
	scan()
	fmt.Fprintf(os.Stderr, "xc04: loaded %v in %v, analysis %v\n", all, t1.Sub(t0), time.Since(t1))

	// soundness of the call-site chase: every package that calls (by name) a function we chased through must be loaded
	loaded := map[string]bool{}
	for _, p := range w.pkgs {
		loaded[p.PkgPath] = true
	}
	chased := map[string]bool{}
	for _, r := range rows {
		for _, part := range strings.Split(r.via, "; ") {
			if i := strings.Index(part, " <- "); i > 0 {
				nm := part[:i]
				if j := strings.LastIndex(nm, "."); j >= 0 {
					nm = nm[j+1:]
				}
				chased[nm] = true
			}
		}
	}
	for nm := range chased {
		for ip := range nameIndex[nm] {
			if !loaded[ip] {
				die(token.NoPos, "function %s is chased through its call sites but package %s (which calls a function of that name) is not loaded", nm, ip)
			}
		}
	}

	sort.SliceStable(rows, func(i, j int) bool {
		a, b := rows[i], rows[j]
		if a.pkg != b.pkg {
			return a.pkg < b.pkg
		}
		if a.fn != b.fn {
			return a.fn < b.fn
		}
		if a.kind != b.kind {
			return a.kind < b.kind
		}
		if a.expr != b.expr {
			return a.expr < b.expr
		}
		if a.src != b.src {
			return a.src < b.src
		}
		if a.amt != b.amt {
			return a.amt < b.amt
		}
		if a.inLoop != b.inLoop {
			return !a.inLoop
		}
		if a.guard != b.guard {
			return a.guard < b.guard
		}
		return a.via < b.via
	})
	// one row per (site, classes): the shortest chase path is kept, the number of further paths is noted
	var uniq []row
	more := map[int]int{}
	for _, r := range rows {
		if n := len(uniq); n > 0 {
			l := uniq[n-1]
			if l.pkg == r.pkg && l.fn == r.fn && l.kind == r.kind && l.expr == r.expr && l.src == r.src && l.amt == r.amt && l.inLoop == r.inLoop && l.guard == r.guard {
				more[n-1]++
				if len(r.via) < len(l.via) {
					uniq[n-1].via = r.via
				}
				continue
			}
		}
		uniq = append(uniq, r)
	}
	for i, n := range more {
		uniq[i].via += fmt.Sprintf(" (+%d more paths)", n)
	}
	rows = uniq
	sortFacts := func(fs []fact) []fact {
		sort.SliceStable(fs, func(i, j int) bool { return fmt.Sprint(fs[i]) < fmt.Sprint(fs[j]) })
		var u []fact
		for i, f := range fs {
			if i > 0 && f == fs[i-1] {
				continue
			}
			u = append(u, f)
		}
		return u
	}
	clientWrites, scIds, txnWrites, txnMakes, validateCalls, transferWrites = sortFacts(clientWrites), sortFacts(scIds), sortFacts(txnWrites), sortFacts(txnMakes), sortFacts(validateCalls), sortFacts(transferWrites)

	var b strings.Builder
	b.WriteString("import ZChain.Model.TransferSites\n")
	b.WriteString("/-! GENERATED by harness/cmd/xc04 from the Go sources — do not edit. Regenerated on every `./check C04`.\n")
	b.WriteString("Packages type-checked: " + fmt.Sprint(len(w.pkgs)) + ". -/\n")
	b.WriteString("namespace ZChain.Generated.C04\nopen ZChain.TransferSites\n\n")
	b.WriteString("def sites : List Site := [\n")
	for i, r := range rows {
		sep := ","
		if i == len(rows)-1 {
			sep = ""
		}
		fmt.Fprintf(&b, "  ⟨%s, %s, Kind.%s, Src.%s, Amt.%s, %v, %s, %s, %s⟩%s\n", q(r.pkg), q(r.fn), r.kind, r.src, r.amt, r.inLoop, q(r.guard), q(r.expr), q(r.via), sep)
	}
	b.WriteString("]\n\n")
	wf := func(name, typ string, fs []fact, n int) {
		fmt.Fprintf(&b, "def %s : List %s := [\n", name, typ)
		for i, f := range fs {
			sep := ","
			if i == len(fs)-1 {
				sep = ""
			}
			parts := []string{q(f.a), q(f.b), q(f.c), q(f.d)}[:n]
			fmt.Fprintf(&b, "  (%s)%s\n", strings.Join(parts, ", "), sep)
		}
		b.WriteString("]\n\n")
	}
	wf("clientWrites", "(String × String × String × String)", clientWrites, 4)
	wf("scIds", "(String × String × String × String)", scIds, 4)
	wf("minters", "(String × String)", minters, 2)
	wf("txnWrites", "(String × String × String)", txnWrites, 3)
	wf("txnMakes", "(String × String)", txnMakes, 2)
	wf("validateCalls", "(String × String)", validateCalls, 2)
	wf("transferWrites", "(String × String × String)", transferWrites, 3)
	b.WriteString("end ZChain.Generated.C04\n")
	if err := os.WriteFile(os.Args[2], []byte(b.String()), 0o644); err != nil {
		die(token.NoPos, "%v", err)
	}

	bad := 0
	hist := map[string]int{}
	for _, r := range rows {
		hist[r.kind+"/"+r.src]++
		if r.src == "other" || r.src == "foreignContract" || r.src == "mint" {
			bad++
			fmt.Fprintf(os.Stderr, "xc04: UNCLASSIFIED source at %s %s: %s  [%s]\n", r.pkg, r.fn, r.expr, r.via)
		}
	}
	var ks []string
	for k := range hist {
		ks = append(ks, k)
	}
	sort.Strings(ks)
	fmt.Printf("packages=%d rows=%d clientWrites=%d scIds=%d minters=%d txnWrites=%d txnMakes=%d validateCalls=%v\n", len(w.pkgs), len(rows), len(clientWrites), len(scIds), len(minters), len(txnWrites), len(txnMakes), validateCalls)
	for _, k := range ks {
		fmt.Printf("  %s=%d", k, hist[k])
	}
	fmt.Println()
	if bad > 0 {
		fmt.Fprintf(os.Stderr, "xc04: %d transfer site(s) with a source outside the allowed classes\n", bad)
		os.Exit(1)
	}
}
