// C46 harness: the real core/util/orderbuffer against Model/OrderBuffer.lean.
package main

import (
	"fmt"
	"math/rand"
	"sort"
	"strconv"
	"strings"

	"0chain.net/core/util/orderbuffer"
	"verifharness/lib/corr"
)

func showItem(it orderbuffer.Item, ok bool) string {
	if !ok {
		return "none"
	}
	return fmt.Sprintf("item %d %d", it.Round, it.Data.(int))
}

func impl(ops []string) []string {
	var ob *orderbuffer.OrderBuffer
	outs := make([]string, len(ops))
	for i, op := range ops {
		w := strings.Fields(op)
		func() {
			defer func() {
				if r := recover(); r != nil {
					outs[i] = "panic"
				}
			}()
			switch w[0] {
			case "new":
				m, _ := strconv.Atoi(w[1])
				ob = orderbuffer.New(m)
				outs[i] = "ok"
			case "add":
				r, _ := strconv.ParseInt(w[1], 10, 64)
				d, _ := strconv.Atoi(w[2])
				outs[i] = strconv.FormatBool(ob.Add(r, d))
			case "first":
				outs[i] = showItem(ob.First())
			case "pop":
				outs[i] = showItem(ob.Pop())
			case "dump":
				var parts []string
				for _, it := range ob.Buffer {
					parts = append(parts, fmt.Sprintf("%d:%d", it.Round, it.Data.(int)))
				}
				outs[i] = "buf " + strings.Join(parts, " ")
			default:
				outs[i] = "bad-op"
			}
		}()
	}
	return outs
}

// gen: mostly well-formed streams (an item's data determines its round, as a block pointer does),
// rounds drawn from a narrow range so that ties, repeats and overflow of the capacity are frequent.
func gen(r *rand.Rand, thorough bool, i int) []string {
	max := r.Intn(7)
	if r.Intn(10) == 0 {
		max = 100
	}
	n := 5 + r.Intn(40)
	if thorough {
		n = 5 + r.Intn(400)
	}
	span := int64(1 + r.Intn(12))
	base := int64(0)
	if r.Intn(4) == 0 {
		base = -5 // negative rounds are representable (int64)
	}
	if r.Intn(20) == 0 {
		base = 1<<62 - 3
	}
	illformed := r.Intn(8) == 0
	ops := []string{fmt.Sprintf("new %d", max)}
	var last string
	for k := 0; k < n; k++ {
		switch x := r.Intn(100); {
		case x < 55:
			rd := base + r.Int63n(span)
			variant := r.Intn(2) // up to two distinct blocks per round
			d := int((rd-base)*2) + variant
			if illformed {
				d = r.Intn(4)
			}
			last = fmt.Sprintf("add %d %d", rd, d)
			ops = append(ops, last)
		case x < 65 && last != "":
			ops = append(ops, last) // immediate exact repeat
		case x < 80:
			ops = append(ops, "pop")
		case x < 90:
			ops = append(ops, "first")
		default:
			ops = append(ops, "dump")
		}
	}
	ops = append(ops, "dump")
	return ops
}

// oracle: the property, stated on the implementation's answers with a reference multiset.
// Only well-formed streams are judged (data determines round): reference = sorted list where an add
// whose (round,data) equals the entry just before its upper-bound position is ignored, cut to max.
func oracle(ops, outs []string) *corr.Violation {
	type it struct {
		r int64
		d int
	}
	dataRound := map[int]int64{}
	var ref []it
	max := 0
	mk := func(sig, msg string) *corr.Violation {
		return &corr.Violation{Signature: "C46:" + sig, Message: msg, Ops: ops, Impl: outs}
	}
	for i, op := range ops {
		w := strings.Fields(op)
		switch w[0] {
		case "new":
			max, _ = strconv.Atoi(w[1])
			ref = nil
		case "add":
			r, _ := strconv.ParseInt(w[1], 10, 64)
			d, _ := strconv.Atoi(w[2])
			if pr, ok := dataRound[d]; ok && pr != r {
				return nil // ill-formed stream: outside the property's domain
			}
			dataRound[d] = r
			pos := sort.Search(len(ref), func(k int) bool { return ref[k].r > r })
			if pos > 0 && ref[pos-1] == (it{r, d}) {
				continue
			}
			ref = append(ref, it{})
			copy(ref[pos+1:], ref[pos:])
			ref[pos] = it{r, d}
			if len(ref) > max {
				ref = ref[:max] // only the highest rounds may be dropped
			}
		case "pop", "first":
			want := "none"
			if len(ref) > 0 {
				want = fmt.Sprintf("item %d %d", ref[0].r, ref[0].d)
				if w[0] == "pop" {
					ref = ref[1:]
				}
			}
			if outs[i] != want {
				return mk(w[0]+"-not-lowest", fmt.Sprintf("op %d %q answered %q, reference (lowest round first) says %q", i, op, outs[i], want))
			}
		case "dump":
			f := strings.Fields(outs[i])
			if len(f)-1 > max {
				return mk("over-capacity", fmt.Sprintf("op %d: buffer holds %d entries, capacity %d", i, len(f)-1, max))
			}
			var parts []string
			for _, x := range ref {
				parts = append(parts, fmt.Sprintf("%d:%d", x.r, x.d))
			}
			want := strings.TrimSpace("buf " + strings.Join(parts, " "))
			if strings.TrimSpace(outs[i]) != want {
				return mk("content", fmt.Sprintf("op %d: buffer %q, reference %q", i, outs[i], want))
			}
		}
	}
	return nil
}

func main() {
	corr.Main(corr.Prop{
		ID: "C46", Model: "C46", Gen: gen, Impl: impl, Oracle: oracle,
		Cases: func(th bool) int {
			if th {
				return 40000
			}
			return 1500
		},
		Fixed: [][]string{
			{"new 3", "add 5 1", "add 2 2", "add 9 3", "add 4 4", "dump", "pop", "pop", "pop", "pop"},
			{"new 5", "add 5 42", "add 7 42", "dump"}, // ill-formed: same data, other round
			{"new 0", "add 1 1", "dump", "pop"},
			{"new 2", "add 1 2", "add 1 3", "add 1 2", "dump"}, // repeat not at the insertion position
		},
	})
}
