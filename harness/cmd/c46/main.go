// C46 harness: the real core/util/orderbuffer against Model/OrderBuffer.lean.
package main

import (
	"fmt"
	"math"
	"math/rand"
	"sort"
	"strconv"
	"strings"
	"sync"

	"0chain.net/core/util/orderbuffer"
	"verifharness/lib/corr"
)

func showItem(it orderbuffer.Item, ok bool) string {
	if !ok {
		return "none"
	}
	return fmt.Sprintf("item %d %d", it.Round, it.Data.(int))
}

func impl(ops []string) []string {
	var ob *orderbuffer.OrderBuffer
	outs := make([]string, len(ops))
	for i, op := range ops {
		w := strings.Fields(op)
		func() {
			defer func() {
				if r := recover(); r != nil {
					outs[i] = "panic"
				}
			}()
			switch w[0] {
			case "new":
				m, _ := strconv.Atoi(w[1])
				ob = orderbuffer.New(m)
				outs[i] = "ok"
			case "add":
				r, _ := strconv.ParseInt(w[1], 10, 64)
				d, _ := strconv.Atoi(w[2])
				outs[i] = strconv.FormatBool(ob.Add(r, d))
			case "first":
				outs[i] = showItem(ob.First())
			case "pop":
				outs[i] = showItem(ob.Pop())
			case "dump":
				var parts []string
				for _, it := range ob.Buffer {
					parts = append(parts, fmt.Sprintf("%d:%d", it.Round, it.Data.(int)))
				}
				outs[i] = "buf " + strings.Join(parts, " ")
			default:
				outs[i] = "bad-op"
			}
		}()
	}
	return outs
}

// gen: mostly well-formed streams (an item's data determines its round, as a block pointer does),
// rounds drawn from a narrow range so that ties, repeats and overflow of the capacity are frequent.
func gen(r *rand.Rand, thorough bool, i int) []string {
	max := r.Intn(7)
	if r.Intn(10) == 0 {
		max = 100
	}
	n := 5 + r.Intn(40)
	if thorough {
		n = 5 + r.Intn(400)
	}
	span := int64(1 + r.Intn(12))
	base := int64(0)
	if r.Intn(4) == 0 {
		base = -5 // negative rounds are representable (int64)
	}
	if r.Intn(20) == 0 {
		base = 1<<62 - 3
	}
	illformed := r.Intn(8) == 0
	// every 6th case draws its rounds from the whole int64 range: rounds more than 2^63 apart are where a
	// comparison written as a subtraction would change sign
	wide := r.Intn(6) == 0
	wideRounds := []int64{math.MinInt64, math.MinInt64 + 1, -(1 << 62), -1, 0, 1, 10, 1 << 62, math.MaxInt64 - 1, math.MaxInt64}
	ops := []string{fmt.Sprintf("new %d", max)}
	var last string
	for k := 0; k < n; k++ {
		switch x := r.Intn(100); {
		case x < 55:
			rd := base + r.Int63n(span)
			variant := r.Intn(2) // up to two distinct blocks per round
			d := int((rd-base)*2) + variant
			if wide {
				j := r.Intn(len(wideRounds))
				rd, d = wideRounds[j], j*2+variant
			}
			if illformed {
				d = r.Intn(4)
			}
			last = fmt.Sprintf("add %d %d", rd, d)
			ops = append(ops, last)
		case x < 65 && last != "":
			ops = append(ops, last) // immediate exact repeat
		case x < 80:
			ops = append(ops, "pop")
		case x < 90:
			ops = append(ops, "first")
		default:
			ops = append(ops, "dump")
		}
	}
	ops = append(ops, "dump")
	return ops
}

// oracle: the property, stated on the implementation's answers with a reference multiset.
// Only well-formed streams are judged (data determines round): reference = sorted list where an add
// whose (round,data) equals the entry just before its upper-bound position is ignored, cut to max.
func oracle(ops, outs []string) *corr.Violation {
	type it struct {
		r int64
		d int
	}
	dataRound := map[int]int64{}
	var ref []it
	max := 0
	mk := func(sig, msg string) *corr.Violation {
		return &corr.Violation{Signature: "C46:" + sig, Message: msg, Ops: ops, Impl: outs}
	}
	for i, op := range ops {
		w := strings.Fields(op)
		switch w[0] {
		case "new":
			max, _ = strconv.Atoi(w[1])
			ref = nil
		case "add":
			r, _ := strconv.ParseInt(w[1], 10, 64)
			d, _ := strconv.Atoi(w[2])
			if pr, ok := dataRound[d]; ok && pr != r {
				return nil // ill-formed stream: outside the property's domain
			}
			dataRound[d] = r
			pos := sort.Search(len(ref), func(k int) bool { return ref[k].r > r })
			if pos > 0 && ref[pos-1] == (it{r, d}) {
				continue
			}
			ref = append(ref, it{})
			copy(ref[pos+1:], ref[pos:])
			ref[pos] = it{r, d}
			if len(ref) > max {
				ref = ref[:max] // only the highest rounds may be dropped
			}
		case "pop", "first":
			want := "none"
			if len(ref) > 0 {
				want = fmt.Sprintf("item %d %d", ref[0].r, ref[0].d)
				if w[0] == "pop" {
					ref = ref[1:]
				}
			}
			if outs[i] != want {
				return mk(w[0]+"-not-lowest", fmt.Sprintf("op %d %q answered %q, reference (lowest round first) says %q", i, op, outs[i], want))
			}
		case "dump":
			f := strings.Fields(outs[i])
			if len(f)-1 > max {
				return mk("over-capacity", fmt.Sprintf("op %d: buffer holds %d entries, capacity %d", i, len(f)-1, max))
			}
			var parts []string
			for _, x := range ref {
				parts = append(parts, fmt.Sprintf("%d:%d", x.r, x.d))
			}
			want := strings.TrimSpace("buf " + strings.Join(parts, " "))
			if strings.TrimSpace(outs[i]) != want {
				return mk("content", fmt.Sprintf("op %d: buffer %q, reference %q", i, outs[i], want))
			}
		}
	}
	return nil
}

// stress: concurrent producers (distinct well-formed items) and one consumer on the real buffer. If every method
// is atomic, then at quiescence the buffer is sorted, nothing is duplicated, and (capacity ≥ everything added)
// popped ∪ remaining = added. A search over schedules the Go scheduler happens to produce — not a proof.
func stress(thorough bool, seed int64) []corr.Violation {
	trials, producers, per := 30, 8, 1500
	if thorough {
		trials = 400
	}
	for t := 0; t < trials; t++ {
		total := producers * per
		ob := orderbuffer.New(total + 10)
		var wg sync.WaitGroup
		popped := make(chan orderbuffer.Item, total)
		stop := make(chan struct{})
		var cwg sync.WaitGroup
		cwg.Add(1)
		panicked := make(chan string, producers+1)
		go func() {
			defer cwg.Done()
			defer func() {
				if r := recover(); r != nil {
					panicked <- fmt.Sprint(r)
				}
			}()
			last := int64(-1 << 62)
			_ = last
			for {
				select {
				case <-stop:
					return
				default:
				}
				if it, ok := ob.Pop(); ok {
					popped <- it
				}
			}
		}()
		for p := 0; p < producers; p++ {
			wg.Add(1)
			go func(p int) {
				defer wg.Done()
				defer func() {
					if r := recover(); r != nil {
						panicked <- fmt.Sprint(r)
					}
				}()
				r := rand.New(rand.NewSource(seed*7919 + int64(t*producers+p)))
				for k := 0; k < per; k++ {
					round := int64(r.Intn(total))
					d := int(round)*producers*per + p*per + k // data determines the round; all items distinct
					// every item is added exactly once: a repeated add may legitimately be stored twice when another
					// block of the same round slips in between (the repeat test only looks at the predecessor)
					ob.Add(round, d)
				}
			}(p)
		}
		wg.Wait()
		close(stop)
		cwg.Wait()
		close(popped)
		mk := func(sig, msg string) []corr.Violation {
			return []corr.Violation{{Signature: "C46:concurrent-" + sig, Message: fmt.Sprintf("trial %d (%d producers x %d adds, 1 consumer): %s", t, producers, per, msg),
				Ops: []string{fmt.Sprintf("stress seed=%d trial=%d producers=%d per=%d", seed, t, producers, per)}}}
		}
		select {
		case m := <-panicked:
			return mk("panic", m)
		default:
		}
		seen := map[int]int{}
		for it := range popped {
			seen[it.Data.(int)]++
		}
		prev := int64(-1 << 62)
		for i, it := range ob.Buffer {
			if it.Round < prev {
				return mk("unsorted", fmt.Sprintf("at quiescence position %d holds round %d after round %d", i, it.Round, prev))
			}
			prev = it.Round
			seen[it.Data.(int)]++
		}
		for d, c := range seen {
			if c > 1 {
				return mk("duplicate", fmt.Sprintf("item %d present %d times", d, c))
			}
		}
		if len(seen) > total {
			return mk("extra", "more items than were added")
		}
		if len(seen) < total {
			return mk("lost", fmt.Sprintf("%d of %d distinct items were lost although capacity was never reached", total-len(seen), total))
		}
	}
	return nil
}

func main() {
	corr.Main(corr.Prop{
		ID: "C46", Model: "C46", Gen: gen, Impl: impl, Oracle: oracle, Stress: stress,
		Cases: func(th bool) int {
			if th {
				return 40000
			}
			return 1500
		},
		Fixed: [][]string{
			{"new 3", "add 5 1", "add 2 2", "add 9 3", "add 4 4", "dump", "pop", "pop", "pop", "pop"},
			{"new 5", "add 5 42", "add 7 42", "dump"}, // ill-formed: same data, other round
			{"new 0", "add 1 1", "dump", "pop"},
			{"new 2", "add 1 2", "add 1 3", "add 1 2", "dump"}, // repeat not at the insertion position
		},
	})
}
