// f64 harness: bit-exact differential of Base/F64.lean + Base/Coin.lean (driver zdrv-F64) against Go's float64
// and the real github.com/0chain/common core/currency. Stand-alone runner; the same cases also run inside C10's check.
package main

import (
	"math/rand"

	"verifharness/cmd/f64/f64ops"
	"verifharness/lib/corr"
)

func impl(ops []string) []string {
	outs := make([]string, len(ops))
	for i, op := range ops {
		outs[i] = f64ops.Answer(op)
	}
	return outs
}

func main() {
	corr.Main(corr.Prop{
		ID: "F64", Model: "F64",
		Gen:  func(r *rand.Rand, thorough bool, i int) []string { return f64ops.Case(r, 200) },
		Impl: impl,
		Cases: func(th bool) int {
			if th {
				return 6000
			}
			return 600
		},
		Fixed: f64ops.Fixed(),
		Extra: f64ops.Extra,
	})
}
