// Package f64ops is the bit-exact differential of Base/F64.lean and Base/Coin.lean against Go:
// generator of `f64 …` / `coin …` operation lines (see lean/ZChain/Base/F64Line.lean for the protocol) and the
// Go side that answers them with the machine's float64 arithmetic and the REAL github.com/0chain/common
// core/currency functions. Shared by harness/cmd/f64 (stand-alone) and harness/cmd/c10 (the tie runs on every C10 check).
package f64ops

import (
	"errors"
	"fmt"
	"math"
	"math/rand"
	"strconv"
	"strings"
	"sync/atomic"

	"github.com/0chain/common/core/currency"
)

const NaNHex = "7ff8000000000000"

func Hex(f float64) string {
	if f != f {
		return NaNHex
	}
	return fmt.Sprintf("%016x", math.Float64bits(f))
}

func FromHex(s string) (float64, bool) {
	if len(s) != 16 {
		return 0, false
	}
	b, err := strconv.ParseUint(s, 16, 64)
	if err != nil || strings.ToLower(s) != s {
		return 0, false
	}
	return math.Float64frombits(b), true
}

// UndefU64 reports whether Go leaves uint64(f) implementation-defined (the model's `undef`).
func UndefU64(f float64) bool { return f != f || f >= 18446744073709551616.0 || f <= -1 }

func undefI64(f float64) bool { return f != f || f >= 9223372036854775808.0 || f < -9223372036854775808.0 }

// ErrTag maps a currency error to the model's error class.
func ErrTag(err error) string {
	switch {
	case errors.Is(err, currency.ErrUint64AddOverflow):
		return "add-overflow"
	case errors.Is(err, currency.ErrUint64MinusOverflow):
		return "minus-overflow"
	case errors.Is(err, currency.ErrUint64MultOverflow):
		return "mult-overflow"
	case errors.Is(err, currency.ErrUint64OverflowsInt64):
		return "u64-overflows-i64"
	case errors.Is(err, currency.ErrInt64UnderflowsUint64):
		return "i64-underflows-u64"
	case errors.Is(err, currency.ErrFloat64UnderflowsUint64):
		return "f64-underflows-u64"
	case errors.Is(err, currency.ErrNegativeValue):
		return "negative-value"
	case errors.Is(err, currency.ErrUint64OverflowsFloat64):
		return "u64-overflows-f64"
	}
	return "other:" + err.Error()
}

func coinRes(c currency.Coin, err error) string {
	if err != nil {
		return "err " + ErrTag(err)
	}
	return "ok " + strconv.FormatUint(uint64(c), 10)
}

// IsOp reports whether the line belongs to this protocol.
func IsOp(op string) bool { return strings.HasPrefix(op, "f64.") || strings.HasPrefix(op, "coin.") }

// Answer runs one op on the Go side.
func Answer(op string) (res string) {
	defer func() {
		if r := recover(); r != nil {
			if strings.Contains(fmt.Sprint(r), "divide by zero") {
				res = "err panic-div-zero"
			} else {
				res = "panic"
			}
		}
	}()
	w := strings.Fields(op)
	if len(w) < 1 {
		return "bad-op"
	}
	u64 := func(s string) (uint64, bool) { v, err := strconv.ParseUint(s, 10, 64); return v, err == nil }
	i64 := func(s string) (int64, bool) { v, err := strconv.ParseInt(s, 10, 64); return v, err == nil }
	h := func(f float64) string { return "h " + Hex(f) }
	b := func(v bool) string { return "b " + strconv.FormatBool(v) }
	switch {
	case w[0] == "f64.init" && len(w) == 1:
		return "ok"
	case w[0] == "f64.ofu" && len(w) == 2:
		if n, ok := u64(w[1]); ok {
			return h(float64(n))
		}
	case w[0] == "f64.ofi" && len(w) == 2:
		if n, ok := i64(w[1]); ok {
			return h(float64(n))
		}
	case strings.HasPrefix(w[0], "f64.") && len(w) == 3:
		x, ok1 := FromHex(w[1])
		y, ok2 := FromHex(w[2])
		if !ok1 || !ok2 {
			return "bad-op"
		}
		switch w[0] {
		case "f64.mul":
			return h(x * y)
		case "f64.div":
			return h(x / y)
		case "f64.add":
			return h(x + y)
		case "f64.sub":
			return h(x - y)
		case "f64.lt":
			return b(x < y)
		case "f64.le":
			return b(x <= y)
		case "f64.eq":
			return b(x == y)
		}
	case strings.HasPrefix(w[0], "f64.") && len(w) == 2:
		a, ok := FromHex(w[1])
		if !ok {
			return "bad-op"
		}
		switch w[0] {
		case "f64.tou":
			if UndefU64(a) {
				return "undef"
			}
			return "n " + strconv.FormatUint(uint64(a), 10)
		case "f64.toi":
			if undefI64(a) {
				return "undef"
			}
			return "n " + strconv.FormatInt(int64(a), 10)
		case "f64.floor":
			return h(math.Floor(a))
		case "f64.ceil":
			return h(math.Ceil(a))
		case "f64.rte":
			return h(math.RoundToEven(a))
		case "f64.trunc":
			return h(math.Trunc(a))
		case "f64.neg":
			return h(-a)
		}
	case len(w) == 2 && w[0] == "coin.toi64":
		if c, ok := u64(w[1]); ok {
			v, err := currency.Coin(c).Int64()
			if err != nil {
				return "err " + ErrTag(err)
			}
			return "ok " + strconv.FormatInt(v, 10)
		}
	case len(w) == 2 && w[0] == "coin.ofi64":
		if i, ok := i64(w[1]); ok {
			return coinRes(currency.Int64ToCoin(i))
		}
	case len(w) == 2 && w[0] == "coin.tof":
		if c, ok := u64(w[1]); ok {
			f, err := currency.Coin(c).Float64()
			if err != nil {
				return "err " + ErrTag(err)
			}
			return h(f)
		}
	case len(w) == 2 && w[0] == "coin.f2c":
		if a, ok := FromHex(w[1]); ok {
			c, err := currency.Float64ToCoin(a)
			if err == nil && UndefU64(a) {
				return "err undef"
			}
			return coinRes(c, err)
		}
	case len(w) == 3 && (w[0] == "coin.addi64" || w[0] == "coin.subi64" || w[0] == "coin.dist"):
		c, ok1 := u64(w[1])
		i, ok2 := i64(w[2])
		if !ok1 || !ok2 {
			return "bad-op"
		}
		switch w[0] {
		case "coin.addi64":
			return coinRes(currency.AddInt64(currency.Coin(c), i))
		case "coin.subi64":
			return coinRes(currency.MinusInt64(currency.Coin(c), i))
		case "coin.dist":
			q, r, err := currency.DistributeCoin(currency.Coin(c), i)
			if err != nil {
				return "err " + ErrTag(err)
			}
			return fmt.Sprintf("ok %d %d", uint64(q), uint64(r))
		}
	case len(w) == 3 && w[0] == "coin.mulf":
		c, ok1 := u64(w[1])
		a, ok2 := FromHex(w[2])
		if !ok1 || !ok2 {
			return "bad-op"
		}
		v, err := currency.MultFloat64(currency.Coin(c), a)
		if err == nil && UndefU64(float64(c)*a) {
			return "err undef"
		}
		return coinRes(v, err)
	case len(w) == 3 && strings.HasPrefix(w[0], "coin."):
		x, ok1 := u64(w[1])
		y, ok2 := u64(w[2])
		if !ok1 || !ok2 {
			return "bad-op"
		}
		A, B := currency.Coin(x), currency.Coin(y)
		switch w[0] {
		case "coin.add":
			return coinRes(currency.AddCoin(A, B))
		case "coin.sub":
			return coinRes(currency.MinusCoin(A, B))
		case "coin.mul":
			return coinRes(currency.MultCoin(A, B))
		case "coin.min":
			return coinRes(currency.Min(A, B), nil)
		case "coin.wadd":
			return coinRes(A+B, nil)
		case "coin.wsub":
			return coinRes(A-B, nil)
		}
	}
	return "bad-op"
}

// ---------------------------------------------------------------------------------------------------------
// generators

var (
	NPairs  int64 // operand tuples generated
	NTies   int64 // of which constructed exact ties
	NBound  int64 // of which boundary coins
	NFloats int64
)

// BoundaryCoin: 0, 1, 2^32±k, 2^53±k, 2^63±k, 2^64−k, supply-sized and random values.
func BoundaryCoin(r *rand.Rand) uint64 {
	k := uint64(r.Intn(5))
	if r.Intn(6) == 0 {
		k = uint64(r.Intn(2100))
	}
	switch r.Intn(14) {
	case 0:
		return k
	case 1:
		return 1<<53 + k
	case 2:
		return 1<<53 - k
	case 3:
		return 1<<63 + k
	case 4:
		return 1<<63 - k
	case 5:
		return math.MaxUint64 - k
	case 6:
		return 1<<32 + k
	case 7:
		return 1<<32 - k
	case 8:
		return uint64(r.Int63n(4e18 + 1))
	case 9:
		return uint64(r.Int63n(1e6)) * 1e10
	case 10:
		return 1<<54 + 2*k + uint64(r.Intn(2))
	case 11:
		// 54..64-bit odd multiples: exact ties of float64(n)
		s := uint(r.Intn(11))
		return ((1<<53 + uint64(r.Int63n(1<<53))) | 1) << s
	case 12:
		return r.Uint64() >> uint(r.Intn(64))
	default:
		return r.Uint64()
	}
}

func boundaryI64(r *rand.Rand) int64 {
	switch r.Intn(8) {
	case 0:
		return int64(r.Intn(5))
	case 1:
		return -int64(r.Intn(5))
	case 2:
		return math.MaxInt64 - int64(r.Intn(4))
	case 3:
		return math.MinInt64 + int64(r.Intn(4))
	case 4:
		return int64(BoundaryCoin(r) >> 1)
	case 5:
		return -int64(BoundaryCoin(r) >> 1)
	case 6:
		return int64(1 + r.Intn(60))
	default:
		return int64(r.Uint64())
	}
}

// Float operand: random mantissa/exponent, powers of two ± 1 ulp, integers around 2^53/2^63/2^64, ratios in
// [0,1], subnormals, specials.
func Float(r *rand.Rand) float64 {
	atomic.AddInt64(&NFloats, 1)
	var f float64
	switch r.Intn(16) {
	case 0: // any bit pattern
		f = math.Float64frombits(r.Uint64())
	case 1, 2: // random mantissa, moderate exponent
		f = math.Float64frombits(uint64(1023-70+r.Intn(140))<<52 | uint64(r.Int63n(1<<52)))
	case 3: // power of two ± ulps
		f = math.Float64frombits(uint64(1+r.Intn(2046))<<52 + uint64(r.Intn(5)) - 2)
	case 4: // ratio in [0,1]
		f = r.Float64()
	case 5: // short decimal ratios, as configured in sc.yaml
		f = float64(r.Intn(101)) / 100
	case 6: // exactly representable integers
		f = float64(BoundaryCoin(r))
	case 7: // subnormals
		f = math.Float64frombits(uint64(r.Int63n(1 << 52)) >> uint(r.Intn(52)))
	case 8: // near the overflow threshold
		f = math.Float64frombits(uint64(2046-r.Intn(3))<<52 | uint64(r.Int63n(1<<52)))
	case 9: // near the smallest normals
		f = math.Float64frombits(uint64(r.Intn(4))<<52 | uint64(r.Int63n(1<<52)))
	case 10:
		sp := []float64{0, math.Copysign(0, -1), math.Inf(1), math.Inf(-1), math.NaN(), 1, -1, 0.5, 2, math.MaxFloat64, math.SmallestNonzeroFloat64,
			1 << 53, 1<<53 + 2, 1 << 63, 1 << 64, 1<<64 - 2048, 0.1, 0.2, 0.3, 1 - 1.0/(1<<53), 1 + 1.0/(1<<52)}
		f = sp[r.Intn(len(sp))]
	case 11: // small integers and halves
		f = float64(r.Intn(4096)) / 2
	case 12: // one ulp around 1
		f = math.Float64frombits(math.Float64bits(1) + uint64(r.Intn(7)) - 3)
	case 13: // 27/28-bit odd integers (products are 54-bit odd numbers = exact ties)
		f = float64(uint64(1<<26+r.Intn(1<<27)) | 1)
	default:
		f = math.Float64frombits(uint64(1023-1100+r.Intn(2200))&0x7ff<<52 | uint64(r.Int63n(1<<52)))
	}
	if r.Intn(9) == 0 {
		f = -f
	}
	return f
}

// tie: operand pair whose exact result is halfway between two doubles, for the given op.
func tie(r *rand.Rand, op string) (float64, float64) {
	atomic.AddInt64(&NTies, 1)
	switch op {
	case "mul":
		for {
			a := uint64(1<<26+r.Intn(1<<26)) | 1
			b := uint64(1<<26+r.Intn(1<<27)) | 1
			if p := a * b; p >= 1<<53 && p < 1<<54 {
				sc := math.Ldexp(1, r.Intn(40)-20)
				return float64(a) * sc, float64(b)
			}
		}
	case "add", "sub":
		a := float64((1<<52 + uint64(r.Int63n(1<<52))) * 2) // even 54-bit number: ulp 2
		b := 1.0
		sc := math.Ldexp(1, r.Intn(60)-30)
		if op == "sub" {
			return a * sc, -b * sc
		}
		return a * sc, b * sc
	default: // div: ties only in the subnormal range
		a := math.Float64frombits(uint64(r.Int63n(1<<20)) | 1)
		return a, float64(uint64(2) << uint(r.Intn(3)))
	}
}

var binops = []string{"mul", "mul", "mul", "div", "div", "add", "sub", "lt", "le", "eq"}
var unops = []string{"tou", "tou", "toi", "floor", "ceil", "rte", "trunc", "neg"}
var coin2 = []string{"add", "sub", "mul", "min", "wadd", "wsub"}

// Case generates one case of n stateless ops (the first re-initialises, as the runner requires).
func Case(r *rand.Rand, n int) []string {
	ops := []string{"f64.init"}
	for len(ops) < n {
		atomic.AddInt64(&NPairs, 1)
		switch x := r.Intn(100); {
		case x < 45:
			op := binops[r.Intn(len(binops))]
			a, b := Float(r), Float(r)
			if r.Intn(8) == 0 && (op == "mul" || op == "div" || op == "add" || op == "sub") {
				a, b = tie(r, op)
			}
			if r.Intn(10) == 0 {
				b = a
			}
			ops = append(ops, fmt.Sprintf("f64.%s %s %s", op, Hex(a), Hex(b)))
		case x < 55:
			ops = append(ops, fmt.Sprintf("f64.%s %s", unops[r.Intn(len(unops))], Hex(Float(r))))
		case x < 62:
			atomic.AddInt64(&NBound, 1)
			ops = append(ops, fmt.Sprintf("f64.ofu %d", BoundaryCoin(r)))
		case x < 65:
			ops = append(ops, fmt.Sprintf("f64.ofi %d", boundaryI64(r)))
		case x < 78:
			atomic.AddInt64(&NBound, 1)
			a, b := BoundaryCoin(r), BoundaryCoin(r)
			if r.Intn(5) == 0 && b != 0 { // a*b wrapping to a multiple of 2^64, or just below/above 2^64
				b = 1 << uint(r.Intn(64))
				a = (uint64(1) << uint(64-r.Intn(64))) + uint64(r.Intn(3)) - 1
			}
			ops = append(ops, fmt.Sprintf("coin.%s %d %d", coin2[r.Intn(len(coin2))], a, b))
		case x < 90:
			atomic.AddInt64(&NBound, 1)
			c := BoundaryCoin(r)
			f := Float(r)
			if r.Intn(3) > 0 { // the contracts' use: ratio in [0,1] (and slightly above)
				f = r.Float64()
				if r.Intn(4) == 0 {
					f = math.Float64frombits(math.Float64bits(1) + uint64(r.Intn(5)) - 2)
				}
			}
			ops = append(ops, fmt.Sprintf("coin.mulf %d %s", c, Hex(f)))
		case x < 93:
			ops = append(ops, fmt.Sprintf("coin.f2c %s", Hex(Float(r))))
		case x < 95:
			ops = append(ops, fmt.Sprintf("coin.tof %d", BoundaryCoin(r)))
		case x < 96:
			ops = append(ops, fmt.Sprintf("coin.toi64 %d", BoundaryCoin(r)))
		case x < 97:
			ops = append(ops, fmt.Sprintf("coin.ofi64 %d", boundaryI64(r)))
		default:
			ops = append(ops, fmt.Sprintf("coin.%s %d %d", []string{"addi64", "subi64", "dist"}[r.Intn(3)], BoundaryCoin(r), boundaryI64(r)))
		}
	}
	return ops
}

// Fixed cases: the named boundary values of DESIGN §4.1/§4.2.
func Fixed() [][]string {
	c := []string{"f64.init"}
	for _, n := range []uint64{0, 1, 1<<53 - 1, 1 << 53, 1<<53 + 1, 1<<53 + 2, 1<<53 + 3, 1<<54 + 2, 1<<54 + 6, 1<<63 - 1, 1 << 63, 1<<63 + 1024, 1<<63 + 1025,
		1<<64 - 2049, 1<<64 - 1025, 1<<64 - 1024, 1<<64 - 1} {
		c = append(c, fmt.Sprintf("f64.ofu %d", n), fmt.Sprintf("coin.mulf %d %s", n, Hex(1.0)), fmt.Sprintf("coin.tof %d", n), fmt.Sprintf("coin.toi64 %d", n))
	}
	for _, f := range []float64{0, math.Copysign(0, -1), -0.5, -1, 0.999, 1 << 53, 1<<64 - 2048, 1 << 64, math.Inf(1), math.NaN(), -1e-320} {
		c = append(c, "f64.tou "+Hex(f), "coin.f2c "+Hex(f), "f64.toi "+Hex(f))
	}
	c = append(c, "coin.mul 4294967296 4294967296", "coin.mul 4294967296 4294967295", "coin.mul 0 5", "coin.mul 5 0", "coin.dist 7 0", "coin.dist 7 -1", "coin.dist 7 3",
		"coin.add 18446744073709551615 1", "coin.add 18446744073709551615 0", "coin.sub 0 1", "coin.wsub 0 1", "coin.wadd 18446744073709551615 1",
		"f64.mul 3ff0000000000000 x", "f64.frob 0 0", "coin.add 18446744073709551616 1", "coin.add -1 1", "f64.ofu 18446744073709551616")
	return [][]string{c}
}

// Extra: numbers for the evidence file.
func Extra() map[string]interface{} {
	return map[string]interface{}{
		"f64_operand_tuples": atomic.LoadInt64(&NPairs), "f64_constructed_ties": atomic.LoadInt64(&NTies),
		"boundary_coin_tuples": atomic.LoadInt64(&NBound), "float_operands_drawn": atomic.LoadInt64(&NFloats),
	}
}
