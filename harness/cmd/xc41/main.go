// xc41: translator obligation of C41. `xc41 <gosrc> <out.lean>` writes lean/ZChain/Generated/C41.lean: the guards and
// the arithmetic of Chain.StartLFBTicketWorker and Chain.verifyLFBTicket as they are in the CURRENT source.
// Props/C41.lean states they are the ones Model/LFB.lean was transcribed from (`ticket.Round <= latest.Round`, … with
// no arithmetic on rounds). Fail closed: a missing function or unprintable guard is an error (exit 1).
package main

import (
	"fmt"
	"os"
	"path/filepath"

	"verifharness/guardx"
)

func main() {
	if len(os.Args) != 3 {
		fmt.Fprintln(os.Stderr, "usage: xc41 <gosrc> <out.lean>")
		os.Exit(2)
	}
	file := filepath.Join(os.Args[1], "chaincore/chain/protocol_lfb_ticket.go")
	var facts []*guardx.Facts
	for _, fn := range []string{"StartLFBTicketWorker", "verifyLFBTicket"} {
		f, err := guardx.Extract(file, "Chain", fn)
		if err != nil {
			fmt.Fprintln(os.Stderr, "xc41:", err)
			os.Exit(1)
		}
		facts = append(facts, f)
		fmt.Printf("%s: %d guards, %d arithmetic expressions\n", fn, len(f.Guards), len(f.Arith))
	}
	if err := guardx.WriteLean(os.Args[2], "C41", "xc41", facts); err != nil {
		fmt.Fprintln(os.Stderr, "xc41:", err)
		os.Exit(1)
	}
}
