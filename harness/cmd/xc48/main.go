// xc48: translator for C48 (governance settings). Reads the Go sources of the settings tables and update
// functions under $GOSRC (default /repo/code/go/0chain.net) with go/parser and writes
//
//	<out>.lean  — lean/ZChain/Generated/C48.lean: the tables the Lean model is instantiated with
//	<json>      — the same tables plus the Go field path of every setting, read by harness/cmd/c48
//
// Extracted, per contract: setting name ↦ (config type, mutable?, setter function, field path); the
// config-type dispatch of `set` (type ↦ parser calls, setter); the key switch of faucet/vesting/zcn
// `update` (name ↦ parser calls, field path); cost-function lists; the ordered list of notable calls of
// every update entry point (authorize / decode / update / validate / save, fork-gated branches spelled out);
// the source text of every `validate` condition. Fail closed: anything that does not match the expected
// syntactic shape is an error (non-zero exit), never a default.
package main

import (
	"bytes"
	"encoding/json"
	"fmt"
	"go/ast"
	"go/parser"
	"go/printer"
	"go/token"
	"os"
	"path/filepath"
	"sort"
	"strconv"
	"strings"
)

var fset = token.NewFileSet()

func die(f string, a ...interface{}) {
	fmt.Fprintf(os.Stderr, "xc48: "+f+"\n", a...)
	os.Exit(1)
}

type pkg struct {
	dir    string
	files  []*ast.File
	consts map[string]string   // string constants
	enums  map[string]int      // iota enums (ident -> value)
	funcs  map[string]*ast.FuncDecl // "Recv.Name" or "Name"
	vars   map[string]ast.Expr
	structs map[string]*ast.StructType
}

func load(dir string) *pkg {
	p := &pkg{dir: dir, consts: map[string]string{}, enums: map[string]int{}, funcs: map[string]*ast.FuncDecl{}, vars: map[string]ast.Expr{}, structs: map[string]*ast.StructType{}}
	ents, err := os.ReadDir(dir)
	if err != nil {
		die("read %s: %v", dir, err)
	}
	for _, e := range ents {
		n := e.Name()
		if !strings.HasSuffix(n, ".go") || strings.HasSuffix(n, "_test.go") || strings.HasSuffix(n, "_gen.go") {
			continue
		}
		f, err := parser.ParseFile(fset, filepath.Join(dir, n), nil, parser.ParseComments)
		if err != nil {
			die("parse %s: %v", n, err)
		}
		// honour build tags crudely: skip files that need a tag other than the default build
		skip := false
		for _, cg := range f.Comments {
			if cg.Pos() > f.Package {
				break
			}
			for _, c := range cg.List {
				if strings.HasPrefix(c.Text, "//go:build") && (strings.Contains(c.Text, "integration_tests") || strings.Contains(c.Text, "verif")) && !strings.Contains(c.Text, "!") {
					skip = true
				}
			}
		}
		if skip {
			continue
		}
		p.files = append(p.files, f)
	}
	for _, f := range p.files {
		for _, d := range f.Decls {
			switch d := d.(type) {
			case *ast.FuncDecl:
				name := d.Name.Name
				if d.Recv != nil && len(d.Recv.List) == 1 {
					name = recvName(d.Recv.List[0].Type) + "." + name
				}
				p.funcs[name] = d
			case *ast.GenDecl:
				switch d.Tok {
				case token.CONST:
					iota := 0
					var lastType ast.Expr
					var lastVals []ast.Expr
					for _, s := range d.Specs {
						vs := s.(*ast.ValueSpec)
						vals := vs.Values
						if len(vals) == 0 {
							vals = lastVals
						} else {
							lastVals = vals
							lastType = vs.Type
						}
						_ = lastType
						for i, nm := range vs.Names {
							if i < len(vals) {
								if s, ok := constString(p, vals[i]); ok {
									p.consts[nm.Name] = s
								} else if usesIota(vals[i]) {
									p.enums[nm.Name] = iota
								}
							}
						}
						iota++
					}
				case token.VAR:
					for _, s := range d.Specs {
						vs := s.(*ast.ValueSpec)
						for i, nm := range vs.Names {
							if i < len(vs.Values) {
								p.vars[nm.Name] = vs.Values[i]
							}
						}
					}
				case token.TYPE:
					for _, s := range d.Specs {
						ts := s.(*ast.TypeSpec)
						if st, ok := ts.Type.(*ast.StructType); ok {
							p.structs[ts.Name.Name] = st
						}
					}
				}
			}
		}
	}
	return p
}

func usesIota(e ast.Expr) bool {
	found := false
	ast.Inspect(e, func(n ast.Node) bool {
		if id, ok := n.(*ast.Ident); ok && id.Name == "iota" {
			found = true
		}
		return true
	})
	return found
}

func recvName(e ast.Expr) string {
	switch e := e.(type) {
	case *ast.StarExpr:
		return recvName(e.X)
	case *ast.Ident:
		return e.Name
	}
	return "?"
}

// constString evaluates string-constant expressions: literals, +, strings.ToLower(lit), fmt.Sprintf("%s.", c), named constants.
func constString(p *pkg, e ast.Expr) (string, bool) {
	switch e := e.(type) {
	case *ast.BasicLit:
		if e.Kind == token.STRING {
			s, err := strconv.Unquote(e.Value)
			return s, err == nil
		}
	case *ast.ParenExpr:
		return constString(p, e.X)
	case *ast.BinaryExpr:
		if e.Op == token.ADD {
			a, ok1 := constString(p, e.X)
			b, ok2 := constString(p, e.Y)
			return a + b, ok1 && ok2
		}
	case *ast.Ident:
		s, ok := p.consts[e.Name]
		return s, ok
	case *ast.CallExpr:
		if callName(e) == "strings.ToLower" && len(e.Args) == 1 {
			s, ok := constString(p, e.Args[0])
			return strings.ToLower(s), ok
		}
	}
	return "", false
}

func callName(c *ast.CallExpr) string {
	switch f := c.Fun.(type) {
	case *ast.SelectorExpr:
		if x, ok := f.X.(*ast.Ident); ok {
			return x.Name + "." + f.Sel.Name
		}
		return "." + f.Sel.Name
	case *ast.Ident:
		return f.Name
	}
	return ""
}

func src(n ast.Node) string {
	var b bytes.Buffer
	printer.Fprint(&b, fset, n)
	return strings.Join(strings.Fields(b.String()), " ")
}

func (p *pkg) fn(name string) *ast.FuncDecl {
	f := p.funcs[name]
	if f == nil {
		die("%s: function %s not found", p.dir, name)
	}
	return f
}

// ---- name tables: `Arr[X] = "<const string>"` assignments inside a function --------------------------------

func nameAssignments(p *pkg, fn, arr string) map[string]string {
	res := map[string]string{}
	for _, st := range p.fn(fn).Body.List {
		as, ok := st.(*ast.AssignStmt)
		if !ok || len(as.Lhs) != 1 {
			die("%s: unexpected statement in %s: %s", p.dir, fn, src(st))
		}
		ix, ok := as.Lhs[0].(*ast.IndexExpr)
		if !ok || src(ix.X) != arr {
			if src(as.Lhs[0]) == arr { // GlobalSettingName = make(...)
				continue
			}
			die("%s: unexpected assignment in %s: %s", p.dir, fn, src(st))
		}
		s, ok := constString(p, as.Rhs[0])
		if !ok {
			die("%s: %s: not a constant string: %s", p.dir, fn, src(as.Rhs[0]))
		}
		res[src(ix.Index)] = s
	}
	return res
}

type Entry struct {
	Name    string `json:"name"`
	CT      string `json:"ct"`
	Mutable bool   `json:"mutable"`
	Setter  string `json:"setter"`
	Path    string `json:"path"`
	Const   string `json:"const"`
}

var ctNames = map[string]string{"Int": "int", "Int64": "int64", "Int32": "int32", "Duration": "duration", "Float64": "float64", "Boolean": "boolean",
	"String": "string", "CurrencyCoin": "coin", "Key": "key", "Cost": "cost", "Strings": "strings"}

func ctOf(e ast.Expr) string {
	s := src(e)
	s = strings.TrimPrefix(s, "config.")
	s = strings.TrimPrefix(s, "config2.")
	c, ok := ctNames[s]
	if !ok {
		die("unknown config type %q", s)
	}
	return c
}

func findMapLit(p *pkg, fn, lhs string) *ast.CompositeLit {
	for _, st := range p.fn(fn).Body.List {
		if as, ok := st.(*ast.AssignStmt); ok && len(as.Lhs) == 1 && src(as.Lhs[0]) == lhs {
			if cl, ok := as.Rhs[0].(*ast.CompositeLit); ok {
				return cl
			}
		}
	}
	die("%s: map literal %s not found in %s", p.dir, lhs, fn)
	return nil
}

// ---- setters: func (x *T) setInt(key, change) { switch Settings[key].S { case A: x.F = change ... } } -----

type setterCase struct{ setter, path string }

func setterCases(p *pkg, recv string, names []string) map[string]setterCase {
	res := map[string]setterCase{}
	for _, sn := range names {
		f := p.funcs[recv+"."+sn]
		if f == nil {
			continue
		}
		rv := f.Recv.List[0].Names[0].Name
		var sw *ast.SwitchStmt
		for _, st := range f.Body.List {
			if s, ok := st.(*ast.SwitchStmt); ok {
				sw = s
			}
		}
		if sw == nil {
			die("%s.%s: no switch", recv, sn)
		}
		for _, cc := range sw.Body.List {
			cl := cc.(*ast.CaseClause)
			if cl.List == nil {
				continue
			}
			path := ""
			for _, st := range cl.Body {
				if as, ok := st.(*ast.AssignStmt); ok && len(as.Lhs) == 1 {
					l := src(as.Lhs[0])
					if strings.HasPrefix(l, rv+".") {
						path = strings.TrimPrefix(l, rv+".")
					}
				}
			}
			if path == "" {
				die("%s.%s: case %s assigns no field", recv, sn, src(cl.List[0]))
			}
			for _, c := range cl.List {
				k := src(c)
				if prev, dup := res[k]; dup {
					die("%s: setting %s assigned by both %s and %s", recv, k, prev.setter, sn)
				}
				res[k] = setterCase{sn, path}
			}
		}
	}
	return res
}

// ---- `set`: switch <ct> { case config.Int: parse…; x.setInt(...) } -------------------------------------

type Dispatch struct {
	CT     string   `json:"ct"`
	Parse  []string `json:"parse"`
	Setter string   `json:"setter"`
}

var parserCalls = map[string]bool{"strconv.Atoi": true, "strconv.ParseFloat": true, "strconv.ParseInt": true, "strconv.ParseUint": true, "strconv.ParseBool": true,
	"time.ParseDuration": true, "hex.DecodeString": true, "currency.ParseZCN": true, "currency.MultFloat64": true, "currency.Coin": true,
	"currency.Int64ToCoin": true, "strings.Split": true}

func callsIn(nodes []ast.Stmt, recvVar string) (parse []string, methods []string) {
	for _, st := range nodes {
		ast.Inspect(st, func(n ast.Node) bool {
			if c, ok := n.(*ast.CallExpr); ok {
				nm := callName(c)
				if parserCalls[nm] {
					parse = append(parse, nm)
				} else if strings.HasPrefix(nm, recvVar+".") {
					methods = append(methods, strings.TrimPrefix(nm, recvVar+"."))
				}
			}
			return true
		})
	}
	return
}

func setDispatch(p *pkg, recv string) []Dispatch {
	f := p.fn(recv + ".set")
	rv := f.Recv.List[0].Names[0].Name
	var sw *ast.SwitchStmt
	for _, st := range f.Body.List {
		if s, ok := st.(*ast.SwitchStmt); ok {
			sw = s
		}
	}
	if sw == nil {
		die("%s.set: no switch", recv)
	}
	var res []Dispatch
	for _, cc := range sw.Body.List {
		cl := cc.(*ast.CaseClause)
		if cl.List == nil {
			continue
		}
		parse, methods := callsIn(cl.Body, rv)
		setter := ""
		for _, m := range methods {
			if strings.HasPrefix(m, "set") {
				if setter != "" && setter != m {
					die("%s.set: two setters in one case", recv)
				}
				setter = m
			}
		}
		if setter == "" {
			die("%s.set: case %s calls no setter", recv, src(cl.List[0]))
		}
		for _, c := range cl.List {
			res = append(res, Dispatch{CT: ctOf(c), Parse: parse, Setter: setter})
		}
	}
	return res
}

// ---- key switch of faucet / vesting / zcn ----------------------------------------------------------------

type KeyCase struct {
	Name  string   `json:"name"`
	Parse []string `json:"parse"`
	Path  string   `json:"path"`
	Calls []string `json:"calls"`
}

func keySwitch(p *pkg, fname string, namesArr string) (cases []KeyCase, deflt []string) {
	f := p.fn(fname)
	rv := f.Recv.List[0].Names[0].Name
	var rng *ast.RangeStmt
	for _, st := range f.Body.List {
		if r, ok := st.(*ast.RangeStmt); ok {
			rng = r
		}
	}
	if rng == nil || len(rng.Body.List) != 1 {
		die("%s: expected `for key, value := range m { switch key {...} }`", fname)
	}
	sw, ok := rng.Body.List[0].(*ast.SwitchStmt)
	if !ok {
		die("%s: range body is not a switch", fname)
	}
	var names []string
	if namesArr != "" {
		cl, ok := p.vars[namesArr].(*ast.CompositeLit)
		if !ok {
			die("%s: var %s is not a literal", fname, namesArr)
		}
		for _, e := range cl.Elts {
			s, ok := constString(p, e)
			if !ok {
				die("%s: %s element not constant", fname, namesArr)
			}
			names = append(names, s)
		}
	}
	for _, cc := range sw.Body.List {
		cl := cc.(*ast.CaseClause)
		parse, methods := callsIn(cl.Body, rv)
		if cl.List == nil {
			deflt = append(append([]string{}, parse...), methods...)
			if len(deflt) == 0 {
				deflt = []string{"reject"}
			} else if len(cl.Body) == 1 {
				// `default: return x.setCostValue(key, value)` leaves the whole loop, also on success
				if rs, ok := cl.Body[0].(*ast.ReturnStmt); ok && len(rs.Results) == 1 {
					if _, isCall := rs.Results[0].(*ast.CallExpr); isCall {
						deflt = append([]string{"return"}, deflt...)
					}
				}
			}
			continue
		}
		// a case that returns a call result directly would leave the loop on success as well: not modelled
		for _, st := range cl.Body {
			if rs, ok := st.(*ast.ReturnStmt); ok && len(rs.Results) == 1 {
				if _, isCall := rs.Results[0].(*ast.CallExpr); isCall && !strings.Contains(src(rs), "Errorf") && !strings.Contains(src(rs), "errors.New") {
					die("%s: case %s returns a call result from inside the loop", fname, src(cl.List[0]))
				}
			}
		}
		path := ""
		for _, st := range cl.Body {
			ast.Inspect(st, func(n ast.Node) bool {
				if as, ok := n.(*ast.AssignStmt); ok {
					for _, l := range as.Lhs {
						s := src(l)
						if strings.HasPrefix(s, rv+".") && path == "" {
							path = strings.TrimPrefix(s, rv+".")
						}
					}
				}
				return true
			})
		}
		for _, c := range cl.List {
			name := ""
			if ix, ok := c.(*ast.IndexExpr); ok && src(ix.X) == namesArr {
				i, ok := p.enums[src(ix.Index)]
				if !ok || i >= len(names) {
					die("%s: cannot resolve %s", fname, src(c))
				}
				name = names[i]
			} else if s, ok := constString(p, c); ok {
				name = s
			} else {
				die("%s: cannot resolve case %s", fname, src(c))
			}
			cases = append(cases, KeyCase{Name: name, Parse: parse, Path: path, Calls: methods})
		}
	}
	return
}

func stringList(p *pkg, v string) []string {
	cl, ok := p.vars[v].(*ast.CompositeLit)
	if !ok {
		die("%s: var %s is not a literal", p.dir, v)
	}
	var res []string
	for _, e := range cl.Elts {
		s, ok := constString(p, e)
		if !ok {
			die("%s: %s element %s not constant", p.dir, v, src(e))
		}
		res = append(res, s)
	}
	return res
}

// ---- flows: ordered notable calls of an entry point -----------------------------------------------------------

var flowCalls = map[string]string{
	"AuthorizeWithOwner": "authorize", "Decode": "decode",
	"update": "update", "updateConfig": "update", "UpdateConfig": "update",
	"validate": "validate", "Validate": "validate",
	"save": "save", "saveConfig": "save", "InsertTrieNode": "save",
	"getSettingChanges": "getStaged", "getConfig": "getConfig", "getGlobalSettings": "getGlobals", "GetGlobalNode": "getConfig",
}

func flowOf(n ast.Node) []string {
	var res []string
	var walk func(n ast.Node)
	walk = func(n ast.Node) {
		ast.Inspect(n, func(m ast.Node) bool {
			c, ok := m.(*ast.CallExpr)
			if !ok {
				return true
			}
			nm := callName(c)
			short := nm
			if i := strings.LastIndex(nm, "."); i >= 0 {
				short = nm[i+1:]
			}
			if short == "WithActivation" && len(c.Args) == 4 {
				name, _ := strconv.Unquote(src(c.Args[1]))
				var b, a []string
				if fl, ok := c.Args[2].(*ast.FuncLit); ok {
					b = flowOf(fl.Body)
				} else {
					die("WithActivation: before is not a func literal")
				}
				if fl, ok := c.Args[3].(*ast.FuncLit); ok {
					a = flowOf(fl.Body)
				} else {
					die("WithActivation: after is not a func literal")
				}
				// flattened so that the Lean side can inspect it with list functions only
				res = append(res, "fork:"+name, "before[")
				res = append(res, b...)
				res = append(res, "]", "after[")
				res = append(res, a...)
				res = append(res, "]")
				return false
			}
			// arguments first (evaluation order), except func literals of AuthorizeWithOwner which only read
			if t, ok := flowCalls[short]; ok {
				if short == "InsertTrieNode" && len(c.Args) > 0 {
					t = "save(" + src(c.Args[0]) + ")"
				}
				if short == "AuthorizeWithOwner" {
					res = append(res, t)
					return false
				}
				for _, a := range c.Args {
					walk(a)
				}
				res = append(res, t)
				return false
			}
			return true
		})
	}
	walk(n)
	return res
}

// validateConds: the condition of every `if c { return err }` / `case c: return err` of a validate function.
func validateConds(p *pkg, fname string) []string {
	f := p.fn(fname)
	var res []string
	for _, st := range f.Body.List {
		switch s := st.(type) {
		case *ast.IfStmt:
			if s.Init != nil || s.Else != nil {
				die("%s: unexpected if shape: %s", fname, src(s.Cond))
			}
			res = append(res, src(s.Cond))
		case *ast.SwitchStmt:
			if s.Tag != nil {
				die("%s: switch with tag", fname)
			}
			for _, cc := range s.Body.List {
				cl := cc.(*ast.CaseClause)
				if len(cl.List) != 1 {
					die("%s: case shape", fname)
				}
				res = append(res, src(cl.List[0]))
			}
		case *ast.ReturnStmt:
		case *ast.DeclStmt: // const Code = ...
		default:
			die("%s: unexpected statement %s", fname, src(st))
		}
	}
	return res
}

// validateCondExprs: the condition expressions of a validate function (same walk as validateConds)
func validateCondExprs(f *ast.FuncDecl) []ast.Expr {
	var res []ast.Expr
	for _, st := range f.Body.List {
		switch s := st.(type) {
		case *ast.IfStmt:
			res = append(res, s.Cond)
		case *ast.SwitchStmt:
			for _, cc := range s.Body.List {
				res = append(res, cc.(*ast.CaseClause).List...)
			}
		}
	}
	return res
}

// does `update` trim keys / values?
func trims(p *pkg, fname string) bool {
	t := false
	ast.Inspect(p.fn(fname), func(n ast.Node) bool {
		if c, ok := n.(*ast.CallExpr); ok && callName(c) == "strings.TrimSpace" {
			t = true
		}
		return true
	})
	return t
}

// ---- Lean emission -----------------------------------------------------------------------------------------------

func q(s string) string { return strconv.Quote(s) }

func bytesLit(s string) string {
	parts := make([]string, len(s))
	for i := 0; i < len(s); i++ {
		parts[i] = strconv.Itoa(int(s[i]))
	}
	return "[" + strings.Join(parts, ", ") + "]"
}

// pkOf maps the parser / conversion calls found in a case body to the model's parse kind; unknown combination = error.
func pkOf(calls []string) string {
	switch strings.Join(calls, "+") {
	case "strconv.Atoi":
		return "atoi"
	case "strconv.ParseInt":
		return "int64"
	case "strconv.ParseUint+currency.Coin":
		return "uint64coin"
	case "strconv.ParseFloat":
		return "float"
	case "strconv.ParseFloat+currency.ParseZCN":
		return "zcn"
	case "strconv.ParseFloat+currency.MultFloat64":
		return "mult1e10"
	case "strconv.ParseFloat+currency.Coin":
		return "rawCoin"
	case "time.ParseDuration":
		return "dur"
	case "strconv.ParseBool":
		return "bool"
	case "hex.DecodeString":
		return "hex"
	case "":
		return "raw"
	}
	die("unknown combination of parser calls: %v", calls)
	return ""
}

func leanStrList(xs []string) string {
	qs := make([]string, len(xs))
	for i, x := range xs {
		qs[i] = q(x)
	}
	return "[" + strings.Join(qs, ", ") + "]"
}

// Reader: an accessor through which the code reads a global setting (ConfigImpl.Update: cf.GetXxx(config2.Const);
// config.DbSettings.Update: StringToInterface(updates[Const.String()], Type)), with the type the accessor parses as.
type Reader struct {
	Name   string `json:"name"`
	CT     string `json:"ct"`
	Where  string `json:"where"`
	Getter string `json:"getter"`
}

var getterCT = map[string]string{"GetInt": "int", "GetInt32": "int32", "GetInt64": "int64", "GetDuration": "duration", "GetFloat64": "float64",
	"GetBool": "boolean", "GetString": "string", "GetStrings": "strings", "GetCoin": "coin"}

func globalReaders(gosrc string, cfg *pkg, gnames map[string]string) []Reader {
	var res []Reader
	ch := load(filepath.Join(gosrc, "chaincore/chain"))
	upd := ch.fn("ConfigImpl.Update")
	ast.Inspect(upd.Body, func(n ast.Node) bool {
		c, ok := n.(*ast.CallExpr)
		if !ok {
			return true
		}
		sel, ok := c.Fun.(*ast.SelectorExpr)
		if !ok || !strings.HasPrefix(sel.Sel.Name, "Get") || len(c.Args) != 1 {
			return true
		}
		arg, ok := c.Args[0].(*ast.SelectorExpr)
		if !ok {
			return true
		}
		name, isSetting := gnames[arg.Sel.Name]
		if !isSetting {
			return true
		}
		ct, known := getterCT[sel.Sel.Name]
		if !known {
			die("ConfigImpl.Update reads %s with an unclassified accessor %s", name, sel.Sel.Name)
		}
		res = append(res, Reader{Name: name, CT: ct, Where: "chain.ConfigImpl.Update", Getter: sel.Sel.Name})
		return true
	})
	// every other use of a GetXxx(config.<Setting>) accessor in chaincore/chain must be classified as well
	for name, f := range ch.funcs {
		if name == "ConfigImpl.Update" {
			continue
		}
		ast.Inspect(f, func(n ast.Node) bool {
			if c, ok := n.(*ast.CallExpr); ok && len(c.Args) == 1 {
				if sel, ok := c.Fun.(*ast.SelectorExpr); ok && getterCT[sel.Sel.Name] != "" {
					if arg, ok := c.Args[0].(*ast.SelectorExpr); ok {
						if sname, isSetting := gnames[arg.Sel.Name]; isSetting && (src(arg.X) == "config2" || src(arg.X) == "config") {
							res = append(res, Reader{Name: sname, CT: getterCT[sel.Sel.Name], Where: "chain." + name, Getter: sel.Sel.Name})
						}
					}
				}
			}
			return true
		})
	}
	// config.DbSettings.Update: if value, found := updates[X.String()]; found { iValue, err := StringToInterface(value, T) … }
	ast.Inspect(cfg.fn("DbSettings.Update").Body, func(n ast.Node) bool {
		ifs, ok := n.(*ast.IfStmt)
		if !ok || ifs.Init == nil {
			return true
		}
		as, ok := ifs.Init.(*ast.AssignStmt)
		if !ok || len(as.Rhs) != 1 {
			return true
		}
		ix, ok := as.Rhs[0].(*ast.IndexExpr)
		if !ok || !strings.HasSuffix(src(ix.Index), ".String()") {
			return true
		}
		c := strings.TrimSuffix(src(ix.Index), ".String()")
		name, isSetting := gnames[c]
		if !isSetting {
			die("DbSettings.Update reads an unknown setting %s", c)
		}
		found := false
		ast.Inspect(ifs.Body, func(m ast.Node) bool {
			if call, ok := m.(*ast.CallExpr); ok && callName(call) == "StringToInterface" && len(call.Args) == 2 && !found {
				res = append(res, Reader{Name: name, CT: ctOf(call.Args[1]), Where: "config.DbSettings.Update", Getter: "StringToInterface"})
				found = true
			}
			return true
		})
		if !found {
			die("DbSettings.Update: no StringToInterface for %s", name)
		}
		return false
	})
	sort.Slice(res, func(i, j int) bool {
		if res[i].Name != res[j].Name {
			return res[i].Name < res[j].Name
		}
		return res[i].Where < res[j].Where
	})
	return res
}

type Out struct {
	GlobalReaders   []Reader            `json:"global_readers"`
	Globals         []Entry             `json:"globals"`
	GlobalsIgnored  []string            `json:"globals_ignored"`
	Miner           []Entry             `json:"miner"`
	MinerDispatch   []Dispatch          `json:"miner_dispatch"`
	Storage         []Entry             `json:"storage"`
	StorageDispatch []Dispatch          `json:"storage_dispatch"`
	StorageTrims    bool                `json:"storage_trims"`
	MinerTrims      bool                `json:"miner_trims"`
	Faucet          []KeyCase           `json:"faucet"`
	FaucetDefault   []string            `json:"faucet_default"`
	FaucetCostFns   []string            `json:"faucet_cost_fns"`
	Vesting         []KeyCase           `json:"vesting"`
	VestingDefault  []string            `json:"vesting_default"`
	VestingCostFns  []string            `json:"vesting_cost_fns"`
	Zcn             []KeyCase           `json:"zcn"`
	ZcnDefault      []string            `json:"zcn_default"`
	ZcnCostFns      []string            `json:"zcn_cost_fns"`
	Flows           map[string][]string `json:"flows"`
	Validate        map[string][]string `json:"validate"`
}

func settingsTable(p *pkg, recv string, setters []string, settingField string) []Entry {
	names := nameAssignments(p, "initSettingName", "SettingName")
	cl := findMapLit(p, "initSettings", "Settings")
	sc := setterCases(p, recv, setters)
	var res []Entry
	seen := map[string]bool{}
	for _, el := range cl.Elts {
		kv := el.(*ast.KeyValueExpr)
		k := src(kv.Key)
		if !strings.HasSuffix(k, ".String()") {
			die("%s: Settings key %s", p.dir, k)
		}
		c := strings.TrimSuffix(k, ".String()")
		v := kv.Value.(*ast.CompositeLit)
		if len(v.Elts) != 2 || src(v.Elts[0]) != c {
			die("%s: Settings[%s] names another setting: %s", p.dir, c, src(v))
		}
		name, ok := names[c]
		if !ok {
			die("%s: no SettingName for %s", p.dir, c)
		}
		if seen[name] {
			die("%s: duplicate setting name %s", p.dir, name)
		}
		seen[name] = true
		e := Entry{Name: name, CT: ctOf(v.Elts[1]), Mutable: true, Const: c}
		if s, ok := sc[c]; ok {
			e.Setter, e.Path = s.setter, s.path
		}
		res = append(res, e)
	}
	// every setter case must be a known setting
	consts := map[string]bool{}
	for _, e := range res {
		consts[e.Const] = true
	}
	for c := range sc {
		if !consts[c] {
			die("%s: setter case %s is not in Settings", p.dir, c)
		}
	}
	sort.Slice(res, func(i, j int) bool { return res[i].Name < res[j].Name })
	return res
}

func main() {
	if len(os.Args) < 3 {
		die("usage: xc48 <gosrc> <out.lean> [table.json]")
	}
	gosrc, outPath := os.Args[1], os.Args[2]
	var o Out
	o.Flows = map[string][]string{}
	o.Validate = map[string][]string{}

	// A. core/config globals
	cfg := load(filepath.Join(gosrc, "core/config"))
	gnames := nameAssignments(cfg, "initGlobalSettingNames", "GlobalSettingName")
	for _, el := range findMapLit(cfg, "initGlobalSettings", "GlobalSettingInfo").Elts {
		kv := el.(*ast.KeyValueExpr)
		ix, ok := kv.Key.(*ast.IndexExpr)
		if !ok || src(ix.X) != "GlobalSettingName" {
			die("GlobalSettingInfo key %s", src(kv.Key))
		}
		name, ok := gnames[src(ix.Index)]
		if !ok {
			die("no GlobalSettingName for %s", src(ix.Index))
		}
		v := kv.Value.(*ast.CompositeLit)
		if len(v.Elts) != 2 {
			die("GlobalSettingInfo value %s", src(v))
		}
		mut := src(v.Elts[1])
		if mut != "true" && mut != "false" {
			die("GlobalSettingInfo mutable flag %s", mut)
		}
		o.Globals = append(o.Globals, Entry{Name: name, CT: ctOf(v.Elts[0]), Mutable: mut == "true", Const: src(ix.Index)})
	}
	sort.Slice(o.Globals, func(i, j int) bool { return o.Globals[i].Name < o.Globals[j].Name })
	for i := 1; i < len(o.Globals); i++ {
		if o.Globals[i].Name == o.Globals[i-1].Name {
			die("duplicate global setting %s", o.Globals[i].Name)
		}
	}
	for _, el := range findMapLit(cfg, "initGlobalSettingsIgnored", "GlobalSettingsIgnored").Elts {
		kv := el.(*ast.KeyValueExpr)
		ix := kv.Key.(*ast.IndexExpr)
		o.GlobalsIgnored = append(o.GlobalsIgnored, gnames[src(ix.Index)])
	}
	sort.Strings(o.GlobalsIgnored)
	o.GlobalReaders = globalReaders(gosrc, cfg, gnames)

	// B. minersc, storagesc
	setters := []string{"setInt", "setInt64", "setFloat64", "setDuration", "setBoolean", "setBalance", "setCoin", "setKey"}
	mn := load(filepath.Join(gosrc, "smartcontract/minersc"))
	o.Miner = settingsTable(mn, "GlobalNode", setters, "Setting")
	o.MinerDispatch = setDispatch(mn, "GlobalNode")
	o.MinerTrims = trims(mn, "GlobalNode.update")
	o.Flows["minersc.updateSettings"] = flowOf(mn.fn("MinerSmartContract.updateSettings").Body)
	o.Flows["minersc.updateGlobals"] = flowOf(mn.fn("MinerSmartContract.updateGlobals").Body)
	o.Flows["minersc.GlobalSettings.update"] = globalsUpdateShape(mn)
	o.Validate["minersc"] = validateConds(mn, "GlobalNode.validate")

	st := load(filepath.Join(gosrc, "smartcontract/storagesc"))
	o.Storage = settingsTable(st, "Config", setters, "setting")
	o.StorageDispatch = setDispatch(st, "Config")
	o.StorageTrims = trims(st, "Config.update")
	o.Flows["storagesc.updateSettings"] = flowOf(st.fn("StorageSmartContract.updateSettings").Body)
	o.Flows["storagesc.commitSettingChanges"] = flowOf(st.fn("StorageSmartContract.commitSettingChanges").Body)
	o.Validate["storagesc"] = validateConds(st, "Config.validate")

	// C. faucet, vesting, zcn
	fc := load(filepath.Join(gosrc, "smartcontract/faucetsc"))
	o.Faucet, o.FaucetDefault = keySwitch(fc, "GlobalNode.updateConfig", "Settings")
	o.FaucetCostFns = stringList(fc, "costFunctions")
	o.Flows["faucetsc.updateSettings"] = flowOf(fc.fn("FaucetSmartContract.updateSettings").Body)
	o.Validate["faucetsc"] = validateConds(fc, "GlobalNode.validate")

	vs := load(filepath.Join(gosrc, "smartcontract/vestingsc"))
	o.Vesting, o.VestingDefault = keySwitch(vs, "config.update", "Settings")
	o.VestingCostFns = stringList(vs, "costFunctions")
	o.Flows["vestingsc.updateConfig"] = flowOf(vs.fn("VestingSmartContract.updateConfig").Body)
	o.Validate["vestingsc"] = validateConds(vs, "config.validate")

	zc := load(filepath.Join(gosrc, "smartcontract/zcnsc"))
	o.Zcn, o.ZcnDefault = keySwitch(zc, "GlobalNode.UpdateConfig", "")
	o.ZcnCostFns = stringList(zc, "CostFunctions")
	o.Flows["zcnsc.UpdateGlobalConfig"] = flowOf(zc.fn("ZCNSmartContract.UpdateGlobalConfig").Body)
	o.Validate["zcnsc"] = validateConds(zc, "GlobalNode.Validate")

	// the cost-key handling is modelled by hand; pin its source text
	o.Flows["src:minersc.isCost"] = []string{src(mn.fn("isCost").Body)}
	o.Flows["src:minersc.setCost"] = []string{src(mn.fn("GlobalNode.setCost").Body)}
	o.Flows["src:storagesc.isCost"] = []string{src(st.fn("isCost").Body)}
	o.Flows["src:storagesc.setCost"] = []string{src(st.fn("Config.setCost").Body)}
	o.Flows["src:storagesc.Config.update"] = []string{src(st.fn("Config.update").Body)}
	o.Flows["src:minersc.GlobalNode.update"] = []string{src(mn.fn("GlobalNode.update").Body)}
	o.Flows["src:faucetsc.setCostValue"] = []string{src(fc.fn("GlobalNode.setCostValue").Body)}
	o.Flows["src:vestingsc.setCostValue"] = []string{src(vs.fn("config.setCostValue").Body)}
	o.Flows["src:zcnsc.setCostValue"] = []string{src(zc.fn("GlobalNode.setCostValue").Body)}
	// helpers called by validate conditions
	o.Flows["src:faucetsc.toSeconds"] = []string{src(fc.fn("toSeconds").Body)}
	o.Flows["src:vestingsc.toSeconds"] = []string{src(vs.fn("toSeconds").Body)}
	o.Flows["src:storagesc.PriceRange.isValid"] = []string{src(st.fn("PriceRange.isValid").Body)}
	// every function a validate condition calls must be one of the pinned helpers (fail closed)
	for c, f := range map[string]*ast.FuncDecl{"minersc": mn.fn("GlobalNode.validate"), "storagesc": st.fn("Config.validate"), "faucetsc": fc.fn("GlobalNode.validate"),
		"vestingsc": vs.fn("config.validate"), "zcnsc": zc.fn("GlobalNode.Validate")} {
		for _, cond := range validateCondExprs(f) {
			ast.Inspect(cond, func(n ast.Node) bool {
				if call, ok := n.(*ast.CallExpr); ok {
					switch nm := src(call.Fun); {
					case nm == "toSeconds", strings.HasSuffix(nm, ".isValid"), nm == "len":
					default:
						die("%s validate: condition %q calls %s, which is not a pinned helper", c, src(cond), nm)
					}
				}
				return true
			})
		}
	}
	o.Flows["src:config.StringToInterface"] = []string{src(cfg.fn("StringToInterface").Body)}
	o.Flows["src:cstate.WithActivation"] = []string{src(load(filepath.Join(gosrc, "chaincore/chain/state")).fn("WithActivation").Body)}

	writeLean(outPath, &o)
	if len(os.Args) > 3 {
		b, _ := json.MarshalIndent(&o, "", " ")
		if err := os.WriteFile(os.Args[3], b, 0o644); err != nil {
			die("%v", err)
		}
	}
	fmt.Printf("globals=%d (mutable %d) miner=%d storage=%d faucet=%d vesting=%d zcn=%d\n", len(o.Globals), countMut(o.Globals), len(o.Miner), len(o.Storage), len(o.Faucet), len(o.Vesting), len(o.Zcn))
	for _, k := range []string{"minersc.updateSettings", "minersc.updateGlobals", "storagesc.updateSettings", "storagesc.commitSettingChanges", "faucetsc.updateSettings", "vestingsc.updateConfig", "zcnsc.UpdateGlobalConfig"} {
		fmt.Printf("flow %s: %s\n", k, strings.Join(o.Flows[k], " "))
	}
}

func countMut(es []Entry) int {
	n := 0
	for _, e := range es {
		if e.Mutable {
			n++
		}
	}
	return n
}

// globalsUpdateShape: the per-key checks of GlobalSettings.update, in order, as source text of the conditions.
func globalsUpdateShape(p *pkg) []string {
	f := p.fn("GlobalSettings.update")
	var rng *ast.RangeStmt
	for _, st := range f.Body.List {
		if r, ok := st.(*ast.RangeStmt); ok {
			rng = r
		}
	}
	if rng == nil {
		die("GlobalSettings.update: no range")
	}
	var res []string
	for _, st := range rng.Body.List {
		switch s := st.(type) {
		case *ast.IfStmt:
			res = append(res, "if "+src(s.Cond))
		default:
			res = append(res, src(st))
		}
	}
	return res
}

func writeLean(path string, o *Out) {
	var b strings.Builder
	b.WriteString("import ZChain.Model.GovTypes\n")
	b.WriteString("/-! GENERATED by harness/cmd/xc48 from the Go sources — do not edit. Regenerated on every `./check C48`. -/\n")
	b.WriteString("namespace ZChain.Generated.C48\nopen ZChain.Gov\n\n")
	ent := func(name string, es []Entry) {
		fmt.Fprintf(&b, "def %s : List Entry := [\n", name)
		for i, e := range es {
			sep := ","
			if i == len(es)-1 {
				sep = ""
			}
			fmt.Fprintf(&b, "  ⟨%s, %s, CT.%s, %v, %s⟩%s\n", q(e.Name), bytesLit(e.Name), e.CT, e.Mutable, q(e.Setter), sep)
		}
		b.WriteString("]\n\n")
	}
	ent("globals", o.Globals)
	fmt.Fprintf(&b, "def globalsIgnored : List String := %s\n\n", leanStrList(o.GlobalsIgnored))
	b.WriteString("/-- every accessor through which the code reads a global setting: (name, key bytes, type the accessor parses as, where) -/\n")
	b.WriteString("def globalReaders : List (String × List Nat × CT × String) := [\n")
	for i, r := range o.GlobalReaders {
		sep := ","
		if i == len(o.GlobalReaders)-1 {
			sep = ""
		}
		fmt.Fprintf(&b, "  (%s, %s, CT.%s, %s)%s\n", q(r.Name), bytesLit(r.Name), r.CT, q(r.Where+":"+r.Getter), sep)
	}
	b.WriteString("]\n\n")
	ent("miner", o.Miner)
	ent("storage", o.Storage)
	disp := func(name string, ds []Dispatch) {
		fmt.Fprintf(&b, "def %s : List Dispatch := [\n", name)
		for i, d := range ds {
			sep := ","
			if i == len(ds)-1 {
				sep = ""
			}
			fmt.Fprintf(&b, "  ⟨CT.%s, PK.%s, %s⟩%s\n", d.CT, pkOf(d.Parse), q(d.Setter), sep)
		}
		b.WriteString("]\n\n")
	}
	disp("minerDispatch", o.MinerDispatch)
	disp("storageDispatch", o.StorageDispatch)
	fmt.Fprintf(&b, "def minerTrims : Bool := %v\ndef storageTrims : Bool := %v\n\n", o.MinerTrims, o.StorageTrims)
	kc := func(name string, ks []KeyCase, d []string, fns []string) {
		fmt.Fprintf(&b, "def %s : List KeyCase := [\n", name)
		for i, k := range ks {
			sep := ","
			if i == len(ks)-1 {
				sep = ""
			}
			fmt.Fprintf(&b, "  ⟨%s, %s, PK.%s, %s⟩%s\n", q(k.Name), bytesLit(k.Name), pkOf(k.Parse), leanStrList(k.Calls), sep)
		}
		b.WriteString("]\n")
		fmt.Fprintf(&b, "def %sDefault : List String := %s\n", name, leanStrList(d))
		fmt.Fprintf(&b, "def %sCostFns : List String := %s\n\n", name, leanStrList(fns))
	}
	kc("faucet", o.Faucet, o.FaucetDefault, o.FaucetCostFns)
	kc("vesting", o.Vesting, o.VestingDefault, o.VestingCostFns)
	kc("zcn", o.Zcn, o.ZcnDefault, o.ZcnCostFns)
	keys := make([]string, 0, len(o.Flows))
	for k := range o.Flows {
		keys = append(keys, k)
	}
	sort.Strings(keys)
	b.WriteString("/-- ordered notable calls of every update entry point, and pinned source text of the hand-modelled helpers -/\n")
	b.WriteString("def flows : List (String × List String) := [\n")
	for i, k := range keys {
		sep := ","
		if i == len(keys)-1 {
			sep = ""
		}
		fmt.Fprintf(&b, "  (%s, %s)%s\n", q(k), leanStrList(o.Flows[k]), sep)
	}
	b.WriteString("]\n\n")
	keys = keys[:0]
	for k := range o.Validate {
		keys = append(keys, k)
	}
	sort.Strings(keys)
	b.WriteString("/-- source text of the conditions of each contract's validate, in order -/\n")
	b.WriteString("def validateSrc : List (String × List String) := [\n")
	for i, k := range keys {
		sep := ","
		if i == len(keys)-1 {
			sep = ""
		}
		fmt.Fprintf(&b, "  (%s, %s)%s\n", q(k), leanStrList(o.Validate[k]), sep)
	}
	b.WriteString("]\n\nend ZChain.Generated.C48\n")
	if err := os.WriteFile(path, []byte(b.String()), 0o644); err != nil {
		die("%v", err)
	}
}
