// C21 harness: the real multisigsc contract (register, vote) through the real Chain.UpdateState, with real threshold
// BLS keys (herumi shares of the wallet key), against Model/Multisig.lean; the oracle states C21 on the
// implementation's answers alone.
//
// `server_chain.smart_contract.multisig` is false in the repository's docker.local/config/0chain.yaml, so setupsc does
// not register the contract; the harness puts multisigsc.NewMultiSigSmartContract() into the contract map itself.
package main

import (
	"encoding/hex"
	"encoding/json"
	"fmt"
	"math/big"
	"math/rand"
	"sort"
	"strconv"
	"strings"
	"sync"
	"sync/atomic"

	cstate "0chain.net/chaincore/chain/state"
	"0chain.net/chaincore/smartcontract"
	"0chain.net/chaincore/state"
	"0chain.net/chaincore/transaction"
	"0chain.net/core/common"
	"0chain.net/core/encryption"
	"0chain.net/smartcontract/minersc"
	"0chain.net/smartcontract/multisigsc"
	"github.com/0chain/common/core/currency"
	"github.com/0chain/common/core/statecache"
	"github.com/herumi/bls-go-binary/bls"
	"verifharness/lib/corr"
	"verifharness/lib/engine"
)

const (
	nClients = 12 // ledger ids 2 .. 13 hold BLS keys; 0 = miner contract, 1 = multisig contract address
	nNames   = 3
	maxID    = 1 + nClients
)

func setup() {
	engine.Setup()
	if _, ok := smartcontract.ContractMap[multisigsc.Address]; !ok {
		smartcontract.ContractMap[multisigsc.Address] = multisigsc.NewMultiSigSmartContract()
	}
}

func schemeOf(dec string) (*encryption.BLS0ChainScheme, error) {
	var sk bls.SecretKey
	if err := sk.SetDecString(dec); err != nil {
		return nil, err
	}
	k := encryption.NewBLS0ChainScheme()
	txt := sk.GetPublicKey().SerializeToHexStr() + "\n" + hex.EncodeToString(sk.GetLittleEndian()) + "\n"
	if err := k.ReadKeys(strings.NewReader(txt)); err != nil {
		return nil, err
	}
	return k, nil
}

// ---------------------------------------------------------------------------------------------- implementation

type world struct {
	w      *engine.World
	ids    [maxID + 2]string
	cl     [maxID + 2]engine.Client
	pk     [maxID + 2]string
	sk     [maxID + 2]string
	leaves map[string][]byte
	known  map[string]bool
	skew   int64 // transaction creation date − block creation date for the following transactions
}

var blockCtr int64

// unique block hashes per process (see harness/cmd/c18/zcnw: engine.World hashes blocks by its own address)
func (x *world) uniq() {
	n := atomic.AddInt64(&blockCtr, 1)
	x.w.B.Hash = encryption.Hash(fmt.Sprintf("c21-block-%d-%d", n, x.w.Round))
	x.w.BC = statecache.NewBlockCache(x.w.C.GetStateCache(), statecache.Block{Round: x.w.B.Round, Hash: x.w.B.Hash, PrevHash: x.w.B.PrevHash})
}

func (x *world) nextBlock() { x.w.NextBlock(); x.uniq() }

func (x *world) idOf(i int) string {
	if i >= 0 && i <= maxID {
		return x.ids[i]
	}
	return encryption.Hash(fmt.Sprintf("c21-extra-%d", i))
}

func tidString(t int) string {
	switch {
	case t < 1000:
		return fmt.Sprintf("%x", t)
	case t < 2000:
		return "0" + fmt.Sprintf("%x", t-1000)
	default:
		return fmt.Sprintf("zz%d", t)
	}
}

func propName(k int) string { return fmt.Sprintf("prop%d", k) }

func newWorld(w []string) (*world, error) {
	// init <fee> <now> | accts | keys
	if len(w) < 4 || w[3] != "|" {
		return nil, fmt.Errorf("bad init")
	}
	var secs [][]string
	cur := []string{}
	for _, t := range w[4:] {
		if t == "|" {
			secs = append(secs, cur)
			cur = []string{}
		} else {
			cur = append(cur, t)
		}
	}
	secs = append(secs, cur)
	if len(secs) != 2 {
		return nil, fmt.Errorf("bad sections")
	}
	now, err := strconv.ParseInt(w[2], 10, 64)
	if err != nil {
		return nil, err
	}
	x := &world{}
	x.ids[0], x.ids[1] = minersc.ADDRESS, multisigsc.Address
	x.cl[0], x.cl[1] = engine.Client{ID: x.ids[0]}, engine.Client{ID: x.ids[1]}
	seen := map[int]bool{}
	for _, k := range secs[1] {
		f := strings.Split(k, ":")
		if len(f) != 2 {
			return nil, fmt.Errorf("bad key")
		}
		i, err := strconv.Atoi(f[0])
		if err != nil || i < 2 || i > maxID || seen[i] {
			return nil, fmt.Errorf("bad key index")
		}
		seen[i] = true
		s, err := schemeOf(f[1])
		if err != nil {
			return nil, err
		}
		pkb, _ := hex.DecodeString(s.GetPublicKey())
		x.pk[i], x.sk[i] = s.GetPublicKey(), f[1]
		x.ids[i] = encryption.Hash(pkb)
		x.cl[i] = engine.Client{ID: x.ids[i], PublicKey: x.pk[i]}
	}
	if len(seen) != nClients {
		return nil, fmt.Errorf("key universe incomplete")
	}
	bal := map[string]currency.Coin{}
	type an struct {
		id string
		n  int64
	}
	var nonces []an
	for _, a := range secs[0] {
		f := strings.Split(a, ":")
		if len(f) != 3 {
			return nil, fmt.Errorf("bad acct")
		}
		id, _ := strconv.Atoi(f[0])
		b, _ := strconv.ParseUint(f[1], 10, 64)
		n, _ := strconv.ParseInt(f[2], 10, 64)
		bal[x.idOf(id)] = currency.Coin(b)
		nonces = append(nonces, an{x.idOf(id), n})
	}
	wd, err := engine.NewWorld(bal, func(sctx *cstate.StateContext) error {
		for _, a := range nonces {
			s, _ := sctx.GetClientState(a.id)
			s.Nonce = a.n
			if _, err := sctx.SetClientState(a.id, s); err != nil {
				return err
			}
		}
		return nil
	})
	if err != nil {
		return nil, err
	}
	x.w = wd
	x.w.Now = common.Timestamp(now)
	x.nextBlock()
	x.known = map[string]bool{}
	for i := 0; i <= maxID; i++ {
		x.known[x.ids[i]] = true
		for k := 0; k < nNames; k++ {
			wk, pkey, qk := multisigsc.VerifKeys(x.ids[i], propName(k))
			x.known[encryption.Hash(wk)] = true
			x.known[encryption.Hash(pkey)] = true
			x.known[encryption.Hash(qk)] = true
		}
	}
	x.leaves, _ = wd.Leaves()
	return x, nil
}

func (x *world) clientIdx(id string) int {
	for i := 0; i <= maxID; i++ {
		if x.ids[i] == id {
			return i
		}
	}
	return -1
}

func (x *world) keyIdx(pk string) int {
	for i := 2; i <= maxID; i++ {
		if x.pk[i] == pk {
			return i
		}
	}
	return -1
}

type propJS struct {
	ProposalID     string `json:"proposal_id"`
	ExpirationDate int64  `json:"expiration_date"`
	Next           struct {
		ClientID   string `json:"client_id"`
		ProposalID string `json:"proposal_id"`
	} `json:"next"`
	Prev struct {
		ClientID   string `json:"client_id"`
		ProposalID string `json:"proposal_id"`
	} `json:"prev"`
	Transfer           state.Transfer `json:"transfer"`
	SignerThresholdIDs []string       `json:"signer_threshold_ids"`
	SignerSignatures   []string       `json:"signer_signatures"`
	ClientSignature    string         `json:"client_signature"`
	ExecutedInTxnHash  string         `json:"executed_in_txn_hash"`
}

func tidToken(s string) string {
	for t := 0; t < 64; t++ {
		if tidString(t) == s {
			return strconv.Itoa(t)
		}
		if tidString(1000+t) == s {
			return strconv.Itoa(1000 + t)
		}
	}
	if strings.HasPrefix(s, "zz") {
		return s[2:]
	}
	return "?" + s
}

func (x *world) refTok(client, prop string) string {
	i := x.clientIdx(client)
	k := -1
	for j := 0; j < nNames; j++ {
		if propName(j) == prop {
			k = j
		}
	}
	return fmt.Sprintf("%d.%d", i, k)
}

func (x *world) stateLine() string {
	var as []string
	for i := 0; i <= maxID; i++ {
		b, n, present := x.w.Account(x.ids[i])
		if present {
			as = append(as, fmt.Sprintf("%d:%d:%d", i, uint64(b), n))
		}
	}
	sctx := x.w.SCtx()
	var ws, ps []string
	wallets := map[int]*multisigsc.Wallet{}
	for i := 2; i <= maxID; i++ {
		wl := &multisigsc.Wallet{}
		wk, _, _ := multisigsc.VerifKeys(x.ids[i], "")
		if err := sctx.GetTrieNode(wk, wl); err != nil {
			continue
		}
		wallets[i] = wl
		var sg []string
		for j, t := range wl.SignerThresholdIDs {
			c := "?"
			if j < len(wl.SignerPublicKeys) {
				c = strconv.Itoa(x.keyIdx(wl.SignerPublicKeys[j]))
			}
			sg = append(sg, tidToken(t)+"."+c)
		}
		flag := ""
		if wl.ClientID != x.ids[i] || wl.PublicKey != x.pk[i] || wl.SignatureScheme != "bls0chain" {
			flag = "!"
		}
		ws = append(ws, fmt.Sprintf("%d%s/%d/%s", i, flag, wl.NumRequired, strings.Join(sg, ",")))
	}
	for i := 0; i <= maxID; i++ {
		for k := 0; k < nNames; k++ {
			js, ok, err := multisigsc.VerifProposalJSON(sctx, x.ids[i], propName(k))
			if err != nil || !ok {
				continue
			}
			var p propJS
			if json.Unmarshal([]byte(js), &p) != nil {
				ps = append(ps, fmt.Sprintf("%d.%d/undecodable", i, k))
				continue
			}
			var tids []string
			for _, t := range p.SignerThresholdIDs {
				tids = append(tids, tidToken(t))
			}
			if len(p.SignerSignatures) != len(p.SignerThresholdIDs) {
				tids = append(tids, "!len")
			}
			e, v := "e0", "v-"
			if p.ExecutedInTxnHash != "" {
				e = "e1"
			}
			if p.ClientSignature != "" {
				v = "v?"
				if wl := wallets[i]; wl != nil {
					st := state.SignedTransfer{Transfer: p.Transfer, SchemeName: wl.SignatureScheme, PublicKey: wl.PublicKey, Sig: p.ClientSignature}
					if st.VerifySignature(true) == nil {
						v = "v1"
					} else {
						v = "v0"
					}
				}
			}
			ps = append(ps, fmt.Sprintf("%d.%d/%d/%d.%d.%d/%s/%s/%s", i, k, p.ExpirationDate, x.clientIdx(p.Transfer.ClientID), x.clientIdx(p.Transfer.ToClientID),
				uint64(p.Transfer.Amount), strings.Join(tids, ","), e, v))
		}
	}
	// the expiration queue: walk the links, check them
	var qs []string
	if js, ok, err := multisigsc.VerifQueueJSON(sctx); err == nil && ok {
		var q struct {
			Head struct {
				ClientID   string `json:"client_id"`
				ProposalID string `json:"proposal_id"`
			} `json:"head"`
			Tail struct {
				ClientID   string `json:"client_id"`
				ProposalID string `json:"proposal_id"`
			} `json:"tail"`
		}
		_ = json.Unmarshal([]byte(js), &q)
		cc, cp := q.Head.ClientID, q.Head.ProposalID
		pc, pp := "", ""
		bad := false
		for steps := 0; (cc != "" || cp != "") && steps < 64; steps++ {
			qs = append(qs, x.refTok(cc, cp))
			pj, ok, err := multisigsc.VerifProposalJSON(sctx, cc, cp)
			if err != nil || !ok {
				bad = true
				break
			}
			var p propJS
			_ = json.Unmarshal([]byte(pj), &p)
			if p.Prev.ClientID != pc || p.Prev.ProposalID != pp {
				bad = true
			}
			pc, pp = cc, cp
			cc, cp = p.Next.ClientID, p.Next.ProposalID
		}
		if q.Tail.ClientID != pc || q.Tail.ProposalID != pp {
			bad = true
		}
		if bad {
			qs = append(qs, "!links")
		}
	}
	lv, _ := x.w.Leaves()
	unexpected := 0
	for p, v := range lv {
		if old, ok := x.leaves[p]; !ok || string(old) != string(v) {
			if !x.known[p] {
				unexpected++
			}
		}
	}
	for p := range x.leaves {
		if _, ok := lv[p]; !ok && !x.known[p] {
			unexpected++
		}
	}
	x.leaves = lv
	return fmt.Sprintf("a=%s w=%s p=%s q=%s x=%d", strings.Join(as, ","), strings.Join(ws, ";"), strings.Join(ps, ";"), strings.Join(qs, ","), unexpected)
}

func classify(fn, out string) string {
	has := func(s string) bool { return strings.Contains(out, s) }
	if fn == "register" {
		switch {
		case has("client_id_doesnot_match"):
			return "clientMismatch"
		case has("client_id_public_key_no_match"):
			return "pkMismatch"
		case has("signers_id_and_signer_public_key_no_match"):
			return "lenMismatch"
		case has("num_ids_too-many"):
			return "tooMany"
		case has("signers_required_too_less"):
			return "tooFewRequired"
		case has("too_many_signers_required"):
			return "tooManyRequired"
		case has("duplicate_signer_ids"):
			return "dupIds"
		case has("duplicate_signers"):
			return "dupKeys"
		case has("signature_scheme_not_supported"):
			return "scheme"
		case has("failed to decode public key") || has("encoding/hex"):
			return "badKey"
		case has("err_register_exists"):
			return "exists"
		case has("invalid character") || has("cannot unmarshal") || has("unexpected end"):
			return "decode"
		}
	} else {
		switch {
		case has("err_vote_too_big"):
			return "tooBig"
		case has("err_vote_invalid_tokens"):
			return "amount"
		case has("err_vote_no_signature"):
			return "noSig"
		case has("proposal_expired"):
			return "expired"
		case has("err_vote_not_compatible"):
			return "incompatible"
		case has("err_vote_wallet_not_registered") || has("value not present"):
			return "noWallet"
		case has("err_vote_auth"):
			return "auth"
		case has("err_vote_recover"):
			return "recover"
		case has("invalid character") || has("cannot unmarshal") || has("unexpected end"):
			return "decode"
		}
	}
	o := out
	if len(o) > 60 {
		o = o[:60]
	}
	return "other:" + strings.ReplaceAll(o, " ", "_")
}

var badKeys = []string{"zz", "abcd", "00"}
var badSigs = []string{"zz", "00", "abcdef", "1234567890abcdef1234567890abcdef1234567890abcdef1234567890abcdef"}
var malformedVotes = []string{"not json", `{"transfer":5}`, `{"proposal_id":7}`, `[]`, `{"transfer":{"amount":"x"}}`}
var malformedRegs = []string{"not json", `{"num_required":"x"}`, `[]`, `{"signer_threshold_ids":5}`}

func (x *world) signTransfer(dec string, src, dst int, amount uint64) (string, error) {
	s, err := schemeOf(dec)
	if err != nil {
		return "", err
	}
	st := state.SignedTransfer{Transfer: state.Transfer{ClientID: x.idOf(src), ToClientID: x.idOf(dst), Amount: currency.Coin(amount)}}
	if err := st.Sign(s); err != nil {
		return "", err
	}
	return st.Sig, nil
}

func (x *world) step(op string) string {
	w := strings.Fields(op)
	if len(w) == 2 && w[0] == "tick" {
		dt, err := strconv.ParseInt(w[1], 10, 64)
		if err != nil || dt < 0 {
			return "bad-op"
		}
		x.w.Now += common.Timestamp(dt)
		x.nextBlock()
		return "ok"
	}
	if len(w) == 2 && w[0] == "skew" {
		dt, err := strconv.ParseInt(w[1], 10, 64)
		if err != nil {
			return "bad-op"
		}
		x.skew = dt
		return "ok"
	}
	if len(w) != 6 {
		return "bad-op"
	}
	sender, e1 := strconv.Atoi(w[1])
	value, e2 := strconv.ParseUint(w[2], 10, 64)
	fee, e3 := strconv.ParseUint(w[3], 10, 64)
	nonce, e4 := strconv.ParseInt(w[4], 10, 64)
	if e1 != nil || e2 != nil || e3 != nil || e4 != nil || sender < 0 || sender > maxID {
		return "bad-op"
	}
	arg := w[5]
	var fn, input string
	switch w[0] {
	case "reg":
		fn = "register"
		if strings.HasPrefix(arg, "!") {
			v, err := strconv.Atoi(arg[1:])
			if err != nil || v < 0 {
				return "bad-op"
			}
			input = malformedRegs[v%len(malformedRegs)]
			break
		}
		f := strings.Split(arg, ":")
		if len(f) != 6 {
			return "bad-op"
		}
		cid, a1 := strconv.Atoi(f[0])
		nr, a2 := strconv.Atoi(f[3])
		if a1 != nil || a2 != nil || cid < 0 || cid > maxID || (f[2] != "0" && f[2] != "1") {
			return "bad-op"
		}
		pk := "zz"
		if f[1] != "-" {
			o, err := strconv.Atoi(f[1])
			if err != nil || o < 2 || o > maxID {
				return "bad-op"
			}
			pk = x.pk[o]
		}
		scheme := "bls0chain"
		if f[2] == "0" {
			scheme = "ed25519"
		}
		tids, keys := []string{}, []string{}
		if f[4] != "-" {
			for _, t := range strings.Split(f[4], ",") {
				tv, err := strconv.Atoi(t)
				if err != nil || tv < 0 {
					return "bad-op"
				}
				tids = append(tids, tidString(tv))
			}
		}
		if f[5] != "-" {
			for _, k := range strings.Split(f[5], ",") {
				if len(k) < 2 {
					return "bad-op"
				}
				v, err := strconv.Atoi(k[1:])
				if err != nil || v < 0 {
					return "bad-op"
				}
				switch k[0] {
				case 'k':
					if v < 2 || v > maxID {
						return "bad-op"
					}
					keys = append(keys, x.pk[v])
				case 'b':
					keys = append(keys, badKeys[v%len(badKeys)])
				default:
					return "bad-op"
				}
			}
		}
		m := map[string]interface{}{"client_id": x.idOf(cid), "signature_scheme": scheme, "public_key": pk,
			"signer_threshold_ids": tids, "signer_public_keys": keys, "num_required": nr}
		b, _ := json.Marshal(m)
		input = string(b)
	case "vote":
		fn = "vote"
		if strings.HasPrefix(arg, "!") {
			v, err := strconv.Atoi(arg[1:])
			if err != nil || v < 0 {
				return "bad-op"
			}
			input = malformedVotes[v%len(malformedVotes)]
			break
		}
		f := strings.Split(arg, ":")
		if len(f) != 6 {
			return "bad-op"
		}
		name, a1 := strconv.Atoi(f[0])
		src, a2 := strconv.Atoi(f[1])
		dst, a3 := strconv.Atoi(f[2])
		amt, a4 := strconv.ParseUint(f[3], 10, 64)
		if a1 != nil || a2 != nil || a3 != nil || a4 != nil || name < 0 || name >= nNames || src < 0 || src > maxID || dst < 0 || dst > maxID || (f[5] != "0" && f[5] != "1") {
			return "bad-op"
		}
		var sig string
		switch {
		case f[4] == "-":
			sig = ""
		case f[4][0] == 'b':
			v, err := strconv.Atoi(f[4][1:])
			if err != nil || v < 0 {
				return "bad-op"
			}
			sig = badSigs[v%len(badSigs)]
		case strings.HasSuffix(f[4], "="):
			var err error
			sig, err = x.signTransfer(strings.TrimSuffix(f[4], "="), src, dst, amt)
			if err != nil {
				return "bad-op"
			}
		default:
			h := strings.Split(f[4], "*")
			if len(h) != 2 {
				return "bad-op"
			}
			t := strings.Split(h[1], ".")
			if len(t) != 3 {
				return "bad-op"
			}
			ts, b1 := strconv.Atoi(t[0])
			td, b2 := strconv.Atoi(t[1])
			ta, b3 := strconv.ParseUint(t[2], 10, 64)
			if b1 != nil || b2 != nil || b3 != nil || ts < 0 || ts > maxID || td < 0 || td > maxID {
				return "bad-op"
			}
			var err error
			sig, err = x.signTransfer(h[0], ts, td, ta)
			if err != nil {
				return "bad-op"
			}
		}
		pid := propName(name)
		if f[5] == "1" {
			pid = strings.Repeat("p", 300)
		}
		m := map[string]interface{}{"proposal_id": pid, "transfer": map[string]interface{}{"from": x.idOf(src), "to": x.idOf(dst), "amount": amt}, "signature": sig}
		b, _ := json.Marshal(m)
		input = string(b)
	default:
		return "bad-op"
	}
	t := x.w.Txn(x.cl[sender], multisigsc.Address, currency.Coin(value), currency.Coin(fee), nonce, transaction.TxnTypeSmartContract, fn, input)
	// the transaction's own creation date is the client's choice; the block's creation date is x.w.Now
	t.CreationDate = x.w.B.CreationDate + common.Timestamp(x.skew)
	_, err := x.w.Exec(t)
	status, cls, extra := "rejected", "-", "-"
	if err == nil {
		switch t.Status {
		case transaction.TxnSuccess:
			status = "success"
			out := t.TransactionOutput
			switch {
			case fn != "vote":
			case strings.Contains(out, "previously executed"):
				extra = "p"
			case strings.Contains(out, "already voted"):
				extra = "d" + strings.Fields(strings.TrimPrefix(out, "success "))[0]
			case strings.Contains(out, "more votes"):
				extra = "r" + strings.Fields(strings.TrimPrefix(out, "success "))[0]
			case strings.Contains(out, "transfer executed"):
				extra = "x"
			default:
				extra = "?" + strings.ReplaceAll(out, " ", "_")
			}
			extra = strings.TrimSuffix(extra, ":")
		case transaction.TxnError:
			status = "failed"
			cls = classify(fn, t.TransactionOutput)
		default:
			status = fmt.Sprintf("status%d", t.Status)
		}
	}
	if h := encryption.Hash(op); h[0] < '4' {
		x.nextBlock()
	}
	statMu.Lock()
	ex := extra
	if len(ex) > 1 {
		ex = ex[:1]
	}
	stats[w[0]+":"+status+":"+strings.SplitN(cls, ":", 2)[0]+":"+ex]++
	statMu.Unlock()
	return status + " " + cls + " " + extra + " " + x.stateLine()
}

var (
	stats  = map[string]int{}
	statMu sync.Mutex
)

func impl(ops []string) []string {
	outs := make([]string, len(ops))
	var x *world
	for i, op := range ops {
		func() {
			defer func() {
				if r := recover(); r != nil {
					outs[i] = fmt.Sprintf("panic %v", r)
				}
			}()
			w := strings.Fields(op)
			if len(w) > 0 && w[0] == "init" {
				engine.SetFeeEnabled(len(w) > 1 && w[1] == "1")
				var err error
				x, err = newWorld(w)
				if err != nil {
					x = nil
					outs[i] = "bad-op"
					return
				}
				outs[i] = "ok " + x.stateLine()
				return
			}
			if x == nil {
				outs[i] = "bad-op"
				return
			}
			outs[i] = x.step(op)
		}()
	}
	return outs
}

// ---------------------------------------------------------------------------------------------- generator

var order *big.Int

func randScalar(r *rand.Rand) string { return strconv.FormatInt(1+r.Int63n(1<<62), 10) }

// shares of the polynomial with the given coefficients (coefficient 0 = the wallet secret) at the ids xs, computed
// by the real library (SecretKey.Set).
func shares(coefs []string, xs []int) []string {
	var msk []bls.SecretKey
	for _, c := range coefs {
		var s bls.SecretKey
		if err := s.SetDecString(c); err != nil {
			panic(err)
		}
		msk = append(msk, s)
	}
	var out []string
	for _, xv := range xs {
		var id bls.ID
		if err := id.SetDecString(strconv.Itoa(xv)); err != nil {
			panic(err)
		}
		var s bls.SecretKey
		if err := s.Set(msk, &id); err != nil {
			panic(err)
		}
		out = append(out, s.GetDecString())
	}
	return out
}

type gwallet struct {
	owner    int
	t        int
	tids     []int
	signers  []int
	proper   bool
	regd     bool
	transfer map[int][2]uint64 // name -> (dst, amount): the transfer the signers agree on
}

func sk0(sk []string, i int) string { return sk[i] }

func gen(r *rand.Rand, thorough bool, i int) []string {
	fee := 1
	if r.Intn(4) == 0 {
		fee = 0
	}
	now := int64(1700000000)
	sk := make([]string, maxID+1)
	for k := 2; k <= maxID; k++ {
		sk[k] = randScalar(r)
	}
	// wallet A: owner 2, signers 3.. ; wallet B: owner 8, signers 9..
	mk := func(owner, first int) *gwallet {
		t := 2 + r.Intn(2)
		n := t + r.Intn(3)
		if n > 4 {
			n = 4
		}
		g := &gwallet{owner: owner, t: t, proper: true, transfer: map[int][2]uint64{}}
		var xs []int
		used := map[int]bool{}
		for len(xs) < n {
			xv := 1 + len(xs)
			if r.Intn(4) == 0 {
				xv = 1 + r.Intn(40)
			}
			if !used[xv] {
				used[xv] = true
				xs = append(xs, xv)
			}
		}
		coefs := []string{sk[owner]}
		for j := 1; j < t; j++ {
			coefs = append(coefs, randScalar(r))
		}
		sh := shares(coefs, xs)
		for j := 0; j < n; j++ {
			g.tids = append(g.tids, xs[j])
			g.signers = append(g.signers, first+j)
			sk[first+j] = sh[j]
		}
		return g
	}
	wa := mk(2, 3)
	wb := mk(8, 9)
	switch r.Intn(10) {
	case 0: // signer keys that are NOT shares of the wallet key
		wb.proper = false
		for _, s := range wb.signers {
			sk[s] = randScalar(r)
		}
	case 1: // a zero threshold id / two spellings of one id / an id that is not hex: reconstruction cannot succeed
		wb.proper = false
		switch r.Intn(3) {
		case 0:
			wb.tids[0] = 0
		case 1:
			wb.tids[1] = 1000 + wb.tids[0]
		default:
			wb.tids[0] = 2000 + r.Intn(9)
		}
	}
	wallets := []*gwallet{wa, wb}
	var accts, keys []string
	nonce := make([]int64, maxID+1)
	for k := 0; k <= maxID; k++ {
		b := uint64(1000 + r.Intn(100000))
		if k == 0 || k == 1 {
			b = uint64(r.Intn(50))
		}
		if r.Intn(20) == 0 {
			b = 0
		}
		if r.Intn(4) == 0 {
			nonce[k] = int64(r.Intn(3))
		}
		if b != 0 || nonce[k] != 0 || r.Intn(2) == 0 {
			accts = append(accts, fmt.Sprintf("%d:%d:%d", k, b, nonce[k]))
		}
		if k >= 2 {
			keys = append(keys, fmt.Sprintf("%d:%s", k, sk[k]))
		}
	}
	ops := []string{fmt.Sprintf("init %d %d | %s | %s", fee, now, strings.Join(accts, " "), strings.Join(keys, " "))}
	call := func(sender int) string {
		nn := nonce[sender] + 1
		switch r.Intn(40) {
		case 0:
			nn = nonce[sender]
		case 1:
			nn++
		}
		if nn == nonce[sender]+1 {
			nonce[sender] = nn
		}
		return fmt.Sprintf("%d 0 %d %d", sender, r.Intn(15), nn)
	}
	regLine := func(g *gwallet, variant int) string {
		tids, ks := []string{}, []string{}
		for j := range g.tids {
			tids = append(tids, strconv.Itoa(g.tids[j]))
			ks = append(ks, fmt.Sprintf("k%d", g.signers[j]))
		}
		cid, pko, scheme, nr, sender := g.owner, strconv.Itoa(g.owner), 1, g.t, g.owner
		switch variant {
		case 1:
			sender = g.signers[0] // somebody else registers the owner's wallet
		case 2:
			pko = strconv.Itoa(g.signers[0]) // public key of another client
		case 3:
			ks = ks[:len(ks)-1]
		case 4:
			nr = 1
		case 5:
			nr = len(tids) + 1
		case 6:
			tids[len(tids)-1] = tids[0]
		case 7:
			ks[len(ks)-1] = ks[0]
		case 8:
			scheme = 0
		case 9:
			ks[0] = fmt.Sprintf("b%d", r.Intn(3))
		case 10:
			pko = "-"
		case 11:
			for len(tids) <= 20 {
				tids = append(tids, strconv.Itoa(100+len(tids)))
				ks = append(ks, fmt.Sprintf("k%d", 2+len(tids)%nClients))
			}
		case 12:
			return fmt.Sprintf("reg %s !%d", call(sender), r.Intn(8))
		}
		if variant == 0 {
			g.regd = true
		}
		return fmt.Sprintf("reg %s %d:%s:%d:%d:%s:%s", call(sender), cid, pko, scheme, nr, strings.Join(tids, ","), strings.Join(ks, ","))
	}
	for _, g := range wallets {
		if r.Intn(3) == 0 {
			ops = append(ops, regLine(g, 1+r.Intn(12)))
		}
		if r.Intn(12) != 0 {
			ops = append(ops, regLine(g, 0))
		}
		if r.Intn(6) == 0 {
			ops = append(ops, regLine(g, 0)) // second registration: exists
		}
	}
	n := 8 + r.Intn(22)
	if thorough {
		n = 8 + r.Intn(70)
	}
	type pkey struct{ w, name int }
	created := map[pkey]int64{} // the generator's guess of when the live proposal (wallet, name) was opened
	voted := map[pkey]map[int]bool{}
	forced := []string{} // votes to emit next (straddle scenario)
	for k := 0; k < n; k++ {
		if len(forced) > 0 {
			ops = append(ops, forced[0])
			forced = forced[1:]
			continue
		}
		// straddle the expiry of a live proposal: block date on one side, transaction date on the other
		if r.Intn(7) == 0 && len(created) > 0 {
			var keys []pkey
			for kk := range created {
				keys = append(keys, kk)
			}
			sort.Slice(keys, func(i, j int) bool { return keys[i].w*10+keys[i].name < keys[j].w*10+keys[j].name })
			pk := keys[r.Intn(len(keys))]
			exp := created[pk] + 604800
			d := int64(r.Intn(7)) - 3 // block date = expiry + d
			if target := exp + d; target >= now {
				g := wallets[pk.w]
				ops = append(ops, fmt.Sprintf("tick %d", target-now))
				now = target
				skw := int64(-10 - r.Intn(5)) // backdated transaction
				if d < 0 {
					skw = int64(10 + r.Intn(5)) // post-dated transaction
				}
				if r.Intn(5) == 0 {
					skw = -skw
				}
				ops = append(ops, fmt.Sprintf("skew %d", skw))
				tr := g.transfer[pk.name]
				for _, sg := range g.signers {
					if !voted[pk][sg] && len(forced) < 2 {
						forced = append(forced, fmt.Sprintf("vote %s %d:%d:%d:%d:%s=:0", call(sg), pk.name, g.owner, tr[0], tr[1], sk0(sk, sg)))
					}
				}
				forced = append(forced, "skew 0")
				if now >= exp {
					delete(created, pk)
					delete(voted, pk)
				}
				continue
			}
		}
		if r.Intn(9) == 0 {
			dt := []int64{1, 60, 3600, 302400, 604799, 604800, 604801, 700000, 100000}[r.Intn(9)]
			ops = append(ops, fmt.Sprintf("tick %d", dt))
			now += dt
			for kk, c := range created {
				if now >= c+604800 {
					delete(created, kk)
					delete(voted, kk)
				}
			}
			continue
		}
		if r.Intn(30) == 0 {
			ops = append(ops, fmt.Sprintf("skew %d", []int64{-100, -1, 0, 1, 100, -700000, 700000}[r.Intn(7)]))
			continue
		}
		if r.Intn(40) == 0 {
			ops = append(ops, fmt.Sprintf("vote %s !%d", call(2+r.Intn(nClients)), r.Intn(8)))
			continue
		}
		wi := r.Intn(2)
		g := wallets[wi]
		name := r.Intn(nNames)
		tr, ok := g.transfer[name]
		if !ok || r.Intn(25) == 0 {
			dst := 2 + r.Intn(nClients)
			amt := uint64(1 + r.Intn(300))
			switch r.Intn(14) {
			case 0:
				amt = 200000 // more than the wallet holds
			case 1:
				dst = g.owner
			case 2:
				dst = r.Intn(2)
			}
			tr = [2]uint64{uint64(dst), amt}
			g.transfer[name] = tr
		}
		dst, amt := int(tr[0]), tr[1]
		src := g.owner
		sender := g.signers[r.Intn(len(g.signers))]
		switch r.Intn(16) {
		case 0:
			sender = g.owner
		case 1:
			sender = 2 + r.Intn(nClients)
		}
		switch r.Intn(22) {
		case 0:
			amt++ // incompatible with earlier votes
		case 1:
			dst = 2 + (dst-2+1)%nClients
		case 2:
			amt = 0
		case 3:
			src = 12 + r.Intn(2) // a client without wallet
		}
		sig := sk[sender] + "="
		switch r.Intn(18) {
		case 0:
			sig = randScalar(r) + "="
		case 1:
			sig = sk[g.signers[0]] + "=" // maybe another signer's key
		case 2:
			sig = fmt.Sprintf("%s*%d.%d.%d", sk[sender], src, dst, amt+1) // own key, other transfer
		case 3:
			sig = "-"
		case 4:
			sig = fmt.Sprintf("b%d", r.Intn(8))
		}
		big := "0"
		if r.Intn(60) == 0 {
			big = "1"
		}
		ops = append(ops, fmt.Sprintf("vote %s %d:%d:%d:%d:%s:%s", call(sender), name, src, dst, amt, sig, big))
		if src == g.owner && g.regd {
			pk := pkey{wi, name}
			if _, ok := created[pk]; !ok {
				created[pk] = now
				voted[pk] = map[int]bool{}
			}
			voted[pk][sender] = true
		}
	}
	return ops
}

// ---------------------------------------------------------------------------------------------- oracle

type acct struct {
	bal   *big.Int
	nonce int64
}

type oprop struct {
	expires  int64
	transfer string
	tids     string
	executed bool
	valid    string
}

type ost struct {
	status, cls, extra string
	accts              map[int]acct
	wallets            map[int]string // owner -> "numReq/tid.client,…"
	props              map[string]oprop
	queue, x, raw      string
}

func parse(out string, isInit bool) (s ost, ok bool) {
	f := strings.Fields(out)
	if isInit {
		if len(f) != 6 || f[0] != "ok" {
			return s, false
		}
		f = append([]string{"ok", "-", "-"}, f[1:]...)
	}
	if len(f) != 8 {
		return s, false
	}
	s.status, s.cls, s.extra = f[0], f[1], f[2]
	s.accts = map[int]acct{}
	if as := strings.TrimPrefix(f[3], "a="); as != "" {
		for _, p := range strings.Split(as, ",") {
			q := strings.Split(p, ":")
			id, _ := strconv.Atoi(q[0])
			b, _ := new(big.Int).SetString(q[1], 10)
			n, _ := strconv.ParseInt(q[2], 10, 64)
			s.accts[id] = acct{b, n}
		}
	}
	s.wallets = map[int]string{}
	if ws := strings.TrimPrefix(f[4], "w="); ws != "" {
		for _, p := range strings.Split(ws, ";") {
			q := strings.SplitN(p, "/", 2)
			o, err := strconv.Atoi(q[0])
			if err != nil || len(q) != 2 {
				return s, false
			}
			s.wallets[o] = q[1]
		}
	}
	s.props = map[string]oprop{}
	if ps := strings.TrimPrefix(f[5], "p="); ps != "" {
		for _, p := range strings.Split(ps, ";") {
			q := strings.Split(p, "/")
			if len(q) != 6 {
				return s, false
			}
			e, _ := strconv.ParseInt(q[1], 10, 64)
			s.props[q[0]] = oprop{expires: e, transfer: q[2], tids: q[3], executed: q[4] == "e1", valid: q[5]}
		}
	}
	s.queue = strings.TrimPrefix(f[6], "q=")
	s.x = strings.TrimPrefix(f[7], "x=")
	s.raw = strings.Join(f[4:7], " ")
	return s, true
}

func getA(m map[int]acct, i int) acct {
	if a, ok := m[i]; ok {
		return a
	}
	return acct{new(big.Int), 0}
}

// lagrange0: f(0) from the points (x_i, y_i) modulo the group order.
func lagrange0(xs []int64, ys []*big.Int) *big.Int {
	if order == nil {
		order, _ = new(big.Int).SetString(bls.GetCurveOrder(), 10)
	}
	res := new(big.Int)
	for i := range xs {
		num, den := big.NewInt(1), big.NewInt(1)
		for j := range xs {
			if i == j {
				continue
			}
			num.Mul(num, big.NewInt(xs[j]))
			num.Mod(num, order)
			d := new(big.Int).Sub(big.NewInt(xs[j]), big.NewInt(xs[i]))
			d.Mod(d, order)
			den.Mul(den, d)
			den.Mod(den, order)
		}
		inv := new(big.Int).ModInverse(den, order)
		if inv == nil {
			return nil
		}
		t := new(big.Int).Mul(ys[i], num)
		t.Mul(t, inv)
		res.Add(res, t)
		res.Mod(res, order)
	}
	return res
}

type tally struct {
	voters map[int]bool // distinct registered signers whose compatible, validly signed, unexpired vote was accepted
	done   bool
}

// oracle: C21 on the implementation's answers.
func oracle(ops, outs []string) *corr.Violation {
	mk := func(sig, msg string, i int) *corr.Violation {
		return &corr.Violation{Signature: "C21:" + sig, Message: fmt.Sprintf("op %d %q: %s", i, ops[i], msg), Ops: ops[:i+1], Impl: outs[:i+1]}
	}
	var prev ost
	feeOn := false
	var now int64
	sk := map[int]string{}
	tallies := map[string]*tally{} // per live proposal incarnation (dropped when the proposal disappears from the state)
	var recorded []*corr.Violation
	for i, op := range ops {
		w := strings.Fields(op)
		if w[0] == "init" {
			s, ok := parse(outs[i], true)
			if !ok {
				if outs[i] == "bad-op" {
					return nil
				}
				return mk("unparsable-answer", outs[i], i)
			}
			feeOn = w[1] == "1"
			now, _ = strconv.ParseInt(w[2], 10, 64)
			bars := 0
			for _, t := range w {
				if t == "|" {
					bars++
				} else if bars == 2 {
					f := strings.Split(t, ":")
					k, _ := strconv.Atoi(f[0])
					sk[k] = f[1]
				}
			}
			prev = s
			continue
		}
		if outs[i] == "bad-op" {
			continue
		}
		if w[0] == "tick" {
			dt, _ := strconv.ParseInt(w[1], 10, 64)
			now += dt // `now` is the BLOCK's creation date: the only clock the property knows
			continue
		}
		if w[0] == "skew" {
			continue // the transaction's own creation date must not matter
		}
		cur, ok := parse(outs[i], false)
		if !ok {
			return mk("unparsable-answer", outs[i], i)
		}
		sender, _ := strconv.Atoi(w[1])
		fee, _ := new(big.Int).SetString(w[3], 10)
		if !feeOn {
			fee = new(big.Int)
		}
		delta := func(id int) *big.Int { return new(big.Int).Sub(getA(cur.accts, id).bal, getA(prev.accts, id).bal) }
		if cur.x != "0" {
			return mk("foreign-leaves-changed", cur.x+" unexpected trie leaves changed", i)
		}
		if strings.Contains(cur.queue, "!links") {
			return mk("expiration-queue-links-broken", cur.queue, i)
		}
		// expected balance movement: fee only, plus the executed transfer
		want := map[int]*big.Int{}
		add := func(id int, v *big.Int) {
			if want[id] == nil {
				want[id] = new(big.Int)
			}
			want[id].Add(want[id], v)
		}
		if cur.status != "rejected" {
			add(sender, new(big.Int).Neg(fee))
			add(0, fee)
		}
		if cur.status != "success" && cur.raw != prev.raw {
			return mk("unsuccessful-call-changed-contract-state", fmt.Sprintf("status %s: %q -> %q", cur.status, prev.raw, cur.raw), i)
		}
		executedNow := ""
		if w[0] == "vote" && cur.status == "success" && !strings.HasPrefix(w[5], "!") {
			f := strings.Split(w[5], ":")
			name, _ := strconv.Atoi(f[0])
			src, _ := strconv.Atoi(f[1])
			dst, _ := strconv.Atoi(f[2])
			amt, _ := new(big.Int).SetString(f[3], 10)
			ref := fmt.Sprintf("%d.%d", src, name)
			pp, had := prev.props[ref]
			had0 := had
			cp, has := cur.props[ref]
			// a proposal that was there before and had expired is a NEW proposal when it reappears (reading rule)
			if had && now >= pp.expires {
				delete(tallies, ref)
				had = false
			}
			if !had {
				delete(tallies, ref)
			}
			if !has {
				return mk("successful-vote-left-no-proposal", ref, i)
			}
			tl := tallies[ref]
			if tl == nil {
				tl = &tally{voters: map[int]bool{}}
				tallies[ref] = tl
			}
			tstr := fmt.Sprintf("%d.%d.%s", src, dst, amt)
			// does this vote count? registered signer of the wallet, valid signature over exactly this transfer,
			// compatible with the proposal, not expired
			wl, regd := prev.wallets[src]
			signerTid := ""
			numReq := 0
			if regd {
				q := strings.SplitN(wl, "/", 2)
				numReq, _ = strconv.Atoi(q[0])
				for _, e := range strings.Split(q[1], ",") {
					g := strings.Split(e, ".")
					if len(g) == 2 && g[1] == strconv.Itoa(sender) && signerTid == "" {
						signerTid = g[0]
					}
				}
			}
			validSig := strings.HasSuffix(f[4], "=") && strings.TrimSuffix(f[4], "=") == sk[sender]
			if h := strings.Split(f[4], "*"); len(h) == 2 {
				validSig = h[0] == sk[sender] && h[1] == tstr
			}
			counts := regd && signerTid != "" && validSig && cp.transfer == tstr && now < cp.expires && f[5] == "0" && amt.Sign() > 0
			switch {
			case cur.extra == "x":
				if had0 && now >= pp.expires {
					return mk("executed-after-expiry", fmt.Sprintf("proposal %s expired at %d, executed by a vote in a block created at %d", ref, pp.expires, now), i)
				}
				if tl.done {
					return mk("executed-twice", "proposal "+ref+" had already been executed", i)
				}
				if counts {
					tl.voters[sender] = true
				}
				if len(tl.voters) < numReq || numReq < 2 {
					return mk("executed-without-enough-votes", fmt.Sprintf("proposal %s: %d distinct valid votes, %d required", ref, len(tl.voters), numReq), i)
				}
				tl.done = true
				executedNow = ref
				add(src, new(big.Int).Neg(amt))
				add(dst, amt)
				if !cp.executed {
					return mk("executed-not-recorded", ref, i)
				}
				if cp.valid != "v1" {
					// is the wallet's key the secret shared among exactly these voters?
					sig := "executed-transfer-signature-invalid"
					var xs []int64
					var ys []*big.Int
					okp := true
					q := strings.SplitN(wl, "/", 2)
					for _, e := range strings.Split(q[1], ",") {
						g := strings.Split(e, ".")
						c, _ := strconv.Atoi(g[1])
						if tl.voters[c] {
							t, err := strconv.ParseInt(g[0], 10, 64)
							if err != nil || t >= 2000 {
								okp = false
								continue
							}
							y, _ := new(big.Int).SetString(sk[c], 10)
							xs = append(xs, t%1000)
							ys = append(ys, y)
						}
					}
					want0, _ := new(big.Int).SetString(sk[src], 10)
					if got := lagrange0(xs, ys); !okp || got == nil || got.Cmp(want0) != 0 {
						sig += ":signers-are-not-key-shares"
					}
					recorded = append(recorded, mk(sig, fmt.Sprintf("proposal %s executed; its threshold signature %s under the wallet key", ref, cp.valid), i))
				}
			case strings.HasPrefix(cur.extra, "r"):
				if had0 && now >= pp.expires && cp.expires == pp.expires {
					return mk("vote-counted-after-expiry", fmt.Sprintf("proposal %s expired at %d, vote appended in a block created at %d", ref, pp.expires, now), i)
				}
				if tl.done {
					return mk("vote-appended-after-execution", ref, i)
				}
				if !counts {
					return mk("invalid-vote-counted", fmt.Sprintf("proposal %s: vote by %d counted (registered=%v signer=%q validsig=%v transfer %s vs %s)", ref, sender, regd, signerTid, validSig, tstr, cp.transfer), i)
				}
				if tl.voters[sender] {
					return mk("repeated-vote-counted", fmt.Sprintf("proposal %s: second vote of %d appended", ref, sender), i)
				}
				tl.voters[sender] = true
				rem, _ := strconv.Atoi(cur.extra[1:])
				if rem != numReq-len(tl.voters) {
					return mk("remaining-count-wrong", fmt.Sprintf("proposal %s: %d votes of %d, answer says %d remaining", ref, len(tl.voters), numReq, rem), i)
				}
			case strings.HasPrefix(cur.extra, "d"):
				if !tl.voters[sender] {
					return mk("first-vote-treated-as-repeat", ref, i)
				}
				if cp.tids != pp.tids {
					return mk("repeated-vote-counted", fmt.Sprintf("proposal %s: %s -> %s", ref, pp.tids, cp.tids), i)
				}
			case cur.extra == "p":
				if !tl.done && !pp.executed {
					return mk("reported-executed-but-was-not", ref, i)
				}
			default:
				return mk("unknown-vote-answer", cur.extra, i)
			}
		}
		// proposals flip to executed only through an execution in this very transaction
		for ref, cp := range cur.props {
			if pp, had := prev.props[ref]; cp.executed && (!had || !pp.executed || pp.expires != cp.expires) && ref != executedNow {
				return mk("executed-flag-without-execution", ref, i)
			}
		}
		for id := 0; id <= maxID; id++ {
			wv := want[id]
			if wv == nil {
				wv = new(big.Int)
			}
			if delta(id).Cmp(wv) != 0 {
				return mk("unexplained-balance-change", fmt.Sprintf("account %d changed by %s, expected %s (fee / executed transfer)", id, delta(id), wv), i)
			}
		}
		// proposals that vanished: forget their tallies
		for ref := range tallies {
			if _, ok := cur.props[ref]; !ok {
				delete(tallies, ref)
			}
		}
		prev = cur
	}
	if len(recorded) > 0 {
		return recorded[0]
	}
	return nil
}

func main() {
	setup()
	corr.Main(corr.Prop{
		ID: "C21", Model: "C21", Gen: gen, Impl: impl, Oracle: oracle, Serial: true,
		Cases: func(th bool) int {
			if th {
				return 3000
			}
			return 130
		},
		Extra: func() map[string]interface{} {
			m := map[string]interface{}{}
			for k, v := range stats {
				m[k] = v
			}
			return map[string]interface{}{"impl_outcomes": m}
		},
		Nontrivial: func(ops, outs []string) bool {
			k := map[string]bool{}
			for _, o := range outs {
				f := strings.Fields(o + " x x x")
				k[f[0]+f[1]+f[2][:1]] = true
			}
			return len(ops) >= 5 && len(k) >= 4
		},
	})
}
