// C22 harness: the real minersc payFees (with splitByShareRatio, sumFee, payShardersAndDelegates, getRewardedMiner, the
// sharder shuffle and DistributeRewardsRandN) called through a hook on a real state context, against Model/MinerFees.lean.
package main

import (
	"encoding/json"
	"fmt"
	"math"
	"math/big"
	"math/rand"
	"sort"
	"strconv"
	"strings"

	"0chain.net/chaincore/block"
	cstate "0chain.net/chaincore/chain/state"
	"0chain.net/chaincore/node"
	"0chain.net/chaincore/transaction"
	"0chain.net/core/encryption"
	"0chain.net/smartcontract/minersc"
	"0chain.net/smartcontract/stakepool"
	"0chain.net/smartcontract/stakepool/spenum"
	"github.com/0chain/common/core/currency"

	"verifharness/cmd/f64/f64ops"
	"verifharness/lib/corr"
	"verifharness/lib/engine"
)

const (
	nNodes   = 8
	mbCutoff = 6 // sharders with idx < mbCutoff are in the magic block
)

func nodeID(kind string, i int) string { return encryption.Hash(fmt.Sprintf("c22-%s-%d", kind, i)) }
func poolID(i int) string              { return fmt.Sprintf("d%04d", i) }

// ctx: a real state context (state reads/writes) with this case's block and magic block.
type ctx struct {
	cstate.StateContextI
	blk *block.Block
	mb  *block.MagicBlock
}

func (c *ctx) GetBlock() *block.Block                 { return c.blk }
func (c *ctx) GetMagicBlock(int64) *block.MagicBlock { return c.mb }

type nodeSpec struct {
	killed bool
	sp     *stakepool.StakePool
	npools int
}

type world struct {
	gn       *minersc.GlobalNode
	nShard   int
	c        *ctx
	miners   map[int]*nodeSpec
	sharders map[int]*nodeSpec
	dirty    bool
}

func errClass(err error) string {
	s := err.Error()
	for _, p := range []struct{ sub, class string }{
		{"not block generator", "not-generator"}, {"bad round", "bad-round"},
		{"uint64 minus overflow", "minus-overflow"}, {"uint64 addition overflow", "add-overflow"}, {"uint64 overflows int64", "u64-overflows-i64"},
		{"float64 underflows uint64", "f64-underflows-u64"}, {"negative coin value", "negative-value"}, {"int64 underflows uint64", "i64-underflows-u64"},
		{"no stake", "no-stake"},
	} {
		if strings.Contains(s, p.sub) {
			return p.class
		}
	}
	return "other:" + s
}

func (w *world) sortedIdx(m map[int]*nodeSpec) []int {
	var ks []int
	for k := range m {
		ks = append(ks, k)
	}
	sort.Ints(ks)
	return ks
}

func (w *world) flush() error {
	if !w.dirty {
		return nil
	}
	mk := func(kind string, m map[int]*nodeSpec) []*minersc.MinerNode {
		var ns []*minersc.MinerNode
		for _, i := range w.sortedIdx(m) {
			n := minersc.NewMinerNode()
			n.ID = nodeID(kind, i)
			n.StakePool = m[i].sp
			n.SimpleNode.HasBeenKilled = m[i].killed
			ns = append(ns, n)
		}
		return ns
	}
	w.dirty = false
	mb := block.NewMagicBlock()
	mb.Sharders = node.NewPool(node.NodeTypeSharder)
	for _, i := range w.sortedIdx(w.sharders) {
		if i < mbCutoff {
			nd := node.Provider()
			nd.ID = nodeID("s", i)
			nd.Type = node.NodeTypeSharder
			mb.Sharders.NodesMap[nd.ID] = nd // (AddNode would need a real key pair and registers the node globally)
			mb.Sharders.Nodes = append(mb.Sharders.Nodes, nd)
		}
	}
	w.c.mb = mb
	return minersc.VerifC22PutNodes(w.c, mk("m", w.miners), mk("s", w.sharders))
}

func showNode(tag string, i int, sp *stakepool.StakePool, n int) string {
	s := fmt.Sprintf(" %s %d %d p", tag, i, uint64(sp.Reward))
	for k := 0; k < n; k++ {
		s += fmt.Sprintf(" %d", uint64(sp.Pools[poolID(k)].Reward))
	}
	return s
}

func impl(ops []string) []string {
	engine.Setup()
	outs := make([]string, len(ops))
	var w *world
	for i, op := range ops {
		f := strings.Fields(op)
		outs[i] = "bad-op"
		if len(f) == 0 {
			continue
		}
		func() {
			defer func() {
				if r := recover(); r != nil {
					if strings.Contains(fmt.Sprint(r), "divide by zero") {
						outs[i] = "err panic-div-zero"
					} else {
						outs[i] = fmt.Sprintf("err panic:%v", r)
					}
				}
			}()
			switch {
			case f[0] == "builtins" && len(f) == 2:
				outs[i] = "ok"
			case f[0] == "dupcheck" && len(f) == 2:
				outs[i] = dupcheckImpl(f[1])
			case f[0] == "gn":
				w = nil
				if len(f) != 10 {
					return
				}
				sr, ok1 := f64ops.FromHex(f[1])
				br, e2 := strconv.ParseUint(f[2], 10, 64)
				rr, ok3 := f64ops.FromHex(f[3])
				ep, e4 := strconv.ParseInt(f[4], 10, 64)
				dc, ok5 := f64ops.FromHex(f[5])
				nm, e6 := strconv.Atoi(f[6])
				nsd, e7 := strconv.Atoi(f[7])
				lr, e8 := strconv.ParseInt(f[8], 10, 64)
				ns, e9 := strconv.Atoi(f[9])
				if !ok1 || e2 != nil || !ok3 || e4 != nil || !ok5 || e6 != nil || e7 != nil || e8 != nil || e9 != nil || ep == 0 || nm < 0 || nsd < 0 || ns < 0 {
					return
				}
				ew, err := engine.NewWorld(map[string]currency.Coin{}, func(sctx *cstate.StateContext) error {
					fork := cstate.NewHardFork("demeter", 0)
					_, err := sctx.InsertTrieNode(fork.GetKey(), fork)
					return err
				})
				if err != nil {
					outs[i] = "harness-error " + err.Error()
					return
				}
				gn := &minersc.GlobalNode{ShareRatio: sr, BlockReward: currency.Coin(br), RewardRate: rr, Epoch: ep, RewardDeclineRate: dc,
					NumMinerDelegatesRewarded: nm, NumSharderDelegatesRewarded: nsd, NumShardersRewarded: ns, LastRound: lr, ViewChange: -1}
				w = &world{gn: gn, nShard: ns, c: &ctx{StateContextI: ew.SCtx(), blk: block.NewBlock("", 1)}, miners: map[int]*nodeSpec{}, sharders: map[int]*nodeSpec{}, dirty: true}
				outs[i] = "ok"
			case w == nil:
				return
			case f[0] == "node" && len(f) >= 7:
				idx, e1 := strconv.Atoi(f[2])
				ms, e2 := strconv.ParseUint(f[4], 10, 64)
				ch, ok3 := f64ops.FromHex(f[5])
				r, e4 := strconv.ParseUint(f[6], 10, 64)
				if e1 != nil || e2 != nil || !ok3 || e4 != nil || idx < 0 || idx >= nNodes || (f[3] != "0" && f[3] != "1") || (f[1] != "m" && f[1] != "s") {
					return
				}
				sp := stakepool.NewStakePool()
				sp.Settings.MinStake = currency.Coin(ms)
				sp.Settings.ServiceChargeRatio = ch
				sp.Settings.DelegateWallet = "wallet"
				sp.HasBeenKilled = f[3] == "1"
				sp.Reward = currency.Coin(r)
				for k, p := range f[7:] {
					q := strings.Split(p, ":")
					if len(q) != 2 {
						return
					}
					b, e1 := strconv.ParseUint(q[0], 10, 64)
					rw, e2 := strconv.ParseUint(q[1], 10, 64)
					if e1 != nil || e2 != nil {
						return
					}
					sp.Pools[poolID(k)] = &stakepool.DelegatePool{Balance: currency.Coin(b), Reward: currency.Coin(rw), DelegateID: poolID(k), Status: spenum.Active}
				}
				spec := &nodeSpec{killed: f[3] == "1", sp: sp, npools: len(f) - 7}
				if f[1] == "m" {
					w.miners[idx] = spec
				} else {
					w.sharders[idx] = spec
				}
				w.dirty = true
				outs[i] = "ok"
			case f[0] == "pay" && len(f) == 10:
				ir, e1 := strconv.ParseInt(f[2], 10, 64)
				rd, e2 := strconv.ParseInt(f[3], 10, 64)
				sender, e3 := strconv.Atoi(f[7])
				gen, e4 := strconv.Atoi(f[8])
				seed, e5 := strconv.ParseInt(f[9], 10, 64)
				if e1 != nil || e2 != nil || e3 != nil || e4 != nil || e5 != nil || (f[1] != "0" && f[1] != "1") || (f[1] == "1") != (sender == gen) {
					return
				}
				var fees []uint64
				if f[4] != "-" {
					for _, x := range strings.Split(f[4], ",") {
						v, err := strconv.ParseUint(x, 10, 64)
						if err != nil {
							return
						}
						fees = append(fees, v)
					}
				}
				if err := w.flush(); err != nil {
					outs[i] = "harness-error " + err.Error()
					return
				}
				// the selections on the line must be what the real seeded code selects (the model trusts them)
				if msel, ssel := w.selections(gen, seed); msel != f[5] || ssel != f[6] {
					_, _ = msel, ssel
					outs[i] = "bad-op"
					return
				}
				b := block.NewBlock("", rd)
				b.MinerID = nodeID("m", gen)
				b.SetRoundRandomSeed(seed)
				for _, fee := range fees {
					t := &transaction.Transaction{}
					t.Fee = currency.Coin(fee)
					b.Txns = append(b.Txns, t)
				}
				w.c.blk = b
				t := &transaction.Transaction{}
				t.ClientID = nodeID("m", sender)
				in, _ := json.Marshal(minersc.PayFeesInput{Round: ir})
				gnBefore := *w.gn
				_, err := minersc.VerifC22PayFees(t, in, w.gn, w.c)
				if err != nil {
					*w.gn = gnBefore
					outs[i] = "err " + errClass(err)
					// a failing transaction's writes are discarded: restore the nodes from the specs (unchanged by the call? the
					// call mutates the loaded copies only) — nothing to do
					return
				}
				// the four amounts, from the real functions
				brw, _ := currency.MultFloat64(gnBefore.BlockReward, gnBefore.RewardRate)
				mR, sR, _ := minersc.VerifC22Split(gnBefore.ShareRatio, brw)
				tot, _ := minersc.VerifC22SumFee(b)
				mF, sF, _ := minersc.VerifC22Split(gnBefore.ShareRatio, tot)
				s := fmt.Sprintf("ok gn %d %s a %d %d %d %d", w.gn.LastRound, f64ops.Hex(w.gn.RewardRate), uint64(mR), uint64(mF), uint64(sR), uint64(sF))
				if f[5] != "none" {
					mi, _ := strconv.Atoi(strings.Split(f[5], "/")[0])
					n, err := minersc.VerifC22GetNode(w.c, nodeID("m", mi), false)
					if err != nil {
						outs[i] = "harness-error " + err.Error()
						return
					}
					w.miners[mi].sp = n.StakePool
					s += showNode("M", mi, n.StakePool, w.miners[mi].npools)
				}
				if f[6] != "none" && f[6] != "empty" {
					for _, e := range strings.Split(f[6], ";") {
						si, _ := strconv.Atoi(strings.Split(e, "/")[0])
						n, err := minersc.VerifC22GetNode(w.c, nodeID("s", si), true)
						if err != nil {
							outs[i] = "harness-error " + err.Error()
							return
						}
						w.sharders[si].sp = n.StakePool
						s += showNode("S", si, n.StakePool, w.sharders[si].npools)
					}
				}
				outs[i] = s
			}
		}()
	}
	return outs
}

// selections replicates WHICH providers and delegates the real code selects (getRewardedMiner, the sharder shuffle,
// getRandPools) with the real math/rand; it is used by the generator to write the op line and by impl to refuse a line
// that does not describe the real selection.
func permSel(seed int64, npools, n int) string {
	if n >= npools {
		return "-"
	}
	idx := rand.New(rand.NewSource(seed)).Perm(npools)[:n]
	if len(idx) == 0 {
		return "-"
	}
	s := make([]string, len(idx))
	for i, x := range idx {
		s[i] = strconv.Itoa(x)
	}
	return strings.Join(s, ".")
}

func (w *world) selections(gen int, seed int64) (string, string) {
	msel := "none"
	if g, ok := w.miners[gen]; ok && !g.killed {
		msel = fmt.Sprintf("%d/%s", gen, permSel(seed, g.npools, w.gn.NumMinerDelegatesRewarded))
	} else {
		var live []int
		for _, i := range w.sortedIdx(w.miners) {
			if !w.miners[i].killed {
				live = append(live, i)
			}
		}
		if len(live) > 0 {
			i := live[rand.New(rand.NewSource(seed)).Intn(len(live))]
			msel = fmt.Sprintf("%d/%s", i, permSel(seed, w.miners[i].npools, w.gn.NumMinerDelegatesRewarded))
		}
	}
	var live, inMB []int
	for _, i := range w.sortedIdx(w.sharders) {
		if !w.sharders[i].killed {
			live = append(live, i)
			if i < mbCutoff {
				inMB = append(inMB, i)
			}
		}
	}
	if len(live) == 0 {
		return msel, "none"
	}
	rand.New(rand.NewSource(seed)).Shuffle(len(inMB), func(a, b int) { inMB[a], inMB[b] = inMB[b], inMB[a] })
	k := w.nShard
	if k > len(inMB) {
		k = len(inMB)
	}
	if k == 0 {
		return msel, "empty"
	}
	var parts []string
	for _, i := range inMB[:k] {
		parts = append(parts, fmt.Sprintf("%d/%s", i, permSel(seed, w.sharders[i].npools, w.gn.NumSharderDelegatesRewarded)))
	}
	return msel, strings.Join(parts, ";")
}

// ---------------------------------------------------------------------------------------------------------
// the verifier's duplicate built-in check: the names come from the source (harness/cmd/xc22 keeps them in step);
// the Go side of `dupcheck` is a direct transcription used only for the fixed corpus — the tie of this part is the
// extractor, see checks/C22.json.
var builtins = []string{"payFees", "commit_settings_changes", "blobber_block_rewards", "generate_challenge"}

func dupcheckImpl(spec string) string {
	seen := map[string]bool{}
	if spec == "-" {
		return "accept"
	}
	for _, t := range strings.Split(spec, ",") {
		q := strings.Split(t, ":")
		if len(q) != 2 || (q[1] != "0" && q[1] != "1") {
			return "bad-op"
		}
		isB := false
		for _, b := range builtins {
			isB = isB || b == q[0]
		}
		if q[1] == "1" && isB {
			if seen[q[0]] {
				return "reject"
			}
			seen[q[0]] = true
		}
	}
	return "accept"
}

// ---------------------------------------------------------------------------------------------------------
// generator

func genBal(r *rand.Rand) uint64 {
	switch r.Intn(8) {
	case 0:
		return 0
	case 1:
		return 1
	case 2:
		return uint64(r.Int63n(4e18))
	default:
		return uint64(1+r.Intn(100000)) * 1e10
	}
}

func genFee(r *rand.Rand) uint64 {
	switch r.Intn(10) {
	case 0:
		return 0
	case 1:
		return uint64(r.Intn(10))
	case 2:
		return 1<<53 + uint64(r.Intn(7)) - 3
	case 3:
		return uint64(r.Int63n(4e18))
	case 4:
		return math.MaxUint64 - uint64(r.Intn(3))
	case 5:
		return 1<<63 - uint64(r.Intn(3))
	default:
		return uint64(r.Int63n(1e12))
	}
}

func genRatio(r *rand.Rand) float64 {
	switch r.Intn(10) {
	case 0:
		return 0
	case 1:
		return 1
	case 2:
		return 0.16
	case 3:
		return 0.5
	case 4:
		return 1 - 1.0/(1<<53)
	case 5:
		return []float64{1.5, -0.25}[r.Intn(2)] // invalid settings (not judged by the oracle)
	default:
		return r.Float64()
	}
}

func gen(r *rand.Rand, thorough bool, i int) []string {
	w := &world{miners: map[int]*nodeSpec{}, sharders: map[int]*nodeSpec{}, gn: &minersc.GlobalNode{}}
	// two regimes, so that no uint64(float) conversion leaves the range where Go defines it (cf. C10): either huge
	// amounts with ordinary ratios, or amounts below 2^50 with any ratio (1.0 charges, share ratio above 1, ...)
	big := r.Intn(4) == 0
	sr := genRatio(r)
	if big && sr > 1 {
		sr = 0.16
	}
	br := uint64(r.Int63n(1e10))
	if big && r.Intn(2) == 0 {
		br = genFee(r) % 4000000000000000001 // up to the token supply
	}
	rr := 1.0
	if r.Intn(3) == 0 {
		rr = r.Float64()
	}
	ep := int64(1 + r.Intn(5))
	if r.Intn(3) == 0 {
		ep = 125000000
	}
	dc := 0.1
	if r.Intn(4) == 0 {
		dc = r.Float64()
	}
	nm, nsd, ns := r.Intn(4), r.Intn(4), r.Intn(4)
	if r.Intn(3) == 0 {
		nm, nsd, ns = 10, 5, 1 // shipped
	}
	w.gn.NumMinerDelegatesRewarded, w.gn.NumSharderDelegatesRewarded, w.nShard = nm, nsd, ns
	ops := []string{fmt.Sprintf("gn %s %d %s %d %s %d %d %d %d", f64ops.Hex(sr), br, f64ops.Hex(rr), ep, f64ops.Hex(dc), nm, nsd, r.Intn(100), ns)}
	addNode := func(kind string, idx int) {
		np := r.Intn(5)
		killed := r.Intn(7) == 0
		ch := float64(r.Intn(51)) / 100
		if r.Intn(10) == 0 && !big {
			ch = 1
		}
		ms := uint64(0)
		if r.Intn(6) == 0 {
			ms = genBal(r)
		}
		line := fmt.Sprintf("node %s %d %d %d %s %d", kind, idx, map[bool]int{false: 0, true: 1}[killed], ms, f64ops.Hex(ch), uint64(r.Int63n(1e12)))
		for k := 0; k < np; k++ {
			line += fmt.Sprintf(" %d:%d", genBal(r), uint64(r.Int63n(1e9)))
		}
		ops = append(ops, line)
		spec := &nodeSpec{killed: killed, npools: np}
		if kind == "m" {
			w.miners[idx] = spec
		} else {
			w.sharders[idx] = spec
		}
	}
	for k := 0; k < 1+r.Intn(3); k++ {
		addNode("m", r.Intn(4))
	}
	nsh := r.Intn(5)
	for k := 0; k < nsh; k++ {
		addNode("s", r.Intn(nNodes))
	}
	round := int64(1 + r.Intn(20))
	for k := 0; k < 1+r.Intn(5); k++ {
		gen := r.Intn(4)
		sender := gen
		if r.Intn(6) == 0 {
			sender = r.Intn(4) // a foreign payment attempt
		}
		ir := round
		if r.Intn(8) == 0 {
			ir = round + int64(r.Intn(3)) - 1
		}
		var fees []string
		for q := 0; q < r.Intn(5); q++ {
			fee := genFee(r)
			if !big {
				fee %= 1 << 50
			}
			fees = append(fees, strconv.FormatUint(fee, 10))
		}
		fs := "-"
		if len(fees) > 0 {
			fs = strings.Join(fees, ",")
		}
		seed := r.Int63()
		msel, ssel := w.selections(gen, seed)
		ig := 0
		if sender == gen {
			ig = 1
		}
		ops = append(ops, fmt.Sprintf("pay %d %d %d %s %s %s %d %d %d", ig, ir, round, fs, msel, ssel, sender, gen, seed))
		if r.Intn(3) > 0 {
			round++ // otherwise: a repeated payment in the same round
		}
	}
	return ops
}

// ---------------------------------------------------------------------------------------------------------
// oracle
func oracle(ops, outs []string) *corr.Violation {
	mk := func(sig, msg string) *corr.Violation {
		return &corr.Violation{Signature: "C22:" + sig, Message: msg, Ops: ops, Impl: outs}
	}
	var sr float64
	var br uint64
	// rewards held by every provider (stake pool reward + its delegates' rewards), to measure what a payment credits
	held := map[string]*big.Int{}
	charges := map[string]float64{}
	sumRewards := func(fields []string) *big.Int { // "<spReward> p <r>*"
		t := new(big.Int)
		for _, x := range fields {
			if x == "p" {
				continue
			}
			v, ok := new(big.Int).SetString(x, 10)
			if !ok {
				break
			}
			t.Add(t, v)
		}
		return t
	}
	for i, op := range ops {
		f := strings.Fields(op)
		if len(f) == 0 {
			continue
		}
		switch f[0] {
		case "gn":
			if outs[i] == "ok" {
				sr, _ = f64ops.FromHex(f[1])
				br, _ = strconv.ParseUint(f[2], 10, 64)
				_ = br
			}
		case "node":
			if outs[i] == "ok" {
				t, _ := new(big.Int).SetString(f[6], 10)
				for _, p := range f[7:] {
					v, _ := new(big.Int).SetString(strings.Split(p, ":")[1], 10)
					t.Add(t, v)
				}
				held[f[1]+f[2]] = t
				charges[f[1]+f[2]], _ = f64ops.FromHex(f[5])
			}
		case "pay":
			ok := strings.HasPrefix(outs[i], "ok ")
			if f[1] == "0" && ok {
				return mk("foreign-payment-accepted", fmt.Sprintf("op %d %q: sender %s is not the block generator %s, answered %q", i, op, f[7], f[8], outs[i]))
			}
			if f[2] != f[3] && ok {
				return mk("wrong-round-accepted", fmt.Sprintf("op %d %q: input round %s, block round %s", i, op, f[2], f[3]))
			}
			if !ok || !(sr >= 0 && sr <= 1) {
				continue
			}
			o := strings.Fields(outs[i])
			// ok gn <lr> <rate> a <mR> <mF> <sR> <sF> ...
			if len(o) < 9 || o[4] != "a" {
				return mk("unparsable", outs[i])
			}
			var a [4]*big.Int
			for k := 0; k < 4; k++ {
				a[k], _ = new(big.Int).SetString(o[5+k], 10)
			}
			total := new(big.Int)
			if f[4] != "-" {
				for _, x := range strings.Split(f[4], ",") {
					v, _ := new(big.Int).SetString(x, 10)
					total.Add(total, v)
				}
			}
			if new(big.Int).Add(a[1], a[3]).Cmp(total) != 0 {
				return mk("fee-split-not-exact", fmt.Sprintf("op %d %q: miner fees %s + sharder fees %s != block fees %s", i, op, a[1], a[3], total))
			}
			// no token is created: what the providers and their delegates are credited never exceeds what was assigned
			// (amounts below 2^53 and charges in [0,1]: beyond that C10's known rounding defect applies)
			assigned := new(big.Int)
			small := true
			for k := 0; k < 4; k++ {
				assigned.Add(assigned, a[k])
				small = small && a[k].BitLen() <= 53
			}
			credited := new(big.Int)
			for k := 9; k < len(o); k++ {
				if o[k] != "M" && o[k] != "S" {
					continue
				}
				key := map[string]string{"M": "m", "S": "s"}[o[k]] + o[k+1]
				end := k + 2
				for end < len(o) && o[end] != "M" && o[end] != "S" {
					end++
				}
				now := sumRewards(o[k+2 : end])
				if prev, ok := held[key]; ok {
					if now.Cmp(prev) < 0 {
						return mk("provider-rewards-decreased", fmt.Sprintf("op %d %q: %s held %s, now %s", i, op, key, prev, now))
					}
					credited.Add(credited, new(big.Int).Sub(now, prev))
				}
				held[key] = now
				if c := charges[key]; !(c >= 0 && c <= 1) {
					small = false
				}
			}
			if small && credited.Cmp(assigned) > 0 {
				return mk("more-credited-than-assigned", fmt.Sprintf("op %d %q: providers and delegates credited %s, fees+reward assigned %s", i, op, credited, assigned))
			}
			if o[2] != f[3] {
				return mk("last-round-not-recorded", fmt.Sprintf("op %d %q: LastRound %s", i, op, o[2]))
			}
		}
	}
	return nil
}

// fixedPay builds a case whose pay lines carry the real selections.
func fixedPay(gnLine string, nodes []string, pays [][5]int64, fees string) []string {
	f := strings.Fields(gnLine)
	w := &world{miners: map[int]*nodeSpec{}, sharders: map[int]*nodeSpec{}, gn: &minersc.GlobalNode{}}
	w.gn.NumMinerDelegatesRewarded, _ = strconv.Atoi(f[6])
	w.gn.NumSharderDelegatesRewarded, _ = strconv.Atoi(f[7])
	w.nShard, _ = strconv.Atoi(f[9])
	ops := []string{gnLine}
	for _, n := range nodes {
		q := strings.Fields(n)
		idx, _ := strconv.Atoi(q[2])
		spec := &nodeSpec{killed: q[3] == "1", npools: len(q) - 7}
		if q[1] == "m" {
			w.miners[idx] = spec
		} else {
			w.sharders[idx] = spec
		}
		ops = append(ops, n)
	}
	for _, p := range pays { // sender, gen, inputRound, round, seed
		msel, ssel := w.selections(int(p[1]), p[4])
		ig := 0
		if p[0] == p[1] {
			ig = 1
		}
		ops = append(ops, fmt.Sprintf("pay %d %d %d %s %s %s %d %d %d", ig, p[2], p[3], fees, msel, ssel, p[0], p[1], p[4]))
	}
	return ops
}

func main() {
	one := f64ops.Hex(1.0)
	r16 := f64ops.Hex(0.16)
	dec := f64ops.Hex(0.1)
	corr.Main(corr.Prop{
		ID: "C22", Model: "C22", Gen: gen, Impl: impl, Oracle: oracle,
		Cases: func(th bool) int {
			if th {
				return 20000
			}
			return 1500
		},
		Fixed: [][]string{
			fixedPay("gn "+r16+" 680000000 "+one+" 125000000 "+dec+" 10 5 0 1",
				[]string{"node m 0 0 0 " + f64ops.Hex(0.1) + " 0 10000000000:0 20000000000:0", "node s 0 0 0 " + f64ops.Hex(0.1) + " 0 10000000000:0", "node s 1 0 0 " + f64ops.Hex(0.1) + " 0"},
				// a payment, the SAME payment again in the same round, a foreign attempt, a wrong round
				[][5]int64{{0, 0, 7, 7, 42}, {0, 0, 7, 7, 42}, {1, 0, 8, 8, 42}, {0, 0, 9, 8, 42}}, "100,250,3"),
			{"builtins payFees,commit_settings_changes,blobber_block_rewards,generate_challenge", "dupcheck payFees:1,pour:1,payFees:1", "dupcheck payFees:1,generate_challenge:1,pour:1,pour:1",
				"dupcheck payFees:0,payFees:0", "dupcheck -", "dupcheck payFees:1,payFees:0", "dupcheck x", "gn x", "pay 1 1 1 - none none 0 0 1", "frob"},
		},
		Nontrivial: func(ops, outs []string) bool {
			for _, o := range outs {
				if strings.HasPrefix(o, "ok gn") {
					return true
				}
			}
			return false
		},
	})
}
