// probecase: a send from an account to the UPPER-CASE spelling of its own id (and to another account's upper-case id).
package main

import (
	"fmt"
	"strings"

	"0chain.net/chaincore/transaction"
	"github.com/0chain/common/core/currency"
	"verifharness/lib/engine"
)

func main() {
	a, b := engine.NewClient("a"), engine.NewClient("b")
	w, err := engine.NewWorld(map[string]currency.Coin{a.ID: 1000, b.ID: 600}, nil)
	if err != nil {
		panic(err)
	}
	engine.SetFeeEnabled(false)
	show := func(tag string) {
		lv, _ := w.Leaves()
		ba, na, _ := w.Account(a.ID)
		bA, nA, pA := w.Account(strings.ToUpper(a.ID))
		bb, _, _ := w.Account(b.ID)
		fmt.Printf("%-34s a=%d/%d A=%d/%d(%v) b=%d leaves=%d\n", tag, ba, na, bA, nA, pA, bb, len(lv))
	}
	show("genesis")
	t := w.Txn(a, strings.ToUpper(a.ID), 10, 0, 1, transaction.TxnTypeSend, "", "")
	_, err = w.Exec(t)
	show(fmt.Sprintf("send a->UPPER(a) 10: err=%v", err))
	t = w.Txn(a, strings.ToUpper(b.ID), 7, 0, 2, transaction.TxnTypeSend, "", "")
	_, err = w.Exec(t)
	show(fmt.Sprintf("send a->UPPER(b) 7: err=%v", err))
}
