// C34 harness: the real DKG (chaincore/threshold/bls), client threshold / split keys (core/encryption) and
// ShareOrSigns.Validate (chaincore/block) against Model/DKG.lean through the crypto-world line protocol.
package main

import (
	"fmt"
	"math/big"
	"math/rand"
	"strconv"
	"strings"

	"verifharness/lib/corr"
	"verifharness/lib/cryptow"
)

func impl(ops []string) []string {
	w := cryptow.New()
	outs := make([]string, len(ops))
	for i, op := range ops {
		func() {
			defer func() {
				if r := recover(); r != nil {
					outs[i] = "panic"
				}
			}()
			o, ok := w.Step(strings.Fields(op))
			if !ok {
				o = "bad-op"
			}
			outs[i] = o
		}()
	}
	return outs
}

// ---------------------------------------------------------------------------------------------- generator

func rndScalar(r *rand.Rand) string {
	q := cryptow.Order()
	switch r.Intn(14) {
	case 0:
		return "1"
	case 1:
		return new(big.Int).Sub(q, big.NewInt(1)).String()
	case 2:
		return strconv.Itoa(2 + r.Intn(5))
	case 3:
		return new(big.Int).Add(q, big.NewInt(int64(1+r.Intn(3)))).String() // >= r: reduced
	case 4:
		return "-" + strconv.Itoa(1+r.Intn(9))
	}
	return new(big.Int).Rand(r, q).String()
}

func rndNonZero(r *rand.Rand) string {
	for {
		s := rndScalar(r)
		v, _ := new(big.Int).SetString(s, 10)
		if v.Mod(v, cryptow.Order()).Sign() != 0 {
			return s
		}
	}
}

// rndGeneric: a uniformly random non-zero scalar — for the stand-ins of values the model cannot know (the discrete
// logarithm of a message point, coefficients the real code draws from its CSPRNG): they must not collide with
// anything else, as the real values do not.
func rndGeneric(r *rand.Rand) string {
	for {
		v := new(big.Int).Rand(r, cryptow.Order())
		if v.BitLen() > 200 {
			return v.String()
		}
	}
}

func rndMinerID(r *rand.Rand) string {
	const hx = "0123456789abcdef"
	b := make([]byte, 64)
	for i := range b {
		b[i] = hx[r.Intn(16)]
	}
	switch r.Intn(12) {
	case 0: // boundary: smallest / largest prefix
		copy(b, strings.Repeat("0", 31))
	case 1:
		copy(b, strings.Repeat("f", 31))
	}
	return string(b)
}

func joinInts(xs []int) string {
	if len(xs) == 0 {
		return "-"
	}
	s := make([]string, len(xs))
	for i, x := range xs {
		s[i] = strconv.Itoa(x)
	}
	return strings.Join(s, ",")
}

func subsets(n, k int) [][]int {
	var res [][]int
	var rec func(start int, cur []int)
	rec = func(start int, cur []int) {
		if len(cur) == k {
			res = append(res, append([]int(nil), cur...))
			return
		}
		for i := start; i < n; i++ {
			rec(i+1, append(cur, i))
		}
	}
	rec(0, nil)
	return res
}

func perms(xs []int) [][]int {
	if len(xs) <= 1 {
		return [][]int{append([]int(nil), xs...)}
	}
	var res [][]int
	for i := range xs {
		rest := append(append([]int(nil), xs[:i]...), xs[i+1:]...)
		for _, p := range perms(rest) {
			res = append(res, append([]int{xs[i]}, p...))
		}
	}
	return res
}

type gen struct {
	r    *rand.Rand
	ops  []string
	nsig int
}

func (g *gen) add(f string, a ...interface{}) { g.ops = append(g.ops, fmt.Sprintf(f, a...)) }
func (g *gen) sig(f string, a ...interface{}) int {
	g.add(f, a...)
	g.nsig++
	return g.nsig - 1
}

func (g *gen) coeffs(t int) string {
	cs := make([]string, t)
	for i := range cs {
		cs[i] = rndScalar(g.r)
	}
	if len(cs) == 0 {
		return "-"
	}
	return strings.Join(cs, ",")
}

// dkgScenario: a DKG among n parties; faulty>0 injects bad shares, partial qualified sets, conflicts.
func (g *gen) dkgScenario(t, n int, faulty bool, exhaustive bool) {
	r := g.r
	g.add("dkg %d %d", t, n)
	g.add("order")
	seen := map[string]bool{}
	for j := 0; j < n; j++ {
		id := rndMinerID(r)
		for seen[id[:31]] {
			id = rndMinerID(r)
		}
		seen[id[:31]] = true
		g.add("party %d %s %s", j, id, g.coeffs(t))
	}
	g.add("msg a %s", rndGeneric(r))
	g.add("msg b %s", rndGeneric(r))
	// qualified set
	var qual []int
	for j := 0; j < n; j++ {
		if !faulty || r.Intn(5) > 0 {
			qual = append(qual, j)
		}
	}
	if len(qual) == 0 {
		qual = []int{0}
	}
	for _, i := range r.Perm(n) {
		for _, j := range qual {
			d := "0"
			if faulty && r.Intn(6) == 0 {
				d = rndNonZero(r)
			}
			if r.Intn(3) == 0 {
				g.add("share %d %d", j, i)
			}
			g.add("validate %d %d %d %s", i, j, j, d)
			if faulty && r.Intn(8) == 0 {
				g.add("validate %d %d %d 0", i, j, r.Intn(n)) // against another party's polynomial
			}
			g.add("recv %d %d %s 0", i, j, d)
			if faulty && r.Intn(8) == 0 {
				g.add("recv %d %d %s %d", i, j, rndScalar(r), r.Intn(2)) // conflicting re-delivery
			}
		}
		g.add("aggsk %d", i)
		q := qual
		if faulty && r.Intn(5) == 0 {
			q = qual[:1+r.Intn(len(qual))]
		}
		g.add("aggpk %d %s", i, joinInts(q))
	}
	for i := 0; i < n; i++ {
		for k := 0; k < n; k++ {
			if n <= 4 || r.Intn(3) == 0 || i == k {
				g.add("gpk %d %d", i, k)
			}
		}
	}
	// signature shares
	sigOf := map[string][]int{}
	for _, m := range []string{"a", "b"} {
		sg := make([]int, n)
		for k := 0; k < n; k++ {
			sg[k] = g.sig("sign %d %s", k, m)
		}
		sigOf[m] = sg
	}
	for i := 0; i < n; i++ {
		for k := 0; k < n; k++ {
			if n > 4 && r.Intn(3) > 0 {
				continue
			}
			g.add("verify %d %d %d a", i, k, sigOf["a"][k])
			if r.Intn(4) == 0 {
				g.add("verify %d %d %d b", i, k, sigOf["a"][k])            // wrong message
				g.add("verify %d %d %d a", i, (k+1)%n, sigOf["a"][k])      // wrong signer
			}
		}
	}
	// recovery from subsets
	rec := func(m string, sub []int) int {
		ss := make([]int, len(sub))
		for x, k := range sub {
			ss[x] = sigOf[m][k]
		}
		return g.sig("recover %s %s", joinInts(ss), joinInts(sub))
	}
	var groupSigs []int
	for k := 1; k <= n; k++ {
		subs := subsets(n, k)
		for _, s := range subs {
			if !exhaustive && k != t && r.Intn(4) > 0 {
				continue
			}
			if !exhaustive && len(subs) > 12 && r.Intn(len(subs)) > 12 {
				continue
			}
			ps := [][]int{s}
			if exhaustive && k <= 4 && k == t {
				ps = perms(s)
			} else if k > 1 {
				p := append([]int(nil), s...)
				r.Shuffle(len(p), func(a, b int) { p[a], p[b] = p[b], p[a] })
				ps = append(ps, p)
			}
			for _, p := range ps {
				gs := rec("a", p)
				if k >= t {
					groupSigs = append(groupSigs, gs)
				}
			}
		}
	}
	for x, gs := range groupSigs {
		if x < 3 || r.Intn(10) == 0 {
			g.add("gverify %d a %s", gs, joinInts(qual))
			if r.Intn(3) == 0 {
				g.add("gverify %d b %s", gs, joinInts(qual))
			}
		}
	}
	// faulty recoveries: duplicate id, mismatched lengths, share on another message mixed in
	if n >= 2 {
		g.add("recover %d,%d 0,0", sigOf["a"][0], sigOf["a"][0]) // errors: no signature register is consumed
		g.add("recover %d 0,1", sigOf["a"][0])
		g.add("recover - -")
		p := r.Perm(n)
		ss := make([]int, n)
		for x, k := range p {
			ss[x] = sigOf["a"][k]
		}
		ss[0] = sigOf["b"][p[0]]
		g.sig("recover %s %s", joinInts(ss), joinInts(p))
	}
	// ShareOrSigns
	for tr := 0; tr < 2; tr++ {
		j := r.Intn(n)
		g.add("key ck%d %s", tr, rndNonZero(r))
		ks := g.sig("ksign ck%d a", tr)
		var es []string
		for i := 0; i < n; i++ {
			switch x := r.Intn(10); {
			case x < 5:
				d := "0"
				if faulty && r.Intn(4) == 0 {
					d = rndNonZero(r)
				}
				es = append(es, fmt.Sprintf("s:%d:%s", i, d))
			case x < 7:
				es = append(es, fmt.Sprintf("n:%d", i))
			case x < 9:
				m, kn := "a", fmt.Sprintf("ck%d", tr)
				if faulty && r.Intn(3) == 0 {
					m = "b"
				}
				if faulty && r.Intn(4) == 0 {
					kn = "-"
				}
				es = append(es, fmt.Sprintf("g:%d:%s:%d:%s", i, kn, ks, m))
			}
		}
		if len(es) == 0 {
			es = []string{"-"}
		}
		g.add("sos %d %s", j, strings.Join(es, ","))
	}
}

// bigClientScenario: client threshold keys with 10..20 shares; subsets biased to contain shares whose id is >= 10;
// reconstruction both with the share objects and through the id STRINGS (GetID -> SetID on a fresh scheme object).
func (g *gen) bigClientScenario(t, n int) {
	r := g.r
	g.add("dkg %d %d", t, n)
	g.add("order")
	g.add("msg a %s", rndGeneric(r))
	g.add("key p %s", rndNonZero(r))
	pa := g.sig("ksign p a")
	g.add("kverify p %d a", pa)
	cs := make([]string, t-1)
	for i := range cs {
		cs[i] = rndGeneric(r)
	}
	c := "-"
	if len(cs) > 0 {
		c = strings.Join(cs, ",")
	}
	g.add("tks %d %d p %s", t, n, c)
	ts := make([]int, n)
	for i := 0; i < n; i++ {
		ts[i] = g.sig("tsign %d a", i)
		g.add("tid %d", i)
	}
	for x := 0; x < 10; x++ {
		k := t
		if r.Intn(3) == 0 && t < n {
			k = t + r.Intn(n-t+1)
		}
		if r.Intn(6) == 0 && t > 1 {
			k = t - 1
		}
		// choose k share indices, preferring those with id >= 10 (index >= 9)
		p := r.Perm(n)
		if r.Intn(4) > 0 {
			var hi, lo []int
			for _, i := range p {
				if i >= 9 {
					hi = append(hi, i)
				} else {
					lo = append(lo, i)
				}
			}
			p = append(hi, lo...)
		}
		sel := append([]int(nil), p[:k]...)
		r.Shuffle(len(sel), func(a, b int) { sel[a], sel[b] = sel[b], sel[a] })
		var es []string
		for _, i := range sel {
			es = append(es, fmt.Sprintf("%d:%d", i, ts[i]))
		}
		op := "reconstructs"
		if r.Intn(3) == 0 {
			op = "reconstruct"
		}
		rs := g.sig("%s %s", op, strings.Join(es, ","))
		if r.Intn(2) == 0 {
			g.add("kverify p %d a", rs)
		}
	}
}

// clientScenario: threshold client keys and split keys.
func (g *gen) clientScenario(t, n int, exhaustive bool) {
	r := g.r
	g.add("dkg %d %d", t, n)
	g.add("order")
	g.add("msg a %s", rndGeneric(r))
	g.add("msg b %s", rndGeneric(r))
	g.add("key p %s", rndNonZero(r))
	pa := g.sig("ksign p a")
	g.add("kverify p %d a", pa)
	g.add("kverify p %d b", pa)
	// threshold shares
	cs := make([]string, t-1)
	for i := range cs {
		cs[i] = rndGeneric(r)
	}
	c := "-"
	if len(cs) > 0 {
		c = strings.Join(cs, ",")
	}
	g.add("tks %d %d p %s", t, n, c)
	ts := make([]int, n)
	for i := 0; i < n; i++ {
		ts[i] = g.sig("tsign %d a", i)
		if r.Intn(2) == 0 {
			g.add("tid %d", i)
		}
		if r.Intn(3) == 0 {
			g.add("tverify %d %d a", i, ts[i])
			g.add("tverify %d %d a", (i+1)%n, ts[i])
		}
	}
	for k := 1; k <= n; k++ {
		subs := subsets(n, k)
		for _, s := range subs {
			if !exhaustive && k != t && r.Intn(4) > 0 {
				continue
			}
			if !exhaustive && len(subs) > 10 && r.Intn(len(subs)) > 10 {
				continue
			}
			ps := [][]int{s}
			if exhaustive && k == t && k <= 4 {
				ps = perms(s)
			} else if k > 1 && r.Intn(2) == 0 {
				p := append([]int(nil), s...)
				r.Shuffle(len(p), func(a, b int) { p[a], p[b] = p[b], p[a] })
				ps = append(ps, p)
			}
			for _, p := range ps {
				var es []string
				for _, i := range p {
					es = append(es, fmt.Sprintf("%d:%d", i, ts[i]))
				}
				rop := "reconstruct"
				if r.Intn(3) == 0 {
					rop = "reconstructs"
				}
				rs := g.sig("%s %s", rop, strings.Join(es, ","))
				if r.Intn(4) == 0 {
					g.add("kverify p %d a", rs)
				}
			}
		}
	}
	g.add("reconstruct 0:%d,0:%d", ts[0], ts[0]) // duplicate id: error, no register consumed
	g.add("reconstruct -")
	// split keys
	ns := 1 + r.Intn(5)
	ks := make([]string, ns-1)
	for i := range ks {
		ks[i] = rndGeneric(r)
	}
	kk := "-"
	if len(ks) > 0 {
		kk = strings.Join(ks, ",")
	}
	g.add("split p %s", kk)
	var ss []int
	var names []string
	for i := 0; i < ns; i++ {
		ss = append(ss, g.sig("ksign p.%d a", i))
		names = append(names, fmt.Sprintf("p.%d", i))
	}
	ag := g.sig("aggsigs p %s", joinInts(ss))
	g.add("kverify p %d a", ag)
	g.add("kpkadd %s", strings.Join(names, ","))
	g.add("kpkadd p")
	if ns > 1 {
		pg := g.sig("aggsigs p %s", joinInts(ss[:ns-1]))
		g.add("kverify p %d a", pg)
	}
}

func genCase(r *rand.Rand, thorough bool, i int) []string {
	g := &gen{r: r}
	maxN := 5
	if thorough {
		maxN = 7
	}
	n := 1 + r.Intn(maxN)
	if thorough && r.Intn(10) == 0 {
		n = 8 + r.Intn(6) // sampled beyond the exhaustive range
	}
	t := 1 + r.Intn(n)
	exhaustive := n <= 7 && (thorough || n <= 4)
	switch x := r.Intn(10); {
	case x < 5:
		g.dkgScenario(t, n, false, exhaustive)
	case x < 8:
		g.dkgScenario(t, n, true, false)
	case x < 9:
		g.clientScenario(t, n, exhaustive)
	default:
		// up to MaxSigners = 20 shares: ids 10..20 have two-digit renderings
		nn := 10 + r.Intn(11)
		g.bigClientScenario(1+r.Intn(nn), nn)
	}
	return g.ops
}

// malformed stream: lines the driver must refuse on both sides
func genMalformed(r *rand.Rand) []string {
	ops := []string{"dkg 2 3", "party 0 zz 1,2", "party x " + strings.Repeat("a", 64) + " 1,2", "share 0 1", "recover 0 0", "msg a", "key k", "ksign nokey a",
		"validate 0 0 0 x", "tks 2 3 nokey 1", "sos 9 -", "frobnicate", ""}
	r.Shuffle(len(ops)-1, func(a, b int) { ops[a+1], ops[b+1] = ops[b+1], ops[a+1] })
	return ops
}

func genAll(r *rand.Rand, thorough bool, i int) []string {
	if i%40 == 39 {
		return genMalformed(r)
	}
	return genCase(r, thorough, i)
}

func main() {
	corr.Main(corr.Prop{
		ID: "C34", Model: "C34", Gen: genAll, Impl: impl, Oracle: oracle,
		Cases: func(th bool) int {
			if th {
				return 2500
			}
			return 500
		},
		Fixed: fixedCases(),
	})
}

func fixedCases() [][]string {
	id := func(c string) string { return strings.Repeat(c, 64) }
	return [][]string{
		// 2-of-3 by hand
		{"dkg 2 3", "order", "party 0 " + id("a") + " 5,7", "party 1 " + id("b") + " 11,13", "party 2 " + id("c") + " 17,19", "msg a 3",
			"validate 0 1 1 0", "validate 0 1 1 1", "validate 0 1 2 0",
			"recv 0 0 0 0", "recv 0 1 0 0", "recv 0 2 0 0", "recv 1 0 0 0", "recv 1 1 0 0", "recv 1 2 0 0", "recv 2 0 0 0", "recv 2 1 0 0", "recv 2 2 0 0",
			"aggsk 0", "aggsk 1", "aggsk 2", "aggpk 0 0,1,2", "gpk 0 0", "gpk 0 1", "gpk 0 2",
			"sign 0 a", "sign 1 a", "sign 2 a", "verify 0 1 1 a", "verify 0 1 0 a",
			"recover 0,1 0,1", "recover 1,2 1,2", "recover 2,0 2,0", "recover 0,1,2 0,1,2", "recover 0 0", "gverify 3 a 0,1,2", "gverify 7 a 0,1,2"},
		// zero secrets and zero shares
		{"dkg 1 2", "party 0 " + id("1") + " 0", "party 1 " + id("2") + " 0", "msg a 9", "recv 0 0 0 0", "recv 0 1 0 0", "aggsk 0", "aggpk 0 0,1", "gpk 0 0", "sign 0 a", "verify 0 0 0 a", "sigzero", "verify 0 0 1 a"},
		{"dkg 0 0", "msg a 4", "key z 0", "ksign z a", "kverify z 0 a", "key one 1", "ksign one a", "kverify one 1 a", "kverify z 1 a", "kverify one 0 a"},
	}
}
