package main

import (
	"fmt"
	"math/big"
	"sort"
	"strconv"
	"strings"

	"verifharness/lib/corr"
	"verifharness/lib/cryptow"
)

// The property itself, stated on the answers of the real code (independent of the Lean model):
//   * every share a party derives for another validates against the sender's public polynomial;
//   * after an honest run the group-derived public key of a party is the public key of its aggregated secret,
//     and its signature shares verify under it;
//   * any >= t honest signature shares (any subset, any order) recover the same group signature, which verifies
//     under the group public key;
//   * client threshold shares reconstruct, and split keys aggregate to, a signature equal to the original key's,
//     verifying under the original key; the split public keys sum to the original public key.

type prov struct {
	kind string // "dkg" share signature, "group", "key", "tshare"
	who  string // party index / key name / share index
	m    string
	set  string // qualified set (dkg, group) or owning key (tshare)
}

func isZeroMod(s string) bool {
	v, ok := new(big.Int).SetString(s, 10)
	if !ok {
		return false
	}
	return v.Mod(v, cryptow.Order()).Sign() == 0
}

func setKey(xs []string) string {
	c := append([]string(nil), xs...)
	sort.Strings(c)
	var o []string
	for i, x := range c {
		if i == 0 || c[i-1] != x {
			o = append(o, x)
		}
	}
	return strings.Join(o, ",")
}

func list(s string) []string {
	if s == "-" {
		return nil
	}
	return strings.Split(s, ",")
}

func oracle(ops, outs []string) *corr.Violation {
	mk := func(i int, sig, msg string) *corr.Violation {
		return &corr.Violation{Signature: "C34:" + sig, Message: fmt.Sprintf("op %d %q answered %q: %s", i, ops[i], outs[i], msg), Ops: ops, Impl: outs}
	}
	T := 0
	type pst struct {
		recv     map[string]bool // senders received honestly
		dirty    bool            // some dishonest / failed delivery
		aggValid bool            // aggsk ran after the last recv
		label    string
		siZero   bool
		aggpk    string
		hasAggpk bool
		ncoef    int
		c0       string
	}
	parties := map[string]*pst{}
	provs := []prov{}
	sigLabel := []string{}
	keySecretZero := map[string]bool{}
	keyLabel := map[string]string{}
	refLabel := map[string]string{} // "key|name|m" or "group|set|m" -> label of the first signature with that meaning
	splitN := map[string]int{}
	tksKey, tksT := "", 0

	pushSig := func(i int, p prov) (string, bool) {
		f := strings.Fields(outs[i])
		if len(f) == 3 && f[0] == "sig" {
			provs = append(provs, p)
			sigLabel = append(sigLabel, f[2])
			return f[2], true
		}
		return "", false
	}
	sameMeaning := func(i int, key, label, what string) *corr.Violation {
		if old, ok := refLabel[key]; ok && old != label {
			return mk(i, what, fmt.Sprintf("signature differs from an earlier one with the same meaning (%s): %s vs %s", key, label, old))
		}
		refLabel[key] = label
		return nil
	}
	getProv := func(s string) (prov, bool) {
		x, err := strconv.Atoi(s)
		if err != nil || x < 0 || x >= len(provs) {
			return prov{}, false
		}
		return provs[x], true
	}
	honest := func(k string) (string, bool) { // the qualified set of an honest, aggregated party
		p := parties[k]
		if p == nil || p.dirty || !p.aggValid || len(p.recv) == 0 {
			return "", false
		}
		var js []string
		for j := range p.recv {
			js = append(js, j)
		}
		return setKey(js), true
	}
	groupSecretZero := func(set string) bool {
		sum := new(big.Int)
		for _, j := range list(set) {
			p := parties[j]
			if p == nil {
				return true
			}
			v, _ := new(big.Int).SetString(p.c0, 10)
			sum.Add(sum, v)
		}
		return sum.Mod(sum, cryptow.Order()).Sign() == 0
	}

	for i, op := range ops {
		w := strings.Fields(op)
		if len(w) == 0 {
			continue
		}
		out := outs[i]
		if strings.Contains(out, "INPUT-MUTATED") {
			return mk(i, "call-mutates-its-input:"+w[0], "a published public polynomial handed to the call was modified by it (inputs must be left as they are: they are used again)")
		}
		switch w[0] {
		case "dkg":
			if len(w) != 3 || out != "ok" {
				return nil
			}
			T, _ = strconv.Atoi(w[1])
			parties = map[string]*pst{}
			provs, sigLabel = nil, nil
		case "order":
			if out != "order "+cryptow.Order().String() {
				return mk(i, "order", "unexpected group order")
			}
		case "party":
			if len(w) == 4 && strings.HasPrefix(out, "id ") {
				cs := list(w[3])
				c0 := "0"
				if len(cs) > 0 {
					c0 = cs[0]
				}
				parties[w[1]] = &pst{recv: map[string]bool{}, ncoef: len(cs), c0: c0}
				if !strings.HasSuffix(out, fmt.Sprintf(" t=%d", len(cs))) {
					return mk(i, "makedkg-degree", "MakeDKG did not create t coefficients / t public coefficients")
				}
			}
		case "validate":
			if len(w) == 5 && w[2] == w[3] && isZeroMod(w[4]) && parties[w[1]] != nil && parties[w[2]] != nil && parties[w[2]].ncoef > 0 {
				if out != "true" {
					return mk(i, "honest-share-rejected", "a share derived by the sender does not validate against the sender's public polynomial")
				}
			}
		case "recv":
			if len(w) == 5 && parties[w[1]] != nil {
				p := parties[w[1]]
				p.aggValid = false
				if isZeroMod(w[3]) && out == "ok" && parties[w[2]] != nil && parties[w[2]].ncoef == T {
					p.recv[w[2]] = true
				} else if out == "ok" {
					p.dirty = true // something other than the sender's honest share was stored
				}
			}
		case "aggsk":
			if len(w) == 2 && parties[w[1]] != nil {
				f := strings.Fields(out)
				if len(f) == 3 && f[0] == "s" {
					p := parties[w[1]]
					p.aggValid = true
					p.label = f[2]
					p.siZero = isZeroMod(f[1])
				}
			}
		case "aggpk":
			if len(w) == 3 && parties[w[1]] != nil {
				p := parties[w[1]]
				p.hasAggpk = out == "ok"
				p.aggpk = setKey(list(w[2]))
			}
		case "gpk":
			if len(w) == 3 && parties[w[1]] != nil && parties[w[1]].hasAggpk {
				if set, ok := honest(w[2]); ok && set == parties[w[1]].aggpk && strings.Contains(","+set+",", ","+w[2]+",") {
					if out != parties[w[2]].label {
						return mk(i, "aggregated-key-mismatch", fmt.Sprintf("group-derived public key of party %s (%s) is not the public key of its aggregated secret (%s)", w[2], out, parties[w[2]].label))
					}
				}
			}
		case "sign":
			if len(w) == 3 {
				p := prov{kind: "other"}
				if set, ok := honest(w[1]); ok {
					p = prov{kind: "dkg", who: w[1], m: w[2], set: set}
				}
				pushSig(i, p)
			}
		case "verify":
			if len(w) == 5 {
				pv, ok := getProv(w[3])
				vp := parties[w[1]]
				if ok && vp != nil && vp.hasAggpk && pv.kind == "dkg" && pv.who == w[2] && pv.m == w[4] && pv.set == vp.aggpk &&
					strings.Contains(","+pv.set+",", ","+w[2]+",") && !parties[w[2]].siZero {
					if out != "true" {
						return mk(i, "party-signature-rejected", "an honest party's signature share does not verify under its group-derived public key")
					}
				}
			}
		case "recover":
			if len(w) == 3 {
				ss, ks := list(w[1]), list(w[2])
				p := prov{kind: "other"}
				good := len(ss) == len(ks) && len(ss) >= T && T >= 1
				var set, m string
				seen := map[string]bool{}
				for x := range ss {
					if !good {
						break
					}
					pv, ok := getProv(ss[x])
					if !ok || pv.kind != "dkg" || pv.who != ks[x] || seen[ks[x]] || (x > 0 && (pv.set != set || pv.m != m)) {
						good = false
						break
					}
					// the recovered value is the group signature only when all members of the set used T coefficients
					seen[ks[x]] = true
					set, m = pv.set, pv.m
				}
				if good {
					p = prov{kind: "group", m: m, set: set}
					lab, ok := pushSig(i, p)
					if !ok {
						return mk(i, "recovery-failed", "recovery from >= t honest shares of distinct parties failed")
					}
					if v := sameMeaning(i, "group|"+set+"|"+m, lab, "recovery-differs"); v != nil {
						return v
					}
				} else {
					pushSig(i, p)
				}
			}
		case "gverify":
			if len(w) == 4 {
				pv, ok := getProv(w[1])
				if ok && pv.kind == "group" && pv.m == w[2] && pv.set == setKey(list(w[3])) && !groupSecretZero(pv.set) {
					if out != "true" {
						return mk(i, "group-signature-rejected", "the recovered group signature does not verify under the group public key")
					}
				}
			}
		case "sigadd", "sigsub", "sigzero":
			pushSig(i, prov{kind: "other"})
		case "key":
			if len(w) == 3 && strings.HasPrefix(out, "K") {
				keySecretZero[w[1]] = isZeroMod(w[2])
				keyLabel[w[1]] = out
				delete(splitN, w[1])
			}
		case "ksign":
			if len(w) == 3 {
				lab, ok := pushSig(i, prov{kind: "key", who: w[1], m: w[2]})
				if ok {
					if v := sameMeaning(i, "key|"+w[1]+"|"+w[2], lab, "signature-differs"); v != nil {
						return v
					}
				}
			}
		case "kverify":
			if len(w) == 4 {
				pv, ok := getProv(w[2])
				if ok && pv.kind == "key" && pv.who == w[1] && pv.m == w[3] && !keySecretZero[w[1]] {
					if out != "true" {
						return mk(i, "client-signature-rejected", "a signature with the meaning 'key "+w[1]+" on "+w[3]+"' does not verify under that key")
					}
				}
			}
		case "tks":
			if len(w) == 5 && strings.HasPrefix(out, "ok") {
				tksKey = w[3]
				tksT, _ = strconv.Atoi(w[1])
			}
		case "tsign":
			if len(w) == 3 {
				pushSig(i, prov{kind: "tshare", who: w[1], m: w[2], set: tksKey})
			}
		case "tid":
			if len(w) == 2 && strings.HasPrefix(out, "id ") {
				x, _ := strconv.Atoi(w[1])
				if out != fmt.Sprintf("id %d", x+1) {
					return mk(i, "threshold-id-string-round-trip", fmt.Sprintf("share %d has id %d; after GetID -> SetID it is read back as %q", x, x+1, out))
				}
			}
		case "reconstruct", "reconstructs":
			if len(w) == 2 {
				es := list(w[1])
				good := len(es) >= tksT && tksT >= 1
				seen := map[string]bool{}
				m := ""
				for x, e := range es {
					ab := strings.Split(e, ":")
					if len(ab) != 2 {
						good = false
						break
					}
					pv, ok := getProv(ab[1])
					if !ok || pv.kind != "tshare" || pv.who != ab[0] || pv.set != tksKey || seen[ab[0]] || (x > 0 && pv.m != m) {
						good = false
						break
					}
					seen[ab[0]] = true
					m = pv.m
				}
				if good {
					lab, ok := pushSig(i, prov{kind: "key", who: tksKey, m: m})
					if !ok {
						return mk(i, "reconstruct-failed", "reconstruction from >= t distinct threshold shares failed")
					}
					if v := sameMeaning(i, "key|"+tksKey+"|"+m, lab, "reconstruct-differs"); v != nil {
						return v
					}
				} else {
					pushSig(i, prov{kind: "other"})
				}
			}
		case "split":
			if len(w) == 3 && strings.HasPrefix(out, "ok ") {
				n, _ := strconv.Atoi(strings.TrimPrefix(out, "ok "))
				splitN[w[1]] = n
				if n != len(list(w[2]))+1 {
					return mk(i, "split-count", "GenerateSplitKeys returned another number of keys than asked")
				}
			}
		case "aggsigs":
			if len(w) == 3 {
				idx := list(w[2])
				n, isSplit := splitN[w[1]]
				good := isSplit && len(idx) == n
				seen := map[string]bool{}
				m := ""
				for x, s := range idx {
					if !good {
						break
					}
					pv, ok := getProv(s)
					if !ok || pv.kind != "key" || !strings.HasPrefix(pv.who, w[1]+".") || strings.Count(pv.who, ".") != strings.Count(w[1], ".")+1 || seen[pv.who] || (x > 0 && pv.m != m) {
						good = false
						break
					}
					seen[pv.who] = true
					m = pv.m
				}
				if good {
					lab, ok := pushSig(i, prov{kind: "key", who: w[1], m: m})
					if !ok {
						return mk(i, "split-aggregate-failed", "aggregating the split keys' signatures failed")
					}
					if v := sameMeaning(i, "key|"+w[1]+"|"+m, lab, "split-aggregate-differs"); v != nil {
						return v
					}
				} else {
					pushSig(i, prov{kind: "other"})
				}
			}
		case "kpkadd":
			if len(w) == 2 {
				names := list(w[1])
				if len(names) > 0 {
					base := names[0]
					if k := strings.LastIndex(base, "."); k > 0 {
						base = base[:k]
						n, ok := splitN[base]
						seen := map[string]bool{}
						good := ok && len(names) == n
						for _, nm := range names {
							if !strings.HasPrefix(nm, base+".") || seen[nm] {
								good = false
							}
							seen[nm] = true
						}
						if good && out != keyLabel[base] {
							return mk(i, "split-pubkey-sum", "the split public keys do not add up to the original public key")
						}
					}
				}
			}
		}
	}
	return nil
}
