// Block-store half of the C26 harness: real blocks through the real sharder/blockstore (fs_store.go:
// zlib(BestCompression) ∘ msgpack into <base>/h0/h1/h2/h3/h4/<rest>.dat.zlib) and back.
package main

import (
	"encoding/json"
	"fmt"
	"math/rand"
	"os"
	"path/filepath"
	"sort"
	"strconv"
	"strings"
	"sync"

	"0chain.net/chaincore/block"
	"0chain.net/chaincore/node"
	"0chain.net/chaincore/threshold/bls"
	"0chain.net/chaincore/transaction"
	"0chain.net/core/common"
	"0chain.net/core/encryption"
	"0chain.net/sharder/blockstore"
	"github.com/0chain/common/core/currency"
	"verifharness/lib/corr"
	"verifharness/lib/engine"
)

var (
	storeMu      sync.Mutex
	storeBlocks  int
	storeCrashPt int
	pkOnce       sync.Once
	pubKeys      []string
)

func storeExtra() map[string]interface{} {
	storeMu.Lock()
	defer storeMu.Unlock()
	return map[string]interface{}{"blocks_written": storeBlocks, "truncation_points_checked": storeCrashPt}
}

// real BLS public keys: node.Pool's msgpack decoder calls SetPublicKey on every node it reads
func keys() []string {
	pkOnce.Do(func() {
		engine.Setup()
		for i := 0; i < 6; i++ {
			ss := encryption.NewBLS0ChainScheme()
			if err := ss.GenerateKeys(); err != nil {
				panic(err)
			}
			pubKeys = append(pubKeys, ss.GetPublicKey())
		}
	})
	return pubKeys
}

func rhash(r *rand.Rand) string {
	b := make([]byte, 32)
	r.Read(b)
	return fmt.Sprintf("%x", b)
}

func boundaryI64(r *rand.Rand) int64 {
	switch r.Intn(6) {
	case 0:
		return 0
	case 1:
		return 1<<63 - 1
	case 2:
		return -1 << 63
	case 3:
		return 1<<53 + 1
	}
	return r.Int63n(1 << 40)
}

func tickets(r *rand.Rand, n int) []*block.VerificationTicket {
	var ts []*block.VerificationTicket
	for i := 0; i < n; i++ {
		ts = append(ts, &block.VerificationTicket{VerifierID: rhash(r), Signature: rhash(r)})
	}
	return ts
}

// buildBlock is a deterministic function of its arguments (hash, magic-block hash, alias flag, seed, #txns).
func buildBlock(hash, mbHash string, alias bool, seed int64, ntxn int) *block.Block {
	pks := keys()
	r := rand.New(rand.NewSource(seed))
	round := 1 + r.Int63n(1<<40)
	b := block.NewBlock(rhash(r), round)
	b.Hash = hash
	b.Version = "1.0"
	b.CreationDate = common.Timestamp(boundaryI64(r))
	b.LatestFinalizedMagicBlockHash = rhash(r)
	b.LatestFinalizedMagicBlockRound = r.Int63n(round)
	b.PrevHash = rhash(r)
	b.PrevBlockVerificationTickets = tickets(r, r.Intn(4))
	b.MinerID = rhash(r)
	b.RoundRandomSeed = boundaryI64(r)
	b.RoundTimeoutCount = r.Intn(5)
	st := make([]byte, 32)
	r.Read(st)
	b.ClientStateHash = st
	b.VerificationTickets = tickets(r, r.Intn(4))
	b.Signature = rhash(r)
	b.RunningTxnCount = r.Int63n(1 << 50)
	b.StateChangesCount = r.Intn(1000)
	for i := 0; i < ntxn; i++ {
		t := &transaction.Transaction{}
		t.Hash = rhash(r)
		t.Version = "1.0"
		t.ClientID = rhash(r)
		if r.Intn(2) == 0 {
			t.PublicKey = rhash(r)
		}
		t.ToClientID = rhash(r)
		t.ChainID = b.ChainID
		t.TransactionData = fmt.Sprintf(`{"name":"f%d","input":{"k":%d}}`, r.Intn(9), r.Int63())
		t.Value = currency.Coin(r.Uint64())
		if r.Intn(4) == 0 {
			t.Value = currency.Coin(^uint64(0))
		}
		t.Signature = rhash(r)
		t.CreationDate = common.Timestamp(r.Int63n(1 << 40))
		t.Fee = currency.Coin(r.Int63n(1 << 30))
		t.Nonce = boundaryI64(r)
		t.TransactionType = []int{0, 10, 1000}[r.Intn(3)]
		switch r.Intn(3) {
		case 0:
			t.TransactionOutput = ""
		case 1:
			t.TransactionOutput = fmt.Sprintf(`{"out":%d,"s":"é\u0000\"x"}`, r.Int63())
		default:
			t.TransactionOutput = strings.Repeat("o", r.Intn(300))
		}
		t.OutputHash = rhash(r)
		t.Status = r.Intn(3)
		b.Txns = append(b.Txns, t)
	}
	if mbHash != "" {
		mb := block.NewMagicBlock()
		mb.Hash = mbHash
		mb.PreviousMagicBlockHash = rhash(r)
		mb.MagicBlockNumber = r.Int63n(1000)
		mb.StartingRound = round
		if !alias {
			mb.StartingRound = round + 1 + r.Int63n(50)
		}
		mb.T, mb.K, mb.N = 2, 3, 4
		mb.Miners = node.NewPool(node.NodeTypeMiner)
		mb.Sharders = node.NewPool(node.NodeTypeSharder)
		for i := 0; i < 4; i++ {
			for _, p := range []*node.Pool{mb.Miners, mb.Sharders} {
				if p == mb.Sharders && i >= 2 {
					continue
				}
				n := node.Provider()
				// a node's id is the hash of its public key (SetPublicKey, also run by the pool's decoder)
				if err := n.SetPublicKey(pks[(i+int(p.Type))%len(pks)]); err != nil {
					panic(err)
				}
				n.Type = p.Type
				n.N2NHost, n.Host, n.Port, n.Path = "n2n"+strconv.Itoa(i), "host"+strconv.Itoa(i), 7000+i, "p"
				n.Description = "node " + strconv.Itoa(i)
				n.Info.BuildTag = "tag"
				n.Info.AvgBlockTxns = r.Intn(100)
				p.NodesMap[n.ID] = n
			}
		}
		// SetIndex is a derived field: the node's position in id order (Pool.computeNodePositions, run whenever a
		// pool is built or decoded), so a real magic block always carries exactly these values
		for _, p := range []*node.Pool{mb.Miners, mb.Sharders} {
			var ids []string
			for id := range p.NodesMap {
				ids = append(ids, id)
			}
			sort.Strings(ids)
			for i, id := range ids {
				p.NodesMap[id].SetIndex = i
			}
		}
		var minerIDs []string
		for id := range mb.Miners.NodesMap {
			minerIDs = append(minerIDs, id)
		}
		sort.Strings(minerIDs)
		for _, id := range minerIDs {
			mb.Mpks.Mpks[id] = &block.MPK{ID: id, Mpk: []string{rhash(r), rhash(r)}}
			sos := block.NewShareOrSigns()
			sos.ID = id
			k := &bls.DKGKeyShare{Message: rhash(r), Share: rhash(r), Sign: rhash(r)}
			k.ID = rhash(r)
			sos.ShareOrSigns[rhash(r)] = k
			mb.ShareOrSigns.Shares[id] = sos
		}
		b.MagicBlock = mb
	}
	return b
}

// canon: what "reads back exactly" compares — hash, header, transactions with outputs, magic block
// (everything the block serialises; JSON sorts map keys, so it is canonical).
func canon(b *block.Block) string {
	j, err := json.Marshal(b)
	if err != nil {
		return "json-error " + err.Error()
	}
	return string(j)
}

type storeCase struct {
	dir     string
	st      *blockstore.BlockStore
	written map[string]string // canonical form -> spec id
}

func newStoreCase(dir string) *storeCase {
	keys()
	os.MkdirAll(dir, 0o755)
	return &storeCase{dir: dir, st: blockstore.VerifNewStore(dir), written: map[string]string{}}
}

type bspec struct {
	hash, mb string
	alias    bool
	seed     int64
	ntxn     int
}

func parseSpec(w []string) (bspec, bool) {
	var s bspec
	if len(w) != 6 {
		return s, false
	}
	s.hash = w[1]
	if w[2] != "-" {
		s.mb = w[2]
	}
	if w[3] != "0" && w[3] != "1" {
		return s, false
	}
	s.alias = w[3] == "1"
	var err error
	if s.seed, err = strconv.ParseInt(w[4], 10, 64); err != nil || s.seed < 0 {
		return s, false
	}
	if s.ntxn, err = strconv.Atoi(w[5]); err != nil || s.ntxn < 0 || s.ntxn > 500 {
		return s, false
	}
	if s.mb == "" && s.alias {
		return s, false
	}
	return s, true
}

func specID(w []string) string { return strings.Join(w[1:], ":") }

func (c *storeCase) identify(b *block.Block) string {
	if id, ok := c.written[canon(b)]; ok {
		return "blk " + id
	}
	return "blk-differs"
}

func (c *storeCase) do(w []string) (out string) {
	defer func() {
		if r := recover(); r != nil {
			out = "panic"
		}
	}()
	switch w[0] {
	case "bnew":
		if len(w) != 1 {
			return "bad-op"
		}
		return "ok"
	case "bwrite":
		s, ok := parseSpec(w)
		if !ok {
			return "bad-op"
		}
		b := buildBlock(s.hash, s.mb, s.alias, s.seed, s.ntxn)
		want := canon(b)
		c.written[want] = specID(w) // before the write: a failing Write may have stored the first of its two files
		if err := c.st.Write(b); err != nil {
			return "err"
		}
		storeMu.Lock()
		storeBlocks++
		storeMu.Unlock()
		return "ok"
	case "bread":
		if len(w) != 2 {
			return "bad-op"
		}
		b, err := c.st.Read(w[1])
		if err != nil {
			return "err"
		}
		return c.identify(b)
	case "bcrash":
		// a crash while the block file is written leaves a prefix of it: every prefix must read as an error or
		// as the same block (exhaustive over all truncation points of this file)
		if len(w) != 2 {
			return "bad-op"
		}
		p := blockstore.VerifBlockPath(c.dir, w[1])
		full, err := os.ReadFile(p)
		if p == "" || err != nil {
			return "err"
		}
		b0, err := c.st.Read(w[1])
		if err != nil {
			return "err"
		}
		want := canon(b0)
		defer os.WriteFile(p, full, 0o600)
		for n := 0; n < len(full); n++ {
			if err := os.WriteFile(p, full[:n], 0o600); err != nil {
				return "err"
			}
			b, err := c.st.Read(w[1])
			storeMu.Lock()
			storeCrashPt++
			storeMu.Unlock()
			if err == nil && canon(b) != want {
				return fmt.Sprintf("crash-unsafe %d", n)
			}
		}
		return "crash-safe"
	}
	return "bad-op"
}

func genStore(r *rand.Rand, thorough bool) []string {
	ops := []string{"bnew"}
	n := 1 + r.Intn(4)
	if thorough {
		n = 1 + r.Intn(10)
	}
	type wr struct{ hash, mb string }
	var ws []wr
	for i := 0; i < n; i++ {
		h := rhash(r)
		if len(ws) > 0 && r.Intn(6) == 0 {
			h = ws[r.Intn(len(ws))].hash // the same hash written again (other content)
		}
		if len(ws) > 0 && r.Intn(8) == 0 {
			x := ws[r.Intn(len(ws))].hash // shares the five directory characters
			if len(x) >= 5 {
				h = x[:5] + rhash(r)[5:]
			}
		}
		if r.Intn(25) == 0 {
			h = h[:1+r.Intn(minInt(6, len(h)))] // too short for the five sub-directories when < 5
		}
		mb, alias := "-", 0
		switch r.Intn(5) {
		case 0:
			mb, alias = rhash(r), 1
		case 1:
			mb = rhash(r)
		}
		ntxn := r.Intn(4)
		if r.Intn(5) == 0 {
			ntxn = 20 + r.Intn(60)
		}
		ops = append(ops, fmt.Sprintf("bwrite %s %s %d %d %d", h, mb, alias, r.Int63n(1<<40), ntxn))
		ws = append(ws, wr{h, mb})
		if r.Intn(2) == 0 {
			ops = append(ops, "bread "+h)
		}
		if mb != "-" && r.Intn(2) == 0 {
			ops = append(ops, "bread "+mb)
		}
	}
	for _, x := range ws {
		if r.Intn(3) > 0 {
			ops = append(ops, "bread "+x.hash)
		}
	}
	ops = append(ops, "bread "+rhash(r)) // never written
	if r.Intn(3) == 0 {
		small := fmt.Sprintf("bwrite %s - 0 %d %d", rhash(r), r.Int63n(1<<40), r.Intn(2))
		ops = append(ops, small, "bcrash "+strings.Fields(small)[1])
	}
	return ops
}

// storeOracle: a written block reads back identically (under its hash, and under its magic block's hash when
// the block starts that magic block); a hash never written is an error; torn files never give another block.
func storeOracle(ops, outs []string, mk func(sig, msg string) *corr.Violation) *corr.Violation {
	var ref map[string]string
	for i, op := range ops {
		w := strings.Fields(op)
		o := outs[i]
		switch w[0] {
		case "bnew":
			ref = map[string]string{}
		case "bwrite":
			if ref == nil {
				ref = map[string]string{}
			}
			if len(w[1]) < 5 {
				continue
			}
			if o != "ok" {
				return mk("block-write-fails", fmt.Sprintf("op %d %q answered %q", i, op, o))
			}
			ref[w[1]] = specID(w)
			if w[3] == "1" && len(w[2]) >= 5 {
				ref[w[2]] = specID(w)
			}
		case "bread":
			want, ok := ref[w[1]]
			if !ok {
				if o != "err" {
					return mk("unwritten-block-read", fmt.Sprintf("op %d: Read(%s) answered %q for a hash never written", i, w[1], o))
				}
				continue
			}
			if o != "blk "+want {
				return mk("block-readback-differs", fmt.Sprintf("op %d: Read(%s) answered %q, written block %q", i, w[1], o, want))
			}
		case "bcrash":
			if _, ok := ref[w[1]]; ok && o != "crash-safe" {
				return mk("torn-block-file-misread", fmt.Sprintf("op %d: %q answered %q", i, op, o))
			}
		}
	}
	return nil
}

var _ = filepath.Join

func minInt(a, b int) int {
	if a < b {
		return a
	}
	return b
}
