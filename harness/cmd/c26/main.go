// C26 harness: the real sharder/blockdb (BlockDB + mapIndex + fixedKeyArrayIndex) and the real
// sharder/blockstore (fs_store write/read of blocks) against Model/BlockDB.lean, Model/BlockStore.lean.
//
// An index lookup may never return (a spinning goroutine cannot be stopped), so every block-database
// operation runs in a CHILD PROCESS (this binary re-executed with `-worker`, line protocol over pipes).
// The parent watches the child's consumed user CPU time: an operation that has burnt hangCPU of it without
// answering (or hangWall of wall time) is a hang; the child is killed, the answer token is `hang`, and
// the case continues in a fresh child that first re-executes the prefix (without the hanging reads,
// which change nothing).
package main

import (
	"bufio"
	"encoding/hex"
	"fmt"
	"io"
	"math/rand"
	"os"
	"os/exec"
	"path/filepath"
	"sort"
	"strconv"
	"strings"
	"sync"
	"time"

	"0chain.net/core/common"
	"0chain.net/sharder/blockdb"
	"verifharness/lib/corr"
)

const (
	// a lookup that spins burns USER time at full rate; a slow but finite call on a loaded machine (page
	// faults, I/O stalls) does not, so only utime counts and the wall-clock fallback is very generous
	hangCPU  = 400 * time.Millisecond
	hangWall = 300 * time.Second
)

// ---------------------------------------------------------------------------------------------- tokens

func hx(b []byte) string {
	if len(b) == 0 {
		return "-"
	}
	return hex.EncodeToString(b)
}

func unhx(s string) ([]byte, bool) {
	if s == "-" {
		return nil, true
	}
	b, err := hex.DecodeString(s)
	if err != nil || s != strings.ToLower(s) {
		return nil, false
	}
	return b, true
}

// ---------------------------------------------------------------------------------------------- worker (child)

type rec struct {
	key  blockdb.Key
	data []byte
}

func (r *rec) GetKey() blockdb.Key { return r.key }
func (r *rec) Encode(w io.Writer) error {
	_, err := w.Write(r.data)
	return err
}
func (r *rec) Decode(rd io.Reader) error {
	b, err := io.ReadAll(rd)
	r.data = b
	return err
}

type recProvider struct{}

func (recProvider) NewRecord() blockdb.Record { return &rec{} }

var zstd = func() common.CompDe {
	z := common.NewZStdCompDe()
	z.SetLevel(10) // as blockdb's init()
	return z
}()

const (
	phNone = iota
	phCreating
	phClosed
	phOpened
)

type wstate struct {
	base    string
	n       int
	file    string
	klen    int
	comp    bool
	phase   int
	atStart bool
	mapIdx  bool
	db      *blockdb.BlockDB
}

func (s *wstate) do(w []string) (out string) {
	defer func() {
		if r := recover(); r != nil {
			out = "panic"
		}
	}()
	if len(w) == 0 {
		return "bad-op"
	}
	switch w[0] {
	case "new":
		if len(w) != 3 {
			return "bad-op"
		}
		kl, err := strconv.Atoi(w[1])
		if err != nil || kl < 0 || kl > 127 || (w[2] != "0" && w[2] != "1") {
			return "bad-op"
		}
		if s.db != nil {
			s.db.Close()
		}
		s.n++
		s.file = filepath.Join(s.base, fmt.Sprintf("d%d", s.n), "db")
		s.klen, s.comp = kl, w[2] == "1"
		db, _ := blockdb.NewBlockDB(s.file, int8(kl), s.comp)
		if err := db.Create(); err != nil {
			return "err"
		}
		s.db, s.phase = db, phCreating
		return "ok"
	case "recreate":
		// a retry after a crash: the same file name, the files of the earlier attempt are still there
		if len(w) != 3 || s.phase != phClosed {
			return "bad-op"
		}
		kl, err := strconv.Atoi(w[1])
		if err != nil || kl < 0 || kl > 127 || (w[2] != "0" && w[2] != "1") {
			return "bad-op"
		}
		s.klen, s.comp = kl, w[2] == "1"
		db, _ := blockdb.NewBlockDB(s.file, int8(kl), s.comp)
		if err := db.Create(); err != nil {
			return "err"
		}
		s.db, s.phase = db, phCreating
		return "ok"
	case "write":
		if len(w) != 4 || s.phase != phCreating {
			return "bad-op"
		}
		k, ok1 := unhx(w[1])
		c, ok2 := unhx(w[2])
		st, ok3 := unhx(w[3])
		if !ok1 || !ok2 || !ok3 {
			return "bad-op"
		}
		// the stored bytes are a recorded parameter for the model; here they must be what the real codec gives
		want := c
		if s.comp {
			want, _ = zstd.Compress(c)
		}
		if hx(want) != hx(st) {
			return "codec-mismatch"
		}
		if err := s.db.WriteData(&rec{key: blockdb.Key(k), data: c}); err != nil {
			return "err"
		}
		return "ok"
	case "save":
		if len(w) != 1 || s.phase != phCreating {
			return "bad-op"
		}
		s.phase = phClosed
		if err := s.db.Save(); err != nil {
			return "err"
		}
		return "ok"
	case "open", "openmap":
		if len(w) != 1 || s.phase != phClosed {
			return "bad-op"
		}
		db, _ := blockdb.NewBlockDB(s.file, int8(s.klen), s.comp)
		if w[0] == "openmap" {
			db.SetIndex(blockdb.VerifNewMapIndex())
		}
		if err := db.Open(); err != nil {
			db.Close()
			return "err"
		}
		s.db, s.phase, s.atStart, s.mapIdx = db, phOpened, true, w[0] == "openmap"
		return "ok"
	case "close":
		if len(w) != 1 || s.phase != phOpened {
			return "bad-op"
		}
		s.db.Close()
		s.phase = phClosed
		return "ok"
	case "read":
		if len(w) != 2 || s.phase != phOpened {
			return "bad-op"
		}
		k, ok := unhx(w[1])
		if !ok {
			return "bad-op"
		}
		s.atStart = false
		r := &rec{}
		err := s.db.Read(blockdb.Key(k), r)
		if err == blockdb.ErrKeyNotFound {
			return "notfound"
		}
		if err != nil {
			return "err"
		}
		return "rec " + hx(r.data)
	case "readall":
		if len(w) != 1 || s.phase != phOpened || !s.atStart {
			return "bad-op"
		}
		s.atStart = false
		rs, err := s.db.ReadAll(recProvider{})
		if err != nil {
			return "err"
		}
		parts := []string{"recs"}
		for _, r := range rs {
			parts = append(parts, hx(r.(*rec).data))
		}
		return strings.Join(parts, " ")
	case "keys":
		if len(w) != 1 || s.phase != phOpened {
			return "bad-op"
		}
		parts := []string{"keys"}
		// GetKeys is reached through the Index the database holds; BlockDB has no accessor, ReadAll uses
		// len(GetKeys()) only. The hook-free way: decode the index file with the same index type.
		var idx blockdb.Index
		if s.mapIdx {
			idx = blockdb.VerifNewMapIndex()
		} else {
			idx = blockdb.VerifNewFixedIndex(int8(s.klen))
		}
		f, err := os.Open(s.file + "." + blockdb.FileExtHeader)
		if err != nil {
			return "err"
		}
		defer f.Close()
		if err := idx.Decode(f); err != nil {
			return "err"
		}
		for _, k := range idx.GetKeys() {
			parts = append(parts, hx([]byte(k)))
		}
		return strings.Join(parts, " ")
	case "idx", "dat":
		if len(w) != 1 || s.phase == phNone {
			return "bad-op"
		}
		ext := blockdb.FileExtHeader
		if w[0] == "dat" {
			ext = blockdb.FileExtData
		}
		b, err := os.ReadFile(s.file + "." + ext)
		if err != nil {
			return "absent"
		}
		return "file " + hx(b)
	case "trunc":
		if len(w) != 3 || s.phase != phClosed || (w[1] != "idx" && w[1] != "dat") {
			return "bad-op"
		}
		n, err := strconv.Atoi(w[2])
		if err != nil || n < 0 || n > 1<<20 {
			return "bad-op"
		}
		ext := blockdb.FileExtHeader
		if w[1] == "dat" {
			ext = blockdb.FileExtData
		}
		if _, err := os.Stat(s.file + "." + ext); err != nil {
			return "err"
		}
		if err := os.Truncate(s.file+"."+ext, int64(n)); err != nil {
			return "err"
		}
		return "ok"
	case "rmidx":
		if len(w) != 1 || s.phase != phClosed {
			return "bad-op"
		}
		if err := os.Remove(s.file + "." + blockdb.FileExtHeader); err != nil {
			return "err"
		}
		return "ok"
	}
	return "bad-op"
}

func workerMain() {
	in := bufio.NewReaderSize(os.Stdin, 1<<20)
	out := bufio.NewWriter(os.Stdout)
	st := &wstate{}
	fmt.Fprintln(out, "ready")
	out.Flush()
	for {
		line, err := in.ReadString('\n')
		if err != nil {
			return
		}
		w := strings.Fields(line)
		var ans string
		if len(w) == 2 && w[0] == "dir" {
			if st.db != nil {
				st.db.Close()
			}
			st = &wstate{base: w[1]}
			ans = "ok"
		} else {
			ans = st.do(w)
		}
		fmt.Fprintln(out, ans)
		out.Flush()
	}
}

// ---------------------------------------------------------------------------------------------- parent side of the pipe

type worker struct {
	cmd *exec.Cmd
	in  io.WriteCloser
	out chan string
	pid int
}

var (
	poolMu sync.Mutex
	pool   []*worker
	nHangs int
	nSpawn int
)

func spawn() *worker {
	cmd := exec.Command(os.Args[0], "-worker")
	cmd.Env = append(os.Environ(), "GOMAXPROCS=2", "GOMEMLIMIT=512MiB")
	in, _ := cmd.StdinPipe()
	outp, _ := cmd.StdoutPipe()
	if err := cmd.Start(); err != nil {
		panic(err)
	}
	w := &worker{cmd: cmd, in: in, out: make(chan string, 4), pid: cmd.Process.Pid}
	go func() {
		sc := bufio.NewScanner(outp)
		sc.Buffer(make([]byte, 1<<20), 1<<26)
		for sc.Scan() {
			w.out <- sc.Text()
		}
		close(w.out)
	}()
	select {
	case <-w.out: // "ready"
	case <-time.After(60 * time.Second):
		panic("worker did not start")
	}
	poolMu.Lock()
	nSpawn++
	poolMu.Unlock()
	return w
}

func acquire() *worker {
	poolMu.Lock()
	if n := len(pool); n > 0 {
		w := pool[n-1]
		pool = pool[:n-1]
		poolMu.Unlock()
		return w
	}
	poolMu.Unlock()
	return spawn()
}

func release(w *worker) {
	poolMu.Lock()
	pool = append(pool, w)
	poolMu.Unlock()
}

func (w *worker) kill() {
	w.cmd.Process.Kill()
	w.in.Close()
	go w.cmd.Wait()
}

// cpuTime of the child (utime only) from /proc/<pid>/stat.
func cpuTime(pid int) time.Duration {
	b, err := os.ReadFile(fmt.Sprintf("/proc/%d/stat", pid))
	if err != nil {
		return 0
	}
	s := string(b)
	i := strings.LastIndexByte(s, ')')
	f := strings.Fields(s[i+1:])
	if len(f) < 13 {
		return 0
	}
	ut, _ := strconv.ParseInt(f[11], 10, 64)
	return time.Duration(ut) * (time.Second / 100) // USER_HZ = 100
}

// call sends one line; hung=true when the watchdog fired (the worker is dead afterwards).
func (w *worker) call(line string) (ans string, hung bool) {
	c0 := cpuTime(w.pid)
	t0 := time.Now()
	if _, err := io.WriteString(w.in, line+"\n"); err != nil {
		return "crash", true
	}
	tick := time.NewTicker(10 * time.Millisecond)
	defer tick.Stop()
	for {
		select {
		case a, ok := <-w.out:
			if !ok {
				return "crash", true
			}
			return a, false
		case <-tick.C:
			if cpuTime(w.pid)-c0 >= hangCPU || time.Since(t0) >= hangWall {
				// one last look: the answer may have arrived in the meantime
				select {
				case a, ok := <-w.out:
					if ok {
						return a, false
					}
				default:
				}
				w.kill()
				return "hang", true
			}
		}
	}
}

func isStoreOp(op string) bool { return strings.HasPrefix(op, "b") }

func onlyStoreOps(ops []string) bool {
	for _, op := range ops {
		if !isStoreOp(op) {
			return false
		}
	}
	return true
}

// at most this many child processes at a time (each start of this binary costs about one CPU-second)
var workerSem = make(chan struct{}, 6)

// hangBudget bounds the number of child processes lost to hangs in one run (set in main from the tier): about
// ten times what the generator produces on the unchanged tree.
var hangBudget = 250

func impl(ops []string) []string {
	outs := make([]string, len(ops))
	if onlyStoreOps(ops) {
		var bs *storeCase
		dir, err := os.MkdirTemp("", "c26-")
		if err != nil {
			panic(err)
		}
		defer os.RemoveAll(dir)
		for i, op := range ops {
			if bs == nil || strings.HasPrefix(op, "bnew") {
				bs = newStoreCase(filepath.Join(dir, fmt.Sprintf("bs%d", i)))
			}
			outs[i] = bs.do(strings.Fields(op))
		}
		return outs
	}
	workerSem <- struct{}{}
	defer func() { <-workerSem }()
	dir, err := os.MkdirTemp("", "c26-")
	if err != nil {
		panic(err)
	}
	defer os.RemoveAll(dir)
	w := acquire()
	sub := 0
	start := func() {
		sub++
		w.call(fmt.Sprintf("dir %s", filepath.Join(dir, fmt.Sprintf("w%d", sub))))
	}
	start()
	var bs *storeCase
	for i, op := range ops {
		if isStoreOp(op) {
			if bs == nil || strings.HasPrefix(op, "bnew") {
				bs = newStoreCase(filepath.Join(dir, fmt.Sprintf("bs%d", i)))
			}
			outs[i] = bs.do(strings.Fields(op))
			continue
		}
		poolMu.Lock()
		exhausted := nHangs >= hangBudget
		poolMu.Unlock()
		if exhausted {
			// far more hangs than the unchanged tree produces: the run has failed already (the earlier cases carry
			// the violations and disagreements); do not spend a child process per further hang
			outs[i] = "hang-budget-exhausted"
			continue
		}
		a, hung := w.call(op)
		outs[i] = a
		if hung {
			poolMu.Lock()
			nHangs++
			poolMu.Unlock()
			w = spawn()
			start()
			for j := 0; j < i; j++ {
				if isStoreOp(ops[j]) || outs[j] == "hang" || outs[j] == "crash" {
					continue
				}
				if _, h := w.call(ops[j]); h { // cannot happen: it answered the first time
					w = spawn()
					start()
				}
			}
		}
	}
	release(w)
	return outs
}

// ---------------------------------------------------------------------------------------------- generator

func randKey(r *rand.Rand, n int) []byte {
	k := make([]byte, n)
	for i := range k {
		switch r.Intn(8) {
		case 0:
			k[i] = 0
		case 1:
			k[i] = 0xff
		default:
			k[i] = byte(r.Intn(256))
		}
	}
	return k
}

func randContent(r *rand.Rand, thorough bool) []byte {
	n := r.Intn(24)
	switch r.Intn(10) {
	case 0:
		n = 0
	case 1:
		n = 100 + r.Intn(200)
		if thorough && r.Intn(4) == 0 {
			n = 4000 + r.Intn(3000) // larger than bufio's 4096-byte buffer
		}
	}
	b := make([]byte, n)
	if r.Intn(2) == 0 { // compressible
		for i := range b {
			b[i] = byte('a' + r.Intn(3))
		}
	} else {
		r.Read(b)
	}
	return b
}

// neighbours of a key: the absent keys just below / above it, a prefix, an extension.
func neighbour(r *rand.Rand, k []byte) []byte {
	c := append([]byte(nil), k...)
	switch r.Intn(5) {
	case 0: // successor
		for i := len(c) - 1; i >= 0; i-- {
			c[i]++
			if c[i] != 0 {
				break
			}
		}
	case 1: // predecessor
		for i := len(c) - 1; i >= 0; i-- {
			c[i]--
			if c[i] != 0xff {
				break
			}
		}
	case 2:
		if len(c) > 0 {
			c = c[:len(c)-1]
		}
	case 3:
		c = append(c, byte(r.Intn(256)))
	default:
		if len(c) > 0 {
			c[r.Intn(len(c))] ^= byte(1 << uint(r.Intn(8)))
		}
	}
	return c
}

// genExhaustive: a small database, then EVERY crash point: the data file cut at each length from full down to
// 0 (index complete), then the index file cut at each length (data complete); after each cut Open and read all keys.
func genExhaustive(r *rand.Rand) []string {
	klen := 1 + r.Intn(3)
	comp := r.Intn(4) == 0
	ops := []string{fmt.Sprintf("new %d %d", klen, b2i(comp))}
	n := 1 + r.Intn(3)
	var keys [][]byte
	datLen := 0
	seen := map[string]bool{}
	for j := 0; j < n; j++ {
		k := randKey(r, klen)
		if seen[string(k)] {
			continue
		}
		seen[string(k)] = true
		keys = append(keys, k)
		c := make([]byte, r.Intn(5))
		r.Read(c)
		st := c
		if comp {
			st, _ = zstd.Compress(c)
		}
		datLen += 4 + len(st)
		ops = append(ops, fmt.Sprintf("write %s %s %s", hx(k), hx(c), hx(st)))
	}
	ops = append(ops, "save", "idx", "dat")
	idxLen := 4 + len(keys)*(klen+9)
	ops = append(ops, "open", "close")
	for cut := datLen; cut >= 0; cut-- {
		ops = append(ops, fmt.Sprintf("trunc dat %d", cut), "open")
		for _, k := range keys {
			ops = append(ops, "read "+hx(k))
		}
		ops = append(ops, "close")
	}
	for cut := idxLen - 1; cut >= 0; cut-- {
		ops = append(ops, fmt.Sprintf("trunc idx %d", cut), "open")
		if r.Intn(3) == 0 {
			ops = append(ops, "openmap")
		}
	}
	return ops
}

// genLarge: records around and beyond the 4096-byte buffer of the bufio.Reader that Read/ReadAll wrap the data
// file in (a record of more than 4092 stored bytes does not fit one buffer fill after its 4-byte length), and
// files whose records cross 4 KiB boundaries, read back one by one and with ReadAll, in both compression modes.
func genLarge(r *rand.Rand, thorough bool) []string {
	klen := 1 + r.Intn(4)
	comp := r.Intn(2) == 0
	ops := []string{fmt.Sprintf("new %d %d", klen, b2i(comp))}
	sizes := []int{4088, 4091, 4092, 4093, 4095, 4096, 4097, 8191, 8192, 8193, 12289}
	n := 1 + r.Intn(4)
	var keys [][]byte
	seen := map[string]bool{}
	for j := 0; j < n; j++ {
		k := randKey(r, klen)
		if seen[string(k)] {
			continue
		}
		seen[string(k)] = true
		keys = append(keys, k)
		sz := sizes[r.Intn(len(sizes))]
		switch x := r.Intn(10); {
		case x < 4:
			sz = 900 + r.Intn(2500) // several of these cross the 4 KiB boundaries of the file
		case x == 4 && (thorough || r.Intn(3) == 0):
			sz = 70000
		}
		c := make([]byte, sz)
		if comp && r.Intn(3) == 0 { // compressible: the stored record is small although the content is large
			for q := range c {
				c[q] = byte('a' + r.Intn(3))
			}
		} else {
			r.Read(c)
		}
		st := c
		if comp {
			st, _ = zstd.Compress(c)
		}
		ops = append(ops, fmt.Sprintf("write %s %s %s", hx(k), hx(c), hx(st)))
	}
	ops = append(ops, "save", "open", "readall", "close")
	if r.Intn(2) == 0 {
		ops = append(ops, "openmap")
	} else {
		ops = append(ops, "open")
	}
	for _, k := range keys {
		ops = append(ops, "read "+hx(k))
	}
	return ops
}

// genRetry: an attempt to store a block database crashes (the data file is cut at byte k: 0, 1, inside a record, at
// a record boundary ±1, its full length), then the database is stored AGAIN under the same name — the same records,
// fewer/shorter ones (the leftover is longer than the new content) or more — saved, reopened, read back.
func genRetry(r *rand.Rand, thorough bool) []string {
	klen := 1 + r.Intn(4)
	comp := r.Intn(3) == 0
	ops := []string{fmt.Sprintf("new %d %d", klen, b2i(comp))}
	type kv struct{ k, c, st []byte }
	mk := func(n int, big bool) []kv {
		var out []kv
		seen := map[string]bool{}
		for len(out) < n {
			k := randKey(r, klen)
			if seen[string(k)] {
				continue
			}
			seen[string(k)] = true
			c := make([]byte, 1+r.Intn(12))
			if big {
				c = make([]byte, 20+r.Intn(60))
			}
			r.Read(c)
			st := c
			if comp {
				st, _ = zstd.Compress(c)
			}
			out = append(out, kv{k, c, st})
		}
		return out
	}
	first := mk(1+r.Intn(4), r.Intn(2) == 0)
	var bounds []int
	total := 0
	for _, x := range first {
		ops = append(ops, fmt.Sprintf("write %s %s %s", hx(x.k), hx(x.c), hx(x.st)))
		total += 4 + len(x.st)
		bounds = append(bounds, total)
	}
	ops = append(ops, "save")
	// the crash point of the first attempt
	cut := total
	switch r.Intn(8) {
	case 0:
		cut = 0
	case 1:
		cut = 1
	case 2, 3: // inside a record
		cut = r.Intn(total + 1)
	case 4: // a record boundary ± 1
		cut = bounds[r.Intn(len(bounds))] + r.Intn(3) - 1
	case 5:
		cut = 3 // inside the first length prefix
	}
	if cut < 0 {
		cut = 0
	}
	if cut > total {
		cut = total
	}
	ops = append(ops, fmt.Sprintf("trunc dat %d", cut))
	if r.Intn(2) == 0 {
		ops = append(ops, "rmidx") // the crash came before Save
	}
	ops = append(ops, fmt.Sprintf("recreate %d %d", klen, b2i(comp)))
	var second []kv
	switch r.Intn(4) {
	case 0: // the same records again
		second = first
	case 1: // fewer and shorter: the leftover reaches beyond the new content
		second = mk(1, false)
	case 2:
		second = append(append([]kv(nil), first...), mk(1+r.Intn(3), true)...)
	default:
		second = mk(1+r.Intn(4), r.Intn(2) == 0)
	}
	seen := map[string]bool{}
	var uniq []kv
	for _, x := range second {
		if !seen[string(x.k)] {
			seen[string(x.k)] = true
			uniq = append(uniq, x)
		}
	}
	for _, x := range uniq {
		ops = append(ops, fmt.Sprintf("write %s %s %s", hx(x.k), hx(x.c), hx(x.st)))
	}
	ops = append(ops, "save", "idx", "dat")
	if r.Intn(3) == 0 {
		ops = append(ops, "openmap")
	} else {
		ops = append(ops, "open")
	}
	ops = append(ops, "readall")
	for _, x := range uniq {
		ops = append(ops, "read "+hx(x.k))
	}
	for _, x := range first { // keys of the first attempt only: never stored in THIS database
		if !seen[string(x.k)] && r.Intn(2) == 0 {
			ops = append(ops, "read "+hx(x.k))
		}
	}
	return ops
}

func gen(r *rand.Rand, thorough bool, i int) []string {
	if i%8 == 3 {
		return genRetry(r, thorough)
	}
	if i%8 == 7 {
		return genStore(r, thorough)
	}
	if i%10 == 1 {
		return genLarge(r, thorough)
	}
	if i%25 == 3 {
		return genExhaustive(r)
	}
	klen := 1 + r.Intn(8)
	switch r.Intn(12) {
	case 0:
		klen = 64 // transaction hashes
	case 1:
		klen = 118 // largest key length whose entry size still fits int8
	case 2:
		klen = 0
	}
	comp := r.Intn(3) == 0
	ops := []string{fmt.Sprintf("new %d %d", klen, b2i(comp))}
	n := r.Intn(9)
	if r.Intn(6) == 0 {
		n = r.Intn(3)
	}
	if thorough {
		n = r.Intn(40)
	}
	malformed := r.Intn(12) == 0 // keys shorter than keyLength: Open must reject the index
	var keys [][]byte
	curDat, idxKeys := 0, map[string]bool{}
	dup := r.Intn(5) == 0
	for j := 0; j < n; j++ {
		k := randKey(r, klen)
		if malformed && klen > 0 && r.Intn(2) == 0 {
			k = k[:r.Intn(klen)]
		}
		if dup && len(keys) > 0 && r.Intn(3) == 0 {
			k = keys[r.Intn(len(keys))]
		}
		keys = append(keys, k)
		c := randContent(r, thorough)
		st := c
		if comp {
			st, _ = zstd.Compress(c)
		}
		ops = append(ops, fmt.Sprintf("write %s %s %s", hx(k), hx(c), hx(st)))
		curDat += 4 + len(st)
		idxKeys[string(k)] = true
	}
	curIdx := 4
	for k := range idxKeys {
		curIdx += 1 + len(k) + 8
	}
	if r.Intn(4) == 0 {
		ops = append(ops, "dat")
	}
	// crash before Save: the index file does not exist
	if r.Intn(15) == 0 {
		ops = append(ops, "save", "rmidx", "open", "idx")
		return ops
	}
	ops = append(ops, "save")
	if r.Intn(2) == 0 {
		ops = append(ops, "idx")
	}
	if r.Intn(4) == 0 {
		ops = append(ops, "dat")
	}
	sessions := 1 + r.Intn(2)
	for s := 0; s < sessions; s++ {
		switch r.Intn(6) {
		case 0: // crash inside a WriteData / before the data reached the disk: any prefix of .dat
			curDat = r.Intn(curDat + 1) // a prefix, never an extension
			ops = append(ops, fmt.Sprintf("trunc dat %d", curDat))
		case 1: // torn index file
			curIdx = r.Intn(curIdx + 1)
			ops = append(ops, fmt.Sprintf("trunc idx %d", curIdx))
		}
		useMap := r.Intn(5) < 2
		if useMap {
			ops = append(ops, "openmap")
		} else {
			ops = append(ops, "open")
		}
		if r.Intn(3) == 0 {
			ops = append(ops, "keys")
		}
		if r.Intn(3) == 0 {
			ops = append(ops, "readall")
		}
		reads := 1 + r.Intn(5)
		// a read of an absent key through the fixed index may hang, and every hang costs a child process
		// (start-up of this binary ≈ 1 CPU-second): keep them to a fraction of the cases
		absentBudget := 0
		if useMap {
			absentBudget = 3
		} else if r.Intn(16) == 0 {
			absentBudget = 1 + r.Intn(2)
		}
		for q := 0; q < reads; q++ {
			var k []byte
			switch x := r.Intn(10); {
			case x < 5 && len(keys) > 0:
				k = keys[r.Intn(len(keys))]
			case x < 8 && len(keys) > 0 && absentBudget > 0:
				k = neighbour(r, keys[r.Intn(len(keys))])
				absentBudget--
			case absentBudget > 0:
				k = randKey(r, klen)
				if r.Intn(4) == 0 {
					k = make([]byte, klen) // below everything
				} else if r.Intn(4) == 0 {
					k = append(make([]byte, 0), []byte(strings.Repeat("\xff", klen))...) // beyond everything
				}
				absentBudget--
			default:
				if len(keys) == 0 {
					continue
				}
				k = keys[r.Intn(len(keys))]
			}
			ops = append(ops, "read "+hx(k))
		}
		if s+1 < sessions {
			ops = append(ops, "close")
		}
	}
	return ops
}

func b2i(b bool) int {
	if b {
		return 1
	}
	return 0
}

// ---------------------------------------------------------------------------------------------- oracle

// oracle: the property on the implementation's answers, from a reference map maintained here (no model).
func oracle(ops, outs []string) *corr.Violation {
	mk := func(sig, msg string) *corr.Violation {
		return &corr.Violation{Signature: "C26:" + sig, Message: msg, Ops: ops, Impl: outs}
	}
	if v := storeOracle(ops, outs, mk); v != nil {
		return v
	}
	type ext struct{ off, end int }
	var (
		klen      int
		ref       map[string]string // key hex -> content hex (last write)
		where     map[string]ext
		order     []string // contents in write order
		keysOrder []string
		datLen    int
		datCut    int
		idxIntact bool
		idxLen    = -1
		leftover  bool // the files existed before this store: they may be longer than what it wrote
		uniform   bool
		unique    bool
		opened    bool
		judged    bool
	)
	for i, op := range ops {
		w := strings.Fields(op)
		o := outs[i]
		if o == "bad-op" {
			continue // rejected by the protocol guard of the harness, the code was not called
		}
		switch w[0] {
		case "new":
			klen, _ = strconv.Atoi(w[1])
			ref, where, order, keysOrder = map[string]string{}, map[string]ext{}, nil, nil
			datLen, datCut, idxIntact, uniform, unique, opened = 0, 0, false, true, true, false
			idxLen = -1
			judged = klen <= 118
		case "recreate":
			if o != "ok" {
				return mk("recreate-fails", fmt.Sprintf("op %d %q answered %q", i, op, o))
			}
			// a new store over whatever the earlier attempt left: only what is written now counts
			klen, _ = strconv.Atoi(w[1])
			ref, where, order, keysOrder = map[string]string{}, map[string]ext{}, nil, nil
			datLen, datCut, idxIntact, uniform, unique, opened = 0, 0, false, true, true, false
			idxLen = -1
			judged = klen <= 118
			leftover = true
		case "write":
			if o != "ok" {
				return mk("write-fails", fmt.Sprintf("op %d %q answered %q", i, op, o))
			}
			k, _ := unhx(w[1])
			st, _ := unhx(w[3])
			if len(k) != klen {
				uniform = false
			}
			if _, dupl := ref[w[1]]; dupl {
				unique = false
			}
			ref[w[1]] = w[2]
			where[w[1]] = ext{datLen, datLen + 4 + len(st)}
			datLen += 4 + len(st)
			datCut = datLen
			order = append(order, w[2])
			keysOrder = append(keysOrder, w[1])
		case "save":
			if o != "ok" {
				return mk("save-fails", fmt.Sprintf("op %d answered %q", i, o))
			}
			idxIntact = true
		case "trunc":
			n, _ := strconv.Atoi(w[2])
			if w[1] == "dat" {
				if n > datCut {
					judged = false // file extended with zeros: not a crash point
				} else {
					datCut = n
				}
			} else {
				full := 4 + len(ref)*(klen+9)
				if idxLen < 0 {
					idxLen = full
				}
				if n > idxLen {
					judged = false // file extended with zeros: not a crash point
				} else if n < full {
					idxIntact = false
				}
				idxLen = n
			}
		case "rmidx":
			idxIntact = false
		case "open", "openmap":
			opened = o == "ok"
			if !judged || !uniform {
				continue
			}
			if idxIntact && o != "ok" {
				return mk("open-fails-on-complete-index", fmt.Sprintf("op %d %q answered %q although the index file is complete", i, op, o))
			}
			if !idxIntact && o == "ok" && w[0] == "open" {
				return mk("torn-index-accepted", fmt.Sprintf("op %d: Open accepted a torn or missing index file", i))
			}
		case "close":
			opened = false
		case "read":
			if !judged || !uniform || !opened {
				continue
			}
			want, present := ref[w[1]]
			if !present {
				switch {
				case o == "notfound":
				case o == "hang":
					return mk("absent-key-hang", fmt.Sprintf("op %d: Read of the never-written key %s did not return (the lookup spins)", i, w[1]))
				case strings.HasPrefix(o, "rec"):
					return mk("absent-key-returns-record", fmt.Sprintf("op %d: Read of the never-written key %s returned %q", i, w[1], o))
				default:
					return mk("absent-key-not-notfound", fmt.Sprintf("op %d: Read of the never-written key %s answered %q", i, w[1], o))
				}
				continue
			}
			e := where[w[1]]
			onDisk := e.end <= datCut
			switch {
			case o == "rec "+want:
				if !onDisk {
					return mk("record-from-nowhere", fmt.Sprintf("op %d: record of %s returned although its bytes were cut off", i, w[1]))
				}
			case strings.HasPrefix(o, "rec"):
				return mk("wrong-record", fmt.Sprintf("op %d: Read(%s) returned %q, written %q", i, w[1], o, want))
			case o == "hang":
				return mk("present-key-hang", fmt.Sprintf("op %d: Read of the written key %s did not return", i, w[1]))
			default:
				if onDisk && idxIntact {
					return mk("present-key-lost", fmt.Sprintf("op %d: Read(%s) answered %q; the record is on disk and indexed", i, w[1], o))
				}
			}
		case "readall":
			if !judged || !uniform || !unique || !opened || !idxIntact || datCut != datLen {
				continue
			}
			want := strings.TrimSpace("recs " + strings.Join(order, " "))
			if o != want {
				return mk("readall-mismatch", fmt.Sprintf("op %d: ReadAll gave %q, written in order %q", i, o, want))
			}
		case "keys":
			if !judged || !uniform || !opened || !idxIntact {
				continue
			}
			got := strings.Fields(o)
			if len(got) == 0 || got[0] != "keys" {
				return mk("keys-fail", fmt.Sprintf("op %d answered %q", i, o))
			}
			a := append([]string(nil), got[1:]...)
			var b []string
			for k := range ref {
				b = append(b, k)
			}
			sort.Strings(a)
			sort.Strings(b)
			if strings.Join(a, " ") != strings.Join(b, " ") {
				return mk("keys-mismatch", fmt.Sprintf("op %d: keys %v, written %v", i, a, b))
			}
		case "idx":
			// the saved index must list every key once, sorted, with the offset of its last record
			if !judged || !uniform || !idxIntact || !strings.HasPrefix(o, "file ") {
				continue
			}
			b, _ := unhx(strings.TrimPrefix(o, "file "))
			if len(b) != 4+len(ref)*(klen+9) && !(leftover && len(b) > 4+len(ref)*(klen+9)) {
				return mk("index-size", fmt.Sprintf("op %d: index file has %d bytes for %d keys of length %d", i, len(b), len(ref), klen))
			}
			prev := ""
			for j := 0; j < len(ref); j++ {
				e := b[4+j*(klen+9):]
				k := hx(e[1 : 1+klen])
				if j > 0 && !(prev < k) && klen > 0 {
					return mk("index-not-sorted", fmt.Sprintf("op %d: entry %d key %s after %s", i, j, k, prev))
				}
				prev = k
				off := 0
				for q := 7; q >= 0; q-- {
					off = off<<8 | int(e[1+klen+q])
				}
				if x, ok := where[k]; !ok || x.off != off {
					return mk("index-offset", fmt.Sprintf("op %d: entry %d key %s offset %d, record written at %v", i, j, k, off, x))
				}
			}
		}
	}
	return nil
}

func main() {
	for _, a := range os.Args[1:] {
		if a == "-worker" {
			workerMain()
			return
		}
	}
	for i, a := range os.Args[1:] {
		if (a == "-tier" || a == "--tier") && i+2 < len(os.Args) && os.Args[i+2] == "thorough" {
			hangBudget = 6000
		}
		if a == "-tier=thorough" || a == "--tier=thorough" {
			hangBudget = 6000
		}
	}
	corr.Main(corr.Prop{
		ID: "C26", Model: "C26", Gen: gen, Impl: impl, Oracle: oracle,
		Cases: func(th bool) int {
			if th {
				return 6000
			}
			return 400
		},
		Fixed: fixedCases(),
		Nontrivial: func(ops, outs []string) bool {
			return len(ops) >= 5
		},
		Extra: func() map[string]interface{} {
			poolMu.Lock()
			defer poolMu.Unlock()
			for _, w := range pool {
				w.kill()
			}
			pool = nil
			return map[string]interface{}{"child_processes": nSpawn, "hangs_observed": nHangs,
				"watchdog": fmt.Sprintf("child killed after %v of user CPU time on one call without an answer (or %v wall)", hangCPU, hangWall),
				"store": storeExtra()}
		},
	})
}

func bigHex(n int, b byte) string { return strings.Repeat(fmt.Sprintf("%02x", b), n) }

func fixedCases() [][]string {
	big := func(n int) string { return bigHex(n, 0x61) }
	return append(fixedSmall(), [][]string{
		// crash inside the second record, then the same database is stored again under the same name
		{"new 1 0", "write 05 aabb aabb", "write 06 ccdd ccdd", "save", "trunc dat 9", "rmidx", "recreate 1 0",
			"write 05 aabb aabb", "write 06 ccdd ccdd", "save", "dat", "open", "readall", "read 05", "read 06"},
		// the leftover is longer than everything stored now (and an old, longer index file is still there)
		{"new 1 0", "write 05 aabbccddeeff aabbccddeeff", "write 06 0102030405060708 0102030405060708", "write 07 11 11", "save",
			"recreate 1 0", "write 09 ee ee", "save", "idx", "dat", "open", "keys", "readall", "read 09", "read 05", "close", "openmap", "readall", "read 09", "read 06"},
		// the largest record that fits one 4096-byte buffer fill after its length prefix, and the first that does not
		{"new 1 0", "write 05 " + big(4092) + " " + big(4092), "write 06 " + big(4093) + " " + big(4093), "save", "open", "readall", "read 05", "read 06"},
		// three records of 1500 bytes: the third crosses the first 4 KiB boundary of the file
		{"new 1 0", "write 01 " + big(1500) + " " + big(1500), "write 02 " + big(1500) + " " + big(1500), "write 03 " + big(1500) + " " + big(1500), "save", "open", "readall", "read 03", "read 01"},
		{"new 2 0", "write 0001 " + big(70000) + " " + big(70000), "save", "open", "read 0001"},
	}...)
}

func fixedSmall() [][]string {
	return [][]string{
		// the minimal witness of the non-terminating lookup: one stored key, another key looked up
		{"new 1 0", "write 05 aa aa", "save", "open", "read 07"},
		// two keys: below the first terminates (hi becomes -1), between and beyond spin
		{"new 1 0", "write 05 aa aa", "write 09 bb bb", "save", "idx", "open", "read 05", "read 09", "read 01"},
		{"new 1 0", "write 05 aa aa", "write 09 bb bb", "save", "open", "read 07"},
		{"new 1 0", "write 05 aa aa", "write 09 bb bb", "save", "open", "read 0b"},
		// empty database: the loop is never entered
		{"new 4 0", "save", "idx", "open", "read 00000000", "keys", "readall"},
		// the map index answers not-found
		{"new 1 0", "write 05 aa aa", "save", "openmap", "read 07", "read 05", "keys"},
		// duplicates: the last record wins, the first stays in the file
		{"new 2 0", "write 0102 aa aa", "write 0102 bbbb bbbb", "write 0001 cc cc", "save", "idx", "dat", "open", "read 0102", "read 0001"},
		// crash points
		{"new 2 0", "write 0102 aabbcc aabbcc", "write 0304 dd dd", "save", "trunc dat 8", "open", "read 0102", "read 0304"},
		{"new 2 0", "write 0102 aabbcc aabbcc", "write 0304 dd dd", "save", "trunc idx 15", "open", "openmap"},
		{"new 2 0", "write 0102 aabbcc aabbcc", "save", "rmidx", "open", "openmap", "idx"},
		// key length 119: the entry size wraps in int8
		{"new 119 0", "save", "open", "read 00"},
	}
}
