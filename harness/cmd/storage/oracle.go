// oracle.go: the four properties stated on the implementation's snapshots (independent of the Lean model).
package main

import (
	"bufio"
	"encoding/json"
	"fmt"
	"math/big"
	"os"
	"strconv"
	"strings"

	"verifharness/lib/corr"
)

// ---------------------------------------------------------------- parsed snapshot line

type rBA struct {
	b                            int
	size, price, cv, used, offer int64
}
type rAlloc struct {
	present    bool
	cpPresent  bool
	owner      int
	exp        int64
	wp, cp     int64
	mtc, mb    int64
	size, data int64
	bas        []rBA
}
type rSP struct {
	present               bool
	offers, stake, reward int64
	dead                  bool
}
type rBlob struct {
	present              bool
	cap, allocated, used int64
	dead                 bool
	price                int64
	sp                   rSP
}
type rState struct {
	now     int64
	wallet  int64
	allocs  map[int]*rAlloc
	blobs   map[int]*rBlob
	vals    map[int]*rSP
	rps     map[int]int64
	clients map[int]int64
}

// p64: a decimal number; values of 2^63 and above (a uint64 field that wrapped below zero) come back negative.
func p64(s string) int64 {
	if n, err := strconv.ParseInt(s, 10, 64); err == nil {
		return n
	}
	u, _ := strconv.ParseUint(s, 10, 64)
	return int64(u)
}

func parseSP(tok string) rSP {
	if tok == "S:-" {
		return rSP{}
	}
	f := strings.Split(tok, ":")
	if len(f) != 5 {
		return rSP{}
	}
	return rSP{true, p64(f[1]), p64(f[2]), p64(f[3]), f[4] == "1"}
}

// parseOut splits "status obs... # render" and parses the render.
func parseOut(out string) (status []string, st *rState, ok bool) {
	parts := strings.SplitN(out, " # ", 2)
	status = strings.Fields(parts[0])
	if len(parts) != 2 {
		return status, nil, false
	}
	secs := strings.Split(parts[1], "|")
	if len(secs) != 6 {
		return status, nil, false
	}
	st = &rState{allocs: map[int]*rAlloc{}, blobs: map[int]*rBlob{}, vals: map[int]*rSP{}, rps: map[int]int64{}, clients: map[int]int64{}}
	for _, t := range strings.Fields(secs[0]) {
		if strings.HasPrefix(t, "W=") {
			st.wallet = p64(t[2:])
		}
		if strings.HasPrefix(t, "T=") {
			st.now = p64(t[2:])
		}
	}
	for _, t := range strings.Fields(secs[1]) {
		// A<k>:gone:cp=<n>  |  A<k>:<owner>:<exp>:<wp>:<cp>:<mtc>:<mb>[...]
		head := t
		body := ""
		if i := strings.IndexByte(t, '['); i >= 0 {
			head, body = t[:i], strings.TrimSuffix(t[i+1:], "]")
		}
		f := strings.Split(head, ":")
		k, _ := strconv.Atoi(strings.TrimPrefix(f[0], "A"))
		a := &rAlloc{}
		if len(f) == 3 && f[1] == "gone" {
			cp := strings.TrimPrefix(f[2], "cp=")
			if cp != "-" {
				a.cpPresent, a.cp = true, p64(cp)
			}
			st.allocs[k] = a
			continue
		}
		if len(f) != 9 {
			return status, nil, false
		}
		a.present = true
		a.owner, _ = strconv.Atoi(f[1])
		a.exp, a.wp = p64(f[2]), p64(f[3])
		if f[4] != "-" {
			a.cpPresent, a.cp = true, p64(f[4])
		}
		a.mtc, a.mb = p64(f[5]), p64(f[6])
		a.size, a.data = p64(f[7]), p64(f[8])
		if body != "" {
			for _, b := range strings.Split(body, ";") {
				g := strings.Split(b, ",")
				if len(g) != 6 {
					return status, nil, false
				}
				bi, _ := strconv.Atoi(g[0])
				a.bas = append(a.bas, rBA{bi, p64(g[1]), p64(g[2]), p64(g[3]), p64(g[4]), p64(g[5])})
			}
		}
		st.allocs[k] = a
	}
	toks := strings.Fields(secs[2])
	for n := 0; n+1 < len(toks); n += 2 {
		f := strings.Split(toks[n], ":")
		i, _ := strconv.Atoi(strings.TrimPrefix(f[0], "B"))
		b := &rBlob{sp: parseSP(toks[n+1])}
		if len(f) == 6 {
			b.present = true
			b.cap, b.allocated, b.used, b.dead, b.price = p64(f[1]), p64(f[2]), p64(f[3]), f[4] == "1", p64(f[5])
		}
		st.blobs[i] = b
	}
	toks = strings.Fields(secs[3])
	for n := 0; n+1 < len(toks); n += 2 {
		i, _ := strconv.Atoi(strings.TrimPrefix(toks[n], "V"))
		sp := parseSP(toks[n+1])
		st.vals[i] = &sp
	}
	for _, t := range strings.Fields(secs[4]) {
		f := strings.Split(t, ":")
		j, _ := strconv.Atoi(strings.TrimPrefix(f[0], "R"))
		st.rps[j] = p64(f[1])
	}
	for _, t := range strings.Fields(secs[5]) {
		f := strings.Split(t, ":")
		j, _ := strconv.Atoi(strings.TrimPrefix(f[0], "C"))
		st.clients[j] = p64(f[1])
	}
	return status, st, true
}

// liabilities: everything the contract records as owed.
func (s *rState) liabilities() *big.Int {
	l := new(big.Int)
	add := func(v int64) { l.Add(l, big.NewInt(v)) }
	for _, a := range s.allocs {
		if a.present {
			add(a.wp)
		}
		if a.cpPresent {
			add(a.cp)
		}
	}
	for _, b := range s.blobs {
		if b.sp.present {
			add(b.sp.stake)
			add(b.sp.reward)
		}
	}
	for _, v := range s.vals {
		if v.present {
			add(v.stake)
			add(v.reward)
		}
	}
	for _, r := range s.rps {
		add(r)
	}
	return l
}

// ---------------------------------------------------------------- known findings (only to choose WHICH violation of a
// history to report when it has several: an unlisted one first, so that a listed finding never hides a new one)

var knownSigs = func() map[string]bool {
	m := map[string]bool{}
	f, err := os.Open("/verif/known_findings.jsonl")
	if err != nil {
		return m
	}
	defer f.Close()
	sc := bufio.NewScanner(f)
	sc.Buffer(make([]byte, 1<<20), 1<<24)
	for sc.Scan() {
		var j struct {
			Signature string `json:"signature"`
			Status    string `json:"status"`
		}
		if json.Unmarshal(sc.Bytes(), &j) == nil && j.Signature != "" && (j.Status == "" || j.Status == "known") {
			m[j.Signature] = true
		}
	}
	return m
}()

type viol struct {
	sig, msg string
	at       int
}

func closeReason(status []string) string {
	if len(status) >= 2 {
		return status[1]
	}
	return ""
}

// cause names the path of an operation for the signature (so that a finding is identified by WHAT breaks it).
func cause(op []string, prev *rState) string {
	switch op[0] {
	case "upd":
		if op[7] != "-" {
			if b := prev.blobs[atoi(op[7])]; b != nil && b.dead {
				return "replace-killed-blobber"
			}
		}
		if (op[5] == "1" || atoi64(op[4]) > 0) && unevenExtend(op, prev) {
			// the extend phase runs on blobber allocations of different sizes (or on a blobber added by this very
			// update whose size is rounded differently): allocation.go 906/966 sets all sizes to the first one's
			return "extend"
		}
		if op[7] != "-" {
			return "replace-blobber"
		}
		if op[6] != "-" {
			return "add-blobber"
		}
		if op[5] == "1" || atoi64(op[4]) > 0 {
			return "extend-even"
		}
		return "update"
	case "kill", "shut":
		if op[1] == "b" {
			if b := prev.blobs[atoi(op[2])]; b != nil && b.dead {
				return "re" + op[0] + "-blobber"
			}
			return op[0] + "-blobber"
		}
		return op[0] + "-validator"
	case "shutby":
		if b := prev.blobs[atoi(op[1])]; b != nil && b.dead {
			return "reshut-blobber"
		}
		return "shut-blobber"
	case "resp":
		return "challenge-" + op[3]
	case "commit":
		if atoi64(op[3]) < 0 {
			return "delete"
		}
		return "upload"
	case "rr":
		return "read-redeem"
	}
	return op[0]
}

// unevenExtend: the allocation's blobber allocations do not all have the first one's size when the extend phase of
// this update starts (counting a blobber that the same update adds or swaps in: it gets ceil(size/data shards)).
func unevenExtend(op []string, prev *rState) bool {
	a := prev.allocs[atoi(op[1])]
	if a == nil || !a.present || len(a.bas) == 0 || a.data <= 0 {
		return false
	}
	added := (a.size + a.data - 1) / a.data
	var sizes []int64
	for _, d := range a.bas {
		if op[7] != "-" && d.b == atoi(op[7]) {
			if op[6] != "-" {
				sizes = append(sizes, added) // swapped in at the removed one's position
			}
			continue
		}
		sizes = append(sizes, d.size)
	}
	if op[6] != "-" && op[7] == "-" {
		sizes = append(sizes, added)
	}
	for _, z := range sizes {
		if z != sizes[0] {
			return true
		}
	}
	return false
}

func oracle(prop string) func(ops, outs []string) *corr.Violation {
	return func(ops, masked []string) *corr.Violation {
		// judge the implementation's real answers (the differ's view masks lines whose recorded observations are stale)
		outs := masked
		realMu.Lock()
		if r, ok := realOuts[opsKey(ops)]; ok && len(r) == len(ops) {
			outs = r
		}
		realMu.Unlock()
		var vs []viol
		add := func(i int, sig, msg string) {
			vs = append(vs, viol{prop + ":" + sig, fmt.Sprintf("op %d %q: %s", i, ops[i], msg), i})
		}
		var prev *rState
		mode := "1"
		closed := map[int]bool{}     // allocations closed by a successful finalize/cancel
		badCP := map[int]bool{}      // C12: allocations whose equality is already broken (report the breaking op only)
		badAl := map[int]bool{}      // C13: blobbers whose Allocated already drifted
		badOf := map[int]bool{}      // C13: blobbers whose TotalOffers already drifted
		for i, line := range ops {
			op, _ := splitOp(line)
			if len(op) == 0 || i >= len(outs) {
				continue
			}
			status, cur, ok := parseOut(outs[i])
			if !ok {
				if len(status) > 0 && status[0] == "bad-op" {
					continue
				}
				if len(status) > 0 && (status[0] == "panic" || status[0] == "harness-panic") {
					add(i, "panic", outs[i])
				}
				continue
			}
			if op[0] == "init" {
				if len(op) == 3 {
					mode = op[2]
				}
				prev = cur
				closed, badCP, badAl, badOf = map[int]bool{}, map[int]bool{}, map[int]bool{}, map[int]bool{}
				continue
			}
			if prev == nil {
				prev = cur
				continue
			}
			okTx := len(status) > 0 && status[0] == "ok"
			why := cause(op, prev)
			if op[0] == "resp" && mode == "2" {
				why += "-no-validators-rewarded" // num_validators_rewarded = 0: moveToValidators returns before the debit
			}

			switch prop {
			case "C12":
				for k, a := range cur.allocs {
					if !a.present {
						continue
					}
					var sum int64
					for _, d := range a.bas {
						sum += d.cv
					}
					for _, d := range a.bas {
						if d.cv < 0 && !badCP[k] { // a value of 2^63 or more: the unchecked uint64 decrement wrapped
							badCP[k] = true
							add(i, "cv-underflow:"+map[bool]string{true: "extend", false: why}[op[0] == "upd"], fmt.Sprintf("allocation a%d: blobber b%d's challenge value is %d (2^64%d): decremented below zero", k, d.b, uint64(d.cv), d.cv))
						}
					}
					if (!a.cpPresent || a.cp != sum) && !badCP[k] {
						badCP[k] = true
						add(i, "cp-ne-sum:"+why, fmt.Sprintf("allocation a%d: challenge pool %d (present=%v) != sum of blobbers' challenge values %d", k, a.cp, a.cpPresent, sum))
					}
				}
				if (op[0] == "fin" || op[0] == "cancel") && okTx {
					k := atoi(op[1])
					if a := cur.allocs[k]; a != nil && (a.present || a.cpPresent) {
						add(i, "pool-survives-close", fmt.Sprintf("allocation a%d closed but allocation present=%v challenge pool present=%v balance %d", k, a.present, a.cpPresent, a.cp))
					}
				}
			case "C13":
				sumSize, sumOffer := map[int]int64{}, map[int]int64{}
				for _, a := range cur.allocs {
					if a.present {
						for _, d := range a.bas {
							sumSize[d.b] += d.size
							sumOffer[d.b] += d.offer
						}
					}
				}
				for bi, b := range cur.blobs {
					if b.present && b.allocated != sumSize[bi] && !badAl[bi] {
						badAl[bi] = true
						add(i, "allocated-ne-sum:"+why, fmt.Sprintf("blobber b%d: allocated %d != sum of its sizes over open allocations %d", bi, b.allocated, sumSize[bi]))
					}
					if b.sp.present && b.sp.offers != sumOffer[bi] && !badOf[bi] {
						badOf[bi] = true
						add(i, "offers-ne-sum:"+why, fmt.Sprintf("blobber b%d: stake pool total offers %d != sum of its offers over open allocations %d", bi, b.sp.offers, sumOffer[bi]))
					}
				}
				if okTx && (op[0] == "newa" || op[0] == "upd") {
					// every blobber whose allocated size grew in this transaction was assigned to: must fit its capacity
					for bi, b := range cur.blobs {
						if pb := prev.blobs[bi]; b.present && pb != nil && pb.present && b.allocated > pb.allocated && b.allocated > b.cap {
							add(i, "assigned-over-capacity:"+why, fmt.Sprintf("blobber b%d: allocated %d > capacity %d after assignment", bi, b.allocated, b.cap))
						}
					}
				}
				if (op[0] == "fin" || op[0] == "cancel") && !okTx && closeReason(status) == "offer-underflow" {
					add(i, "close-cannot-release-offer", fmt.Sprintf("closing allocation a%s fails: the blobber's total offers are smaller than this allocation's offer", op[1]))
				}
			case "C14":
				if op[0] == "fin" || op[0] == "cancel" {
					k := atoi(op[1])
					pa := prev.allocs[k]
					if okTx {
						if pa == nil || !pa.present {
							add(i, "closed-twice", fmt.Sprintf("allocation a%d closed although it was not open", k))
						} else {
							callerIsOwner := op[2] == fmt.Sprintf("c%d", pa.owner)
							callerIsBlobber := false
							for _, d := range pa.bas {
								if op[2] == fmt.Sprintf("b%d", d.b) {
									callerIsBlobber = true
								}
							}
							if op[0] == "fin" && !(callerIsOwner || callerIsBlobber) {
								add(i, "finalize-unauthorised", "finalized by "+op[2])
							}
							if op[0] == "fin" && prev.now < pa.exp && cur.now < pa.exp {
								add(i, "finalize-before-expiry", fmt.Sprintf("now %d < expiration %d", cur.now, pa.exp))
							}
							if op[0] == "cancel" && !callerIsOwner {
								add(i, "cancel-unauthorised", "cancelled by "+op[2])
							}
							if op[0] == "cancel" && cur.now > pa.exp {
								add(i, "cancel-after-expiry", fmt.Sprintf("now %d > expiration %d", cur.now, pa.exp))
							}
							// payout
							refund := cur.clients[pa.owner] - prev.clients[pa.owner]
							var credited, earnedCap, cost int64
							for _, d := range pa.bas {
								earnedCap += d.cv
								cost += d.offer
								if cb, pb := cur.blobs[d.b], prev.blobs[d.b]; cb != nil && pb != nil {
									credited += cb.sp.reward - pb.sp.reward
								}
							}
							chargeCap := cost/5 + int64(len(pa.bas)) // cancellation_charge 0.2 of the cost, float rounding slack 1 per blobber
							pools := pa.wp + pa.cp
							if refund < 0 || refund > pools {
								add(i, "refund-exceeds-pools", fmt.Sprintf("owner received %d, pools held %d", refund, pools))
							}
							if credited > earnedCap+chargeCap {
								add(i, "blobbers-overpaid", fmt.Sprintf("blobbers credited %d > challenge values %d + cancellation charge cap %d", credited, earnedCap, chargeCap))
							}
							if refund+credited > pools {
								add(i, "close-pays-more-than-pools", fmt.Sprintf("refund %d + credited %d > pools %d", refund, credited, pools))
							}
							// the contract's own formulas, recomputed by the harness from the snapshot before the close (see
							// expectedClose): per blobber allocation credited <= challenge reward + cancellation charge share,
							// and the owner gets the rest
							if len(status) >= 3 {
								var expPaid int64
								for n, t := range strings.Split(status[2], ",") {
									f := strings.Split(t, ":")
									if len(f) != 6 || n >= len(pa.bas) {
										continue
									}
									cr, cc, rw := p64(f[1]), p64(f[4]), p64(f[5])
									expPaid += cc + rw
									if cr > rw+cc+1 {
										add(i, "blobbers-overpaid", fmt.Sprintf("blobber b%d credited %d > challenge reward %d (value x pass rate %s/%s x elapsed share) + cancellation charge share %d", pa.bas[n].b, cr, rw, f[2], f[3], cc))
									}
								}
								if refund+int64(len(pa.bas)) < pools-expPaid {
									add(i, "refund-too-small", fmt.Sprintf("owner received %d < pools %d - prescribed payments %d", refund, pools, expPaid))
								}
							}
							if refund < pools-earnedCap-chargeCap {
								add(i, "refund-too-small", fmt.Sprintf("owner received %d < pools %d - challenge values %d - charge cap %d", refund, pools, earnedCap, chargeCap))
							}
							if prev.wallet-cur.wallet != refund {
								add(i, "wallet-delta-ne-refund", fmt.Sprintf("wallet paid %d, owner received %d", prev.wallet-cur.wallet, refund))
							}
							if a := cur.allocs[k]; a != nil && (a.present || a.cpPresent) {
								add(i, "not-removed", fmt.Sprintf("allocation present=%v, challenge pool present=%v after close", a.present, a.cpPresent))
							}
							closed[k] = true
						}
					}
				}
				// nothing touches a closed allocation any more
				if k, touches := touched(op); touches && closed[k] && !(okTx && (op[0] == "fin" || op[0] == "cancel") && prev.allocs[k] != nil && prev.allocs[k].present) {
					if okTx {
						add(i, "op-on-closed-allocation-succeeds:"+op[0], fmt.Sprintf("%s on closed allocation a%d succeeded", op[0], k))
					}
					if outsRender(outs[i]) != outsRender(outs[i-1]) {
						add(i, "op-on-closed-allocation-changes-state:"+op[0], fmt.Sprintf("%s on closed allocation a%d changed the state", op[0], k))
					}
				}
			case "C09":
				dl := new(big.Int).Sub(cur.liabilities(), prev.liabilities())
				dw := big.NewInt(cur.wallet - prev.wallet)
				if dl.Cmp(dw) > 0 {
					add(i, "liability-grew:"+why, fmt.Sprintf("liabilities %s -> %s (delta %s) but wallet delta %s", prev.liabilities(), cur.liabilities(), dl, dw))
				}
				if op[0] == "rr" && okTx && len(status) >= 2 {
					// a redeemed read marker: the reader's pool held its price and lost exactly that; the blobber's stake
					// pool gained at most that
					price, j, bi := p64(status[1]), atoi(op[3]), atoi(op[2])
					had, has := prev.rps[j], cur.rps[j]
					if price < 0 || price > had {
						add(i, "read-redeem-overdraft", fmt.Sprintf("marker priced %s redeemed against a read pool of %d", status[1], had))
					}
					if had-has != price {
						add(i, "read-pool-debit-ne-price", fmt.Sprintf("read pool %d -> %d, marker priced %s", had, has, status[1]))
					}
					if cb, pb := cur.blobs[bi], prev.blobs[bi]; cb != nil && pb != nil {
						if got := (cb.sp.reward + cb.sp.stake) - (pb.sp.reward + pb.sp.stake); got > had-has {
							add(i, "read-reward-exceeds-debit", fmt.Sprintf("stake pool of b%d gained %d, read pool lost %d", bi, got, had-has))
						}
					}
				}
				if cur.liabilities().Cmp(big.NewInt(cur.wallet)) > 0 && prev.liabilities().Cmp(big.NewInt(prev.wallet)) <= 0 {
					add(i, "liabilities-exceed-wallet:"+why, fmt.Sprintf("liabilities %s > wallet %d", cur.liabilities(), cur.wallet))
				}
			}
			prev = cur
		}
		if len(vs) == 0 {
			return nil
		}
		pick := vs[0]
		for _, v := range vs {
			if !knownSigs[v.sig] {
				pick = v
				break
			}
		}
		// the replay carries the observations of THIS run (fresh), so that it replays identically on the model
		fresh := make([]string, pick.at+1)
		chain := ""
		for i := 0; i <= pick.at; i++ {
			op, _ := splitOp(ops[i])
			st := outs[i]
			if j := strings.Index(st, " # "); j >= 0 {
				st = st[:j]
			}
			if len(op) > 0 && op[0] == "init" {
				fresh[i] = strings.Join(op, " ")
				chain = chainNext("", fresh[i])
			} else {
				fresh[i] = record(&chain, op, st, outs[i])
			}
		}
		return &corr.Violation{Signature: pick.sig, Message: pick.msg, Ops: fresh, Impl: outs[:pick.at+1]}
	}
}

func outsRender(out string) string {
	if i := strings.Index(out, " # "); i >= 0 {
		// the time stamp is part of the first section; drop it
		r := out[i+3:]
		if j := strings.Index(r, " |"); j >= 0 {
			f := strings.Fields(r[:j])
			var keep []string
			for _, t := range f {
				if !strings.HasPrefix(t, "T=") {
					keep = append(keep, t)
				}
			}
			return strings.Join(keep, " ") + r[j:]
		}
		return r
	}
	return out
}

// touched: the allocation index an operation addresses.
func touched(op []string) (int, bool) {
	switch op[0] {
	case "fin", "cancel", "wpl", "upd", "commit", "resp", "rr":
		return atoi(op[1]), true
	}
	return 0, false
}
