package main

import "verifharness/lib/corr"

func oracle(prop string) func(ops, outs []string) *corr.Violation {
	return func(ops, outs []string) *corr.Violation { return nil }
}
