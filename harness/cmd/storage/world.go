// storage harness (C09, C12, C13, C14): the REAL storagesc driven through the real Chain.UpdateState.
// world.go: identities with real BLS keys, deterministic blocks, transaction execution, snapshot rendering.
package main

import (
	"os"
	"bytes"
	"encoding/hex"
	"encoding/json"
	"fmt"
	"sort"
	"strings"
	"sync"

	cstate "0chain.net/chaincore/chain/state"
	"0chain.net/chaincore/transaction"
	"0chain.net/core/encryption"
	"0chain.net/smartcontract/storagesc"
	"github.com/0chain/common/core/currency"
	"github.com/herumi/bls-go-binary/bls"
	"verifharness/lib/engine"
)

// ---------------------------------------------------------------- identities

type actor struct {
	engine.Client
	sk *encryption.BLS0ChainScheme
}

var debug = os.Getenv("STORAGE_DEBUG") != ""

var (
	actorMu  sync.Mutex
	actorMem = map[string]*actor{}
)

// newActor: a deterministic REAL bls0chain key pair (the contract verifies write markers, validation tickets and
// auth tickets with the chain's signature scheme); the client id is the hash of the public key bytes.
func newActor(tag string) *actor {
	actorMu.Lock()
	defer actorMu.Unlock()
	if a, ok := actorMem[tag]; ok {
		return a
	}
	seed, _ := hex.DecodeString(encryption.Hash("verif-storage-sk:" + tag))
	var sk bls.SecretKey
	if err := sk.SetLittleEndianMod(seed); err != nil {
		panic(err)
	}
	pub := sk.GetPublicKey().Serialize()
	s := encryption.NewBLS0ChainScheme()
	if err := s.ReadKeys(bytes.NewBufferString(hex.EncodeToString(pub) + "\n" + hex.EncodeToString(sk.GetLittleEndian()) + "\n")); err != nil {
		panic(err)
	}
	a := &actor{Client: engine.Client{ID: encryption.Hash(pub), PublicKey: hex.EncodeToString(pub)}, sk: s}
	actorMem[tag] = a
	return a
}

func (a *actor) sign(hashHex string) string {
	s, err := a.sk.Sign(hashHex)
	if err != nil {
		panic(err)
	}
	return s
}

const scOwnerID = "1746b06bb09f55ee01b33b5e2e055d6cc7a900cb57c0a3a5eaabb8a0e7745802" // storagesc owner_id of the repo's sc.yaml

const (
	nBlobbers   = 6
	nValidators = 4
	nClients    = 4
)

// ---------------------------------------------------------------- world

type world struct {
	w      *engine.World
	tag    string // unique per case: block hashes derive from it and from the history so far
	hist   string
	nonce  map[string]int64
	blob   [nBlobbers]*actor
	val    [nValidators]*actor
	cli    [nClients]*actor
	owner  *actor
	allocs []string // allocation ids in creation order (index = a<k>)
	allocOwner []int
	wmSeq  int
	roots  map[string]string // alloc|blobber -> current allocation root
	readCtr map[string]int64 // alloc|blobber|client -> counter of the last redeemed read marker
	lastOut string
	chain   string // chain hash of the recorded lines (see record)
	lastHash string
}

// newWorld: mode "1" = all hard forks active from round 0 (current rules); "0" = no fork recorded; "2" = as "1" and
// the storage setting num_validators_rewarded is set to 0 by the contract owner's update_settings (a value the
// contract's own Config.validate rejects, but which the post-demeter update_settings saves unvalidated: known finding
// C48:storage-update-saved-invalid-config).
func newWorld(tag string, mode string) (*world, error) {
	fork := mode == "1" || mode == "2"
	engine.Setup()
	x := &world{tag: tag, nonce: map[string]int64{}, roots: map[string]string{}, readCtr: map[string]int64{}}
	bal := map[string]currency.Coin{}
	for i := range x.blob {
		x.blob[i] = newActor(fmt.Sprintf("blobber-%d", i))
		bal[x.blob[i].ID] = 100e10
	}
	for i := range x.val {
		x.val[i] = newActor(fmt.Sprintf("validator-%d", i))
		bal[x.val[i].ID] = 100e10
	}
	for i := range x.cli {
		x.cli[i] = newActor(fmt.Sprintf("client-%d", i))
		bal[x.cli[i].ID] = 1000000e10
	}
	x.owner = &actor{Client: engine.Client{ID: scOwnerID, PublicKey: newActor("sc-owner").PublicKey}}
	bal[scOwnerID] = 100e10
	w, err := engine.NewWorld(bal, func(sctx *cstate.StateContext) error {
		if err := storagesc.InitPartitions(sctx); err != nil {
			return err
		}
		if err := storagesc.InitConfig(sctx); err != nil {
			return err
		}
		if fork {
			for _, n := range []string{"demeter", "electra"} {
				if _, err := sctx.InsertTrieNode(cstate.NewHardFork(n, 0).GetKey(), cstate.NewHardFork(n, 0)); err != nil {
					return err
				}
			}
		}
		return nil
	})
	if err != nil {
		return nil, err
	}
	x.w = w
	// engine.NewWorld opened block 1 with a pointer-derived hash; re-open it with a history-derived one, at round
	// 100: in reward round 0 (rounds < block_reward.trigger_period) a passed challenge is rejected ("can't get
	// blobber reward from partition list") because a fresh blobber's RewardRound.StartRound is 0 as well
	w.Round = 99
	x.nextBlock()
	if mode == "2" {
		if r := x.exec(x.owner, "update_settings", 0, map[string]interface{}{"fields": map[string]string{"num_validators_rewarded": "0"}}); r.status != "ok" {
			return nil, fmt.Errorf("update_settings num_validators_rewarded=0: %s %s", r.status, r.out)
		}
	}
	return x, nil
}

// patchBlock: the engine lib gives every block of every World a process-unique hash (the chain's state cache is global
// and keyed by block hash; sharing a hash between two worlds whose blocks differ would leak cached values). What the
// contracts read from the block to seed random choices (generate_challenge, blobber_block_rewards: `b.PrevHash`;
// challenge_response: the round random seed) must however be the same in every run of the same history, so those
// two FIELDS of the current block object are set to functions of the case tag and of the history executed so far.
// The block cache keeps the real hashes.
func (x *world) patchBlock() {
	w := x.w
	w.B.PrevHash = encryption.Hash(fmt.Sprintf("verif-storage-prev|%s|%d|%s", x.tag, w.Round, encryption.Hash(x.hist)))
	w.B.RoundRandomSeed = int64(w.Round)*7919 + 13
	w.B.CreationDate = w.Now
}

func (x *world) nextBlock() {
	x.w.NextBlock()
	x.patchBlock()
}

type txres struct {
	status string // ok | fail | rejected
	out    string
}

func (x *world) exec(from *actor, fn string, value uint64, input interface{}) txres {
	var in string
	switch v := input.(type) {
	case nil:
		in = ""
	case string:
		in = v
	default:
		b, err := json.Marshal(v)
		if err != nil {
			panic(err)
		}
		in = string(b)
	}
	n := x.nonce[from.ID] + 1
	t := x.w.Txn(from.Client, storagesc.ADDRESS, currency.Coin(value), 0, n, transaction.TxnTypeSmartContract, fn, in)
	x.lastHash = t.Hash
	_, err := x.w.Exec(t)
	if err != nil {
		if debug {
			fmt.Fprintf(os.Stderr, "  [%s rejected: %.200s]\n", fn, err.Error())
		}
		return txres{"rejected", err.Error()}
	}
	x.nonce[from.ID] = n
	if t.Status == transaction.TxnSuccess {
		return txres{"ok", t.TransactionOutput}
	}
	if debug {
		fmt.Fprintf(os.Stderr, "  [%s failed: %.200s]\n", fn, t.TransactionOutput)
	}
	return txres{"fail", t.TransactionOutput}
}

// ---------------------------------------------------------------- snapshot

type snap struct {
	S      storagesc.VerifSnapshot
	Wallet uint64
	Bal    []uint64 // client balances
}

func (x *world) snapshot() *snap {
	var bids, vids, cids []string
	for _, b := range x.blob {
		bids = append(bids, b.ID)
	}
	for _, v := range x.val {
		vids = append(vids, v.ID)
	}
	for _, c := range x.cli {
		cids = append(cids, c.ID)
	}
	s := &snap{S: storagesc.VerifStorageSnapshot(x.w.SCtx(), x.allocs, bids, vids, cids)}
	wb, _, _ := x.w.Account(storagesc.ADDRESS)
	s.Wallet = uint64(wb)
	for _, c := range x.cli {
		b, _, _ := x.w.Account(c.ID)
		s.Bal = append(s.Bal, uint64(b))
	}
	return s
}

func spStake(sp storagesc.VerifSP) (stake, rewards uint64) {
	rewards = sp.Reward
	for _, p := range sp.Pools {
		stake += p.Balance
		rewards += p.Reward
	}
	return
}

func (x *world) blobIdx(id string) int {
	for i, b := range x.blob {
		if b.ID == id {
			return i
		}
	}
	return -1
}

func b2i(b bool) int {
	if b {
		return 1
	}
	return 0
}

// render: the canonical accounting line compared with the Lean model (absent nodes are omitted).
//   W=<wallet> T=<now> | A<k>:<owner>:<exp>:<wp>:<cp or ->:<mtc>:<mb>:<size>:<data shards>[b,size,price,cv,used,offer;...] ... | B<i>:cap:allocated:saved:dead:price S:offers:stake:rewards:dead ... | V<i> S:... | R<j>:bal | C<j>:balance
func (x *world) render(s *snap) string {
	var sb strings.Builder
	fmt.Fprintf(&sb, "W=%d T=%d", s.Wallet, int64(x.w.Now))
	sb.WriteString(" |")
	for k, a := range s.S.Allocs {
		if !a.Present && !a.CPPresent {
			continue
		}
		cp := "-"
		if a.CPPresent {
			cp = fmt.Sprint(a.CP)
		}
		if !a.Present {
			fmt.Fprintf(&sb, " A%d:gone:cp=%s", k, cp)
			continue
		}
		own := -1
		for j, c := range x.cli {
			if c.ID == a.Owner {
				own = j
			}
		}
		fmt.Fprintf(&sb, " A%d:%d:%d:%d:%s:%d:%d:%d:%d[", k, own, a.Expiration, a.WritePool, cp, a.MovedToChallenge, a.MovedBack, a.Size, a.DataShards)
		for i, d := range a.BAs {
			if i > 0 {
				sb.WriteString(";")
			}
			fmt.Fprintf(&sb, "%d,%d,%d,%d,%d,%d", x.blobIdx(d.BlobberID), d.Size, d.WritePrice, d.CV, d.UsedSize, d.Offer)
		}
		sb.WriteString("]")
	}
	sb.WriteString(" |")
	spStr := func(sp storagesc.VerifSP) string {
		if !sp.Present {
			return "S:-"
		}
		st, rw := spStake(sp)
		return fmt.Sprintf("S:%d:%d:%d:%d", sp.TotalOffers, st, rw, b2i(sp.Dead))
	}
	for i, b := range s.S.Blobbers {
		if !b.Present && !b.SP.Present {
			continue
		}
		if b.Present {
			fmt.Fprintf(&sb, " B%d:%d:%d:%d:%d:%d %s", i, b.Capacity, b.Allocated, b.SavedData, b2i(b.Killed || b.ShutDown), b.WritePrice, spStr(b.SP))
		} else {
			fmt.Fprintf(&sb, " B%d:- %s", i, spStr(b.SP))
		}
	}
	sb.WriteString(" |")
	for i, v := range s.S.Validators {
		if !v.SP.Present {
			continue
		}
		fmt.Fprintf(&sb, " V%d %s", i, spStr(v.SP))
	}
	sb.WriteString(" |")
	for j, r := range s.S.ReadPools {
		if r.Present {
			fmt.Fprintf(&sb, " R%d:%d", j, r.Balance)
		}
	}
	sb.WriteString(" |")
	for j, b := range s.Bal {
		fmt.Fprintf(&sb, " C%d:%d", j, b)
	}
	return sb.String()
}

// full: everything the oracles need (JSON after the rendered line is not compared with the model; the oracles
// re-run nothing: they parse this).
func sortedKeys(m map[string]string) []string {
	ks := make([]string, 0, len(m))
	for k := range m {
		ks = append(ks, k)
	}
	sort.Strings(ks)
	return ks
}
