// storage harness (C09, C12, C13, C14): histories of real storagesc transactions through the real
// Chain.UpdateState, a snapshot of every allocation / challenge pool / blobber / stake pool / read pool / wallet
// after each of them, the property oracles on those snapshots, and the differential comparison with the Lean
// model driver zdrv-STORAGE (Model/Storage.lean), which replays the same operations with the observed amounts.
package main

import (
	"sync"
	"encoding/json"
	"flag"
	"fmt"
	"os"
	"strings"

	"verifharness/lib/corr"
)

var (
	statMu sync.Mutex
	stats  = map[string]int{}
)

// note: branch statistics of the implementation runs (kind/sub-kind : status), reported in the evidence.
func note(op []string, res string) {
	if len(op) == 0 {
		return
	}
	k := op[0]
	switch op[0] {
	case "upd":
		switch {
		case op[7] != "-":
			k = "upd-replace"
		case op[6] != "-":
			k = "upd-add"
		case op[5] == "1" || op[4] != "0":
			k = "upd-extend"
		}
	case "commit":
		if strings.HasPrefix(op[3], "-") {
			k = "commit-delete"
		}
	case "resp":
		k = "resp-" + op[3]
	case "shutby":
		k = "shutby"
	case "rr":
		if f := strings.Fields(res); len(f) >= 3 {
			k = "rr-" + f[2]
		}
	case "kill", "shut", "stake", "unstake", "collect":
		k = op[0] + "-" + op[1]
	}
	st := strings.Fields(res + " x")[0]
	statMu.Lock()
	stats[k+":"+st]++
	statMu.Unlock()
}

// answer: the full answer line of an executed operation.
func (x *world) answer(res string) string {
	if res == "bad-op" {
		return res
	}
	return res + " # " + x.render(x.snapshot())
}

// realOuts: the implementation's unmasked answers of the most recent runs, keyed by the hash of the operation list
// (the oracles judge these; the lines handed to the differ are masked as described at `impl`).
var (
	realMu   sync.Mutex
	realOuts = map[string][]string{}
)

func opsKey(ops []string) string { return fnv64(strings.Join(ops, "\n")) }

// impl runs a history on the real code. Every recorded line carries the hash of the answer the implementation gave
// when the line was recorded (together with the observed amounts the model replays). If the implementation now
// answers differently — the history was cut by the shrinker and the recorded observations no longer belong to it —
// the line and all later ones are answered `stale`; the Lean driver does the same when ITS answer does not match the
// recorded hash. So a shortened history counts as a disagreement only while its observations are still the real
// ones, and a genuine disagreement (implementation fresh, model different) is always visible.
func impl(ops []string) []string {
	outs := make([]string, len(ops))
	real := make([]string, len(ops))
	var x *world
	stale := false
	chain := ""
	for i, line := range ops {
		op, _, h, pch := splitOpHP(line)
		chain = chainNext(chain, line)
		if len(op) == 3 && op[0] == "init" {
			stale = false
		}
		if pch != "" && pch != chain {
			stale = true // something before this line was cut out of the history
		}
		func() {
			defer func() {
				if r := recover(); r != nil {
					real[i] = fmt.Sprintf("panic %v", r)
				}
			}()
			if len(op) == 0 {
				real[i] = "bad-op"
				return
			}
			if op[0] == "init" {
				stale = false
				if len(op) != 3 {
					real[i] = "bad-op"
					return
				}
				var err error
				x, err = newWorld(op[1], op[2])
				if err != nil {
					real[i] = "init-error " + err.Error()
					x = nil
					return
				}
				real[i] = "ok # " + x.render(x.snapshot())
				return
			}
			if x == nil {
				real[i] = "bad-op"
				return
			}
			x.hist += strings.Join(op, " ") + "\n"
			res := x.run(op)
			if res != "bad-op" {
				note(op, res)
			}
			real[i] = x.answer(res)
		}()
		if h != "" && fnv64(real[i]) != h {
			stale = true
		}
		if stale {
			outs[i] = "stale"
		} else {
			outs[i] = real[i]
		}
	}
	realMu.Lock()
	if len(realOuts) > 4096 {
		realOuts = map[string][]string{}
	}
	realOuts[opsKey(ops)] = real
	realMu.Unlock()
	return outs
}

func propArg() string {
	flag.String("prop", "C12", "which property's oracle and generator bias to use (C09|C12|C13|C14)")
	p := "C12"
	a := os.Args[1:]
	for i := range a {
		if a[i] == "-prop" && i+1 < len(a) {
			p = a[i+1]
		}
		if strings.HasPrefix(a[i], "-prop=") {
			p = strings.TrimPrefix(a[i], "-prop=")
		}
	}
	return p
}

// annotateOps: run a hand-written script (operation lines without observations) on the real engine and return the
// lines with the observed status/amounts appended — the form the correspondence and the replays use.
func annotateOps(lines []string) []string {
	var out []string
	var x *world
	for _, line := range lines {
		op, _ := splitOp(line)
		if len(op) == 3 && op[0] == "init" {
			var err error
			x, err = newWorld(op[1], op[2])
			if err != nil {
				panic(err)
			}
			out = append(out, strings.Join(op, " "))
			x.chain = chainNext("", out[len(out)-1])
			continue
		}
		if x == nil {
			c := ""
			out = append(out, record(&c, op, "bad-op", "bad-op"))
			continue
		}
		x.hist += strings.Join(op, " ") + "\n"
		res := x.run(op)
		out = append(out, record(&x.chain, op, res, x.answer(res)))
	}
	return out
}

func annotate(path string) {
	b, err := os.ReadFile(path)
	if err != nil {
		fmt.Fprintln(os.Stderr, err)
		os.Exit(2)
	}
	var in struct {
		Ops []string `json:"ops"`
	}
	if err := json.Unmarshal(b, &in); err != nil {
		fmt.Fprintln(os.Stderr, err)
		os.Exit(2)
	}
	j, _ := json.MarshalIndent(map[string]interface{}{"ops": annotateOps(in.Ops)}, "", " ")
	fmt.Println(string(j))
}

func main() {
	if f := os.Getenv("STORAGE_ANNOTATE"); f != "" {
		annotate(f)
		return
	}
	p := propArg()
	model := "STORAGE"
	if os.Getenv("STORAGE_NOMODEL") != "" {
		model = ""
	}
	corr.Main(corr.Prop{
		ID: p, Model: model, Gen: gen(p), Impl: impl, Oracle: oracle(p),
		Cases: func(th bool) int {
			if th {
				return 220
			}
			return 36
		},
		Fixed: fixed(),
		Nontrivial: func(ops, outs []string) bool {
			k := map[string]bool{}
			for _, o := range ops {
				k[strings.Fields(o + " x")[0]] = true
			}
			return len(ops) >= 8 && len(k) >= 5
		},
		Extra: func() map[string]interface{} {
			statMu.Lock()
			defer statMu.Unlock()
			m := map[string]interface{}{}
			for k, v := range stats {
				m[k] = v
			}
			return map[string]interface{}{"impl_branch_hist": m}
		},
		DiffSignature: func(d *corr.Disagreement) string {
			if d.FirstDiff >= 0 && d.FirstDiff < len(d.Ops) {
				return p + ":diff:" + strings.Fields(d.Ops[d.FirstDiff] + " x")[0]
			}
			return p + ":diff"
		},
	})
}
