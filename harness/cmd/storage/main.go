// storage harness (C09, C12, C13, C14): histories of real storagesc transactions through the real
// Chain.UpdateState, a snapshot of every allocation / challenge pool / blobber / stake pool / read pool / wallet
// after each of them, the property oracles on those snapshots, and the differential comparison with the Lean
// model driver zdrv-STORAGE (Model/Storage.lean), which replays the same operations with the observed amounts.
package main

import (
	"flag"
	"fmt"
	"os"
	"strings"

	"verifharness/lib/corr"
)

func impl(ops []string) []string {
	outs := make([]string, len(ops))
	var x *world
	for i, line := range ops {
		op, _ := splitOp(line)
		func() {
			defer func() {
				if r := recover(); r != nil {
					outs[i] = fmt.Sprintf("panic %v", r)
				}
			}()
			if len(op) == 0 {
				outs[i] = "bad-op"
				return
			}
			if op[0] == "init" {
				if len(op) != 3 {
					outs[i] = "bad-op"
					return
				}
				var err error
				x, err = newWorld(op[1], op[2] == "1")
				if err != nil {
					outs[i] = "init-error " + err.Error()
					x = nil
					return
				}
				outs[i] = "ok # " + x.render(x.snapshot())
				return
			}
			if x == nil {
				outs[i] = "bad-op"
				return
			}
			x.hist += line + "\n"
			res := x.run(op)
			if res == "bad-op" {
				outs[i] = res
				return
			}
			outs[i] = res + " # " + x.render(x.snapshot())
		}()
	}
	return outs
}

func propArg() string {
	flag.String("prop", "C12", "which property's oracle and generator bias to use (C09|C12|C13|C14)")
	p := "C12"
	a := os.Args[1:]
	for i := range a {
		if a[i] == "-prop" && i+1 < len(a) {
			p = a[i+1]
		}
		if strings.HasPrefix(a[i], "-prop=") {
			p = strings.TrimPrefix(a[i], "-prop=")
		}
	}
	return p
}

func main() {
	p := propArg()
	model := "STORAGE"
	if os.Getenv("STORAGE_NOMODEL") != "" {
		model = ""
	}
	corr.Main(corr.Prop{
		ID: p, Model: model, Gen: gen(p), Impl: impl, Oracle: oracle(p),
		Cases: func(th bool) int {
			if th {
				return 1500
			}
			return 120
		},
		Fixed: fixedCases,
		Nontrivial: func(ops, outs []string) bool {
			k := map[string]bool{}
			for _, o := range ops {
				k[strings.Fields(o + " x")[0]] = true
			}
			return len(ops) >= 8 && len(k) >= 5
		},
		DiffSignature: func(d *corr.Disagreement) string {
			if d.FirstDiff >= 0 && d.FirstDiff < len(d.Ops) {
				return p + ":diff:" + strings.Fields(d.Ops[d.FirstDiff] + " x")[0]
			}
			return p + ":diff"
		},
	})
}
