// storage harness (C09, C12, C13, C14): histories of real storagesc transactions through the real
// Chain.UpdateState, a snapshot of every allocation / challenge pool / blobber / stake pool / read pool / wallet
// after each of them, the property oracles on those snapshots, and the differential comparison with the Lean
// model driver zdrv-STORAGE (Model/Storage.lean), which replays the same operations with the observed amounts.
package main

import (
	"sync"
	"encoding/json"
	"flag"
	"fmt"
	"os"
	"strings"

	"verifharness/lib/corr"
)

var (
	statMu sync.Mutex
	stats  = map[string]int{}
)

// note: branch statistics of the implementation runs (kind/sub-kind : status), reported in the evidence.
func note(op []string, res string) {
	if len(op) == 0 {
		return
	}
	k := op[0]
	switch op[0] {
	case "upd":
		switch {
		case op[7] != "-":
			k = "upd-replace"
		case op[6] != "-":
			k = "upd-add"
		case op[5] == "1" || op[4] != "0":
			k = "upd-extend"
		}
	case "commit":
		if strings.HasPrefix(op[3], "-") {
			k = "commit-delete"
		}
	case "resp":
		k = "resp-" + op[3]
	case "kill", "shut", "stake", "unstake", "collect":
		k = op[0] + "-" + op[1]
	}
	st := strings.Fields(res + " x")[0]
	statMu.Lock()
	stats[k+":"+st]++
	statMu.Unlock()
}

func impl(ops []string) []string {
	outs := make([]string, len(ops))
	var x *world
	for i, line := range ops {
		op, _ := splitOp(line)
		func() {
			defer func() {
				if r := recover(); r != nil {
					outs[i] = fmt.Sprintf("panic %v", r)
				}
			}()
			if len(op) == 0 {
				outs[i] = "bad-op"
				return
			}
			if op[0] == "init" {
				if len(op) != 3 {
					outs[i] = "bad-op"
					return
				}
				var err error
				x, err = newWorld(op[1], op[2] == "1")
				if err != nil {
					outs[i] = "init-error " + err.Error()
					x = nil
					return
				}
				outs[i] = "ok # " + x.render(x.snapshot())
				return
			}
			if x == nil {
				outs[i] = "bad-op"
				return
			}
			x.hist += strings.Join(op, " ") + "\n"
			res := x.run(op)
			if res == "bad-op" {
				outs[i] = res
				return
			}
			note(op, res)
			outs[i] = res + " # " + x.render(x.snapshot())
		}()
	}
	return outs
}

func propArg() string {
	flag.String("prop", "C12", "which property's oracle and generator bias to use (C09|C12|C13|C14)")
	p := "C12"
	a := os.Args[1:]
	for i := range a {
		if a[i] == "-prop" && i+1 < len(a) {
			p = a[i+1]
		}
		if strings.HasPrefix(a[i], "-prop=") {
			p = strings.TrimPrefix(a[i], "-prop=")
		}
	}
	return p
}

// annotateOps: run a hand-written script (operation lines without observations) on the real engine and return the
// lines with the observed status/amounts appended — the form the correspondence and the replays use.
func annotateOps(lines []string) []string {
	var out []string
	var x *world
	for _, line := range lines {
		op, _ := splitOp(line)
		if len(op) == 3 && op[0] == "init" {
			var err error
			x, err = newWorld(op[1], op[2] == "1")
			if err != nil {
				panic(err)
			}
			out = append(out, strings.Join(op, " "))
			continue
		}
		if x == nil {
			out = append(out, strings.Join(op, " ")+" ; bad-op")
			continue
		}
		x.hist += strings.Join(op, " ") + "\n"
		out = append(out, strings.Join(op, " ")+" ; "+x.run(op))
	}
	return out
}

func annotate(path string) {
	b, err := os.ReadFile(path)
	if err != nil {
		fmt.Fprintln(os.Stderr, err)
		os.Exit(2)
	}
	var in struct {
		Ops []string `json:"ops"`
	}
	if err := json.Unmarshal(b, &in); err != nil {
		fmt.Fprintln(os.Stderr, err)
		os.Exit(2)
	}
	j, _ := json.MarshalIndent(map[string]interface{}{"ops": annotateOps(in.Ops)}, "", " ")
	fmt.Println(string(j))
}

func main() {
	if f := os.Getenv("STORAGE_ANNOTATE"); f != "" {
		annotate(f)
		return
	}
	p := propArg()
	model := "STORAGE"
	if os.Getenv("STORAGE_NOMODEL") != "" {
		model = ""
	}
	corr.Main(corr.Prop{
		ID: p, Model: model, Gen: gen(p), Impl: impl, Oracle: oracle(p),
		Cases: func(th bool) int {
			if th {
				return 1500
			}
			return 120
		},
		Fixed: fixed(),
		Nontrivial: func(ops, outs []string) bool {
			k := map[string]bool{}
			for _, o := range ops {
				k[strings.Fields(o + " x")[0]] = true
			}
			return len(ops) >= 8 && len(k) >= 5
		},
		Extra: func() map[string]interface{} {
			statMu.Lock()
			defer statMu.Unlock()
			m := map[string]interface{}{}
			for k, v := range stats {
				m[k] = v
			}
			return map[string]interface{}{"impl_branch_hist": m}
		},
		DiffSignature: func(d *corr.Disagreement) string {
			if d.FirstDiff >= 0 && d.FirstDiff < len(d.Ops) {
				return p + ":diff:" + strings.Fields(d.Ops[d.FirstDiff] + " x")[0]
			}
			return p + ":diff"
		},
	})
}
