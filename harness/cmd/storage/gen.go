// gen.go: history generator. Histories are generated ADAPTIVELY: the generator executes each operation it
// chooses on a real engine world (so that it knows which allocations are open, which challenges exist, what an
// allocation costs) and records, after ';', the observed status and amounts of that execution in the operation line.
// The Lean model driver replays the line with those observed amounts (relational step); the implementation run of
// the correspondence executes the operations again from a fresh world and must observe the same.
package main

import (
	"fmt"
	"math/rand"
	"strings"
	"sync"
)

type genState struct {
	x        *world
	r        *rand.Rand
	ops      []string
	prop     string
	blobbers []int // registered
	dead     map[int]bool
	vals     []int
	chal     map[[2]int]int // (alloc, blobber) -> open challenges the generator knows of
}

func (g *genState) do(format string, a ...interface{}) []string {
	line := fmt.Sprintf(format, a...)
	op := strings.Fields(line)
	g.x.hist += strings.Join(op, " ") + "\n"
	res := g.x.run(op)
	g.ops = append(g.ops, record(&g.x.chain, op, res, g.x.answer(res)))
	return strings.Fields(res)
}

// chalKeys: (allocation, blobber) pairs with an open challenge, in a fixed order.
func (g *genState) chalKeys() [][2]int {
	var keys [][2]int
	for k, n := range g.chal {
		if n > 0 {
			keys = append(keys, k)
		}
	}
	for i := range keys {
		for j := i + 1; j < len(keys); j++ {
			if keys[j][0] < keys[i][0] || keys[j][0] == keys[i][0] && keys[j][1] < keys[i][1] {
				keys[i], keys[j] = keys[j], keys[i]
			}
		}
	}
	return keys
}

func (g *genState) pick(xs []int) int { return xs[g.r.Intn(len(xs))] }

var sizes = []int64{1 << 20, 1<<20 + 1, 3 << 20, 5<<20 + 3, 64 << 20, 1 << 30, 1<<30 + 7, 10 << 30}
var prices = []uint64{1e7, 1e8, 1e9, 1e9, 2e9, 3e9 + 1, 1e10}

var readPrices = []uint64{1e8, 1e8, 1e8, 16384000000, 3e8 + 7, 0} // per GB read; 16384000000 = 1e6 per 64 KiB block

// readRound: read markers around the reader's pool balance. The pool of client j is first brought to a chosen
// position relative to the price of the marker — far above, exactly at, one token short (non-zero), empty, absent or
// as it is — then the marker is redeemed; sometimes a second marker follows (the counter continues), or one that
// repeats the counter (free), or one for a blobber / allocation that does not exist.
func (g *genState) readRound(open []int) {
	r, x := g.r, g.x
	s := x.snapshot()
	k := len(x.allocs)
	if len(x.allocs) > 0 {
		k = r.Intn(len(x.allocs)) // may be closed
	}
	if len(open) > 0 && r.Intn(8) != 0 {
		k = g.pick(open)
	}
	bi := r.Intn(nBlobbers)
	if k < len(s.S.Allocs) && s.S.Allocs[k].Present && r.Intn(10) != 0 {
		a := s.S.Allocs[k]
		bi = x.blobIdx(a.BAs[r.Intn(len(a.BAs))].BlobberID)
	}
	j := r.Intn(nClients)
	n := []int64{1, 7, 100, 16384, 16384*3 + 5, 1000, 3000, 1 << 20, 0}[r.Intn(9)]
	price := readPrice(s, k, x.blob[bi].ID, n)
	bal, has := uint64(0), false
	if rp := s.S.ReadPools[j]; rp.Present {
		bal, has = rp.Balance, true
	}
	setTo := func(target uint64) {
		if bal > target {
			g.do("rpu %d", j)
			bal = 0
		}
		if target > bal {
			g.do("rpl %d %d", j, target-bal)
		}
	}
	switch r.Intn(8) {
	case 0, 1: // exactly the price
		setTo(price)
	case 2, 3: // one token short of the price, but not empty
		if price >= 2 {
			setTo(price - 1)
		}
	case 4: // a small part of the price
		if price >= 10 {
			setTo(price/3 + 1)
		}
	case 5: // plenty
		setTo(2*price + 1e9)
	case 6: // drained
		if has {
			g.do("rpu %d", j)
		}
	}
	g.do("rr %d %d %d %d", k, bi, j, n)
	switch r.Intn(5) {
	case 0:
		g.do("rr %d %d %d %d", k, bi, j, n)
	case 1:
		g.do("rr %d %d %d 0", k, bi, j)
	case 2:
		g.do("rr %d %d %d %d", k, bi, r.Intn(nClients), 1+r.Intn(5000))
	}
}

func (g *genState) openAllocs() []int {
	s := g.x.snapshot()
	var ks []int
	for k, a := range s.S.Allocs {
		if a.Present {
			ks = append(ks, k)
		}
	}
	return ks
}

func (g *genState) alive() []int {
	var out []int
	for _, b := range g.blobbers {
		if !g.dead[b] {
			out = append(out, b)
		}
	}
	return out
}

func (g *genState) setup() {
	r := g.r
	nb := 3 + r.Intn(nBlobbers-2)
	for i := 0; i < nb; i++ {
		cap := int64(100) << 30
		if r.Intn(4) == 0 {
			cap = 11<<30 + int64(r.Intn(1<<20))
		}
		g.do("addb %d %d %d %d %d %d", i, cap, prices[r.Intn(len(prices))], readPrices[r.Intn(len(readPrices))], r.Intn(nClients), []int{0, 100, 250, 500}[r.Intn(4)])
		g.blobbers = append(g.blobbers, i)
		st := uint64(1000e10)
		if r.Intn(5) == 0 {
			st = uint64(1+r.Intn(30)) * 1e10
		}
		g.do("stake b %d %d %d", i, r.Intn(nClients), st)
		if r.Intn(3) == 0 {
			g.do("stake b %d %d %d", i, r.Intn(nClients), uint64(1+r.Intn(50))*1e10)
		}
	}
	nv := 3 + r.Intn(2)
	if r.Intn(10) == 0 {
		nv = r.Intn(3) // too few validators: challenges cannot be generated
	}
	for i := 0; i < nv; i++ {
		g.do("addv %d %d", i, r.Intn(nClients))
		g.vals = append(g.vals, i)
		if r.Intn(8) != 0 {
			g.do("stake v %d %d %d", i, r.Intn(nClients), uint64(2+r.Intn(20))*1e10)
		}
	}
}

func (g *genState) newAlloc() {
	r := g.r
	al := g.alive()
	if len(al) < 2 {
		return
	}
	r.Shuffle(len(al), func(i, j int) { al[i], al[j] = al[j], al[i] })
	data := 1 + r.Intn(3)
	parity := 1 + r.Intn(2)
	if data+parity > len(al) {
		data, parity = 1, 1
	}
	n := data + parity
	if r.Intn(4) == 0 && n < len(al) {
		n++ // one spare blobber in the request
	}
	size := sizes[r.Intn(len(sizes))]
	// cost = sum price * sizeGB over the chosen blobbers
	s := g.x.snapshot()
	var cost float64
	bsz := float64((size + int64(data) - 1) / int64(data))
	for _, b := range al[:data+parity] {
		cost += float64(s.S.Blobbers[b].WritePrice) * bsz / GiB
	}
	value := uint64(cost) + 1
	switch r.Intn(6) {
	case 0:
		value = uint64(cost * 3)
	case 1:
		value = uint64(cost) + uint64(r.Intn(1000))
	case 2:
		if value > 2 {
			value = value / 2 // underfunded: must fail
		}
	}
	var bl []string
	for _, b := range al[:n] {
		bl = append(bl, fmt.Sprint(b))
	}
	if r.Intn(7) == 0 { // a blobber named twice (the request must be rejected)
		p := r.Intn(len(bl))
		q := r.Intn(len(bl) + 1)
		bl = append(bl[:q], append([]string{bl[p]}, bl[q:]...)...)
	}
	g.do("newa %d %d %d %d %d %s", r.Intn(nClients), data, parity, size, value, strings.Join(bl, ","))
}

func (g *genState) step() {
	r := g.r
	x := g.x
	open := g.openAllocs()
	s := x.snapshot()
	w := r.Intn(100)
	bias := map[string]int{"C12": 0, "C13": 1, "C14": 2, "C09": 3}[g.prop]
	if rd := r.Intn(100); rd < 4 || g.prop == "C09" && rd < 14 {
		g.readRound(open)
		return
	}
	switch {
	case w < 8 || len(open) == 0 && w < 40:
		if len(x.allocs) < 4 {
			g.newAlloc()
			return
		}
		g.do("tick %d %d 1", 600+r.Intn(7200), 1+r.Intn(5))
	case w < 30 && len(open) > 0: // upload / delete
		k := g.pick(open)
		a := s.S.Allocs[k]
		d := a.BAs[r.Intn(len(a.BAs))]
		bi := x.blobIdx(d.BlobberID)
		var sz int64
		switch r.Intn(6) {
		case 0:
			sz = -(d.UsedSize / int64(1+r.Intn(3)))
		case 1:
			sz = d.Size - d.UsedSize // fill completely
		case 2:
			sz = d.Size - d.UsedSize + 1 // exceeds
		case 3:
			sz = int64(1 + r.Intn(70000))
		default:
			room := d.Size - d.UsedSize
			if room > 0 {
				sz = 1 + r.Int63n(room)
			}
		}
		g.do("commit %d %d %d", k, bi, sz)
		if r.Intn(12) == 0 { // many tiny write markers, each charged a whole chunk: drains the write pool
			for t, n := 0, 8+r.Intn(40); t < n; t++ {
				g.do("commit %d %d %d", k, bi, 1+r.Intn(50))
			}
		}
	case w < 40: // time
		switch r.Intn(10) {
		case 0:
			g.do("tick %d %d %d", 31*86400, 1+r.Intn(5), r.Intn(2)) // beyond expiry
		case 1:
			g.do("tick %d %d 1", 3600, 1300) // challenge completion rounds exceeded
		case 2, 3:
			g.do("tick %d %d 1", 86400*(1+r.Intn(12)), 1+r.Intn(40))
		default:
			g.do("tick %d %d 1", 600+r.Intn(7200), 1+r.Intn(5))
		}
	case w < 52 && len(open) > 0: // a challenge round: generate a few, answer most of them
		n := 1 + r.Intn(3)
		for t := 0; t < n; t++ {
			res := g.do("genc")
			if len(res) == 2 && res[0] == "ok" && res[1] != "none" {
				var k, b int
				fmt.Sscanf(res[1], "%d:%d", &k, &b)
				g.chal[[2]int{k, b}]++
			}
		}
		for _, kb := range g.chalKeys() {
			if r.Intn(4) == 0 {
				continue
			}
			verdict := "pass"
			if r.Intn(3) == 0 { // pass rates strictly between 0 and 1 need both verdicts on one blobber
				verdict = "fail"
			}
			g.do("resp %d %d %s", kb[0], kb[1], verdict)
			g.chal[kb] = 0
		}
	case w < 58 && len(g.chal) > 0:
		keys := g.chalKeys()
		if len(keys) == 0 {
			g.do("genc")
			return
		}
		kb := keys[r.Intn(len(keys))]
		verdict := "pass"
		if r.Intn(4) == 0 {
			verdict = "fail"
		}
		g.do("resp %d %d %s", kb[0], kb[1], verdict)
		g.chal[kb] = 0 // answering the newest one retires the older ones
	case w < 70+3*b2i(bias == 1) && len(open) > 0: // update allocation
		k := g.pick(open)
		a := s.S.Allocs[k]
		owner := 0
		for j, c := range x.cli {
			if c.ID == a.Owner {
				owner = j
			}
		}
		caller := fmt.Sprintf("c%d", owner)
		if r.Intn(8) == 0 {
			caller = fmt.Sprintf("c%d", r.Intn(nClients)) // third party
		}
		in := map[int]bool{}
		for _, d := range a.BAs {
			in[x.blobIdx(d.BlobberID)] = true
		}
		var cand []int
		for _, b := range g.alive() {
			if !in[b] {
				cand = append(cand, b)
			}
		}
		add, rem := "-", "-"
		size, ext := int64(0), 0
		value := uint64(0)
		if r.Intn(4) == 0 { // one of the allocation's blobbers re-prices first
			d := a.BAs[r.Intn(len(a.BAs))]
			g.do("updb %d - %d", x.blobIdx(d.BlobberID), prices[r.Intn(len(prices))])
		}
		switch m := r.Intn(10); {
		case m < 3: // extend
			ext = 1
			if r.Intn(2) == 0 {
				size = sizes[r.Intn(len(sizes))] / int64(1+r.Intn(4))
			}
		case m < 5 && len(cand) > 0: // add
			add = fmt.Sprint(g.pick(cand))
			if r.Intn(3) == 0 {
				ext = 1
			}
		case m < 9 && len(cand) > 0: // replace
			add = fmt.Sprint(g.pick(cand))
			d := a.BAs[r.Intn(len(a.BAs))]
			rem = fmt.Sprint(x.blobIdx(d.BlobberID))
			// prefer a live blobber with a challenge history (pass rate below 1), or a dead one if there is one
			for _, e := range a.BAs {
				if e.Total > 0 && e.Failed > 0 && r.Intn(2) == 0 {
					rem = fmt.Sprint(x.blobIdx(e.BlobberID))
				}
			}
			for _, e := range a.BAs {
				if g.dead[x.blobIdx(e.BlobberID)] && r.Intn(4) != 0 {
					rem = fmt.Sprint(x.blobIdx(e.BlobberID))
				}
			}
			if r.Intn(4) == 0 {
				ext = 1
			}
		default:
			size = int64(r.Intn(3)) * (1 << 20)
			ext = r.Intn(2)
		}
		if r.Intn(2) == 0 {
			// enough to cover any new cost
			var cost float64
			for _, d := range a.BAs {
				cost += float64(d.WritePrice) * float64(d.Size+size) / GiB
			}
			value = uint64(cost*2) + 1e9
		} else if r.Intn(3) == 0 {
			value = uint64(r.Intn(1e9))
		}
		g.do("upd %d %s %d %d %d %s %s", k, caller, value, size, ext, add, rem)
	case w < 72+2*b2i(bias != 2): // kill / shutdown
		al := g.blobbers
		if len(al) == 0 {
			return
		}
		b := g.pick(al)
		switch r.Intn(8) {
		case 0:
			if len(g.vals) > 0 {
				g.do("kill v %d", g.pick(g.vals))
			}
		case 1:
			if r.Intn(2) == 0 {
				res := g.do("shutby %d %d", b, r.Intn(nClients))
				if len(res) > 0 && res[0] == "ok" {
					g.dead[b] = true
				}
			} else {
				g.do("shut b %d", b)
				g.dead[b] = true
			}
		default:
			// blobbers serving an open allocation are the interesting ones
			for _, k := range open {
				for _, d := range s.S.Allocs[k].BAs {
					if r.Intn(3) == 0 {
						b = x.blobIdx(d.BlobberID)
					}
				}
			}
			g.do("kill b %d", b)
			g.dead[b] = true
		}
	case w < 90+4*b2i(bias == 2): // close
		k := 0
		if len(x.allocs) > 0 {
			k = r.Intn(len(x.allocs))
		}
		if len(open) > 0 && r.Intn(3) != 0 {
			k = g.pick(open)
		}
		caller := fmt.Sprintf("c%d", r.Intn(nClients))
		if k < len(s.S.Allocs) && s.S.Allocs[k].Present {
			a := s.S.Allocs[k]
			switch r.Intn(4) {
			case 0, 1:
				for j, c := range x.cli {
					if c.ID == a.Owner {
						caller = fmt.Sprintf("c%d", j)
					}
				}
			case 2:
				caller = fmt.Sprintf("b%d", x.blobIdx(a.BAs[r.Intn(len(a.BAs))].BlobberID))
			}
		} else if r.Intn(3) == 0 && len(g.blobbers) > 0 {
			caller = fmt.Sprintf("b%d", g.pick(g.blobbers))
		}
		verb := "fin"
		if r.Intn(2) == 0 {
			verb = "cancel"
		}
		if verb == "fin" && k < len(s.S.Allocs) && s.S.Allocs[k].Present && s.S.Allocs[k].Expiration > x.now() && r.Intn(2) == 0 {
			late := int64(r.Intn(3))
			switch r.Intn(4) {
			case 0:
				late = 100
			case 1:
				late = int64(timeUnit) // a whole duration late
			}
			g.do("tick %d %d %d", s.S.Allocs[k].Expiration-x.now()+late, 1+r.Intn(3), 1)
		}
		g.do("%s %d %s", verb, k, caller)
		if r.Intn(3) == 0 { // and again
			g.do("%s %d %s", []string{"fin", "cancel"}[r.Intn(2)], k, caller)
		}
	default:
		switch r.Intn(9) {
		case 0, 1:
			k := 0
			if len(x.allocs) > 0 {
				k = r.Intn(len(x.allocs) + 1)
			}
			g.do("wpl %d %d %d", k, r.Intn(nClients), []uint64{1e9, 5e9, 1e9 - 1, 123456789012, 0}[r.Intn(5)])
		case 2:
			g.do("rpl %d %d", r.Intn(nClients), []uint64{1e9, 1, 0, 7e10}[r.Intn(4)])
		case 3:
			g.do("rpu %d", r.Intn(nClients))
		case 4, 5:
			if r.Intn(3) == 0 && len(g.vals) > 0 {
				g.do("collect v %d %d", g.pick(g.vals), r.Intn(nClients))
			} else if len(g.blobbers) > 0 {
				g.do("collect b %d %d", g.pick(g.blobbers), r.Intn(nClients))
			}
		case 6:
			if len(g.blobbers) > 0 {
				g.do("unstake b %d %d", g.pick(g.blobbers), r.Intn(nClients))
			}
		case 7:
			if len(g.blobbers) > 0 {
				g.do("stake b %d %d %d", g.pick(g.blobbers), r.Intn(nClients), uint64(1+r.Intn(100))*1e10)
			}
		case 8:
			if len(g.blobbers) > 0 {
				b := g.pick(g.blobbers)
				capS, wpS := "-", "-"
				if r.Intn(2) == 0 {
					capS = fmt.Sprint(int64(11+r.Intn(200)) << 30)
				}
				if r.Intn(3) != 0 {
					wpS = fmt.Sprint(prices[r.Intn(len(prices))])
				}
				g.do("updb %d %s %s", b, capS, wpS)
			}
		}
	}
}

func gen(prop string) func(r *rand.Rand, thorough bool, i int) []string {
	return func(r *rand.Rand, thorough bool, i int) []string {
		tag := fmt.Sprintf("g%d-%d", r.Int63(), i)
		mode := "1"
		if r.Intn(12) == 0 {
			mode = "2" // num_validators_rewarded = 0
		}
		init := fmt.Sprintf("init %s %s", tag, mode)
		x, err := newWorld(tag, mode)
		if err != nil {
			return []string{init}
		}
		x.chain = chainNext("", init)
		g := &genState{x: x, r: r, ops: []string{init}, prop: prop, dead: map[int]bool{}, chal: map[[2]int]int{}}
		g.setup()
		g.newAlloc()
		n := 25 + r.Intn(40)
		if thorough {
			n = 40 + r.Intn(160)
		}
		for k := 0; k < n; k++ {
			g.step()
		}
		// close everything that is still open, owner first after expiry (so that every history exercises a close)
		if r.Intn(3) != 0 {
			for _, k := range g.openAllocs() {
				s := x.snapshot()
				a := s.S.Allocs[k]
				own := 0
				for j, c := range x.cli {
					if c.ID == a.Owner {
						own = j
					}
				}
				if r.Intn(2) == 0 {
					g.do("cancel %d c%d", k, own)
				} else {
					if a.Expiration > x.now() {
						g.do("tick %d 2 1", a.Expiration-x.now()+1)
					}
					g.do("fin %d c%d", k, own)
				}
				g.do("wpl %d %d 1000000000", k, own)
			}
		}
		return g.ops
	}
}

// scripts: fixed histories that run before the generated ones — the replays of the Lean negation witnesses on the
// real code, the confirmed findings, boundary cases, and a malformed stream. They are annotated with the observed
// amounts at start-up (same execution path as the generated histories).
var scripts = [][]string{
	// replace-killed: C12/C13/C09 witness (Props/C12 `cp_eq_sum_false`): replace a killed blobber, then cancel
	{"init fx-replace-killed 1",
		"addb 0 107374182400 1000000000 100000000 0 100", "addb 1 107374182400 1000000000 100000000 1 100", "addb 2 107374182400 2000000000 100000000 2 100",
		"addv 0 0", "addv 1 1", "addv 2 2",
		"stake b 0 0 1000000000000", "stake b 1 1 1000000000000", "stake b 2 2 1000000000000",
		"stake v 0 3 100000000000", "stake v 1 3 100000000000", "stake v 2 3 100000000000",
		"newa 3 1 1 1073741824 100000000000 0,1", "commit 0 0 104857600", "commit 0 1 104857600", "tick 3600 5 1",
		"wpl 0 3 5000000000", "upd 0 c3 0 1073741824 1 - -", "kill b 1", "upd 0 c3 0 0 0 2 1",
		"cancel 0 c2", "cancel 0 c3", "cancel 0 c3", "wpl 0 3 5000000000", "fin 0 c3", "commit 0 0 1024"},
	// challenges: pass, fail, penalty after a failed one, delete, collect, finalize by a blobber, second finalize
	{"init fx-challenges 1",
		"addb 0 107374182400 1000000000 100000000 0 100", "addb 1 107374182400 1000000000 100000000 1 100", "addb 2 107374182400 2000000000 100000000 2 100",
		"addv 0 0", "addv 1 1", "addv 2 2",
		"stake b 0 0 1000000000000", "stake b 1 1 1000000000000", "stake b 2 2 1000000000000",
		"stake v 0 3 100000000000", "stake v 1 3 100000000000", "stake v 2 3 100000000000",
		"newa 3 1 1 1073741824 100000000000 0,1", "commit 0 0 104857600", "commit 0 1 104857600",
		"tick 86400 5 1", "genc", "resp 0 0 pass", "resp 0 1 pass",
		"tick 86400 5 1", "genc", "resp 0 0 fail", "resp 0 1 fail",
		"tick 86400 5 1", "genc", "genc", "genc", "resp 0 0 pass", "resp 0 1 pass",
		"commit 0 0 -52428800", "collect b 0 0", "collect v 0 0", "collect v 0 3",
		"tick 2592000 5 1", "fin 0 b1", "fin 0 c3"},
	// rekill: a second kill_blobber zeroes TotalOffers; the allocation can no longer be closed (C13 finding)
	{"init fx-rekill 1",
		"addb 0 107374182400 1000000000 100000000 0 100", "addb 1 107374182400 1000000000 100000000 1 100",
		"stake b 0 0 1000000000000", "stake b 1 1 1000000000000",
		"newa 3 1 1 1073741824 100000000000 0,1", "kill b 1", "kill b 1", "cancel 0 c3",
		"tick 2678400 2 1", "fin 0 c3", "fin 0 b0", "unstake b 1 1"},
	// closing exactly at the expiration second: both cancel and finalize are admitted by the code
	{"init fx-boundary 1",
		"addb 0 107374182400 1000000000 100000000 0 0", "addb 1 107374182400 1000000000 100000000 1 0",
		"stake b 0 0 1000000000000", "stake b 1 1 1000000000000",
		"newa 2 1 1 1048577 1000000000 0,1", "newa 2 1 1 1048577 1000000000 0,1",
		"tick 2591999 1 1", "fin 0 c2", "tick 1 1 1", "fin 0 c1", "fin 0 c2", "cancel 1 c2", "cancel 1 c2", "rpl 2 1000000000", "rpu 2", "rpu 2"},
	// extend-uneven: Props/C13 `extend_nonuniform_breaks_alloc`: sizes 524289 -> extend by 1 -> 524290; added blobber gets
	// 524289; the next extend sets every size to 524290 but leaves the added blobber's Allocated at 524289; after the
	// close its Allocated is -1
	{"init fx-extend-uneven 1",
		"addb 0 107374182400 1000000000 100000000 0 100", "addb 1 107374182400 1000000000 100000000 1 100",
		"addb 2 107374182400 1000000000 100000000 2 100", "addb 3 107374182400 1000000000 100000000 2 100",
		"stake b 0 0 1000000000000", "stake b 1 1 1000000000000", "stake b 2 1 1000000000000", "stake b 3 1 1000000000000",
		"newa 3 2 1 1048577 100000000000 0,1,2", "upd 0 c3 0 1 1 - -", "upd 0 c3 0 0 0 3 -", "upd 0 c3 0 0 1 - -", "cancel 0 c3"},
	// late-finalize with a pass rate strictly between 0 and 1: blobber 1 passes one challenge and fails one; finalize 100 s
	// and one duration after expiry: it must be paid value x pass rate, the owner gets the unearned rest
	{"init fx-passrate-late 1",
		"addb 0 107374182400 1000000000 100000000 0 100", "addb 1 107374182400 1000000000 100000000 1 100",
		"addv 0 0", "addv 1 1", "addv 2 2",
		"stake b 0 0 1000000000000", "stake b 1 1 1000000000000",
		"stake v 0 3 100000000000", "stake v 1 3 100000000000", "stake v 2 3 100000000000",
		"newa 3 1 1 1073741824 100000000000 0,1", "newa 3 1 1 1073741824 100000000000 0,1",
		"commit 0 0 104857600", "commit 0 1 104857600", "commit 1 0 104857600", "commit 1 1 104857600",
		"tick 86400 5 1", "genc", "genc", "genc", "genc", "resp 0 0 pass", "resp 0 1 pass", "resp 1 0 pass", "resp 1 1 pass",
		"tick 86400 5 1", "genc", "genc", "genc", "genc", "resp 0 0 fail", "resp 0 1 fail", "resp 1 0 fail", "resp 1 1 fail",
		"tick 2419300 5 1", "fin 0 c3", "tick 2592000 5 1", "fin 1 c3", "fin 1 b0"},
	// pass rate strictly between 0 and 1, then the LIVE blobber is replaced: reward + the rest of its value leave the pool
	{"init fx-passrate-replace 1",
		"addb 0 107374182400 1000000000 100000000 0 100", "addb 1 107374182400 1000000000 100000000 1 100", "addb 2 107374182400 1000000000 100000000 2 100",
		"addv 0 0", "addv 1 1", "addv 2 2",
		"stake b 0 0 1000000000000", "stake b 1 1 1000000000000", "stake b 2 2 1000000000000",
		"stake v 0 3 100000000000", "stake v 1 3 100000000000", "stake v 2 3 100000000000",
		"newa 3 1 1 1073741824 100000000000 0,1", "commit 0 0 104857600", "commit 0 1 104857600",
		"tick 86400 5 1", "genc", "genc", "resp 0 0 pass", "resp 0 1 pass",
		"tick 86400 5 1", "genc", "genc", "resp 0 0 fail", "resp 0 1 fail",
		"tick 432000 5 1", "upd 0 c3 0 0 0 2 1", "tick 86400 5 1", "upd 0 c3 0 0 1 1 0", "cancel 0 c3"},
	// an allocation funded with exactly its cost; write markers of 1 byte are charged a whole 64 KiB chunk each, so the
	// write pool runs dry and `upload` clamps the move to what is left
	{"init fx-tiny-uploads 1",
		"addb 0 107374182400 1000000000 100000000 0 100", "addb 1 107374182400 1000000000 100000000 1 100",
		"stake b 0 0 1000000000000", "stake b 1 1 1000000000000",
		"newa 3 1 1 1048576 1953124 0,1", "commit 0 0 1", "commit 0 0 1", "commit 0 0 1", "commit 0 0 1", "commit 0 0 1", "commit 0 0 1", "commit 0 0 1", "commit 0 0 1", "commit 0 0 1", "commit 0 0 1", "commit 0 0 1", "commit 0 0 1", "commit 0 0 1", "commit 0 0 1", "commit 0 0 1", "commit 0 0 1", "commit 0 0 1", "commit 0 0 1", "commit 0 0 1", "commit 0 0 1", "commit 0 0 1", "commit 0 0 1", "commit 0 0 1", "commit 0 0 1", "commit 0 0 1", "commit 0 0 1", "commit 0 0 1", "commit 0 0 1", "commit 0 0 1", "commit 0 0 1", "commit 0 0 1", "commit 0 0 1", "commit 0 0 1", "commit 0 0 1", "commit 0 0 1", "commit 0 0 1", "commit 0 1 1", "cancel 0 c3"},
	// cv-underflow (minimized from the thorough run of seed 11): upload and delete leave blobber 1 with used data and a
	// challenge value of 0; it lowers its price; the extend's adjustChallengePool decrements the value below zero
	// (allocation.go 812, unchecked uint64): Props/C12 `extend_wrap_breaks`
	{"init fx-cv-underflow 1",
		"addb 0 107374182400 1000000000 100000000 0 100", "addb 1 107374182400 1000000000 100000000 1 100",
		"stake b 0 0 1000000000000", "stake b 1 1 1000000000000",
		"newa 3 1 1 3145728 100000000 0,1", "commit 0 0 1381193", "commit 0 1 26177", "commit 0 1 -13088",
		"updb 1 - 100000000", "upd 0 c3 10000000000 5368709120 1 - -", "tick 86400 3 1", "genc", "cancel 0 c3"},
	// cv-wrap-back (from the thorough run of seed 12): after such an underflow the blobber raises its price again and
	// the next extend INCREMENTS the wrapped value (allocation.go 803, unchecked `+=`): it passes 2^64 and comes back small
	{"init fx-cv-wrap-back 1",
		"addb 0 107374182400 1000000000 100000000 0 100", "addb 1 107374182400 1000000000 100000000 1 100",
		"stake b 0 0 1000000000000", "stake b 1 1 1000000000000",
		"newa 3 1 1 3145728 100000000 0,1", "commit 0 0 1381193", "commit 0 1 26177", "commit 0 1 -13088",
		"updb 1 - 100000000", "upd 0 c3 10000000000 5368709120 1 - -", "updb 1 - 10000000000",
		"upd 0 c3 100000000000 1048576 1 - -", "upd 0 c3 0 0 1 - -", "cancel 0 c3"},
	// num_validators_rewarded = 0 (init mode 2): a passed challenge leaves the validators' share in the pool
	{"init fx-no-validators-rewarded 2",
		"addb 0 107374182400 1000000000 100000000 0 100", "addb 1 107374182400 1000000000 100000000 1 100",
		"addv 0 0", "addv 1 1", "addv 2 2",
		"stake b 0 0 1000000000000", "stake b 1 1 1000000000000",
		"stake v 0 3 100000000000", "stake v 1 3 100000000000", "stake v 2 3 100000000000",
		"newa 3 1 1 1073741824 100000000000 0,1", "commit 0 0 104857600", "commit 0 1 104857600",
		"tick 86400 5 1", "genc", "genc", "resp 0 0 pass", "resp 0 1 pass", "tick 86400 5 1", "cancel 0 c3"},
	// shutdown_blobber by a stranger, by the delegate wallet, and again on the dead blobber (authorisation comes first)
	{"init fx-shutby 1",
		"addb 0 107374182400 1000000000 100000000 0 100", "addb 1 107374182400 1000000000 100000000 1 100",
		"stake b 0 0 1000000000000", "stake b 1 1 1000000000000",
		"newa 3 1 1 1073741824 100000000000 0,1", "shutby 1 2", "shutby 1 1", "shutby 1 2", "shutby 1 1", "shut b 1", "cancel 0 c3"},
	// price change, then extend: the offer delta must use the OLD terms for the share already held
	{"init fx-reprice-extend 1",
		"addb 0 107374182400 1000000000 100000000 0 100", "addb 1 107374182400 1000000000 100000000 1 100",
		"stake b 0 0 1000000000000", "stake b 1 1 1000000000000",
		"newa 3 1 1 3221225473 100000000000 0,1", "updb 0 - 3000000001", "upd 0 c3 100000000000 0 1 - -",
		"updb 1 - 500000000", "upd 0 c3 0 1073741824 1 - -", "cancel 0 c3"},
	// a request naming a blobber twice (with and without enough distinct ones): rejected
	{"init fx-duplicate-blobber 1",
		"addb 0 107374182400 1000000000 100000000 0 100", "addb 1 107374182400 1000000000 100000000 1 100", "addb 2 107374182400 1000000000 100000000 2 100",
		"stake b 0 0 1000000000000", "stake b 1 1 1000000000000", "stake b 2 2 1000000000000",
		"newa 3 1 1 1073741824 100000000000 0,0", "newa 3 1 1 1073741824 100000000000 1,1,2", "newa 3 2 1 1073741824 100000000000 0,1,1,2",
		"newa 3 1 1 1073741824 100000000000 2,0,0", "newa 3 1 1 1073741824 100000000000 0,1"},
	// first write marker of a blobber at exactly the expiration second, another blobber holding challenge value:
	// finalize fails for ever (0/0 in challengeRewardOnFinalization, models.go 617-631) — outside the four properties'
	// texts; kept as a boundary case: the model takes the failure as observed
	{"init fx-nan-at-expiry 1",
		"addb 0 107374182400 1000000000 100000000 0 100", "addb 1 107374182400 1000000000 100000000 1 100",
		"stake b 0 0 1000000000000", "stake b 1 1 1000000000000",
		"newa 3 1 1 1073741824 100000000000 0,1", "commit 0 1 104857600", "tick 2592000 2 1", "commit 0 0 104857600",
		"tick 10 2 1", "fin 0 c3", "fin 0 b0", "cancel 0 c3"},
	// the read path at the boundary (1e6 per 64 KiB block): a reader without a pool; a marker with counter 0; markers priced
	// below, exactly at, one block above a NON-EMPTY pool and far above it (pool 0.3 token, marker 1 token); an empty
	// pool; a repeated counter (free); a second blobber's own counter; a blobber outside the allocation; an absent
	// allocation; a killed blobber (pool debited, nobody credited); after expiry; after the close
	{"init fx-read-path 1",
		"addb 0 107374182400 1000000000 16384000000 0 100", "addb 1 107374182400 1000000000 16384000000 1 100",
		"addb 2 107374182400 1000000000 0 2 100",
		"stake b 0 0 1000000000000", "stake b 1 1 1000000000000", "stake b 2 1 1000000000000",
		"newa 3 1 1 1073741824 100000000000 0,1",
		"rr 0 0 2 1000", "rr 0 0 2 0", "rpl 2 3000000000", "rr 0 0 2 1000", "rr 0 0 2 2000", "rr 0 0 2 1",
		"rpl 2 3000000000", "rr 0 0 2 3001", "rr 0 0 2 10000", "rr 0 1 2 3000", "rr 0 0 2 0", "rr 0 2 2 5", "rr 7 0 2 5",
		"rr 0 0 1 0", "rr 0 0 3 1", "collect b 0 0", "collect b 1 1",
		"kill b 1", "rpl 2 1000000000", "rr 0 1 2 500", "rr 0 1 2 501",
		"newa 1 1 1 1048576 10000000000 2,0", "rr 1 2 2 100000", "rr 1 2 0 100000",
		"tick 2592001 2 1", "rr 0 0 2 1", "fin 0 c3", "rr 0 0 2 1", "rpu 2", "rr 1 0 2 1", "rr 1 0 2 4294967297"},
	// malformed stream: both sides must answer bad-op and keep their state
	{"init fx-malformed 1", "addb 0 107374182400 1000000000 100000000 0 100", "frobnicate 1 2", "commit 0", "addb 9 1 1 1 0 0",
		"addb x 1 1 1 0 0", "stake q 0 0 5", "newa 0 1 1 1048576 5 0,7", "upd 0 z3 0 0 0 - -", "fin 0", "fin 0 c9", "tick 1 1 2",
		"commit 0 0 99999999999999999999", "resp 0 0 maybe", "shut v 0", "wpl 0 4 1", "stake b 0 0 10000000000", ""},
}

var (
	fixedOnce sync.Once
	fixedMem  [][]string
)

func fixed() [][]string {
	fixedOnce.Do(func() {
		for _, sc := range scripts {
			fixedMem = append(fixedMem, annotateOps(sc))
		}
	})
	return fixedMem
}
