package main

import "math/rand"

func gen(prop string) func(r *rand.Rand, thorough bool, i int) []string {
	return func(r *rand.Rand, thorough bool, i int) []string { return []string{"init x 1"} }
}

var fixedCases [][]string
