// ops.go: one operation line -> real storagesc transactions; returns status and the OBSERVED amounts that the
// relational Lean step takes as parameters (derived from the snapshots before/after the transaction).
package main

import (
	"encoding/json"
	"fmt"
	"strconv"
	"strings"

	"0chain.net/core/common"
	"0chain.net/core/encryption"
	"0chain.net/smartcontract/storagesc"
)

const (
	GiB      = 1 << 30
	timeUnit = 720 * 3600 // storagesc.time_unit of the repo's sc.yaml, seconds
)

func atoi(s string) int        { n, _ := strconv.Atoi(s); return n }
func atou(s string) uint64     { n, _ := strconv.ParseUint(s, 10, 64); return n }
func atoi64(s string) int64    { n, _ := strconv.ParseInt(s, 10, 64); return n }
func (x *world) now() int64    { return int64(x.w.Now) }
func errClass(out string) string {
	// error CLASS of a failed call: the code before ':' of common.NewError messages
	if i := strings.IndexByte(out, ':'); i > 0 && i < 48 {
		return strings.ReplaceAll(out[:i], " ", "_")
	}
	if len(out) > 24 {
		out = out[:24]
	}
	return strings.ReplaceAll(out, " ", "_")
}

// closeFailure: the reason CLASS of a rejected finalize/cancel.
func closeFailure(out string) string {
	switch {
	case strings.Contains(out, "error removing offer"):
		return "offer-underflow"
	case strings.Contains(out, "unknown finalization initiator"), strings.Contains(out, "only owner can cancel"):
		return "unauthorised"
	case strings.Contains(out, "not expired yet"):
		return "not-expired"
	case strings.Contains(out, "trying to cancel expired"):
		return "expired"
	case strings.Contains(out, "value not present"):
		return "absent"
	}
	return "other:" + errClass(out)
}

// splitOp separates the operation from the recorded observations ("op args ; obs [h=<hash>]"). The optional last
// token h=<16 hex> is the FNV-1a hash of the implementation's full answer line when the line was recorded.
func splitOp(line string) (op []string, obs []string) {
	op, obs, _ = splitOpH(line)
	return
}

func splitOpH(line string) (op []string, obs []string, h string) {
	op, obs, h, _ = splitOpHP(line)
	return
}

// splitOpHP also returns the chain token p=<16 hex>: the hash of (previous line's p, this line's text without p).
func splitOpHP(line string) (op []string, obs []string, h, p string) {
	parts := strings.SplitN(line, ";", 2)
	op = strings.Fields(parts[0])
	if len(parts) == 2 {
		obs = strings.Fields(parts[1])
		if n := len(obs); n > 0 && strings.HasPrefix(obs[n-1], "p=") {
			p = obs[n-1][2:]
			obs = obs[:n-1]
		}
		if n := len(obs); n > 0 && strings.HasPrefix(obs[n-1], "h=") {
			h = obs[n-1][2:]
			obs = obs[:n-1]
		}
	}
	return
}

// chainText: the text of a line that its chain hash covers (all tokens but p=, single-spaced; as the Lean driver).
func chainText(line string) string {
	var keep []string
	for _, t := range strings.Fields(line) {
		if !strings.HasPrefix(t, "p=") {
			keep = append(keep, t)
		}
	}
	return strings.Join(keep, " ")
}

// chainNext: the chain value after a line (an init line starts a new chain).
func chainNext(prev, line string) string {
	f := strings.Fields(line)
	if len(f) == 3 && f[0] == "init" {
		return fnv64(chainText(line))
	}
	return fnv64(prev + "|" + chainText(line))
}

// fnv64 is FNV-1a over the bytes of s (the Lean driver computes the same).
func fnv64(s string) string {
	h := uint64(14695981039346656037)
	for i := 0; i < len(s); i++ {
		h ^= uint64(s[i])
		h *= 1099511628211
	}
	return fmt.Sprintf("%016x", h)
}

// record: the operation line as the histories store it: operation ; observed status and amounts ; hash of the
// answer ; chain hash. `chain` is the chain value before the line and is advanced.
func record(chain *string, op []string, res, answer string) string {
	text := strings.Join(strings.Fields(strings.Join(op, " ")+" ; "+res+" h="+fnv64(answer)), " ")
	*chain = chainNext(*chain, text)
	return text + " p=" + *chain
}

func (x *world) provider(kind string, i int) (*actor, int) {
	if kind == "v" {
		if i < 0 || i >= nValidators {
			return nil, 0
		}
		return x.val[i], 4
	}
	if i < 0 || i >= nBlobbers {
		return nil, 0
	}
	return x.blob[i], 3
}

func (x *world) caller(s string) *actor {
	if len(s) < 2 {
		return nil
	}
	i := atoi(s[1:])
	switch s[0] {
	case 'c':
		if i < nClients {
			return x.cli[i]
		}
	case 'b':
		if i < nBlobbers {
			return x.blob[i]
		}
	case 'v':
		if i < nValidators {
			return x.val[i]
		}
	case 'o':
		return x.owner
	}
	return nil
}

func (x *world) allocID(k int) string {
	if k >= 0 && k < len(x.allocs) {
		return x.allocs[k]
	}
	return encryption.Hash(fmt.Sprintf("verif-no-such-allocation-%d", k))
}

type stakeSettings struct {
	DelegateWallet string  `json:"delegate_wallet"`
	NumDelegates   int     `json:"num_delegates"`
	ServiceCharge  float64 `json:"service_charge"`
}

// ---------------------------------------------------------------- well-formedness (mirrored by Drv/STORAGE.lean `parse`)

func isNat(s string) bool { // decimal, < 2^63
	if s == "" || len(s) > 19 {
		return false
	}
	for _, c := range s {
		if c < '0' || c > '9' {
			return false
		}
	}
	_, err := strconv.ParseInt(s, 10, 64)
	return err == nil
}

func isIdx(s string, bound int) bool { return isNat(s) && atoi64(s) < int64(bound) }

func isCaller(s string) bool {
	if len(s) < 2 || !isNat(s[1:]) {
		return false
	}
	switch s[0] {
	case 'c':
		return isIdx(s[1:], nClients)
	case 'b':
		return isIdx(s[1:], nBlobbers)
	case 'v':
		return isIdx(s[1:], nValidators)
	case 'o':
		return true
	}
	return false
}

func provBound(kind string) int {
	if kind == "v" {
		return nValidators
	}
	return nBlobbers
}

func isOptIdx(s string, bound int) bool { return s == "-" || isIdx(s, bound) }
func isOptNat(s string) bool          { return s == "-" || isNat(s) }

// wellFormed: arity and token classes of every operation kind; anything else is answered `bad-op` by both sides.
func wellFormed(op []string) bool {
	n := len(op) - 1
	a := op[1:]
	isP := func(s string) bool { return s == "b" || s == "v" }
	switch op[0] {
	case "addb":
		return n == 6 && isIdx(a[0], nBlobbers) && isNat(a[1]) && isNat(a[2]) && isNat(a[3]) && isIdx(a[4], nClients) && isNat(a[5])
	case "addv":
		return n == 2 && isIdx(a[0], nValidators) && isIdx(a[1], nClients)
	case "stake":
		return n == 4 && isP(a[0]) && isIdx(a[1], provBound(a[0])) && isIdx(a[2], nClients) && isNat(a[3])
	case "unstake", "collect":
		return n == 3 && isP(a[0]) && isIdx(a[1], provBound(a[0])) && isIdx(a[2], nClients)
	case "newa":
		if !(n == 6 && isIdx(a[0], nClients) && isNat(a[1]) && isNat(a[2]) && isNat(a[3]) && isNat(a[4])) {
			return false
		}
		for _, b := range strings.Split(a[5], ",") {
			if !isIdx(b, nBlobbers) {
				return false
			}
		}
		return true
	case "upd":
		return n == 7 && isNat(a[0]) && isCaller(a[1]) && isNat(a[2]) && isNat(a[3]) && (a[4] == "0" || a[4] == "1") && isOptIdx(a[5], nBlobbers) && isOptIdx(a[6], nBlobbers)
	case "commit":
		z := a
		if n == 3 && strings.HasPrefix(z[2], "-") {
			return isNat(z[0]) && isIdx(z[1], nBlobbers) && isNat(z[2][1:])
		}
		return n == 3 && isNat(a[0]) && isIdx(a[1], nBlobbers) && isNat(a[2])
	case "genc":
		return n == 0
	case "resp":
		return n == 3 && isNat(a[0]) && isIdx(a[1], nBlobbers) && (a[2] == "pass" || a[2] == "fail")
	case "kill":
		return n == 2 && isP(a[0]) && isIdx(a[1], provBound(a[0]))
	case "shut":
		return n == 2 && a[0] == "b" && isIdx(a[1], nBlobbers)
	case "shutby":
		return n == 2 && isIdx(a[0], nBlobbers) && isIdx(a[1], nClients)
	case "fin", "cancel":
		return n == 2 && isNat(a[0]) && isCaller(a[1])
	case "wpl":
		return n == 3 && isNat(a[0]) && isIdx(a[1], nClients) && isNat(a[2])
	case "rpl":
		return n == 2 && isIdx(a[0], nClients) && isNat(a[1])
	case "rpu":
		return n == 1 && isIdx(a[0], nClients)
	case "rr":
		return n == 4 && isNat(a[0]) && isIdx(a[1], nBlobbers) && isIdx(a[2], nClients) && isNat(a[3]) && atoi64(a[3]) <= 1<<32
	case "updb":
		return n == 3 && isIdx(a[0], nBlobbers) && isOptNat(a[1]) && isOptNat(a[2])
	case "tick":
		return n == 3 && isNat(a[0]) && isNat(a[1]) && (a[2] == "0" || a[2] == "1")
	}
	return false
}

// run executes one operation; returns "status obs..." (without the snapshot).
func (x *world) run(op []string) string {
	bad := "bad-op"
	if len(op) == 0 || !wellFormed(op) {
		return bad
	}
	before := x.snapshot()
	st := func(r txres) string {
		if r.status == "ok" {
			return "ok"
		}
		return r.status
	}
	switch op[0] {
	case "addb": // addb i cap wp rp j charge‰
		if len(op) != 7 {
			return bad
		}
		i, j := atoi(op[1]), atoi(op[5])
		if i >= nBlobbers || j >= nClients {
			return bad
		}
		in := map[string]interface{}{
			"url": fmt.Sprintf("http://blobber%d.verif:5051", i), "capacity": atoi64(op[2]),
			"terms":               map[string]uint64{"read_price": atou(op[4]), "write_price": atou(op[3])},
			"stake_pool_settings": stakeSettings{x.cli[j].ID, 10, float64(atoi(op[6])) / 1000},
		}
		return st(x.exec(x.blob[i], "add_blobber", 0, in))
	case "addv": // addv i j
		if len(op) != 3 {
			return bad
		}
		i, j := atoi(op[1]), atoi(op[2])
		if i >= nValidators || j >= nClients {
			return bad
		}
		in := map[string]interface{}{"url": fmt.Sprintf("http://validator%d.verif:5061", i),
			"stake_pool_settings": stakeSettings{x.cli[j].ID, 10, 0.1}}
		return st(x.exec(x.val[i], "add_validator", 0, in))
	case "stake": // stake b|v i j amount
		if len(op) != 5 {
			return bad
		}
		p, pt := x.provider(op[1], atoi(op[2]))
		j := atoi(op[3])
		if p == nil || j >= nClients {
			return bad
		}
		return st(x.exec(x.cli[j], "stake_pool_lock", atou(op[4]), map[string]interface{}{"provider_type": pt, "provider_id": p.ID}))
	case "unstake", "collect": // unstake b|v i j ; obs: amount(balance part) rewards
		if len(op) != 4 {
			return bad
		}
		p, pt := x.provider(op[1], atoi(op[2]))
		j := atoi(op[3])
		if p == nil || j >= nClients {
			return bad
		}
		fn := "stake_pool_unlock"
		if op[0] == "collect" {
			fn = "collect_reward"
		}
		r := x.exec(x.cli[j], fn, 0, map[string]interface{}{"provider_type": pt, "provider_id": p.ID})
		if r.status != "ok" {
			return st(r)
		}
		after := x.snapshot()
		bs, br := x.spOf(before, op[1], atoi(op[2]))
		as, ar := x.spOf(after, op[1], atoi(op[2]))
		return fmt.Sprintf("ok %d %d", bs-as, br-ar)
	case "newa": // newa j data parity size value b,b,b ; obs: chosen blobbers
		if len(op) != 7 {
			return bad
		}
		j := atoi(op[1])
		if j >= nClients {
			return bad
		}
		var ids, tickets []string
		for _, s := range strings.Split(op[6], ",") {
			i := atoi(s)
			if i >= nBlobbers {
				return bad
			}
			ids = append(ids, x.blob[i].ID)
			tickets = append(tickets, "")
		}
		in := map[string]interface{}{
			"data_shards": atoi(op[2]), "parity_shards": atoi(op[3]), "size": atoi64(op[4]),
			"owner_id": x.cli[j].ID, "owner_public_key": x.cli[j].PublicKey,
			"blobbers": ids, "blobber_auth_tickets": tickets,
			"read_price_range":  map[string]uint64{"min": 0, "max": 100e10},
			"write_price_range": map[string]uint64{"min": 0, "max": 100e10},
			"third_party_extendable": true,
		}
		r, hash := x.execH(x.cli[j], "new_allocation_request", atou(op[5]), in)
		if r.status != "ok" {
			return st(r)
		}
		x.allocs = append(x.allocs, hash)
		after := x.snapshot()
		a := after.S.Allocs[len(after.S.Allocs)-1]
		var chosen []string
		for _, d := range a.BAs {
			chosen = append(chosen, strconv.Itoa(x.blobIdx(d.BlobberID)))
		}
		return "ok " + strings.Join(chosen, ",")
	case "upd": // upd k caller value size extend add rem ; obs: pm dp rw cc d0,d1,...
		if len(op) != 8 {
			return bad
		}
		k := atoi(op[1])
		c := x.caller(op[2])
		if c == nil {
			return bad
		}
		in := map[string]interface{}{"id": x.allocID(k), "size": atoi64(op[4]), "extend": op[5] == "1"}
		if op[6] != "-" {
			i := atoi(op[6])
			if i >= nBlobbers {
				return bad
			}
			in["add_blobber_id"] = x.blob[i].ID
		}
		if op[7] != "-" {
			i := atoi(op[7])
			if i >= nBlobbers {
				return bad
			}
			in["remove_blobber_id"] = x.blob[i].ID
		}
		r := x.exec(c, "update_allocation_request", atou(op[3]), in)
		if r.status != "ok" {
			return st(r)
		}
		return "ok " + x.updObs(before, x.snapshot(), k, op)
	case "commit": // commit k i size ; obs: move
		if len(op) != 4 {
			return bad
		}
		k, i := atoi(op[1]), atoi(op[2])
		if i >= nBlobbers {
			return bad
		}
		r := x.commit(k, i, atoi64(op[3]))
		if r.status != "ok" {
			return st(r)
		}
		after := x.snapshot()
		return fmt.Sprintf("ok %d", absDiff(cvOf(before, k, x.blob[i].ID), cvOf(after, k, x.blob[i].ID)))
	case "genc": // generate_challenge ; obs: a<k>:b<i> of the challenge created (or none)
		if len(op) != 1 {
			return bad
		}
		r := x.exec(x.cli[0], "generate_challenge", 0, map[string]interface{}{"round": x.w.Round})
		if r.status != "ok" {
			return st(r)
		}
		after := x.snapshot()
		for k, a := range after.S.Allocs {
			for bi, d := range a.BAs {
				if k < len(before.S.Allocs) && bi < len(before.S.Allocs[k].BAs) && d.Total > before.S.Allocs[k].BAs[bi].Total {
					return fmt.Sprintf("ok %d:%d", k, x.blobIdx(d.BlobberID))
				}
			}
		}
		return "ok none"
	case "resp": // resp k i pass|fail ; obs: D m V dp credits(v:amt,...)
		if len(op) != 4 {
			return bad
		}
		k, i := atoi(op[1]), atoi(op[2])
		if i >= nBlobbers {
			return bad
		}
		r := x.respond(k, i, op[3] == "pass")
		if r.status != "ok" {
			return st(r)
		}
		after := x.snapshot()
		if k >= len(before.S.Allocs) {
			return "ok"
		}
		ba, aa := before.S.Allocs[k], after.S.Allocs[k]
		D := cvOf(before, k, x.blob[i].ID) - cvOf(after, k, x.blob[i].ID)
		m := aa.WritePool - ba.WritePool
		V := aa.MovedToValidators - ba.MovedToValidators
		bs, _ := x.spOf(before, "b", i)
		as, _ := x.spOf(after, "b", i)
		var cr []string
		for v := range x.val {
			_, b := x.spOf(before, "v", v)
			_, a := x.spOf(after, "v", v)
			if a != b {
				cr = append(cr, fmt.Sprintf("%d:%d", v, a-b))
			}
		}
		crs := "-"
		if len(cr) > 0 {
			crs = strings.Join(cr, ",")
		}
		return fmt.Sprintf("ok %d %d %d %d %s", D, m, V, bs-as, crs)
	case "kill", "shut": // kill b|v i ; obs: stake after, deleted flag
		if len(op) != 3 {
			return bad
		}
		p, _ := x.provider(op[1], atoi(op[2]))
		if p == nil {
			return bad
		}
		fn := map[string]string{"killb": "kill_blobber", "killv": "kill_validator", "shutb": "shutdown_blobber", "shutv": "shutdown_validator"}[op[0]+op[1]]
		r := x.exec(x.owner, fn, 0, map[string]string{"provider_id": p.ID})
		if r.status != "ok" {
			return st(r)
		}
		after := x.snapshot()
		as, _ := x.spOf(after, op[1], atoi(op[2]))
		del := 0
		if op[1] == "b" && !after.S.Blobbers[atoi(op[2])].Present {
			del = 1
		}
		if op[1] == "v" && !after.S.Validators[atoi(op[2])].SP.Present {
			del = 1
		}
		return fmt.Sprintf("ok %d %d", as, del)
	case "shutby": // shutby i j : shutdown_blobber sent by client j (the delegate wallet may, a stranger may not)
		i, j := atoi(op[1]), atoi(op[2])
		r := x.exec(x.cli[j], "shutdown_blobber", 0, map[string]string{"provider_id": x.blob[i].ID})
		if r.status != "ok" {
			return st(r)
		}
		after := x.snapshot()
		as, _ := x.spOf(after, "b", i)
		del := 0
		if !after.S.Blobbers[i].Present {
			del = 1
		}
		return fmt.Sprintf("ok %d %d", as, del)
	case "fin", "cancel": // fin k caller ; obs per blobber allocation: pm:dp:rw:cc,...
		if len(op) != 3 {
			return bad
		}
		k := atoi(op[1])
		c := x.caller(op[2])
		if c == nil {
			return bad
		}
		fn := "finalize_allocation"
		if op[0] == "cancel" {
			fn = "cancel_allocation"
		}
		r := x.exec(c, fn, 0, map[string]string{"allocation_id": x.allocID(k)})
		if r.status != "ok" {
			return st(r) + " " + closeFailure(r.out)
		}
		return "ok " + x.closeObs(before, x.snapshot(), k)
	case "wpl": // wpl k j value
		if len(op) != 4 {
			return bad
		}
		j := atoi(op[2])
		if j >= nClients {
			return bad
		}
		return st(x.exec(x.cli[j], "write_pool_lock", atou(op[3]), map[string]string{"allocation_id": x.allocID(atoi(op[1]))}))
	case "rpl": // rpl j value
		if len(op) != 3 || atoi(op[1]) >= nClients {
			return bad
		}
		return st(x.exec(x.cli[atoi(op[1])], "read_pool_lock", atou(op[2]), map[string]string{}))
	case "rpu": // rpu j
		if len(op) != 2 || atoi(op[1]) >= nClients {
			return bad
		}
		return st(x.exec(x.cli[atoi(op[1])], "read_pool_unlock", 0, map[string]string{}))
	case "rr": // rr k i j n ; obs: price [reason]   (client j's read marker for n more 64 KiB blocks, redeemed by blobber i)
		if len(op) != 5 {
			return bad
		}
		r, price := x.readRedeem(before, atoi(op[1]), atoi(op[2]), atoi(op[3]), atoi64(op[4]))
		if r.status != "ok" {
			if r.status == "fail" {
				return fmt.Sprintf("fail %d %s", price, readFailure(r.out))
			}
			return fmt.Sprintf("%s %d", st(r), price)
		}
		return fmt.Sprintf("ok %d", price)
	case "updb": // updb i cap wp   (by the delegate wallet = the client given at addb; tried with every client)
		if len(op) != 4 {
			return bad
		}
		i := atoi(op[1])
		if i >= nBlobbers {
			return bad
		}
		in := map[string]interface{}{"id": x.blob[i].ID, "provider_type": 3}
		if op[2] != "-" {
			in["capacity"] = atoi64(op[2])
		}
		if op[3] != "-" {
			in["terms"] = map[string]uint64{"write_price": atou(op[3])}
		}
		var r txres
		for j := 0; j < nClients; j++ {
			r = x.exec(x.cli[j], "update_blobber_settings", 0, in)
			if r.status == "ok" || !strings.Contains(r.out, "access denied") {
				break
			}
		}
		return st(r)
	case "tick": // tick seconds blocks hc
		if len(op) != 4 {
			return bad
		}
		x.w.Now += common.Timestamp(atoi64(op[1]))
		if n := atoi64(op[2]); n >= 1 {
			x.w.Round += n - 1 // rounds may jump (challenge completion is counted in rounds)
			x.nextBlock()
		}
		if op[3] == "1" {
			for i, b := range x.blob {
				if before.S.Blobbers[i].Present && !before.S.Blobbers[i].Killed && !before.S.Blobbers[i].ShutDown {
					x.exec(b, "blobber_health_check", 0, "")
				}
			}
			for i, v := range x.val {
				if before.S.Validators[i].Present && !before.S.Validators[i].Killed && !before.S.Validators[i].ShutDown {
					x.exec(v, "validator_health_check", 0, "")
				}
			}
		}
		return "ok"
	}
	return bad
}

func absDiff(a, b uint64) uint64 {
	if a > b {
		return a - b
	}
	return b - a
}

func cvOf(s *snap, k int, blobberID string) uint64 {
	if k < 0 || k >= len(s.S.Allocs) {
		return 0
	}
	for _, d := range s.S.Allocs[k].BAs {
		if d.BlobberID == blobberID {
			return d.CV
		}
	}
	return 0
}

func (x *world) spOf(s *snap, kind string, i int) (stake, rewards uint64) {
	if kind == "v" {
		return spStake(s.S.Validators[i].SP)
	}
	return spStake(s.S.Blobbers[i].SP)
}

func (x *world) execH(from *actor, fn string, value uint64, input interface{}) (txres, string) {
	r := x.exec(from, fn, value, input)
	return r, x.lastHash
}

// readFailure: the reason CLASS of a rejected commit_blobber_read.
func readFailure(out string) string {
	switch {
	case strings.Contains(out, "can't get related allocation") && strings.Contains(out, "value not present"):
		return "absent"
	case strings.Contains(out, "late reading, allocation expired"):
		return "expired"
	case strings.Contains(out, "blobber doesn't belong to allocation"):
		return "not-blobber"
	case strings.Contains(out, "not enough tokens in read pool"):
		return "read-pool"
	}
	return "other:" + errClass(out)
}

// readPrice: what commitBlobberRead charges for n more blocks: Coin(float64(Terms.ReadPrice) * sizeInGB(n * CHUNK_SIZE)),
// computed here from the allocation's stored terms with the same float64 operations (0 when the blobber does not
// serve the allocation: the contract then never prices the marker).
func readPrice(s *snap, k int, blobberID string, n int64) uint64 {
	if k < 0 || k >= len(s.S.Allocs) || !s.S.Allocs[k].Present {
		return 0
	}
	for _, d := range s.S.Allocs[k].BAs {
		if d.BlobberID == blobberID {
			sizeRead := float64(n*64*1024) / (1024 * 1024 * 1024)
			return uint64(float64(d.ReadPrice) * sizeRead)
		}
	}
	return 0
}

// readRedeem builds client j's read marker for blobber i of allocation k — counter = the last redeemed counter of
// that (allocation, blobber, client) plus n, signed with the client's real key — and sends commit_blobber_read
// (read_redeem) as the blobber.
func (x *world) readRedeem(before *snap, k, i, j int, n int64) (txres, uint64) {
	aid := x.allocID(k)
	owner := x.cli[0].ID
	if k >= 0 && k < len(before.S.Allocs) && before.S.Allocs[k].Present {
		owner = before.S.Allocs[k].Owner
	}
	key := fmt.Sprintf("%d|%d|%d", k, i, j)
	ctr := x.readCtr[key] + n
	c := x.cli[j]
	rm := map[string]interface{}{
		"client_id": c.ID, "client_public_key": c.PublicKey, "blobber_id": x.blob[i].ID, "allocation_id": aid,
		"owner_id": owner, "timestamp": x.now(), "counter": ctr,
	}
	hashData := fmt.Sprintf("%v:%v:%v:%v:%v:%v:%v", aid, x.blob[i].ID, c.ID, c.PublicKey, owner, ctr, x.now())
	rm["signature"] = c.sign(encryption.Hash(hashData))
	price := readPrice(before, k, x.blob[i].ID, n)
	r := x.exec(x.blob[i], "read_redeem", 0, map[string]interface{}{"read_marker": rm})
	if r.status == "ok" {
		x.readCtr[key] = ctr
	}
	return r, price
}

// commit builds a write marker signed by the allocation owner (real key) and sends commit_connection as the blobber.
func (x *world) commit(k, i int, size int64) txres {
	aid := x.allocID(k)
	owner := x.cli[0]
	if k >= 0 && k < len(x.allocs) {
		s := x.snapshot()
		for _, c := range x.cli {
			if c.ID == s.S.Allocs[k].Owner {
				owner = c
			}
		}
	}
	key := fmt.Sprintf("%d|%d", k, i)
	prev := x.roots[key]
	x.wmSeq++
	root := encryption.Hash(fmt.Sprintf("verif-root-%s-%d", key, x.wmSeq))
	wm := map[string]interface{}{
		"allocation_root": root, "prev_allocation_root": prev, "file_meta_root": "", "allocation_id": aid,
		"size": size, "blobber_id": x.blob[i].ID, "timestamp": x.now(), "client_id": owner.ID,
	}
	hashData := fmt.Sprintf("%s:%s:%s:%s:%s:%s:%d:%d", root, prev, "", aid, x.blob[i].ID, owner.ID, size, x.now())
	wm["signature"] = owner.sign(encryption.Hash(hashData))
	in := map[string]interface{}{"allocation_root": root, "prev_allocation_root": prev, "write_marker": wm}
	r := x.exec(x.blob[i], "commit_connection", 0, in)
	if r.status == "ok" {
		x.roots[key] = root
	}
	return r
}

// respond answers the NEWEST open challenge of blobber i in allocation k with tickets signed by all its validators.
func (x *world) respond(k, i int, pass bool) txres {
	chs := storagesc.VerifOpenChallenges(x.w.SCtx(), x.allocID(k))
	var ch *storagesc.VerifChallenge
	for n := range chs {
		if chs[n].BlobberID == x.blob[i].ID && (ch == nil || chs[n].Round >= ch.Round) {
			ch = &chs[n]
		}
	}
	if ch == nil {
		return txres{"fail", "no_open_challenge: harness"}
	}
	var tickets []map[string]interface{}
	for _, vid := range ch.Validators {
		var v *actor
		for _, a := range x.val {
			if a.ID == vid {
				v = a
			}
		}
		if v == nil {
			continue
		}
		ts := x.now()
		hash := encryption.Hash(fmt.Sprintf("%v:%v:%v:%v:%v:%v", ch.ID, ch.BlobberID, v.ID, v.PublicKey, pass, ts))
		tickets = append(tickets, map[string]interface{}{
			"challenge_id": ch.ID, "blobber_id": ch.BlobberID, "validator_id": v.ID, "validator_key": v.PublicKey,
			"success": pass, "timestamp": ts, "signature": v.sign(hash),
		})
	}
	return x.exec(x.blob[i], "challenge_response", 0, map[string]interface{}{"challenge_id": ch.ID, "validation_tickets": tickets})
}

// updObs: observed amounts of an update_allocation_request.
//   replace (removed blobber alive): rw = challenge reward debited from the challenge pool, cc = cancellation charge
//   debited from the write pool, dp = stake slashed, cr = amount actually credited to the removed blobber's stake pool;
//   extend: per remaining blobber allocation the signed challenge pool adjustment d_i.
func (x *world) updObs(before, after *snap, k int, op []string) string {
	if k >= len(before.S.Allocs) {
		return "0 0 0 0 -"
	}
	ba, aa := before.S.Allocs[k], after.S.Allocs[k]
	var ds []string
	var pos, neg uint64
	for _, d := range aa.BAs {
		var old uint64
		found := false
		for _, o := range ba.BAs {
			if o.BlobberID == d.BlobberID {
				old, found = o.CV, true
			}
		}
		// the difference as the machine computes it: the contract decrements the value with an unchecked uint64
		// subtraction (allocation.go 812), so a decrement beyond the value shows up as a huge value; int64 of the
		// wrapped difference is the signed adjustment
		delta := int64(d.CV - old)
		switch {
		case !found:
			ds = append(ds, "0")
		case delta >= 0:
			ds = append(ds, fmt.Sprintf("%d", delta))
			pos += uint64(delta)
		default:
			ds = append(ds, fmt.Sprintf("%d", delta))
			neg += uint64(-delta)
		}
	}
	var rw, cc, dp, cr uint64
	if op[7] != "-" {
		i := atoi(op[7])
		bs, br := x.spOf(before, "b", i)
		as, ar := x.spOf(after, "b", i)
		dp, cr = bs-as, ar-br
		var cvRem uint64
		for _, d := range ba.BAs {
			if d.BlobberID == x.blob[i].ID {
				cvRem = d.CV
			}
		}
		if !(before.S.Blobbers[i].Killed || before.S.Blobbers[i].ShutDown) {
			// MovedBack += (cvRem - rw) + neg ; WritePool' = WritePool + value + (cvRem - rw) - cc + neg - pos
			rw = cvRem + neg - (aa.MovedBack - ba.MovedBack)
			cc = ba.WritePool + atou(op[3]) + cvRem - rw + neg - pos - aa.WritePool
		}
	}
	return fmt.Sprintf("%d %d %d %d %s", rw, cc, dp, cr, strings.Join(ds, ","))
}

// expectedClose recomputes, from the snapshot BEFORE a close, what the contract's own formulas pay
// (settleOpenChallengesAndGetPassRates, challengePenaltyOnFinalization, challengeRewardOnFinalization,
// payCancellationCharge): per blobber allocation the pass rate as succ/total, the challenge reward and the
// cancellation charge share. Same float64 operations as the contract. Used as observed parameters of the model
// (pass rate, charge) and by the C14 oracle (expected pay and refund).
type closeExp struct {
	succ, total uint64
	reward, cc  uint64
}

func (x *world) expectedClose(before *snap, k int) (per []closeExp, refund uint64) {
	a := before.S.Allocs[k]
	now := x.now()
	round := x.w.Round
	const cct = 1200 // max_challenge_completion_rounds
	tu := float64(timeUnit) * 1e9
	dur := func(sec int64) float64 { return float64(sec*1e9) / tu }
	per = make([]closeExp, len(a.BAs))
	rates := make([]float64, len(a.BAs))
	for i, d := range a.BAs {
		succ, total, open := d.Success, d.Total, d.Open
		if !a.ACPresent {
			per[i].succ, per[i].total, rates[i] = 1, 1, 1
			continue
		}
		for _, oc := range a.OpenCh {
			if oc.BlobberID != d.BlobberID {
				continue
			}
			open--
			if oc.Round+cct < round {
				// failed
			} else {
				succ++
			}
		}
		if open > 0 {
			succ += open
		}
		if total == 0 {
			per[i].succ, per[i].total, rates[i] = 1, 1, 1
		} else {
			if succ < 0 {
				succ = 0
			}
			per[i].succ, per[i].total = uint64(succ), uint64(total)
			rates[i] = float64(succ) / float64(total)
		}
	}
	var rewards uint64
	for i, d := range a.BAs {
		cv := d.CV
		if d.LatestFinalized == 0 {
			continue
		}
		if d.LatestSuccessful < d.LatestFinalized && a.Expiration >= d.LatestSuccessful {
			rdtu := dur(a.Expiration - d.LatestSuccessful)
			dtu := dur(d.LatestFinalized - d.LatestSuccessful)
			if dtu > rdtu {
				dtu = rdtu
			}
			move := uint64((dtu / rdtu) * float64(cv))
			if move <= cv {
				cv -= move
			}
		}
		if now <= d.LatestFinalized || a.Expiration < d.LatestFinalized {
			continue
		}
		rdtu := dur(a.Expiration - d.LatestFinalized)
		dtu := dur(now - d.LatestFinalized)
		if dtu > rdtu {
			dtu = rdtu
		}
		move := uint64((dtu / rdtu) * float64(cv))
		if a.UsedSize > 0 && a.CP > 0 && rates[i] > 0 {
			per[i].reward = uint64(float64(move) * rates[i])
			rewards += per[i].reward
		}
	}
	wp := a.WritePool
	if rewards <= a.CP {
		wp += a.CP - rewards
	}
	var cost uint64
	var totalPrice uint64
	for _, d := range a.BAs {
		cost += uint64(float64(d.WritePrice) * (float64(d.Size) / GiB))
		totalPrice += d.WritePrice
	}
	charge := uint64(float64(cost) * 0.2)
	used := a.MovedToChallenge - (a.MovedBack + (a.CP - min64(rewards, a.CP)))
	if used < charge {
		charge -= used
		if wp < charge {
			charge = wp
		}
		for i, d := range a.BAs {
			w := float64(d.WritePrice) / float64(totalPrice)
			per[i].cc = uint64(float64(charge) * w * rates[i])
		}
	}
	refund = wp
	for i, d := range a.BAs {
		bi := x.blobIdx(d.BlobberID)
		sp := before.S.Blobbers[bi].SP
		st, _ := spStake(sp)
		live := sp.Present && !sp.Dead && st >= sp.MinStake
		_ = live
		if per[i].cc <= refund {
			refund -= per[i].cc
		}
	}
	return per, refund
}

func min64(a, b uint64) uint64 {
	if a < b {
		return a
	}
	return b
}

// closeObs: X = tokens debited from the allocation's pools for blobbers (challenge rewards + cancellation charge)
// = writePool + challengePool - refund; per blobber allocation dp:cr:succ:total:cc:rw — stake slashed, amount credited,
// the pass rate the contract's settle step yields (succ/total), and the cancellation charge share and challenge
// reward its formulas prescribe.
func (x *world) closeObs(before, after *snap, k int) string {
	if k >= len(before.S.Allocs) {
		return "0 -"
	}
	ba := before.S.Allocs[k]
	own := -1
	for j, c := range x.cli {
		if c.ID == ba.Owner {
			own = j
		}
	}
	var refund uint64
	if own >= 0 {
		refund = after.Bal[own] - before.Bal[own]
	}
	exp, _ := x.expectedClose(before, k)
	var parts []string
	for n, d := range ba.BAs {
		i := x.blobIdx(d.BlobberID)
		bs, br := x.spOf(before, "b", i)
		as, ar := x.spOf(after, "b", i)
		parts = append(parts, fmt.Sprintf("%d:%d:%d:%d:%d:%d", bs-as, ar-br, exp[n].succ, exp[n].total, exp[n].cc, exp[n].reward))
	}
	return fmt.Sprintf("%d %s", ba.WritePool+ba.CP-refund, strings.Join(parts, ","))
}

var _ = json.Marshal
