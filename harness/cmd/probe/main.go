package main

import (
	"fmt"

	"0chain.net/smartcontract/minersc"
	"0chain.net/core/util/orderbuffer"
)

func main() {
	fmt.Println(minersc.VerifHookProbe(), orderbuffer.New(3) != nil)
}
