package main

// Clone independence of the cacheable state values (C02, C07): the state cache hands a contract a CLONE of the value
// it holds (statecache.Value.Clone / CopyFrom); a failed transaction's working copy is thrown away, so the property
// "a failing call changes nothing" needs the clone to share no mutable memory with the cached value. For every
// exported cacheable type the harness fills a value, clones it both ways, mutates every map entry, slice element and
// pointed-to field reachable in the clone, and requires the original's encoding to be unchanged.

import (
	"bytes"
	"fmt"
	"math/rand"
	"reflect"

	"0chain.net/smartcontract/minersc"
	"0chain.net/smartcontract/storagesc"
	"github.com/0chain/common/core/statecache"
	"verifharness/lib/corr"
)

type cacheable interface {
	statecache.Value
	MarshalMsg([]byte) ([]byte, error)
}

func fill(v reflect.Value, r *rand.Rand, depth int) {
	if depth > 7 || !v.CanSet() {
		return
	}
	switch v.Kind() {
	case reflect.Bool:
		v.SetBool(true)
	case reflect.Int, reflect.Int8, reflect.Int16, reflect.Int32, reflect.Int64:
		v.SetInt(int64(1 + r.Intn(100)))
	case reflect.Uint, reflect.Uint8, reflect.Uint16, reflect.Uint32, reflect.Uint64:
		v.SetUint(uint64(1 + r.Intn(100)))
	case reflect.Float32, reflect.Float64:
		v.SetFloat(0.25)
	case reflect.String:
		v.SetString(fmt.Sprintf("s%d", r.Intn(1000)))
	case reflect.Ptr:
		if v.Type().Elem().Kind() == reflect.Struct || v.Type().Elem().Kind() == reflect.Map || v.Type().Elem().Kind() == reflect.Slice {
			v.Set(reflect.New(v.Type().Elem()))
			fill(v.Elem(), r, depth+1)
		}
	case reflect.Struct:
		for i := 0; i < v.NumField(); i++ {
			fill(v.Field(i), r, depth+1)
		}
	case reflect.Slice:
		n := 2
		s := reflect.MakeSlice(v.Type(), n, n)
		for i := 0; i < n; i++ {
			fill(s.Index(i), r, depth+1)
		}
		v.Set(s)
	case reflect.Map:
		if v.Type().Key().Kind() != reflect.String && v.Type().Key().Kind() != reflect.Int {
			return
		}
		m := reflect.MakeMap(v.Type())
		for i := 0; i < 2; i++ {
			k := reflect.New(v.Type().Key()).Elem()
			if k.Kind() == reflect.String {
				k.SetString(fmt.Sprintf("k%d", i))
			} else {
				k.SetInt(int64(i + 1))
			}
			e := reflect.New(v.Type().Elem()).Elem()
			fill(e, r, depth+1)
			m.SetMapIndex(k, e)
		}
		v.Set(m)
	}
}

// scramble changes everything reachable from v IN PLACE (through the pointers, maps and slices it holds).
func scramble(v reflect.Value, depth int, seen map[uintptr]bool) {
	if depth > 9 {
		return
	}
	switch v.Kind() {
	case reflect.Ptr, reflect.Interface:
		if v.IsNil() {
			return
		}
		if v.Kind() == reflect.Ptr {
			if seen[v.Pointer()] {
				return
			}
			seen[v.Pointer()] = true
		}
		scramble(v.Elem(), depth+1, seen)
	case reflect.Struct:
		for i := 0; i < v.NumField(); i++ {
			scramble(v.Field(i), depth+1, seen)
		}
	case reflect.Slice:
		for i := 0; i < v.Len(); i++ {
			scramble(v.Index(i), depth+1, seen)
		}
	case reflect.Map:
		if !v.CanInterface() {
			return
		}
		for _, k := range v.MapKeys() {
			e := v.MapIndex(k)
			ne := reflect.New(e.Type()).Elem()
			ne.Set(e)
			scramble(ne, depth+1, seen) // (pointer / slice / map elements are changed in place through ne)
			bump(ne)
			v.SetMapIndex(k, ne)
		}
	default:
		bump(v)
	}
}

func bump(v reflect.Value) {
	if !v.CanSet() {
		return
	}
	switch v.Kind() {
	case reflect.Bool:
		v.SetBool(!v.Bool())
	case reflect.Int, reflect.Int8, reflect.Int16, reflect.Int32, reflect.Int64:
		v.SetInt(v.Int() + 7)
	case reflect.Uint, reflect.Uint8, reflect.Uint16, reflect.Uint32, reflect.Uint64:
		v.SetUint(v.Uint() + 7)
	case reflect.Float32, reflect.Float64:
		v.SetFloat(v.Float() + 0.5)
	case reflect.String:
		v.SetString(v.String() + "!")
	}
}

func cloneIndependence(thorough bool, seed int64) (out []corr.Violation) {
	r := rand.New(rand.NewSource(seed))
	rounds := 3
	if thorough {
		rounds = 20
	}
	mk := map[string]func() cacheable{
		"minersc.GlobalNode":          func() cacheable { return &minersc.GlobalNode{} },
		"minersc.MinerNode":           func() cacheable { return minersc.NewMinerNode() },
		"storagesc.Config":            func() cacheable { return &storagesc.Config{} },
		"storagesc.StorageAllocation": func() cacheable { return &storagesc.StorageAllocation{} },
	}
	for name, f := range mk {
		for k := 0; k < rounds; k++ {
			func() {
				defer func() {
					if e := recover(); e != nil && k == 0 {
						// a random fill the type's own encoder rejects is not a finding; nothing to compare
						_ = e
					}
				}()
				orig := f()
				fill(reflect.ValueOf(orig).Elem(), r, 0)
				before, err := orig.MarshalMsg(nil)
				if err != nil {
					return
				}
				for _, how := range []string{"Clone", "CopyFrom"} {
					var c interface{}
					if how == "Clone" {
						c = orig.Clone()
					} else {
						t := f()
						if !t.CopyFrom(orig) {
							continue
						}
						c = t
					}
					scramble(reflect.ValueOf(c), 0, map[uintptr]bool{})
					after, err := orig.MarshalMsg(nil)
					if err != nil || !bytes.Equal(before, after) {
						out = append(out, corr.Violation{
							Signature: "C02:cached-value-shares-memory-with-working-copy:" + name,
							Message:   fmt.Sprintf("%s.%s: after changing every field, map entry and slice element reachable from the copy, the ORIGINAL's encoding changed (%d -> %d bytes differ=%v): the state cache's value and a contract's working copy share memory, so a failing call leaves its changes in the cache", name, how, len(before), len(after), !bytes.Equal(before, after)),
							Ops:       []string{"clone-independence " + name + " " + how},
						})
						return
					}
				}
			}()
		}
	}
	return out
}
