package main

import "os"

func flagArgs() []string { return os.Args[1:] }
