// ledger harness (C01, C02, C03, C05 and the engine part of C04): the real Chain.UpdateState against
// Model/Ledger.lean. Contract behaviour is scripted: a test contract registered by THIS harness (not part of
// /repo) performs exactly the writes / transfers / signed transfers / failure that the generated line dictates,
// so the engine is exercised over arbitrary contract behaviours — the quantifier of the Lean theorems.
package main

import (
	"context"
	"encoding/json"
	"errors"
	"flag"
	"fmt"
	"math/big"
	"math/rand"
	"net/url"
	"sort"
	"strconv"
	"strings"

	cstate "0chain.net/chaincore/chain/state"
	"0chain.net/chaincore/smartcontract"
	"0chain.net/chaincore/state"
	"0chain.net/chaincore/transaction"
	"0chain.net/core/encryption"
	"0chain.net/smartcontract/minersc"
	"0chain.net/smartcontract/partitions"
	"github.com/0chain/common/core/currency"
	"github.com/0chain/common/core/statecache"
	"github.com/0chain/common/core/util"
	"verifharness/lib/corr"
	"verifharness/lib/engine"
)

// ---------------------------------------------------------------- scripted contract (lives in the harness only)

var scriptAddr = encryption.Hash("verif-script-contract")

type scriptOp struct {
	K    string `json:"k"` // t | s | w | d
	From string `json:"from,omitempty"`
	To   string `json:"to,omitempty"`
	Amt  uint64 `json:"amt,omitempty"`
	Key  string `json:"key,omitempty"`
	Val  uint64 `json:"val,omitempty"`
}
type scriptInput struct {
	Ops []scriptOp `json:"ops"`
	Err string     `json:"err"` // "" | chg | int | ctx
}

type valNode struct{ V uint64 }

func (v *valNode) MarshalMsg(b []byte) ([]byte, error) {
	return append(b, []byte(fmt.Sprintf("%020d", v.V))...), nil
}
func (v *valNode) UnmarshalMsg(b []byte) ([]byte, error) {
	if len(b) < 20 {
		return nil, errors.New("short")
	}
	n, err := strconv.ParseUint(string(b[:20]), 10, 64)
	v.V = n
	return b[20:], err
}

// cvalNode is a CACHEABLE stored value (implements statecache.Value): even keys use it, so that the state-cache
// layers (transaction cache → block cache → state cache) take part in the runs exactly as for real contract objects.
type cvalNode struct{ valNode }

func (v *cvalNode) Clone() statecache.Value { c := *v; return &c }
func (v *cvalNode) CopyFrom(x interface{}) bool {
	if o, ok := x.(*cvalNode); ok {
		*v = *o
		return true
	}
	return false
}

func newVal(k string, n uint64) util.MPTSerializable {
	if cacheableKey(k) {
		return &cvalNode{valNode{n}}
	}
	return &valNode{n}
}

func cacheableKey(k string) bool { return strings.HasSuffix(k, "0") || strings.HasSuffix(k, "2") }

// ---------------------------------------------------------------- a partitions list kept by the scripted contract

var partName = scriptAddr + ":parts"

const (
	partSize = 2 // small, so that packed (non-last) partitions exist after three items
	nItems   = 6
)

type pItem struct {
	ID string
	V  uint64
}

func (p *pItem) GetID() string { return p.ID }
func (p *pItem) Msgsize() int  { return 20 }
func (p *pItem) MarshalMsg(b []byte) ([]byte, error) {
	return append(b, []byte(fmt.Sprintf("%020d", p.V))...), nil
}
func (p *pItem) UnmarshalMsg(b []byte) ([]byte, error) {
	if len(b) < 20 {
		return nil, errors.New("short")
	}
	n, err := strconv.ParseUint(string(b[:20]), 10, 64)
	p.V = n
	return b[20:], err
}

func itemName(i uint64) string { return fmt.Sprintf("item%d", i) }

// partOp: put (update in place when present, add otherwise) or remove (when present) one item, then save.
func partOp(b cstate.StateContextI, put bool, id string, val uint64) error {
	ps, err := partitions.CreateIfNotExists(b, partName, partSize)
	if err != nil {
		return err
	}
	exist, err := ps.Exist(b, id)
	if err != nil {
		return err
	}
	switch {
	case put && exist:
		err = ps.UpdateItem(b, &pItem{ID: id, V: val})
	case put:
		err = ps.Add(b, &pItem{ID: id, V: val})
	case exist:
		err = ps.Remove(b, id)
	}
	if err != nil {
		return err
	}
	return ps.Save(b)
}

// partRead lists the items a reader with the given context sees.
func partRead(b cstate.StateContextI) (map[uint64]uint64, error) {
	out := map[uint64]uint64{}
	ps, err := partitions.GetPartitions(b, partName)
	if err == util.ErrValueNotPresent {
		return out, nil
	}
	if err != nil {
		return nil, err
	}
	for i := uint64(0); i < nItems; i++ {
		var it pItem
		if _, err := ps.Get(b, itemName(i), &it); err == nil {
			out[i] = it.V
		} else if !partitions.ErrItemNotFound(err) {
			return nil, err
		}
	}
	return out, nil
}

// coldCtx reads the trie itself, by-passing every cache layer.
type coldCtx struct {
	cstate.StateContextI
	st util.MerklePatriciaTrieI
}

func (c coldCtx) GetTrieNode(key string, v util.MPTSerializable) error {
	return c.st.GetNodeValue(util.Path(encryption.Hash(key)), v)
}

type scriptSC struct{}

func (scriptSC) GetHandlerStats(ctx context.Context, params url.Values) (interface{}, error) {
	return nil, nil
}
func (scriptSC) GetExecutionStats() map[string]interface{} { return map[string]interface{}{} }
func (scriptSC) GetName() string                           { return "verifscript" }
func (scriptSC) GetAddress() string                        { return scriptAddr }
func (scriptSC) GetCostTable(b cstate.StateContextI) (map[string]int, error) {
	return map[string]int{"script": 1}, nil
}
func (scriptSC) Execute(t *transaction.Transaction, fn string, input []byte, b cstate.StateContextI) (string, error) {
	var in scriptInput
	if err := json.Unmarshal(input, &in); err != nil {
		return "", err
	}
	for _, o := range in.Ops {
		switch o.K {
		case "t":
			if err := b.AddTransfer(state.NewTransfer(o.From, o.To, currency.Coin(o.Amt))); err != nil {
				return "", err
			}
		case "s":
			b.AddSignedTransfer(&state.SignedTransfer{Transfer: *state.NewTransfer(o.From, o.To, currency.Coin(o.Amt))})
		case "w":
			if _, err := b.InsertTrieNode(scriptAddr+o.Key, newVal(o.Key, o.Val)); err != nil {
				return "", err
			}
		case "d":
			if _, err := b.DeleteTrieNode(scriptAddr + o.Key); err != nil && err != util.ErrValueNotPresent {
				return "", err
			}
		case "pu", "pr":
			// the REAL smartcontract/partitions list, used the way the contracts use it: load, change in place, save
			if err := partOp(b, o.K == "pu", o.Key, o.Val); err != nil {
				return "", err
			}
		}
	}
	switch in.Err {
	case "chg":
		return "", errors.New("scripted chargeable failure")
	case "int":
		return "", util.ErrNodeNotFound
	case "ctx":
		return "", transaction.ErrSmartContractContext
	}
	return "scripted ok", nil
}

// ---------------------------------------------------------------- id universe

const nIDs = 9 // 0 = miner SC, 1 = script SC, 2.. = clients

var clients [nIDs]engine.Client
var ids [nIDs]string

// the trie paths the partitions list may write: its head, its partitions, its item locations
var partPaths = map[string]bool{}

func setup() {
	engine.Setup()
	partPaths[encryption.Hash(partName)] = true
	for i := 0; i <= nItems; i++ {
		partPaths[encryption.Hash(partName+encryption.Hash(":partition:"+strconv.Itoa(i)))] = true
		partPaths[encryption.Hash(encryption.Hash(fmt.Sprintf("%s:%s", partName, itemName(uint64(i)))))] = true
	}
	smartcontract.ContractMap[scriptAddr] = scriptSC{}
	ids[0] = minersc.ADDRESS
	ids[1] = scriptAddr
	for i := 2; i < nIDs; i++ {
		clients[i] = engine.NewClient(fmt.Sprintf("ledger-%d", i))
		ids[i] = clients[i].ID
	}
	clients[0] = engine.Client{ID: ids[0], PublicKey: ""}
	clients[1] = engine.Client{ID: ids[1], PublicKey: ""}
}

func keyName(k uint64) string { return fmt.Sprintf(":k%d", k) }

const nKeys = 4

// ---------------------------------------------------------------- implementation runner

type world struct {
	w       *engine.World
	known   map[string]bool // txn hashes that may appear in client states
	leaves  map[string][]byte
	acctSet map[string]bool
}

func (x *world) show() string {
	var parts []string
	for i := 0; i <= nIDs; i++ {
		b, n, present := x.w.Account(idOf(i))
		if present {
			parts = append(parts, fmt.Sprintf("%d:%d:%d", i, uint64(b), n))
		}
	}
	var sp []string
	sctx := x.w.SCtx()
	cacheMismatch := 0
	for k := uint64(0); k < nKeys; k++ {
		// the value a contract would see (through the cache layers) ...
		v := newVal(keyName(k), 0)
		errC := sctx.GetTrieNode(scriptAddr+keyName(k), v)
		// ... and the value actually stored in the trie
		var raw valNode
		errT := x.w.State.GetNodeValue(util.Path(encryption.Hash(scriptAddr+keyName(k))), &raw)
		val := func() uint64 {
			if c, ok := v.(*cvalNode); ok {
				return c.V
			}
			return v.(*valNode).V
		}()
		if (errC == nil) != (errT == nil) || (errC == nil && val != raw.V) {
			cacheMismatch++
		}
		if errC == nil {
			sp = append(sp, fmt.Sprintf("%d:%d", k, val))
		}
	}
	// the partitions list: what a contract sees through the cache layers vs. what the trie holds
	warm, errW := partRead(sctx)
	cold, errC2 := partRead(coldCtx{sctx, x.w.State})
	if errW != nil || errC2 != nil || len(warm) != len(cold) {
		cacheMismatch++
	}
	for i := uint64(0); i < nItems; i++ {
		vw, okw := warm[i]
		vc, okc := cold[i]
		if okw != okc || vw != vc {
			cacheMismatch++
		}
		if okw {
			sp = append(sp, fmt.Sprintf("%d:%d", 100+i, vw))
		}
	}
	// total over ALL client-state leaves of the trie (not just the id universe); unexpected leaf changes
	lv, _ := x.w.Leaves()
	tot := new(big.Int)
	for p, v := range lv {
		if len(v) == 56 {
			s := &state.State{}
			if s.Decode(v) == nil {
				_ = p
				tot.Add(tot, new(big.Int).SetUint64(uint64(s.Balance)))
			}
		}
	}
	unexpected := cacheMismatch
	for p, v := range lv {
		if old, ok := x.leaves[p]; !ok || string(old) != string(v) {
			if !x.expectedPath(p) {
				unexpected++
			}
		}
	}
	for p := range x.leaves {
		if _, ok := lv[p]; !ok && !x.expectedPath(p) {
			unexpected++
		}
	}
	x.leaves = lv
	return "a=" + strings.Join(parts, ",") + " s=" + strings.Join(sp, ",") + " tot=" + tot.String() + fmt.Sprintf(" x=%d", unexpected)
}

func (x *world) expectedPath(p string) bool {
	for i := 0; i <= nIDs; i++ {
		if p == idOf(i) {
			return true
		}
	}
	for k := uint64(0); k < nKeys; k++ {
		if p == encryption.Hash(scriptAddr+keyName(k)) {
			return true
		}
	}
	return partPaths[p]
}

func impl(ops []string) []string {
	outs := make([]string, len(ops))
	var x *world
	for i, op := range ops {
		w := strings.Fields(op)
		func() {
			defer func() {
				if r := recover(); r != nil {
					outs[i] = fmt.Sprintf("panic %v", r)
				}
			}()
			switch w[0] {
			case "genesis":
				// the REAL mustInitGBState (through the overlay hook) on an empty state
				engine.SetFeeEnabled(true)
				is := &state.InitStates{}
				for _, g := range w[1:] {
					parts := strings.Split(g, "/")
					hd := strings.Split(parts[0], ":")
					id, _ := strconv.Atoi(hd[0])
					tk, _ := strconv.ParseUint(hd[1], 10, 64)
					st := state.InitState{ID: idOf(id), Tokens: currency.Coin(tk)}
					for _, c := range parts[1:] {
						f := strings.Split(c, ":")
						cid, _ := strconv.Atoi(f[0])
						ct, _ := strconv.ParseUint(f[1], 10, 64)
						st.State = append(st.State, state.IDTokens{ID: idOf(cid), Tokens: currency.Coin(ct)})
					}
					is.States = append(is.States, st)
				}
				panicked := false
				wd, err := engine.NewWorld(nil, func(sctx *cstate.StateContext) (e error) {
					defer func() {
						if r := recover(); r != nil {
							panicked = true
						}
					}()
					engine.Chain.VerifMustInitGBState(is, sctx)
					return nil
				})
				if panicked || err != nil {
					outs[i] = "panic"
					x = nil
					return
				}
				x = &world{w: wd}
				x.leaves, _ = wd.Leaves()
				outs[i] = "ok " + x.show()
			case "init":
				engine.SetFeeEnabled(w[1] == "1")
				bal := map[string]currency.Coin{}
				type an struct {
					id string
					n  int64
				}
				var nonces []an
				for _, a := range w[2:] {
					f := strings.Split(a, ":")
					id, _ := strconv.Atoi(f[0])
					b, _ := strconv.ParseUint(f[1], 10, 64)
					n, _ := strconv.ParseInt(f[2], 10, 64)
					bal[ids[id]] = currency.Coin(b)
					nonces = append(nonces, an{ids[id], n})
				}
				wd, err := engine.NewWorld(bal, func(sctx *cstate.StateContext) error {
					for _, a := range nonces {
						s, _ := sctx.GetClientState(a.id)
						s.Nonce = a.n
						if _, err := sctx.SetClientState(a.id, s); err != nil {
							return err
						}
					}
					return nil
				})
				if err != nil {
					outs[i] = "init-error " + err.Error()
					return
				}
				x = &world{w: wd}
				x.leaves, _ = wd.Leaves()
				outs[i] = "ok"
			case "txn":
				if x == nil {
					outs[i] = "no-chain"
					return
				}
				sender, _ := strconv.Atoi(w[2])
				value, _ := strconv.ParseUint(w[5], 10, 64)
				fee, _ := strconv.ParseUint(w[6], 10, 64)
				nonce, _ := strconv.ParseInt(w[7], 10, 64)
				toID := "not-a-client-id"
				if w[4] == "1" {
					toID = idStr(w[3])
				}
				typ := map[string]int{"send": transaction.TxnTypeSend, "data": transaction.TxnTypeData, "sc": transaction.TxnTypeSmartContract, "invalid": 77}[w[1]]
				input := ""
				fn := ""
				if w[1] == "sc" {
					fn = "script"
					toID = scriptAddr
					input = scriptJSON(w[8])
				}
				t := x.w.Txn(engine.Client{ID: idOf(sender), PublicKey: clients[sender%nIDs].PublicKey}, toID, currency.Coin(value), currency.Coin(fee), nonce, typ, fn, input)
				_, err := x.w.Exec(t)
				st := "rejected"
				if err == nil {
					switch t.Status {
					case transaction.TxnSuccess:
						st = "success"
					case transaction.TxnError:
						st = "failed"
					default:
						st = fmt.Sprintf("status%d", t.Status)
					}
				}
				if rand.Intn(7) == 0 { // block boundaries at arbitrary points do not matter to the engine
					x.w.NextBlock()
				}
				outs[i] = st + " " + x.show()
			default:
				outs[i] = "bad-op"
			}
		}()
	}
	return outs
}

// tok parses an id token: "7" = canonical id, "7u" = the UPPER-CASE spelling of the same 64-hex id, "7p" = only the
// leading hex letter upper-cased (a spelling the trie resolves to the SAME leaf: children are addressed
// case-insensitively, only the leaf's remaining path is compared byte-wise).
func tok(w string) (int, bool) {
	if strings.HasSuffix(w, "u") || strings.HasSuffix(w, "p") {
		n, _ := strconv.Atoi(w[:len(w)-1])
		return n, false
	}
	n, _ := strconv.Atoi(w)
	return n, true
}

func idStr(w string) string {
	n, canon := tok(w)
	if canon {
		return idOf(n)
	}
	id := idOf(n)
	if strings.HasSuffix(w, "p") {
		return strings.ToUpper(id[:1]) + id[1:] // the generator writes "p" only for ids whose first digit is a letter
	}
	return strings.ToUpper(id)
}

func idOf(i int) string {
	if i >= 0 && i < nIDs {
		return ids[i]
	}
	return encryption.Hash(fmt.Sprintf("ledger-extra-%d", i))
}

func scriptJSON(res string) string {
	var in scriptInput
	parts := strings.SplitN(res, "|", 2)
	switch parts[0] {
	case "chg":
		in.Err = "chg"
	case "int":
		in.Err = "int"
	case "-":
		in.Err = "ctx"
	}
	if len(parts) == 2 && parts[1] != "" {
		for _, o := range strings.Split(parts[1], ";") {
			f := strings.Split(o, ",")
			switch f[0] {
			case "t", "s":
				a, _ := strconv.Atoi(f[1])
				amt, _ := strconv.ParseUint(f[3], 10, 64)
				in.Ops = append(in.Ops, scriptOp{K: f[0], From: idOf(a), To: idStr(f[2]), Amt: amt})
			case "w":
				k, _ := strconv.ParseUint(f[1], 10, 64)
				v, _ := strconv.ParseUint(f[2], 10, 64)
				in.Ops = append(in.Ops, scriptOp{K: "w", Key: keyName(k), Val: v})
			case "pu":
				k, _ := strconv.ParseUint(f[1], 10, 64)
				v, _ := strconv.ParseUint(f[2], 10, 64)
				in.Ops = append(in.Ops, scriptOp{K: "pu", Key: itemName(k), Val: v})
			case "pr":
				k, _ := strconv.ParseUint(f[1], 10, 64)
				in.Ops = append(in.Ops, scriptOp{K: "pr", Key: itemName(k)})
			case "d":
				k, _ := strconv.ParseUint(f[1], 10, 64)
				in.Ops = append(in.Ops, scriptOp{K: "d", Key: keyName(k)})
			}
		}
	}
	b, _ := json.Marshal(in)
	return string(b)
}

// ---------------------------------------------------------------- generator

var boundary = []uint64{0, 1, 2, 10, 1 << 53, 1<<53 + 1, 4000000000000000000, 4000000000000000001, 1<<63 - 1, 1 << 63, 1<<64 - 1}

func amount(r *rand.Rand, hint uint64) uint64 {
	switch r.Intn(24) {
	case 0:
		return boundary[r.Intn(len(boundary))]
	case 1, 2:
		return 0
	case 3:
		return hint
	case 4:
		return hint + 1
	default:
		if hint == 0 {
			return uint64(r.Intn(50))
		}
		return uint64(r.Int63n(int64(hint%(1<<62)) + 1))
	}
}

// genesisLine: an initial-state file: contract entries whose declared tokens mostly sum to the supply, client
// allocations mostly within the contract's tokens; malformed variants (over-allocation, wrong total, overflow).
func genesisLine(r *rand.Rand) string {
	const supply = uint64(4000000000000000000)
	nsc := 1 + r.Intn(3)
	perm := r.Perm(nIDs)
	used := 0
	left := supply
	var parts []string
	for k := 0; k < nsc; k++ {
		scID := perm[used]
		used++
		tokens := left
		if k < nsc-1 {
			tokens = uint64(r.Int63n(int64(left/2) + 1))
		}
		left -= tokens
		switch r.Intn(14) {
		case 0:
			tokens++ // total no longer the supply
		case 1:
			tokens = 1<<64 - 1 // overflow of the running total (if another entry follows) or wrong total
		}
		s := fmt.Sprintf("%d:%d", scID, tokens)
		ncl := r.Intn(3)
		budget := tokens
		for c := 0; c < ncl && used < nIDs; c++ {
			amt := uint64(r.Int63n(int64(budget%(1<<62)) + 1))
			switch r.Intn(12) {
			case 0:
				amt = budget + 1 // over-allocation: must panic, never wrap
			case 1:
				amt = 1<<64 - 1
			}
			if amt <= budget {
				budget -= amt
			}
			s += fmt.Sprintf("/%d:%d", perm[used], amt)
			used++
		}
		parts = append(parts, s)
	}
	return "genesis " + strings.Join(parts, " ")
}

// up: spelling suffix for recipient id n. "p" (same-leaf spelling: the model lets reads of it see the account's
// balance) is only written when such a spelling exists for certain: the id's first hex digit is a letter and the
// case started from `init` (at least two accounts with different first digits, so the trie root branches).
func up(r *rand.Rand, n int, sameLeafOK bool) string {
	switch r.Intn(24) {
	case 0:
		return "u"
	case 1, 2:
		return alias(n, sameLeafOK)
	}
	return ""
}

// sameLeafCase: a zero-value send to the same-leaf spelling of an account whose balance, added to the sender's,
// overflows: sumOfFromToBalance reads the REAL balance through that spelling and rejects, where an all-upper-case
// spelling (no leaf answers) lets the zero transfer pass (found by the seed-2 sweep: the model read 0 for both).
func sameLeafCase() []string {
	dst := -1 // (main has run setup(): the ids are known)
	for i := 2; i < nIDs; i++ {
		if c := ids[i][0]; c >= 'a' && c <= 'f' {
			dst = i
			break
		}
	}
	if dst < 0 {
		return []string{"init 0 2:5:0"}
	}
	src := 2
	if dst == 2 {
		src = 3
	}
	return []string{
		fmt.Sprintf("init 0 0:79347:1 1:23748:2 %d:64866:0 %d:18446744073709551615:4", dst, src),
		fmt.Sprintf("txn send %d %dp 1 0 20 5 -", src, dst),
		fmt.Sprintf("txn send %d %du 1 0 20 5 -", src, dst),
		fmt.Sprintf("txn send %d %dp 1 1 20 6 -", src, dst),
	}
}

func alias(n int, sameLeafOK bool) string {
	if id := idOf(n); sameLeafOK && id[0] >= 'a' && id[0] <= 'f' {
		return "p"
	}
	return "u"
}

func gen(prop string) func(r *rand.Rand, thorough bool, i int) []string {
	return func(r *rand.Rand, thorough bool, i int) []string {
		fee := 1
		if r.Intn(4) == 0 {
			fee = 0
		}
		// balances: mostly modest, sometimes near the supply or near 2^64
		bal := make([]uint64, nIDs)
		nonce := make([]int64, nIDs)
		init := []string{"init", strconv.Itoa(fee)}
		firstDigits := map[byte]bool{} // of the accounts that get a leaf: two different ones make the trie root branch
		for k := 0; k < nIDs; k++ {
			switch r.Intn(12) {
			case 0:
				bal[k] = 0
			case 1:
				bal[k] = boundary[r.Intn(len(boundary))]
			default:
				bal[k] = 1000 + uint64(r.Intn(100000))
			}
			if r.Intn(3) == 0 {
				nonce[k] = int64(r.Intn(5))
			}
			if bal[k] != 0 || nonce[k] != 0 || r.Intn(2) == 0 {
				init = append(init, fmt.Sprintf("%d:%d:%d", k, bal[k], nonce[k]))
				firstDigits[idOf(k)[0]] = true
			}
		}
		ops := []string{strings.Join(init, " ")}
		sameLeafOK := len(firstDigits) >= 2
		if r.Intn(6) == 0 {
			sameLeafOK = false
			ops = []string{genesisLine(r)}
			for k := range nonce {
				nonce[k] = 1 // mustInitialState gives genesis accounts nonce 1 (ids not listed have 0: a few wrong guesses)
			}
		}
		n := 4 + r.Intn(14)
		if thorough {
			n = 4 + r.Intn(60)
		}
		cur := append([]int64(nil), nonce...) // generator's guess of the current nonces (to make most txns valid)
		for k := 0; k < n; k++ {
			sender := 2 + r.Intn(nIDs-2)
			if r.Intn(25) == 0 {
				sender = r.Intn(nIDs) // contract addresses as senders too
			}
			to := r.Intn(nIDs + 1) // nIDs = an id outside the universe
			nn := cur[sender] + 1
			switch r.Intn(28) { // adversarial nonce stream
			case 0:
				nn = cur[sender] // replay
			case 1:
				nn = cur[sender] + 2 // gap
			case 2:
				nn = int64(r.Intn(4)) - 1
			case 3:
				nn = 1<<63 - 1
			}
			typ := []string{"send", "send", "send", "sc", "sc", "sc", "sc", "sc", "sc", "data", "data", "invalid"}[r.Intn(12)]
			if prop == "C02" && r.Intn(2) == 0 {
				typ = "sc"
			}
			value := amount(r, 500)
			feeV := amount(r, 20)
			tv := "1"
			if r.Intn(15) == 0 {
				tv = "0"
			}
			res := "-"
			if typ == "sc" {
				kind := []string{"ok", "ok", "ok", "ok", "ok", "ok", "chg", "chg", "chg", "int", "-"}[r.Intn(11)]
				if prop == "C02" && r.Intn(2) == 0 {
					kind = "chg"
				}
				var parts []string
				m := r.Intn(5)
				for j := 0; j < m; j++ {
					switch r.Intn(8) {
					case 0:
						parts = append(parts, fmt.Sprintf("w,%d,%d", r.Intn(nKeys), r.Intn(1000)))
					case 1:
						parts = append(parts, fmt.Sprintf("d,%d", r.Intn(nKeys)))
					case 6:
						parts = append(parts, fmt.Sprintf("pu,%d,%d", r.Intn(nItems), r.Intn(1000)))
					case 7:
						if r.Intn(3) == 0 {
							parts = append(parts, fmt.Sprintf("pr,%d", r.Intn(nItems)))
						} else {
							parts = append(parts, fmt.Sprintf("pu,%d,%d", r.Intn(nItems), r.Intn(1000)))
						}
					case 2:
						dst := r.Intn(nIDs + 1)
						parts = append(parts, fmt.Sprintf("s,%d,%d%s,%d", r.Intn(nIDs), dst, up(r, dst, sameLeafOK), amount(r, 300)))
					default:
						src := r.Intn(nIDs)
						if r.Intn(2) == 0 {
							src = []int{sender, 1}[r.Intn(2)] // the usual sources: txn sender, the contract itself
						}
						dst := r.Intn(nIDs + 1)
						parts = append(parts, fmt.Sprintf("t,%d,%d%s,%d", src, dst, up(r, dst, sameLeafOK), amount(r, 300)))
					}
				}
				res = kind
				if len(parts) > 0 && kind != "-" && kind != "int" {
					res = kind + "|" + strings.Join(parts, ";")
				}
			}
			toTok := strconv.Itoa(to)
			switch r.Intn(28) {
			case 0, 1:
				toTok += "u" // upper-case spelling of the recipient id
			case 2, 3:
				toTok += alias(to, sameLeafOK) // same-leaf spelling of the recipient id (where one exists)
			case 4:
				toTok = strconv.Itoa(sender) + alias(sender, sameLeafOK) // ... of the sender's own id
			}
			ops = append(ops, fmt.Sprintf("txn %s %d %s %s %d %d %d %s", typ, sender, toTok, tv, value, feeV, nn, res))
			// optimistic nonce tracking (a wrong guess only makes a later txn invalid, which is also a case we want)
			if nn == cur[sender]+1 && typ != "invalid" && (typ != "sc" || (res != "int" && res != "-")) && tv == "1" && value <= 1000 && feeV <= 1000 {
				cur[sender] = nn
			}
		}
		return ops
	}
}

// ---------------------------------------------------------------- oracles (the properties, on the implementation's answers)

type acct struct {
	bal   *big.Int
	nonce int64
}

func parseState(out string) (status string, accts map[int]acct, store string, tot string, x string, ok bool) {
	f := strings.Fields(out)
	if len(f) != 5 {
		return "", nil, "", "", "", false
	}
	accts = map[int]acct{}
	as := strings.TrimPrefix(f[1], "a=")
	if as != "" {
		for _, p := range strings.Split(as, ",") {
			q := strings.Split(p, ":")
			id, _ := strconv.Atoi(q[0])
			b, _ := new(big.Int).SetString(q[1], 10)
			n, _ := strconv.ParseInt(q[2], 10, 64)
			accts[id] = acct{b, n}
		}
	}
	return f[0], accts, strings.TrimPrefix(f[2], "s="), strings.TrimPrefix(f[3], "tot="), strings.TrimPrefix(f[4], "x="), true
}

func getA(m map[int]acct, i int) acct {
	if a, ok := m[i]; ok {
		return a
	}
	return acct{new(big.Int), 0}
}

func oracle(prop string) func(ops, outs []string) *corr.Violation {
	return func(ops, outs []string) *corr.Violation {
		mk := func(sig, msg string, i int) *corr.Violation {
			return &corr.Violation{Signature: prop + ":" + sig, Message: fmt.Sprintf("op %d %q: %s", i, ops[i], msg), Ops: ops[:i+1], Impl: outs[:i+1]}
		}
		var prev map[int]acct
		prevStore, prevTot := "", ""
		feeOn := false
		two64 := new(big.Int).Lsh(big.NewInt(1), 64)
		for i, op := range ops {
			w := strings.Fields(op)
			if w[0] == "genesis" {
				feeOn = true
				if outs[i] == "panic" {
					return nil // node refuses to start: no chain, nothing to judge
				}
				_, cur, store, tot, _, ok := parseState(outs[i])
				if !ok {
					return mk("unparsable-answer", outs[i], i)
				}
				if prop == "C01" && tot != "4000000000000000000" {
					return mk("genesis-total-not-supply", "genesis accepted with total "+tot, i)
				}
				prev, prevStore, prevTot = cur, store, tot
				continue
			}
			if w[0] == "init" {
				feeOn = w[1] == "1"
				prev = map[int]acct{}
				tot := new(big.Int)
				for _, a := range w[2:] {
					q := strings.Split(a, ":")
					id, _ := strconv.Atoi(q[0])
					b, _ := new(big.Int).SetString(q[1], 10)
					n, _ := strconv.ParseInt(q[2], 10, 64)
					prev[id] = acct{b, n}
					tot.Add(tot, b)
				}
				prevStore, prevTot = "", tot.String()
				continue
			}
			if w[0] != "txn" {
				continue
			}
			status, cur, store, tot, x, ok := parseState(outs[i])
			if !ok {
				return mk("unparsable-answer", outs[i], i)
			}
			sender, _ := strconv.Atoi(w[2])
			fee, _ := new(big.Int).SetString(w[6], 10)
			value, _ := new(big.Int).SetString(w[5], 10)
			nonce, _ := strconv.ParseInt(w[7], 10, 64)
			if !feeOn {
				fee = new(big.Int)
			}
			changed := func(id int) bool {
				a, b := getA(prev, id), getA(cur, id)
				return a.bal.Cmp(b.bal) != 0 || a.nonce != b.nonce
			}
			switch prop {
			case "C01":
				if tot != prevTot {
					return mk("supply-changed", fmt.Sprintf("sum of all client balances in the trie %s -> %s", prevTot, tot), i)
				}
			case "C02":
				if w[1] == "sc" && strings.HasPrefix(w[8], "chg") && status != "rejected" {
					if status != "failed" {
						return mk("failing-call-not-marked-failed", "status "+status, i)
					}
					if store != prevStore {
						return mk("failing-call-left-writes", fmt.Sprintf("contract storage %q -> %q", prevStore, store), i)
					}
					if x != "0" {
						return mk("failing-call-changed-other-leaves", x+" unexpected trie leaves changed", i)
					}
					for id := 0; id <= nIDs; id++ {
						if id != sender && id != 0 && changed(id) {
							return mk("failing-call-changed-other-account", fmt.Sprintf("account %d changed", id), i)
						}
					}
					ps, cs := getA(prev, sender), getA(cur, sender)
					if cs.nonce != ps.nonce+1 {
						return mk("failing-call-nonce", fmt.Sprintf("sender nonce %d -> %d", ps.nonce, cs.nonce), i)
					}
					if sender != 0 {
						if new(big.Int).Sub(ps.bal, cs.bal).Cmp(fee) != 0 {
							return mk("failing-call-sender-paid-not-fee", fmt.Sprintf("sender %s -> %s, fee %s", ps.bal, cs.bal, fee), i)
						}
						pm, cm := getA(prev, 0), getA(cur, 0)
						if new(big.Int).Sub(cm.bal, pm.bal).Cmp(fee) != 0 {
							return mk("failing-call-miner-got-not-fee", fmt.Sprintf("miner sc %s -> %s, fee %s", pm.bal, cm.bal, fee), i)
						}
					}
				}
			case "C03":
				ps, cs := getA(prev, sender), getA(cur, sender)
				if status != "rejected" {
					if nonce != ps.nonce+1 {
						return mk("applied-with-wrong-nonce", fmt.Sprintf("state nonce %d, txn nonce %d, status %s", ps.nonce, nonce, status), i)
					}
					if cs.nonce != nonce {
						return mk("nonce-not-advanced-by-one", fmt.Sprintf("after: %d, txn nonce %d", cs.nonce, nonce), i)
					}
				}
				for id := 0; id <= nIDs; id++ {
					if (id != sender || status == "rejected") && getA(prev, id).nonce != getA(cur, id).nonce {
						return mk("foreign-nonce-changed", fmt.Sprintf("account %d nonce %d -> %d", id, getA(prev, id).nonce, getA(cur, id).nonce), i)
					}
				}
			case "C05":
				if status == "rejected" {
					for id := 0; id <= nIDs; id++ {
						if changed(id) {
							return mk("rejected-txn-changed-balance", fmt.Sprintf("account %d changed by a rejected transaction", id), i)
						}
					}
					if store != prevStore || x != "0" {
						return mk("rejected-txn-changed-state", "storage changed by a rejected transaction", i)
					}
				}
				for id, a := range cur {
					if a.bal.Sign() < 0 || a.bal.Cmp(two64) >= 0 {
						return mk("balance-out-of-range", fmt.Sprintf("account %d balance %s", id, a.bal), i)
					}
				}
				// overdraw / wrap: replay the settlement queue with exact integers; if any step overdraws or overflows,
				// the transaction must have been rejected
				if q, known := queueOf(w, feeOn); known && status != "rejected" {
					sim := map[int]*big.Int{}
					get := func(id int) *big.Int {
						if v, ok := sim[id]; ok {
							return v
						}
						v := new(big.Int).Set(getA(prev, id).bal)
						sim[id] = v
						return v
					}
					for _, t := range q {
						if t.amt.Sign() == 0 {
							continue
						}
						if t.src == t.dst || get(t.src).Cmp(t.amt) < 0 || new(big.Int).Add(get(t.dst), t.amt).Cmp(two64) >= 0 {
							return mk("overdraw-or-wrap-applied", fmt.Sprintf("transfer %d->%d of %s cannot be covered, yet status %s", t.src, t.dst, t.amt, status), i)
						}
						get(t.src).Sub(get(t.src), t.amt)
						get(t.dst).Add(get(t.dst), t.amt)
					}
					for id, v := range sim {
						if id <= nIDs && getA(cur, id).bal.Cmp(v) != 0 {
							return mk("balance-not-exact", fmt.Sprintf("account %d: expected %s, got %s", id, v, getA(cur, id).bal), i)
						}
					}
				}
				_ = value
			case "C04":
				// nobody but the sources of the settlement queue is debited; the sender at most value+fee unless the
				// contract itself queued more from the sender (the scripted contract may: that is the contract's doing)
				if q, known := queueOf(w, feeOn); known && status != "rejected" {
					src := map[int]bool{}
					for _, t := range q {
						src[t.src] = true
					}
					for id := 0; id <= nIDs; id++ {
						if !src[id] && getA(cur, id).bal.Cmp(getA(prev, id).bal) < 0 {
							return mk("non-source-debited", fmt.Sprintf("account %d lost tokens without being a transfer source", id), i)
						}
					}
				}
			}
			prev, prevStore, prevTot = cur, store, tot
		}
		return nil
	}
}

type tr struct {
	src, dst int
	amt      *big.Int
}

// queueOf: the settlement queue the transaction line implies (transfers, fee, signed transfers).
func queueOf(w []string, feeOn bool) ([]tr, bool) {
	sender, _ := strconv.Atoi(w[2])
	to, toCanon := tok(w[3])
	value, _ := new(big.Int).SetString(w[5], 10)
	fee, _ := new(big.Int).SetString(w[6], 10)
	var q, sg []tr
	if !toCanon && w[1] == "send" {
		return nil, false // non-canonical recipient spelling: judged by the supply oracle (C01), not by the queue replay
	}
	switch w[1] {
	case "send":
		q = append(q, tr{sender, to, value})
	case "data":
	case "sc":
		parts := strings.SplitN(w[8], "|", 2)
		if parts[0] == "ok" && len(parts) == 2 {
			for _, o := range strings.Split(parts[1], ";") {
				f := strings.Split(o, ",")
				if f[0] == "t" || f[0] == "s" {
					a, _ := strconv.Atoi(f[1])
					b, canon := tok(f[2])
					if !canon {
						return nil, false
					}
					amt, _ := new(big.Int).SetString(f[3], 10)
					if f[0] == "t" {
						q = append(q, tr{a, b, amt})
					} else {
						sg = append(sg, tr{a, b, amt})
					}
				}
			}
		}
	default:
		return nil, false
	}
	if feeOn {
		q = append(q, tr{sender, 0, fee})
	}
	return append(q, sg...), true
}

// stressFor: C02 also checks that the cacheable state values clone without sharing memory (clones.go).
func stressFor(p string) func(bool, int64) []corr.Violation {
	if p == "C02" {
		return cloneIndependence
	}
	return nil
}

func main() {
	prop := flag.String("prop", "C01", "which property's oracle and generator bias to use")
	// corr.Main parses the flags; -prop must be known before, so peek at os.Args
	setup()
	p := "C01"
	for i, a := range flagArgs() {
		if a == "-prop" && i+1 < len(flagArgs()) {
			p = flagArgs()[i+1]
		}
		if strings.HasPrefix(a, "-prop=") {
			p = strings.TrimPrefix(a, "-prop=")
		}
	}
	_ = prop
	corr.Main(corr.Prop{
		ID: p, Model: "LEDGER", Gen: gen(p), Impl: impl, Oracle: oracle(p), Serial: true, Stress: stressFor(p),
		Cases: func(th bool) int {
			if th {
				return 6000
			}
			return 1200
		},
		Fixed: [][]string{
			{"genesis 1:3999999999999999000/5:100/6:7 2:1000", "txn send 5 6 1 10 1 2 -"},
			{"genesis 1:4000000000000000000/5:4000000000000000001"},      // over-allocation: must panic
			{"genesis 1:4000000000000000000/5:18446744073709551615/6:2"}, // sum of client tokens overflows
			{"genesis 1:3999999999999999999 2:2"},                        // wrong total
			{"genesis 1:18446744073709551615 2:4000000000000000001"},     // running total overflows

			{"init 0 2:1000:0 3:600:0", "txn send 2 2u 1 10 0 1 -", "txn send 2 3u 1 7 0 2 -", "txn sc 2 1 1 0 0 3 ok|t,2,3u,5;t,3,2,1", "txn send 2 3u 1 0 0 1 -"},
			{"init 1 2:1000:4 3:5:0", "txn send 2 3 1 100 10 5 -", "txn sc 2 1 1 0 10 6 ok|t,2,3,50;w,1,9;s,3,2,1", "txn sc 2 1 1 0 10 7 chg|w,1,1;t,1,3,5", "txn sc 2 1 1 0 10 8 int", "txn send 2 3 1 100 10 5 -"},
			{"init 1 2:18446744073709551615:0 3:1:0", "txn send 2 3 1 1 0 1 -", "txn send 3 2 1 1 0 1 -", "txn send 3 2 1 2 0 1 -"},
			{"init 1 2:100:0", "txn send 2 3 1 1 18446744073709551615 1 -", "txn send 2 3 1 4000000000000000001 0 1 -", "txn sc 2 1 1 0 1 1 ok|t,2,2,5", "txn sc 2 1 1 0 1 1 ok|t,2,3,5;t,3,4,5;t,4,2,6"},
			sameLeafCase(),
		},
		Nontrivial: func(ops, outs []string) bool {
			k := map[string]bool{}
			for _, o := range outs {
				k[strings.Fields(o + " x")[0]] = true
			}
			return len(ops) >= 4 && len(k) >= 3
		},
	})
	_ = sort.Strings
}
