// C38 harness (under construction): script mode.
package main

import (
	"bufio"
	"fmt"
	"math/rand"
	"os"
	"strconv"
	"strings"
)

// permTable is rand.Perm(k) of the seed for k = 0..n, ';'-separated, as the init/finalize ops carry it.
func permTable(seed int64, n int) string {
	var parts []string
	for k := 0; k <= n; k++ {
		p := rand.New(rand.NewSource(seed)).Perm(k)
		s := make([]string, len(p))
		for i, v := range p {
			s[i] = strconv.Itoa(v)
		}
		parts = append(parts, strings.Join(s, ","))
	}
	return strings.Join(parts, ";")
}

func impl(ops []string) []string {
	outs := make([]string, len(ops))
	var wd *world
	for i, op := range ops {
		func() {
			defer func() {
				if r := recover(); r != nil {
					outs[i] = fmt.Sprintf("panic %v", r)
				}
			}()
			ws := strings.Fields(op)
			if len(ws) == 0 {
				outs[i] = "bad-op"
				return
			}
			if ws[0] == "init" {
				var r string
				wd, r = newWorld(ws[1:])
				outs[i] = r
				return
			}
			if wd == nil {
				outs[i] = "bad-op"
				return
			}
			outs[i] = wd.step(ws)
		}()
	}
	return outs
}

func main() {
	if f := os.Getenv("VERIF_C38_SCRIPT"); f != "" {
		fh, _ := os.Open(f)
		sc := bufio.NewScanner(fh)
		sc.Buffer(make([]byte, 1<<20), 1<<24)
		var ops []string
		for sc.Scan() {
			if l := strings.TrimSpace(sc.Text()); l != "" && !strings.HasPrefix(l, "#") {
				if strings.Contains(l, "perms=auto") {
					seed, _ := strconv.ParseInt(kv(strings.Fields(l))["seed"], 10, 64)
					l = strings.Replace(l, "perms=auto", "perms="+permTable(seed, nMinerKeys), 1)
				}
				ops = append(ops, l)
			}
		}
		for i, o := range impl(ops) {
			op := ops[i]
			if len(op) > 60 {
				op = op[:60] + "..."
			}
			fmt.Printf("%-40s => %s\n", op, o)
		}
	}
}
