// C38 harness: the real miner contract's view-change phase machine (real Chain.UpdateState on a real state, view change
// enabled, real BLS material) against Model/ViewChange.lean, plus the property oracle.
//
// Ops (one line each; see Drv/C38.lean): init …, pay, skip, mpk, sos, wait, keep, addm, adds, finalize.
// `pay` closes the block with the generator's payFees and answers with a snapshot of what the contract stores
// (phase node, DKG list, T/K/N, MPK ids, share ids, waited ids, keep list, stored magic block, gn.ViewChange,
// gn.PrevMagicBlock); hooks/minersc_c38.go reads the unexported nodes.
package main

import (
	"bufio"
	"bytes"
	"fmt"
	"math"
	"math/rand"
	"os"
	"os/exec"
	"runtime/debug"
	"sort"
	"strconv"
	"strings"

	"0chain.net/smartcontract/minersc"
	"verifharness/lib/corr"
)

// permTable is rand.Perm(k) of the seed for k = 0..n, ';'-separated, as the init/finalize ops carry it.
func permTable(seed int64, n int) string {
	var parts []string
	for k := 0; k <= n; k++ {
		p := rand.New(rand.NewSource(seed)).Perm(k)
		s := make([]string, len(p))
		for i, v := range p {
			s[i] = strconv.Itoa(v)
		}
		parts = append(parts, strings.Join(s, ","))
	}
	return strings.Join(parts, ";")
}

func normPay(r string) string {
	switch {
	case r == "ok":
		return "ok"
	case strings.HasPrefix(r, "panic"):
		return "panic"
	}
	return "fail"
}

func impl(ops []string) []string {
	outs := make([]string, len(ops))
	var wd *world
	for i, op := range ops {
		func() {
			defer func() {
				if r := recover(); r != nil {
					outs[i] = "panic"
				}
			}()
			ws := strings.Fields(op)
			if len(ws) == 0 {
				outs[i] = "bad-op"
				return
			}
			if ws[0] == "init" {
				var r string
				wd, r = newWorld(ws[1:])
				outs[i] = r
				return
			}
			if wd == nil {
				outs[i] = "bad-op"
				return
			}
			outs[i] = wd.step(ws)
		}()
	}
	return outs
}

// probe replays the prefix in a child process and runs one more op there: a nil dereference inside the goroutine
// that Chain.ExecuteSmartContract starts cannot be recovered in-process.
func probe(prefix []string, op string) string {
	f, err := os.CreateTemp("", "c38-probe-*.txt")
	if err != nil {
		return "probe-error"
	}
	defer os.Remove(f.Name())
	for _, o := range prefix {
		fmt.Fprintln(f, o)
	}
	fmt.Fprintln(f, op)
	f.Close()
	cmd := exec.Command(os.Args[0])
	cmd.Env = append(os.Environ(), "VERIF_C38_SCRIPT="+f.Name(), "VERIF_C38_UNGUARDED=1")
	var out, errb bytes.Buffer
	cmd.Stdout, cmd.Stderr = &out, &errb
	err = cmd.Run()
	if err != nil {
		if strings.Contains(errb.String(), "nil pointer dereference") && strings.Contains(errb.String(), "ShareOrSigns).Validate") {
			return "crash"
		}
		return "probe-died " + firstLine(errb.String())
	}
	lines := strings.Split(strings.TrimSpace(out.String()), "\n")
	last := lines[len(lines)-1]
	if j := strings.Index(last, "=> "); j >= 0 {
		return last[j+3:]
	}
	return "probe-error"
}

func firstLine(s string) string {
	if i := strings.IndexByte(s, '\n'); i >= 0 {
		s = s[:i]
	}
	return strings.ReplaceAll(s, " ", "_")
}

func scriptMode(path string) {
	fh, err := os.Open(path)
	if err != nil {
		fmt.Fprintln(os.Stderr, err)
		os.Exit(2)
	}
	sc := bufio.NewScanner(fh)
	sc.Buffer(make([]byte, 1<<20), 1<<26)
	var ops []string
	for sc.Scan() {
		if l := strings.TrimSpace(sc.Text()); l != "" && !strings.HasPrefix(l, "#") {
			if strings.Contains(l, "perms=auto") {
				seed, _ := strconv.ParseInt(kv(strings.Fields(l))["seed"], 10, 64)
				l = strings.Replace(l, "perms=auto", "perms="+permTable(seed, nMinerKeys), 1)
			}
			ops = append(ops, l)
		}
	}
	var mo []string
	if z := os.Getenv("VERIF_C38_ZDRV"); z != "" {
		mo, _ = corr.RunModel(z, "C38", ops)
	}
	for i, o := range impl(ops) {
		op := ops[i]
		if len(op) > 50 {
			op = op[:50] + "..."
		}
		fmt.Printf("%-34s => %s\n", op, o)
		if mo != nil && i < len(mo) && mo[i] != o {
			fmt.Printf("%-34s MODEL %s\n", "", mo[i])
		}
	}
}

// ---------------------------------------------------------------------------------------------------------------
// generator: a director that looks at the real contract state while it writes the script, so that view changes
// get through all phases, with out-of-phase, duplicated, invalid and foreign transactions mixed in.

func bitsOf(f float64) string { return fmt.Sprintf("%016x", math.Float64bits(f)) }

func pick[T any](r *rand.Rand, l []T) T { return l[r.Intn(len(l))] }

func gen(r *rand.Rand, thorough bool, caseNo int) []string {
	setup()
	minN := 1 + r.Intn(4)
	maxN := minN + r.Intn(5)
	minS := 1 + r.Intn(2)
	maxS := minS + r.Intn(3)
	tp := pick(r, []float64{0.66, 0.5, 0.66, 0.34, 1})
	kp := pick(r, []float64{0.75, 0.5, 0.75, 0.6, 1, 0.28})
	xp := pick(r, []float64{0.7, 0.7, 0.35, 0.5, 1, 0.28, 0.1})
	if r.Intn(25) == 0 {
		xp = 0
	}
	var rounds []string
	for i := 0; i < 5; i++ {
		rounds = append(rounds, strconv.Itoa(1+r.Intn(4)))
	}
	nPrevM := 2 + r.Intn(4)
	perm := r.Perm(8)
	var prevM, miners []string
	stakes := []uint64{0, 10, 10, 20, 20, 30, 5}
	for i, m := range perm {
		lb := fmt.Sprintf("m%d", m)
		if i < nPrevM {
			prevM = append(prevM, lb)
			if r.Intn(8) != 0 {
				miners = append(miners, fmt.Sprintf("%s:%d", lb, pick(r, stakes)))
			}
		} else if r.Intn(3) != 0 {
			miners = append(miners, fmt.Sprintf("%s:%d", lb, pick(r, stakes)))
		}
	}
	r.Shuffle(len(miners), func(i, j int) { miners[i], miners[j] = miners[j], miners[i] })
	nPrevS := 1 + r.Intn(3)
	sp := r.Perm(nSharderKeys)
	var prevS, sharders []string
	for i, s := range sp {
		lb := fmt.Sprintf("s%d", s)
		if i < nPrevS {
			prevS = append(prevS, lb)
			// (the first one always: payFees divides by the number of registered magic-block sharders)
			if i == 0 || r.Intn(8) != 0 {
				sharders = append(sharders, fmt.Sprintf("%s:%d", lb, pick(r, stakes)))
			}
		} else if r.Intn(2) == 0 {
			sharders = append(sharders, fmt.Sprintf("%s:%d", lb, pick(r, stakes)))
		}
	}
	seed := r.Int63()
	orDash := func(l []string) string {
		if len(l) == 0 {
			return "-"
		}
		return strings.Join(l, ",")
	}
	init := fmt.Sprintf("init minN=%d maxN=%d minS=%d maxS=%d t=%s k=%s x=%s rounds=%s miners=%s sharders=%s prevM=%s prevS=%s seed=%d perms=%s",
		minN, maxN, minS, maxS, bitsOf(tp), bitsOf(kp), bitsOf(xp), strings.Join(rounds, ","), orDash(miners), orDash(sharders),
		strings.Join(prevM, ","), strings.Join(prevS, ","), seed, permTable(seed, nMinerKeys))
	ops := []string{init}
	wd, res := newWorld(strings.Fields(init)[1:])
	if res != "ok" {
		return ops
	}
	emit := func(op string) string {
		ops = append(ops, op)
		return wd.step(strings.Fields(op))
	}
	anyMiner := func() string { return fmt.Sprintf("m%d", r.Intn(10)) }
	anyClient := func() string {
		if r.Intn(3) == 0 {
			return fmt.Sprintf("x%d", r.Intn(2))
		}
		return anyMiner()
	}
	nRounds := 35 + r.Intn(45)
	if thorough {
		nRounds = 60 + r.Intn(140)
	}
	probes := 0
	finalized := "" // number/start of the magic block the chain has as its latest finalized one
	for rd := 0; rd < nRounds; rd++ {
		st, err := minersc.VerifC38Read(wd.w.SCtx())
		if err != nil {
			break
		}
		phase := 0
		if st.HasPhase {
			phase = st.Phase
		}
		var dkg []string
		for _, id := range st.DKG {
			dkg = append(dkg, labelOf[id])
		}
		var mpkIDs []string
		for _, id := range st.Mpks {
			mpkIDs = append(mpkIDs, labelOf[id])
		}
		hasMpk := func(l string) bool {
			for _, x := range mpkIDs {
				if x == l {
					return true
				}
			}
			return false
		}
		lazy := r.Intn(6) == 0 // a round in which little happens (so that some DKGs fail and restart)
		switch phase {
		case 0:
			if r.Intn(6) == 0 {
				lb := fmt.Sprintf("m%d", r.Intn(10))
				emit(fmt.Sprintf("addm %s %d", lb, pick(r, stakes)))
			}
			if r.Intn(10) == 0 {
				emit(fmt.Sprintf("adds s%d %d", r.Intn(nSharderKeys), pick(r, stakes)))
			}
		case 1:
			for _, m := range dkg {
				if lazy || r.Intn(5) == 0 {
					continue
				}
				size := st.T
				switch r.Intn(14) {
				case 0:
					size = st.T + 1
				case 1:
					if size > 0 {
						size--
					}
				}
				op := fmt.Sprintf("mpk %s %d", m, size)
				switch r.Intn(16) {
				case 0:
					op += " as=" + anyClient()
				case 1:
					op += " as=" + pick(r, dkg)
				}
				emit(op)
				if r.Intn(12) == 0 {
					emit(op) // duplicate
				}
			}
			if r.Intn(8) == 0 {
				emit(fmt.Sprintf("mpk %s %d", anyClient(), st.T)) // mostly a non-member
			}
			for i := 0; i < nSharderKeys; i++ {
				if lazy {
					break
				}
				if r.Intn(3) == 0 {
					emit(fmt.Sprintf("keep %s s%d", anyClient(), i))
				}
			}
			curPrevS := prevS
			if st.HasPrevMB {
				curPrevS = nil
				for _, id := range st.PrevSharders {
					curPrevS = append(curPrevS, labelOf[id])
				}
			}
			for _, s := range curPrevS {
				if !lazy && r.Intn(3) != 0 {
					emit(fmt.Sprintf("keep %s %s", anyClient(), s))
				}
			}
		case 3:
			nOthers := len(dkg) - 1
			for _, m := range dkg {
				if lazy || r.Intn(6) == 0 || !hasMpk(m) {
					continue
				}
				count := nOthers
				switch r.Intn(10) {
				case 0:
					count = st.K - 2
				case 1:
					count = st.K - 1
				case 2:
					count = nOthers + 2
				}
				if count < 0 {
					count = 0
				}
				v := "valid"
				if r.Intn(10) == 0 && count > 0 {
					v = "bad"
				}
				op := fmt.Sprintf("sos %s %d %s", m, count, v)
				emit(op)
				if r.Intn(12) == 0 {
					emit(op)
				}
			}
			if len(mpkIDs) > 0 && r.Intn(6) == 0 {
				// somebody replays the shares of a contributor
				emit(fmt.Sprintf("sos %s %d valid as=%s", anyClient(), nOthers, pick(r, mpkIDs)))
			}
			if probes < 2 && r.Intn(12) == 0 {
				// shares under an id that has no MPK
				probes++
				emit(fmt.Sprintf("sos %s %d valid", anyClient(), nOthers+r.Intn(2)))
			}
		case 4:
			for _, m := range dkg {
				if lazy || r.Intn(7) == 0 {
					continue
				}
				emit("wait " + m)
				if r.Intn(10) == 0 {
					emit("wait " + m)
				}
			}
			if r.Intn(6) == 0 {
				emit("wait " + anyClient())
			}
		}
		// out-of-phase noise: transactions that would be accepted if only their phase test were missing
		if r.Intn(5) == 0 {
			switch r.Intn(4) {
			case 0:
				if phase != 1 && len(dkg) > 0 {
					emit(fmt.Sprintf("mpk %s %d as=x%d", pick(r, dkg), st.T, r.Intn(2)))
				} else {
					emit(fmt.Sprintf("mpk %s %d", anyMiner(), st.T))
				}
			case 1:
				if phase != 3 && len(mpkIDs) > 0 {
					emit(fmt.Sprintf("sos %s %d valid", pick(r, mpkIDs), len(dkg)))
				} else if len(mpkIDs) > 0 || phase != 3 {
					emit(fmt.Sprintf("sos %s 0 valid", anyMiner()))
				}
			case 2:
				if phase != 4 && len(dkg) > 0 {
					emit("wait " + pick(r, dkg))
				} else {
					emit("wait " + anyClient())
				}
			case 3:
				emit(fmt.Sprintf("keep %s s%d", anyClient(), r.Intn(nSharderKeys)))
			}
		}
		if r.Intn(25) == 0 {
			emit("skip")
		} else {
			out := emit("pay")
			_ = out
		}
		// finalization of the block that carried a magic block into force: usually at once, sometimes a few rounds
		// later, but always before the next DKG reaches its final reductions (they read the chain's latest finalized set)
		if st2, err := minersc.VerifC38Read(wd.w.SCtx()); err == nil && st2.HasMB && st2.HasPrevMB &&
			st2.PrevMBNumber == st2.MBNumber && st2.PrevMBStart == st2.MBStart {
			key := fmt.Sprintf("%d/%d", st2.MBNumber, st2.MBStart)
			if key != finalized && (r.Intn(3) != 0 || (st2.HasPhase && st2.Phase >= 2)) {
				s2 := r.Int63()
				emit(fmt.Sprintf("finalize seed=%d perms=%s", s2, permTable(s2, nMinerKeys)))
				finalized = key
			}
		}
	}
	return ops
}

// ---------------------------------------------------------------------------------------------------------------
// oracle: C38 stated on the implementation's answers.

type snap struct {
	hasPN                      bool
	phase                      int
	start, cur, restarts       int64
	dkg                        map[string]bool
	T, K                       int
	mpks, gsos, waited, keep   map[string]bool
	hasMB                      bool
	mbNumber, mbStart          int64
	mbM, mbS, mbVM, mbVS       map[string]bool
	vc                         int64
	hasPrev                    bool
	prevM, prevS               map[string]bool
}

func setOf(s string) map[string]bool {
	m := map[string]bool{}
	if s == "-" || s == "" {
		return m
	}
	for _, x := range strings.Split(s, ",") {
		m[x] = true
	}
	return m
}

func parseSnap(out string) (sn snap, ok bool) {
	parts := strings.Split(out, " | ")
	if len(parts) < 10 {
		return sn, false
	}
	f := strings.Fields(parts[1])
	if len(f) == 5 {
		sn.hasPN = true
		sn.phase, _ = strconv.Atoi(f[1])
		sn.start, _ = strconv.ParseInt(f[2], 10, 64)
		sn.cur, _ = strconv.ParseInt(f[3], 10, 64)
		sn.restarts, _ = strconv.ParseInt(f[4], 10, 64)
	}
	f = strings.Fields(parts[2])
	if len(f) < 4 {
		return sn, false
	}
	sn.dkg = setOf(f[1])
	sn.T, _ = strconv.Atoi(strings.TrimPrefix(f[2], "T="))
	sn.K, _ = strconv.Atoi(strings.TrimPrefix(f[3], "K="))
	get := func(p string) map[string]bool { f := strings.Fields(p); return setOf(f[len(f)-1]) }
	sn.mpks, sn.gsos, sn.waited, sn.keep = get(parts[3]), get(parts[4]), get(parts[5]), get(parts[6])
	f = strings.Fields(parts[7])
	if len(f) >= 10 {
		sn.hasMB = true
		sn.mbNumber, _ = strconv.ParseInt(f[1], 10, 64)
		sn.mbStart, _ = strconv.ParseInt(f[2], 10, 64)
		sn.mbM, sn.mbS = setOf(strings.TrimPrefix(f[6], "m=")), setOf(strings.TrimPrefix(f[7], "s="))
		sn.mbVM, sn.mbVS = setOf(strings.TrimPrefix(f[8], "vm=")), setOf(strings.TrimPrefix(f[9], "vs="))
	}
	f = strings.Fields(parts[8])
	sn.vc, _ = strconv.ParseInt(f[1], 10, 64)
	f = strings.Fields(parts[9])
	if len(f) == 3 {
		sn.hasPrev = true
		sn.prevM, sn.prevS = setOf(strings.TrimPrefix(f[1], "m=")), setOf(strings.TrimPrefix(f[2], "s="))
	}
	return sn, true
}

// the findings still listed as known (x_percent = 0 is not range-checked); every other signature is a violation,
// among them the repaired ones: mpk-accepted-twice-from-one-miner (156160f), sos-accepted-from-non-member and
// sos-with-unknown-mpk-id-crashes-node (2f3cfcd), wait-accepted-from-non-member (0a444b0),
// stored-magic-block-pools-have-no-visible-members (964b895)
var known = map[string]int{
	"C38:magic-block-without-previous-miner-at-x-percent-0": 6,
	"C38:pay-fees-panics-at-x-percent-0":                    7,
}

func prio(sig string) int {
	if p, ok := known[sig]; ok {
		return p
	}
	return 100
}

var stat struct {
	pays, advances, restarts, cycles, mpkOK, sosOK, waitOK, rejected, mbs, vcDone, vcCancelled, multiVC int64
	phaseSeen                                                                              [5]int64
}

func oracle(ops, outs []string) *corr.Violation {
	var first *corr.Violation
	note := func(i int, sig, msg string) {
		v := &corr.Violation{Signature: "C38:" + sig, Message: fmt.Sprintf("op %d %q: %s", i, trunc(ops[i]), msg), Ops: ops, Impl: outs}
		// an unlisted kind of failure first; among the listed ones the rarer first, so that every kind gets its replay
		if first == nil || prio(v.Signature) > prio(first.Signature) {
			first = v
		}
	}
	if len(ops) == 0 || !strings.HasPrefix(ops[0], "init ") || outs[0] != "ok" {
		return nil
	}
	a := kv(strings.Fields(ops[0]))
	var rounds [5]int64
	for i, x := range strings.Split(a["rounds"], ",") {
		if i < 5 {
			rounds[i], _ = strconv.ParseInt(x, 10, 64)
		}
	}
	prevM, prevS := setOf(a["prevM"]), setOf(a["prevS"])
	xPositive := false
	if x, ok := f64(a["x"]); ok && x > 0 {
		xPositive = true
	}
	atX0 := func(sig string) string {
		if xPositive {
			return sig
		}
		return sig + "-at-x-percent-0"
	}
	var cur snap // what the contract held after the last payFees
	cur.dkg, cur.mpks, cur.gsos, cur.waited, cur.keep = map[string]bool{}, map[string]bool{}, map[string]bool{}, map[string]bool{}, map[string]bool{}
	mpkBy, sosBy, waitBy := map[string]int{}, map[string]int{}, map[string]int{}
	nMpk, nSos := 0, 0 // accepted since the last snapshot
	lastMB := int64(-1)
	vcInCase := 0
	mpkSenders := map[string]bool{} // miners whose own contribution was accepted for the current MPK list
	for i := 1; i < len(ops); i++ {
		ws := strings.Fields(ops[i])
		out := outs[i]
		phase := 0
		if cur.hasPN {
			phase = cur.phase
		}
		switch ws[0] {
		case "mpk":
			if out != "ok" {
				stat.rejected++
				continue
			}
			stat.mpkOK++
			size, _ := strconv.Atoi(ws[2])
			switch {
			case phase != 1:
				note(i, "mpk-accepted-out-of-phase", fmt.Sprintf("accepted in phase %d", phase))
			case !cur.dkg[ws[1]]:
				note(i, "mpk-accepted-from-non-member", "sender is not in the DKG miners list")
			case size != cur.T:
				note(i, "mpk-accepted-with-wrong-size", fmt.Sprintf("size %d, T = %d", size, cur.T))
			case mpkBy[ws[1]] > 0:
				note(i, "mpk-accepted-twice-from-one-miner", fmt.Sprintf("miner %s had already contributed in this phase", ws[1]))
			}
			mpkBy[ws[1]]++
			mpkSenders[ws[1]] = true
			nMpk++
		case "sos":
			if out == "crash" {
				note(i, "sos-with-unknown-mpk-id-crashes-node", "nil dereference in ShareOrSigns.Validate (chaincore/block/sos.go:65: no MPK under the payload's id); the contract runs in a goroutine without recover (chaincore/chain/state.go:144), so the process dies")
				continue
			}
			if out != "ok" {
				stat.rejected++
				continue
			}
			stat.sosOK++
			count, _ := strconv.Atoi(ws[2])
			switch {
			case phase != 3:
				note(i, "sos-accepted-out-of-phase", fmt.Sprintf("accepted in phase %d", phase))
			case count < cur.K-1:
				note(i, "sos-accepted-with-too-few-entries", fmt.Sprintf("%d entries, K-1 = %d", count, cur.K-1))
			case ws[3] != "valid":
				note(i, "sos-accepted-invalid", "payload with a share that does not verify was accepted")
			case sosBy[ws[1]] > 0:
				note(i, "sos-accepted-twice", "second acceptance for the same sender in one phase")
			case !cur.dkg[ws[1]]:
				note(i, "sos-accepted-from-non-member", fmt.Sprintf("%s is not in the DKG miners list", ws[1]))
			}
			sosBy[ws[1]]++
			nSos++
		case "wait":
			if out != "ok" {
				stat.rejected++
				continue
			}
			stat.waitOK++
			switch {
			case phase != 4:
				note(i, "wait-accepted-out-of-phase", fmt.Sprintf("accepted in phase %d", phase))
			case waitBy[ws[1]] > 0:
				note(i, "wait-accepted-twice", "second acceptance for the same sender in one phase")
			case !cur.dkg[ws[1]]:
				note(i, "wait-accepted-from-non-member", fmt.Sprintf("%s is not in the DKG miners list", ws[1]))
			}
			waitBy[ws[1]]++
		case "pay":
			stat.pays++
			if !strings.HasPrefix(out, "ok | ") {
				if strings.HasPrefix(out, "panic") {
					note(i, atX0("pay-fees-panics"), "payFees panicked (in a node: the process ends)")
				}
				continue
			}
			sn, ok := parseSnap(out)
			if !ok || !sn.hasPN {
				note(i, "no-phase-node", "payFees succeeded but stored no phase node")
				continue
			}
			stat.phaseSeen[sn.phase%5]++
			// the phase node GetPhaseNode handed to setPhaseNode
			old := cur
			if !old.hasPN {
				old.hasPN, old.phase, old.start, old.restarts = true, 0, sn.cur, 0
			}
			elapsed := sn.cur-old.start >= rounds[old.phase%5]
			switch {
			case sn.phase == old.phase && sn.start == old.start && sn.restarts == old.restarts:
				// no move
			case sn.restarts == old.restarts+1 && sn.phase == 0 && sn.start == sn.cur:
				stat.restarts++
				if !elapsed {
					note(i, "restart-before-phase-rounds", fmt.Sprintf("restart after %d rounds of phase %d (configured %d)", sn.cur-old.start, old.phase, rounds[old.phase%5]))
				}
			case (sn.phase == old.phase+1 && old.phase < 4 && sn.restarts == old.restarts || old.phase == 4 && sn.phase == 0 && sn.restarts == 0) && sn.start == sn.cur:
				stat.advances++
				if old.phase == 4 {
					stat.cycles++
				}
				if !elapsed {
					note(i, "advance-before-phase-rounds", fmt.Sprintf("phase %d left after %d rounds (configured %d)", old.phase, sn.cur-old.start, rounds[old.phase%5]))
				}
				// the phase's condition, as far as the snapshots show it
				switch old.phase {
				case 1, 2:
					if n := len(old.mpks) + nMpk; n < old.K {
						note(i, "advance-without-condition", fmt.Sprintf("Contribute left with %d MPKs, K = %d", n, old.K))
					}
				case 3:
					if n := len(old.gsos) + nSos; n < old.K {
						note(i, "advance-without-condition", fmt.Sprintf("Publish left with %d shares, K = %d", n, old.K))
					}
				}
			default:
				note(i, "phase-order", fmt.Sprintf("phase node went from (phase %d start %d restarts %d) to (phase %d start %d restarts %d)", old.phase, old.start, old.restarts, sn.phase, sn.start, sn.restarts))
			}
			if sn.phase != old.phase || sn.restarts != old.restarts {
				mpkBy, sosBy, waitBy = map[string]int{}, map[string]int{}, map[string]int{}
			}
			// recorded under the sender's id: every stored MPK key is a miner whose own contribution was accepted
			for id := range sn.mpks {
				if !mpkSenders[id] {
					note(i, "mpk-recorded-under-foreign-id", fmt.Sprintf("an MPK is stored under %s, which did not contribute itself", id))
				}
			}
			if len(sn.mpks) == 0 && sn.phase != 1 {
				mpkSenders = map[string]bool{} // the list was reset (restart or magic block produced)
			}
			nMpk, nSos = 0, 0
			// a newly produced magic block
			if sn.hasMB && sn.mbNumber*1000003+sn.mbStart != lastMB {
				lastMB = sn.mbNumber*1000003 + sn.mbStart
				stat.mbs++
				if !intersects(sn.mbM, prevM) {
					note(i, atX0("magic-block-without-previous-miner"), fmt.Sprintf("magic block miners %v, previous set %v", keysOf(sn.mbM), keysOf(prevM)))
				} else if !intersects(sn.mbS, prevS) {
					note(i, atX0("magic-block-without-previous-sharder"), fmt.Sprintf("magic block sharders %v, previous set %v", keysOf(sn.mbS), keysOf(prevS)))
				} else if len(sn.mbVM) == 0 || len(sn.mbVS) == 0 {
					note(i, "stored-magic-block-pools-have-no-visible-members", fmt.Sprintf("the stored magic block lists miners %v / sharders %v in Nodes, but HasNode/Size/Keys (NodesMap) see none: node.Pool.UnmarshalMsg does not restore NodesMap", keysOf(sn.mbM), keysOf(sn.mbS)))
				}
			}
			if old.vc != sn.vc && sn.hasMB && sn.vc != sn.mbStart {
				stat.vcCancelled++
			}
			if sn.hasMB && sn.vc == sn.cur && sn.mbStart == sn.cur {
				// the stored magic block came into force in this block: from now on it is the previous set
				vcInCase++
				stat.vcDone++
				if vcInCase == 2 {
					stat.multiVC++
				}
				if sn.hasPrev {
					prevM, prevS = sn.prevM, sn.prevS
				} else {
					note(i, "view-change-without-previous-magic-block", "the magic block came into force but gn.PrevMagicBlock is not set")
				}
			}
			cur = sn
		}
	}
	return first
}

func intersects(a, b map[string]bool) bool {
	for k := range a {
		if b[k] {
			return true
		}
	}
	return false
}

func keysOf(m map[string]bool) []string {
	var k []string
	for x := range m {
		k = append(k, x)
	}
	sort.Strings(k)
	return k
}

func trunc(s string) string {
	if len(s) > 60 {
		return s[:60] + "…"
	}
	return s
}

func fixedInit(extra string) string {
	return "init minN=3 maxN=5 minS=1 maxS=2 t=" + bitsOf(0.66) + " k=" + bitsOf(0.75) + " x=" + bitsOf(0.7) +
		" rounds=2,3,2,3,3 miners=m0:10,m1:10,m2:20,m3:5,m4:7 sharders=s0:5,s1:6,s2:7 prevM=m0,m1,m2,m3 prevS=s0,s1 seed=7 perms=" + permTable(7, nMinerKeys) + extra
}

func main() {
	if f := os.Getenv("VERIF_C38_SCRIPT"); f != "" {
		scriptMode(f)
		return
	}
	debug.SetGCPercent(600) // the chain-wide state cache keeps every world's entries: GC marking would dominate
	toPublish := []string{"pay", "pay", "pay", "mpk m0 3", "mpk m1 3", "mpk m2 3", "mpk m3 3", "keep m0 s0", "keep m0 s2", "pay", "pay", "pay", "pay", "pay"}
	fin := fmt.Sprintf("finalize seed=9 perms=%s", permTable(9, nMinerKeys))
	corr.Main(corr.Prop{
		ID: "C38", Model: "C38", Gen: gen, Impl: impl, Oracle: oracle, Serial: true,
		Cases: func(th bool) int {
			if th {
				return 100
			}
			return 10
		},
		Fixed: [][]string{
			// two consecutive complete view changes (magic blocks 2 and 3 come into force), then the third DKG starts
			append(append(append(append([]string{fixedInit("")}, toPublish...), "sos m0 3 valid", "sos m1 3 valid", "sos m2 3 valid", "sos m3 3 valid", "pay", "pay", "pay",
				"wait m0", "wait m1", "wait m2", "wait m3", "wait m0", "pay", "pay", "pay", fin,
				"pay", "pay", "mpk m0 3", "mpk m1 3", "mpk m2 3", "mpk m4 3", "keep m0 s0", "keep m0 s1", "pay", "pay", "pay", "pay", "pay",
				"sos m0 3 valid", "sos m1 3 valid", "sos m2 3 valid", "sos m4 3 valid", "pay", "pay", "pay",
				"wait m0", "wait m1", "wait m2", "wait m4", "pay", "pay", "pay"), fmt.Sprintf("finalize seed=11 perms=%s", permTable(11, nMinerKeys))), "pay", "pay", "pay"),
			// (pre-156160f witness) one miner tries to contribute three MPKs naming another member, a stranger, itself: one key, under its own id
			{fixedInit(""), "pay", "pay", "pay", "mpk m3 3 as=m4", "mpk m3 3 as=x1", "mpk m3 3", "mpk m3 3", "pay"},
			// (pre-2f3cfcd witness) a stranger replays a contributor's shares in Publish: refused
			append(append([]string{fixedInit("")}, toPublish...), "sos m0 3 valid", "sos x0 3 valid as=m0", "sos x0 3 valid as=m0", "pay"),
			// (pre-0a444b0 witness) wait confirmations from a stranger and from an unregistered miner: refused
			append(append([]string{fixedInit("")}, toPublish...), "sos m0 3 valid", "sos m1 3 valid", "sos m2 3 valid", "sos m3 3 valid", "pay", "pay",
				"wait x0", "wait m7", "wait m0", "pay"),
			// (pre-2f3cfcd witness) shares of senders that have no MPK: refused (used to end the process)
			append(append([]string{fixedInit("")}, toPublish...), "sos x1 3 valid", "sos m4 1 valid", "sos m0 3 valid", "pay"),
			// x_percent = 0: no quota of previous miners; the best-staked candidate (not a previous miner) is the only one kept
			{"init minN=1 maxN=1 minS=1 maxS=4 t=" + bitsOf(0.66) + " k=" + bitsOf(0.5) + " x=" + bitsOf(0) + " rounds=1,1,1,1,3 miners=m0:30,m4:20,m1:30 sharders=s0:20,s3:5 prevM=m4,m5 prevS=s0 seed=7 perms=" + permTable(7, nMinerKeys),
				"pay", "pay", "mpk m4 1", "mpk m1 1", "keep x1 s0", "pay", "pay", "sos m1 0 valid", "sos m4 1 valid", "pay"},
			// x_percent = 0, max_s = 1: the only sharder kept is not a previous one: reduceShardersList panics ("must not happen")
			{"init minN=2 maxN=3 minS=1 maxS=1 t=" + bitsOf(0.5) + " k=" + bitsOf(0.75) + " x=" + bitsOf(0) + " rounds=1,1,1,1,4 miners=m0:20,m1:10,m2:0,m3:10 sharders=s2:0,s5:10 prevM=m0,m1,m2 prevS=s2 seed=7 perms=" + permTable(7, nMinerKeys),
				"pay", "pay", "keep m6 s5", "keep m6 s2", "mpk m0 2", "mpk m1 2", "mpk m2 2", "pay", "pay", "sos m0 2 valid", "sos m1 2 valid", "sos m2 2 valid", "pay"},
			// too few waits: the view change is cancelled
			append(append([]string{fixedInit("")}, toPublish...), "sos m0 3 valid", "sos m1 3 valid", "sos m2 3 valid", "sos m3 3 valid", "pay", "pay",
				"wait m0", "pay", "pay", "pay", "pay", "pay", "pay"),
		},
		Extra: func() map[string]interface{} {
			mv, ph := minersc.VerifC38Tables()
			// once per run: the crash witness through the real Chain.UpdateState in a child process
			child := probe(append([]string{fixedInit("")}, toPublish...), "sos x1 3 valid")
			return map[string]interface{}{"sos_without_mpk_through_UpdateState_in_child_process": child,"payFees": stat.pays, "phase_advances": stat.advances, "dkg_restarts": stat.restarts, "completed_cycles": stat.cycles,
				"mpk_accepted": stat.mpkOK, "sos_accepted": stat.sosOK, "wait_accepted": stat.waitOK, "dkg_txns_rejected": stat.rejected,
				"magic_blocks_produced": stat.mbs, "view_changes_cancelled": stat.vcCancelled, "view_changes_in_force": stat.vcDone, "cases_with_2_or_more_consecutive_view_changes": stat.multiVC, "pay_snapshots_by_phase": stat.phaseSeen,
				"moveFunctions": mv, "phaseFuncs": ph}
		},
	})
}
