package main

// The implementation side of the C38 harness: a real minersc on a real state (lib/engine: real Chain.UpdateState,
// MPT, state cache), view change enabled, the chain's latest finalized magic block and magic-block storage set per
// case, real BLS key material for contributions and shares.

import (
	"context"
	"encoding/json"
	"fmt"
	"math"
	"math/rand"
	"os"
	"runtime/debug"
	"sort"
	"strconv"
	"strings"
	"sync"

	"0chain.net/chaincore/block"
	"0chain.net/chaincore/chain"
	cstate "0chain.net/chaincore/chain/state"
	"0chain.net/chaincore/node"
	"0chain.net/chaincore/round"
	"0chain.net/chaincore/smartcontract"
	"0chain.net/chaincore/threshold/bls"
	"0chain.net/chaincore/transaction"
	"0chain.net/core/config"
	"0chain.net/core/encryption"
	"0chain.net/smartcontract/minersc"
	"github.com/0chain/common/core/currency"
	"github.com/0chain/common/core/statecache"
	"verifharness/lib/engine"
)

const (
	nMinerKeys   = 12
	nSharderKeys = 6
)

type ident struct {
	c  engine.Client

}

var (
	setupOnce sync.Once
	minerIDs  []ident // sorted by id: label m<i> is the i-th smallest id, so id order = label order
	sharderID []ident
	outsider  []ident // x0, x1: clients that are neither miners nor sharders
	labelOf   = map[string]string{}
)

type vcCfg struct {
	config.ChainConfig
}

func (vcCfg) IsViewChangeEnabled() bool { return true }
func (vcCfg) IsFeeEnabled() bool        { return false }

func genIdents(n int) []ident {
	var l []ident
	for i := 0; i < n; i++ {
		ss := encryption.NewBLS0ChainScheme()
		if err := ss.GenerateKeys(); err != nil {
			panic(err)
		}
		pk := ss.GetPublicKey()
		l = append(l, ident{c: engine.Client{ID: encryption.Hash(mustHex(pk)), PublicKey: pk}})
	}
	sort.Slice(l, func(i, j int) bool { return l[i].c.ID < l[j].c.ID })
	return l
}

func mustHex(s string) []byte {
	b := make([]byte, len(s)/2)
	for i := range b {
		v, err := strconv.ParseUint(s[2*i:2*i+2], 16, 8)
		if err != nil {
			panic(err)
		}
		b[i] = byte(v)
	}
	return b
}

func setup() {
	setupOnce.Do(func() {
		c := engine.Setup()
		cfg := vcCfg{ChainConfig: c.ChainConfig}
		c.ChainConfig = cfg
		config.Configuration().ChainConfig = cfg
		go c.StartLFMBWorker(context.Background())
		minerIDs = genIdents(nMinerKeys)
		sharderID = genIdents(nSharderKeys)
		outsider = genIdents(2)
		for i, m := range minerIDs {
			labelOf[m.c.ID] = fmt.Sprintf("m%d", i)
		}
		for i, s := range sharderID {
			labelOf[s.c.ID] = fmt.Sprintf("s%d", i)
		}
		for i, s := range outsider {
			labelOf[s.c.ID] = fmt.Sprintf("x%d", i)
		}
	})
}

func identOf(label string) (ident, bool) {
	if len(label) < 2 {
		return ident{}, false
	}
	i, err := strconv.Atoi(label[1:])
	if err != nil || i < 0 {
		return ident{}, false
	}
	switch label[0] {
	case 'm':
		if i < len(minerIDs) {
			return minerIDs[i], true
		}
	case 's':
		if i < len(sharderID) {
			return sharderID[i], true
		}
	case 'x':
		if i < len(outsider) {
			return outsider[i], true
		}
	}
	return ident{}, false
}

func labels(ids []string) string {
	l := make([]string, len(ids))
	for i, id := range ids {
		if lb, ok := labelOf[id]; ok {
			l[i] = lb
		} else {
			l[i] = "?" + id
		}
	}
	sort.Slice(l, func(i, j int) bool { return labelLess(l[i], l[j]) })
	if len(l) == 0 {
		return "-"
	}
	return strings.Join(l, ",")
}

func labelLess(a, b string) bool {
	if a[0] != b[0] {
		return a[0] < b[0]
	}
	x, _ := strconv.Atoi(a[1:])
	y, _ := strconv.Atoi(b[1:])
	return x < y
}

type world struct {
	w      *engine.World
	nonce  map[string]int64
	dkgs   map[string]*bls.DKG // the DKG object a miner created for its contribution (by label)
	gen    ident
	lfmbNo int64
	// riskyCfg: x_percent <= 0, where reduceShardersList / reduce can panic inside payFees
	riskyCfg bool
}

type nodeSpec struct {
	label string
	stake uint64
}

func parseNodes(s string) ([]nodeSpec, bool) {
	if s == "-" || s == "" {
		return nil, true
	}
	var l []nodeSpec
	for _, t := range strings.Split(s, ",") {
		f := strings.Split(t, ":")
		if len(f) != 2 {
			return nil, false
		}
		st, err := strconv.ParseUint(f[1], 10, 64)
		if err != nil {
			return nil, false
		}
		if _, ok := identOf(f[0]); !ok {
			return nil, false
		}
		l = append(l, nodeSpec{f[0], st})
	}
	return l, true
}

func parseLabels(s string) ([]string, bool) {
	if s == "-" || s == "" {
		return nil, true
	}
	l := strings.Split(s, ",")
	for _, x := range l {
		if _, ok := identOf(x); !ok {
			return nil, false
		}
	}
	return l, true
}

func hookNode(sp nodeSpec) minersc.VerifC38Node {
	id, _ := identOf(sp.label)
	return minersc.VerifC38Node{ID: id.c.ID, PublicKey: id.c.PublicKey, Stake: sp.stake, N2NHost: "n2n-" + sp.label + ".verif"}
}

func mkMagicBlock(number, start int64, miners, sharders []string, prevHash string) *block.MagicBlock {
	mb := block.NewMagicBlock()
	mb.Miners = node.NewPool(node.NodeTypeMiner)
	mb.Sharders = node.NewPool(node.NodeTypeSharder)
	mb.MagicBlockNumber = number
	mb.StartingRound = start
	mb.PreviousMagicBlockHash = prevHash
	add := func(p *node.Pool, lb string, t node.NodeType) {
		id, _ := identOf(lb)
		n := node.Provider()
		n.ID = id.c.ID
		n.PublicKey = id.c.PublicKey
		n.N2NHost = "n2n-" + lb + ".verif"
		n.Host = n.N2NHost
		n.Port = 7071
		n.Type = t
		n.Status = node.NodeStatusActive
		if err := p.AddNode(n); err != nil {
			panic(err)
		}
	}
	for _, m := range miners {
		add(mb.Miners, m, node.NodeTypeMiner)
	}
	for _, s := range sharders {
		add(mb.Sharders, s, node.NodeTypeSharder)
	}
	mb.T, mb.K, mb.N = 1, 1, len(miners)
	mb.Hash = mb.GetHash()
	return mb
}

func (wd *world) setChainMB(mb *block.MagicBlock, seed int64) {
	c := wd.w.C
	b := block.NewBlock("", mb.StartingRound)
	b.MagicBlock = mb
	b.Hash = encryption.Hash(fmt.Sprintf("verif-mb-block-%d-%s", mb.MagicBlockNumber, mb.Hash))
	b.RoundRandomSeed = seed
	c.VerifSetLFMB(b)
	c.SetMagicBlock(mb)
}

func f64(bits string) (float64, bool) {
	if len(bits) != 16 {
		return 0, false
	}
	v, err := strconv.ParseUint(bits, 16, 64)
	if err != nil {
		return 0, false
	}
	f := math.Float64frombits(v)
	if math.IsNaN(f) || math.IsInf(f, 0) {
		return 0, false
	}
	return f, true
}

func kv(ws []string) map[string]string {
	m := map[string]string{}
	for _, w := range ws {
		if i := strings.IndexByte(w, '='); i > 0 {
			m[w[:i]] = w[i+1:]
		}
	}
	return m
}

func checkPerms(seed int64, toks []string) bool {
	for k, t := range toks {
		want := rand.New(rand.NewSource(seed)).Perm(k)
		s := make([]string, len(want))
		for i, v := range want {
			s[i] = strconv.Itoa(v)
		}
		if t != strings.Join(s, ",") && !(len(want) == 0 && t == "") {
			return false
		}
	}
	return true
}

// newWorld: `init minN= maxN= minS= maxS= t= k= x= rounds=a,b,c,d,e miners=m0:5,.. sharders=s0:1,.. prevM=m0,m1 prevS=s0 seed=.. perms=;0;1,0;...`
func newWorld(ws []string) (*world, string) {
	setup()
	a := kv(ws)
	atoi := func(k string) (int, bool) { v, err := strconv.Atoi(a[k]); return v, err == nil && v >= 0 }
	var cfg minersc.VerifC38Config
	var ok [7]bool
	cfg.MinN, ok[0] = atoi("minN")
	cfg.MaxN, ok[1] = atoi("maxN")
	cfg.MinS, ok[2] = atoi("minS")
	cfg.MaxS, ok[3] = atoi("maxS")
	cfg.TPercent, ok[4] = f64(a["t"])
	cfg.KPercent, ok[5] = f64(a["k"])
	cfg.XPercent, ok[6] = f64(a["x"])
	for _, o := range ok {
		if !o {
			return nil, "bad-op"
		}
	}
	rs := strings.Split(a["rounds"], ",")
	if len(rs) != 5 {
		return nil, "bad-op"
	}
	var pr [5]int64
	for i, r := range rs {
		v, err := strconv.ParseInt(r, 10, 64)
		if err != nil || v < 0 {
			return nil, "bad-op"
		}
		pr[i] = v
	}
	miners, ok1 := parseNodes(a["miners"])
	sharders, ok2 := parseNodes(a["sharders"])
	prevM, ok3 := parseLabels(a["prevM"])
	prevS, ok4 := parseLabels(a["prevS"])
	seed, err := strconv.ParseInt(a["seed"], 10, 64)
	if !ok1 || !ok2 || !ok3 || !ok4 || err != nil || len(prevM) == 0 || len(prevS) == 0 {
		return nil, "bad-op"
	}
	if !checkPerms(seed, strings.Split(a["perms"], ";")) {
		return nil, "bad-op"
	}
	minersc.VerifC38SetPhaseRounds(pr)
	var hm, hs []minersc.VerifC38Node
	for _, m := range miners {
		if m.label[0] != 'm' {
			return nil, "bad-op"
		}
		hm = append(hm, hookNode(m))
	}
	for _, s := range sharders {
		if s.label[0] != 's' {
			return nil, "bad-op"
		}
		hs = append(hs, hookNode(s))
	}
	engine.Setup().SetupStateCache() // cases run serially: drop the previous world's cache entries
	w, err := engine.NewWorld(map[string]currency.Coin{}, func(sctx *cstate.StateContext) error {
		return minersc.VerifC38Init(sctx, cfg, hm, hs)
	})
	if err != nil {
		return nil, "init-error " + err.Error()
	}
	wd := &world{w: w, nonce: map[string]int64{}, dkgs: map[string]*bls.DKG{}, riskyCfg: !(cfg.XPercent > 0)}
	wd.w.C.MagicBlockStorage = round.NewRoundStartingStorage()
	wd.setChainMB(mkMagicBlock(1, 0, prevM, prevS, ""), seed)
	wd.gen, _ = identOf(prevM[0])
	wd.w.B.MinerID = wd.gen.c.ID
	return wd, "ok"
}

// dryRun executes the contract call directly on a throw-away transaction state and reports whether it panics.
func (wd *world) dryRun(from ident, fn, input string) (panicked bool) {
	defer func() {
		if r := recover(); r != nil {
			panicked = true
			minersc.VerifC38ResetLocks()
			lastPanic = fmt.Sprint(r) + "\n" + string(debug.Stack())
		}
	}()
	tc := statecache.NewTransactionCache(wd.w.BC)
	mpt := chain.CreateTxnMPT(wd.w.State, tc)
	t := wd.w.Txn(from.c, minersc.ADDRESS, 0, 0, wd.nonce[from.c.ID]+1, transaction.TxnTypeSmartContract, fn, input)
	sctx := wd.w.C.NewStateContext(wd.w.B, mpt, t, nil)
	_, _ = smartcontract.ExecuteSmartContract(t, sctx)
	return false
}

var lastPanic string

func (wd *world) exec(from ident, fn, input string) string {
	n := wd.nonce[from.c.ID] + 1
	t := wd.w.Txn(from.c, minersc.ADDRESS, 0, 0, n, transaction.TxnTypeSmartContract, fn, input)
	_, err := wd.w.Exec(t)
	if err != nil {
		return "rejected " + errClass(err.Error())
	}
	wd.nonce[from.c.ID] = n
	if t.Status == transaction.TxnSuccess {
		return "ok"
	}
	return "err " + errClass(t.TransactionOutput)
}

// errClass maps the contract's error texts to the classes the model answers.
func errClass(msg string) string {
	for _, p := range [][2]string{
		{"this is not the correct phase", "phase"},
		{"not part of dkg set", "not-member"},
		{"is not correct size", "size"},
		{"already have mpk", "dup"},
		{"already have share or signs", "dup"},
		{"not enough share or signs", "few"},
		{"failed validation", "invalid"},
		{"already checked in", "dup"},
		{"unknown sharder", "unknown"},
		{"decoding", "decode"},
	} {
		if strings.Contains(msg, p[0]) {
			return p[1]
		}
	}
	if len(msg) > 80 {
		msg = msg[:80]
	}
	return "other:" + strings.ReplaceAll(msg, " ", "_")
}

func (wd *world) snapshot() string {
	s, err := minersc.VerifC38Read(wd.w.SCtx())
	if err != nil {
		return "read-error " + err.Error()
	}
	var b strings.Builder
	if s.HasPhase {
		fmt.Fprintf(&b, "pn %d %d %d %d", s.Phase, s.StartRound, s.CurrentRound, s.Restarts)
	} else {
		b.WriteString("pn none")
	}
	fmt.Fprintf(&b, " | dkg %s T=%d K=%d N=%d sr=%d | mpks %s | gsos %s | waited %s | keep %s", labels(s.DKG), s.T, s.K, s.N, s.DKGStartRound,
		labels(s.Mpks), labels(s.Gsos), labels(s.Waited), labels(s.Keep))
	if s.HasMB {
		fmt.Fprintf(&b, " | mb %d %d T=%d K=%d N=%d m=%s s=%s vm=%s vs=%s", s.MBNumber, s.MBStart, s.MBT, s.MBK, s.MBN, labels(s.MBMinerNodes), labels(s.MBSharderNodes), labels(s.MBMiners), labels(s.MBSharders))
	} else {
		b.WriteString(" | mb none")
	}
	fmt.Fprintf(&b, " | vc %d", s.ViewChange)
	if s.HasPrevMB {
		fmt.Fprintf(&b, " | prev m=%s s=%s", labels(s.PrevMiners), labels(s.PrevSharders))
	} else {
		b.WriteString(" | prev none")
	}
	return b.String()
}

// step runs one op on the world.
func (wd *world) step(ws []string) string {
	switch ws[0] {
	case "pay":
		// the generator's payFees closes the block
		if len(ws) != 1 {
			return "bad-op"
		}
		in, _ := json.Marshal(map[string]int64{"round": wd.w.B.Round})
		var r string
		// always tried directly first: a panic anywhere in payFees (view change or fee part) would end the process
		// when it happens in the goroutine of Chain.ExecuteSmartContract
		if wd.dryRun(wd.gen, "payFees", string(in)) {
			r = "panic"
		} else {
			r = normPay(wd.exec(wd.gen, "payFees", string(in)))
		}
		out := r + " | " + wd.snapshot()
		wd.w.NextBlock()
		wd.w.B.MinerID = wd.gen.c.ID
		return out
	case "skip":
		// a block without payFees (its generator left it out)
		if len(ws) != 1 {
			return "bad-op"
		}
		wd.w.NextBlock()
		wd.w.B.MinerID = wd.gen.c.ID
		return "ok"
	case "mpk":
		// mpk <sender> <size> [as=<label>]
		if len(ws) < 3 {
			return "bad-op"
		}
		from, ok := identOf(ws[1])
		size, err := strconv.Atoi(ws[2])
		if !ok || err != nil || size < 0 || size > 40 {
			return "bad-op"
		}
		asID := ""
		if len(ws) == 4 {
			as, ok := identOf(strings.TrimPrefix(ws[3], "as="))
			if !ok || !strings.HasPrefix(ws[3], "as=") {
				return "bad-op"
			}
			asID = as.c.ID
		} else if len(ws) != 3 {
			return "bad-op"
		}
		var d *bls.DKG
		mpk := &block.MPK{ID: asID, Mpk: []string{}}
		if size > 0 {
			d = bls.MakeDKG(size, nMinerKeys, from.c.ID)
			for _, v := range d.GetMPKs() {
				mpk.Mpk = append(mpk.Mpk, v.GetHexString())
			}
		}
		var input string
		if asID == "" {
			j, _ := json.Marshal(map[string]interface{}{"Mpk": mpk.Mpk})
			input = string(j)
		} else {
			input = string(mpk.Encode())
		}
		r := wd.exec(from, "contributeMpk", input)
		if r == "ok" && d != nil {
			// the contract records the key under the sender's id, whatever id the payload names
			wd.dkgs[ws[1]] = d
		}
		return r
	case "sos":
		// sos <sender> <count> <valid|bad> [as=<label>]: shares of the DKG registered under <as or sender> for the first <count> other DKG miners
		if len(ws) < 4 {
			return "bad-op"
		}
		from, ok := identOf(ws[1])
		count, err := strconv.Atoi(ws[2])
		if !ok || err != nil || count < 0 || (ws[3] != "valid" && ws[3] != "bad") {
			return "bad-op"
		}
		owner := ws[1]
		if len(ws) == 5 {
			if !strings.HasPrefix(ws[4], "as=") {
				return "bad-op"
			}
			owner = strings.TrimPrefix(ws[4], "as=")
			if _, ok := identOf(owner); !ok {
				return "bad-op"
			}
		} else if len(ws) != 4 {
			return "bad-op"
		}
		ownerID, _ := identOf(owner)
		st, err := minersc.VerifC38Read(wd.w.SCtx())
		if err != nil {
			return "read-error"
		}
		sos := block.NewShareOrSigns()
		sos.ID = ownerID.c.ID
		d := wd.dkgs[owner]
		var wrong *bls.DKG
		if ws[3] == "bad" {
			wrong = bls.MakeDKG(2, nMinerKeys, encryption.Hash("verif-wrong"))
		}
		n := 0
		for _, id := range st.DKG {
			if n >= count {
				break
			}
			if id == ownerID.c.ID {
				continue
			}
			src := d
			if wrong != nil && n == 0 {
				src = wrong
			}
			if src == nil {
				src = bls.MakeDKG(2, nMinerKeys, encryption.Hash("verif-none"))
			}
			sh, err := src.ComputeDKGKeyShare(bls.ComputeIDdkg(id))
			if err != nil {
				return "bad-op"
			}
			ks := &bls.DKGKeyShare{Share: sh.GetHexString()}
			ks.SetKey(id)
			sos.ShareOrSigns[id] = ks
			n++
		}
		// pad with further (non-DKG) ids when more entries are asked for than there are other DKG miners
		for i := 0; n < count && i < len(minerIDs); i++ {
			id := minerIDs[i].c.ID
			if _, ok := sos.ShareOrSigns[id]; ok || id == ownerID.c.ID {
				continue
			}
			src := d
			if src == nil {
				src = bls.MakeDKG(2, nMinerKeys, encryption.Hash("verif-none"))
			}
			sh, _ := src.ComputeDKGKeyShare(bls.ComputeIDdkg(id))
			ks := &bls.DKGKeyShare{Share: sh.GetHexString()}
			ks.SetKey(id)
			sos.ShareOrSigns[id] = ks
			n++
		}
		input := string(sos.Encode())
		if os.Getenv("VERIF_C38_UNGUARDED") == "" {
			// a panic inside the contract is fatal when it runs in the goroutine Chain.ExecuteSmartContract starts:
			// try the call directly first (throw-away transaction state, panics recovered)
			if wd.dryRun(from, "shareSignsOrShares", input) {
				return "crash"
			}
		}
		return wd.exec(from, "shareSignsOrShares", input)
	case "wait":
		if len(ws) != 2 {
			return "bad-op"
		}
		from, ok := identOf(ws[1])
		if !ok {
			return "bad-op"
		}
		return wd.exec(from, "wait", "")
	case "keep":
		// keep <sender> <sharder>
		if len(ws) != 3 {
			return "bad-op"
		}
		from, ok1 := identOf(ws[1])
		sh, ok2 := identOf(ws[2])
		if !ok1 || !ok2 {
			return "bad-op"
		}
		j, _ := json.Marshal(map[string]interface{}{"simple_miner": map[string]interface{}{"id": sh.c.ID, "public_key": sh.c.PublicKey, "n2n_host": "n2n-" + ws[2] + ".verif", "host": "n2n-" + ws[2] + ".verif", "port": 7071}})
		return wd.exec(from, "sharder_keep", string(j))
	case "addm", "adds":
		// registration (the effect of add_miner / add_sharder on the node lists): addm <label> <stake>
		if len(ws) != 3 {
			return "bad-op"
		}
		st, err := strconv.ParseUint(ws[2], 10, 64)
		if _, ok := identOf(ws[1]); !ok || err != nil || (ws[0] == "addm") != (ws[1][0] == 'm') || (ws[0] == "adds") != (ws[1][0] == 's') {
			return "bad-op"
		}
		// written straight into the block state through a transaction-less context, then merged
		tc := statecache.NewTransactionCache(wd.w.BC)
		mpt := chain.CreateTxnMPT(wd.w.State, tc)
		t := &transaction.Transaction{}
		t.Hash = encryption.Hash("verif-register")
		sctx := wd.w.C.NewStateContext(wd.w.B, mpt, t, nil)
		if err := minersc.VerifC38AddNode(sctx, hookNode(nodeSpec{ws[1], st}), ws[0] == "adds"); err != nil {
			return "add-error " + err.Error()
		}
		if err := wd.w.State.MergeMPTChanges(mpt); err != nil {
			return "add-error " + err.Error()
		}
		tc.Commit()
		return "ok"
	case "finalize":
		// finalize seed=<s> perms=..: the block carrying the stored magic block is finalized: it becomes the chain's LFMB/current MB
		a := kv(ws[1:])
		seed, err := strconv.ParseInt(a["seed"], 10, 64)
		if err != nil || !checkPerms(seed, strings.Split(a["perms"], ";")) {
			return "bad-op"
		}
		mb, err := minersc.VerifC38StoredMagicBlock(wd.w.SCtx())
		if err != nil {
			return "none"
		}
		wd.setChainMB(mb, seed)
		return "ok"
	}
	return "bad-op"
}
