// xc38: translator for C38. Reads smartcontract/minersc/minersc.go (initSC: the PhaseRounds / moveFunctions / phaseFuncs
// tables), models.go (the Phase constants) and docker.local/config/sc.yaml (the configured rounds) from the repository
// tree and writes lean/ZChain/Generated/C38.lean. Fails closed: any assignment to one of the three tables that it cannot
// classify, a missing phase, or a duplicate entry is an error.
//
//	xc38 <gosrc = …/code/go/0chain.net> <out.lean>
package main

import (
	"bufio"
	"fmt"
	"go/ast"
	"go/parser"
	"go/token"
	"os"
	"path/filepath"
	"regexp"
	"sort"
	"strconv"
	"strings"
)

func die(f string, a ...interface{}) {
	fmt.Fprintf(os.Stderr, "xc38: "+f+"\n", a...)
	os.Exit(1)
}

func main() {
	if len(os.Args) != 3 {
		die("usage: xc38 <gosrc> <out.lean>")
	}
	gosrc, out := os.Args[1], os.Args[2]
	dir := filepath.Join(gosrc, "smartcontract/minersc")
	fset := token.NewFileSet()

	// 1. Phase constants: const ( Unknown Phase = iota - 1; Start; Contribute; Share; Publish; Wait )
	mf, err := parser.ParseFile(fset, filepath.Join(dir, "models.go"), nil, 0)
	if err != nil {
		die("%v", err)
	}
	phase := map[string]int{}
	var phaseNames []string
	for _, d := range mf.Decls {
		gd, ok := d.(*ast.GenDecl)
		if !ok || gd.Tok != token.CONST {
			continue
		}
		first, ok := gd.Specs[0].(*ast.ValueSpec)
		if !ok || first.Type == nil {
			continue
		}
		if id, ok := first.Type.(*ast.Ident); !ok || id.Name != "Phase" {
			continue
		}
		// first value must be `iota - 1`
		be, ok := first.Values[0].(*ast.BinaryExpr)
		if !ok || be.Op != token.SUB || fmt.Sprint(be.X) != "iota" || fmt.Sprint(be.Y.(*ast.BasicLit).Value) != "1" {
			die("models.go: the Phase constants no longer start with `iota - 1`")
		}
		for i, sp := range gd.Specs {
			vs := sp.(*ast.ValueSpec)
			if i > 0 && (len(vs.Values) != 0 || vs.Type != nil) {
				die("models.go: Phase constant %s has an explicit value", vs.Names[0].Name)
			}
			if len(vs.Names) != 1 {
				die("models.go: unexpected Phase constant spec")
			}
			phase[vs.Names[0].Name] = i - 1
			if i >= 1 {
				phaseNames = append(phaseNames, vs.Names[0].Name)
			}
		}
	}
	if len(phaseNames) != 5 {
		die("models.go: expected 5 phases after Unknown, found %v", phaseNames)
	}

	// 2. the tables in initSC (the non-integration-test build of minersc.go)
	sf, err := parser.ParseFile(fset, filepath.Join(dir, "minersc.go"), nil, 0)
	if err != nil {
		die("%v", err)
	}
	tables := map[string]map[int]string{"PhaseRounds": {}, "moveFunctions": {}, "phaseFuncs": {}}
	found := false
	for _, d := range sf.Decls {
		fd, ok := d.(*ast.FuncDecl)
		if !ok || fd.Name.Name != "initSC" {
			continue
		}
		found = true
		ast.Inspect(fd.Body, func(n ast.Node) bool {
			as, ok := n.(*ast.AssignStmt)
			if !ok || len(as.Lhs) != 1 {
				return true
			}
			ix, ok := as.Lhs[0].(*ast.IndexExpr)
			if !ok {
				return true
			}
			tn, ok := ix.X.(*ast.Ident)
			if !ok {
				return true
			}
			tb, ok := tables[tn.Name]
			if !ok {
				return true
			}
			key, ok := ix.Index.(*ast.Ident)
			if !ok {
				die("minersc.go:%v: %s indexed by a non-constant", fset.Position(as.Pos()), tn.Name)
			}
			p, ok := phase[key.Name]
			if !ok || p < 0 {
				die("minersc.go:%v: %s[%s]: not a phase", fset.Position(as.Pos()), tn.Name, key.Name)
			}
			if _, dup := tb[p]; dup {
				die("minersc.go:%v: %s[%s] assigned twice", fset.Position(as.Pos()), tn.Name, key.Name)
			}
			switch tn.Name {
			case "PhaseRounds":
				// scc.GetInt64(pfx + "<key>")
				call, ok := as.Rhs[0].(*ast.CallExpr)
				if !ok || len(call.Args) != 1 {
					die("minersc.go:%v: PhaseRounds[%s] is not scc.GetInt64(pfx + key)", fset.Position(as.Pos()), key.Name)
				}
				sel, ok := call.Fun.(*ast.SelectorExpr)
				be, ok2 := call.Args[0].(*ast.BinaryExpr)
				if !ok || !ok2 || sel.Sel.Name != "GetInt64" || be.Op != token.ADD || fmt.Sprint(be.X) != "pfx" {
					die("minersc.go:%v: PhaseRounds[%s] is not scc.GetInt64(pfx + key)", fset.Position(as.Pos()), key.Name)
				}
				lit, ok := be.Y.(*ast.BasicLit)
				if !ok || lit.Kind != token.STRING {
					die("minersc.go:%v: PhaseRounds[%s]: key is not a string literal", fset.Position(as.Pos()), key.Name)
				}
				k, _ := strconv.Unquote(lit.Value)
				tb[p] = k
			default:
				sel, ok := as.Rhs[0].(*ast.SelectorExpr)
				if !ok || fmt.Sprint(sel.X) != "msc" {
					die("minersc.go:%v: %s[%s] is not a method of msc", fset.Position(as.Pos()), tn.Name, key.Name)
				}
				tb[p] = sel.Sel.Name
			}
			return true
		})
	}
	if !found {
		die("minersc.go: func initSC not found")
	}
	for p := 0; p < 5; p++ {
		if _, ok := tables["PhaseRounds"][p]; !ok {
			die("PhaseRounds has no entry for phase %s", phaseNames[p])
		}
		if _, ok := tables["moveFunctions"][p]; !ok {
			die("moveFunctions has no entry for phase %s", phaseNames[p])
		}
	}

	// 3. configured values: smart_contracts.minersc.<key> in docker.local/config/sc.yaml
	repo := filepath.Clean(filepath.Join(gosrc, "../../.."))
	yf, err := os.Open(filepath.Join(repo, "docker.local/config/sc.yaml"))
	if err != nil {
		die("%v", err)
	}
	vals := map[string]int64{}
	in := false
	re := regexp.MustCompile(`^    ([a-z_]+):\s*(-?[0-9]+)\s*(#.*)?$`)
	sc := bufio.NewScanner(yf)
	for sc.Scan() {
		l := sc.Text()
		if strings.HasPrefix(l, "  ") && !strings.HasPrefix(l, "   ") {
			in = strings.TrimSpace(l) == "minersc:"
			continue
		}
		if in {
			if m := re.FindStringSubmatch(l); m != nil {
				v, _ := strconv.ParseInt(m[2], 10, 64)
				vals[m[1]] = v
			}
		}
	}
	var b strings.Builder
	b.WriteString("/-! GENERATED by harness/cmd/xc38 from smartcontract/minersc/{minersc.go,models.go} and docker.local/config/sc.yaml.\nDo not edit: regenerated on every `./check C38`. -/\nnamespace ZChain.Generated.C38\n\n")
	q := func(s string) string { return strconv.Quote(s) }
	b.WriteString("/-- the phases after `Unknown = iota - 1`, in order (their numbers are 0, 1, …). -/\ndef phaseNames : List String := [")
	for i, n := range phaseNames {
		if i > 0 {
			b.WriteString(", ")
		}
		b.WriteString(q(n))
	}
	b.WriteString("]\n\n")
	emit := func(name, doc string, tb map[int]string) {
		var ks []int
		for k := range tb {
			ks = append(ks, k)
		}
		sort.Ints(ks)
		fmt.Fprintf(&b, "/-- %s -/\ndef %s : List (Nat × String) := [", doc, name)
		for i, k := range ks {
			if i > 0 {
				b.WriteString(", ")
			}
			fmt.Fprintf(&b, "(%d, %s)", k, q(tb[k]))
		}
		b.WriteString("]\n\n")
	}
	emit("moveFunctions", "`moveFunctions[phase] = msc.<method>` in initSC", tables["moveFunctions"])
	emit("phaseFuncs", "`phaseFuncs[phase] = msc.<method>` in initSC (phases without an entry have no phase function)", tables["phaseFuncs"])
	emit("phaseRoundsKeys", "`PhaseRounds[phase] = scc.GetInt64(pfx + <key>)` in initSC", tables["PhaseRounds"])
	b.WriteString("/-- the configured `PhaseRounds` (docker.local/config/sc.yaml, smart_contracts.minersc). -/\ndef phaseRounds : List Int := [")
	for p := 0; p < 5; p++ {
		k := tables["PhaseRounds"][p]
		v, ok := vals[k]
		if !ok {
			die("sc.yaml: smart_contracts.minersc.%s not found", k)
		}
		if p > 0 {
			b.WriteString(", ")
		}
		fmt.Fprintf(&b, "%d", v)
	}
	b.WriteString("]\n\nend ZChain.Generated.C38\n")
	if err := os.WriteFile(out, []byte(b.String()), 0o644); err != nil {
		die("%v", err)
	}
	fmt.Printf("phases=%v\nmoveFunctions=%v\nphaseFuncs=%v\nphaseRounds keys=%v\n", phaseNames, tables["moveFunctions"], tables["phaseFuncs"], tables["PhaseRounds"])
}
