// C35 harness: the real node.Pool (miners), round.Round (SetRandomSeed*, GetMinerRank, GetMinersByRank,
// AddNotarizedBlock, UpdateNotarizedBlock, AddProposedBlock) and chain.Chain (SetRandomSeed, IsRoundGenerator,
// GetGenerators) against Model/NodePool.lean + Model/RoundBlocks.lean.
package main

import (
	"context"
	"encoding/hex"
	"fmt"
	"math/big"
	"math/rand"
	"os"
	"sort"
	"strconv"
	"strings"
	"sync"

	"0chain.net/chaincore/block"
	"0chain.net/chaincore/chain"
	"0chain.net/chaincore/client"
	"0chain.net/chaincore/node"
	"0chain.net/chaincore/round"
	"0chain.net/core/datastore"
	"0chain.net/core/encryption"
	"github.com/0chain/common/core/logging"
	"go.uber.org/zap"
	"verifharness/lib/corr"
)

var provMu sync.Mutex

var statOrderCmp, statLists, statUpdChecks int // evidence counters (the oracle runs single-threaded)

func init() {
	logging.Logger = zap.NewNop()
	logging.N2n = zap.NewNop()
	client.SetClientSignatureScheme("ed25519")
	round.SetupEntity(nopStore{})
	block.SetupEntity(nopStore{})
}

var chainPool = sync.Pool{New: func() interface{} {
	provMu.Lock()
	defer provMu.Unlock()
	return chain.Provider().(*chain.Chain)
}}

type world struct {
	c     *chain.Chain
	pool  *node.Pool
	r     *round.Round
	objs  map[int64]*block.Block
	ids   map[*block.Block]int64
	hashN map[int64]int64
	pools map[int64]*node.Pool // side pools 1..7 that may hold the same node objects
	nobjs map[int64]*node.Node // node objects made by `obj`
}

func (w *world) poolN(p int64) *node.Pool {
	if p == 0 {
		return w.pool
	}
	if w.pools[p] == nil {
		w.pools[p] = node.NewPool(node.NodeTypeMiner)
	}
	return w.pools[p]
}

func mkMiner(id, pk string) *node.Node {
	nd := node.Provider()
	nd.Type = node.NodeTypeMiner
	nd.PublicKey = pk
	_ = nd.SetID(id)
	return nd
}

func newWorld(mingen int) *world {
	c := chainPool.Get().(*chain.Chain)
	c.ChainConfig = chain.NewConfigImpl(&chain.ConfigData{MinGenerators: mingen, GeneratorsPercent: 0})
	mb := block.NewMagicBlock()
	mb.Miners = node.NewPool(node.NodeTypeMiner)
	mb.Sharders = node.NewPool(node.NodeTypeSharder)
	c.SetMagicBlock(mb)
	return &world{c: c, pool: mb.Miners, r: round.NewRound(1), objs: map[int64]*block.Block{}, ids: map[*block.Block]int64{}, pools: map[int64]*node.Pool{}, nobjs: map[int64]*node.Node{}}
}

func isID(s string) bool {
	if len(s) != 64 {
		return false
	}
	for _, ch := range s {
		if !((ch >= '0' && ch <= '9') || (ch >= 'a' && ch <= 'f')) {
			return false
		}
	}
	return true
}

func dec(id string) string {
	v, _ := new(big.Int).SetString(id, 16)
	return v.String()
}

func parseInt(s string) (int64, bool) {
	v, err := strconv.ParseInt(s, 10, 64)
	if err != nil || strings.HasPrefix(s, "+") {
		return 0, false
	}
	return v, true
}

func parseNat(s string) (int64, bool) {
	v, ok := parseInt(s)
	return v, ok && v >= 0 && !strings.HasPrefix(s, "-")
}

func parsePerm(ws []string) ([]int, bool) {
	p := make([]int, 0, len(ws))
	for _, w := range ws {
		v, ok := parseInt(w)
		if !ok {
			return nil, false
		}
		p = append(p, int(v))
	}
	return p, true
}

func samePerm(a, b []int) bool {
	if len(a) != len(b) {
		return false
	}
	for i := range a {
		if a[i] != b[i] {
			return false
		}
	}
	return true
}

func (w *world) showObjs(tag string, bs []*block.Block) string {
	parts := []string{tag}
	for _, b := range bs {
		id, ok := w.ids[b]
		if !ok {
			id = -1
		}
		parts = append(parts, fmt.Sprintf("%d:%s:%d", id, b.Hash, b.RoundRank))
	}
	return strings.Join(parts, " ")
}

// keysDistinct: GetMinersByRank uses sort.Slice (not stable) — its result is determined only when no two keys tie.
func (w *world) keysDistinct() bool {
	seen := map[int]bool{}
	for _, nd := range w.pool.CopyNodes() {
		k := w.r.GetMinerRank(nd)
		if k == -1 {
			k = 0
		}
		if seen[k] {
			return false
		}
		seen[k] = true
	}
	return true
}

func impl(ops []string) []string {
	w := newWorld(0)
	defer func() { chainPool.Put(w.c) }()
	outs := make([]string, len(ops))
	poisoned, inAdd := false, false
	for i, op := range ops {
		f := strings.Fields(op)
		func() {
			defer func() {
				if r := recover(); r != nil {
					outs[i] = "panic"
					if inAdd {
						// Pool.AddNode holds the pool's mutex without defer: after a panic inside it every later call on
						// that pool would block for ever. The rest of the segment is answered without touching it.
						poisoned = true
					}
				}
			}()
			outs[i] = "bad-op"
			if len(f) == 0 {
				return
			}
			inAdd = f[0] == "add" || f[0] == "addm" || f[0] == "padd"
			if f[0] == "new" {
				poisoned = false
			}
			if poisoned {
				outs[i] = "pool-left-locked-by-panic"
				return
			}
			objArg := func() *block.Block {
				if len(f) != 2 {
					return nil
				}
				o, ok := parseNat(f[1])
				if !ok {
					return nil
				}
				return w.objs[o]
			}
			switch f[0] {
			case "new":
				if len(f) != 2 {
					return
				}
				g, ok := parseInt(f[1])
				if !ok || g != int64(int32(g)) {
					return
				}
				chainPool.Put(w.c)
				w = newWorld(int(g))
				outs[i] = "ok"
			case "addm":
				if len(f) != 3 || !isID(f[1]) {
					return
				}
				pkb, err := hex.DecodeString(f[2])
				if err != nil || encryption.Hash(pkb) != f[1] {
					outs[i] = "harness-bad-pk"
					return
				}
				if err := w.pool.AddNode(mkMiner(f[1], f[2])); err != nil {
					outs[i] = "error"
					return
				}
				outs[i] = "ok"
			case "obj":
				if len(f) != 4 {
					return
				}
				o, ok := parseNat(f[1])
				if !ok || o >= 1000000 || !isID(f[2]) || w.nobjs[o] != nil {
					return
				}
				pkb, err := hex.DecodeString(f[3])
				if err != nil || encryption.Hash(pkb) != f[2] {
					outs[i] = "harness-bad-pk"
					return
				}
				w.nobjs[o] = mkMiner(f[2], f[3])
				outs[i] = "ok"
			case "padd":
				if len(f) != 3 {
					return
				}
				p, ok1 := parseNat(f[1])
				o, ok2 := parseNat(f[2])
				if !ok1 || !ok2 || p >= 8 || w.nobjs[o] == nil {
					return
				}
				if err := w.poolN(p).AddNode(w.nobjs[o]); err != nil {
					outs[i] = "error"
					return
				}
				outs[i] = "ok"
			case "pos":
				if len(f) != 1 {
					return
				}
				parts := []string{"pos"}
				for _, nd := range w.pool.CopyNodes() {
					parts = append(parts, fmt.Sprintf("%s:%d", dec(nd.GetKey()), nd.SetIndex))
				}
				outs[i] = strings.Join(parts, " ")
			case "seed", "seednb", "cseed":
				if len(f) < 2 {
					return
				}
				sd, ok := parseInt(f[1])
				perm, ok2 := parsePerm(f[2:])
				if !ok || !ok2 {
					return
				}
				// the permutation argument must be what Go's seeded generator produces for this pool size
				if !samePerm(perm, rand.New(rand.NewSource(sd)).Perm(w.pool.Size())) {
					outs[i] = "harness-bad-perm"
					return
				}
				switch f[0] {
				case "seed":
					w.r.SetRandomSeed(sd, w.pool.Size())
					outs[i] = "ok"
				case "seednb":
					w.r.SetRandomSeedForNotarizedBlock(sd, w.pool.Size())
					outs[i] = "ok"
				default:
					outs[i] = strconv.FormatBool(w.c.SetRandomSeed(w.r, sd))
				}
			case "rank", "isgen":
				if len(f) != 2 || !isID(f[1]) {
					return
				}
				nd := w.pool.GetNode(f[1])
				if nd == nil {
					outs[i] = "nomember"
					return
				}
				if f[0] == "rank" {
					outs[i] = fmt.Sprintf("rank %d", w.r.GetMinerRank(nd))
				} else {
					outs[i] = strconv.FormatBool(w.c.IsRoundGenerator(w.r, nd))
				}
			case "ranks":
				if len(f) != 1 {
					return
				}
				parts := []string{"ranks"}
				for _, nd := range w.pool.CopyNodes() {
					parts = append(parts, strconv.Itoa(w.r.GetMinerRank(nd)))
				}
				outs[i] = strings.Join(parts, " ")
			case "byrank", "gens":
				if len(f) != 1 {
					return
				}
				if !w.keysDistinct() {
					outs[i] = "ambiguous"
					return
				}
				var nodes []*node.Node
				if f[0] == "byrank" {
					nodes = w.r.GetMinersByRank(w.pool.CopyNodes())
				} else {
					nodes = w.c.GetGenerators(w.r)
				}
				parts := []string{f[0]}
				for _, nd := range nodes {
					parts = append(parts, strconv.Itoa(nd.SetIndex))
				}
				outs[i] = strings.Join(parts, " ")
			case "blk":
				if len(f) != 5 {
					return
				}
				o, ok1 := parseNat(f[1])
				h, ok2 := parseNat(f[2])
				rk, ok3 := parseInt(f[3])
				if !ok1 || !ok2 || !ok3 || rk != int64(int32(rk)) {
					return
				}
				var tks []*block.VerificationTicket
				if f[4] != "-" {
					for _, t := range strings.Split(f[4], ",") {
						v, ok := parseNat(t)
						if !ok {
							return
						}
						tks = append(tks, &block.VerificationTicket{VerifierID: strconv.FormatInt(v, 10), Signature: "sig"})
					}
				}
				if _, dup := w.objs[o]; dup {
					return // object ids are never reused
				}
				b := block.NewBlock("", 1)
				b.Hash = strconv.FormatInt(h, 10)
				b.RoundRank = int(rk)
				b.VerificationTickets = tks
				w.objs[o] = b
				w.ids[b] = o
				outs[i] = "ok"
			case "addn":
				if b := objArg(); b != nil {
					w.r.AddNotarizedBlock(b)
					outs[i] = "ok"
				}
			case "upd":
				if b := objArg(); b != nil {
					w.r.UpdateNotarizedBlock(b)
					outs[i] = "ok"
				}
			case "addp":
				if b := objArg(); b != nil {
					w.r.AddProposedBlock(b)
					outs[i] = "ok"
				}
			case "nbs":
				if len(f) == 1 {
					outs[i] = w.showObjs("nbs", w.r.GetNotarizedBlocks())
				}
			case "pbs":
				if len(f) == 1 {
					outs[i] = w.showObjs("pbs", w.r.GetProposedBlocks())
				}
			case "best":
				if len(f) == 1 {
					if w.r.Block == nil {
						outs[i] = "best nil"
					} else {
						outs[i] = fmt.Sprintf("best %d", w.ids[w.r.Block])
					}
				}
			case "heaviest":
				if len(f) == 1 {
					if b := w.r.GetHeaviestNotarizedBlock(); b == nil {
						outs[i] = "heaviest nil"
					} else {
						outs[i] = fmt.Sprintf("heaviest %d", w.ids[b])
					}
				}
			case "tix":
				if b := objArg(); b != nil {
					parts := []string{"tix"}
					for _, t := range b.GetVerificationTickets() {
						parts = append(parts, t.VerifierID)
					}
					outs[i] = strings.Join(parts, " ")
				}
			}
		}()
	}
	return outs
}

// ---- generator -------------------------------------------------------------------------------------------------------

type ident struct{ id, pk string }

func mkIdent(r *rand.Rand) ident {
	pk := make([]byte, 32)
	r.Read(pk)
	return ident{encryption.Hash(pk), hex.EncodeToString(pk)}
}

func permStr(seed int64, n int) string {
	p := rand.New(rand.NewSource(seed)).Perm(n)
	parts := make([]string, len(p))
	for i, v := range p {
		parts[i] = strconv.Itoa(v)
	}
	return strings.Join(parts, " ")
}

// gen: (a) a miner set added in two different orders (two segments with the same seed and the same queries);
// (b) a stream of block objects: up to 4 different blocks per rank, several objects (copies with other tickets) per hash,
// notarizations, updates, proposals, observed after every step.
func gen(r *rand.Rand, thorough bool, i int) []string {
	maxN := 8
	nb := 6 + r.Intn(25)
	if thorough {
		maxN = 30
		nb = 6 + r.Intn(120)
	}
	size := r.Intn(maxN)
	big := (!thorough && i%50 == 9) || (thorough && i%80 == 9)
	if big { // miner sets beyond 256: an index packed into 8 bits overflows
		size = []int{257, 300, 513}[r.Intn(3)]
	}
	shared := !big && i%6 == 2 && size >= 2
	ids := make([]ident, size)
	for k := range ids {
		ids[k] = mkIdent(r)
	}
	outsider := mkIdent(r)
	mingen := []int{0, 1, 2, 3, size, size + 2}[r.Intn(6)]
	seed := r.Int63()
	if r.Intn(10) == 0 {
		seed = []int64{1, -1, 1<<63 - 1, -1 << 63}[r.Intn(4)]
	}
	seed2 := r.Int63()
	var ops []string
	for s := 0; s < 2; s++ {
		ops = append(ops, fmt.Sprintf("new %d", mingen))
		early := r.Intn(25) == 0 // a rank query before any seed (nil permutation)
		if shared && s == 0 {
			// the miners as node OBJECTS; some of the same objects also go into side pools of another composition (which
			// renumbers their SetIndex); mostly the miner pool is touched again afterwards (which renumbers them back)
			for k, id := range ids {
				ops = append(ops, fmt.Sprintf("obj %d %s %s", k+1, id.id, id.pk))
			}
			for _, k := range r.Perm(size) {
				ops = append(ops, fmt.Sprintf("padd 0 %d", k+1))
			}
			sub := r.Perm(size)[:1+r.Intn(size)]
			for _, k := range sub {
				ops = append(ops, fmt.Sprintf("padd %d %d", 1+r.Intn(2), k+1))
			}
			if r.Intn(4) != 0 {
				k := sub[r.Intn(len(sub))]
				ops = append(ops, fmt.Sprintf("obj %d %s %s", size+1, ids[k].id, ids[k].pk), fmt.Sprintf("padd 0 %d", size+1))
			}
		} else {
			for _, k := range r.Perm(size) {
				ops = append(ops, fmt.Sprintf("addm %s %s", ids[k].id, ids[k].pk))
				if r.Intn(7) == 0 && !big {
					ops = append(ops, fmt.Sprintf("addm %s %s", ids[k].id, ids[k].pk))
				}
			}
		}
		if early {
			ops = append(ops, "ranks")
		}
		ops = append(ops, "pos")
		kind := []string{"seed", "cseed", "seednb"}[i%3]
		ops = append(ops, fmt.Sprintf("%s %d %s", kind, seed, permStr(seed, size)))
		ops = append(ops, "ranks", "byrank", "gens")
		for _, id := range ids {
			if !big || r.Intn(size) < 6 {
				ops = append(ops, "rank "+id.id, "isgen "+id.id)
			}
		}
		ops = append(ops, "rank "+outsider.id, "isgen "+outsider.id)
		// a second seed: ignored by SetRandomSeed (already set), taken by SetRandomSeedForNotarizedBlock
		if s == 1 || i%2 == 0 {
			k2 := []string{"seed", "cseed", "seednb"}[(i/3)%3]
			ops = append(ops, fmt.Sprintf("%s %d %s", k2, seed2, permStr(seed2, size)), "ranks")
			for _, id := range ids {
				if !big || r.Intn(size) < 6 {
					ops = append(ops, "rank "+id.id)
				}
			}
		}
		if s == 0 && r.Intn(4) == 0 && size > 0 {
			// a miner joining after the seed: its SetIndex is outside the permutation for the highest key
			x := mkIdent(r)
			ops = append(ops, fmt.Sprintf("addm %s %s", x.id, x.pk), "ranks", "byrank", "rank "+x.id, "isgen "+x.id)
		}
	}
	// block lists (on the round of the last segment)
	nextObj := 1
	type ob struct{ o, h int }
	var objs []ob
	maxRank := 1 + r.Intn(6)
	if r.Intn(10) == 0 {
		maxRank = 1074
	}
	for k := 0; k < nb; k++ {
		x := r.Intn(100)
		switch {
		case x < 35 || len(objs) == 0:
			rank := r.Intn(maxRank + 1)
			if maxRank == 1074 && r.Intn(2) == 0 {
				rank = 1074 - r.Intn(3)
			}
			h := rank*4 + r.Intn(3)
			if len(objs) > 0 && r.Intn(3) == 0 {
				h = objs[r.Intn(len(objs))].h // another object for a known hash
				rank = h / 4
			}
			var tk []string
			for t := 0; t < r.Intn(4); t++ {
				tk = append(tk, strconv.Itoa(r.Intn(6)))
			}
			ts := "-"
			if len(tk) > 0 {
				ts = strings.Join(tk, ",")
			}
			ops = append(ops, fmt.Sprintf("blk %d %d %d %s", nextObj, h, rank, ts))
			objs = append(objs, ob{nextObj, h})
			nextObj++
		case x < 65:
			o := objs[r.Intn(len(objs))]
			ops = append(ops, fmt.Sprintf("addn %d", o.o), "nbs", "best")
		case x < 80:
			o := objs[r.Intn(len(objs))]
			ops = append(ops, fmt.Sprintf("upd %d", o.o), "nbs", "pbs")
		case x < 88:
			o := objs[r.Intn(len(objs))]
			ops = append(ops, fmt.Sprintf("addp %d", o.o), "pbs")
		case x < 94:
			o := objs[r.Intn(len(objs))]
			ops = append(ops, fmt.Sprintf("tix %d", o.o))
		default:
			ops = append(ops, "heaviest")
		}
	}
	ops = append(ops, "nbs", "pbs", "best", "heaviest")
	if r.Intn(15) == 0 {
		ops = append(ops, []string{"addn 999", "blk 1 2", "upd x", "seed", "seed x 0", "frob", "blk 1 1 1 -", "tix -1", "rank zz"}[r.Intn(9)])
	}
	return ops
}

// ---- oracle ----------------------------------------------------------------------------------------------------------

// oracle: the property on the implementation's answers.
//
//	(ranking) after a seed was set for a pool of n miners, `ranks` is a permutation of 0..n-1;
//	(same inputs, any insertion order) two segments with the same miner set and the same seed operations answer identical
//	   rank queries identically;
//	(notarized blocks) every observed list: at most one block per rank, heaviest (lowest rank) first, no hash twice, and
//	   its content is the reference one: adding a block whose hash is present changes nothing, otherwise it displaces the
//	   block of the same rank;
//	(update) after `upd o`, the notarized (and proposed) entry with o's hash IS the object o.
//
// Domain: a block's hash determines its rank; ranks in 0..1074 (float64 weights differ).
func oracle(ops, outs []string) *corr.Violation {
	var first, firstKnown *corr.Violation
	mk := func(sig, msg string) {
		v := &corr.Violation{Signature: "C35:" + sig, Message: msg, Ops: ops, Impl: outs}
		if sig == "stale-setindex-of-shared-node-object" {
			if firstKnown == nil {
				firstKnown = v
			}
		} else if first == nil {
			first = v
		}
	}
	type seg struct {
		miners  map[string]bool
		side    bool // a node object of the miner pool was put into another pool AFTER the last AddNode to the miner pool
		seeds   []string
		answers map[string]string
		n       int
		seeded  bool
	}
	var segs []*seg
	var cur *seg
	objHash := map[int64]int64{}
	objRank := map[int64]int64{}
	hashRank := map[int64]int64{}
	nobj := map[string]string{}
	var ref []int64 // hashes of the notarized blocks, reference
	lastUpd := int64(-1)
	for i, op := range ops {
		f := strings.Fields(op)
		if len(f) == 0 || outs[i] == "bad-op" {
			continue
		}
		switch f[0] {
		case "new":
			cur = &seg{miners: map[string]bool{}, answers: map[string]string{}}
			segs = append(segs, cur)
			ref = nil
			lastUpd = -1
		case "addm":
			if cur != nil {
				cur.miners[f[1]] = true
				cur.side = false
				cur.answers = map[string]string{}
			}
		case "obj":
			nobj[f[1]] = f[2]
		case "padd":
			if cur != nil {
				if f[1] == "0" {
					cur.miners[nobj[f[2]]] = true
					cur.side = false
					cur.answers = map[string]string{}
				} else {
					cur.side = true
				}
			}
		case "seed", "seednb", "cseed":
			if cur != nil {
				cur.seeds = append(cur.seeds, op+" => "+outs[i])
				if outs[i] == "ok" || outs[i] == "true" {
					cur.seeded = true
					cur.n = len(f) - 2
				}
			}
		case "ranks":
			if cur == nil {
				continue
			}
			if !cur.side {
				cur.answers[op+"#"+strconv.Itoa(len(cur.seeds))] = outs[i]
			}
			if cur.seeded && cur.n == len(cur.miners) {
				g := strings.Fields(outs[i])[1:]
				seen := map[int]bool{}
				okp := len(g) == cur.n
				for _, x := range g {
					v, err := strconv.Atoi(x)
					if err != nil || v < 0 || v >= cur.n || seen[v] {
						okp = false
					}
					seen[v] = true
				}
				if !okp && cur.side {
					// known: SetIndex is a field of the node OBJECT; another pool holding the same object renumbered it
					mk("stale-setindex-of-shared-node-object", fmt.Sprintf("op %d: ranks %q of %d miners are not a permutation of 0..%d: a miner's node object was also added to another pool, which rewrote its SetIndex", i, outs[i], cur.n, cur.n-1))
				} else if !okp {
					mk("ranks-not-permutation", fmt.Sprintf("op %d: ranks %q of %d miners are not a permutation of 0..%d", i, outs[i], cur.n, cur.n-1))
				}
			}
		case "rank", "isgen", "byrank", "gens":
			if cur != nil && !cur.side {
				cur.answers[op+"#"+strconv.Itoa(len(cur.seeds))] = outs[i]
			}
		case "blk":
			o, _ := strconv.ParseInt(f[1], 10, 64)
			h, _ := strconv.ParseInt(f[2], 10, 64)
			rk, _ := strconv.ParseInt(f[3], 10, 64)
			if pr, ok := hashRank[h]; (ok && pr != rk) || rk < 0 || rk > 1074 {
				return nil // outside the domain
			}
			hashRank[h] = rk
			objHash[o], objRank[o] = h, rk
		case "addn":
			o, _ := strconv.ParseInt(f[1], 10, 64)
			h := objHash[o]
			present := false
			for _, x := range ref {
				if x == h {
					present = true
				}
			}
			if !present {
				var nr []int64
				for _, x := range ref {
					if hashRank[x] != hashRank[h] {
						nr = append(nr, x)
					}
				}
				nr = append(nr, h)
				sort.Slice(nr, func(a, b int) bool { return hashRank[nr[a]] < hashRank[nr[b]] })
				ref = nr
			}
			lastUpd = -1
		case "upd":
			lastUpd, _ = strconv.ParseInt(f[1], 10, 64)
		case "addp":
			lastUpd = -1
		case "nbs", "pbs":
			ents := strings.Fields(outs[i])[1:]
			var hs, rks, os []int64
			for _, e := range ents {
				p := strings.Split(e, ":")
				if len(p) != 3 {
					mk("list-format", fmt.Sprintf("op %d: %q", i, outs[i]))
					return first
				}
				o, _ := strconv.ParseInt(p[0], 10, 64)
				h, _ := strconv.ParseInt(p[1], 10, 64)
				rk, _ := strconv.ParseInt(p[2], 10, 64)
				os, hs, rks = append(os, o), append(hs, h), append(rks, rk)
			}
			if lastUpd >= 0 {
				for k := range hs {
					if hs[k] == objHash[lastUpd] && os[k] != lastUpd {
						if f[0] == "nbs" {
							mk("update-does-not-replace", fmt.Sprintf("op %d: after UpdateNotarizedBlock(object %d, hash %d) the notarized entry with that hash is still object %d: %q", i, lastUpd, hs[k], os[k], outs[i]))
						} else {
							mk("update-proposed-not-replaced", fmt.Sprintf("op %d: after UpdateNotarizedBlock(object %d) the proposed entry with hash %d is object %d", i, lastUpd, hs[k], os[k]))
						}
					}
				}
			}
			if lastUpd >= 0 {
				statUpdChecks++
			}
			if f[0] == "pbs" {
				continue
			}
			statLists++
			for k := range hs {
				for j := k + 1; j < len(hs); j++ {
					if rks[k] == rks[j] {
						mk("two-blocks-same-rank", fmt.Sprintf("op %d: %q holds two blocks of rank %d", i, outs[i], rks[k]))
					}
					if hs[k] == hs[j] {
						mk("hash-twice", fmt.Sprintf("op %d: %q holds hash %d twice", i, outs[i], hs[k]))
					}
				}
				if k+1 < len(hs) && rks[k] > rks[k+1] {
					mk("not-heaviest-first", fmt.Sprintf("op %d: %q is not ordered from heaviest (lowest rank) to lightest", i, outs[i]))
				}
			}
			same := len(hs) == len(ref)
			for k := 0; same && k < len(hs); k++ {
				same = hs[k] == ref[k]
			}
			if !same {
				mk("notarized-content", fmt.Sprintf("op %d: notarized hashes %v, reference %v", i, hs, ref))
			}
		}
	}
	for a := 0; a < len(segs); a++ {
		for b := a + 1; b < len(segs); b++ {
			x, y := segs[a], segs[b]
			if len(x.miners) != len(y.miners) {
				continue
			}
			same := true
			for id := range x.miners {
				if !y.miners[id] {
					same = false
				}
			}
			if !same {
				continue
			}
			for q, ans := range x.answers {
				k := strings.LastIndex(q, "#")
				ns, _ := strconv.Atoi(q[k+1:])
				if ns > len(y.seeds) || ns > len(x.seeds) {
					continue
				}
				eq := true
				for t := 0; t < ns; t++ {
					if x.seeds[t] != y.seeds[t] {
						eq = false
					}
				}
				if !eq {
					continue
				}
				if _, ok := y.answers[q]; ok {
					statOrderCmp++
				}
				if ans2, ok := y.answers[q]; ok && ans != ans2 {
					mk("ranks-order-dependent", fmt.Sprintf("the same miner set and seeds, added in another order: %q answers %q instead of %q", q[:k], ans2, ans))
				}
			}
		}
	}
	if first != nil {
		return first
	}
	return firstKnown
}

func main() {
	// Round.GetMinerRank dumps all goroutine stacks to os.Stdout when the permutation is nil; the result goes to -out
	for _, a := range os.Args {
		if a == "-out" {
			if null, err := os.OpenFile(os.DevNull, os.O_WRONLY, 0); err == nil {
				os.Stdout = null
			}
		}
	}
	corr.Main(corr.Prop{
		ID: "C35", Model: "C35", Gen: gen, Impl: impl, Oracle: oracle,
		Cases: func(th bool) int {
			if th {
				return 12000
			}
			return 1200
		},
		Extra: func() map[string]interface{} {
			return map[string]interface{}{"rank_answers_compared_across_insertion_orders": statOrderCmp, "notarized_lists_checked": statLists, "lists_checked_after_update": statUpdChecks}
		},
		Fixed: [][]string{
			{"new 1", "blk 1 0 0 1", "addn 1", "blk 2 0 0 1,2", "upd 2", "nbs", "pbs", "tix 1", "tix 2"}, // update did not replace before repo commit 1ab8ea2 (a regression is reported as C35:update-does-not-replace)
			{"new 1", "blk 1 0 0 1", "blk 2 0 0 2,3", "addn 1", "addn 2", "nbs", "tix 1", "tix 2", "best"},
			{"new 1", "blk 1 4 1 -", "blk 2 5 1 -", "blk 3 0 0 -", "addn 1", "addn 2", "nbs", "addn 3", "nbs", "best", "heaviest", "pbs"},
			{"new 2", "ranks", "byrank", "gens", "seed 5", "ranks", "cseed 0", "cseed 5", "cseed 6"},
		},
	})
}

type nopStore struct{}

func (nopStore) Read(ctx context.Context, key datastore.Key, entity datastore.Entity) error {
	return fmt.Errorf("nopStore")
}
func (nopStore) Merge(ctx context.Context, entity datastore.Entity) error      { return nil }
func (nopStore) Write(ctx context.Context, entity datastore.Entity) error      { return nil }
func (nopStore) InsertIfNE(ctx context.Context, entity datastore.Entity) error { return nil }
func (nopStore) Delete(ctx context.Context, entity datastore.Entity) error     { return nil }
func (nopStore) MultiRead(ctx context.Context, entityMetadata datastore.EntityMetadata, keys []datastore.Key, entities []datastore.Entity) error {
	return fmt.Errorf("nopStore")
}
func (nopStore) MultiWrite(ctx context.Context, entityMetadata datastore.EntityMetadata, entities []datastore.Entity) error {
	return nil
}
func (nopStore) MultiDelete(ctx context.Context, entityMetadata datastore.EntityMetadata, entities []datastore.Entity) error {
	return nil
}
func (nopStore) AddToCollection(ctx context.Context, entity datastore.CollectionEntity) error {
	return nil
}
func (nopStore) MultiAddToCollection(ctx context.Context, entityMetadata datastore.EntityMetadata, entities []datastore.Entity) error {
	return nil
}
func (nopStore) DeleteFromCollection(ctx context.Context, entity datastore.CollectionEntity) error {
	return nil
}
func (nopStore) MultiDeleteFromCollection(ctx context.Context, entityMetadata datastore.EntityMetadata, entities []datastore.Entity) error {
	return nil
}
func (nopStore) GetCollectionSize(ctx context.Context, entityMetadata datastore.EntityMetadata, collectionName string) int64 {
	return 0
}
func (nopStore) IterateCollection(ctx context.Context, entityMetadata datastore.EntityMetadata, collectionName string, handler datastore.CollectionIteratorHandler) error {
	return nil
}
