// C32 harness: the real BLS0ChainAggregateSignatureScheme, Chain.VerifyTickets and miner.Chain.ValidateTransactions
// against Model/Agg.lean; the oracle compares every aggregate verdict with the conjunction of the real individual Verify.
package main

import (
	"context"
	"encoding/hex"
	"fmt"
	"math/big"
	"math/rand"
	"strconv"
	"strings"

	"0chain.net/chaincore/block"
	"0chain.net/chaincore/transaction"
	"0chain.net/core/common"
	"0chain.net/core/config"
	"0chain.net/core/encryption"
	"verifharness/lib/corr"
	"verifharness/lib/cryptow"
	"verifharness/lib/minerfix"
)

const txnDate = 1700000000

type state struct {
	w      *cryptow.World
	sch    *encryption.BLS0ChainAggregateSignatureScheme
	fix    *minerfix.Fix
	miners int
}

func (s *state) close() {
	if s.fix != nil {
		s.fix.Close()
		s.fix = nil
	}
}

// buildTxn: the canonical transaction of a token `txn-<key>-<nonce>`: a send of <nonce> tokens by the client <key>.
func buildTxn(w *cryptow.World, token string) (*transaction.Transaction, bool) {
	f := strings.Split(token, "-")
	if len(f) != 3 || f[0] != "txn" {
		return nil, false
	}
	k, ok := w.Keys[f[1]]
	nonce, err := strconv.ParseInt(f[2], 10, 64)
	if !ok || err != nil || nonce <= 0 {
		return nil, false
	}
	t := &transaction.Transaction{}
	t.Version = "1.0"
	t.PublicKey = k.GetPublicKey()
	pkb, _ := hex.DecodeString(t.PublicKey)
	t.ClientID = encryption.Hash(pkb)
	t.ToClientID = encryption.Hash("to:" + f[1])
	t.ChainID = config.GetServerChainID()
	t.TransactionData = "verif " + token
	t.Value = 1
	t.CreationDate = common.Timestamp(txnDate)
	t.Nonce = nonce
	t.TransactionType = transaction.TxnTypeSend
	t.Hash = t.ComputeHash()
	t.OutputHash = t.ComputeOutputHash()
	return t, true
}

func msgFn(w *cryptow.World, token string) ([]byte, bool) {
	t, ok := buildTxn(w, token)
	if !ok {
		return nil, false
	}
	b, err := hex.DecodeString(t.Hash)
	return b, err == nil
}

func (s *state) step(ws []string) string {
	if len(ws) == 0 {
		return "bad-op"
	}
	switch {
	case ws[0] == "agg" && len(ws) == 3:
		total, e1 := strconv.Atoi(ws[1])
		bs, e2 := strconv.Atoi(ws[2])
		if e1 != nil || e2 != nil || total < 0 || bs < 0 {
			return "bad-op"
		}
		s.sch = encryption.NewBLS0ChainAggregateSignature(total, bs) // batch size 0 panics (recovered by the caller)
		return "ok"
	case ws[0] == "aggadd" && len(ws) == 5:
		idx, e1 := strconv.Atoi(ws[1])
		k, ok := s.w.Keys[ws[2]]
		si, e2 := strconv.Atoi(ws[3])
		m, ok2 := s.w.Msgs[ws[4]]
		if s.sch == nil || e1 != nil || idx < 0 || !ok || e2 != nil || si < 0 || si >= len(s.w.Sigs) || !ok2 {
			return "bad-op"
		}
		v := encryption.NewBLS0ChainScheme()
		if err := v.SetPublicKey(k.GetPublicKey()); err != nil {
			return "err"
		}
		if err := s.sch.Aggregate(v, idx, s.w.Sigs[si].SerializeToHexStr(), hex.EncodeToString(m)); err != nil {
			return "err"
		}
		return "ok"
	case ws[0] == "aggverify" && len(ws) == 1:
		if s.sch == nil {
			return "bad-op"
		}
		if len(s.sch.ASigs) == 0 {
			return "crash"
		}
		for i := range s.sch.ASigs {
			if s.sch.ASigs[i] == nil || s.sch.AGt[i] == nil {
				return "crash" // Verify would dereference a nil pointer inside the C library: not survivable in-process
			}
		}
		ok, _ := s.sch.Verify()
		return strconv.FormatBool(ok)
	case ws[0] == "miners" && len(ws) == 3:
		k, e1 := strconv.Atoi(ws[1])
		bs, e2 := strconv.Atoi(ws[2])
		if e1 != nil || e2 != nil || k <= 0 || bs <= 0 {
			return "bad-op"
		}
		keys := make([]*encryption.BLS0ChainScheme, k)
		for j := range keys {
			keys[j] = s.w.Keys["n"+strconv.Itoa(j)]
			if keys[j] == nil {
				return "bad-op"
			}
			// the miners' node objects only hold the public key
			pub := encryption.NewBLS0ChainScheme()
			if err := pub.SetPublicKey(keys[j].GetPublicKey()); err != nil {
				return "bad-op"
			}
			keys[j] = pub
		}
		s.close()
		s.fix = minerfix.New(minerfix.Opts{N: k, T: k, Self: 0, ThresholdByCount: 66, Keys: keys, ValidationBatchSize: bs, SelfKey: s.w.Keys["n0"]})
		s.miners = k
		return "ok"
	case ws[0] == "vtickets" && len(ws) == 3:
		m, ok := s.w.Msgs[ws[1]]
		if s.fix == nil || !ok || ws[2] == "-" {
			return "bad-op"
		}
		var bvts []*block.VerificationTicket
		for _, e := range strings.Split(ws[2], ",") {
			f := strings.Split(e, ":")
			if len(f) != 2 {
				return "bad-op"
			}
			si, err := strconv.Atoi(f[1])
			if err != nil || si < 0 || si >= len(s.w.Sigs) {
				return "bad-op"
			}
			id := "unknown-" + f[0]
			if strings.HasPrefix(f[0], "n") {
				if j, err := strconv.Atoi(f[0][1:]); err == nil && j >= 0 && j < s.miners {
					id = s.fix.Nodes[j].GetKey()
				}
			}
			bvts = append(bvts, &block.VerificationTicket{VerifierID: id, Signature: s.w.Sigs[si].SerializeToHexStr()})
		}
		if err := s.fix.MC.VerifyTickets(context.Background(), hex.EncodeToString(m), bvts, 1); err != nil {
			return "err"
		}
		return "ok"
	case ws[0] == "vtxns" && len(ws) == 2:
		if s.fix == nil || ws[1] == "-" {
			return "bad-op"
		}
		b := block.NewBlock(config.GetServerChainID(), 5)
		b.CreationDate = common.Timestamp(txnDate)
		for _, e := range strings.Split(ws[1], ",") {
			f := strings.Split(e, ":")
			if len(f) != 3 {
				return "bad-op"
			}
			k, ok := s.w.Keys[f[0]]
			si, err := strconv.Atoi(f[1])
			t, ok2 := buildTxn(s.w, f[2])
			if !ok || err != nil || si < 0 || si >= len(s.w.Sigs) || !ok2 {
				return "bad-op"
			}
			if _, have := s.w.Msgs[f[2]]; !have {
				return "bad-op"
			}
			// the transaction claims the client <key>: public key and client id are that key's
			t.PublicKey = k.GetPublicKey()
			pkb, _ := hex.DecodeString(t.PublicKey)
			t.ClientID = encryption.Hash(pkb)
			if t.Hash != t.ComputeHash() {
				// the token was made for another client than the one claimed: the hash field keeps the token's hash,
				// which the real code rejects as a hash mismatch before any signature is looked at
			}
			t.Signature = s.w.Sigs[si].SerializeToHexStr()
			b.Txns = append(b.Txns, t)
		}
		s.fix.MC.SetCurrentRound(5)
		if err := s.fix.MC.ValidateTransactions(context.Background(), b); err != nil {
			return "err"
		}
		return "ok"
	}
	o, handled := s.w.Step(ws)
	if !handled {
		return "bad-op"
	}
	if ws[0] == "dkg" {
		s.close()
		s.sch = nil
		s.miners = 0
	}
	return o
}

func impl(ops []string) []string {
	s := &state{w: cryptow.New()}
	s.w.MsgFn = msgFn
	defer s.close()
	outs := make([]string, len(ops))
	for i, op := range ops {
		func() {
			defer func() {
				if r := recover(); r != nil {
					outs[i] = "panic"
				}
			}()
			outs[i] = s.step(strings.Fields(op))
		}()
	}
	return outs
}

// ---------------------------------------------------------------------------------------------- generator

func rndGeneric(r *rand.Rand) string {
	for {
		v := new(big.Int).Rand(r, cryptow.Order())
		if v.BitLen() > 200 {
			return v.String()
		}
	}
}

type gen struct {
	r    *rand.Rand
	ops  []string
	nsig int
}

func (g *gen) add(f string, a ...interface{}) { g.ops = append(g.ops, fmt.Sprintf(f, a...)) }
func (g *gen) sig(f string, a ...interface{}) int {
	g.add(f, a...)
	g.nsig++
	return g.nsig - 1
}

type item struct {
	key string
	sig int
	msg string
}

// corrupt applies a corruption pattern to the valid items; returns the (possibly) corrupted items.
func (g *gen) corrupt(items []item, junk []int, pattern int) []item {
	r := g.r
	out := append([]item(nil), items...)
	n := len(out)
	pick := func() int { return junk[r.Intn(len(junk))] }
	switch pattern {
	case 0: // all valid
	case 1: // one signature replaced by another point
		out[r.Intn(n)].sig = pick()
	case 2: // one signature perturbed by +P
		i := r.Intn(n)
		out[i].sig = g.sig("sigadd %d %d", out[i].sig, pick())
	case 3: // coordinated: +P on one, -P on another  (the cancellation)
		if n >= 2 {
			p := r.Perm(n)
			P := pick()
			out[p[0]].sig = g.sig("sigadd %d %d", out[p[0]].sig, P)
			out[p[1]].sig = g.sig("sigsub %d %d", out[p[1]].sig, P)
		}
	case 4: // two signatures swapped (their errors cancel as well)
		if n >= 2 {
			p := r.Perm(n)
			out[p[0]].sig, out[p[1]].sig = out[p[1]].sig, out[p[0]].sig
		}
	case 5: // +P, +Q, -(P+Q) over three items
		if n >= 3 {
			p := r.Perm(n)
			P, Q := pick(), pick()
			pq := g.sig("sigadd %d %d", P, Q)
			out[p[0]].sig = g.sig("sigadd %d %d", out[p[0]].sig, P)
			out[p[1]].sig = g.sig("sigadd %d %d", out[p[1]].sig, Q)
			out[p[2]].sig = g.sig("sigsub %d %d", out[p[2]].sig, pq)
		}
	case 6: // uncoordinated: +P on one, -Q on another
		if n >= 2 {
			p := r.Perm(n)
			out[p[0]].sig = g.sig("sigadd %d %d", out[p[0]].sig, pick())
			out[p[1]].sig = g.sig("sigsub %d %d", out[p[1]].sig, pick())
		}
	case 7: // a valid signature of the right key on another message
	case 8: // the zero signature
		out[r.Intn(n)].sig = g.sig("sigzero")
	}
	return out
}

func genCase(r *rand.Rand, thorough bool, i int) []string {
	g := &gen{r: r}
	g.add("dkg 0 0")
	g.add("order")
	maxN := 6
	if thorough {
		maxN = 12
	}
	n := 1 + r.Intn(maxN)
	mode := r.Intn(3) // 0: the scheme directly, 1: tickets, 2: transactions
	keys := make([]string, n)
	for j := range keys {
		keys[j] = fmt.Sprintf("n%d", j)
		sk := rndGeneric(r)
		if r.Intn(15) == 0 {
			sk = strconv.Itoa(1 + r.Intn(3))
		}
		g.add("key %s %s", keys[j], sk)
	}
	// messages
	msgs := make([]string, n)
	for j := range msgs {
		switch mode {
		case 1:
			msgs[j] = "blk"
		case 2:
			msgs[j] = fmt.Sprintf("txn-%s-%d", keys[j], 1+r.Intn(3))
		default:
			msgs[j] = fmt.Sprintf("m%d", r.Intn(n+1)) // repeated messages are allowed
		}
	}
	seen := map[string]bool{}
	for _, m := range append(append([]string(nil), msgs...), "junk") {
		if !seen[m] {
			seen[m] = true
			g.add("msg %s %s", m, rndGeneric(r))
		}
	}
	items := make([]item, n)
	for j := range items {
		items[j] = item{keys[j], g.sig("ksign %s %s", keys[j], msgs[j]), msgs[j]}
	}
	// junk points: signatures of the keys on another message
	var junk []int
	for j := 0; j < 2; j++ {
		junk = append(junk, g.sig("ksign %s junk", keys[r.Intn(n)]))
	}
	bs := 1 + r.Intn(n+1)
	if mode != 0 {
		g.add("miners %d %d", n, bs)
	}
	rounds := 3
	for x := 0; x < rounds; x++ {
		pattern := r.Intn(9)
		if x == 0 && r.Intn(2) == 0 {
			pattern = 3
		}
		its := g.corrupt(items, junk, pattern)
		// individual verdicts first (the oracle's reference)
		for _, it := range its {
			g.add("kverify %s %d %s", it.key, it.sig, it.msg)
		}
		switch mode {
		case 0:
			b := 1 + r.Intn(n+1)
			g.add("agg %d %d", n, b)
			for _, j := range r.Perm(n) { // any call order
				g.add("aggadd %d %s %d %s", j, its[j].key, its[j].sig, its[j].msg)
			}
			g.add("aggverify")
			if r.Intn(6) == 0 {
				g.add("aggverify") // the in-place fold makes a second call differ
			}
		case 1:
			var es []string
			for _, j := range r.Perm(n) {
				who := its[j].key
				if r.Intn(25) == 0 {
					who = "x" + strconv.Itoa(j)
				}
				es = append(es, fmt.Sprintf("%s:%d", who, its[j].sig))
			}
			g.add("vtickets blk %s", strings.Join(es, ","))
		case 2:
			var es []string
			for j := range its {
				es = append(es, fmt.Sprintf("%s:%d:%s", its[j].key, its[j].sig, its[j].msg))
			}
			g.add("vtxns %s", strings.Join(es, ","))
		}
	}
	return g.ops
}

func genMalformed(r *rand.Rand) []string {
	return []string{"dkg 0 0", "key n0 5", "msg a 7", "ksign n0 a", "agg 2 0", "aggadd 0 n0 0 a", "agg 2 1", "aggadd 2 n0 0 a", "aggadd 0 n0 0 a", "aggverify",
		"agg 0 1", "aggverify", "aggadd 0 nokey 0 a", "aggadd x n0 0 a", "vtickets a n0:0", "vtxns n0:0:a", "miners 0 1", "miners 1 0", "miners 2 1", "frob"}
}

func genAll(r *rand.Rand, thorough bool, i int) []string {
	if i%50 == 49 {
		return genMalformed(r)
	}
	return genCase(r, thorough, i)
}

func main() {
	corr.Main(corr.Prop{
		ID: "C32", Model: "C32", Gen: genAll, Impl: impl, Oracle: oracle, Serial: true,
		Cases: func(th bool) int {
			if th {
				return 6000
			}
			return 400
		},
		Fixed: [][]string{
			// the cancellation witness of Props/C32 on the real library, through all three entry points
			{"dkg 0 0", "key n0 11", "key n1 13", "msg a 3", "msg b 4", "msg junk 9", "ksign n0 a", "ksign n1 b", "ksign n0 junk",
				"sigadd 0 2", "sigsub 1 2", "kverify n0 3 a", "kverify n1 4 b",
				"agg 2 2", "aggadd 0 n0 3 a", "aggadd 1 n1 4 b", "aggverify",
				"agg 2 1", "aggadd 1 n1 4 b", "aggadd 0 n0 3 a", "aggverify", "aggverify"},
			{"dkg 0 0", "key n0 11", "key n1 13", "msg blk 3", "msg junk 9", "ksign n0 blk", "ksign n1 blk", "ksign n0 junk",
				"sigadd 0 2", "sigsub 1 2", "kverify n0 3 blk", "kverify n1 4 blk", "miners 2 1", "vtickets blk n0:3,n1:4", "vtickets blk n0:0,n1:1", "vtickets blk n0:3,n1:1"},
			{"dkg 0 0", "key n0 11", "key n1 13", "msg txn-n0-1 3", "msg txn-n1-2 4", "msg junk 9", "ksign n0 txn-n0-1", "ksign n1 txn-n1-2", "ksign n0 junk",
				"sigadd 0 2", "sigsub 1 2", "kverify n0 3 txn-n0-1", "kverify n1 4 txn-n1-2", "miners 2 1",
				"vtxns n0:3:txn-n0-1,n1:4:txn-n1-2", "vtxns n0:0:txn-n0-1,n1:1:txn-n1-2", "vtxns n0:3:txn-n0-1,n1:1:txn-n1-2"},
		},
	})
}
