package main

import (
	"fmt"
	"strings"

	"verifharness/lib/corr"
)

// The property on the real code's answers: an aggregate verification (the scheme itself, VerifyTickets,
// ValidateTransactions) accepts exactly when every individual signature is valid for its key and message, where the
// individual verdicts are the real BLS0ChainScheme.Verify answers recorded by the preceding `kverify` operations.
func oracle(ops, outs []string) *corr.Violation {
	mk := func(i int, sig, msg string) *corr.Violation {
		return &corr.Violation{Signature: "C32:" + sig, Message: fmt.Sprintf("op %d %q answered %q: %s", i, ops[i], outs[i], msg), Ops: ops, Impl: outs}
	}
	indiv := map[string]string{} // "key|sig|msg" -> true/false
	type it struct{ k, s, m string }
	var cur []it
	verifies := 0
	judge := func(i int, where string, items []it, accepted bool) *corr.Violation {
		bad, unknown := 0, 0
		for _, x := range items {
			switch indiv[x.k+"|"+x.s+"|"+x.m] {
			case "true":
			case "false":
				bad++
			default:
				unknown++
			}
		}
		if unknown > 0 {
			return nil // the individual verdict of some item was not recorded: nothing to compare with
		}
		switch {
		case accepted && bad >= 2:
			return mk(i, where+"-accepts-cancelling-invalid-signatures", fmt.Sprintf("%d of %d signatures are individually invalid, the aggregate check accepts", bad, len(items)))
		case accepted && bad == 1:
			return mk(i, where+"-accepts-single-invalid-signature", "one signature is individually invalid, the aggregate check accepts")
		case !accepted && bad == 0:
			return mk(i, where+"-rejects-valid-signatures", "all signatures are individually valid, the aggregate check rejects")
		}
		return nil
	}
	for i, op := range ops {
		w := strings.Fields(op)
		if len(w) == 0 {
			continue
		}
		out := outs[i]
		switch w[0] {
		case "dkg":
			indiv = map[string]string{}
			cur = nil
		case "kverify":
			if len(w) == 4 && (out == "true" || out == "false") {
				indiv[w[1]+"|"+w[2]+"|"+w[3]] = out
			}
		case "agg":
			cur = nil
			verifies = 0
		case "aggadd":
			if len(w) == 5 && out == "ok" {
				cur = append(cur, it{w[2], w[3], w[4]})
			}
		case "aggverify":
			verifies++
			if verifies == 1 && (out == "true" || out == "false") { // later calls see the folded state (code quirk, modelled)
				if v := judge(i, "scheme", cur, out == "true"); v != nil {
					return v
				}
			}
		case "vtickets":
			if len(w) == 3 && (out == "ok" || out == "err") {
				var items []it
				foreign := false
				for _, e := range strings.Split(w[2], ",") {
					f := strings.Split(e, ":")
					if len(f) != 2 {
						return nil
					}
					if !strings.HasPrefix(f[0], "n") {
						foreign = true
					}
					items = append(items, it{f[0], f[1], w[1]})
				}
				if foreign {
					if out == "ok" {
						return mk(i, "tickets-accept-foreign-verifier", "a ticket of a verifier outside the magic block was accepted")
					}
					continue
				}
				if v := judge(i, "tickets", items, out == "ok"); v != nil {
					return v
				}
			}
		case "vtxns":
			if len(w) == 2 && (out == "ok" || out == "err") {
				var items []it
				for _, e := range strings.Split(w[1], ",") {
					f := strings.Split(e, ":")
					if len(f) != 3 {
						return nil
					}
					items = append(items, it{f[0], f[1], f[2]})
				}
				if v := judge(i, "transactions", items, out == "ok"); v != nil {
					return v
				}
			}
		}
	}
	return nil
}
