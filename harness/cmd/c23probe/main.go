// temporary probe (deleted after the design is confirmed)
package main

import (
	"fmt"
	"os"

	"0chain.net/smartcontract/minersc"
	"0chain.net/smartcontract/storagesc"
	"verifharness/cmd/c23/spw"
)

func show(w *spw.World, key string) {
	m := w.Node(key)
	fmt.Printf("   %s = %v\n", key, m)
}

func main() {
	tags := []string{"b1", "b1-dw", "v1", "v1-dw", "st1", "st2", "stranger", "miner0", "miner0-dw", "s1", "s1-dw", "a1", "a1-dw"}
	w, err := spw.New(tags, 100000e10, true)
	if err != nil {
		panic(err)
	}
	for _, t := range tags {
		w.NameIDs(t)
	}
	step := func(tag string, f func() spw.Result) {
		a := w.Snapshot()
		r := f()
		b := w.Snapshot()
		fmt.Printf("%s: err=%v status=%d out=%.200s\n   diff=%v\n", tag, r.Err, r.Status, r.Out, w.Diff(a, b))
	}
	b1, v1 := spw.Cl("b1"), spw.Cl("v1")
	step("add_blobber", func() spw.Result {
		return w.Call(b1, storagesc.ADDRESS, "add_blobber", fmt.Sprintf(`{"url":"http://b1.example:5051","capacity":107374182400,"terms":{"read_price":100000000,"write_price":1000000000},"stake_pool_settings":{"delegate_wallet":%q,"num_delegates":10,"service_charge":0.1}}`, spw.Cl("b1-dw").ID), 0)
	})
	step("add_validator", func() spw.Result {
		return w.Call(v1, storagesc.ADDRESS, "add_validator", fmt.Sprintf(`{"url":"http://v1.example:5061","stake_pool_settings":{"delegate_wallet":%q,"num_delegates":10,"service_charge":0.1}}`, spw.Cl("v1-dw").ID), 0)
	})
	step("lock b1 st1", func() spw.Result {
		return w.Call(spw.Cl("st1"), storagesc.ADDRESS, "stake_pool_lock", fmt.Sprintf(`{"provider_type":3,"provider_id":%q}`, b1.ID), 1000e10)
	})
	step("lock b1 st2", func() spw.Result {
		return w.Call(spw.Cl("st2"), storagesc.ADDRESS, "stake_pool_lock", fmt.Sprintf(`{"provider_type":3,"provider_id":%q}`, b1.ID), 333e10+7)
	})
	step("lock v1 st1", func() spw.Result {
		return w.Call(spw.Cl("st1"), storagesc.ADDRESS, "stake_pool_lock", fmt.Sprintf(`{"provider_type":4,"provider_id":%q}`, v1.ID), 10e10+1)
	})
	show(w, "blobber:stakepool:"+b1.ID)
	step("shutdown b1 by stranger", func() spw.Result {
		return w.Call(spw.Cl("stranger"), storagesc.ADDRESS, "shutdown_blobber", fmt.Sprintf(`{"provider_id":%q}`, b1.ID), 0)
	})
	step("shutdown b1 by b1 itself", func() spw.Result {
		return w.Call(b1, storagesc.ADDRESS, "shutdown_blobber", fmt.Sprintf(`{"provider_id":%q}`, b1.ID), 0)
	})
	step("shutdown b1 by delegate wallet", func() spw.Result {
		return w.Call(spw.Cl("b1-dw"), storagesc.ADDRESS, "shutdown_blobber", fmt.Sprintf(`{"provider_id":%q}`, b1.ID), 0)
	})
	show(w, "blobber:stakepool:"+b1.ID)
	show(w, "blobber:stakepool:"+spw.Cl("b1-dw").ID)
	step("shutdown b1 by delegate wallet again", func() spw.Result {
		return w.Call(spw.Cl("b1-dw"), storagesc.ADDRESS, "shutdown_blobber", fmt.Sprintf(`{"provider_id":%q}`, b1.ID), 0)
	})
	step("shutdown v1 by owner", func() spw.Result {
		return w.Call(spw.Owner, storagesc.ADDRESS, "shutdown_validator", fmt.Sprintf(`{"provider_id":%q}`, v1.ID), 0)
	})
	show(w, "validator:stakepool:"+v1.ID)
	show(w, "validator:stakepool:"+spw.OwnerID)
	step("kill v1 by owner", func() spw.Result {
		return w.Call(spw.Owner, storagesc.ADDRESS, "kill_validator", fmt.Sprintf(`{"provider_id":%q}`, v1.ID), 0)
	})

	// minersc
	mk := func(tag string, port int) string {
		c := spw.Cl(tag)
		return fmt.Sprintf(`{"simple_miner":{"id":%q,"n2n_host":"%s.example","host":"%s.example","port":%d,"path":"p","public_key":%q,"short_name":%q},"stake_pool":{"settings":{"delegate_wallet":%q,"num_delegates":10,"service_charge":0.1}}}`,
			c.ID, tag, tag, port, c.PublicKey, tag, spw.Cl(tag+"-dw").ID)
	}
	step("add_miner miner0", func() spw.Result { return w.Call(spw.Cl("miner0"), minersc.ADDRESS, "add_miner", mk("miner0", 7071), 0) })
	step("add_sharder s1", func() spw.Result { return w.Call(spw.Cl("s1"), minersc.ADDRESS, "add_sharder", mk("s1", 7171), 0) })
	step("lock miner0 st1", func() spw.Result {
		return w.Call(spw.Cl("st1"), minersc.ADDRESS, "addToDelegatePool", fmt.Sprintf(`{"provider_type":1,"provider_id":%q}`, spw.Cl("miner0").ID), 50e10)
	})
	step("lock s1 st2", func() spw.Result {
		return w.Call(spw.Cl("st2"), minersc.ADDRESS, "addToDelegatePool", fmt.Sprintf(`{"provider_type":2,"provider_id":%q}`, spw.Cl("s1").ID), 50e10)
	})
	w.W.NextBlock()
	step("payFees", func() spw.Result {
		return w.Call(spw.Cl("miner0"), minersc.ADDRESS, "payFees", fmt.Sprintf(`{"round":%d}`, w.W.Round), 0)
	})
	show(w, "provider:"+spw.Cl("miner0").ID)
	step("kill miner0 by stranger", func() spw.Result {
		return w.Call(spw.Cl("stranger"), minersc.ADDRESS, "kill_miner", fmt.Sprintf(`{"provider_id":%q}`, spw.Cl("miner0").ID), 0)
	})
	step("kill miner0 by owner", func() spw.Result {
		return w.Call(spw.Owner, minersc.ADDRESS, "kill_miner", fmt.Sprintf(`{"provider_id":%q}`, spw.Cl("miner0").ID), 0)
	})
	w.W.NextBlock()
	step("payFees after kill", func() spw.Result {
		return w.Call(spw.Cl("miner0"), minersc.ADDRESS, "payFees", fmt.Sprintf(`{"round":%d}`, w.W.Round), 0)
	})
	step("unlock miner0 st1", func() spw.Result {
		return w.Call(spw.Cl("st1"), minersc.ADDRESS, "deleteFromDelegatePool", fmt.Sprintf(`{"provider_type":1,"provider_id":%q}`, spw.Cl("miner0").ID), 0)
	})
	// cross-kind, by a stranger; os.Args[1] selects the function
	fn := os.Args[1]
	target := os.Args[2]
	step(fn+" on "+target+" by stranger", func() spw.Result {
		return w.Call(spw.Cl("stranger"), storagesc.ADDRESS, fn, fmt.Sprintf(`{"provider_id":%q}`, spw.Cl(target).ID), 0)
	})
	fmt.Println("SURVIVED")
}
