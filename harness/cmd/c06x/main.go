// scratch: does the order of deletes / inserts in one block change the MPT change count?
package main

import (
	"context"
	"fmt"
	"math/rand"

	"0chain.net/core/encryption"
	"github.com/0chain/common/core/statecache"
	"github.com/0chain/common/core/util"
)

type val struct{ b []byte }

func (v *val) MarshalMsg(o []byte) ([]byte, error)   { return append(o, v.b...), nil }
func (v *val) UnmarshalMsg(b []byte) ([]byte, error) { v.b = append([]byte(nil), b...); return nil, nil }

func main() {
	r := rand.New(rand.NewSource(1))
	diffC, diffR := 0, 0
	for trial := 0; trial < 300; trial++ {
		base := util.NewMemoryNodeDB()
		m0 := util.NewMerklePatriciaTrie(base, 0, nil, statecache.NewEmpty())
		n := 5 + r.Intn(40)
		var keys []string
		for i := 0; i < n; i++ {
			k := encryption.Hash(fmt.Sprintf("k-%d-%d", trial, i))
			keys = append(keys, k)
			m0.Insert(util.Path(k), &val{[]byte{0xa1, byte('a' + i%26)}})
		}
		m0.SaveChanges(context.Background(), base, false)
		root := m0.GetRoot()
		del := r.Perm(n)[:2+r.Intn(4)]
		run := func(order []int) (string, int) {
			ndb := util.NewLevelNodeDB(util.NewMemoryNodeDB(), base, false)
			m := util.NewMerklePatriciaTrie(ndb, 1, root, statecache.NewEmpty())
			for _, i := range order {
				if _, err := m.Delete(util.Path(keys[i])); err != nil {
					panic(err)
				}
			}
			return fmt.Sprintf("%x", m.GetRoot()), m.GetChangeCount()
		}
		r1, c1 := run(del)
		rev := append([]int(nil), del...)
		for i, j := 0, len(rev)-1; i < j; i, j = i+1, j-1 {
			rev[i], rev[j] = rev[j], rev[i]
		}
		r2, c2 := run(rev)
		if r1 != r2 {
			diffR++
		}
		if c1 != c2 {
			diffC++
			if diffC <= 3 {
				fmt.Println("change count differs:", c1, c2, "deleting", len(del), "of", n)
			}
		}
	}
	fmt.Println("trials 300: root differs", diffR, "change count differs", diffC)
}
