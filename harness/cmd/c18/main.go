// C18 harness: the real zcnsc mint (with real BLS authorizer keys, real add-authorizer / delete-authorizer, real
// burns) through the real Chain.UpdateState against Model/Zcn.lean; the oracle states C18 on the implementation's
// answers alone.
package main

import (
	"fmt"
	"math"
	"math/big"
	"math/rand"
	"sort"
	"strconv"
	"strings"

	"verifharness/cmd/c18/zcnw"
	"verifharness/lib/corr"
)

var ratios = []float64{0, 0.1, 0.25, 0.5, 1}
var percents = []float64{0.7, 0.7, 0.7, 0.5, 0.66, 1.0, 0.3, 0.0, 0.25, 0.75, 1.5, 0.1, 0.9}

func hexF(f float64) string { return fmt.Sprintf("%016x", math.Float64bits(f)) }

type gpool struct {
	wallet, maxDel int
	ratio          float64
	minStake       uint64
}

type gstate struct {
	reg                     map[int]bool
	pool                    map[int]*gpool
	count                   int
	nonce                   [zcnw.NIDs + 1]int64
	minted                  map[int64]bool
	owner                   int
	minMint, maxFee, minSPD uint64
	percent                 float64
	maxDelegates            int
	nextNonce               int64
	eth                     uint64
	otherValid              int
}

func (g *gstate) threshold() int {
	return int(math.RoundToEven(g.percent * float64(g.count)))
}

func regKeys(g *gstate) []int {
	var ks []int
	for k := range g.reg {
		ks = append(ks, k)
	}
	sort.Ints(ks)
	return ks
}

// genInit builds the genesis line and the generator's picture of it.
func genInit(r *rand.Rand) (string, *gstate) {
	g := &gstate{reg: map[int]bool{}, pool: map[int]*gpool{}, minted: map[int64]bool{}}
	fee := 1
	if r.Intn(4) == 0 {
		fee = 0
	}
	g.minMint = []uint64{1, 100, 1000, 10000000000}[r.Intn(4)]
	g.maxFee = []uint64{1, 7, 100, 100, 1000, 99}[r.Intn(6)]
	if r.Intn(25) == 0 {
		g.maxFee = 0
	}
	g.percent = percents[r.Intn(len(percents))]
	g.owner = 2
	if r.Intn(6) == 0 {
		g.owner = 2 + r.Intn(zcnw.NIDs-2)
	}
	g.minSPD = []uint64{1, 50, 10000000000}[r.Intn(3)]
	g.maxDelegates = 1 + r.Intn(6)
	var accts []string
	for k := 0; k < zcnw.NIDs; k++ {
		var b uint64
		switch {
		case k == 1:
			b = g.minMint*uint64(200+r.Intn(400)) + 5000
			if r.Intn(14) == 0 {
				b = uint64(r.Intn(3)) * g.minMint
			}
		case k == 0:
			b = uint64(r.Intn(100))
		default:
			b = 1000 + uint64(r.Intn(100000))
			if r.Intn(15) == 0 {
				b = 0
			}
		}
		if r.Intn(3) == 0 {
			g.nonce[k] = int64(r.Intn(4))
		}
		if b != 0 || g.nonce[k] != 0 || r.Intn(2) == 0 {
			accts = append(accts, fmt.Sprintf("%d:%d:%d", k, b, g.nonce[k]))
		}
	}
	var users []string
	if r.Intn(3) == 0 {
		users = append(users, fmt.Sprintf("%d:%d", r.Intn(zcnw.NAddrs), r.Intn(9)))
	}
	nreg := r.Intn(zcnw.NKeys + 1)
	if r.Intn(3) == 0 {
		nreg = 3 + r.Intn(zcnw.NKeys-2)
	}
	// rounding cases: fraction × count with a fractional part (2.8, 3.5, 4.2, 2.5, 1.5, 4.5 …): RoundToEven, floor and
	// ceiling differ; the mint scenarios "exactly the threshold" / "one short" then sit on both sides of each
	if r.Intn(3) == 0 {
		c := [][2]float64{{0.7, 4}, {0.7, 5}, {0.7, 6}, {0.5, 5}, {0.5, 3}, {0.75, 6}, {0.25, 6}, {0.66, 4}, {0.9, 4}, {0.3, 5}, {0.7, 3}, {0.9, 6}}[r.Intn(12)]
		g.percent, nreg = c[0], int(c[1])
	}
	perm := r.Perm(zcnw.NKeys)
	var regs []string
	for j, k := range perm {
		registered := j < nreg
		if !registered && r.Intn(5) != 0 {
			continue
		}
		p := &gpool{wallet: 2 + r.Intn(zcnw.NIDs-2), maxDel: 1 + r.Intn(g.maxDelegates), ratio: ratios[r.Intn(len(ratios))], minStake: g.minSPD}
		if r.Intn(10) == 0 {
			p.minStake = g.minSPD + 1
		}
		killed := "0"
		if r.Intn(12) == 0 {
			killed = "1"
		}
		if !registered {
			killed = "u" + killed
		}
		var dps []string
		nd := r.Intn(4)
		if r.Intn(3) == 0 {
			nd = 0
		}
		for d := 0; d < nd; d++ {
			bal := g.minSPD*uint64(r.Intn(4)) + uint64(r.Intn(3))
			if r.Intn(6) == 0 {
				bal = 0
			}
			dps = append(dps, fmt.Sprintf("%d.%d", bal, r.Intn(50)))
		}
		dp := "-"
		if len(dps) > 0 {
			dp = strings.Join(dps, "/")
		}
		regs = append(regs, fmt.Sprintf("%d:%d:%d:%s:%d:%s:%d:%s", k, p.wallet, p.maxDel, hexF(p.ratio), r.Intn(100), killed, p.minStake, dp))
		g.pool[k] = p
		if registered {
			g.reg[k] = true
		}
	}
	g.count = len(g.reg)
	switch r.Intn(14) {
	case 0:
		g.count++
	case 1:
		if g.count > 0 {
			g.count--
		}
	}
	var minted []string
	if r.Intn(3) == 0 { // 6..12 nonces minted long ago: most of them no longer in the "last" partition
		for n := int64(0); n < int64(6+r.Intn(7)); n++ {
			g.minted[n] = true
			minted = append(minted, strconv.FormatInt(n, 10))
		}
	}
	for j := 0; j < r.Intn(3); j++ {
		n := int64(r.Intn(6))
		if !g.minted[n] {
			g.minted[n] = true
			minted = append(minted, strconv.FormatInt(n, 10))
		}
	}
	g.nextNonce = 10
	g.otherValid = 1
	if r.Intn(10) == 0 {
		g.otherValid = 0
	}
	line := fmt.Sprintf("init %d %d %d %d %s %d %d %d %d | %s | %s | %s | %s | %d | %s", fee, 10, g.minMint, g.maxFee, hexF(g.percent), g.owner, g.minSPD, g.maxDelegates, g.otherValid,
		strings.Join(accts, " "), strings.Join(users, " "), zcnw.KeysSection(), strings.Join(regs, " "), g.count, strings.Join(minted, " "))
	return line, g
}

func randScalar(r *rand.Rand) string { return strconv.FormatInt(1+r.Int63n(1<<62), 10) }

// genMint: one mint line. Scenarios: honest quorum, exactly-threshold, one short, duplicated ids, forged signatures
// (foreign scalar, right key on a tuple that differs in exactly one field), unregistered signers, undecodable
// signatures, empty ids, wrong receiver, amounts around the limits, repeated nonces, more signatures than authorizers.
func genMint(r *rand.Rand, g *gstate) string {
	sender := 2 + r.Intn(zcnw.NIDs-2)
	if r.Intn(40) == 0 {
		sender = r.Intn(zcnw.NIDs + 1)
	}
	nn := g.nonce[sender] + 1
	switch r.Intn(40) {
	case 0:
		nn = g.nonce[sender]
	case 1:
		nn += 1
	}
	feeV := uint64(r.Intn(20))
	value := uint64(0)
	if r.Intn(10) == 0 {
		value = uint64(r.Intn(100))
	}
	if r.Intn(30) == 0 {
		return fmt.Sprintf("mint %d %d %d %d !%d", sender, value, feeV, nn, r.Intn(16))
	}
	recv := sender
	if r.Intn(14) == 0 {
		recv = 2 + r.Intn(zcnw.NIDs-2)
	}
	var amt int64
	lo := int64(g.minMint)
	if int64(g.maxFee) > lo {
		lo = int64(g.maxFee)
	}
	switch x := r.Intn(30); {
	case x < 22:
		amt = lo + int64(r.Intn(50))*int64(1+g.minMint/10)
	case x < 23:
		amt = lo
	case x < 24:
		amt = lo - 1
	case x < 25:
		amt = int64(g.minMint) - 1
	case x < 26:
		amt = int64(g.maxFee) - 1
	case x < 27:
		amt = 0
	case x < 28:
		amt = -1 - int64(r.Intn(3))
	default:
		amt = []int64{1<<63 - 1, 1 << 53, 4000000000000000000}[r.Intn(3)]
	}
	mnonce := g.nextNonce
	g.nextNonce++
	replay := false
	if r.Intn(6) == 0 { // a nonce seen before (minted or merely tried), old ones included
		mnonce = int64(r.Intn(int(g.nextNonce)))
		if r.Intn(2) == 0 {
			mnonce = int64(r.Intn(4)) // the oldest
		}
		replay = true
	}
	if r.Intn(40) == 0 {
		mnonce = []int64{0, -1, 1<<63 - 1, -1 << 63}[r.Intn(4)]
	}
	g.eth++
	eth := g.eth
	if r.Intn(10) == 0 {
		eth = uint64(r.Intn(int(g.eth) + 1))
	}
	thr := g.threshold()
	regs := regKeys(g)
	r.Shuffle(len(regs), func(i, j int) { regs[i], regs[j] = regs[j], regs[i] })
	var unreg []int
	for k := 0; k < zcnw.NKeys+2; k++ { // NKeys, NKeys+1: ids that belong to no key at all
		if !g.reg[k] {
			unreg = append(unreg, k)
		}
	}
	valid := func(k int) string { return fmt.Sprintf("k%d/%s=", k, zcnw.Keys[k].SK) }
	forged := func(k int) string {
		switch r.Intn(7) {
		case 0, 1: // a well-formed signature by some other scalar
			return fmt.Sprintf("k%d/%s=", k, randScalar(r))
		case 2: // another authorizer's valid signature under this id
			o := r.Intn(zcnw.NKeys)
			if o == k {
				o = (o + 1) % zcnw.NKeys
			}
			return fmt.Sprintf("k%d/%s=", k, zcnw.Keys[o].SK)
		default: // the right key on a tuple that differs in exactly one field
			te, ta, tn, tr := eth, uint64(amt), mnonce, recv
			switch r.Intn(4) {
			case 0:
				te++
			case 1:
				ta++
			case 2:
				tn++
			case 3:
				tr = 2 + (tr-2+1)%(zcnw.NIDs-2)
			}
			sk := randScalar(r)
			if k < zcnw.NKeys {
				sk = zcnw.Keys[k].SK
			}
			return fmt.Sprintf("k%d/%s*%d.%d.%d.%d", k, sk, te, ta, tn, tr)
		}
	}
	var sigs []string
	take := func(n int) []int {
		if n > len(regs) {
			n = len(regs)
		}
		if n < 0 {
			n = 0
		}
		return regs[:n]
	}
	scenario := r.Intn(23)
	if replay && r.Intn(3) != 0 {
		scenario = r.Intn(5) // an otherwise honest request
		recv, amt = sender, lo+int64(r.Intn(50))
	}
	switch {
	case scenario >= 21: // free mixture of every kind of signature entry, in any order
		m := 1 + thr + r.Intn(3)
		for j := 0; j < m; j++ {
			k := r.Intn(zcnw.NKeys)
			if len(regs) > 0 && r.Intn(3) != 0 {
				k = regs[r.Intn(len(regs))]
			}
			switch r.Intn(9) {
			case 0, 1, 2, 3:
				sigs = append(sigs, valid(k))
			case 4, 5, 6:
				sigs = append(sigs, forged(k))
			case 7:
				sigs = append(sigs, fmt.Sprintf("k%d/b%d", k, r.Intn(8)))
			default:
				if r.Intn(2) == 0 {
					sigs = append(sigs, fmt.Sprintf("e/%s=", randScalar(r)))
				} else {
					sigs = append(sigs, forged(zcnw.NKeys+r.Intn(2)))
				}
			}
		}
	case scenario == 20: // one forged signature under the lowest registered id, then ids without any stake pool
		if len(regs) > 0 {
			lo := regs[0]
			for _, k := range regs {
				if k < lo {
					lo = k
				}
			}
			sigs = append(sigs, forged(lo))
		}
		for j := 0; j < 1+thr+r.Intn(2); j++ {
			sigs = append(sigs, forged(zcnw.NKeys+j%2))
		}
	case scenario < 5: // honest: threshold .. all
		n := thr
		if len(regs) > thr {
			n = thr + r.Intn(len(regs)-thr+1)
		}
		for _, k := range take(n) {
			sigs = append(sigs, valid(k))
		}
	case scenario < 7: // exactly the threshold — or exactly floor / ceiling of fraction × count
		n := thr
		switch r.Intn(4) {
		case 0:
			n = int(math.Floor(g.percent * float64(g.count)))
		case 1:
			n = int(math.Ceil(g.percent * float64(g.count)))
		}
		for _, k := range take(n) {
			sigs = append(sigs, valid(k))
		}
	case scenario < 9: // one short of the threshold
		for _, k := range take(thr - 1) {
			sigs = append(sigs, valid(k))
		}
	case scenario < 11: // duplicates pad the count: thr entries, fewer distinct signers
		base := take(thr - 1 - r.Intn(2))
		for _, k := range base {
			sigs = append(sigs, valid(k))
		}
		for len(base) > 0 && len(sigs) < thr+r.Intn(3) {
			sigs = append(sigs, valid(base[r.Intn(len(base))]))
		}
	case scenario < 15: // some forged among valid ones
		ks := take(thr + r.Intn(2))
		nf := 1 + r.Intn(2)
		for i, k := range ks {
			if i < nf {
				sigs = append(sigs, forged(k))
			} else {
				sigs = append(sigs, valid(k))
			}
		}
		if r.Intn(3) == 0 && len(ks) > 0 { // a valid and a forged signature under the same id
			sigs = append(sigs, valid(ks[0]))
		}
	case scenario < 17: // unregistered signers (with their own valid signatures / forged ones)
		for _, k := range take(thr - 1) {
			sigs = append(sigs, valid(k))
		}
		for j := 0; j < 1+r.Intn(2) && len(unreg) > 0; j++ {
			k := unreg[r.Intn(len(unreg))]
			if k < zcnw.NKeys && r.Intn(2) == 0 {
				sigs = append(sigs, valid(k))
			} else {
				sigs = append(sigs, forged(k))
			}
		}
	case scenario < 18: // undecodable signatures / empty ids
		for _, k := range take(thr) {
			sigs = append(sigs, valid(k))
		}
		if r.Intn(2) == 0 {
			sigs = append(sigs, fmt.Sprintf("e/%s=", randScalar(r)))
		} else if len(regs) > 0 {
			sigs = append(sigs, fmt.Sprintf("k%d/b%d", regs[r.Intn(len(regs))], r.Intn(8)))
		} else {
			sigs = append(sigs, fmt.Sprintf("k%d/b%d", r.Intn(zcnw.NKeys), r.Intn(8)))
		}
	case scenario < 19: // more signatures than authorizers: everything valid, then extras
		for _, k := range regs {
			sigs = append(sigs, valid(k))
		}
		for j := 0; j < 1+r.Intn(3); j++ {
			if len(regs) > 0 && r.Intn(2) == 0 {
				sigs = append(sigs, valid(regs[r.Intn(len(regs))]))
			} else {
				sigs = append(sigs, forged(r.Intn(zcnw.NKeys)))
			}
		}
	default: // all forged
		for _, k := range take(thr + r.Intn(2)) {
			sigs = append(sigs, forged(k))
		}
		if len(sigs) == 0 {
			sigs = append(sigs, forged(r.Intn(zcnw.NKeys)))
		}
	}
	if len(sigs) == 0 && r.Intn(4) != 0 {
		if len(regs) > 0 {
			sigs = append(sigs, valid(regs[0]))
		} else {
			sigs = append(sigs, forged(r.Intn(zcnw.NKeys)))
		}
	}
	if r.Intn(3) != 0 {
		r.Shuffle(len(sigs), func(i, j int) { sigs[i], sigs[j] = sigs[j], sigs[i] })
	}
	ss := "-"
	if len(sigs) > 0 {
		ss = strings.Join(sigs, ",")
	}
	seed := r.Int63n(1 << 40)
	if r.Intn(3) == 0 {
		seed = int64(r.Intn(8))
	}
	// optimistic tracking
	if nn == g.nonce[sender]+1 && feeV < 500 {
		g.nonce[sender] = nn
	}
	g.minted[mnonce] = true
	return fmt.Sprintf("mint %d %d %d %d %d:%d:%d:%d:%s:%d~%s", sender, value, feeV, nn, eth, amt, mnonce, recv, ss, seed, zcnw.PickTable(seed, 16))
}

func gen(r *rand.Rand, thorough bool, i int) []string {
	line, g := genInit(r)
	ops := []string{line}
	n := 5 + r.Intn(12)
	if thorough {
		n = 5 + r.Intn(40)
	}
	for k := 0; k < n; k++ {
		if r.Intn(12) == 0 { // update-global-config: threshold fraction, fee, minimum, owner; accepted and rejected
			us := g.owner
			if r.Intn(5) == 0 {
				us = 2 + r.Intn(zcnw.NIDs-2)
			}
			nn := g.nonce[us] + 1
			var parts []string
			np, nf, nm, no := g.percent, g.maxFee, g.minMint, g.owner
			valid := true
			for _, k := range r.Perm(5)[:1+r.Intn(2)] {
				switch k {
				case 0:
					np = percents[r.Intn(len(percents))]
					parts = append(parts, "pa="+hexF(np))
				case 1:
					nf = []uint64{1, 7, 100, 1000, 0}[r.Intn(5)]
					parts = append(parts, fmt.Sprintf("mf=%d", nf))
				case 2:
					nm = []uint64{1, 100, 1000, 10000000000, 0}[r.Intn(5)]
					parts = append(parts, fmt.Sprintf("mm=%d", nm))
				case 3:
					no = 2 + r.Intn(zcnw.NIDs-2)
					parts = append(parts, fmt.Sprintf("ow=%d", no))
				case 4:
					parts = append(parts, fmt.Sprintf("bad=%d", r.Intn(4)))
					valid = false
				}
			}
			arg := strings.Join(parts, ",")
			if r.Intn(25) == 0 {
				arg, valid = "!", false
			}
			ops = append(ops, fmt.Sprintf("updcfg %d 0 %d %d %s", us, r.Intn(20), nn, arg))
			g.nonce[us] = nn
			if valid && us == g.owner && g.otherValid == 1 && nf >= 1 && nm >= 1 {
				g.percent, g.maxFee, g.minMint, g.owner = np, nf, nm, no
			}
			continue
		}
		switch x := r.Intn(100); {
		case x < 62:
			ops = append(ops, genMint(r, g))
		case x < 72:
			sender := 2 + r.Intn(zcnw.NIDs-2)
			nn := g.nonce[sender] + 1
			v := uint64(10 + r.Intn(2000))
			if r.Intn(6) == 0 {
				v = uint64(r.Intn(12))
			}
			ops = append(ops, fmt.Sprintf("burn %d %d %d %d a%d", sender, v, r.Intn(20), nn, r.Intn(zcnw.NAddrs)))
			if v >= 10 {
				g.nonce[sender] = nn
			}
		case x < 87:
			sender := g.owner
			if r.Intn(8) == 0 {
				sender = 2 + r.Intn(zcnw.NIDs-2)
			}
			nn := g.nonce[sender] + 1
			if r.Intn(25) == 0 {
				ops = append(ops, fmt.Sprintf("addauth %d 0 %d %d !", sender, r.Intn(20), nn))
				g.nonce[sender] = nn
				continue
			}
			k := r.Intn(zcnw.NKeys)
			wallet := strconv.Itoa(2 + r.Intn(zcnw.NIDs-2))
			if r.Intn(20) == 0 {
				wallet = "-"
			}
			md := 1 + r.Intn(g.maxDelegates)
			switch r.Intn(16) {
			case 0:
				md = 0
			case 1:
				md = g.maxDelegates + 1
			}
			ratio := ratios[r.Intn(len(ratios))]
			if r.Intn(20) == 0 {
				ratio = -0.1
			}
			if p := g.pool[k]; p != nil && r.Intn(3) == 0 { // re-registration with the very same settings
				md, ratio = p.maxDel, p.ratio
			}
			ops = append(ops, fmt.Sprintf("addauth %d 0 %d %d %d:%s:%d:%s", sender, r.Intn(20), nn, k, wallet, md, hexF(ratio)))
			g.nonce[sender] = nn
			p := g.pool[k]
			changed := p == nil || p.ratio != ratio || p.maxDel != md || p.minStake != g.minSPD
			if sender == g.owner && wallet != "-" && !g.reg[k] && md > 0 && md <= g.maxDelegates && ratio >= 0 && changed {
				g.reg[k] = true
				g.count++
				if p == nil {
					wi, _ := strconv.Atoi(wallet)
					g.pool[k] = &gpool{wallet: wi, maxDel: md, ratio: ratio, minStake: g.minSPD}
				} else {
					p.maxDel, p.ratio, p.minStake = md, ratio, g.minSPD
				}
			}
		default:
			k := r.Intn(zcnw.NKeys)
			if rk := regKeys(g); len(rk) > 0 && r.Intn(4) != 0 {
				k = rk[r.Intn(len(rk))]
			}
			if r.Intn(15) == 0 {
				k = zcnw.NKeys + r.Intn(2)
			}
			sender := g.owner
			switch r.Intn(6) {
			case 0:
				if p := g.pool[k]; p != nil {
					sender = p.wallet
				}
			case 1:
				sender = 2 + r.Intn(zcnw.NIDs-2)
			}
			nn := g.nonce[sender] + 1
			arg := strconv.Itoa(k)
			if r.Intn(25) == 0 {
				arg = "!"
			}
			ops = append(ops, fmt.Sprintf("delauth %d 0 %d %d %s", sender, r.Intn(20), nn, arg))
			g.nonce[sender] = nn
			if arg != "!" && g.reg[k] && g.pool[k] != nil && (sender == g.owner || sender == g.pool[k].wallet) && g.count > 0 {
				delete(g.reg, k)
				g.count--
			}
		}
	}
	return ops
}

// ---------------------------------------------------------------------------------------------------- oracle

type acct struct {
	bal   *big.Int
	nonce int64
}

type pool struct {
	credited *big.Int // sp.Reward + Σ delegate rewards
	stake    *big.Int
	minStake *big.Int
	killed   bool
	raw      string
}

type st struct {
	cfg                string // the configuration stored in the state
	maxFee             uint64
	percent            float64
	status, cls, extra string
	accts              map[int]acct
	users              string
	count              int
	reg                map[int]bool
	pools              map[int]pool
	poolsRaw           string
	minted             string
	x                  string
}

func parse(out string, isInit bool) (s st, ok bool) {
	f := strings.Fields(out)
	if isInit {
		if len(f) != 9 || f[0] != "ok" {
			return s, false
		}
		f = append([]string{"ok", "-", "-"}, f[1:]...)
	}
	if len(f) != 11 || !strings.HasPrefix(f[3], "g=") {
		return s, false
	}
	s.status, s.cls, s.extra = f[0], f[1], f[2]
	s.cfg = f[3]
	if g := strings.Split(strings.TrimPrefix(f[3], "g="), ","); len(g) == 8 {
		s.maxFee, _ = strconv.ParseUint(g[2], 10, 64)
		pb, _ := strconv.ParseUint(g[3], 16, 64)
		s.percent = math.Float64frombits(pb)
	} else {
		return s, false
	}
	f = append(f[:3:3], f[4:]...)
	s.accts = map[int]acct{}
	if as := strings.TrimPrefix(f[3], "a="); as != "" {
		for _, p := range strings.Split(as, ",") {
			q := strings.Split(p, ":")
			id, _ := strconv.Atoi(q[0])
			b, _ := new(big.Int).SetString(q[1], 10)
			n, _ := strconv.ParseInt(q[2], 10, 64)
			s.accts[id] = acct{b, n}
		}
	}
	s.users = f[4]
	s.count, _ = strconv.Atoi(strings.TrimPrefix(f[5], "c="))
	s.reg = map[int]bool{}
	if rs := strings.TrimPrefix(f[6], "r="); rs != "" {
		for _, p := range strings.Split(rs, ",") {
			k, err := strconv.Atoi(p)
			if err != nil {
				return s, false
			}
			s.reg[k] = true
		}
	}
	s.pools = map[int]pool{}
	s.poolsRaw = f[7]
	if ps := strings.TrimPrefix(f[7], "p="); ps != "" {
		for _, p := range strings.Split(ps, ";") {
			q := strings.Split(p, ":")
			if len(q) != 8 {
				return s, false
			}
			k, _ := strconv.Atoi(q[0])
			pl := pool{credited: new(big.Int), stake: new(big.Int), minStake: new(big.Int), killed: q[5] == "1", raw: p}
			pl.credited.SetString(q[4], 10)
			pl.minStake.SetString(q[6], 10)
			if q[7] != "-" {
				for _, d := range strings.Split(q[7], "/") {
					g := strings.Split(d, ".")
					b, _ := new(big.Int).SetString(g[0], 10)
					rw, _ := new(big.Int).SetString(g[1], 10)
					pl.stake.Add(pl.stake, b)
					pl.credited.Add(pl.credited, rw)
				}
			}
			s.pools[k] = pl
		}
	}
	s.minted = f[8]
	s.x = strings.TrimPrefix(f[9], "x=")
	return s, true
}

func getA(m map[int]acct, i int) acct {
	if a, ok := m[i]; ok {
		return a
	}
	return acct{new(big.Int), 0}
}

type psig struct {
	key        int  // -1 = empty id
	wellFormed bool // decodable signature string
	valid      bool // made with the secret of key `key` over exactly the payload's tuple
}

type payload struct {
	eth    uint64
	amount uint64
	nonce  int64
	recv   int
	sigs   []psig
}

func parsePayload(arg string) (p payload, ok bool) {
	f := strings.Split(arg, ":")
	if len(f) != 6 {
		return p, false
	}
	p.eth, _ = strconv.ParseUint(f[0], 10, 64)
	a, _ := strconv.ParseInt(f[1], 10, 64)
	p.amount = uint64(a)
	p.nonce, _ = strconv.ParseInt(f[2], 10, 64)
	p.recv, _ = strconv.Atoi(f[3])
	if f[4] != "-" {
		for _, s := range strings.Split(f[4], ",") {
			g := strings.Split(s, "/")
			var ps psig
			ps.key = -1
			if g[0] != "e" {
				ps.key, _ = strconv.Atoi(g[0][1:])
			}
			switch {
			case g[1][0] == 'b':
			case strings.HasSuffix(g[1], "="):
				ps.wellFormed = true
				ps.valid = ps.key >= 0 && ps.key < len(zcnw.Keys) && strings.TrimSuffix(g[1], "=") == zcnw.Keys[ps.key].SK
			default:
				ps.wellFormed = true
				h := strings.Split(g[1], "*")
				same := h[1] == fmt.Sprintf("%d.%d.%d.%d", p.eth, p.amount, p.nonce, p.recv)
				ps.valid = same && ps.key >= 0 && ps.key < len(zcnw.Keys) && h[0] == zcnw.Keys[ps.key].SK
			}
			p.sigs = append(p.sigs, ps)
		}
	}
	return p, true
}

// oracle: C18 on the implementation's answers.
func oracle(ops, outs []string) *corr.Violation {
	mk := func(sig, msg string, i int) *corr.Violation {
		return &corr.Violation{Signature: "C18:" + sig, Message: fmt.Sprintf("op %d %q: %s", i, ops[i], msg), Ops: ops[:i+1], Impl: outs[:i+1]}
	}
	var prev st
	feeOn := false
	minted := map[int64]bool{}
	var recorded []*corr.Violation // violations with the signature of a recorded finding (reported only if nothing else fails)
	for i, op := range ops {
		w := strings.Fields(op)
		if w[0] == "init" {
			s, ok := parse(outs[i], true)
			if !ok {
				if outs[i] == "bad-op" {
					return nil
				}
				return mk("unparsable-answer", outs[i], i)
			}
			feeOn = w[1] == "1"
			minted = map[int64]bool{}
			for _, n := range zcnw.NonceUniverse(ops[:1]) {
				minted[n] = true
			}
			prev = s
			continue
		}
		if outs[i] == "bad-op" {
			continue
		}
		cur, ok := parse(outs[i], false)
		if !ok {
			return mk("unparsable-answer", outs[i], i)
		}
		if w[0] != "mint" {
			if cur.status != "success" && cur.cfg != prev.cfg {
				return mk("rejected-update-changed-config", fmt.Sprintf("%s -> %s", prev.cfg, cur.cfg), i)
			}
			prev = cur
			continue
		}
		maxFee, percent := prev.maxFee, prev.percent // the configuration SAVED IN THE STATE before this mint
		if cur.cfg != prev.cfg {
			return mk("mint-changed-config", fmt.Sprintf("%s -> %s", prev.cfg, cur.cfg), i)
		}
		sender, _ := strconv.Atoi(w[1])
		fee, _ := new(big.Int).SetString(w[3], 10)
		if !feeOn {
			fee = new(big.Int)
		}
		delta := func(id int) *big.Int { return new(big.Int).Sub(getA(cur.accts, id).bal, getA(prev.accts, id).bal) }
		if cur.x != "0" {
			return mk("mint-changed-foreign-leaves", cur.x+" unexpected trie leaves changed", i)
		}
		if cur.status != "success" {
			// an unsuccessful mint mints nothing, records no nonce, credits nobody
			if cur.minted != prev.minted || cur.poolsRaw != prev.poolsRaw || cur.users != prev.users || cur.count != prev.count {
				return mk("unsuccessful-mint-changed-state", fmt.Sprintf("status %s: %s|%s -> %s|%s", cur.status, prev.minted, prev.poolsRaw, cur.minted, cur.poolsRaw), i)
			}
			for id := 0; id <= zcnw.NIDs; id++ {
				wv := new(big.Int)
				if cur.status == "failed" {
					if id == sender {
						wv.Sub(wv, fee)
					}
					if id == 0 {
						wv.Add(wv, fee)
					}
				}
				if delta(id).Cmp(wv) != 0 {
					return mk("unsuccessful-mint-moved-tokens", fmt.Sprintf("status %s: account %d changed by %s, expected %s", cur.status, id, delta(id), wv), i)
				}
			}
			prev = cur
			continue
		}
		p, ok := parsePayload(w[5])
		if !ok {
			return mk("undecodable-payload-minted", w[5], i)
		}
		// (1) the submitter is the receiving client
		if p.recv != sender {
			return mk("mint-to-other-than-submitter", fmt.Sprintf("receiver %d, submitter %d", p.recv, sender), i)
		}
		// (2) each nonce mints at most once
		if minted[p.nonce] {
			return mk("nonce-minted-twice", fmt.Sprintf("nonce %d", p.nonce), i)
		}
		minted[p.nonce] = true
		// (3) quorum of distinct registered authorizers with valid signatures over exactly this payload
		thr := int(math.RoundToEven(percent * float64(prev.count)))
		signers := map[int]bool{}
		invalidWellFormed := false
		for _, s := range p.sigs {
			if s.valid && prev.reg[s.key] {
				signers[s.key] = true
			}
			if s.wellFormed && !s.valid {
				invalidWellFormed = true
			}
		}
		if len(signers) < thr {
			sig := "mint-without-quorum"
			if invalidWellFormed {
				sig = "quorum-bypassed-by-wellformed-invalid-signature"
			}
			// (the bypass by a well-formed invalid signature was repaired in /repo by fix: 3c528ec; the signature is kept
			// so that a regression is reported as exactly that)
			return mk(sig, fmt.Sprintf("%d distinct registered authorizers signed this payload validly, threshold RoundToEven(%v*%d) = %d", len(signers), percent, prev.count, thr), i)
		}
		// (4) amounts: the client receives amount − fee share, the share (≤ max fee) is credited to one authorizer
		if sender != 0 && sender != 1 {
			received := new(big.Int).Add(delta(sender), fee)
			share := new(big.Int).Sub(new(big.Int).SetUint64(p.amount), received)
			if share.Sign() < 0 || share.Cmp(new(big.Int).SetUint64(maxFee)) > 0 {
				return mk("fee-share-out-of-range", fmt.Sprintf("amount %d, received %s, max fee %d", p.amount, received, maxFee), i)
			}
			if cur.extra != "p"+received.String() {
				return mk("mint-response-amount", fmt.Sprintf("response %s, received %s", cur.extra, received), i)
			}
			if new(big.Int).Neg(delta(1)).Cmp(received) != 0 {
				return mk("bridge-wallet-delta", fmt.Sprintf("bridge wallet changed by %s, client received %s", delta(1), received), i)
			}
			for id := 0; id <= zcnw.NIDs; id++ {
				if id == sender || id == 1 {
					continue
				}
				wv := new(big.Int)
				if id == 0 {
					wv = fee
				}
				if delta(id).Cmp(wv) != 0 {
					return mk("mint-moved-other-account", fmt.Sprintf("account %d changed by %s", id, delta(id)), i)
				}
			}
			credited := new(big.Int)
			changed := 0
			who := -1
			for k, pl := range cur.pools {
				d := new(big.Int).Sub(pl.credited, prev.pools[k].credited)
				if d.Sign() != 0 || pl.raw != prev.pools[k].raw {
					changed++
					who = k
				}
				credited.Add(credited, d)
			}
			if changed > 1 {
				return mk("several-pools-credited", fmt.Sprintf("%d stake pools changed", changed), i)
			}
			if credited.Cmp(share) != 0 {
				sig := "fee-share-credit-mismatch"
				if changed == 0 && share.Sign() > 0 {
					sig = "fee-share-credited-to-nobody"
					// classification only: some id named in the payload has a stake pool that DistributeRewards
					// skips (killed, or total stake below the pool's minimum stake)
					for _, sg := range p.sigs {
						if pl, ok := prev.pools[sg.key]; ok && (pl.killed || pl.stake.Cmp(pl.minStake) < 0) {
							sig = "fee-share-dropped-understaked-or-killed-pool"
						}
					}
				}
				v := mk(sig, fmt.Sprintf("fee share %s taken from the client, %s credited to authorizer stake pools (%d pools changed)", share, credited, changed), i)
				if sig != "fee-share-dropped-understaked-or-killed-pool" {
					return v
				}
				recorded = append(recorded, v)
			}
			if changed == 1 {
				inPayload := false
				for _, s := range p.sigs {
					if s.key == who {
						inPayload = true
					}
				}
				if !inPayload {
					return mk("credited-authorizer-not-in-payload", fmt.Sprintf("authorizer %d", who), i)
				}
			}
		}
		if cur.users != prev.users || cur.count != prev.count {
			return mk("mint-changed-burn-or-registration-state", "", i)
		}
		prev = cur
	}
	if len(recorded) > 0 {
		return recorded[0]
	}
	return nil
}

func main() {
	zcnw.Setup()
	sk := func(k int) string { return zcnw.Keys[k].SK }
	init3 := fmt.Sprintf("init 1 10 100 100 %s 2 50 5 1 | 1:100000:0 2:1000:0 3:1000:0 | | %s | 0:4:3:%s:0:0:50:100.0 1:4:3:%s:0:0:50:60.0/40.0 2:5:3:%s:0:0:50:200.0 | 3 | 7",
		hexF(0.7), zcnw.KeysSection(), hexF(0.1), hexF(0.25), hexF(0))
	tb := func(seed int64) string { return fmt.Sprintf("%d~%s", seed, zcnw.PickTable(seed, 16)) }
	// n registered, well-staked authorizers, fraction pct, some nonces minted in genesis
	initN := func(n int, pct float64, count int, minted string) string {
		var regs []string
		for k := 0; k < n; k++ {
			regs = append(regs, fmt.Sprintf("%d:4:3:%s:0:0:50:100.0", k, hexF(0)))
		}
		return fmt.Sprintf("init 1 10 100 100 %s 2 50 5 1 | 1:10000000:0 2:100000:0 3:100000:0 | | %s | %s | %d | %s", hexF(pct), zcnw.KeysSection(), strings.Join(regs, " "), count, minted)
	}
	// a mint by client 3 with valid signatures of the authorizers 0..m-1
	nth := 0
	mintBy := func(m int, nonce int64) string {
		nth++
		var ss []string
		for k := 0; k < m; k++ {
			ss = append(ss, fmt.Sprintf("k%d/%s=", k, sk(k)))
		}
		return fmt.Sprintf("mint 3 0 5 %d %d:5000:%d:3:%s:%s", nth, nth, nonce, strings.Join(ss, ","), tb(int64(nth)))
	}
	rounding := func(n int, pct float64, count int) []string {
		nth = 0
		x := pct * float64(count)
		c := []string{initN(n, pct, count, "")}
		seen := map[int]bool{}
		for _, m := range []int{int(math.Floor(x)) - 1, int(math.Floor(x)), int(math.RoundToEven(x)), int(math.Ceil(x)), int(math.Ceil(x)) + 1} {
			if m >= 1 && m <= n && !seen[m] {
				seen[m] = true
				c = append(c, mintBy(m, int64(100+m)))
			}
		}
		return c
	}
	replayOld := func() []string {
		nth = 0
		c := []string{initN(3, 0.7, 3, "")}
		for j := int64(1); j <= 8; j++ {
			c = append(c, mintBy(2, j))
		}
		for _, j := range []int64{1, 2, 3, 8} { // the first ones were packed out of the last partition (size 5) long ago
			c = append(c, mintBy(2, j))
		}
		return c
	}
	replayGenesis := func() []string {
		nth = 0
		return []string{initN(3, 0.7, 3, "0 1 2 3 4 5 6 7 8 9 10 11"), mintBy(2, 0), mintBy(3, 1), mintBy(2, 6), mintBy(2, 11), mintBy(2, 12), mintBy(2, 12)}
	}
	corr.Main(corr.Prop{
		ID: "C18", Model: "C18", Gen: gen, Impl: zcnw.Impl, Oracle: oracle, Serial: true,
		Cases: func(th bool) int {
			if th {
				return 5000
			}
			return 300
		},
		Fixed: [][]string{
			// one below / at / one above floor, RoundToEven and ceiling of fraction × count
			rounding(4, 0.7, 4), rounding(5, 0.7, 5), rounding(6, 0.7, 7), rounding(5, 0.5, 5), rounding(6, 0.25, 6), rounding(6, 0.75, 6),
			rounding(3, 0.5, 3), rounding(4, 0.66, 4), rounding(6, 0.9, 6),
			// replays of nonces minted long ago (more than a partition's worth of mints back)
			replayOld(), replayGenesis(),
			{init3, // honest quorum 2 of 3 (threshold RoundToEven(2.1) = 2), repeat of the nonce, one short, duplicate ids
				fmt.Sprintf("mint 3 0 5 1 1:5000:1:3:k0/%s=,k1/%s=:%s", sk(0), sk(1), tb(1)),
				fmt.Sprintf("mint 3 0 5 2 2:5000:1:3:k0/%s=,k1/%s=,k2/%s=:%s", sk(0), sk(1), sk(2), tb(2)),
				fmt.Sprintf("mint 3 0 5 3 3:5000:2:3:k0/%s=:%s", sk(0), tb(3)),
				fmt.Sprintf("mint 3 0 5 4 4:5000:3:3:k0/%s=,k0/%s=:%s", sk(0), sk(0), tb(4)),
				fmt.Sprintf("mint 3 0 5 5 5:5000:7:3:k0/%s=,k1/%s=:%s", sk(0), sk(1), tb(5)),
				fmt.Sprintf("mint 3 0 5 6 6:5000:4:2:k0/%s=,k1/%s=:%s", sk(0), sk(1), tb(6)),
				fmt.Sprintf("mint 3 0 5 7 7:99:5:3:k0/%s=,k1/%s=:%s", sk(0), sk(1), tb(7))},
			{init3, // registrations and removals in between
				"delauth 2 0 5 1 2", fmt.Sprintf("mint 3 0 5 1 1:5000:1:3:k0/%s=:%s", sk(0), tb(1)),
				fmt.Sprintf("mint 3 0 5 2 1:5000:2:3:k2/%s=,k0/%s=:%s", sk(2), sk(0), tb(1)),
				fmt.Sprintf("addauth 2 0 5 2 2:5:3:%s", hexF(0)), fmt.Sprintf("addauth 2 0 5 3 2:5:2:%s", hexF(0)),
				fmt.Sprintf("mint 3 0 5 3 1:5000:3:3:k2/%s=,k0/%s=:%s", sk(2), sk(0), tb(1))},
		},
		Extra: func() map[string]interface{} {
			m := map[string]interface{}{}
			for k, v := range zcnw.Stats {
				m[k] = v
			}
			return map[string]interface{}{"impl_outcomes": m}
		},
		Nontrivial: func(ops, outs []string) bool {
			k := map[string]bool{}
			for _, o := range outs {
				f := strings.Fields(o + " x x")
				k[f[0]+f[1]] = true
			}
			return len(ops) >= 4 && len(k) >= 3
		},
	})
}
