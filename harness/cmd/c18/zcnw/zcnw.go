// Package zcnw drives the REAL bridge contract (smartcontract/zcnsc) through the real Chain.UpdateState for the
// line protocol of lean/ZChain/Model/ZcnLine.lean (properties C18 mint and C19 burn).
//
// Universe: ledger ids 0 = miner contract, 1 = zcnsc.ADDRESS, 2..NIDs-1 = clients, NIDs = an unfunded outsider;
// Ethereum addresses / txn ids by index; authorizer keys: a fixed set of real BLS keys numbered in the order of
// their real id strings (id = Hash(public key)), so that the model can order ids by index.
package zcnw

import (
	"encoding/hex"
	"encoding/json"
	"fmt"
	"math"
	"math/rand"
	"os"
	"sort"
	"strconv"
	"strings"
	"sync"
	"sync/atomic"

	cstate "0chain.net/chaincore/chain/state"
	"0chain.net/chaincore/transaction"
	"0chain.net/core/encryption"
	"0chain.net/smartcontract/minersc"
	"0chain.net/smartcontract/partitions"
	"0chain.net/smartcontract/stakepool"
	"0chain.net/smartcontract/stakepool/spenum"
	"0chain.net/smartcontract/storagesc"
	"0chain.net/smartcontract/zcnsc"
	"github.com/0chain/common/core/currency"
	"github.com/0chain/common/core/statecache"
	"github.com/0chain/common/core/util"
	"github.com/herumi/bls-go-binary/bls"
	"verifharness/lib/engine"
)

const (
	NIDs   = 8 // 0 miner sc, 1 zcnsc, 2..7 clients; id NIDs = outsider
	NKeys  = 6
	NAddrs = 5
)

type Key struct {
	SK     string // decimal scalar
	Scheme *encryption.BLS0ChainScheme
	PK     string
	ID     string
}

var (
	Clients [NIDs + 1]engine.Client
	IDs     [NIDs + 1]string
	Keys    []Key // sorted by ID
)

// schemeOf builds a BLS0ChainScheme holding the chosen secret through the repository's own ReadKeys.
func schemeOf(dec string) (*encryption.BLS0ChainScheme, error) {
	var sk bls.SecretKey
	if err := sk.SetDecString(dec); err != nil {
		return nil, err
	}
	k := encryption.NewBLS0ChainScheme()
	txt := sk.GetPublicKey().SerializeToHexStr() + "\n" + hex.EncodeToString(sk.GetLittleEndian()) + "\n"
	if err := k.ReadKeys(strings.NewReader(txt)); err != nil {
		return nil, err
	}
	return k, nil
}

func Setup() {
	engine.Setup()
	IDs[0] = minersc.ADDRESS
	IDs[1] = zcnsc.ADDRESS
	Clients[0] = engine.Client{ID: IDs[0]}
	Clients[1] = engine.Client{ID: IDs[1]}
	for i := 2; i <= NIDs; i++ {
		Clients[i] = engine.NewClient(fmt.Sprintf("zcn-%d", i))
		IDs[i] = Clients[i].ID
	}
	for i := 0; i < NKeys; i++ {
		dec := strconv.Itoa(7919*(i+3) + 1000003*(i*i+1))
		s, err := schemeOf(dec)
		if err != nil {
			panic(err)
		}
		pkb, _ := hex.DecodeString(s.GetPublicKey())
		Keys = append(Keys, Key{SK: dec, Scheme: s, PK: s.GetPublicKey(), ID: encryption.Hash(pkb)})
	}
	sort.Slice(Keys, func(i, j int) bool { return Keys[i].ID < Keys[j].ID })
}

// KeysSection is the `k:sk` list of the init line.
func KeysSection() string {
	var p []string
	for i, k := range Keys {
		p = append(p, fmt.Sprintf("%d:%s", i, k.SK))
	}
	return strings.Join(p, " ")
}

func AddrName(a int) string { return fmt.Sprintf("0xEthAddr%02d", a) }
func EthTxn(e uint64) string { return fmt.Sprintf("0xethtxn%d", e) }

func idOf(i int) string {
	if i >= 0 && i <= NIDs {
		return IDs[i]
	}
	return encryption.Hash(fmt.Sprintf("zcn-extra-%d", i))
}

func clientOf(i int) engine.Client {
	if i >= 0 && i <= NIDs {
		return Clients[i]
	}
	return engine.Client{ID: idOf(i)}
}

func keyID(k int) string {
	if k >= 0 && k < len(Keys) {
		return Keys[k].ID
	}
	// ids that belong to no key: they sort after every real id, in index order (the model orders ids by index)
	return strings.Repeat("f", 60) + fmt.Sprintf("%04x", k)
}

// ---------------------------------------------------------------------------------------------------------------

type W struct {
	w       *engine.World
	leaves  map[string][]byte
	known   map[string]bool
	nonces  []int64 // mint nonce universe of the case
	FeeOn   bool
	opIdx   int
	MinBurn uint64
}

// delegateName: delegate ids numbered in the order of the id strings (OrderedPoolIds order = index order).
var delegateNames []string

func delegateName(j int) string {
	if delegateNames == nil {
		for i := 0; i < 16; i++ {
			delegateNames = append(delegateNames, encryption.Hash(fmt.Sprintf("delegate-%02d", i)))
		}
		sort.Strings(delegateNames)
	}
	return delegateNames[j]
}

func partitionsGet(sctx cstate.StateContextI) (*partitions.Partitions, error) {
	return partitions.GetPartitions(sctx, mintedName)
}

// engine.World derives block hashes from the World's address (%p); after garbage collection a later World can get
// the same address, and the process-wide state cache (keyed by block hash) would then serve values of an earlier
// case. Every block of every case therefore gets a hash that is unique in the process.
var blockCtr int64

func uniqBlock(w *engine.World) {
	n := atomic.AddInt64(&blockCtr, 1)
	w.B.Hash = encryption.Hash(fmt.Sprintf("zcnw-block-%d-%d", n, w.Round))
	w.BC = statecache.NewBlockCache(w.C.GetStateCache(), statecache.Block{Round: w.B.Round, Hash: w.B.Hash, PrevHash: w.B.PrevHash})
}

func (x *W) nextBlock() {
	x.w.NextBlock()
	uniqBlock(x.w)
}

var blockMode = os.Getenv("ZCNW_BLOCKS")

var mintedName = encryption.Hash(zcnsc.ADDRESS + ":wzcn_minted_nonce_partition")

// Init parses `init <fee> <minBurn> <minMint> <maxFee> <percentHex> <owner> <minStakePerDelegate> <maxDelegates> <otherValid>
// | accts | users | keys | regs | count | minted` and builds the genesis state.
func Init(ws []string, nonceUniverse []int64) (*W, error) {
	if len(ws) < 10 {
		return nil, fmt.Errorf("short init")
	}
	secs := [][]string{}
	cur := []string{}
	for _, t := range ws[10:] {
		if t == "|" {
			secs = append(secs, cur)
			cur = []string{}
		} else {
			cur = append(cur, t)
		}
	}
	secs = append(secs, cur)
	if len(ws[10:]) == 0 || ws[10] != "|" || len(secs) != 7 || (ws[9] != "0" && ws[9] != "1") {
		return nil, fmt.Errorf("bad sections")
	}
	secs = secs[1:]
	x := &W{FeeOn: ws[1] == "1", nonces: nonceUniverse}
	minBurn, _ := strconv.ParseUint(ws[2], 10, 64)
	minMint, _ := strconv.ParseUint(ws[3], 10, 64)
	maxFee, _ := strconv.ParseUint(ws[4], 10, 64)
	pbits, _ := strconv.ParseUint(ws[5], 16, 64)
	owner, _ := strconv.Atoi(ws[6])
	minSPD, _ := strconv.ParseUint(ws[7], 10, 64)
	maxDel, _ := strconv.Atoi(ws[8])
	x.MinBurn = minBurn
	bal := map[string]currency.Coin{}
	type an struct {
		id string
		n  int64
	}
	var nonces []an
	for _, a := range secs[0] {
		f := strings.Split(a, ":")
		id, _ := strconv.Atoi(f[0])
		b, _ := strconv.ParseUint(f[1], 10, 64)
		n, _ := strconv.ParseInt(f[2], 10, 64)
		bal[idOf(id)] = currency.Coin(b)
		nonces = append(nonces, an{idOf(id), n})
	}
	for i, k := range strings.Fields(strings.Join(secs[2], " ")) {
		f := strings.Split(k, ":")
		if len(f) != 2 || f[0] != strconv.Itoa(i) || i >= len(Keys) || f[1] != Keys[i].SK {
			return nil, fmt.Errorf("key universe mismatch")
		}
	}
	wd, err := engine.NewWorld(bal, func(sctx *cstate.StateContext) error {
		for _, a := range nonces {
			s, _ := sctx.GetClientState(a.id)
			s.Nonce = a.n
			if _, err := sctx.SetClientState(a.id, s); err != nil {
				return err
			}
		}
		if err := zcnsc.InitConfig(sctx); err != nil {
			return err
		}
		// read the node from the STATE (not through GetGlobalNode: a process-wide cache there must not be kept in
		// step with the cases by this very initialisation)
		gn, err := zcnsc.GetGlobalSavedNode(sctx)
		if err != nil {
			return err
		}
		gn.MinStakeAmount = 0 // as shipped (sc.yaml min_stake: 0): Validate rejects every update
		if ws[9] == "1" {
			gn.MinStakeAmount = 1
		}
		gn.MinBurnAmount = currency.Coin(minBurn)
		gn.MinMintAmount = currency.Coin(minMint)
		gn.MaxFee = currency.Coin(maxFee)
		gn.PercentAuthorizers = math.Float64frombits(pbits)
		gn.OwnerId = idOf(owner)
		gn.MinStakePerDelegate = currency.Coin(minSPD)
		gn.MaxDelegates = maxDel
		if err := gn.Save(sctx); err != nil {
			return err
		}
		for _, u := range secs[1] {
			f := strings.Split(u, ":")
			a, _ := strconv.Atoi(f[0])
			n, _ := strconv.ParseInt(f[1], 10, 64)
			un := zcnsc.NewUserNode(AddrName(a))
			un.BurnNonce = n
			if err := un.Save(sctx); err != nil {
				return err
			}
		}
		for _, r := range secs[3] {
			// k:wallet:maxDel:ratioHex:reward:killed:minStake:pools
			f := strings.Split(r, ":")
			if len(f) != 8 {
				return fmt.Errorf("bad reg %q", r)
			}
			k, _ := strconv.Atoi(f[0])
			wallet, _ := strconv.Atoi(f[1])
			md, _ := strconv.Atoi(f[2])
			rb, _ := strconv.ParseUint(f[3], 16, 64)
			rew, _ := strconv.ParseUint(f[4], 10, 64)
			ms, _ := strconv.ParseUint(f[6], 10, 64)
			reg := true
			if strings.HasPrefix(f[5], "u") { // pool only (a deleted authorizer's pool)
				reg = false
			}
			if reg {
				an := zcnsc.NewAuthorizer(Keys[k].ID, Keys[k].PK, fmt.Sprintf("http://auth%d", k))
				if err := an.Save(sctx); err != nil {
					return err
				}
			}
			sp := zcnsc.NewStakePool()
			sp.Minter = cstate.MinterZcn
			sp.Settings.DelegateWallet = idOf(wallet)
			sp.Settings.MaxNumDelegates = md
			sp.Settings.ServiceChargeRatio = math.Float64frombits(rb)
			sp.Settings.MinStake = currency.Coin(ms)
			sp.Reward = currency.Coin(rew)
			sp.HasBeenKilled = strings.HasSuffix(f[5], "1")
			if f[7] != "-" {
				for j, d := range strings.Split(f[7], "/") {
					g := strings.Split(d, ".")
					b, _ := strconv.ParseUint(g[0], 10, 64)
					rw, _ := strconv.ParseUint(g[1], 10, 64)
					sp.Pools[delegateName(j)] = &stakepool.DelegatePool{Balance: currency.Coin(b), Reward: currency.Coin(rw), Status: spenum.Active, DelegateID: delegateName(j)}
				}
			}
			if _, err := sctx.InsertTrieNode(stakepool.StakePoolKey(spenum.Authorizer, Keys[k].ID), sp); err != nil {
				return err
			}
		}
		if len(secs[4]) == 1 {
			c, _ := strconv.Atoi(secs[4][0])
			if c != 0 || len(secs[3]) > 0 {
				if _, err := sctx.InsertTrieNode(storagesc.AUTHORIZERS_COUNT_KEY, &zcnsc.AuthCount{Count: c}); err != nil {
					return err
				}
			}
		}
		for _, m := range secs[5] {
			n, _ := strconv.ParseInt(m, 10, 64)
			if err := zcnsc.PartitionWZCNMintedNonceAdd(sctx, n); err != nil {
				return err
			}
		}
		return nil
	})
	if err != nil {
		return nil, err
	}
	x.w = wd
	uniqBlock(wd)
	x.known = map[string]bool{}
	for i := 0; i <= NIDs; i++ {
		x.known[idOf(i)] = true
	}
	for a := 0; a < NAddrs; a++ {
		x.known[encryption.Hash(zcnsc.NewUserNode(AddrName(a)).GetKey())] = true
	}
	for k := range Keys {
		x.known[encryption.Hash("provider:"+Keys[k].ID)] = true
		x.known[encryption.Hash(stakepool.StakePoolKey(spenum.Authorizer, Keys[k].ID))] = true
	}
	x.known[encryption.Hash(storagesc.AUTHORIZERS_COUNT_KEY)] = true
	x.known[encryption.Hash((&zcnsc.GlobalNode{ID: zcnsc.ADDRESS}).GetKey())] = true
	x.known[encryption.Hash(mintedName)] = true
	for i := 0; i < 64; i++ {
		x.known[encryption.Hash(mintedName+encryption.Hash(":partition:"+strconv.Itoa(i)))] = true
	}
	for _, n := range nonceUniverse {
		x.known[encryption.Hash(encryption.Hash(fmt.Sprintf("%s:%s", mintedName, strconv.FormatInt(n, 10))))] = true
	}
	x.leaves, _ = wd.Leaves()
	return x, nil
}

// State prints the canonical state line (same format as ZcnLine.showState).
func (x *W) State() string {
	var as []string
	for i := 0; i <= NIDs; i++ {
		b, n, present := x.w.Account(idOf(i))
		if present {
			as = append(as, fmt.Sprintf("%d:%d:%d", i, uint64(b), n))
		}
	}
	sctx := x.w.SCtx()
	var us []string
	for a := 0; a < NAddrs; a++ {
		un := zcnsc.NewUserNode(AddrName(a))
		if err := sctx.GetTrieNode(un.GetKey(), un); err == nil {
			us = append(us, fmt.Sprintf("%d:%d", a, un.BurnNonce))
		}
	}
	cnt := &zcnsc.AuthCount{}
	cs := "0"
	if err := sctx.GetTrieNode(storagesc.AUTHORIZERS_COUNT_KEY, cnt); err == nil {
		cs = strconv.Itoa(cnt.Count)
	}
	var rs, ps []string
	for k := range Keys {
		if an, err := zcnsc.GetAuthorizerNode(Keys[k].ID, sctx); err == nil {
			if an.PublicKey != Keys[k].PK {
				rs = append(rs, fmt.Sprintf("%d!", k))
			} else {
				rs = append(rs, strconv.Itoa(k))
			}
		}
		sp := zcnsc.NewStakePool()
		if err := sctx.GetTrieNode(stakepool.StakePoolKey(spenum.Authorizer, Keys[k].ID), sp); err == nil {
			var ds []string
			for _, id := range sp.OrderedPoolIds() {
				ds = append(ds, fmt.Sprintf("%d.%d", uint64(sp.Pools[id].Balance), uint64(sp.Pools[id].Reward)))
			}
			d := "-"
			if len(ds) > 0 {
				d = strings.Join(ds, "/")
			}
			wl := -1
			for i := 0; i <= NIDs; i++ {
				if idOf(i) == sp.Settings.DelegateWallet {
					wl = i
				}
			}
			kl := 0
			if sp.HasBeenKilled {
				kl = 1
			}
			ps = append(ps, fmt.Sprintf("%d:%d:%d:%016x:%d:%d:%d:%s", k, wl, sp.Settings.MaxNumDelegates, math.Float64bits(sp.Settings.ServiceChargeRatio),
				uint64(sp.Reward), kl, uint64(sp.Settings.MinStake), d))
		}
	}
	var ms []string
	if p, err := partitionsGet(sctx); err == nil && p != nil {
		seen := map[int64]bool{}
		var ns []int64
		for _, n := range x.nonces {
			if !seen[n] {
				seen[n] = true
				ns = append(ns, n)
			}
		}
		sort.Slice(ns, func(i, j int) bool { return ns[i] < ns[j] })
		for _, n := range ns {
			if ok, err := p.Exist(sctx, strconv.FormatInt(n, 10)); err == nil && ok {
				ms = append(ms, strconv.FormatInt(n, 10))
			}
		}
	}
	lv, _ := x.w.Leaves()
	unexpected := 0
	for p, v := range lv {
		if old, ok := x.leaves[p]; !ok || string(old) != string(v) {
			if !x.known[p] {
				unexpected++
			}
		}
	}
	for p := range x.leaves {
		if _, ok := lv[p]; !ok && !x.known[p] {
			unexpected++
		}
	}
	x.leaves = lv
	g := "?"
	if gn, err := zcnsc.GetGlobalSavedNode(sctx); err == nil {
		ow := -1
		for i := 0; i <= NIDs; i++ {
			if idOf(i) == gn.OwnerId {
				ow = i
			}
		}
		ov := 0
		if gn.MinStakeAmount >= 1 && gn.MaxStakeAmount >= 1 && gn.MinAuthorizers >= 1 && gn.HealthCheckPeriod > 0 {
			ov = 1
		}
		g = fmt.Sprintf("%d,%d,%d,%016x,%d,%d,%d,%d", uint64(gn.MinBurnAmount), uint64(gn.MinMintAmount), uint64(gn.MaxFee), math.Float64bits(gn.PercentAuthorizers),
			ow, uint64(gn.MinStakePerDelegate), gn.MaxDelegates, ov)
	}
	return fmt.Sprintf("g=%s a=%s u=%s c=%s r=%s p=%s m=%s x=%d", g, strings.Join(as, ","), strings.Join(us, ","), cs, strings.Join(rs, ","), strings.Join(ps, ";"), strings.Join(ms, ","), unexpected)
}

func classify(fn, out string) string {
	has := func(s string) bool { return strings.Contains(out, s) }
	switch fn {
	case "burn":
		switch {
		case has("lower than min burn amount"):
			return "belowMin"
		case has("payload decode error"):
			return "decode"
		case has("ethereum address is required"):
			return "noAddr"
		}
	case "mint":
		switch {
		case has("payload decode error"):
			return "decode"
		case has("payload doesn't contain signatures"):
			return "noSigs"
		case has("no authorizers found"):
			return "noAuth"
		case has("no of signatures lesser than threshold"):
			return "fewSigs"
		case has("transaction made from different account"):
			return "receiver"
		case has("lower than min amount for mint"):
			return "minMint"
		case has("lower than zcn max fee"):
			return "maxFee"
		case has("has already been minted"):
			return "nonceExists"
		case has("failed to verify signatures"):
			return "verify"
		case has("not enough valid signatures"):
			return "notEnough"
		case has("failed to retrieve stake pool for authorizer") && has("value not present"):
			return "noPool"
		case has("failed to retrieve stake pool for authorizer"):
			return "reward"
		}
	case "add-authorizer":
		switch {
		case has("failed to decode AddAuthorizerPayload"):
			return "decode"
		case has("delegate_wallet not set"):
			return "noWallet"
		case has("only the owner can access"):
			return "notOwner"
		case has("already exists"):
			return "exists"
		case has("no changes have been made"):
			return "noChange"
		case has("failed to get or create stake pool"):
			return "settings"
		}
	case "update-global-config":
		switch {
		case has("only the owner can access"):
			return "notOwner"
		case has("cannot validate changes"):
			return "validate"
		case has("unable to convert") || has("cannot convert") || has("not recognised") || has("not found"):
			return "update"
		case has("invalid character") || has("cannot unmarshal") || has("unexpected end"):
			return "decode"
		}
	case "delete-authorizer":
		switch {
		case has("failed to decode"):
			return "decode"
		case has("failed to get authorizer"):
			return "notFound"
		case has("error occurred while getting stake pool"):
			return "noPool"
		case has("only the owner can access"):
			return "notAuthorized"
		case has("could not decrease authorizer count"):
			return "negCount"
		}
	}
	o := out
	if len(o) > 60 {
		o = o[:60]
	}
	return "other:" + strings.ReplaceAll(o, " ", "_")
}

// exec runs one contract call and answers `<status> <errclass>`.
func (x *W) exec(sender int, value, fee uint64, nonce int64, fn, input string) (status, cls string, out string) {
	t := x.w.Txn(clientOf(sender), zcnsc.ADDRESS, currency.Coin(value), currency.Coin(fee), nonce, transaction.TxnTypeSmartContract, fn, input)
	_, err := x.w.Exec(t)
	status, cls = "rejected", "-"
	if err == nil {
		switch t.Status {
		case transaction.TxnSuccess:
			status = "success"
		case transaction.TxnError:
			status = "failed"
			cls = classify(fn, t.TransactionOutput)
		default:
			status = fmt.Sprintf("status%d", t.Status)
		}
	}
	return status, cls, t.TransactionOutput
}

func parseCall(w []string) (sender int, value, fee uint64, nonce int64, ok bool) {
	var e1, e2, e3, e4 error
	sender, e1 = strconv.Atoi(w[1])
	value, e2 = strconv.ParseUint(w[2], 10, 64)
	fee, e3 = strconv.ParseUint(w[3], 10, 64)
	nonce, e4 = strconv.ParseInt(w[4], 10, 64)
	return sender, value, fee, nonce, e1 == nil && e2 == nil && e3 == nil && e4 == nil
}

var burnEmpty = []string{`{"ethereum_address":""}`, `{}`, `null`, `{"ethereum_addresss":"0xabc"}`}
var burnMalformed = []string{`{"ethereum_address":5}`, `not json`, `{"ethereum_address":`, `[]`, `"0xabc"`}
var mintMalformed = []string{`not json`, `{"amount":"x"}`, `{"amount":9223372036854775808}`, `{"signatures":5}`, `[]`, `{"nonce":1.5}`, `{"signatures":[5]}`, `{"receiving_client_id":7}`}
var badSigs = []string{"", "zz", "00", "abcdef", "1234567890abcdef1234567890abcdef1234567890abcdef1234567890abcdef"}

// Step performs one operation line.
func (x *W) Step(op string) string {
	w := strings.Fields(op)
	if len(w) != 6 {
		return "bad-op"
	}
	sender, value, fee, nonce, ok := parseCall(w)
	if !ok {
		return "bad-op"
	}
	arg := w[5]
	extra := "-"
	var status, cls string
	switch w[0] {
	case "burn":
		var input string
		v, err := strconv.Atoi(arg[1:])
		if err != nil || v < 0 {
			return "bad-op"
		}
		switch arg[0] {
		case 'a':
			input = fmt.Sprintf(`{"ethereum_address":%q}`, AddrName(v))
		case 'e':
			input = burnEmpty[v%len(burnEmpty)]
		case 'm':
			input = burnMalformed[v%len(burnMalformed)]
		default:
			return "bad-op"
		}
		var out string
		status, cls, out = x.exec(sender, value, fee, nonce, "burn", input)
		if status == "success" {
			var r zcnsc.BurnPayloadResponse
			if err := r.Decode([]byte(out)); err == nil {
				extra = fmt.Sprintf("n%d", r.Nonce)
				if r.Amount != currency.Coin(value) || (arg[0] == 'a' && r.EthereumAddress != AddrName(v)) {
					extra += "!resp"
				}
			} else {
				extra = "n?"
			}
		}
	case "mint":
		input, seed, ok := mintInput(arg)
		if !ok {
			return "bad-op"
		}
		x.w.B.SetRoundRandomSeed(seed)
		var out string
		status, cls, out = x.exec(sender, value, fee, nonce, "mint", input)
		if status == "success" {
			var r struct {
				Amount uint64 `json:"amount"`
			}
			if err := json.Unmarshal([]byte(out), &r); err == nil {
				extra = fmt.Sprintf("p%d", r.Amount)
			} else {
				extra = "p?"
			}
		}
	case "addauth":
		input := "not json"
		if arg != "!" {
			f := strings.Split(arg, ":")
			if len(f) != 4 {
				return "bad-op"
			}
			k, e1 := strconv.Atoi(f[0])
			md, e2 := strconv.Atoi(f[2])
			rb, e3 := strconv.ParseUint(f[3], 16, 64)
			if e1 != nil || e2 != nil || e3 != nil || k < 0 || k >= len(Keys) || len(f[3]) != 16 {
				return "bad-op"
			}
			wallet := ""
			if f[1] != "-" {
				wi, e := strconv.Atoi(f[1])
				if e != nil {
					return "bad-op"
				}
				wallet = idOf(wi)
			}
			input = fmt.Sprintf(`{"public_key":%q,"url":"http://auth%d","stake_pool_settings":{"delegate_wallet":%q,"num_delegates":%d,"service_charge":%s}}`,
				Keys[k].PK, k, wallet, md, strconv.FormatFloat(math.Float64frombits(rb), 'g', -1, 64))
		}
		status, cls, _ = x.exec(sender, value, fee, nonce, "add-authorizer", input)
	case "updcfg":
		input := "not json"
		if arg != "!" {
			fields := map[string]string{}
			if arg != "-" {
				for _, kv := range strings.Split(arg, ",") {
					f := strings.Split(kv, "=")
					if len(f) != 2 {
						return "bad-op"
					}
					var key, val string
					switch f[0] {
					case "mb", "mm", "sd": // ZCN amounts: the coin value as a decimal number of ZCN (10 decimals)
						n, err := strconv.ParseUint(f[1], 10, 64)
						if err != nil {
							return "bad-op"
						}
						key = map[string]string{"mb": "min_burn", "mm": "min_mint", "sd": "min_stake_per_delegate"}[f[0]]
						val = strings.TrimRight(strings.TrimRight(fmt.Sprintf("%d.%010d", n/10000000000, n%10000000000), "0"), ".")
					case "mf":
						if _, err := strconv.ParseUint(f[1], 10, 64); err != nil {
							return "bad-op"
						}
						key, val = "max_fee", f[1]
					case "pa":
						b, err := strconv.ParseUint(f[1], 16, 64)
						if err != nil || len(f[1]) != 16 {
							return "bad-op"
						}
						key, val = "percent_authorizers", strconv.FormatFloat(math.Float64frombits(b), 'g', -1, 64)
					case "ow":
						o, err := strconv.Atoi(f[1])
						if err != nil || o < 0 {
							return "bad-op"
						}
						key, val = "owner_id", idOf(o)
					case "md":
						if _, err := strconv.Atoi(f[1]); err != nil {
							return "bad-op"
						}
						key, val = "max_delegates", f[1]
					case "bad":
						v, err := strconv.Atoi(f[1])
						if err != nil || v < 0 {
							return "bad-op"
						}
						bad := [][2]string{{"no_such_setting", "1"}, {"min_lock", "x"}, {"health_check_period", "soon"}, {"min_authorizers", "1.5"}}[v%4]
						key, val = bad[0], bad[1]
					default:
						return "bad-op"
					}
					if _, dup := fields[key]; dup {
						return "bad-op"
					}
					fields[key] = val
				}
			}
			b, _ := json.Marshal(map[string]interface{}{"fields": fields})
			input = string(b)
		}
		status, cls, _ = x.exec(sender, value, fee, nonce, "update-global-config", input)
	case "delauth":
		input := "not json"
		if arg != "!" {
			k, e := strconv.Atoi(arg)
			if e != nil || k < 0 {
				return "bad-op"
			}
			input = fmt.Sprintf(`{"id":%q}`, keyID(k))
		}
		status, cls, _ = x.exec(sender, value, fee, nonce, "delete-authorizer", input)
	default:
		return "bad-op"
	}
	// block boundaries at arbitrary (but reproducible) points: they must not matter
	x.opIdx++
	if strings.HasPrefix(blockMode, "mask:") { // debugging aid: explicit boundary pattern
		m, _ := strconv.ParseUint(blockMode[5:], 10, 64)
		if m>>(uint(x.opIdx)%64)&1 == 1 {
			x.nextBlock()
		}
	} else if h := encryption.Hash(op); h[0] < '4' || blockMode == "all" {
		if blockMode != "none" {
			x.nextBlock()
		}
	}
	statMu.Lock()
	Stats[w[0]+":"+status+":"+strings.SplitN(cls, ":", 2)[0]]++
	statMu.Unlock()
	return status + " " + cls + " " + extra + " " + x.State()
}

// Stats counts (operation, status, error class) over all implementation runs (evidence only).
var (
	Stats  = map[string]int{}
	statMu sync.Mutex
)

// StringToSign is the real GetStringToSign of the tuple.
func StringToSign(eth uint64, amount uint64, nonce int64, recv int) string {
	mp := &zcnsc.MintPayload{EthereumTxnID: EthTxn(eth), Amount: currency.Coin(amount), Nonce: nonce, ReceivingClientID: idOf(recv)}
	return mp.GetStringToSign()
}

// SignWith signs the hash with the secret scalar `dec` through the repository's BLS0ChainScheme.Sign.
func SignWith(dec string, hash string) (string, error) {
	s, err := schemeOf(dec)
	if err != nil {
		return "", err
	}
	return s.Sign(hash)
}

// mintInput: `!<v>` or `<eth>:<amountInt64>:<nonce>:<receiver>:<sigs>:<seed>~<table>`; sigs `-` or comma list of
// `<id>/<sig>`, id = `k<i>` | `e`; sig = `b<v>` | `<c>=` (scalar c signs this payload's tuple) |
// `<c>*<eth>.<amountU64>.<nonce>.<recv>` (scalar c signs another tuple).
func mintInput(arg string) (input string, seed int64, ok bool) {
	if strings.HasPrefix(arg, "!") {
		v, err := strconv.Atoi(arg[1:])
		if err != nil || v < 0 {
			return "", 0, false
		}
		return mintMalformed[v%len(mintMalformed)], 0, true
	}
	f := strings.Split(arg, ":")
	if len(f) != 6 {
		return "", 0, false
	}
	eth, e1 := strconv.ParseUint(f[0], 10, 64)
	amt, e2 := strconv.ParseInt(f[1], 10, 64)
	nonce, e3 := strconv.ParseInt(f[2], 10, 64)
	recv, e4 := strconv.Atoi(f[3])
	st := strings.Split(f[5], "~")
	if e1 != nil || e2 != nil || e3 != nil || e4 != nil || len(st) != 2 {
		return "", 0, false
	}
	seed, e5 := strconv.ParseInt(st[0], 10, 64)
	if e5 != nil {
		return "", 0, false
	}
	type S struct {
		ID  string `json:"authorizer_id"`
		Sig string `json:"signature"`
	}
	sigs := []S{}
	if f[4] != "-" {
		for _, s := range strings.Split(f[4], ",") {
			g := strings.Split(s, "/")
			if len(g) != 2 || g[0] == "" || g[1] == "" {
				return "", 0, false
			}
			var id string
			switch {
			case g[0] == "e":
				id = ""
			case g[0][0] == 'k':
				k, err := strconv.Atoi(g[0][1:])
				if err != nil || k < 0 {
					return "", 0, false
				}
				id = keyID(k)
			default:
				return "", 0, false
			}
			var sig string
			switch {
			case g[1][0] == 'b':
				v, err := strconv.Atoi(g[1][1:])
				if err != nil || v < 0 {
					return "", 0, false
				}
				sig = badSigs[v%len(badSigs)]
			case strings.HasSuffix(g[1], "="):
				var err error
				sig, err = SignWith(strings.TrimSuffix(g[1], "="), StringToSign(eth, uint64(amt), nonce, recv))
				if err != nil {
					return "", 0, false
				}
			default:
				h := strings.Split(g[1], "*")
				if len(h) != 2 {
					return "", 0, false
				}
				t := strings.Split(h[1], ".")
				if len(t) != 4 {
					return "", 0, false
				}
				te, a1 := strconv.ParseUint(t[0], 10, 64)
				ta, a2 := strconv.ParseUint(t[1], 10, 64)
				tn, a3 := strconv.ParseInt(t[2], 10, 64)
				tr, a4 := strconv.Atoi(t[3])
				if a1 != nil || a2 != nil || a3 != nil || a4 != nil {
					return "", 0, false
				}
				var err error
				sig, err = SignWith(h[0], StringToSign(te, ta, tn, tr))
				if err != nil {
					return "", 0, false
				}
			}
			sigs = append(sigs, S{id, sig})
		}
	}
	m := map[string]interface{}{"ethereum_txn_id": EthTxn(eth), "amount": amt, "nonce": nonce, "receiving_client_id": idOf(recv), "signatures": sigs}
	b, _ := json.Marshal(m)
	return string(b), seed, true
}

// PickTable is `Intn(n)` of the seeded generator for n = 1..max, as `i1.i2.…`.
func PickTable(seed int64, max int) string {
	var p []string
	for n := 1; n <= max; n++ {
		p = append(p, strconv.Itoa(rand.New(rand.NewSource(seed)).Intn(n)))
	}
	return strings.Join(p, ".")
}

// NonceUniverse collects every mint nonce that occurs in a case (init `minted` section and mint payloads).
func NonceUniverse(ops []string) []int64 {
	var ns []int64
	for _, op := range ops {
		w := strings.Fields(op)
		if len(w) == 0 {
			continue
		}
		if w[0] == "init" {
			bars := 0
			for _, t := range w {
				if t == "|" {
					bars++
				} else if bars == 6 {
					if n, err := strconv.ParseInt(t, 10, 64); err == nil {
						ns = append(ns, n)
					}
				}
			}
		}
		if w[0] == "mint" && len(w) == 6 {
			f := strings.Split(w[5], ":")
			if len(f) == 6 {
				if n, err := strconv.ParseInt(f[2], 10, 64); err == nil {
					ns = append(ns, n)
				}
			}
		}
	}
	return ns
}

// Impl runs a whole case (op 0 is the init line).
func Impl(ops []string) []string {
	outs := make([]string, len(ops))
	var x *W
	for i, op := range ops {
		func() {
			defer func() {
				if r := recover(); r != nil {
					outs[i] = fmt.Sprintf("panic %v", r)
				}
			}()
			w := strings.Fields(op)
			if len(w) > 0 && w[0] == "init" {
				engine.SetFeeEnabled(len(w) > 1 && w[1] == "1")
				var err error
				x, err = Init(w, NonceUniverse(ops))
				if err != nil {
					x = nil
					outs[i] = "bad-op"
					return
				}
				outs[i] = "ok " + x.State()
				return
			}
			if x == nil {
				outs[i] = "bad-op"
				return
			}
			outs[i] = x.Step(op)
		}()
	}
	return outs
}

var _ = util.ErrValueNotPresent
