// xc08: translator for property C08.
//
//	xc08 <gosrc> <out.lean>
//
// Parses (go/parser) the packages that define the stored entity types — and, on demand, the packages their field
// types come from, including github.com/0chain/common in the module cache — and derives, for every root type in
// `roots`, the schema of its msgp encoding exactly as the 0chain msgp fork's generator (parse/getast.go) reads the
// struct definitions (the generator itself is purely syntactic, and so is this translator; identifiers are resolved
// through the files' import tables):
//   - a struct is a map of its fields in declaration order, keyed by the `msg:"…"` tag (fallback `msgpack:"…"`,
//     fallback the Go field name; `-` skips the field); an embedded struct is ONE field named after its type;
//   - unexported fields are read only when the declaring file's `//go:generate msgp` line carries `-unexported`;
//   - a field whose type the generator cannot express (map with a key that is not literally `string`, func, chan,
//     non-empty interface) is silently skipped by the generator — the translator does NOT skip it: it fails (a stored
//     field that is not encoded is a C08 violation by construction), unless the field is listed in `knownSkipped`;
//   - named types are followed to their definition when their MarshalMsg lives in a *_gen.go file (or when they have
//     none and are inlined as casts); a hand-written MarshalMsg is accepted only in the two shapes that are modelled:
//     the delegate `d := T2(*recv); return d.MarshalMsg(o)` (then the decoding side is read too: which fields of the
//     helper reach the receiver) and the entity wrappers (one schema per registered version).
//
// Also extracted: for every versioned entity, the registered versions and, from the bodies of MigrateFrom /
// ApplyBaseChanges, the list of fields each migration copies.
//
// Writes <out.lean> (ZChain/Generated/C08.lean) and <out.lean>.json (the same schemas with Go field names, for the
// harness, which walks real Go values by reflection along them). Fail closed: anything unrecognised exits non-zero.
package main

import (
	"encoding/json"
	"fmt"
	"go/ast"
	"go/parser"
	"go/token"
	"os"
	"path/filepath"
	"reflect"
	"regexp"
	"sort"
	"strconv"
	"strings"
)

// ---- the schema tree ---------------------------------------------------------------------------------------------

type Ty struct {
	K      string   `json:"k"`                // int uint bool str bin f64 f32 time arr farr map ptr struct pstruct union
	E      *Ty      `json:"e,omitempty"`      // element
	N      int      `json:"n,omitempty"`      // farr length
	Fields []*Field `json:"fields,omitempty"` // struct; union: one field per registered version (Msg = version string, Go = struct type name)
	Named  string   `json:"named,omitempty"`  // Go type it came from (information only)
	Keep   []string `json:"keep,omitempty"`   // pstruct: msg keys the hand-written UnmarshalMsg copies into the receiver
}

type Field struct {
	Msg string `json:"msg"`
	Go  string `json:"go"`
	T   *Ty    `json:"t"`
}

type root struct{ pkg, name string }

// roots: the stored entity types covered (see the report of the property for what is left out).
var roots = []root{
	{"0chain.net/smartcontract/stakepool", "DelegatePool"},
	{"0chain.net/smartcontract/stakepool", "StakePool"},
	{"0chain.net/smartcontract/provider", "Provider"},
	{"0chain.net/smartcontract/storagesc", "stakePool"},
	{"0chain.net/smartcontract/storagesc", "storageNodeV1"},
	{"0chain.net/smartcontract/storagesc", "storageNodeV2"},
	{"0chain.net/smartcontract/storagesc", "storageNodeV3"},
	{"0chain.net/smartcontract/storagesc", "storageAllocationV1"},
	{"0chain.net/smartcontract/storagesc", "storageAllocationV2"},
	{"0chain.net/smartcontract/storagesc", "writeMarkerV1"},
	{"0chain.net/smartcontract/storagesc", "writeMarkerV2"},
	{"0chain.net/smartcontract/storagesc", "BlobberAllocation"},
	{"0chain.net/smartcontract/storagesc", "challengePool"},
	{"0chain.net/smartcontract/storagesc", "readPool"},
	{"0chain.net/smartcontract/storagesc", "ValidationNode"},
	{"0chain.net/smartcontract/storagesc", "StorageChallenge"},
	{"0chain.net/smartcontract/storagesc", "AllocationChallenges"},
	{"0chain.net/smartcontract/storagesc", "StorageNode"},
	{"0chain.net/smartcontract/storagesc", "StorageAllocation"},
	{"0chain.net/smartcontract/storagesc", "WriteMarker"},
	{"0chain.net/smartcontract/storagesc", "BlobberRewardNode"},
	{"0chain.net/smartcontract/storagesc", "ChallengeReadyBlobber"},
	{"0chain.net/smartcontract/storagesc", "BlobberAllocationNode"},
	{"0chain.net/smartcontract/storagesc", "ValidationPartitionNode"},
	{"0chain.net/smartcontract/storagesc", "freeStorageAssigner"},
	{"0chain.net/smartcontract/partitions", "Partitions"},
	{"0chain.net/smartcontract/partitions", "partition"},
	{"0chain.net/smartcontract/partitions", "location"},
	{"0chain.net/smartcontract/minersc", "MinerNode"},
	{"0chain.net/smartcontract/minersc", "GlobalNode"},
	{"0chain.net/smartcontract/minersc", "PhaseNode"},
	{"0chain.net/smartcontract/minersc", "DKGMinerNodes"},
	{"0chain.net/smartcontract/minersc", "MinerNodes"},
	{"0chain.net/smartcontract/minersc", "NodeIDs"},
	{"0chain.net/smartcontract/zcnsc", "GlobalNode"},
	{"0chain.net/smartcontract/zcnsc", "AuthorizerNode"},
	{"0chain.net/smartcontract/zcnsc", "UserNode"},
	{"0chain.net/smartcontract/zcnsc", "StakePool"},
	{"0chain.net/smartcontract/vestingsc", "vestingPool"},
	{"0chain.net/smartcontract/vestingsc", "clientPools"},
	{"0chain.net/smartcontract/faucetsc", "GlobalNode"},
	{"0chain.net/smartcontract/faucetsc", "UserNode"},
	{"0chain.net/smartcontract/multisigsc", "Wallet"},
	{"0chain.net/chaincore/node", "Pool"},
	{"0chain.net/chaincore/block", "MagicBlock"},
}

// versioned entities: wrapper type → (package, registered versions in order); the registration itself is re-read from
// the RegisterWrapper call and must agree.
var versioned = []struct {
	pkg, wrapper string
	versions     []string // struct type names, oldest first
}{
	{"0chain.net/smartcontract/storagesc", "StorageNode", []string{"storageNodeV1", "storageNodeV2", "storageNodeV3"}},
	{"0chain.net/smartcontract/storagesc", "StorageAllocation", []string{"storageAllocationV1", "storageAllocationV2"}},
	{"0chain.net/smartcontract/storagesc", "WriteMarker", []string{"writeMarkerV1", "writeMarkerV2"}},
}

// fields the msgp generator skips because it cannot express their type, accepted here because they are derived
// (recomputed after decoding) — "pkg.Type.Field": reason
var knownSkipped = map[string]string{}

// ---- packages, parsed on demand ------------------------------------------------------------------------------------

type failure string

func fail(format string, a ...interface{}) {
	panic(failure(fmt.Sprintf(format, a...)))
}

type declInfo struct {
	pkg        *pkgInfo
	file       *ast.File
	spec       *ast.TypeSpec
	unexported bool // the declaring file's go:generate msgp line carries -unexported
}

type pkgInfo struct {
	path    string
	dir     string
	specs   map[string]*declInfo
	methods map[string]map[string]*ast.FuncDecl // receiver type name → method name → decl
	consts  map[string]string                   // string constants with a literal value
	files   []*ast.File
}

var (
	fset     = token.NewFileSet()
	gosrc    string
	pkgCache = map[string]*pkgInfo{}
	modVers  = map[string]string{} // module path → version (from the repo's go.mod)
	problem  []string
	vNRe     = regexp.MustCompile(`^v[0-9]+$`)
)

func readGoMod() {
	b, err := os.ReadFile(filepath.Join(gosrc, "go.mod"))
	if err != nil {
		fail("%v", err)
	}
	re := regexp.MustCompile(`(?m)^\s*(?:require\s+)?([A-Za-z0-9._~/-]+)\s+(v[0-9][^\s]*)`)
	for _, m := range re.FindAllStringSubmatch(string(b), -1) {
		modVers[m[1]] = m[2]
	}
}

func modCache() string {
	if d := os.Getenv("GOMODCACHE"); d != "" {
		return d
	}
	if d := os.Getenv("GOPATH"); d != "" {
		return filepath.Join(strings.Split(d, string(os.PathListSeparator))[0], "pkg", "mod")
	}
	h, _ := os.UserHomeDir()
	return filepath.Join(h, "go", "pkg", "mod")
}

func dirOf(path string) string {
	if strings.HasPrefix(path, "0chain.net/") {
		return filepath.Join(gosrc, strings.TrimPrefix(path, "0chain.net/"))
	}
	best := ""
	for m := range modVers {
		if (path == m || strings.HasPrefix(path, m+"/")) && len(m) > len(best) {
			best = m
		}
	}
	if best == "" {
		fail("import %s: not in the repository and not a required module", path)
	}
	return filepath.Join(modCache(), best+"@"+modVers[best], strings.TrimPrefix(path, best))
}

func receiverName(fd *ast.FuncDecl) string {
	if fd.Recv == nil || len(fd.Recv.List) != 1 {
		return ""
	}
	return embeddedName(fd.Recv.List[0].Type)
}

func loadPkg(path string) *pkgInfo {
	if p, ok := pkgCache[path]; ok {
		return p
	}
	p := &pkgInfo{path: path, dir: dirOf(path), specs: map[string]*declInfo{}, methods: map[string]map[string]*ast.FuncDecl{}, consts: map[string]string{}}
	pkgCache[path] = p
	ents, err := os.ReadDir(p.dir)
	if err != nil {
		fail("package %s: %v", path, err)
	}
	for _, e := range ents {
		n := e.Name()
		if !strings.HasSuffix(n, ".go") || strings.HasSuffix(n, "_test.go") {
			continue
		}
		src, err := os.ReadFile(filepath.Join(p.dir, n))
		if err != nil {
			fail("%v", err)
		}
		head := string(src)
		if i := strings.Index(head, "\npackage "); i >= 0 {
			head = head[:i]
		}
		if strings.Contains(head, "//go:build") && !strings.Contains(head, "//go:build !") {
			continue // built only under a tag (e.g. dev, integration_tests)
		}
		f, err := parser.ParseFile(fset, filepath.Join(p.dir, n), src, parser.ParseComments)
		if err != nil {
			fail("%v", err)
		}
		if strings.HasSuffix(f.Name.Name, "_test") {
			continue
		}
		p.files = append(p.files, f)
		unexp := false
		for _, cg := range f.Comments {
			for _, c := range cg.List {
				if strings.HasPrefix(c.Text, "//go:generate msgp") && strings.Contains(c.Text, "-unexported") && !strings.Contains(c.Text, "-unexported=false") {
					unexp = true
				}
			}
		}
		for _, d := range f.Decls {
			switch x := d.(type) {
			case *ast.GenDecl:
				for _, s := range x.Specs {
					switch sp := s.(type) {
					case *ast.TypeSpec:
						if sp.TypeParams != nil {
							continue
						}
						p.specs[sp.Name.Name] = &declInfo{pkg: p, file: f, spec: sp, unexported: unexp}
					case *ast.ValueSpec:
						if x.Tok == token.CONST {
							for i, nm := range sp.Names {
								if i < len(sp.Values) {
									if bl, ok := sp.Values[i].(*ast.BasicLit); ok && bl.Kind == token.STRING {
										if v, err := strconv.Unquote(bl.Value); err == nil {
											p.consts[nm.Name] = v
										}
									}
								}
							}
						}
					}
				}
			case *ast.FuncDecl:
				if r := receiverName(x); r != "" {
					if p.methods[r] == nil {
						p.methods[r] = map[string]*ast.FuncDecl{}
					}
					p.methods[r][x.Name.Name] = x
				}
			}
		}
	}
	return p
}

// importPath: the import path bound to `alias` in file f
func importPath(f *ast.File, alias string) string {
	for _, im := range f.Imports {
		path, _ := strconv.Unquote(im.Path.Value)
		name := filepath.Base(path)
		if im.Name != nil {
			name = im.Name.Name
		} else if vNRe.MatchString(name) {
			name = filepath.Base(filepath.Dir(path))
		}
		if name == alias {
			return path
		}
	}
	return ""
}

func isStd(path string) bool { return !strings.Contains(strings.Split(path, "/")[0], ".") }

type ctx struct {
	pkg        *pkgInfo
	file       *ast.File
	unexported bool
	path       string // for messages
}

// constString: a string constant expression (literal, local constant, or pkg.Const)
func constString(c ctx, e ast.Expr) (string, bool) {
	switch x := e.(type) {
	case *ast.BasicLit:
		if x.Kind == token.STRING {
			v, err := strconv.Unquote(x.Value)
			return v, err == nil
		}
	case *ast.Ident:
		v, ok := c.pkg.consts[x.Name]
		return v, ok
	case *ast.SelectorExpr:
		if id, ok := x.X.(*ast.Ident); ok {
			if path := importPath(c.file, id.Name); path != "" && !isStd(path) {
				v, ok := loadPkg(path).consts[x.Sel.Name]
				return v, ok
			}
		}
	}
	return "", false
}

// ---- derivation ----------------------------------------------------------------------------------------------------

var inProgress = map[string]bool{}

var builtins = map[string]string{
	"int": "int", "int8": "int", "int16": "int", "int32": "int", "int64": "int",
	"uint": "uint", "uint8": "uint", "uint16": "uint", "uint32": "uint", "uint64": "uint", "byte": "uint",
	"bool": "bool", "string": "str", "float64": "f64", "float32": "f32",
}

// marshalKind: where does (*T).MarshalMsg come from: "gen" (a *_gen.go file), "hand" (another file), "none".
func marshalKind(p *pkgInfo, name string) string {
	if m, ok := p.methods[name]["MarshalMsg"]; ok {
		if strings.HasSuffix(fset.Position(m.Pos()).Filename, "_gen.go") {
			return "gen"
		}
		return "hand"
	}
	// a struct that embeds entitywrapper.Wrapper has the wrapper's (hand-written) MarshalMsg promoted to it
	if d := p.specs[name]; d != nil {
		if st, ok := d.spec.Type.(*ast.StructType); ok {
			for _, f := range st.Fields.List {
				if len(f.Names) == 0 {
					if s, ok := f.Type.(*ast.SelectorExpr); ok && s.Sel.Name == "Wrapper" {
						if id, ok := s.X.(*ast.Ident); ok && importPath(d.file, id.Name) == "0chain.net/core/util/entitywrapper" {
							return "hand"
						}
					}
				}
			}
		}
	}
	return "none"
}

// ofExpr: the generator's parseExpr on a type expression; nil = the generator cannot express it (field skipped).
func ofExpr(c ctx, e ast.Expr) *Ty {
	switch x := e.(type) {
	case *ast.ParenExpr:
		return ofExpr(c, x.X)
	case *ast.MapType:
		if k, ok := x.Key.(*ast.Ident); !ok || k.Name != "string" {
			return nil
		}
		in := ofExpr(c, x.Value)
		if in == nil {
			return nil
		}
		return &Ty{K: "map", E: in}
	case *ast.ArrayType:
		if x.Len == nil {
			if i, ok := x.Elt.(*ast.Ident); ok && i.Name == "byte" {
				return &Ty{K: "bin"}
			}
		}
		el := ofExpr(c, x.Elt)
		if el == nil {
			return nil
		}
		if x.Len != nil {
			bl, ok := x.Len.(*ast.BasicLit)
			if !ok {
				fail("%s: array length is not a literal", c.path)
			}
			n, err := strconv.Atoi(bl.Value)
			if err != nil {
				fail("%s: array length %s", c.path, bl.Value)
			}
			return &Ty{K: "farr", E: el, N: n}
		}
		return &Ty{K: "arr", E: el}
	case *ast.StarExpr:
		in := ofExpr(c, x.X)
		if in == nil {
			return nil
		}
		return &Ty{K: "ptr", E: in}
	case *ast.StructType:
		return structTy(c, x)
	case *ast.InterfaceType:
		if x.Methods == nil || len(x.Methods.List) == 0 {
			fail("%s: interface{} field: msgp encodes it with AppendIntf (map order unspecified) — not modelled", c.path)
		}
		return nil
	case *ast.Ident:
		if k, ok := builtins[x.Name]; ok {
			return &Ty{K: k}
		}
		if x.Name == "error" || x.Name == "any" {
			fail("%s: field of type %s", c.path, x.Name)
		}
		return ofTypeName(c, c.pkg, x.Name)
	case *ast.SelectorExpr:
		id, ok := x.X.(*ast.Ident)
		if !ok {
			fail("%s: unsupported selector type", c.path)
		}
		path := importPath(c.file, id.Name)
		if path == "" {
			fail("%s: cannot resolve package %s", c.path, id.Name)
		}
		if path == "time" {
			switch x.Sel.Name {
			case "Time":
				return &Ty{K: "time"}
			case "Duration":
				return &Ty{K: "int", Named: "time.Duration"}
			}
		}
		if isStd(path) {
			fail("%s: standard library type %s.%s has no msgp encoding modelled", c.path, path, x.Sel.Name)
		}
		return ofTypeName(c, loadPkg(path), x.Sel.Name)
	case *ast.FuncType, *ast.ChanType:
		return nil
	case *ast.IndexExpr, *ast.IndexListExpr:
		fail("%s: generic type instantiation not modelled", c.path)
	}
	fail("%s: unsupported type expression %T", c.path, e)
	return nil
}

func ofTypeName(c ctx, p *pkgInfo, name string) *Ty {
	full := p.path + "." + name
	d := p.specs[name]
	if d == nil {
		fail("%s: declaration of %s not found", c.path, full)
	}
	c2 := ctx{pkg: p, file: d.file, unexported: d.unexported, path: full}
	if d.spec.Assign.IsValid() {
		// alias: transparent
		t := ofExpr(c2, d.spec.Type)
		if t == nil {
			fail("%s: alias %s of an inexpressible type", c.path, full)
		}
		return t
	}
	mk := marshalKind(p, name)
	if mk == "hand" {
		if t := handWritten(c, p, name, full); t != nil {
			return t
		}
		fail("%s: %s has a hand-written MarshalMsg that is not modelled", c.path, full)
	}
	if mk == "none" {
		// the generated code of the USER of this type either inlines a cast (basic underlying type), inlines the
		// struct (same package), or would not compile
		switch x := d.spec.Type.(type) {
		case *ast.Ident:
			if k, ok := builtins[x.Name]; ok {
				return &Ty{K: k, Named: full}
			}
		case *ast.StructType:
			if p != c.pkg {
				fail("%s: %s has no MarshalMsg", c.path, full)
			}
		}
		if _, isStruct := d.spec.Type.(*ast.StructType); !isStruct && convertedStruct(d) == nil {
			fail("%s: %s has no MarshalMsg and is not a basic type", c.path, full)
		}
	}
	if inProgress[full] {
		fail("%s: recursive type %s not modelled", c.path, full)
	}
	inProgress[full] = true
	defer delete(inProgress, full)
	var t *Ty
	if st, ok := d.spec.Type.(*ast.StructType); ok {
		t = structTy(c2, st)
	} else if cs := convertedStruct(d); cs != nil {
		// `type X Y` with Y a struct type: X has Y's fields and none of its methods
		c3 := c2
		c3.pkg, c3.file = cs.pkg, cs.file
		t = structTy(c3, cs.spec.Type.(*ast.StructType))
	} else {
		t = ofExpr(c2, d.spec.Type)
		if t == nil {
			fail("%s: the generator cannot express the definition of %s", c.path, full)
		}
	}
	cp := *t
	cp.Named = full
	return &cp
}

// convertedStruct: for `type X Y` (Y a named struct type, possibly through further conversions) the declaration of Y.
func convertedStruct(d *declInfo) *declInfo {
	var p *pkgInfo
	var name string
	switch x := d.spec.Type.(type) {
	case *ast.Ident:
		if _, ok := builtins[x.Name]; ok {
			return nil
		}
		p, name = d.pkg, x.Name
	case *ast.SelectorExpr:
		id, ok := x.X.(*ast.Ident)
		if !ok {
			return nil
		}
		path := importPath(d.file, id.Name)
		if path == "" || isStd(path) {
			return nil
		}
		p, name = loadPkg(path), x.Sel.Name
	default:
		return nil
	}
	d2 := p.specs[name]
	if d2 == nil || d2.spec.Assign.IsValid() {
		return nil
	}
	if _, ok := d2.spec.Type.(*ast.StructType); ok {
		return d2
	}
	return convertedStruct(d2)
}

// handWritten: the two hand-written MarshalMsg shapes that are modelled.
//  1. the delegate  `d := T2(*recv); return d.MarshalMsg(o)`  (Partitions, AllocationChallenges, node.Pool): the bytes are T2's;
//  2. a struct embedding entitywrapper.Wrapper: the bytes are those of the current version's struct → union of the versions.
func handWritten(c ctx, p *pkgInfo, name, full string) *Ty {
	for _, v := range versioned {
		if v.pkg == p.path && v.wrapper == name {
			st, ok := p.specs[name].spec.Type.(*ast.StructType)
			if !ok || len(st.Fields.List) != 1 || len(st.Fields.List[0].Names) != 0 || embeddedName(st.Fields.List[0].Type) != "Wrapper" {
				fail("%s: %s is listed as an entity wrapper but is not `struct{ entitywrapper.Wrapper }`", c.path, full)
			}
			u := &Ty{K: "union", Named: full}
			reg := registered(p, v.wrapper)
			if len(reg) != len(v.versions) {
				fail("%s: %d versions registered, %d expected (%v)", full, len(reg), len(v.versions), reg)
			}
			for i, vn := range v.versions {
				ver := fmt.Sprintf("v%d", i+1)
				if reg[ver] != vn {
					fail("%s: version %s is registered as %q, expected %s", full, ver, reg[ver], vn)
				}
				if p.specs[vn] == nil {
					fail("%s: version struct %s not found", full, vn)
				}
				vt := ofTypeName(c, p, vn)
				// the version string written by InitVersion must be the registered key (v1 has no version field)
				hasVer := false
				for _, f := range vt.Fields {
					if f.Msg == "version" {
						hasVer = true
						if f.T.K != "str" {
							fail("%s: version field of %s is not a string", full, vn)
						}
					}
				}
				if hasVer == (i == 0) {
					fail("%s: %s: only versions after the first carry a `version` key", full, vn)
				}
				if i > 0 {
					iv := p.methods[vn]["InitVersion"]
					if iv == nil || iv.Body == nil || len(iv.Body.List) != 1 {
						fail("%s: %s.InitVersion is not a single assignment", full, vn)
					}
					as, ok := iv.Body.List[0].(*ast.AssignStmt)
					if !ok || len(as.Rhs) != 1 {
						fail("%s: %s.InitVersion is not a single assignment", full, vn)
					}
					d := p.specs[vn]
					sv, ok := constString(ctx{pkg: p, file: d.file}, as.Rhs[0])
					if !ok || sv != ver {
						fail("%s: %s.InitVersion does not set the registered version %q", full, vn, ver)
					}
				}
				u.Fields = append(u.Fields, &Field{Msg: ver, Go: vn, T: vt})
			}
			return u
		}
	}
	fd := p.methods[name]["MarshalMsg"]
	if fd == nil || fd.Body == nil || len(fd.Body.List) != 2 || len(fd.Recv.List[0].Names) != 1 {
		return nil
	}
	rn := fd.Recv.List[0].Names[0].Name
	as, ok1 := fd.Body.List[0].(*ast.AssignStmt)
	rt, ok2 := fd.Body.List[1].(*ast.ReturnStmt)
	if !ok1 || !ok2 || len(as.Lhs) != 1 || len(as.Rhs) != 1 || len(rt.Results) != 1 {
		return nil
	}
	conv, ok := as.Rhs[0].(*ast.CallExpr)
	if !ok || len(conv.Args) != 1 {
		return nil
	}
	if st, ok := conv.Args[0].(*ast.StarExpr); !ok || embeddedName(st.X) != rn {
		return nil
	}
	id, ok := conv.Fun.(*ast.Ident)
	if !ok || p.specs[id.Name] == nil {
		return nil
	}
	call, ok := rt.Results[0].(*ast.CallExpr)
	if !ok {
		return nil
	}
	sel, ok := call.Fun.(*ast.SelectorExpr)
	if !ok || sel.Sel.Name != "MarshalMsg" || embeddedName(sel.X) != embeddedName(as.Lhs[0]) {
		return nil
	}
	t := ofTypeName(c, p, id.Name)
	cp := *t
	cp.Named = full + " (as " + id.Name + ")"
	// the decoding side: `d := &T2{}; d.UnmarshalMsg(b); …` — which fields of d reach the receiver?
	if cp.K == "struct" {
		all, kept := restoredFields(p, name)
		if !all {
			cp.K = "pstruct"
			cp.Keep = []string{}
			for _, f := range cp.Fields {
				for _, k := range kept {
					if k == f.Go {
						cp.Keep = append(cp.Keep, f.Msg)
					}
				}
			}
		}
	}
	return &cp
}

// restoredFields: in the hand-written (*recv).UnmarshalMsg, either `*recv = T(*d)` (everything) or the list of
// `recv.F = d.F` assignments.
func restoredFields(p *pkgInfo, recv string) (all bool, kept []string) {
	fd := p.methods[recv]["UnmarshalMsg"]
	if fd == nil || fd.Body == nil || len(fd.Recv.List[0].Names) != 1 {
		fail("%s: hand-written MarshalMsg without a readable UnmarshalMsg", recv)
	}
	rn := fd.Recv.List[0].Names[0].Name
	ast.Inspect(fd.Body, func(n ast.Node) bool {
		as, ok := n.(*ast.AssignStmt)
		if !ok || len(as.Lhs) != 1 || len(as.Rhs) != 1 {
			return true
		}
		if st, ok := as.Lhs[0].(*ast.StarExpr); ok && embeddedName(st.X) == rn {
			if c, ok := as.Rhs[0].(*ast.CallExpr); ok && len(c.Args) == 1 && embeddedName(c.Fun) == recv {
				all = true
			}
		}
		if l, ok := as.Lhs[0].(*ast.SelectorExpr); ok && embeddedName(l.X) == rn {
			if r, ok := as.Rhs[0].(*ast.SelectorExpr); ok && r.Sel.Name == l.Sel.Name {
				kept = append(kept, l.Sel.Name)
			}
		}
		return true
	})
	return
}

func embeddedName(e ast.Expr) string {
	switch x := e.(type) {
	case *ast.Ident:
		return x.Name
	case *ast.StarExpr:
		return embeddedName(x.X)
	case *ast.SelectorExpr:
		return x.Sel.Name
	}
	return ""
}

func structTy(c ctx, st *ast.StructType) *Ty {
	t := &Ty{K: "struct"}
	for _, f := range st.Fields.List {
		tag := ""
		if f.Tag != nil {
			raw := strings.Trim(f.Tag.Value, "`")
			body := reflect.StructTag(raw).Get("msg")
			if body == "" {
				body = reflect.StructTag(raw).Get("msgpack")
			}
			parts := strings.Split(body, ",")
			if len(parts) >= 2 {
				fail("%s: msg tag option %q not modelled", c.path, body)
			}
			tag = parts[0]
		}
		if tag == "-" {
			continue
		}
		var names []string
		if len(f.Names) == 0 {
			names = []string{embeddedName(f.Type)}
		} else {
			for _, n := range f.Names {
				names = append(names, n.Name)
			}
		}
		for _, n := range names {
			if !ast.IsExported(n) && !c.unexported {
				continue // ast.FileExports removed it before the generator looked
			}
			c3 := c
			c3.path = c.path + "." + n
			ft := ofExpr(c3, f.Type)
			if ft == nil {
				key := c.path + "." + n
				if _, ok := knownSkipped[key]; ok {
					continue
				}
				fail("%s: the msgp generator silently skips this field (its type cannot be expressed): a stored field that is never encoded", key)
			}
			msg := tag
			if msg == "" || len(names) > 1 {
				msg = n
			}
			for _, ch := range msg {
				if ch > 126 || ch < 33 {
					fail("%s: field key %q is not printable ASCII (the model takes keys as ASCII bytes)", c.path, msg)
				}
			}
			t.Fields = append(t.Fields, &Field{Msg: msg, Go: n, T: ft})
		}
	}
	seen := map[string]bool{}
	for _, f := range t.Fields {
		if seen[f.Msg] {
			fail("%s: two fields encode under the key %q", c.path, f.Msg)
		}
		seen[f.Msg] = true
	}
	return t
}

// ---- migrations ------------------------------------------------------------------------------------------------------

type migration struct {
	From, To string
	Copied   []string // Go field names assigned from the prior version (directly or through ApplyBaseChanges)
	SetsVer  string
}

// copiedFields: `recv.F = x.F` assignments in the body of method `name` of `recv`, following one level of
// `recv.ApplyBaseChanges(...)`.
func copiedFields(p *pkgInfo, recv, name string, depth int) (fields []string, ver string) {
	fd := p.methods[recv][name]
	if fd == nil || fd.Body == nil {
		fail("method %s.%s not found", recv, name)
	}
	rn := ""
	if len(fd.Recv.List[0].Names) == 1 {
		rn = fd.Recv.List[0].Names[0].Name
	}
	d := p.specs[recv]
	ast.Inspect(fd.Body, func(n ast.Node) bool {
		switch x := n.(type) {
		case *ast.AssignStmt:
			if len(x.Lhs) != 1 || len(x.Rhs) != 1 {
				return true
			}
			l, ok := x.Lhs[0].(*ast.SelectorExpr)
			if !ok {
				return true
			}
			if id, ok := l.X.(*ast.Ident); !ok || id.Name != rn {
				return true
			}
			if r, ok := x.Rhs[0].(*ast.SelectorExpr); ok && r.Sel.Name == l.Sel.Name {
				fields = append(fields, l.Sel.Name)
				return true
			}
			if l.Sel.Name == "Version" {
				if v, ok := constString(ctx{pkg: p, file: d.file}, x.Rhs[0]); ok {
					ver = v
				}
			}
		case *ast.CallExpr:
			if s, ok := x.Fun.(*ast.SelectorExpr); ok && depth == 0 {
				if id, ok := s.X.(*ast.Ident); ok && id.Name == rn && s.Sel.Name == "ApplyBaseChanges" {
					fs, _ := copiedFields(p, recv, "ApplyBaseChanges", 1)
					fields = append(fields, fs...)
				}
			}
		}
		return true
	})
	return
}

// registered: the version map of the RegisterWrapper(&wrapper{}, map[string]EntityI{…}) call.
func registered(p *pkgInfo, wrapper string) map[string]string {
	out := map[string]string{}
	for _, f := range p.files {
		ast.Inspect(f, func(n ast.Node) bool {
			c, ok := n.(*ast.CallExpr)
			if !ok || len(c.Args) != 2 {
				return true
			}
			s, ok := c.Fun.(*ast.SelectorExpr)
			if !ok || s.Sel.Name != "RegisterWrapper" {
				return true
			}
			u, ok := c.Args[0].(*ast.UnaryExpr)
			if !ok {
				return true
			}
			cl, ok := u.X.(*ast.CompositeLit)
			if !ok || embeddedName(cl.Type) != wrapper {
				return true
			}
			m, ok := c.Args[1].(*ast.CompositeLit)
			if !ok {
				fail("RegisterWrapper(%s): version map is not a literal", wrapper)
			}
			for _, el := range m.Elts {
				kv := el.(*ast.KeyValueExpr)
				ver, ok := constString(ctx{pkg: p, file: f}, kv.Key)
				if !ok {
					fail("RegisterWrapper(%s): version key is not a string constant", wrapper)
				}
				vu, ok := kv.Value.(*ast.UnaryExpr)
				if !ok {
					fail("RegisterWrapper(%s): version value is not &T{}", wrapper)
				}
				out[ver] = embeddedName(vu.X.(*ast.CompositeLit).Type)
			}
			return true
		})
	}
	return out
}

// ---- output ------------------------------------------------------------------------------------------------------

// leanKey: a key as the list of its ASCII bytes (the kernel never has to decode a string literal), with the text as a comment
func leanKey(k string) string {
	q := make([]string, len(k))
	for i := 0; i < len(k); i++ {
		q[i] = fmt.Sprintf("%d", k[i])
	}
	return "[" + strings.Join(q, ", ") + "] /- " + k + " -/"
}

func leanTy(t *Ty, ind string) string {
	switch t.K {
	case "int", "uint", "bool", "str", "bin", "f64", "f32", "time":
		return "." + t.K
	case "arr", "map", "ptr":
		return "(." + t.K + " " + leanTy(t.E, ind) + ")"
	case "farr":
		return fmt.Sprintf("(.farr %d %s)", t.N, leanTy(t.E, ind))
	case "struct", "union", "pstruct":
		mk := "mkStruct"
		if t.K == "union" {
			mk = "mkUnion"
		}
		if t.K == "pstruct" {
			q := make([]string, len(t.Keep))
			for i, k := range t.Keep {
				q[i] = leanKey(k)
			}
			mk = "mkPStruct [" + strings.Join(q, ", ") + "]"
		}
		if len(t.Fields) == 0 {
			return "(" + mk + " [])"
		}
		var b strings.Builder
		b.WriteString("(" + mk + " [")
		for i, f := range t.Fields {
			if i > 0 {
				b.WriteString(",")
			}
			b.WriteString("\n" + ind + "  (" + leanKey(f.Msg) + ", " + leanTy(f.T, ind+"  ") + ")")
		}
		b.WriteString("])")
		return b.String()
	}
	fail("leanTy: kind %s", t.K)
	return ""
}

func leanName(r root) string {
	return filepath.Base(r.pkg) + "." + r.name
}

func main() {
	defer func() {
		if x := recover(); x != nil {
			if f, ok := x.(failure); ok {
				fmt.Fprintln(os.Stderr, "xc08:", string(f))
				os.Exit(1)
			}
			panic(x)
		}
	}()
	if len(os.Args) != 3 {
		fmt.Fprintln(os.Stderr, "usage: xc08 <gosrc> <out.lean>")
		os.Exit(2)
	}
	var out string
	gosrc, out = os.Args[1], os.Args[2]
	readGoMod()

	schemas := map[string]*Ty{}
	var order []string
	kinds := map[string]int{}
	var count func(t *Ty)
	count = func(t *Ty) {
		kinds[t.K]++
		if t.E != nil {
			count(t.E)
		}
		for _, f := range t.Fields {
			count(f.T)
		}
	}
	for _, r := range roots {
		func() {
			defer func() {
				if x := recover(); x != nil {
					f, ok := x.(failure)
					if !ok {
						panic(x)
					}
					problem = append(problem, string(f))
					for k := range inProgress {
						delete(inProgress, k)
					}
				}
			}()
			p := loadPkg(r.pkg)
			d := p.specs[r.name]
			if d == nil {
				fail("%s.%s: no such type", r.pkg, r.name)
			}
			t := ofTypeName(ctx{pkg: p, file: d.file, path: leanName(r)}, p, r.name)
			schemas[leanName(r)] = t
			order = append(order, leanName(r))
			count(t)
		}()
	}
	if len(problem) > 0 {
		for _, p := range problem {
			fmt.Fprintln(os.Stderr, "xc08:", p)
		}
		os.Exit(1)
	}

	var migs []migration
	type verEntry struct{ Wrapper, Version, Type string }
	var vers []verEntry
	for _, v := range versioned {
		p := loadPkg(v.pkg)
		reg := registered(p, v.wrapper)
		if len(reg) != len(v.versions) {
			fail("%s: %d versions registered, %d expected (%v)", v.wrapper, len(reg), len(v.versions), reg)
		}
		for i, tn := range v.versions {
			ver := fmt.Sprintf("v%d", i+1)
			if reg[ver] != tn {
				fail("%s: version %s is registered as %s, expected %s", v.wrapper, ver, reg[ver], tn)
			}
			vers = append(vers, verEntry{v.wrapper, ver, filepath.Base(v.pkg) + "." + tn})
			if i == 0 {
				continue
			}
			fs, sv := copiedFields(p, tn, "MigrateFrom", 0)
			migs = append(migs, migration{From: filepath.Base(v.pkg) + "." + v.versions[i-1], To: filepath.Base(v.pkg) + "." + tn, Copied: fs, SetsVer: sv})
		}
	}

	// Lean
	var b strings.Builder
	b.WriteString("import ZChain.Model.Codec\n")
	b.WriteString("/-! GENERATED by harness/cmd/xc08 from the Go struct definitions and `msg:` tags — do not edit.\nRegenerated on every `./check C08`. -/\n")
	b.WriteString("namespace ZChain.Codec.Gen\nopen ZChain.Codec\n\n")
	for _, n := range order {
		id := strings.ReplaceAll(n, ".", "_")
		fmt.Fprintf(&b, "def %s : Ty := %s\n\n", id, leanTy(schemas[n], ""))
	}
	b.WriteString("def schemas : List (String × Ty) := [\n")
	for i, n := range order {
		sep := ","
		if i == len(order)-1 {
			sep = ""
		}
		fmt.Fprintf(&b, "  (%q, %s)%s\n", n, strings.ReplaceAll(n, ".", "_"), sep)
	}
	idx := map[string]int{}
	for i, n := range order {
		idx[n] = i
	}
	b.WriteString("]\n\n/-- registered versions of the entity-wrapper types: (wrapper, version string, index of the version's schema in `schemas`) -/\n")
	b.WriteString("def versions : List (String × Bytes × Nat) := [\n")
	for i, v := range vers {
		sep := ","
		if i == len(vers)-1 {
			sep = ""
		}
		fmt.Fprintf(&b, "  (%q, %s, %d)%s  -- %s\n", v.Wrapper, leanKey(v.Version), idx[v.Type], sep, v.Type)
	}
	b.WriteString("]\n\n/-- migrations: (index of the old schema, index of the new schema, msg keys of the fields MigrateFrom/ApplyBaseChanges copy, version string it sets) -/\n")
	b.WriteString("def migrations : List (Nat × Nat × List Bytes × Bytes) := [\n")
	for i, m := range migs {
		sep := ","
		if i == len(migs)-1 {
			sep = ""
		}
		var q []string
		for _, g := range m.Copied {
			for _, f := range schemas[m.From].Fields {
				if f.Go == g {
					q = append(q, leanKey(f.Msg))
				}
			}
		}
		fmt.Fprintf(&b, "  (%d, %d, [%s], %s)%s  -- %s -> %s\n", idx[m.From], idx[m.To], strings.Join(q, ", "), leanKey(m.SetsVer), sep, m.From, m.To)
	}
	b.WriteString("]\n\nend ZChain.Codec.Gen\n")
	if err := os.WriteFile(out, []byte(b.String()), 0o644); err != nil {
		fail("%v", err)
	}
	side := map[string]interface{}{"schemas": schemas, "order": order, "versions": vers, "migrations": migs}
	js, _ := json.MarshalIndent(side, "", " ")
	if err := os.WriteFile(out+".json", js, 0o644); err != nil {
		fail("%v", err)
	}
	var ks []string
	for k, n := range kinds {
		ks = append(ks, fmt.Sprintf("%s=%d", k, n))
	}
	sort.Strings(ks)
	fmt.Printf("schemas=%d versions=%d migrations=%d packages parsed=%d\n", len(order), len(vers), len(migs), len(pkgCache))
	fmt.Printf("node kinds: %s\n", strings.Join(ks, " "))
}
