// xc08: translator for property C08.
//
//	xc08 <gosrc> <out.lean>
//
// Loads the packages that define the stored entity types (go/packages: syntax + go/types) and derives, for every root
// type in `roots`, the schema of its msgp encoding exactly as the 0chain msgp fork's generator (parse/getast.go) reads
// the struct definitions:
//   - a struct is a map of its fields in declaration order, keyed by the `msg:"…"` tag (fallback `msgpack:"…"`,
//     fallback the Go field name; `-` skips the field); an embedded struct is ONE field named after its type;
//   - unexported fields are read only when the declaring file's `//go:generate msgp` line carries `-unexported`;
//   - a field whose type the generator cannot express (map with a key that is not literally `string`, func, chan,
//     non-empty interface) is silently skipped by the generator — the translator does NOT skip it: it fails (a stored
//     field that is not encoded is a C08 violation by construction), unless the field is listed in `knownSkipped`;
//   - named types are followed to their definition when their MarshalMsg lives in a *_gen.go file (or when they have
//     none and are inlined as casts); a hand-written MarshalMsg is accepted only for the cases modelled explicitly
//     (state.State: fixed binary layout; the entitywrapper types: one schema per registered version).
//
// Also extracted: for every versioned entity, the registered versions and, from the bodies of MigrateFrom /
// ApplyBaseChanges, the list of fields each migration copies.
//
// Writes <out.lean> (ZChain/Generated/C08.lean) and <out.lean>.json (the same schemas with Go field names, for the
// harness, which walks real Go values by reflection along them). Fail closed: anything unrecognised exits non-zero.
package main

import (
	"encoding/json"
	"fmt"
	"go/ast"
	"go/token"
	"go/types"
	"os"
	"path/filepath"
	"reflect"
	"sort"
	"strings"

	"golang.org/x/tools/go/packages"
)

// ---- the schema tree ---------------------------------------------------------------------------------------------

type Ty struct {
	K      string   `json:"k"`                // int uint bool str bin f64 f32 time arr farr map ptr struct union
	E      *Ty      `json:"e,omitempty"`      // element
	N      int      `json:"n,omitempty"`      // farr length
	Fields []*Field `json:"fields,omitempty"` // struct; union: one field per registered version (Msg = version string, Go = struct type name)
	Named  string   `json:"named,omitempty"`  // Go type it came from (information only)
	Keep   []string `json:"keep,omitempty"`   // pstruct: msg keys the hand-written UnmarshalMsg copies into the receiver
}

type Field struct {
	Msg string `json:"msg"`
	Go  string `json:"go"`
	T   *Ty    `json:"t"`
}

type root struct{ pkg, name string }

// roots: the stored entity types covered (see the report of the property for what is left out).
var roots = []root{
	{"0chain.net/smartcontract/stakepool", "DelegatePool"},
	{"0chain.net/smartcontract/stakepool", "StakePool"},
	{"0chain.net/smartcontract/provider", "Provider"},
	{"0chain.net/smartcontract/storagesc", "stakePool"},
	{"0chain.net/smartcontract/storagesc", "storageNodeV1"},
	{"0chain.net/smartcontract/storagesc", "storageNodeV2"},
	{"0chain.net/smartcontract/storagesc", "storageNodeV3"},
	{"0chain.net/smartcontract/storagesc", "storageAllocationV1"},
	{"0chain.net/smartcontract/storagesc", "storageAllocationV2"},
	{"0chain.net/smartcontract/storagesc", "writeMarkerV1"},
	{"0chain.net/smartcontract/storagesc", "writeMarkerV2"},
	{"0chain.net/smartcontract/storagesc", "BlobberAllocation"},
	{"0chain.net/smartcontract/storagesc", "challengePool"},
	{"0chain.net/smartcontract/storagesc", "readPool"},
	{"0chain.net/smartcontract/storagesc", "ValidationNode"},
	{"0chain.net/smartcontract/storagesc", "StorageChallenge"},
	{"0chain.net/smartcontract/storagesc", "AllocationChallenges"},
	{"0chain.net/smartcontract/storagesc", "StorageNode"},
	{"0chain.net/smartcontract/storagesc", "StorageAllocation"},
	{"0chain.net/smartcontract/storagesc", "WriteMarker"},
	{"0chain.net/smartcontract/storagesc", "BlobberRewardNode"},
	{"0chain.net/smartcontract/storagesc", "ChallengeReadyBlobber"},
	{"0chain.net/smartcontract/storagesc", "BlobberAllocationNode"},
	{"0chain.net/smartcontract/storagesc", "ValidationPartitionNode"},
	{"0chain.net/smartcontract/storagesc", "freeStorageAssigner"},
	{"0chain.net/smartcontract/partitions", "Partitions"},
	{"0chain.net/smartcontract/partitions", "partition"},
	{"0chain.net/smartcontract/partitions", "location"},
	{"0chain.net/smartcontract/minersc", "MinerNode"},
	{"0chain.net/smartcontract/minersc", "GlobalNode"},
	{"0chain.net/smartcontract/minersc", "PhaseNode"},
	{"0chain.net/smartcontract/minersc", "DKGMinerNodes"},
	{"0chain.net/smartcontract/minersc", "MinerNodes"},
	{"0chain.net/smartcontract/minersc", "NodeIDs"},
	{"0chain.net/smartcontract/zcnsc", "GlobalNode"},
	{"0chain.net/smartcontract/zcnsc", "AuthorizerNode"},
	{"0chain.net/smartcontract/zcnsc", "UserNode"},
	{"0chain.net/smartcontract/zcnsc", "StakePool"},
	{"0chain.net/smartcontract/vestingsc", "vestingPool"},
	{"0chain.net/smartcontract/vestingsc", "clientPools"},
	{"0chain.net/smartcontract/faucetsc", "GlobalNode"},
	{"0chain.net/smartcontract/faucetsc", "UserNode"},
	{"0chain.net/smartcontract/multisigsc", "Wallet"},
	{"0chain.net/chaincore/node", "Pool"},
	{"0chain.net/chaincore/block", "MagicBlock"},
}

// versioned entities: wrapper type → (package, registered versions in order); the registration itself is re-read from
// the RegisterWrapper call and must agree.
var versioned = []struct {
	pkg, wrapper string
	versions     []string // struct type names, oldest first
}{
	{"0chain.net/smartcontract/storagesc", "StorageNode", []string{"storageNodeV1", "storageNodeV2", "storageNodeV3"}},
	{"0chain.net/smartcontract/storagesc", "StorageAllocation", []string{"storageAllocationV1", "storageAllocationV2"}},
	{"0chain.net/smartcontract/storagesc", "WriteMarker", []string{"writeMarkerV1", "writeMarkerV2"}},
}

// fields the msgp generator skips because it cannot express their type, accepted here because they are derived
// (recomputed after decoding) — "pkg.Type.Field": reason
var knownSkipped = map[string]string{}

// ---- loading -----------------------------------------------------------------------------------------------------

var (
	fset    *token.FileSet
	byPath  = map[string]*packages.Package{}
	problem []string
)

type failure string

func fail(format string, a ...interface{}) {
	panic(failure(fmt.Sprintf(format, a...)))
}

func load(gosrc string, paths []string) {
	cfg := &packages.Config{
		Mode: packages.NeedName | packages.NeedFiles | packages.NeedSyntax | packages.NeedTypes | packages.NeedTypesInfo |
			packages.NeedImports | packages.NeedDeps | packages.NeedModule,
		Dir: gosrc,
		Env: append(os.Environ(), "GOFLAGS=-mod=mod", "GOPROXY=off", "GOSUMDB=off", "GOWORK=off", "GOTOOLCHAIN=local"),
	}
	pkgs, err := packages.Load(cfg, paths...)
	if err != nil {
		fail("load: %v", err)
	}
	fset = nil
	packages.Visit(pkgs, nil, func(p *packages.Package) {
		byPath[p.PkgPath] = p
		if fset == nil {
			fset = p.Fset
		}
	})
	for _, p := range pkgs {
		for _, e := range p.Errors {
			// cgo packages of dependencies (rocksdb, bls) do not type-check from source; the packages we read must
			if strings.HasPrefix(p.PkgPath, "0chain.net/smartcontract") || strings.HasPrefix(p.PkgPath, "0chain.net/chaincore/block") {
				if !strings.Contains(e.Msg, "could not import") && !strings.Contains(e.Msg, "cgo") {
					fmt.Fprintf(os.Stderr, "xc08: warning: %s: %s\n", p.PkgPath, e.Msg)
				}
			}
		}
	}
}

// ---- finding declarations ----------------------------------------------------------------------------------------

type declInfo struct {
	pkg        *packages.Package
	file       *ast.File
	spec       *ast.TypeSpec
	unexported bool // the declaring file's go:generate msgp line carries -unexported
}

var declCache = map[*types.TypeName]*declInfo{}

func declOf(obj *types.TypeName) *declInfo {
	if d, ok := declCache[obj]; ok {
		return d
	}
	if obj.Pkg() == nil {
		return nil
	}
	p := byPath[obj.Pkg().Path()]
	if p == nil {
		return nil
	}
	for _, f := range p.Syntax {
		for _, d := range f.Decls {
			gd, ok := d.(*ast.GenDecl)
			if !ok || gd.Tok != token.TYPE {
				continue
			}
			for _, s := range gd.Specs {
				ts := s.(*ast.TypeSpec)
				if p.TypesInfo.Defs[ts.Name] == obj {
					di := &declInfo{pkg: p, file: f, spec: ts}
					for _, cg := range f.Comments {
						for _, c := range cg.List {
							if strings.HasPrefix(c.Text, "//go:generate msgp") && strings.Contains(c.Text, "-unexported") && !strings.Contains(c.Text, "-unexported=false") {
								di.unexported = true
							}
						}
					}
					declCache[obj] = di
					return di
				}
			}
		}
	}
	return nil
}

// marshalKind: where does (*T).MarshalMsg come from: "gen" (a *_gen.go file), "hand" (another file), "none".
func marshalKind(obj *types.TypeName) string {
	named, ok := obj.Type().(*types.Named)
	if !ok {
		return "none"
	}
	ms := types.NewMethodSet(types.NewPointer(named))
	for i := 0; i < ms.Len(); i++ {
		m := ms.At(i)
		if m.Obj().Name() != "MarshalMsg" {
			continue
		}
		// a promoted method (embedded Wrapper) counts as hand-written: the type has no encoding of its own
		if len(m.Index()) > 1 {
			return "hand"
		}
		file := fset.Position(m.Obj().Pos()).Filename
		if strings.HasSuffix(file, "_gen.go") {
			return "gen"
		}
		return "hand"
	}
	return "none"
}

// ---- derivation ----------------------------------------------------------------------------------------------------

type ctx struct {
	pkg        *packages.Package
	unexported bool
	path       string // for messages
}

var inProgress = map[*types.TypeName]bool{}

func basicTy(b *types.Basic, where string) *Ty {
	switch b.Kind() {
	case types.Int, types.Int8, types.Int16, types.Int32, types.Int64:
		return &Ty{K: "int"}
	case types.Uint, types.Uint8, types.Uint16, types.Uint32, types.Uint64:
		return &Ty{K: "uint"}
	case types.Bool:
		return &Ty{K: "bool"}
	case types.String:
		return &Ty{K: "str"}
	case types.Float64:
		return &Ty{K: "f64"}
	case types.Float32:
		return &Ty{K: "f32"}
	}
	fail("%s: basic type %s has no msgp encoding modelled", where, b)
	return nil
}

// ofExpr: the generator's parseExpr on a type expression; nil = the generator cannot express it (field skipped).
func ofExpr(c ctx, e ast.Expr) *Ty {
	switch x := e.(type) {
	case *ast.ParenExpr:
		return ofExpr(c, x.X)
	case *ast.MapType:
		if k, ok := x.Key.(*ast.Ident); !ok || k.Name != "string" {
			return nil
		}
		in := ofExpr(c, x.Value)
		if in == nil {
			return nil
		}
		return &Ty{K: "map", E: in}
	case *ast.ArrayType:
		if x.Len == nil {
			if i, ok := x.Elt.(*ast.Ident); ok && i.Name == "byte" {
				return &Ty{K: "bin"}
			}
		}
		el := ofExpr(c, x.Elt)
		if el == nil {
			return nil
		}
		if x.Len != nil {
			tv, ok := c.pkg.TypesInfo.Types[x.Len]
			if !ok || tv.Value == nil {
				fail("%s: array length is not a constant", c.path)
			}
			n := 0
			fmt.Sscan(tv.Value.ExactString(), &n)
			return &Ty{K: "farr", E: el, N: n}
		}
		return &Ty{K: "arr", E: el}
	case *ast.StarExpr:
		in := ofExpr(c, x.X)
		if in == nil {
			return nil
		}
		return &Ty{K: "ptr", E: in}
	case *ast.StructType:
		return structTy(c, x, "")
	case *ast.InterfaceType:
		if x.Methods == nil || len(x.Methods.List) == 0 {
			fail("%s: interface{} field: msgp encodes it with AppendIntf (map order unspecified) — not modelled", c.path)
		}
		return nil
	case *ast.Ident, *ast.SelectorExpr:
		var id *ast.Ident
		if s, ok := x.(*ast.SelectorExpr); ok {
			id = s.Sel
		} else {
			id = x.(*ast.Ident)
		}
		obj := c.pkg.TypesInfo.Uses[id]
		if obj == nil {
			obj = c.pkg.TypesInfo.Defs[id]
		}
		tn, ok := obj.(*types.TypeName)
		if !ok {
			fail("%s: %s does not name a type", c.path, id.Name)
		}
		return ofTypeName(c, tn)
	case *ast.FuncType, *ast.ChanType:
		return nil
	case *ast.IndexExpr, *ast.IndexListExpr:
		fail("%s: generic type instantiation not modelled", c.path)
	}
	fail("%s: unsupported type expression %T", c.path, e)
	return nil
}

func ofTypeName(c ctx, tn *types.TypeName) *Ty {
	full := tn.Name()
	if tn.Pkg() != nil {
		full = tn.Pkg().Path() + "." + tn.Name()
	}
	switch full {
	case "time.Time":
		return &Ty{K: "time"}
	case "time.Duration":
		return &Ty{K: "int", Named: full}
	}
	if tn.IsAlias() {
		// an alias is transparent to go/types; to the generator it is an identifier it resolves to the aliased type's
		// methods — same thing
		switch u := tn.Type().(type) {
		case *types.Basic:
			return basicTy(u, c.path)
		case *types.Named:
			return ofTypeName(c, u.Obj())
		}
		fail("%s: alias %s of %s not modelled", c.path, full, tn.Type())
	}
	if b, ok := tn.Type().(*types.Basic); ok { // predeclared
		if b.Name() == "byte" {
			return &Ty{K: "uint"}
		}
		return basicTy(b, c.path)
	}
	named, ok := tn.Type().(*types.Named)
	if !ok {
		fail("%s: %s is not a named type", c.path, full)
	}
	mk := marshalKind(tn)
	if mk == "hand" {
		if t := handWritten(c, tn, full); t != nil {
			return t
		}
		fail("%s: %s has a hand-written MarshalMsg that is not modelled", c.path, full)
	}
	d := declOf(tn)
	if d == nil {
		// a named type of a dependency whose syntax we did not load: accept basic underlying types only
		if b, ok := named.Underlying().(*types.Basic); ok && mk != "hand" {
			t := basicTy(b, c.path)
			t.Named = full
			return t
		}
		fail("%s: declaration of %s not found", c.path, full)
	}
	if mk == "none" {
		// the generated code of the USER of this type either inlines a cast (local type with a basic underlying type)
		// or would not compile; accept basic underlying types only
		if b, ok := named.Underlying().(*types.Basic); ok {
			t := basicTy(b, c.path)
			t.Named = full
			return t
		}
		if _, isStruct := named.Underlying().(*types.Struct); isStruct && d.pkg == c.pkg {
			// a local struct type the generator was told to ignore, or that is inlined: it is inlined field by field
		} else {
			fail("%s: %s has no MarshalMsg and is not a basic type", c.path, full)
		}
	}
	if inProgress[tn] {
		fail("%s: recursive type %s not modelled", c.path, full)
	}
	inProgress[tn] = true
	defer delete(inProgress, tn)
	c2 := ctx{pkg: d.pkg, unexported: d.unexported, path: full}
	var t *Ty
	if st, ok := d.spec.Type.(*ast.StructType); ok {
		t = structTy(c2, st, full)
	} else if st := convertedStruct(d); st != nil {
		// `type X Y` with Y a struct type: X has Y's fields and none of its methods
		t = structTy(c2, st, full)
	} else {
		t = ofExpr(c2, d.spec.Type)
		if t == nil {
			fail("%s: the generator cannot express the definition of %s", c.path, full)
		}
	}
	cp := *t
	cp.Named = full
	return &cp
}

// convertedStruct: for `type X Y` (Y a named struct type) the struct definition of Y.
func convertedStruct(d *declInfo) *ast.StructType {
	var id *ast.Ident
	switch x := d.spec.Type.(type) {
	case *ast.Ident:
		id = x
	case *ast.SelectorExpr:
		id = x.Sel
	default:
		return nil
	}
	tn, ok := d.pkg.TypesInfo.Uses[id].(*types.TypeName)
	if !ok || tn.IsAlias() {
		return nil
	}
	if _, ok := tn.Type().Underlying().(*types.Struct); !ok {
		return nil
	}
	d2 := declOf(tn)
	if d2 == nil {
		return nil
	}
	if st, ok := d2.spec.Type.(*ast.StructType); ok {
		return st
	}
	return convertedStruct(d2)
}

// handWritten: the two hand-written MarshalMsg shapes that are modelled.
//  1. the delegate  `d := T2(*recv); return d.MarshalMsg(o)`  (Partitions, AllocationChallenges, node.Pool): the bytes are T2's;
//  2. a struct embedding entitywrapper.Wrapper: the bytes are those of the current version's struct → union of the versions.
func handWritten(c ctx, tn *types.TypeName, full string) *Ty {
	p := byPath[tn.Pkg().Path()]
	if p == nil {
		return nil
	}
	for _, v := range versioned {
		if v.pkg == tn.Pkg().Path() && v.wrapper == tn.Name() {
			st, ok := tn.Type().Underlying().(*types.Struct)
			if !ok || st.NumFields() != 1 || !st.Field(0).Embedded() || st.Field(0).Type().String() != "0chain.net/core/util/entitywrapper.Wrapper" {
				fail("%s: %s is listed as an entity wrapper but is not `struct{ entitywrapper.Wrapper }`", c.path, full)
			}
			u := &Ty{K: "union", Named: full}
			reg := registered(p, v.wrapper)
			for i, vn := range v.versions {
				ver := fmt.Sprintf("v%d", i+1)
				if reg[ver] != vn {
					fail("%s: version %s is registered as %q, expected %s", full, ver, reg[ver], vn)
				}
				obj, ok := p.Types.Scope().Lookup(vn).(*types.TypeName)
				if !ok {
					fail("%s: version struct %s not found", full, vn)
				}
				vt := ofTypeName(c, obj)
				// the version string written by InitVersion must be the registered key (v1 has no version field)
				hasVer := false
				for _, f := range vt.Fields {
					if f.Msg == "version" {
						hasVer = true
						if f.T.K != "str" {
							fail("%s: version field of %s is not a string", full, vn)
						}
					}
				}
				if hasVer == (i == 0) {
					fail("%s: %s: only versions after the first carry a `version` key", full, vn)
				}
				if i > 0 {
					iv := funcDecl(p, vn, "InitVersion")
					if iv == nil || len(iv.Body.List) != 1 {
						fail("%s: %s.InitVersion is not a single assignment", full, vn)
					}
					as, ok := iv.Body.List[0].(*ast.AssignStmt)
					if !ok || len(as.Rhs) != 1 {
						fail("%s: %s.InitVersion is not a single assignment", full, vn)
					}
					tv := p.TypesInfo.Types[as.Rhs[0]]
					if tv.Value == nil || strings.Trim(tv.Value.ExactString(), `"`) != ver {
						fail("%s: %s.InitVersion does not set the registered version %q", full, vn, ver)
					}
				}
				u.Fields = append(u.Fields, &Field{Msg: ver, Go: vn, T: vt})
			}
			return u
		}
	}
	fd := funcDecl(p, tn.Name(), "MarshalMsg")
	if fd == nil || fd.Body == nil || len(fd.Body.List) != 2 || len(fd.Recv.List[0].Names) != 1 {
		return nil
	}
	rn := fd.Recv.List[0].Names[0].Name
	as, ok1 := fd.Body.List[0].(*ast.AssignStmt)
	rt, ok2 := fd.Body.List[1].(*ast.ReturnStmt)
	if !ok1 || !ok2 || len(as.Lhs) != 1 || len(as.Rhs) != 1 || len(rt.Results) != 1 {
		return nil
	}
	conv, ok := as.Rhs[0].(*ast.CallExpr)
	if !ok || len(conv.Args) != 1 {
		return nil
	}
	if st, ok := conv.Args[0].(*ast.StarExpr); !ok || embeddedName(st.X) != rn {
		return nil
	}
	id, ok := conv.Fun.(*ast.Ident)
	if !ok {
		return nil
	}
	t2, ok := p.TypesInfo.Uses[id].(*types.TypeName)
	if !ok {
		return nil
	}
	call, ok := rt.Results[0].(*ast.CallExpr)
	if !ok {
		return nil
	}
	sel, ok := call.Fun.(*ast.SelectorExpr)
	if !ok || sel.Sel.Name != "MarshalMsg" || embeddedName(sel.X) != embeddedName(as.Lhs[0]) {
		return nil
	}
	t := ofTypeName(c, t2)
	cp := *t
	cp.Named = full + " (as " + t2.Name() + ")"
	// the decoding side: `d := &T2{}; d.UnmarshalMsg(b); …` — which fields of d reach the receiver?
	if cp.K == "struct" {
		all, kept := restoredFields(p, tn.Name(), t2.Name())
		if !all {
			cp.K = "pstruct"
			cp.Keep = []string{}
			for _, f := range cp.Fields {
				for _, k := range kept {
					if k == f.Go {
						cp.Keep = append(cp.Keep, f.Msg)
					}
				}
			}
		}
	}
	return &cp
}

// restoredFields: in the hand-written (*recv).UnmarshalMsg, either `*recv = T(*d)` (everything) or the list of
// `recv.F = d.F` assignments.
func restoredFields(p *packages.Package, recv, helper string) (all bool, kept []string) {
	fd := funcDecl(p, recv, "UnmarshalMsg")
	if fd == nil || fd.Body == nil || len(fd.Recv.List[0].Names) != 1 {
		fail("%s: hand-written MarshalMsg without a readable UnmarshalMsg", recv)
	}
	rn := fd.Recv.List[0].Names[0].Name
	ast.Inspect(fd.Body, func(n ast.Node) bool {
		as, ok := n.(*ast.AssignStmt)
		if !ok || len(as.Lhs) != 1 || len(as.Rhs) != 1 {
			return true
		}
		if st, ok := as.Lhs[0].(*ast.StarExpr); ok && embeddedName(st.X) == rn {
			if c, ok := as.Rhs[0].(*ast.CallExpr); ok && len(c.Args) == 1 && embeddedName(c.Fun) == recv {
				all = true
			}
		}
		if l, ok := as.Lhs[0].(*ast.SelectorExpr); ok && embeddedName(l.X) == rn {
			if r, ok := as.Rhs[0].(*ast.SelectorExpr); ok && r.Sel.Name == l.Sel.Name {
				kept = append(kept, l.Sel.Name)
			}
		}
		return true
	})
	_ = helper
	return
}

func embeddedName(e ast.Expr) string {
	switch x := e.(type) {
	case *ast.Ident:
		return x.Name
	case *ast.StarExpr:
		return embeddedName(x.X)
	case *ast.SelectorExpr:
		return x.Sel.Name
	}
	return ""
}

func structTy(c ctx, st *ast.StructType, owner string) *Ty {
	t := &Ty{K: "struct"}
	for _, f := range st.Fields.List {
		tag := ""
		if f.Tag != nil {
			raw := strings.Trim(f.Tag.Value, "`")
			body := reflect.StructTag(raw).Get("msg")
			if body == "" {
				body = reflect.StructTag(raw).Get("msgpack")
			}
			parts := strings.Split(body, ",")
			if len(parts) >= 2 {
				fail("%s: msg tag option %q not modelled", c.path, body)
			}
			tag = parts[0]
		}
		if tag == "-" {
			continue
		}
		var names []string
		if len(f.Names) == 0 {
			names = []string{embeddedName(f.Type)}
		} else {
			for _, n := range f.Names {
				names = append(names, n.Name)
			}
		}
		for _, n := range names {
			if !ast.IsExported(n) && !c.unexported {
				continue // ast.FileExports removed it before the generator looked
			}
			c3 := c
			c3.path = c.path + "." + n
			ft := ofExpr(c3, f.Type)
			if ft == nil {
				key := c.path + "." + n
				if _, ok := knownSkipped[key]; ok {
					continue
				}
				fail("%s: the msgp generator silently skips this field (its type cannot be expressed): a stored field that is never encoded", key)
			}
			msg := tag
			if msg == "" || len(names) > 1 {
				msg = n
			}
			for _, ch := range msg {
				if ch > 126 || ch < 33 {
					fail("%s: field key %q is not printable ASCII (the model takes keys as ASCII bytes)", c.path, msg)
				}
			}
			t.Fields = append(t.Fields, &Field{Msg: msg, Go: n, T: ft})
		}
	}
	seen := map[string]bool{}
	for _, f := range t.Fields {
		if seen[f.Msg] {
			fail("%s: two fields encode under the key %q", c.path, f.Msg)
		}
		seen[f.Msg] = true
	}
	return t
}

// ---- migrations ------------------------------------------------------------------------------------------------------

type migration struct {
	From, To string
	Copied   []string // Go field names assigned from the prior version (directly or through ApplyBaseChanges)
	SetsVer  string
}

func funcDecl(p *packages.Package, recv, name string) *ast.FuncDecl {
	for _, f := range p.Syntax {
		for _, d := range f.Decls {
			fd, ok := d.(*ast.FuncDecl)
			if !ok || fd.Name.Name != name || fd.Recv == nil || len(fd.Recv.List) != 1 {
				continue
			}
			if embeddedName(fd.Recv.List[0].Type) == recv {
				return fd
			}
		}
	}
	return nil
}

// copiedFields: `recv.F = x.F` assignments in the body of method `name` of `recv`, following one level of
// `recv.ApplyBaseChanges(...)`.
func copiedFields(p *packages.Package, recv, name string, depth int) (fields []string, ver string) {
	fd := funcDecl(p, recv, name)
	if fd == nil {
		fail("method %s.%s not found", recv, name)
	}
	rn := ""
	if len(fd.Recv.List[0].Names) == 1 {
		rn = fd.Recv.List[0].Names[0].Name
	}
	ast.Inspect(fd.Body, func(n ast.Node) bool {
		switch x := n.(type) {
		case *ast.AssignStmt:
			if len(x.Lhs) != 1 || len(x.Rhs) != 1 {
				return true
			}
			l, ok := x.Lhs[0].(*ast.SelectorExpr)
			if !ok {
				return true
			}
			if id, ok := l.X.(*ast.Ident); !ok || id.Name != rn {
				return true
			}
			switch r := x.Rhs[0].(type) {
			case *ast.SelectorExpr:
				if r.Sel.Name == l.Sel.Name {
					fields = append(fields, l.Sel.Name)
				}
			case *ast.BasicLit:
				if l.Sel.Name == "Version" {
					ver = strings.Trim(r.Value, `"`)
				}
			case *ast.Ident:
				if l.Sel.Name == "Version" {
					if o, ok := p.TypesInfo.Uses[r].(*types.Const); ok {
						ver = strings.Trim(o.Val().ExactString(), `"`)
					}
				}
			}
		case *ast.CallExpr:
			if s, ok := x.Fun.(*ast.SelectorExpr); ok && depth == 0 {
				if id, ok := s.X.(*ast.Ident); ok && id.Name == rn && s.Sel.Name == "ApplyBaseChanges" {
					fs, _ := copiedFields(p, recv, "ApplyBaseChanges", 1)
					fields = append(fields, fs...)
				}
			}
		}
		return true
	})
	return
}

// registered: the version map of the RegisterWrapper(&wrapper{}, map[string]EntityI{…}) call.
func registered(p *packages.Package, wrapper string) map[string]string {
	out := map[string]string{}
	for _, f := range p.Syntax {
		ast.Inspect(f, func(n ast.Node) bool {
			c, ok := n.(*ast.CallExpr)
			if !ok || len(c.Args) != 2 {
				return true
			}
			s, ok := c.Fun.(*ast.SelectorExpr)
			if !ok || s.Sel.Name != "RegisterWrapper" {
				return true
			}
			u, ok := c.Args[0].(*ast.UnaryExpr)
			if !ok {
				return true
			}
			cl, ok := u.X.(*ast.CompositeLit)
			if !ok || embeddedName(cl.Type) != wrapper {
				return true
			}
			m, ok := c.Args[1].(*ast.CompositeLit)
			if !ok {
				fail("RegisterWrapper(%s): version map is not a literal", wrapper)
			}
			for _, el := range m.Elts {
				kv := el.(*ast.KeyValueExpr)
				tv := p.TypesInfo.Types[kv.Key]
				if tv.Value == nil {
					fail("RegisterWrapper(%s): version key is not a constant", wrapper)
				}
				ver := strings.Trim(tv.Value.ExactString(), `"`)
				vu, ok := kv.Value.(*ast.UnaryExpr)
				if !ok {
					fail("RegisterWrapper(%s): version value is not &T{}", wrapper)
				}
				out[ver] = embeddedName(vu.X.(*ast.CompositeLit).Type)
			}
			return true
		})
	}
	return out
}

// ---- output ------------------------------------------------------------------------------------------------------

func leanTy(t *Ty, ind string) string {
	switch t.K {
	case "int", "uint", "bool", "str", "bin", "f64", "f32", "time":
		return "." + t.K
	case "arr", "map", "ptr":
		return "(." + t.K + " " + leanTy(t.E, ind) + ")"
	case "farr":
		return fmt.Sprintf("(.farr %d %s)", t.N, leanTy(t.E, ind))
	case "struct", "union", "pstruct":
		mk := "mkStruct"
		if t.K == "union" {
			mk = "mkUnion"
		}
		if t.K == "pstruct" {
			q := make([]string, len(t.Keep))
			for i, k := range t.Keep {
				q[i] = fmt.Sprintf("%q", k)
			}
			mk = "mkPStruct [" + strings.Join(q, ", ") + "]"
		}
		if len(t.Fields) == 0 {
			return "(" + mk + " [])"
		}
		var b strings.Builder
		b.WriteString("(" + mk + " [")
		for i, f := range t.Fields {
			if i > 0 {
				b.WriteString(",")
			}
			b.WriteString("\n" + ind + "  (" + fmt.Sprintf("%q", f.Msg) + ", " + leanTy(f.T, ind+"  ") + ")")
		}
		b.WriteString("])")
		return b.String()
	}
	fail("leanTy: kind %s", t.K)
	return ""
}

func leanName(r root) string {
	return filepath.Base(r.pkg) + "." + r.name
}

func main() {
	defer func() {
		if x := recover(); x != nil {
			if f, ok := x.(failure); ok {
				fmt.Fprintln(os.Stderr, "xc08:", string(f))
				os.Exit(1)
			}
			panic(x)
		}
	}()
	if len(os.Args) != 3 {
		fmt.Fprintln(os.Stderr, "usage: xc08 <gosrc> <out.lean>")
		os.Exit(2)
	}
	gosrc, out := os.Args[1], os.Args[2]
	pset := map[string]bool{}
	for _, r := range roots {
		pset[r.pkg] = true
	}
	var paths []string
	for p := range pset {
		paths = append(paths, p)
	}
	sort.Strings(paths)
	load(gosrc, paths)

	schemas := map[string]*Ty{}
	var order []string
	kinds := map[string]int{}
	var count func(t *Ty)
	count = func(t *Ty) {
		kinds[t.K]++
		if t.E != nil {
			count(t.E)
		}
		for _, f := range t.Fields {
			count(f.T)
		}
	}
	for _, r := range roots {
		func() {
			defer func() {
				if x := recover(); x != nil {
					f, ok := x.(failure)
					if !ok {
						panic(x)
					}
					problem = append(problem, string(f))
					for k := range inProgress {
						delete(inProgress, k)
					}
				}
			}()
			p := byPath[r.pkg]
			if p == nil {
				fail("package %s not loaded", r.pkg)
			}
			obj, ok := p.Types.Scope().Lookup(r.name).(*types.TypeName)
			if !ok {
				fail("%s.%s: no such type", r.pkg, r.name)
			}
			t := ofTypeName(ctx{pkg: p, path: leanName(r)}, obj)
			schemas[leanName(r)] = t
			order = append(order, leanName(r))
			count(t)
		}()
	}
	if len(problem) > 0 {
		for _, p := range problem {
			fmt.Fprintln(os.Stderr, "xc08:", p)
		}
		os.Exit(1)
	}

	var migs []migration
	type verEntry struct{ Wrapper, Version, Type string }
	var vers []verEntry
	for _, v := range versioned {
		p := byPath[v.pkg]
		reg := registered(p, v.wrapper)
		if len(reg) != len(v.versions) {
			fail("%s: %d versions registered, %d expected (%v)", v.wrapper, len(reg), len(v.versions), reg)
		}
		for i, tn := range v.versions {
			ver := fmt.Sprintf("v%d", i+1)
			if reg[ver] != tn {
				fail("%s: version %s is registered as %s, expected %s", v.wrapper, ver, reg[ver], tn)
			}
			vers = append(vers, verEntry{v.wrapper, ver, filepath.Base(v.pkg) + "." + tn})
			if i == 0 {
				continue
			}
			fs, sv := copiedFields(p, tn, "MigrateFrom", 0)
			migs = append(migs, migration{From: filepath.Base(v.pkg) + "." + v.versions[i-1], To: filepath.Base(v.pkg) + "." + tn, Copied: fs, SetsVer: sv})
		}
	}

	// Lean
	var b strings.Builder
	b.WriteString("import ZChain.Model.Codec\n")
	b.WriteString("/-! GENERATED by harness/cmd/xc08 from the Go struct definitions and `msg:` tags — do not edit.\nRegenerated on every `./check C08`. -/\n")
	b.WriteString("namespace ZChain.Codec.Gen\nopen ZChain.Codec\n\n")
	for _, n := range order {
		id := strings.ReplaceAll(n, ".", "_")
		fmt.Fprintf(&b, "def %s : Ty := %s\n\n", id, leanTy(schemas[n], ""))
	}
	b.WriteString("def schemas : List (String × Ty) := [\n")
	for i, n := range order {
		sep := ","
		if i == len(order)-1 {
			sep = ""
		}
		fmt.Fprintf(&b, "  (%q, %s)%s\n", n, strings.ReplaceAll(n, ".", "_"), sep)
	}
	b.WriteString("]\n\n/-- registered versions of the entity-wrapper types: (wrapper, version string, schema name) -/\n")
	b.WriteString("def versions : List (String × String × String) := [\n")
	for i, v := range vers {
		sep := ","
		if i == len(vers)-1 {
			sep = ""
		}
		fmt.Fprintf(&b, "  (%q, %q, %q)%s\n", v.Wrapper, v.Version, v.Type, sep)
	}
	b.WriteString("]\n\n/-- migrations: (from schema, to schema, Go fields copied by MigrateFrom/ApplyBaseChanges, version string it sets) -/\n")
	b.WriteString("def migrations : List (String × String × List String × String) := [\n")
	for i, m := range migs {
		sep := ","
		if i == len(migs)-1 {
			sep = ""
		}
		q := make([]string, len(m.Copied))
		for j, f := range m.Copied {
			q[j] = fmt.Sprintf("%q", f)
		}
		fmt.Fprintf(&b, "  (%q, %q, [%s], %q)%s\n", m.From, m.To, strings.Join(q, ", "), m.SetsVer, sep)
	}
	b.WriteString("]\n\n/-- msg key ↦ Go field name of the top-level fields of every schema (migrations are written in Go field names) -/\n")
	b.WriteString("def goNames : List (String × List (String × String)) := [\n")
	for i, n := range order {
		sep := ","
		if i == len(order)-1 {
			sep = ""
		}
		var q []string
		for _, f := range schemas[n].Fields {
			q = append(q, fmt.Sprintf("(%q, %q)", f.Msg, f.Go))
		}
		fmt.Fprintf(&b, "  (%q, [%s])%s\n", n, strings.Join(q, ", "), sep)
	}
	b.WriteString("]\n\nend ZChain.Codec.Gen\n")
	if err := os.WriteFile(out, []byte(b.String()), 0o644); err != nil {
		fail("%v", err)
	}
	side := map[string]interface{}{"schemas": schemas, "order": order, "versions": vers, "migrations": migs}
	js, _ := json.MarshalIndent(side, "", " ")
	if err := os.WriteFile(out+".json", js, 0o644); err != nil {
		fail("%v", err)
	}
	var ks []string
	for k, n := range kinds {
		ks = append(ks, fmt.Sprintf("%s=%d", k, n))
	}
	sort.Strings(ks)
	fmt.Printf("schemas=%d versions=%d migrations=%d\n", len(order), len(vers), len(migs))
	fmt.Printf("node kinds: %s\n", strings.Join(ks, " "))
}
