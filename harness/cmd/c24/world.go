// C24 harness, world.go: identities with REAL bls0chain keys, deterministic blocks on the real engine
// (harness/lib/engine: real Chain.UpdateState, real storagesc, real MPT), transaction execution and the
// read-only observation of the nodes commitBlobberRead touches (hook harness/hooks/storagesc_c15.go).
package main

import (
	"bytes"
	"encoding/hex"
	"encoding/json"
	"fmt"
	"os"
	"sync"

	"0chain.net/chaincore/block"
	cstate "0chain.net/chaincore/chain/state"
	"0chain.net/chaincore/transaction"
	"0chain.net/core/common"
	"0chain.net/core/encryption"
	"0chain.net/smartcontract/storagesc"
	"github.com/0chain/common/core/currency"
	"github.com/0chain/common/core/statecache"
	"github.com/herumi/bls-go-binary/bls"
	"verifharness/lib/engine"
)

type actor struct {
	engine.Client
	sk *encryption.BLS0ChainScheme
}

var debug = os.Getenv("C24_DEBUG") != ""

var (
	actorMu  sync.Mutex
	actorMem = map[string]*actor{}
)

// newActor: a deterministic REAL bls0chain key pair; the client id is the hash of the public key bytes
// (what ReadMarker.VerifyClientID recomputes).
func newActor(tag string) *actor {
	actorMu.Lock()
	defer actorMu.Unlock()
	if a, ok := actorMem[tag]; ok {
		return a
	}
	seed, _ := hex.DecodeString(encryption.Hash("verif-c24-sk:" + tag))
	var sk bls.SecretKey
	if err := sk.SetLittleEndianMod(seed); err != nil {
		panic(err)
	}
	pub := sk.GetPublicKey().Serialize()
	s := encryption.NewBLS0ChainScheme()
	if err := s.ReadKeys(bytes.NewBufferString(hex.EncodeToString(pub) + "\n" + hex.EncodeToString(sk.GetLittleEndian()) + "\n")); err != nil {
		panic(err)
	}
	a := &actor{Client: engine.Client{ID: encryption.Hash(pub), PublicKey: hex.EncodeToString(pub)}, sk: s}
	actorMem[tag] = a
	return a
}

func (a *actor) sign(hashHex string) string {
	s, err := a.sk.Sign(hashHex)
	if err != nil {
		panic(err)
	}
	return s
}

const scOwnerID = "1746b06bb09f55ee01b33b5e2e055d6cc7a900cb57c0a3a5eaabb8a0e7745802" // storagesc owner_id of the repo's sc.yaml

const (
	nBlobbers  = 3
	nClients   = 4
	nAssigners = 3
	startNow   = 1700000000
)

type world struct {
	w        *engine.World
	tag      string
	hist     string
	nonce    map[string]int64
	blob     [nBlobbers]*actor
	cli      [nClients]*actor
	asg      [nAssigners]*actor
	owner    *actor
	allocs   []string // ids (txn hashes) of the allocations created by successful grants
	lastHash string
}

// clientFunds: every client's wallet at genesis.
const clientFunds = 1000000e10

// freeSettings: the free-allocation settings every case runs with (stored at genesis through the hook): 1 data + 1
// parity shard, 10 MB, read price 0, write price ≤ 1 ZCN/GB; the read-pool fraction is the case's own.
const (
	freeData, freeParity = 1, 1
	freeSize             = 10000000
	freeWriteMax         = 10000000000
	blobberWritePrice    = 1000000000
)

func newWorld(tag string, readFraction float64, ownerFunds uint64) (*world, error) {
	engine.Setup()
	x := &world{tag: tag, nonce: map[string]int64{}}
	bal := map[string]currency.Coin{}
	for i := range x.blob {
		x.blob[i] = newActor(fmt.Sprintf("blobber-%d", i))
		bal[x.blob[i].ID] = 100e10
	}
	for i := range x.cli {
		x.cli[i] = newActor(fmt.Sprintf("client-%d", i))
		bal[x.cli[i].ID] = clientFunds
	}
	for i := range x.asg {
		x.asg[i] = newActor(fmt.Sprintf("assigner-%d", i))
	}
	x.owner = &actor{Client: engine.Client{ID: scOwnerID, PublicKey: newActor("sc-owner").PublicKey}}
	bal[scOwnerID] = currency.Coin(ownerFunds)
	w, err := engine.NewWorld(bal, func(sctx *cstate.StateContext) error {
		if err := storagesc.InitPartitions(sctx); err != nil {
			return err
		}
		if err := storagesc.InitConfig(sctx); err != nil {
			return err
		}
		if err := storagesc.VerifC24SetFreeSettings(sctx, freeData, freeParity, freeSize, readFraction, 0, freeWriteMax); err != nil {
			return err
		}
		for _, n := range []string{"demeter", "electra"} {
			if _, err := sctx.InsertTrieNode(cstate.NewHardFork(n, 0).GetKey(), cstate.NewHardFork(n, 0)); err != nil {
				return err
			}
		}
		return nil
	})
	if err != nil {
		return nil, err
	}
	x.w = w
	w.Now = startNow
	w.Round = 100
	x.reopenBlock()
	// three staked blobbers (read price 0, as the free settings demand)
	for i := range x.blob {
		in := map[string]interface{}{
			"url": fmt.Sprintf("http://blobber%d.c24.verif:5051", i), "capacity": int64(100) << 30,
			"terms": map[string]uint64{"read_price": 0, "write_price": blobberWritePrice},
			"stake_pool_settings": map[string]interface{}{"delegate_wallet": x.cli[0].ID, "num_delegates": 10, "service_charge": 0.1},
		}
		if r := x.exec(x.blob[i], "add_blobber", 0, in); r.status != "ok" {
			return nil, fmt.Errorf("add_blobber %d: %s", i, r.out)
		}
		if r := x.exec(x.cli[0], "stake_pool_lock", 1000000000000, map[string]interface{}{"provider_type": 3, "provider_id": x.blob[i].ID}); r.status != "ok" {
			return nil, fmt.Errorf("stake %d: %s", i, r.out)
		}
	}
	return x, nil
}

// reopenBlock replaces the current (still empty) block by one whose hash is a function of the case tag and of the
// history executed so far (the state cache is global and keyed by block hash; cases run concurrently).
func (x *world) reopenBlock() {
	w := x.w
	b := block.NewBlock("", w.Round)
	b.Hash = encryption.Hash(fmt.Sprintf("verif-c24-block|%s|%d|%s", x.tag, w.Round, encryption.Hash(x.hist)))
	b.PrevHash = w.Prev.Hash
	b.PrevBlock = w.Prev
	b.CreationDate = w.Now
	b.MinerID = engine.NewClient("miner0").ID
	b.RoundRandomSeed = int64(w.Round)*7919 + 13
	st := block.CreateStateWithPreviousBlock(w.Prev, w.NDB, w.Round)
	b.ClientState = st
	w.B = b
	w.State = st
	w.BC = statecache.NewBlockCache(w.C.GetStateCache(), statecache.Block{Round: b.Round, Hash: b.Hash, PrevHash: b.PrevHash})
}

func (x *world) nextBlock() {
	x.w.NextBlock()
	x.reopenBlock()
}

type txres struct {
	status string // ok | fail | rejected
	out    string
}

func (x *world) exec(from *actor, fn string, value uint64, input interface{}) txres {
	var in string
	switch v := input.(type) {
	case nil:
		in = ""
	case string:
		in = v
	default:
		b, err := json.Marshal(v)
		if err != nil {
			panic(err)
		}
		in = string(b)
	}
	n := x.nonce[from.ID] + 1
	t := x.w.Txn(from.Client, storagesc.ADDRESS, currency.Coin(value), 0, n, transaction.TxnTypeSmartContract, fn, in)
	x.lastHash = t.Hash
	_, err := x.w.Exec(t)
	if err != nil {
		if debug {
			fmt.Fprintf(os.Stderr, "  [%s rejected: %.300s]\n", fn, err.Error())
		}
		return txres{"rejected", err.Error()}
	}
	x.nonce[from.ID] = n
	if t.Status == transaction.TxnSuccess {
		return txres{"ok", t.TransactionOutput}
	}
	if debug {
		fmt.Fprintf(os.Stderr, "  [%s failed: %.300s]\n", fn, t.TransactionOutput)
	}
	return txres{"fail", t.TransactionOutput}
}

func (x *world) now() int64 { return int64(x.w.Now) }

func (x *world) tick(d int64) {
	x.w.Now += common.Timestamp(d)
	x.nextBlock()
}

// allocID: the real id of allocation k, or a well-formed id no allocation has.
func (x *world) allocID(k int) string {
	if k >= 0 && k < len(x.allocs) {
		return x.allocs[k]
	}
	return encryption.Hash(fmt.Sprintf("verif-c24-no-such-allocation-%d", k))
}
