// C24 harness, ops.go: the operations of a history, executed as REAL transactions on the real storagesc.
//
//   init <tag> <readFraction‰> <ownerFunds> <maxInd> <maxTot> <allocCost>
//        fresh world: 3 staked blobbers, free-allocation settings 1+1 shards / 10 MB / read-pool fraction n/1000 stored
//        at genesis, the contract owner's wallet funded with <ownerFunds>; <maxInd> <maxTot> are the configured caps and
//        <allocCost> the cost of a free allocation on two of the blobbers, all three checked against the real contract
//   addas <sender o|c<j>> <name k> <pk a<k>|c<j>|bad> <individual> <total>      add_free_storage_assigner (limits: decimals, in ZCN)
//   free <sender c<j>> <assigner k|x> <recipient j> <tokens> <nonce> <blobbers i,i|-> <signer a<k>|c<j>> <tamper> <tval>
//        free_allocation_request sent by <sender> with a marker {assigner, recipient, free_tokens, nonce, blobbers} signed
//        by <signer> over the marker string of those fields; afterwards <tamper> (none|tokens|nonce|recipient|blobbers|
//        assigner|sigbad|nosig) overwrites one field with <tval>
//   raw <kind>                                malformed inputs (array|badmarker|nomarker)
package main

import (
	"encoding/hex"
	"encoding/json"
	"fmt"
	"strconv"
	"strings"

	"0chain.net/core/encryption"
	"0chain.net/smartcontract/storagesc"
)

func atoi(s string) int {
	n, err := strconv.Atoi(s)
	if err != nil {
		return -1
	}
	return n
}

func isNat(s string) bool {
	if s == "" || len(s) > 20 {
		return false
	}
	for _, c := range s {
		if c < '0' || c > '9' {
			return false
		}
	}
	_, err := strconv.ParseUint(s, 10, 64)
	return err == nil
}

func isInt(s string) bool {
	_, err := strconv.ParseInt(s, 10, 64)
	return err == nil && !strings.HasPrefix(s, "+") && s != "-0"
}

func isIdx(s string, n int) bool { return isNat(s) && len(s) <= 3 && atoi(s) < n }

// isDec: a JSON number without exponent, at most 15 significant digits (see Model/FreeStorage.lean), not a negative zero.
func isDec(s string) bool {
	t := strings.TrimPrefix(s, "-")
	ip, fp, hasDot := strings.Cut(t, ".")
	if ip == "" || (hasDot && fp == "") || (len(ip) > 1 && ip[0] == '0') {
		return false
	}
	digits := ip + fp
	for _, c := range digits {
		if c < '0' || c > '9' {
			return false
		}
	}
	sig := strings.TrimLeft(digits, "0")
	if len(sig) > 15 || len(digits) > 40 {
		return false
	}
	if strings.HasPrefix(s, "-") && sig == "" {
		return false
	}
	return true
}

func isList(s string, n int) bool {
	if s == "-" {
		return true
	}
	for _, x := range strings.Split(s, ",") {
		if !isIdx(x, n) {
			return false
		}
	}
	return true
}

func isSigner(s string) bool {
	return len(s) >= 2 && ((s[0] == 'a' && isIdx(s[1:], nAssigners)) || (s[0] == 'c' && isIdx(s[1:], nClients)))
}

func (x *world) key(s string) *actor {
	if s[0] == 'a' {
		return x.asg[atoi(s[1:])]
	}
	return x.cli[atoi(s[1:])]
}

var tampers = map[string]bool{"none": true, "tokens": true, "nonce": true, "recipient": true, "blobbers": true, "assigner": true, "sigbad": true, "nosig": true}

func wellFormed(op []string) bool {
	a := op[1:]
	n := len(a)
	switch op[0] {
	case "addas":
		return n == 5 && (a[0] == "o" || (a[0][0] == 'c' && isIdx(a[0][1:], nClients))) && isIdx(a[1], nAssigners) &&
			(isSigner(a[2]) || a[2] == "bad") && isDec(a[3]) && isDec(a[4])
	case "free":
		if n != 9 || !(len(a[0]) >= 2 && a[0][0] == 'c' && isIdx(a[0][1:], nClients)) || !(a[1] == "x" || isIdx(a[1], nAssigners)) ||
			!isIdx(a[2], nClients) || !isDec(a[3]) || !isInt(a[4]) || !isList(a[5], 9) || !isSigner(a[6]) || !tampers[a[7]] {
			return false
		}
		switch a[7] {
		case "tokens":
			return isDec(a[8])
		case "nonce":
			return isInt(a[8])
		case "recipient":
			return isIdx(a[8], nClients)
		case "blobbers":
			return isList(a[8], 9)
		case "assigner":
			return a[8] == "x" || isIdx(a[8], nAssigners)
		}
		return a[8] == "0"
	case "raw":
		return n == 1 && (a[0] == "array" || a[0] == "badmarker" || a[0] == "nomarker")
	}
	return false
}

func class(r txres) string {
	if r.status == "ok" {
		return "ok"
	}
	if r.status == "rejected" {
		return "rejected"
	}
	o := r.out
	for _, p := range [][2]string{
		{"unmarshal input", "malformed"}, {"unmarshal request", "malformed"},
		{"marker can be used only by its recipient", "recipient"}, {"error getting assigner details", "no-assigner"},
		{"negative coin value", "amount"}, {"too many decimal places", "amount"}, {"value is too large", "amount"},
		{"exceeded total permitted free storage limit", "total"}, {"exceeded permitted free storage", "individual"},
		{"marker already redeemed", "nonce"}, {"marker verification failed", "sig"},
		{"Not enough provided blobbers", "blobbers"}, {"get blobbers failed", "blobbers"}, {"invalid request", "blobbers"},
		{"blobbers provided are not enough", "blobbers"}, {"missing blobber's stake pool", "blobbers"},
		{"lock amount is greater than balance", "owner-balance"}, {"no tokens to lock", "owner-balance"},
		{"not enough tokens to honor the allocation cost", "funding"},
		{"unauthorized access", "unauthorized"}, {"total tokens limit", "max-total"}, {"individual allocation token limit", "max-individual"},
		{"can't convert", "limit-conv"},
	} {
		if strings.Contains(o, p[0]) {
			return p[1]
		}
	}
	return "fail:" + strings.ReplaceAll(fmt.Sprintf("%.90s", o), " ", "_")
}

func (x *world) asgName(s string) string {
	if s == "x" {
		return encryption.Hash("verif-c24-no-such-assigner")
	}
	return x.asg[atoi(s)].ID
}

func (x *world) blobList(s string) []string {
	ids := []string{}
	if s == "-" {
		return ids
	}
	for _, t := range strings.Split(s, ",") {
		i := atoi(t)
		if i < nBlobbers {
			ids = append(ids, x.blob[i].ID)
		} else {
			ids = append(ids, encryption.Hash(fmt.Sprintf("verif-c24-no-such-blobber-%d", i)))
		}
	}
	return ids
}

// markerString: what an ASSIGNER signs — written out here independently of the contract; the extractor xc24 checks
// that verifyFreeAllocationRequestNew builds the same string.
func markerString(recipient string, tokens float64, nonce int64, blobbers []string) string {
	return fmt.Sprintf("%s:%f:%d:%s", recipient, tokens, nonce, strings.Join(blobbers, ""))
}

func (x *world) run(op []string) string {
	if len(op) == 0 || !wellFormed(op) {
		return "bad-op"
	}
	a := op[1:]
	switch op[0] {
	case "addas":
		sender := x.owner
		if a[0] != "o" {
			sender = x.cli[atoi(a[0][1:])]
		}
		name := x.asg[atoi(a[1])].ID
		pk := "zz-not-a-key"
		if a[2] != "bad" {
			pk = x.key(a[2]).PublicKey
		}
		in := fmt.Sprintf(`{"name":%q,"public_key":%q,"individual_limit":%s,"total_limit":%s}`, name, pk, a[3], a[4])
		r := x.exec(sender, "add_free_storage_assigner", 0, in)
		return class(r) + " " + x.obsAs(name)
	case "raw":
		var in string
		switch a[0] {
		case "array":
			in = `[1,2]`
		case "badmarker":
			in = `{"recipient_public_key":"","marker":"not json"}`
		case "nomarker":
			in = `{}`
		}
		return class(x.exec(x.cli[0], "free_allocation_request", 0, in))
	case "free":
		sender := x.cli[atoi(a[0][1:])]
		asg := x.asgName(a[1])
		rec := x.cli[atoi(a[2])].ID
		tokLit := a[3]
		nonce, _ := strconv.ParseInt(a[4], 10, 64)
		blobs := x.blobList(a[5])
		tok, _ := strconv.ParseFloat(tokLit, 64)
		sig := x.key(a[6]).sign(hex.EncodeToString([]byte(markerString(rec, tok, nonce, blobs))))
		switch a[7] {
		case "tokens":
			tokLit = a[8]
		case "nonce":
			nonce, _ = strconv.ParseInt(a[8], 10, 64)
		case "recipient":
			rec = x.cli[atoi(a[8])].ID
		case "blobbers":
			blobs = x.blobList(a[8])
		case "assigner":
			asg = x.asgName(a[8])
		case "sigbad":
			sig = hex.EncodeToString([]byte("not a signature at all, just 32b"))
		case "nosig":
			sig = ""
		}
		bj, _ := json.Marshal(blobs)
		marker := fmt.Sprintf(`{"assigner":%q,"recipient":%q,"free_tokens":%s,"nonce":%d,"signature":%q,"blobbers":%s}`, asg, rec, tokLit, nonce, sig, bj)
		in, _ := json.Marshal(map[string]interface{}{"recipient_public_key": sender.PublicKey, "marker": marker})
		r := x.exec(sender, "free_allocation_request", 0, string(in))
		if r.status == "ok" {
			x.allocs = append(x.allocs, x.lastHash)
		}
		return class(r) + " " + x.obsAs(asg) + " " + x.obsW() + " " + x.obsP(rec) + " " + x.obsA()
	}
	return "bad-op"
}

// ---------------------------------------------------------------- observations

func (x *world) obsAs(name string) string {
	a := storagesc.VerifC24GetAssigner(x.w.SCtx(), name)
	if !a.Present {
		return "as=-"
	}
	k := "?"
	for i, c := range x.asg {
		if c.PublicKey == a.PublicKey {
			k = fmt.Sprintf("a%d", i)
		}
	}
	for i, c := range x.cli {
		if c.PublicKey == a.PublicKey {
			k = fmt.Sprintf("c%d", i)
		}
	}
	if a.PublicKey == "zz-not-a-key" {
		k = "bad"
	}
	var ns []string
	for _, n := range a.RedeemedNonces {
		ns = append(ns, strconv.FormatInt(n, 10))
	}
	return fmt.Sprintf("as=%s:%d:%d:%d:[%s]", k, a.IndividualLimit, a.TotalLimit, a.CurrentRedeemed, strings.Join(ns, ","))
}

func (x *world) obsW() string {
	b, _, _ := x.w.Account(scOwnerID)
	s, _, _ := x.w.Account(storagesc.ADDRESS)
	return fmt.Sprintf("ow=%d sc=%d", uint64(b), uint64(s))
}

func (x *world) obsP(client string) string {
	p, b := storagesc.VerifC24ReadPool(x.w.SCtx(), client)
	if !p {
		return "rp=-"
	}
	return fmt.Sprintf("rp=%d", b)
}

// obsA: number of allocations created by grants and (owner, write pool) of the newest.
func (x *world) obsA() string {
	if len(x.allocs) == 0 {
		return "na=0 last=-"
	}
	al := storagesc.VerifC24GetAlloc(x.w.SCtx(), x.allocs[len(x.allocs)-1])
	if !al.Present {
		return fmt.Sprintf("na=%d last=missing", len(x.allocs))
	}
	o := -1
	for j, c := range x.cli {
		if c.ID == al.Owner {
			o = j
		}
	}
	return fmt.Sprintf("na=%d last=%d:%d", len(x.allocs), o, al.WritePool)
}
