// C24 harness: free-storage assigners and grants on the REAL storagesc (add_free_storage_assigner,
// free_allocation_request) through the real Chain.UpdateState with real BLS keys, compared line by line with the Lean
// model driver zdrv-C24 (Model/FreeStorage.lean), and judged by an oracle that states the property on the
// implementation's answers alone.
package main

import (
	"bufio"
	"fmt"
	"os"
	"strconv"
	"strings"
	"sync"

	"0chain.net/smartcontract/storagesc"
	"verifharness/lib/corr"
)

var (
	statMu sync.Mutex
	stats  = map[string]int{}
)

func note(op []string, res string) {
	k := op[0]
	if op[0] == "free" && len(op) == 10 {
		k = "free-" + op[8]
	}
	st := strings.Fields(res + " x")[0]
	statMu.Lock()
	stats[k+":"+st]++
	statMu.Unlock()
}

// checkConfig: the constants of the init line must be what the contract stores / computes.
func (x *world) checkConfig(op []string) string {
	c, err := storagesc.VerifC24Config(x.w.SCtx())
	if err != nil {
		return "config-error"
	}
	// cost of a free allocation on two blobbers: Σ MultFloat64(write price, sizeInGB(ceil(size/data)))
	wp, sz := float64(blobberWritePrice), float64(freeSize)
	per := uint64(wp * (sz / float64(1<<30)))
	got := fmt.Sprintf("%d %d %d", c.MaxIndividual, c.MaxTotal, 2*per)
	if want := strings.Join(op[4:7], " "); want != got || c.OwnerId != scOwnerID || c.Data != freeData || c.Parity != freeParity {
		return "config-mismatch " + got
	}
	return "ok " + x.obsW()
}

func impl(ops []string) []string {
	outs := make([]string, len(ops))
	var x *world
	for i, line := range ops {
		op := strings.Fields(line)
		func() {
			defer func() {
				if r := recover(); r != nil {
					outs[i] = fmt.Sprintf("panic %.80v", r)
				}
			}()
			if len(op) == 0 {
				outs[i] = "bad-op"
				return
			}
			if op[0] == "init" {
				x = nil
				if len(op) != 7 || !isNat(op[2]) || atoi(op[2]) > 1000 || !isNat(op[3]) || !isNat(op[4]) || !isNat(op[5]) || !isNat(op[6]) {
					outs[i] = "bad-op"
					return
				}
				funds, _ := strconv.ParseUint(op[3], 10, 64)
				var err error
				x, err = newWorld(op[1], float64(atoi(op[2]))/1000, funds)
				if err != nil {
					outs[i] = "init-error " + err.Error()
					x = nil
					return
				}
				outs[i] = x.checkConfig(op)
				return
			}
			if x == nil {
				outs[i] = "bad-op"
				return
			}
			x.hist += line + "\n"
			outs[i] = x.run(op)
			if outs[i] != "bad-op" {
				note(op, outs[i])
			}
		}()
	}
	return outs
}

func script(path string) {
	f, err := os.Open(path)
	if err != nil {
		panic(err)
	}
	var ops []string
	sc := bufio.NewScanner(f)
	for sc.Scan() {
		if l := strings.TrimSpace(sc.Text()); l != "" && !strings.HasPrefix(l, "#") {
			ops = append(ops, l)
		}
	}
	outs := impl(ops)
	for i := range ops {
		fmt.Printf("%-90s -> %s\n", ops[i], outs[i])
	}
	if v := oracle(ops, outs); v != nil {
		fmt.Println("ORACLE:", v.Signature, v.Message)
	}
}

func main() {
	if p := os.Getenv("C24_SCRIPT"); p != "" {
		script(p)
		return
	}
	corr.Main(corr.Prop{
		ID: "C24", Model: "C24", Gen: gen, Impl: impl, Oracle: oracle,
		Cases: func(th bool) int {
			if th {
				return 4000
			}
			return 100
		},
		Fixed: fixed(),
		Nontrivial: func(ops, outs []string) bool {
			n := 0
			for i, o := range ops {
				if strings.HasPrefix(o, "free ") && strings.HasPrefix(outs[i], "ok") {
					n++
				}
			}
			return n >= 2
		},
		Extra: func() map[string]interface{} {
			statMu.Lock()
			defer statMu.Unlock()
			m := map[string]interface{}{}
			for k, v := range stats {
				m[k] = v
			}
			return map[string]interface{}{"impl_branch_hist": m}
		},
	})
}
