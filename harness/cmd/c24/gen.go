// C24 harness, gen.go: history generator, fixed corpus, and the oracle (the property on the implementation's answers).
package main

import (
	"fmt"
	"math/big"
	"math/rand"
	"strconv"
	"strings"

	"verifharness/lib/corr"
)

// max_individual_free_allocation, max_total_free_allocation of the repo's sc.yaml (in coins) and the cost of a free
// allocation (2 blobbers, write price 1e9, 10 MB): checked against the real contract by every init line.
const initTail = " 1000000000000 100000000000000 18626450"

func pick[T any](r *rand.Rand, xs []T) T { return xs[r.Intn(len(xs))] }

var amounts = []string{"0.1", "0.5", "1", "1.5", "0.25", "2", "0.01", "0.0020696", "0.00206961", "0.0021", "0", "0.1000001", "0.3333333333",
	"0.0078125", "1.50", "10", "100", "0.00000000001", "-1", "922337204", "0.000001", "3"}

// shiftUnit: the decimal literal plus d coins (d·10⁻¹⁰ ZCN), trailing zeros trimmed; "" if negative.
func shiftUnit(lit string, d int64) string {
	c, ok := coinsOf(lit)
	if !ok {
		return ""
	}
	c.Add(c, big.NewInt(d))
	if c.Sign() < 0 {
		return ""
	}
	s := c.String()
	for len(s) <= 10 {
		s = "0" + s
	}
	s = s[:len(s)-10] + "." + s[len(s)-10:]
	s = strings.TrimRight(s, "0")
	return strings.TrimSuffix(s, ".")
}

func randDec(r *rand.Rand) string {
	k := r.Intn(11)
	n := r.Int63n(30000000000)
	s := strconv.FormatInt(n, 10)
	for len(s) <= k {
		s = "0" + s
	}
	if k == 0 {
		return s
	}
	return s[:len(s)-k] + "." + s[len(s)-k:]
}

// gen: a world with a chosen read-pool fraction and owner funding, 1-3 assigners (own key, a client's key, an
// undecodable key; limits around the caps), then free_allocation_requests: mostly well-formed markers with fresh
// nonces, mixed with replayed nonces (same and other assigner), amounts around the individual/remaining total limit, the
// funding threshold and the decimal-place limit, other recipients and senders, unknown assigners, wrong signers, fields
// altered after signing (amount within and beyond the 6 printed decimals), bad blobber lists, re-registrations that
// raise or lower limits or swap keys, registrations by non-owners, malformed inputs.
func gen(r *rand.Rand, thorough bool, i int) []string {
	frac := pick(r, []int{0, 100, 100, 250, 333, 500, 1, 1000})
	funds := pick(r, []uint64{1000000000000, 1000000000000, 1000000000000, 30000000000, 30000000000, 5000000000, 0})
	ops := []string{fmt.Sprintf("init g%d-%d %d %d", i, r.Int63(), frac, funds) + initTail}
	na := 1 + r.Intn(nAssigners)
	regKey := map[int]string{}
	regInd, regTot := map[int]string{}, map[int]string{}
	addas := func(k int) {
		sender := "o"
		if r.Intn(16) == 0 {
			sender = fmt.Sprintf("c%d", r.Intn(nClients))
		}
		pk := fmt.Sprintf("a%d", k)
		switch r.Intn(12) {
		case 0:
			pk = fmt.Sprintf("c%d", r.Intn(nClients))
		case 1:
			pk = "bad"
		case 2:
			pk = fmt.Sprintf("a%d", r.Intn(nAssigners))
		}
		ind := pick(r, []string{"0.5", "1", "1.5", "100", "0.01", "2", "1.5", "100", "2"})
		tot := pick(r, []string{"1", "2", "4", "10", "0.5", "10000", "3", "10", "4"})
		if r.Intn(20) == 0 {
			ind, tot = pick(r, []string{"101", "0", "100.0000000001"}), pick(r, []string{"10001", "0", "10000.0000001"})
		}
		ops = append(ops, fmt.Sprintf("addas %s %d %s %s %s", sender, k, pk, ind, tot))
		if sender == "o" && ind != "101" && tot != "10001" {
			regKey[k] = pk
			regInd[k], regTot[k] = ind, tot
		}
	}
	for k := 0; k < na; k++ {
		addas(k)
	}
	n := 8 + r.Intn(22)
	if thorough {
		n = 10 + r.Intn(70)
	}
	nonce := int64(r.Intn(5))
	var used []int64
	var frees []string
	for k := 0; k < n; k++ {
		switch x := r.Intn(100); {
		case x < 14 && len(frees) > 0:
			ops = append(ops, pick(r, frees)) // an exact replay of an earlier request
		case x < 78:
			j := r.Intn(nClients)
			rec := j
			if r.Intn(12) == 0 {
				rec = r.Intn(nClients)
			}
			a := r.Intn(na)
			aTok := strconv.Itoa(a)
			if r.Intn(20) == 0 {
				aTok = pick(r, []string{"x", strconv.Itoa(r.Intn(nAssigners))})
			}
			tok := pick(r, amounts)
			switch r.Intn(9) {
			case 0, 1:
				tok = randDec(r)
			case 2, 3, 4:
				tok = pick(r, []string{"0.1", "0.25", "0.01", "0.5", "0.05", "0.0021"})
			case 5: // one coin around the assigner's individual / total limit
				if lim := pick(r, []string{regInd[a], regTot[a]}); lim != "" {
					if t := shiftUnit(lim, pick(r, []int64{0, 1, -1, 1, 1000})); t != "" && isDec(t) {
						tok = t
					}
				}
			}
			var nn int64
			switch y := r.Intn(10); {
			case y < 7 || len(used) == 0:
				nonce++
				nn = nonce
			case y < 9:
				nn = pick(r, used)
			default:
				nn = pick(r, []int64{0, -1, 9223372036854775807, -9223372036854775808})
			}
			used = append(used, nn)
			blobs := pick(r, []string{"0,1", "1,2", "2,0", "0,1", "0,1,2"})
			if r.Intn(12) == 0 {
				blobs = pick(r, []string{"-", "1", "0,7", "1,1", "7,8", "0,1,7"})
			}
			signer := regKey[a]
			if signer == "" || signer == "bad" || r.Intn(12) == 0 {
				signer = pick(r, []string{"a0", "a1", "a2", "c0", "c1"})
			}
			tk, tv := "none", "0"
			if r.Intn(7) == 0 {
				tk = pick(r, []string{"tokens", "tokens", "nonce", "recipient", "blobbers", "assigner", "sigbad", "nosig"})
				switch tk {
				case "tokens":
					tv = pick(r, []string{tok, tok + "4", "0.1000004", "0.1000006", "0.007812", "0.007813", pick(r, amounts)})
					if !isDec(tv) {
						tv = "0.2"
					}
				case "nonce":
					tv = strconv.FormatInt(nn+pick(r, []int64{1, 0, -1}), 10)
					if !isInt(tv) {
						tv = "5"
					}
				case "recipient":
					tv = strconv.Itoa(r.Intn(nClients))
				case "blobbers":
					tv = pick(r, []string{"0,1", "1,0", "1,2", "0,2"})
				case "assigner":
					tv = pick(r, []string{"x", strconv.Itoa(r.Intn(nAssigners))})
				}
			}
			ops = append(ops, fmt.Sprintf("free c%d %s %d %s %d %s %s %s %s", j, aTok, rec, tok, nn, blobs, signer, tk, tv))
			frees = append(frees, ops[len(ops)-1])
		case x < 93:
			addas(r.Intn(nAssigners))
		case x < 96:
			ops = append(ops, "raw "+pick(r, []string{"array", "badmarker", "nomarker"}))
		default:
			ops = append(ops, pick(r, []string{"free c0 0 0 1 1 0,1 a0", "addas o 0 a0 1", "free c0 0 0 1e3 1 0,1 a0 none 0", "free c0 0 0 01 1 0,1 a0 none 0",
				"free c0 0 0 1.2345678901234567 1 0,1 a0 none 0", "free c0 0 0 -0 1 0,1 a0 none 0", "addas o 0 a0 . 1", "frobnicate", "free c0 0 0 1 1 0,1 a0 none 1"}))
		}
	}
	return ops
}

func fixed() [][]string {
	return [][]string{
		// registration rules, a grant, its replay, limits, recipients, unknown assigner, undecodable key
		{"init fx1 100 1000000000000" + initTail, "addas o 0 a0 1.5 4", "addas c1 1 a1 1 1", "addas o 1 a1 101 1", "addas o 1 a1 1 10001", "addas o 1 bad 1 2", "addas o 2 c2 0.5 0.5",
			"free c1 0 1 1 7 0,1 a0 none 0", "free c1 0 1 1 7 0,1 a0 none 0", "free c1 0 1 1 8 0,1 a0 none 0", "free c1 0 1 1.5 9 0,1 a0 none 0", "free c1 0 1 0.5 9 0,1 a0 none 0",
			"free c2 0 2 0.5 10 1,2 a0 none 0", "free c2 0 2 0.5 11 1,2 a0 none 0", "free c2 0 1 0.5 11 1,2 a0 none 0", "free c2 x 2 0.5 11 1,2 a0 none 0",
			"free c2 1 2 0.5 11 1,2 a1 none 0", "free c2 2 2 0.5 11 1,2 c2 none 0", "free c2 2 2 0.0018 12 1,2 c2 none 0", "addas o 0 a0 1.5 2", "free c1 0 1 0.1 12 0,1 a0 none 0", "addas o 0 a0 1.5 5", "free c1 0 1 0.1 12 0,1 a0 none 0"},
		// blobber lists, amounts bound to 6 decimals only, funding threshold, owner's wallet, amount parsing
		{"init fx2 100 30000000000" + initTail, "addas o 2 c2 50 100", "free c2 2 2 0.1 13 1 c2 none 0", "free c2 2 2 0.1 13 - c2 none 0", "free c2 2 2 0.1 13 0,1,2 c2 none 0",
			"free c2 2 2 0.1 14 0,7 c2 none 0", "free c2 2 2 0.1 15 1,1 c2 none 0", "free c2 2 2 0.1 16 7,8 c2 none 0", "free c2 2 2 0.1 17 0,1,7 c2 none 0",
			"free c2 2 2 0.1000001 18 2,0 c2 tokens 0.1000004", "free c2 2 2 0.1000001 19 2,0 c2 tokens 0.1000006", "free c2 2 2 0.0020696 20 2,0 c2 none 0",
			"free c2 2 2 0.00206961 22 2,0 c2 none 0", "free c2 2 2 0 23 2,0 c2 none 0", "free c2 2 2 2 24 2,0 c2 none 0", "free c2 2 2 2 25 2,0 c2 none 0",
			"free c2 2 2 60 26 2,0 c2 none 0", "free c2 2 2 0.0078125 28 2,0 c2 tokens 0.007812", "free c2 2 2 0.0078125 29 2,0 c2 tokens 0.007813",
			"free c2 2 2 922337204 30 2,0 c2 none 0", "free c2 2 2 0.00000000001 31 2,0 c2 none 0", "free c2 2 2 -1 31 2,0 c2 none 0"},
		// forged, tampered, wrong recipient
		{"init fx3 0 1000000000000" + initTail, "addas o 0 a0 1 10", "addas o 1 a1 1 10", "free c2 0 2 0.1 1 0,1 a1 none 0", "free c2 0 2 0.1 1 0,1 c2 none 0",
			"free c2 0 2 0.1 1 0,1 a0 tokens 0.2", "free c2 0 2 0.1 1 0,1 a0 nonce 2", "free c2 0 2 0.1 1 0,1 a0 blobbers 1,0", "free c3 0 2 0.1 1 0,1 a0 recipient 3",
			"free c3 0 2 0.1 1 0,1 a0 none 0", "free c2 0 2 0.1 1 0,1 a0 assigner 1", "free c2 0 2 0.1 1 0,1 a0 sigbad 0", "free c2 0 2 0.1 1 0,1 a0 nosig 0",
			"free c2 0 2 0.1 1 0,1 a0 none 0", "free c2 1 2 0.1 1 0,1 a1 none 0", "free c2 0 2 0.1 1 0,1 a0 none 0", "addas o 0 a1 1 10", "free c2 0 2 0.1 1 0,1 a1 none 0", "free c2 0 2 0.1 2 0,1 a1 none 0"},
		// one coin over / exactly at the individual and the total limit
		{"init fx5 0 1000000000000" + initTail, "addas o 0 a0 1.5 2", "free c1 0 1 1.5000000001 1 0,1 a0 none 0", "free c1 0 1 1.5 1 0,1 a0 none 0",
			"free c1 0 1 0.5000000001 2 0,1 a0 none 0", "free c1 0 1 0.5 2 0,1 a0 none 0", "free c1 0 1 0.0000000001 3 0,1 a0 none 0", "free c1 0 1 0.002 3 0,1 a0 none 0"},
		{"init fx4 1000 1000000000000" + initTail, "addas o 0 a0 1 10", "free c2 0 2 0.5 1 0,1 a0 none 0", "raw array", "raw badmarker", "raw nomarker", "frobnicate", "free c0", "init"},
	}
}

// ---------------------------------------------------------------- oracle

type asgObs struct {
	present       bool
	key           string
	ind, tot, cur *big.Int
	nonces        []string
}

func (o asgObs) String() string {
	if !o.present {
		return "-"
	}
	return fmt.Sprintf("%s:%v:%v:%v:[%s]", o.key, o.ind, o.tot, o.cur, strings.Join(o.nonces, ","))
}

func parseAs(s string) asgObs {
	if s == "-" || s == "" {
		return asgObs{}
	}
	f := strings.SplitN(s, ":", 5)
	if len(f) != 5 {
		return asgObs{}
	}
	o := asgObs{present: true, key: f[0]}
	o.ind, _ = new(big.Int).SetString(f[1], 10)
	o.tot, _ = new(big.Int).SetString(f[2], 10)
	o.cur, _ = new(big.Int).SetString(f[3], 10)
	if ns := strings.Trim(f[4], "[]"); ns != "" {
		o.nonces = strings.Split(ns, ",")
	}
	return o
}

func obsMap(out string) (string, map[string]string) {
	f := strings.Fields(out)
	m := map[string]string{}
	if len(f) == 0 {
		return "", m
	}
	for _, p := range f[1:] {
		if i := strings.IndexByte(p, '='); i > 0 {
			m[p[:i]] = p[i+1:]
		}
	}
	return f[0], m
}

// coinsOf: the decimal literal times 10^10, exactly; ok=false if that is not a whole number.
func coinsOf(lit string) (*big.Int, bool) {
	r, ok := new(big.Rat).SetString(lit)
	if !ok {
		return nil, false
	}
	r.Mul(r, new(big.Rat).SetInt(new(big.Int).Exp(big.NewInt(10), big.NewInt(10), nil)))
	if !r.IsInt() {
		return nil, false
	}
	return new(big.Int).Set(r.Num()), true
}

func bi(s string) *big.Int {
	v, ok := new(big.Int).SetString(s, 10)
	if !ok {
		return new(big.Int)
	}
	return v
}

// oracle: C24 on the implementation's answers alone, with its own books of redeemed nonces per assigner.
func oracle(ops, outs []string) *corr.Violation {
	mk := func(sig, msg string) *corr.Violation {
		return &corr.Violation{Signature: "C24:" + sig, Message: msg, Ops: ops, Impl: outs}
	}
	asg := map[string]asgObs{}       // assigner token -> last observed record
	redeemed := map[string]bool{}    // assigner|nonce
	var ow, sc *big.Int              // owner wallet, contract wallet
	pools := map[string]*big.Int{}   // recipient index -> read pool
	na := 0
	var maxInd, maxTot *big.Int
	for i, line := range ops {
		op := strings.Fields(line)
		if len(op) == 0 || outs[i] == "bad-op" {
			continue
		}
		cls, ob := obsMap(outs[i])
		if strings.HasPrefix(cls, "panic") || strings.HasPrefix(cls, "harness-panic") {
			return mk("panic", fmt.Sprintf("op %d %q: %s", i, line, outs[i]))
		}
		switch op[0] {
		case "init":
			asg, redeemed, pools, na = map[string]asgObs{}, map[string]bool{}, map[string]*big.Int{}, 0
			ow, sc = bi(ob["ow"]), bi(ob["sc"])
			if len(op) == 7 {
				maxInd, maxTot = bi(op[4]), bi(op[5])
			}
		case "addas":
			name := op[2]
			before := asg[name]
			after := parseAs(ob["as"])
			if cls == "ok" {
				if op[1] != "o" {
					return mk("assigner-added-by-non-owner", fmt.Sprintf("op %d %q succeeded", i, line))
				}
				if !after.present || after.ind.Cmp(maxInd) > 0 || after.tot.Cmp(maxTot) > 0 {
					return mk("assigner-cap-exceeded", fmt.Sprintf("op %d %q: stored limits %v / %v, caps %v / %v", i, line, after.ind, after.tot, maxInd, maxTot))
				}
				if before.present && (before.cur.Cmp(after.cur) != 0 || strings.Join(before.nonces, ",") != strings.Join(after.nonces, ",")) {
					return mk("registration-reset-redemptions", fmt.Sprintf("op %d %q: redeemed %v %v -> %v %v", i, line, before.cur, before.nonces, after.cur, after.nonces))
				}
			} else if before.String() != after.String() {
				return mk("refused-registration-changed-state", fmt.Sprintf("op %d %q answered %s, record %v -> %v", i, line, cls, before, after))
			}
			asg[name] = after
		case "free":
			a := op[1:]
			sender, aTok, rec, tok, nonce, blobs, signer, tk, tv := a[0], a[1], a[2], a[3], a[4], a[5], a[6], a[7], a[8]
			signedStr := markerString("R"+rec, mustFloat(tok), mustInt(nonce), []string{blobs})
			switch tk {
			case "tokens":
				tok = tv
			case "nonce":
				nonce = tv
			case "recipient":
				rec = tv
			case "blobbers":
				blobs = tv
			case "assigner":
				aTok = tv
			}
			finalStr := markerString("R"+rec, mustFloat(tok), mustInt(nonce), []string{blobs})
			before := asg[aTok]
			after := parseAs(ob["as"])
			owA, scA := bi(ob["ow"]), bi(ob["sc"])
			pb := pools[rec]
			pa := ob["rp"]
			naA := atoi(strings.TrimPrefix(ob["na"], ""))
			if cls != "ok" {
				if before.String() != after.String() || owA.Cmp(ow) != 0 || scA.Cmp(sc) != 0 || naA != na ||
					(pb == nil) != (pa == "-") || (pb != nil && pb.String() != pa) {
					return mk("refused-grant-changed-state", fmt.Sprintf("op %d %q answered %s but the state changed", i, line, cls))
				}
				continue
			}
			// --- a grant happened
			if !before.present {
				return mk("granted-without-assigner", fmt.Sprintf("op %d %q", i, line))
			}
			if sender != "c"+rec {
				return mk("granted-to-non-recipient", fmt.Sprintf("op %d %q: sender %s, marker recipient c%s", i, line, sender, rec))
			}
			if signer != before.key || tk == "sigbad" || tk == "nosig" || signedStr != finalStr {
				return mk("forged-marker-granted", fmt.Sprintf("op %d %q: assigner key %s, signed by %s over %q, submitted %q", i, line, before.key, signer, signedStr, finalStr))
			}
			if redeemed[aTok+"|"+nonce] {
				return mk("nonce-redeemed-twice", fmt.Sprintf("op %d %q: nonce %s of assigner %s was redeemed before", i, line, nonce, aTok))
			}
			redeemed[aTok+"|"+nonce] = true
			coins, whole := coinsOf(tok)
			if !whole {
				return mk("amount-not-whole", fmt.Sprintf("op %d %q", i, line))
			}
			if coins.Cmp(before.ind) > 0 {
				return mk("individual-limit-exceeded", fmt.Sprintf("op %d %q: granted %v, individual limit %v", i, line, coins, before.ind))
			}
			if new(big.Int).Add(before.cur, coins).Cmp(before.tot) > 0 || after.cur.Cmp(after.tot) > 0 {
				return mk("total-limit-exceeded", fmt.Sprintf("op %d %q: redeemed %v + %v, total limit %v", i, line, before.cur, coins, before.tot))
			}
			if new(big.Int).Add(before.cur, coins).Cmp(after.cur) != 0 || strings.Join(append(append([]string{}, before.nonces...), nonce), ",") != strings.Join(after.nonces, ",") {
				return mk("redemption-not-recorded", fmt.Sprintf("op %d %q: record %v %v -> %v %v", i, line, before.cur, before.nonces, after.cur, after.nonces))
			}
			last := strings.Split(ob["last"], ":")
			if naA != na+1 || len(last) != 2 || last[0] != rec {
				return mk("allocation-not-for-recipient", fmt.Sprintf("op %d %q: allocations %d -> %d, newest %s", i, line, na, naA, ob["last"]))
			}
			// funding: owner debit = write pool of the new allocation; owner debit + read-pool credit = the grant
			debit := new(big.Int).Sub(ow, owA)
			credit := new(big.Int).Set(bi(pa))
			if pb != nil {
				credit.Sub(credit, pb)
			}
			if debit.Sign() < 0 || credit.Sign() < 0 || debit.String() != last[1] || new(big.Int).Add(debit, credit).Cmp(coins) != 0 ||
				new(big.Int).Sub(scA, sc).Cmp(debit) != 0 {
				return mk("grant-funding", fmt.Sprintf("op %d %q: grant %v, owner wallet -%v, contract wallet +%v, write pool %s, read pool +%v", i, line, coins, debit, new(big.Int).Sub(scA, sc), last[1], credit))
			}
			asg[aTok] = after
			ow, sc, na = owA, scA, naA
			pools[rec] = bi(pa)
		}
	}
	return nil
}

func mustFloat(s string) float64 { f, _ := strconv.ParseFloat(s, 64); return f }
func mustInt(s string) int64     { n, _ := strconv.ParseInt(s, 10, 64); return n }
