// C40 harness: the real round.roundStartingStorage behind a real chain.Chain (SetMagicBlock, GetMagicBlock,
// GetMagicBlockNoOffset, GetPrevMagicBlock) against Model/MagicBlocks.lean.
package main

import (
	"fmt"
	"math/rand"
	"sort"
	"strconv"
	"strings"

	"0chain.net/chaincore/block"
	"0chain.net/chaincore/chain"
	"0chain.net/chaincore/round"
	"github.com/0chain/common/core/logging"
	"go.uber.org/zap"
	"verifharness/lib/corr"
)

func init() {
	logging.Logger = zap.NewNop()
	logging.N2n = zap.NewNop()
}

const prevTag = -7 // MagicBlockNumber of the chain's PreviousMagicBlock field

func newChain(st round.RoundStorage) *chain.Chain {
	c := &chain.Chain{}
	c.MagicBlockStorage = st
	c.PreviousMagicBlock = &block.MagicBlock{MagicBlockNumber: prevTag}
	return c
}

func showEnt(e round.RoundStorageEntity) string {
	if e == nil {
		return "nil"
	}
	return fmt.Sprintf("ent %d", e.(*block.MagicBlock).MagicBlockNumber)
}

func showMB(mb *block.MagicBlock) string {
	if mb == nil {
		return "nil"
	}
	if mb.MagicBlockNumber == prevTag {
		return "prevmb"
	}
	return fmt.Sprintf("ent %d", mb.MagicBlockNumber)
}

func parseInt(s string) (int64, bool) {
	v, err := strconv.ParseInt(s, 10, 64)
	if err != nil || strings.HasPrefix(s, "+") {
		return 0, false
	}
	return v, true
}

func parseNat(s string) (int64, bool) {
	v, ok := parseInt(s)
	if !ok || v < 0 || strings.HasPrefix(s, "-") {
		return 0, false
	}
	return v, true
}

func impl(ops []string) []string {
	st := round.RoundStorage(round.NewRoundStartingStorage())
	c := newChain(st)
	outs := make([]string, len(ops))
	for i, op := range ops {
		w := strings.Fields(op)
		func() {
			defer func() {
				if r := recover(); r != nil {
					outs[i] = "panic"
					// GetMagicBlock panics with mbMutex read-locked (no defer): continue on a fresh Chain
					// object over the SAME storage so that a later SetMagicBlock does not block.
					c = newChain(st)
				}
			}()
			outs[i] = "bad-op"
			if len(w) == 0 {
				return
			}
			arg := func(k int) (int64, bool) {
				if len(w) != k+1 {
					return 0, false
				}
				return parseInt(w[k])
			}
			switch w[0] {
			case "new":
				if len(w) != 1 {
					return
				}
				st = round.NewRoundStartingStorage()
				c = newChain(st)
				outs[i] = "ok"
			case "put":
				if len(w) != 3 {
					return
				}
				r, ok1 := parseInt(w[1])
				e, ok2 := parseNat(w[2])
				if !ok1 || !ok2 {
					return
				}
				c.SetMagicBlock(&block.MagicBlock{StartingRound: r, MagicBlockNumber: e})
				outs[i] = "ok"
			case "get":
				if r, ok := arg(1); ok {
					outs[i] = showEnt(st.Get(r))
				}
			case "latest":
				if len(w) == 1 {
					outs[i] = showEnt(st.GetLatest())
				}
			case "prune":
				if r, ok := arg(1); ok {
					if err := st.Prune(r); err == nil {
						outs[i] = "ok"
					} else if err == round.ErrRoundEntityNotFound {
						outs[i] = "notfound"
					} else {
						outs[i] = "error"
					}
				}
			case "idx":
				if r, ok := arg(1); ok {
					outs[i] = fmt.Sprintf("idx %d", st.FindRoundIndex(r))
				}
			case "count":
				if len(w) == 1 {
					outs[i] = fmt.Sprintf("count %d", st.Count())
				}
			case "rounds":
				if len(w) == 1 {
					var parts []string
					for _, r := range st.GetRounds() {
						parts = append(parts, strconv.FormatInt(r, 10))
					}
					outs[i] = "rounds " + strings.Join(parts, " ")
				}
			case "round":
				if k, ok := arg(1); ok {
					if k != int64(int(k)) {
						outs[i] = "panic"
						return
					}
					outs[i] = fmt.Sprintf("round %d", st.GetRound(int(k)))
				}
			case "mb":
				if r, ok := arg(1); ok {
					outs[i] = showMB(c.GetMagicBlock(r))
				}
			case "mbno":
				if r, ok := arg(1); ok {
					outs[i] = showMB(c.GetMagicBlockNoOffset(r))
				}
			case "prev":
				if r, ok := arg(1); ok {
					outs[i] = showMB(c.GetPrevMagicBlock(r))
				}
			}
		}()
	}
	return outs
}

var bounds = []int64{0, 1, 2, 3, 4, 5, 6, 8, 9, 1<<53 - 1, 1 << 53, 1<<53 + 1, 1<<63 - 2, 1<<63 - 1}

// query rounds are drawn from the whole int64 range (a comparison rewritten as a subtraction overflows for pairs more
// than 2^63 apart); stored starts stay non-negative except in the negative-start cases.
var qbounds = []int64{-1 << 63, -1<<63 + 1, -(1 << 62), -2, -1, 0, 1, 4, 5, 6, 1 << 62, 1<<63 - 2, 1<<63 - 1}

// gen: starts from a narrow window (so that floors, ties, re-puts and prunes at stored starts are frequent),
// queries around the stored starts (start-1, start, start+1, start+4, start+5: the view-change offset),
// prunes mostly at stored starts; a small share of cases uses negative starts (outside the property's domain,
// still compared with the model) and boundary values; a separate malformed stream.
func gen(r *rand.Rand, thorough bool, i int) []string {
	n := 6 + r.Intn(40)
	if thorough {
		n = 6 + r.Intn(300)
	}
	base := int64(0)
	span := int64(2 + r.Intn(40))
	switch r.Intn(12) {
	case 0:
		base = -4 // some negative starts
		if r.Intn(3) == 0 {
			base = -1 << 63
		}
	case 1:
		base = 1<<63 - 1 - span
	case 2:
		base = 1<<53 - span/2
	case 3:
		base = int64(r.Intn(1000))
	}
	malformed := r.Intn(15) == 0
	pruneMaxOK := r.Intn(3) != 0 // pruning the newest start (emptying the storage) in two thirds of the cases
	var starts []int64
	pick := func() int64 {
		switch x := r.Intn(10); {
		case x < 5 && len(starts) > 0:
			s := starts[r.Intn(len(starts))]
			d := []int64{-1, 0, 1, 3, 4, 5}[r.Intn(6)]
			if (d > 0 && s > 1<<63-1-d) || (d < 0 && s < -(1<<63)+1) {
				return s
			}
			return s + d
		case x < 9:
			return base + r.Int63n(span+6)
		default:
			if r.Intn(2) == 0 {
				return qbounds[r.Intn(len(qbounds))]
			}
			return bounds[r.Intn(len(bounds))]
		}
	}
	ops := []string{"new"}
	ent := int64(1)
	for k := 0; k < n; k++ {
		if malformed && r.Intn(4) == 0 {
			ops = append(ops, []string{"put 5", "put x 1", "put 5 -1", "get", "get 1 2", "prune z", "frob 1", "idx", "mb 1.5", "round a", "", "new 1", "put 5 1 1"}[r.Intn(13)])
			continue
		}
		switch x := r.Intn(100); {
		case x < 30:
			s := base + r.Int63n(span)
			if r.Intn(15) == 0 {
				s = bounds[r.Intn(len(bounds))]
			}
			starts = append(starts, s)
			ops = append(ops, fmt.Sprintf("put %d %d", s, ent))
			ent++
		case x < 45:
			ops = append(ops, fmt.Sprintf("get %d", pick()))
		case x < 60:
			ops = append(ops, fmt.Sprintf("mb %d", pick()))
		case x < 65:
			ops = append(ops, fmt.Sprintf("mbno %d", pick()))
		case x < 72:
			ops = append(ops, fmt.Sprintf("prev %d", pick()))
		case x < 78:
			ops = append(ops, fmt.Sprintf("idx %d", pick()))
		case x < 86:
			p := pick()
			if len(starts) > 0 && r.Intn(4) != 0 {
				p = starts[r.Intn(len(starts))]
			}
			if !pruneMaxOK {
				mx := int64(-1 << 63)
				for _, s := range starts {
					if s > mx {
						mx = s
					}
				}
				if p >= mx {
					ops = append(ops, "latest")
					continue
				}
			}
			ops = append(ops, fmt.Sprintf("prune %d", p))
		case x < 90:
			ops = append(ops, "latest")
		case x < 93:
			ops = append(ops, "count")
		case x < 97:
			ops = append(ops, "rounds")
		default:
			ops = append(ops, fmt.Sprintf("round %d", r.Intn(8)-1))
		}
	}
	ops = append(ops, "rounds", "count", "latest")
	return ops
}

// oracle: the property on the implementation's answers, with a reference set of stored (start -> entity).
// Domain: starting rounds >= 0 (a case that stores a negative start is not judged).
//   get r    = entity of the greatest stored start <= r, nil when there is none
//   mb  r    = the same at mbRoundOffset(r) (r if r < 5 else r-4), the entity of the greatest start when none;
//              (empty storage: the chain panics — nothing to return)
//   latest   = entity of the greatest stored start
//   prune p  = p stored: every start <= p leaves (the repository's test pins that p itself leaves), nothing else
//              changes — so the answers for every round at or after the smallest retained start are unchanged,
//              which the reference checks on all later queries; p not stored: `notfound`, nothing changes.
//   rounds   = the stored starts ascending, each once; count = their number.
func oracle(ops, outs []string) *corr.Violation {
	ref := map[int64]int64{}
	var staleMax int64 = -1 // > -1: a prune removed the then-greatest start and no later put reached it
	var maxEver int64 = 0   // mirrors only what the reference needs to NAME the known defect, not to judge
	var first, firstKnown *corr.Violation
	mk := func(sig, msg string) {
		v := &corr.Violation{Signature: "C40:" + sig, Message: msg, Ops: ops, Impl: outs}
		if sig == "stale-max-after-prune" {
			if firstKnown == nil {
				firstKnown = v
			}
		} else if first == nil {
			first = v
		}
	}
	sorted := func() []int64 {
		ks := make([]int64, 0, len(ref))
		for k := range ref {
			ks = append(ks, k)
		}
		sort.Slice(ks, func(a, b int) bool { return ks[a] < ks[b] })
		return ks
	}
	floor := func(r int64) (int64, bool) {
		ks := sorted()
		j := sort.Search(len(ks), func(k int) bool { return ks[k] > r })
		if j == 0 {
			return 0, false
		}
		return ks[j-1], true
	}
	off := func(r int64) int64 {
		if r < 5 {
			return r
		}
		return r - 4
	}
	for i, op := range ops {
		w := strings.Fields(op)
		if outs[i] == "bad-op" || len(w) == 0 {
			continue
		}
		var a int64
		if len(w) > 1 {
			a, _ = strconv.ParseInt(w[1], 10, 64)
		}
		stale := staleMax >= 0 && len(ref) > 0
		switch w[0] {
		case "new":
			ref = map[int64]int64{}
			staleMax, maxEver = -1, 0
		case "put":
			if a < 0 {
				return nil // outside the domain of the property
			}
			e, _ := strconv.ParseInt(w[2], 10, 64)
			ref[a] = e
			if a > maxEver {
				maxEver = a
			}
			if staleMax >= 0 && a >= staleMax {
				staleMax = -1
			}
		case "prune":
			_, ok := ref[a]
			want := "notfound"
			if ok {
				want = "ok"
			}
			if outs[i] != want {
				mk("prune-answer", fmt.Sprintf("op %d %q answered %q, reference says %q", i, op, outs[i], want))
			}
			if outs[i] == "ok" {
				ks := sorted()
				if len(ks) > 0 && a >= ks[len(ks)-1] && maxEver > 0 {
					staleMax = maxEver
				}
				for _, k := range ks {
					if k <= a {
						delete(ref, k)
					}
				}
			}
		case "get", "mb", "mbno":
			q := a
			if w[0] == "mb" {
				q = off(a)
			}
			want := "nil"
			if f, ok := floor(q); ok {
				want = fmt.Sprintf("ent %d", ref[f])
			} else if w[0] != "get" {
				want = "panic"
				if ks := sorted(); len(ks) > 0 {
					want = fmt.Sprintf("ent %d", ref[ks[len(ks)-1]])
				}
			}
			if outs[i] != want {
				sig := w[0] + "-not-floor"
				// the known defect, named precisely: stale `max` field (its entry was pruned, storage refilled with
				// smaller starts only) and the lookup went through `max` (query above it, or fallback to latest)
				if stale && (q > staleMax || (w[0] != "get" && want != "panic")) && (outs[i] == "nil" || outs[i] == "panic") {
					sig = "stale-max-after-prune"
				}
				mk(sig, fmt.Sprintf("op %d %q answered %q, the stored starts %v give %q", i, op, outs[i], sorted(), want))
			}
		case "latest":
			want := "nil"
			if ks := sorted(); len(ks) > 0 {
				want = fmt.Sprintf("ent %d", ref[ks[len(ks)-1]])
			}
			if outs[i] != want {
				sig := "latest-not-greatest"
				if stale && outs[i] == "nil" {
					sig = "stale-max-after-prune"
				}
				mk(sig, fmt.Sprintf("op %d latest answered %q, the stored starts %v give %q", i, outs[i], sorted(), want))
			}
		case "rounds":
			var parts []string
			for _, k := range sorted() {
				parts = append(parts, strconv.FormatInt(k, 10))
			}
			want := strings.TrimSpace("rounds " + strings.Join(parts, " "))
			if strings.TrimSpace(outs[i]) != want {
				mk("rounds-not-sorted-set", fmt.Sprintf("op %d: %q, reference %q", i, outs[i], want))
			}
		case "count":
			if want := fmt.Sprintf("count %d", len(ref)); outs[i] != want {
				mk("count", fmt.Sprintf("op %d: %q, reference %q", i, outs[i], want))
			}
		}
	}
	if first != nil {
		return first
	}
	return firstKnown
}

func main() {
	corr.Main(corr.Prop{
		ID: "C40", Model: "C40", Gen: gen, Impl: impl, Oracle: oracle,
		Cases: func(th bool) int {
			if th {
				return 60000
			}
			return 3000
		},
		Fixed: [][]string{
			{"new", "put 5 1", "put 10 2", "prune 10", "put 3 3", "get 12", "mb 16", "latest", "get 7", "rounds"}, // stale max (finding fixed in repo commit 582e5a1; a regression is reported under this signature)
			{"new", "put 5 1", "put 10 2", "get 7", "prune 5", "get 7", "mb 11", "get 12"},                          // strict reading of "pruned point"
			{"new", "put 0 1", "put 151 4", "put 5 2", "put 251 5", "put 51 3", "get 0", "get 50", "get 100000000", "prune 150", "prune 0", "rounds", "prune 151", "rounds", "prune 251", "count"},
			{"new", "mb 3", "put 501 1", "mb 3", "mb 504", "mb 505", "mb 506", "prev 505", "prev 506"},
			{"new", "put -1 1", "get -1", "get 0", "latest"},
			{"new", "put 0 1", "get 5", "latest", "idx 5", "prev 9"},
			{"new", "put 9223372036854775807 1", "get -9223372036854775808", "mb -9223372036854775808", "idx -9223372036854775808", "prev -9223372036854775808", "get 9223372036854775806", "mb 9223372036854775807", "put 0 2", "get -1", "mb -1", "prune 0", "get 9223372036854775807", "latest"},
			{"new", "put 10 1", "put 20 2", "put 30 3", "prev 24", "prev 25", "prev 35", "prev 9", "round 0", "round 3", "round -1"},
		},
	})
}
