package main

// The worker process: executes a block on the genesis state through the real engine and reports what the property
// observes. Persistent (one process per execution slot), line protocol: one JSON request in, one JSON answer out.

import (
	"bufio"
	"context"
	"crypto/sha256"
	"encoding/hex"
	"encoding/json"
	"fmt"
	"os"
	"strings"
	"sync"
	"time"

	"0chain.net/chaincore/block"
	cstate "0chain.net/chaincore/chain/state"
	"0chain.net/chaincore/smartcontract"
	"0chain.net/chaincore/transaction"
	"0chain.net/core/common"
	"0chain.net/core/encryption"
	"0chain.net/smartcontract/dbs/event"
	"0chain.net/smartcontract/faucetsc"
	"0chain.net/smartcontract/minersc"
	"0chain.net/smartcontract/stakepool"
	"0chain.net/smartcontract/stakepool/spenum"
	"0chain.net/smartcontract/storagesc"
	"0chain.net/smartcontract/vestingsc"
	"0chain.net/smartcontract/zcnsc"
	"github.com/0chain/common/core/currency"
	"github.com/0chain/common/core/statecache"
	"verifharness/lib/engine"
)

const ownerID = "1746b06bb09f55ee01b33b5e2e055d6cc7a900cb57c0a3a5eaabb8a0e7745802"

func hashOps(ops []string) string {
	h := sha256.New()
	for _, o := range ops {
		h.Write([]byte(o))
		h.Write([]byte{'\n'})
	}
	return hex.EncodeToString(h.Sum(nil)[:12])
}

func nowUnix() int64 { return time.Now().Unix() }

func clientOf(name string) engine.Client {
	if name == "owner" {
		return engine.Client{ID: ownerID}
	}
	return engine.NewClient(name)
}

var (
	genesis     [2]*engine.World
	genesisOnce [2]sync.Once
	setupOnce   sync.Once
)

func setup() {
	setupOnce.Do(func() {
		engine.Setup()
		vsc := vestingsc.NewVestingSmartContract()
		smartcontract.ContractMap[vsc.GetAddress()] = vsc
	})
}

func buildGenesis(fork bool) *engine.World {
	bal := map[string]currency.Coin{faucetsc.ADDRESS: 1e15, storagesc.ADDRESS: 1e15}
	for _, n := range append([]string{"blobber"}, people...) {
		bal[clientOf(n).ID] = 100000e10
	}
	w, err := engine.NewWorld(bal, func(sctx *cstate.StateContext) error {
		for _, f := range []func() error{
			func() error { return storagesc.InitPartitions(sctx) },
			func() error { return faucetsc.InitConfig(sctx) },
			func() error { return minersc.InitConfig(sctx) },
			func() error { return storagesc.InitConfig(sctx) },
			func() error { return vestingsc.InitConfig(sctx) },
			func() error { return zcnsc.InitConfig(sctx) },
		} {
			if err := f(); err != nil {
				return err
			}
		}
		// an open storage challenge for the blobber with six validators (fixed BLS keys, so that every process builds the same state)
		ch := &storagesc.StorageChallenge{Created: 1700000000, ID: challengeID, TotalValidators: len(validatorKeys), AllocationID: "verif-alloc-1",
			BlobberID: clientOf("blobber").ID, RoundCreatedAt: 1}
		for i := range validatorKeys {
			ch.ValidatorIDs = append(ch.ValidatorIDs, validatorOf(i).id)
		}
		if err := ch.Save(sctx, storagesc.ADDRESS); err != nil {
			return err
		}
		if fork {
			for _, n := range []string{"demeter", "electra"} {
				if _, err := sctx.InsertTrieNode(cstate.NewHardFork(n, 0).GetKey(), cstate.NewHardFork(n, 0)); err != nil {
					return err
				}
			}
		}
		return nil
	})
	if err != nil {
		panic(err)
	}
	return w
}

func unesc(s string) string {
	var b strings.Builder
	for i := 0; i < len(s); i++ {
		if s[i] == '%' && i+3 <= len(s) {
			var v int
			if _, err := fmt.Sscanf(s[i+1:i+3], "%02X", &v); err == nil {
				b.WriteByte(byte(v))
				i += 2
				continue
			}
		}
		b.WriteByte(s[i])
	}
	return b.String()
}

const challengeID = "verif-challenge-1"

// fixed BLS key pairs (public key line, private key line), generated once with BLS0ChainScheme.GenerateKeys/WriteKeys
var validatorKeys = []string{
	"a69442c1120a4d500400215434b914a930b9a013ee43b4109f74d5588fbf932216f9f57544e3747619f199dcd1cea5239a2238414fcffab57a9b0f1ec5cb3e8d\nea3845af59d3968ebd3be0c15408ec8bb783afd31c74446ad6100cc862b99a09\n",
	"4cfc5f7b5f0c97a42c6735dff513280afcbf124a0ebbc7f3ed13c5cb6a220c17fef73879e87db2f356da7a5ca086e39498fe1cb380640d44ef5e37cd302f8d8c\ne378482bb0826a99503c2ec7ec0e763b5e428a844341778e9862e02c080a6820\n",
	"b9274cb05a6b3ff7b05dc8f80e72282ffe62802504ab6c409bdd397a298351186964ab3caecb01f77cf81df8a3f5ec342aea5642b41edd0371cd57edefc32a0c\na9118e20847ec01ee248a67f6eb86bad623d8a4d0e62ecc3ed9af7fc5c5c4510\n",
	"5f59bd9d8c990bfebfca4abadc4b3e759cad79013f99a7b72453d38aa21fd80e19d8258de290f4a92aad4120f783be80571ea2bf771c6b9cc8dca1f5e217be19\nbedf562e2e71fcb8ba50e9c0cb5aefb56bd5526728cfa70c3a76264369067013\n",
	"0dddaaa82ad8f48bd129ab97b3078bbfb4dc899d5cdc859fab44c848436f200d65cb66cd2163a49f6f008dd57de9ffc156cfe564e2bf5ee9b9023345106f270d\n18de47136dd65fb336a94ab0d7381db580b46f677ed8984e749f328a4743d305\n",
	"356de117dc19212ef3131411e5a8886a9d0769f8b0d446f0e7a74c289dacaf00c366264f009fcd59a8f3e2f8ded111da0dca782d21228fb449f2f4e963972b83\n0d28c46637bc2c098448ed354f13fb8a6c38b279749598d2b2473a6eda666107\n",
}

type validator struct {
	scheme *encryption.BLS0ChainScheme
	id, pk string
}

var (
	validators    []*validator
	validatorOnce sync.Once
)

func validatorOf(i int) *validator {
	validatorOnce.Do(func() {
		for _, k := range validatorKeys {
			s := encryption.NewBLS0ChainScheme()
			if err := s.ReadKeys(strings.NewReader(k)); err != nil {
				panic(err)
			}
			pkb, err := hex.DecodeString(s.GetPublicKey())
			if err != nil {
				panic(err)
			}
			validators = append(validators, &validator{scheme: s, id: encryption.Hash(pkb), pk: s.GetPublicKey()})
		}
	})
	return validators[i]
}

// challengeResponse builds the input of storagesc challenge_response: one ticket per letter of the variant
// (g good and correctly signed, c issued for another challenge id, b for another blobber id, s signature of another validator,
// k public key of another validator).
func challengeResponse(variant string) string {
	blobber := clientOf("blobber").ID
	type ticket struct {
		ChallengeID  string `json:"challenge_id"`
		BlobberID    string `json:"blobber_id"`
		ValidatorID  string `json:"validator_id"`
		ValidatorKey string `json:"validator_key"`
		Result       bool   `json:"success"`
		Message      string `json:"message"`
		MessageCode  string `json:"message_code"`
		Timestamp    int64  `json:"timestamp"`
		Signature    string `json:"signature"`
	}
	var tickets []*ticket
	for i, c := range variant {
		if i >= len(validatorKeys) {
			break
		}
		v := validatorOf(i)
		t := &ticket{ChallengeID: challengeID, BlobberID: blobber, ValidatorID: v.id, ValidatorKey: v.pk, Result: true, Timestamp: 1700000100}
		signer := v
		switch c {
		case 'c':
			t.ChallengeID = "verif-challenge-2"
		case 'b':
			t.BlobberID = clientOf("alice").ID
		case 's':
			signer = validatorOf((i + 1) % len(validatorKeys))
		case 'k':
			t.ValidatorKey = validatorOf((i + 1) % len(validatorKeys)).pk
		}
		h := encryption.Hash(fmt.Sprintf("%v:%v:%v:%v:%v:%v", t.ChallengeID, t.BlobberID, t.ValidatorID, t.ValidatorKey, t.Result, t.Timestamp))
		sig, err := signer.scheme.Sign(h)
		if err != nil {
			panic(err)
		}
		t.Signature = sig
		tickets = append(tickets, t)
	}
	b, _ := json.Marshal(map[string]interface{}{"challenge_id": challengeID, "validation_tickets": tickets})
	return string(b)
}

type contractRef struct{ addr, fn string }

var govRefs = map[string]contractRef{
	"miner":   {minersc.ADDRESS, "update_settings"},
	"globals": {minersc.ADDRESS, "update_globals"},
	"storage": {storagesc.ADDRESS, "update_settings"},
	"faucet":  {faucetsc.ADDRESS, "update-settings"},
	"vesting": {vestingsc.ADDRESS, "vestingsc-update-settings"},
	"zcn":     {zcnsc.ADDRESS, "update-global-config"},
}

type txnBuilder struct {
	w     *engine.World
	nonce map[string]int64
}

// build makes the transaction of one `txn` line; deterministic in (line, position), so that all processes build the same block.
func (tb *txnBuilder) build(line string) (*transaction.Transaction, error) {
	f := strings.Fields(line)
	mk := func(who, to string, value currency.Coin, typ int, fn, input string) *transaction.Transaction {
		c := clientOf(who)
		tb.nonce[c.ID]++
		return tb.w.Txn(c, to, value, 0, tb.nonce[c.ID], typ, fn, input)
	}
	blobber := clientOf("blobber")
	switch {
	case f[0] == "send" && len(f) == 4:
		var v int64
		fmt.Sscan(f[3], &v)
		return mk(f[1], clientOf(f[2]).ID, currency.Coin(v), transaction.TxnTypeSend, "", ""), nil
	case f[0] == "pour" && len(f) == 2:
		return mk(f[1], faucetsc.ADDRESS, 0, transaction.TxnTypeSmartContract, "pour", ""), nil
	case f[0] == "gov" && len(f) >= 3 && govRefs[f[1]].addr != "":
		m := map[string]string{}
		for _, kv := range f[3:] {
			i := strings.IndexByte(kv, '=')
			if i < 0 {
				return nil, fmt.Errorf("bad kv %q", kv)
			}
			m[unesc(kv[:i])] = unesc(kv[i+1:])
		}
		in, _ := json.Marshal(map[string]interface{}{"fields": m})
		return mk(f[2], govRefs[f[1]].addr, 0, transaction.TxnTypeSmartContract, govRefs[f[1]].fn, string(in)), nil
	case f[0] == "commit" && len(f) == 1:
		return mk("bob", storagesc.ADDRESS, 0, transaction.TxnTypeSmartContract, "commit_settings_changes", ""), nil
	case f[0] == "lock" && len(f) == 3:
		var v int64
		fmt.Sscan(f[2], &v)
		in := fmt.Sprintf(`{"provider_type":3,"provider_id":%q}`, blobber.ID)
		return mk(f[1], storagesc.ADDRESS, currency.Coin(v)*1e10, transaction.TxnTypeSmartContract, "stake_pool_lock", in), nil
	case f[0] == "chalresp" && len(f) == 2:
		return mk("blobber", storagesc.ADDRESS, 0, transaction.TxnTypeSmartContract, "challenge_response", challengeResponse(f[1])), nil
	case f[0] == "newalloc" && len(f) >= 2:
		// new_allocation_request naming the given blobbers (state.GetItemsByIDs reads them concurrently); unknown names are absent ids
		var ids, tix []string
		for _, n := range f[1:] {
			ids = append(ids, fmt.Sprintf("%q", clientOf(n).ID))
			tix = append(tix, `""`)
		}
		owner := clientOf("alice")
		in := fmt.Sprintf(`{"data_shards":1,"parity_shards":%d,"size":1073741824,"owner_id":%q,"owner_public_key":%q,"blobbers":[%s],"blobber_auth_tickets":[%s],"read_price_range":{"min":0,"max":100000000000},"write_price_range":{"min":0,"max":100000000000}}`,
			len(ids)-1, owner.ID, owner.PublicKey, strings.Join(ids, ","), strings.Join(tix, ","))
		return mk("alice", storagesc.ADDRESS, 10e10, transaction.TxnTypeSmartContract, "new_allocation_request", in), nil
	case f[0] == "unlock" && len(f) == 2:
		in := fmt.Sprintf(`{"provider_type":3,"provider_id":%q}`, blobber.ID)
		return mk(f[1], storagesc.ADDRESS, 0, transaction.TxnTypeSmartContract, "stake_pool_unlock", in), nil
	}
	return nil, fmt.Errorf("bad txn line %q", line)
}

func eventLine(e event.Event) string {
	d := ""
	switch v := e.Data.(type) {
	case nil:
	case string:
		d = v
	default:
		b, err := json.Marshal(v)
		if err == nil {
			d = string(b)
		} else {
			d = fmt.Sprintf("%v", v)
		}
	}
	return fmt.Sprintf("%d:%d:%s:%s", e.Type, e.Tag, e.Index, encryption.Hash(d)[:12])
}

func handleAll(req *request) []*result {
	n := req.Repeat
	if n < 1 {
		n = 1
	}
	var rs []*result
	for i := 0; i < n; i++ {
		rs = append(rs, handle(req))
	}
	return rs
}

func handle(req *request) (res *result) {
	res = &result{}
	defer func() {
		if r := recover(); r != nil {
			res = &result{Panic: fmt.Sprint(r)}
		}
	}()
	setup()
	fi := 0
	if req.Fork {
		fi = 1
	}
	genesisOnce[fi].Do(func() { genesis[fi] = buildGenesis(req.Fork) })
	g := genesis[fi]
	if os.Getenv("C06_WARM") != "true" {
		g.C.SetupStateCache() // cold: a new, empty state cache
	}
	if req.EventDb {
		g.C.EventDb = &event.EventDb{}
	} else {
		g.C.EventDb = nil
	}
	w := &engine.World{C: g.C, NDB: g.NDB, Prev: g.Prev, Round: 0, Now: g.Now}
	if req.Clock == "wall" {
		// block times relative to the real wall clock: a stake locked in this block is "staked at" T0+2s
		w.Now = common.Timestamp(req.WallT0 + 2)
	}
	w.NextBlock()
	tb := &txnBuilder{w: w, nonce: map[string]int64{}}
	// prelude block (identical in every process): a blobber, so that the storage stake pool exists
	blobber := clientOf("blobber")
	tb.nonce[blobber.ID]++
	pre := w.Txn(blobber, storagesc.ADDRESS, 0, 0, tb.nonce[blobber.ID], transaction.TxnTypeSmartContract, "add_blobber",
		fmt.Sprintf(`{"id":%q,"url":"http://blobber.example:5051","capacity":107374182400,"terms":{"read_price":100000000,"write_price":1000000000},"stake_pool_settings":{"delegate_wallet":%q,"num_delegates":10,"service_charge":0.1}}`, blobber.ID, clientOf("delegate").ID))
	if _, err := w.Exec(pre); err != nil || pre.Status != transaction.TxnSuccess {
		panic(fmt.Sprintf("prelude add_blobber failed: %v status %d output %s", err, pre.Status, pre.TransactionOutput))
	}
	w.NextBlock()

	// the transactions, split into blocks at `next`; the last block is the block under test, the earlier ones are the history
	// that a warm node has executed itself (its state cache holds their values) and a cold node has not
	type item struct {
		idx int
		t   *transaction.Transaction
	}
	var blocks [][]item
	var cur []item
	res.Txns = make([]txnResult, len(req.Txns))
	res.OutputHashes = make([]string, len(req.Txns))
	for i, line := range req.Txns {
		if strings.TrimSpace(line) == "next" {
			blocks = append(blocks, cur)
			cur = nil
			res.Txns[i] = txnResult{Status: -1}
			continue
		}
		if strings.HasPrefix(strings.TrimSpace(line), "unit-") {
			cur = append(cur, item{i, nil}) // a direct call of contract library code, not a transaction
			continue
		}
		t, err := tb.build(line)
		if err != nil {
			panic(err)
		}
		cur = append(cur, item{i, t})
	}
	blocks = append(blocks, cur)
	runGen := func(items []item) {
		for _, it := range items {
			if it.t == nil {
				res.Txns[it.idx] = txnResult{Status: -2, Output: unitCall(req.Txns[it.idx])}
				continue
			}
			t := it.t.Clone()
			evs, err := w.Exec(t)
			tr := txnResult{Status: t.Status, Output: t.TransactionOutput}
			if err != nil {
				tr.Status = 0
				tr.Err = err.Error()
			}
			tr.Root = w.Root()
			tr.Changes = w.State.GetChangeCount()
			for _, e := range evs {
				tr.Events = append(tr.Events, eventLine(e))
			}
			res.Txns[it.idx] = tr
			res.OutputHashes[it.idx] = t.ComputeOutputHash()
		}
	}
	for bi, items := range blocks {
		last := bi == len(blocks)-1
		if !last {
			runGen(items)
			w.NextBlock()
			continue
		}
		if os.Getenv("C06_WARM") != "true" {
			// cold: this node did not execute the history itself (restart, state sync): every value comes from the trie
			w.C.SetupStateCache()
			w.BC = statecache.NewBlockCache(w.C.GetStateCache(), statecache.Block{Round: w.B.Round, Hash: w.B.Hash, PrevHash: w.B.PrevHash})
		}
		if req.DelayMs > 0 {
			time.Sleep(time.Duration(req.DelayMs) * time.Millisecond)
		}
		if req.Verify == nil {
			runGen(items)
			break
		}
		// verifier path: the real Block.ComputeState on a block carrying the generator's state hash and output hashes
		b := block.NewBlock("", w.Round)
		b.Hash = w.B.Hash
		b.PrevHash = w.Prev.Hash
		b.PrevBlock = w.Prev
		b.CreationDate = w.Now
		b.MinerID = w.B.MinerID
		root, _ := hex.DecodeString(req.Verify.Root)
		b.ClientStateHash = root
		var kept []item
		for _, it := range items {
			if it.t == nil {
				continue
			}
			if it.idx < len(req.Verify.Skip) && req.Verify.Skip[it.idx] {
				continue // the generator would not have put a rejected transaction into the block
			}
			c := it.t.Clone()
			c.OutputHash = req.Verify.OutputHashes[it.idx]
			b.Txns = append(b.Txns, c)
			kept = append(kept, it)
		}
		if err := b.ComputeState(context.Background(), w.C); err != nil {
			res.VerifyErr = "Block.ComputeState: " + err.Error()
		}
		// what the verifier's execution produced per transaction (for attribution of a failure)
		for k, it := range kept {
			t := b.Txns[k]
			res.Txns[it.idx] = txnResult{Status: t.Status, Output: t.TransactionOutput}
			if res.VerifyErr == "" && t.TransactionType == transaction.TxnTypeSmartContract {
				if err := t.VerifyOutputHash(context.Background()); err != nil {
					res.VerifyErr = "VerifyOutputHash: " + err.Error()
				}
			}
		}
		return res
	}
	res.Root = w.Root()
	res.Changes = w.State.GetChangeCount()
	return res
}

// unitCall: `unit-distribute <n> <balance> <reward>` — the real stakepool.StakePool.DistributeRewards on a pool of n delegates with
// EQUAL balances (service charge 0): the resulting pool bytes and the emitted events. With a remainder (reward not divisible)
// the left-over units go to the first pools of GetOrderedPools.
func unitCall(line string) string {
	f := strings.Fields(line)
	if f[0] != "unit-distribute" || len(f) != 4 {
		return "bad unit call"
	}
	var n int
	var bal, reward int64
	fmt.Sscan(f[1], &n)
	fmt.Sscan(f[2], &bal)
	fmt.Sscan(f[3], &reward)
	b := &block.Block{}
	b.Round = 7
	txn := &transaction.Transaction{}
	txn.Hash = "verif-unit-txn"
	balances := cstate.NewStateContext(b, nil, txn, nil, nil, nil, nil, nil, nil)
	sp := stakepool.NewStakePool()
	sp.Settings.DelegateWallet = "provider-wallet"
	for i := 0; i < n; i++ {
		id := fmt.Sprintf("delegate_%c", 'a'+i)
		sp.Pools[id] = &stakepool.DelegatePool{Balance: currency.Coin(bal), DelegateID: id}
	}
	if err := sp.DistributeRewards(currency.Coin(reward), "provider-1", spenum.Miner, spenum.BlockRewardMiner, balances); err != nil {
		return "error: " + err.Error()
	}
	ev, _ := json.Marshal(balances.GetEvents())
	return string(sp.Encode()) + " events " + string(ev)
}

func workerMain() {
	in := bufio.NewReaderSize(os.Stdin, 1<<20)
	out := bufio.NewWriter(os.Stdout)
	for {
		line, err := in.ReadBytes('\n')
		if len(line) > 0 {
			var req request
			var res []*result
			if e := json.Unmarshal(line, &req); e != nil {
				res = []*result{{Panic: "bad request: " + e.Error()}}
			} else {
				res = handleAll(&req)
			}
			b, _ := json.Marshal(res)
			out.Write(b)
			out.WriteByte('\n')
			out.Flush()
		}
		if err != nil {
			return
		}
	}
}
